(* The conversation main() drives in a given mode, derived from the regenerated wiring (Gen/MainWiring.v)
   and the regenerated driver skeletons (Gen/DriverSkel.v). *)
From Coq Require Import List String Bool Arith ZArith.
Require Import DriverTypes Driver.
Import ListNotations.
Open Scope string_scope.

Definition cfgmap := list (string * Z).
Fixpoint cfg_get (c:cfgmap) (k:string) : Z :=
  match c with [] => 0%Z | (k', v) :: r => if String.eqb k k' then v else cfg_get r k end.
(* loop bounds of main(): configuration fields and stgutg.Min; a negative bound runs the loop zero times *)
Fixpoint eval_bound (c:cfgmap) (b:bound) : option Z :=
  match b with
  | BCfg f => Some (cfg_get c f)
  | BMin x y => match eval_bound c x, eval_bound c y with Some a, Some b => Some (Z.min a b) | _, _ => None end
  | _ => None
  end.
Fixpoint skel_of (skels:list (string * list event)) (proc:string) : option (list event) :=
  match skels with [] => None | (n, s) :: r => if String.eqb proc ("stgutg." ++ n) then Some s else skel_of r proc end.
Definition blocks_of_calls (skels:list (string * list event)) (cs:list call) : list (list event) :=
  flat_map (fun c => match skel_of skels (c_proc c) with Some s => [s] | None => [] end) cs.
Fixpoint repeat_blocks (n:nat) (bs:list (list event)) : list (list event) :=
  match n with O => [] | S k => bs ++ repeat_blocks k bs end.
Definition blocks_of_step (skels:list (string * list event)) (c:cfgmap) (s:step) : list (list event) :=
  match s with
  | Straight cs => blocks_of_calls skels cs
  | Loop b cs => match eval_bound c b with
                 | Some n => repeat_blocks (Z.to_nat n) (blocks_of_calls skels cs)
                 | None => [[Unrecognised "loop bound"]] end
  end.
Definition blocks_of (skels:list (string * list event)) (w:list step) (c:cfgmap) : list (list event) :=
  flat_map (blocks_of_step skels c) w.
Definition conversation_of skels w c : list event := conversation (blocks_of skels w c).

(* which Decoder results may go unchecked: only the one after the last Read of RegisterUE (the reply to
   Registration Complete, which the property does not list among the consumed replies) *)
Fixpoint decodes_checked (evs:list event) : bool :=
  match evs with
  | [] => true
  | [Ev ED _ _] => true                      (* a trailing decode may be ignored *)
  | Ev ED c _ :: r => c && decodes_checked r
  | _ :: r => decodes_checked r
  end.
Definition skeleton_ok (p:string * list event) : bool :=
  wr_checked (snd p) &&
  (if String.eqb (fst p) "RegisterUE" then decodes_checked (snd p)
   else forallb (fun e => match e with Ev ED c _ => c | _ => true end) (snd p)).

(* number of downlink messages still unread when the j-th uplink message is written, given how many
   downlink messages the peer sends in answer to each uplink message *)
Fixpoint reads_before_w (evs:list event) (j:nat) : nat :=
  match evs with
  | [] => 0
  | Ev EW _ _ :: r => match j with O => 0 | S j' => reads_before_w r j' end
  | Ev ER _ _ :: r => S (reads_before_w r j)
  | _ :: r => reads_before_w r j
  end.
Definition queued_before (evs:list event) (nrep:list nat) (j:nat) : nat :=
  fold_left Nat.add (firstn j nrep) 0 - reads_before_w evs j.
Definition count_w (evs:list event) : nat := List.length (filter (fun e => match e with Ev EW _ _ => true | _ => false end) evs).

(* is the downlink message that has q others queued in front of it when the j-th uplink message is written ever read? *)
Fixpoint nth_read_exists (evs:list event) (q:nat) : bool :=
  match evs with
  | [] => false
  | Ev ER _ _ :: r => match q with O => true | S q' => nth_read_exists r q' end
  | _ :: r => nth_read_exists r q
  end.
Fixpoint is_read (evs:list event) (j q:nat) : bool :=
  match evs with
  | [] => false
  | Ev EW _ _ :: r => match j with O => nth_read_exists r q | S j' => is_read r j' q end
  | _ :: r => is_read r j q
  end.
