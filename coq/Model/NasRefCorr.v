(* C09 correspondence: constructor outputs read by the TS 24.501 reference parser, reference-encoded messages read
   by the Go decoder, and the library model's view of a message in the vocabulary of the reference codec.
   Definitions only. *)
From Coq Require Import NArith List Bool String.
Require Import Bytes NasValue NasCodec NasDesc NasCorr TS24501Tables TS24501 NasLayout.
Import ListNotations.
Open Scope list_scope.
Open Scope N_scope.

(* ---- the tables, flattened to numbers for the Python generators:
   (epd, type, mandatory units, optional units); unit = (kind, IEI, lw, n | lo, hi (0 = unbounded), uncertain)
   kind: 0 V, 1 LV, 2 TV-half, 3 TV, 4 TLV *)
Definition unit_dump (u:unit_row) : N * N * N * N * N * N :=
  let unc := if u_uncertain u then 1 else 0 in
  match u_kind u with
  | UV n => (0, u_iei u, 0, n, n, unc)
  | ULV lw lo hi => (1, u_iei u, N.of_nat lw, lo, match hi with Some h => h | None => 0 end, unc)
  | UThalf => (2, u_iei u, 0, 1, 1, unc)
  | UTV n => (3, u_iei u, 0, n, n, unc)
  | UTLV lw lo hi => (4, u_iei u, N.of_nat lw, lo, match hi with Some h => h | None => 0 end, unc)
  end.
Definition table_dump : list (N * N * list (N * N * N * N * N * N) * list (N * N * N * N * N * N)) :=
  map (fun t => (tb_epd t, tb_type t,
                 match mand_units (tb_mand t) with Some us => map unit_dump us | None => [] end,
                 match opt_units (tb_opt t) with Some us => map unit_dump us | None => [] end)) ts24501_tables.

(* ---- the library's message in reference vocabulary *)

Fixpoint view_fields (nf:list nf_field) (m:msg) (opt:bool) : list fval :=
  match nf, m with
  | x :: nf', (_, v) :: m' =>
      (if Bool.eqb (nf_opt x) opt && fv_present v then [ref_view x v] else []) ++ view_fields nf' m' opt
  | _, _ => [] end.
Definition lib_view (x:nas_message) : option (list fval * list fval) :=
  match find_desc d_name (n_struct x) all_msg_descs with
  | Some d => match nf_of d with
              | Some nf => Some (view_fields nf (n_fields x) false, view_fields nf (n_fields x) true)
              | None => None end
  | None => None end.

Definition present_only (l:list fval) : list fval := filter fv_present l.
Definition same_set (a b:list fval) : bool :=
  Nat.eqb (List.length a) (List.length b) && forallb (fun x => existsb (eqb_fval x) b) a.

(* ---- nasctor: bytes of a constructor; the reference parser must read the intended values *)
Definition ctor_case := (bytes * list fval * list fval)%type.    (* bytes, intended mandatory values, intended optional IEs *)
Definition ctor_spec_check (c:ctor_case) : bool :=
  let '(bs, mand, opt) := c in
  match ref_parse_any bs with
  | Ok (_, (pm, po)) => eqb_vals pm mand && same_set (present_only po) opt
  | _ => false end.
(* and the library's own decoder (model) sees the same message as the reference parser *)
Definition ctor_model_check (c:ctor_case) : bool :=
  let '(bs, _, _) := c in
  match ref_parse_any bs, lib_decode bs with
  | Ok (_, (pm, po)), Ok m => match lib_view m with
                             | Some (lm, lo) => eqb_vals pm lm && eqb_vals (present_only po) lo
                             | None => false end
  | _, _ => false end.
Definition ctor_expect (c:ctor_case) := ref_parse_any (fst (fst c)).

(* ---- refenc: a message built by the reference encoder, decoded by the Go library *)
Definition refenc_case := (N * N * list fval * list fval * bytes * odec)%type.
Definition ref_encode_case (c:N * N * list fval * list fval) : res bytes :=
  let '(epd, ty, mand, opt) := c in
  match find_table epd ty with Some t => ref_encode t mand opt | None => Err "no table" end.
(* the Go decoder recovers the intended values, and re-encoding gives the reference bytes *)
Definition refenc_spec_check (c:refenc_case) : bool :=
  let '(epd, ty, mand, opt, bs, o) := c in
  match ref_encode_case (epd, ty, mand, opt), o with
  | Ok b, OD m (OB re) =>
      eqb_bytes b bs && eqb_bytes re bs &&
      match lib_view m with Some (lm, lo) => eqb_vals lm mand && eqb_vals lo (present_only opt) | None => false end
  | _, _ => false end.
Definition refenc_model_check (c:refenc_case) : bool :=
  let '(_, _, _, _, bs, o) := c in nasdec_check (bs, o).
Definition refenc_expect (c:refenc_case) :=
  let '(epd, ty, mand, opt, bs, o) := c in (ref_encode_case (epd, ty, mand, opt), lib_decode bs).
