(* Deep embedding shared by the APER encoder and decoder models (free5gclib/aper):
   - [params]  = aper/common.go fieldParameters (defaultValue is parsed by the library but never used)
   - [ty]      = what makeField / parseField dispatch on (reflect kind + the four types of asn_type.go)
   - [val]     = Go values of these types
   - GetBitString / GetBitsValue of aper.go, which both directions use. *)
From Coq Require Import NArith ZArith List Bool String.
Require Import GoSlice.
Import ListNotations.
Open Scope N_scope.

Record params := mkp {
  p_optional : bool; p_sizeExt : bool; p_valueExt : bool; p_openType : bool;
  p_sizeLB : option Z; p_sizeUB : option Z; p_valueLB : option Z; p_valueUB : option Z;
  p_refValue : option Z; p_refName : string }.

Definition p_empty : params := mkp false false false false None None None None None "".

Inductive ty :=
| TInt            (* reflect.Int / Int32 / Int64 (all 8 bytes wide in ngapType) *)
| TEnum           (* aper.Enumerated *)
| TBool
| TBits           (* aper.BitString *)
| TOctets         (* aper.OctetString *)
| TString         (* Go string, treated as PrintableString *)
| TOid            (* aper.ObjectIdentifier: refused by the library *)
| TSlice (e : ty)
| TPtr (e : ty)
| TStruct (fields : list (string * params * ty)).

Definition field := (string * params * ty)%type.
Definition f_name (f : field) : string := fst (fst f).
Definition f_params (f : field) : params := snd (fst f).
Definition f_ty (f : field) : ty := snd f.

Inductive val :=
| VInt (z : Z)                          (* int64 *)
| VEnum (n : N)                         (* uint64 *)
| VBool (b : bool)
| VBits (bs : list N) (nbits : N)       (* BitString{Bytes, BitLength} *)
| VOctets (bs : list N)                 (* OctetString, ObjectIdentifier, and the bytes of a string *)
| VList (l : list val)                  (* slice (nil and empty are not distinguished) *)
| VStruct (l : list val)                (* one value per field, in order *)
| VNil                                  (* nil pointer *)
| VPtr (v : val).                       (* non-nil pointer *)

(* ---- error identifiers (one per fmt.Errorf message of the package) *)
Definition E_BITS_OVERFLOW := 1.       Definition E_OVER_CAPACITY := 2.    Definition E_RANGE_NEG := 3.
Definition E_RANGE_BIG := 4.           Definition E_BITS_OVER_UB := 5.     Definition E_BITS_FIX := 6.
Definition E_OCT_OVER_UB := 7.         Definition E_OCT_FIX := 8.          Definition E_INT_SMALL := 9.
Definition E_INT_LARGE := 10.          Definition E_ENUM_CONSTR := 11.     Definition E_ENUM_EXT := 12.
Definition E_ENUM_LARGE := 13.         Definition E_ENUM_SMALL := 14.      Definition E_SEQOF_LARGE := 15.
Definition E_SEQOF_SMALL := 16.        Definition E_SEQOF_FIX := 17.       Definition E_CHOICE_NOUB := 18.
Definition E_CHOICE_NEGUB := 19.       Definition E_CHOICE_EXT := 20.      Definition E_NIL_VALUE := 21.
Definition E_OID := 22.                Definition E_UNEXPORTED := 23.      Definition E_NIL_IN_SEQ := 24.
Definition E_PRESENT_0 := 25.          Definition E_PRESENT_BIG := 26.     Definition E_OPEN_NOREF := 27.
Definition E_OPEN_MISMATCH := 28.      Definition E_OPEN_NOFIELD := 29.    Definition E_UNSUPPORTED := 30.
Definition E_REF_PRESENT_0 := 31.      Definition E_REF_NOT_INT := 32.     Definition E_ALIGN_NONZERO := 33.
Definition E_LEN_CONSTRAINT := 34.     Definition E_OUT_OF_RANGE := 35.    Definition E_TRUNCATED := 36.
Definition E_DEC_PRESENT_0 := 37.      Definition E_DEC_PRESENT_BIG := 38. Definition E_DEC_OPEN_BIG := 39.
(* the model was handed a value that does not have the shape of its type: cannot happen in Go *)
Definition P_ILLTYPED : N := 99.

(* ---- GetBitString(srcBytes, bitsOffset, numBits) (aper.go) *)
Fixpoint gbs_loop (cnt : nat) (i : N) (src dst : list N) (off : N) : res (list N) :=
  match cnt with
  | O => Ok dst
  | S c =>
      do a <- idx src (i - 1);
      do b <- idx src i;
      do dst' <- upd dst (i - 1) (N.lor (shl8 a off) (shr8 b (sub64 8 off)));
      gbs_loop c (i + 1) src dst' off
  end.

Definition GetBitString (src : list N) (bitsOffset numBits : N) : res (list N) :=
  let bitsLeft := sub64 (u64 (len src * 8)) bitsOffset in
  if bitsLeft <? numBits then Err E_BITS_OVERFLOW
  else if numBits =? 0 then Ok []
  else
    let byteLen := N.shiftr (u64 (bitsOffset + numBits + 7)) 3 in
    let numBitsByteLen := N.shiftr (u64 (numBits + 7)) 3 in
    do dst <- make_bytes numBitsByteLen;
    let modEight := N.land numBits 7 in
    let mask := if modEight =? 0 then 255 else shl8 255 (N.land (sub64 8 modEight) 255) in
    (* for i := 1; i < int(byteLen); i++ *)
    let cnt := if byteLen <? 9223372036854775808 then N.to_nat (byteLen - 1) else O in
    do dst <- gbs_loop cnt 1 src dst bitsOffset;
    do dst <- (if byteLen =? numBitsByteLen
               then (do a <- idx src (byteLen - 1); upd dst (byteLen - 1) (shl8 a bitsOffset))
               else Ok dst);
    do last <- idx dst (numBitsByteLen - 1);
    upd dst (numBitsByteLen - 1) (N.land last mask).

(* GetBitsValue *)
Fixpoint gbv_loop (cnt : nat) (i : N) (dst : list N) (value : N) : res N :=
  match cnt with
  | O => Ok value
  | S c => do b <- idx dst i; gbv_loop c (i + 1) dst (N.lor (shl64 value 8) b)
  end.

Definition GetBitsValue (src : list N) (bitsOffset numBits : N) : res N :=
  do dst <- GetBitString src bitsOffset numBits;
  (* for i, j := 0, numBits; j >= 8; i, j = i+1, j-8 *)
  do value <- gbv_loop (N.to_nat (numBits / 8)) 0 dst 0;
  let numBitsOff := N.land numBits 7 in
  if numBitsOff =? 0 then Ok value
  else
    let mask := (N.shiftl 1 numBitsOff) - 1 in
    do last <- idx dst (sub64 (len dst) 1);
    Ok (N.lor (shl64 value numBitsOff) (N.land (shr8 last (8 - numBitsOff)) mask)).

(* ---- zero values (what reflect.New / a fresh struct contains) *)
Fixpoint zero_val (t : ty) : val :=
  match t with
  | TInt => VInt 0
  | TEnum => VEnum 0
  | TBool => VBool false
  | TBits => VBits [] 0
  | TOctets | TString | TOid => VOctets []
  | TSlice _ => VList []
  | TPtr _ => VNil
  | TStruct fs => VStruct ((fix go (fs : list (string * params * ty)) : list val :=
                              match fs with [] => [] | (_, _, t') :: r => zero_val t' :: go r end) fs)
  end.

(* ---- unsafe.Sizeof / alignment on amd64 *)
Fixpoint go_alignof (t : ty) : N :=
  match t with
  | TBool => 1
  | TStruct fs => (fix go (fs : list (string * params * ty)) : N :=
                     match fs with [] => 1 | (_, _, t') :: r => N.max (go_alignof t') (go r) end) fs
  | _ => 8
  end.
Definition round_up (x a : N) : N := ((x + a - 1) / a) * a.
Fixpoint go_sizeof (t : ty) : N :=
  match t with
  | TInt | TEnum | TPtr _ => 8
  | TBool => 1
  | TBits => 32
  | TOctets | TOid | TSlice _ => 24
  | TString => 16
  | TStruct fs =>
      round_up ((fix go (fs : list (string * params * ty)) (off : N) : N :=
                   match fs with
                   | [] => off
                   | (_, _, t') :: r => go r (round_up off (go_alignof t') + go_sizeof t')
                   end) fs 0) (go_alignof t)
  end.

(* ---- boolean equality of values (the observable compared with the implementation) *)
Fixpoint list_eqb (a b : list N) : bool :=
  match a, b with [], [] => true | x :: a', y :: b' => (x =? y) && list_eqb a' b' | _, _ => false end.

Fixpoint val_eqb (a b : val) : bool :=
  match a, b with
  | VInt x, VInt y => (x =? y)%Z
  | VEnum x, VEnum y => x =? y
  | VBool x, VBool y => Bool.eqb x y
  | VBits x n, VBits y m => list_eqb x y && (n =? m)
  | VOctets x, VOctets y => list_eqb x y
  | VList x, VList y | VStruct x, VStruct y =>
      (fix go (x y : list val) : bool :=
         match x, y with [], [] => true | u :: x', w :: y' => val_eqb u w && go x' y' | _, _ => false end) x y
  | VNil, VNil => true
  | VPtr x, VPtr y => val_eqb x y
  | _, _ => false
  end.

(* ---- getReferenceFieldValue (aper.go): the INTEGER an open type is dispatched on *)
Definition is_choice (fs : list field) : bool :=
  match fs with f :: _ => String.eqb (f_name f) "Present" | [] => false end.

Fixpoint get_ref (fuel : nat) (t : ty) (v : val) : res Z :=
  match fuel with
  | O => OutOfFuel
  | S f =>
      match t, v with
      | TInt, VInt z => Ok z
      | TStruct fs, VStruct vs =>
          match fs with
          | [] => Panic P_REFLECT                                  (* fieldType.Field(0) on a struct without fields *)
          | f0 :: _ =>
              if String.eqb (f_name f0) "Present" then
                match vs with
                | VInt present :: _ =>
                    if (present =? 0)%Z then Err E_REF_PRESENT_0
                    else if (present >=? Z.of_nat (List.length fs))%Z then Err E_PRESENT_BIG
                    else if (present <? 0)%Z then Panic P_REFLECT  (* v.Field(negative) *)
                    else match nth_error fs (Z.to_nat present), nth_error vs (Z.to_nat present) with
                         | Some fp, Some vp => get_ref f (f_ty fp) vp
                         | _, _ => Panic P_ILLTYPED
                         end
                | _ => Panic P_ILLTYPED
                end
              else match vs with
                   | v0 :: _ => get_ref f (f_ty f0) v0
                   | [] => Panic P_ILLTYPED
                   end
          end
      | TInt, _ | TStruct _, _ => Panic P_ILLTYPED
      | _, _ => Err E_REF_NOT_INT
      end
  end.
Definition REF_FUEL : nat := 16.

(* index of the first field among the first [i] whose name is [name] (the Go loop `for index = 0; index < i`) *)
Fixpoint find_field (name : string) (fs : list field) (i : nat) (k : nat) : nat :=
  match i with
  | O => k
  | S i' => match fs with
            | [] => k
            | f :: r => if String.eqb (f_name f) name then k else find_field name r i' (S k)
            end
  end.
