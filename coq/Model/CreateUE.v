(* Model of stgutg.CreateUE (src/stgutg/ue.go), tglib.NewRanUeContext and
   RanUeContext.GetUESecurityCapability (src/tglib/ranUe.go).
   Strings are lists of code units (N); Go's int is 64-bit and nothing here reaches 2^63 for the
   inputs the model accepts (at most 18 digits), which [imsi_modelled] states. *)
From Coq Require Import NArith ZArith List Bool.
Require Import Dec.
Import ListNotations.
Open Scope N_scope.

(* strconv.Atoi on the configured IMSI; the error is printed and ignored by CreateUE, leaving 0.
   Modelled for unsigned digit strings of at most 18 characters (fast path of Atoi, no overflow). *)
Definition imsi_modelled (s:list N) : bool := Nat.leb (length s) 18.
Definition atoi_or_0 (s:list N) : N :=
  match s with
  | [] => 0
  | _ => if ascii_digits_ok s then undec (of_ascii s) else 0
  end.

Definition ascii_imsi_dash : list N := [105;109;115;105;45].     (* "imsi-" *)

Record ue := { u_supi : list N; u_ranid : N; u_ea : N; u_ia : N }.

(* security.AlgCiphering128NEA0 = 0, security.AlgIntegrity128NIA2 = 2 are what CreateUE passes *)
Definition create_ue (imsi:list N) (ueNumber:N) : ue :=
  let v := atoi_or_0 imsi + ueNumber in
  {| u_supi := ascii_imsi_dash ++ to_ascii (pad0 (length imsi) v);   (* fmt.Sprintf("imsi-%0*d", len(imsi), v) *)
     u_ranid := v mod 10000;                                        (* (parsedIMSI + ueNumber) % 1e4 *)
     u_ea := 0; u_ia := 2 |}.

(* GetUESecurityCapability: Buffer = {0,0}; one Set<alg>(1) per switch; other algorithm ids set nothing *)
Definition set_bit (b:N) (keep:N) (sh:N) : N := (N.land b keep + N.shiftl 1 sh) mod 256.
Definition sec_cap (ea ia:N) : list N :=
  let b0 := 0 in let b1 := 0 in
  let b0 := if ea =? 0 then set_bit b0 127 7 else if ea =? 1 then set_bit b0 191 6
            else if ea =? 2 then set_bit b0 223 5 else if ea =? 3 then set_bit b0 239 4 else b0 in
  let b1 := if ia =? 0 then set_bit b1 127 7 else if ia =? 1 then set_bit b1 191 6
            else if ia =? 2 then set_bit b1 223 5 else if ia =? 3 then set_bit b1 239 4 else b1 in
  [b0; b1].

(* ---- correspondence: one case = (imsi, start, observed (supi, ranid) list, ea, ia, cap) *)
Fixpoint ues_from (imsi:list N) (start:N) (n:nat) : list (list N * N) :=
  match n with O => [] | S k => let u := create_ue imsi start in (u_supi u, u_ranid u) :: ues_from imsi (start + 1) k end.
Fixpoint eqb_list (a b:list N) : bool :=
  match a, b with [], [] => true | x::a', y::b' => (x =? y) && eqb_list a' b' | _, _ => false end.
Fixpoint eqb_pairs (a b:list (list N * N)) : bool :=
  match a, b with [], [] => true
  | (s,r)::a', (s',r')::b' => eqb_list s s' && (r =? r') && eqb_pairs a' b' | _, _ => false end.
Definition c16_case := (list N * N * list (list N * N) * (N * N * list N))%type.
Definition c16_check (c:c16_case) : bool :=
  let '(imsi, start, obs, (ea, ia, cap)) := c in
  eqb_pairs (ues_from imsi start (length obs)) obs &&
  match obs with [] => true | _ => (ea =? 0) && (ia =? 2) && eqb_list cap (sec_cap 0 2) end.
Definition seccap_check (c:N * N * list N) : bool := let '(ea, ia, cap) := c in eqb_list cap (sec_cap ea ia).
