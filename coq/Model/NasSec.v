(* Model of the NAS security envelope of the emulator:
     tglib.NASEncode (src/tglib/security.go) as reached through tglib.EncodeNasPduWithSecurity (src/tglib/packet.go),
     tglib.NASDecode (src/tglib/security.go) as reached through tglib.GetNasPdu (src/tglib/decode.go).
   The NAS message codec itself (PlainNasDecode / PlainNasEncode) is property C08's: here the interface is the
   octet string PlainNasEncode returns inside NASEncode ([plain]) and the octet string NASDecode hands to
   PlainNasDecode (the [Ok] result of [nas_decode]).
   The two cryptographic entry points security.NASEncrypt / security.NASMacCalculate are Section variables
     enc alg key count bearer direction payload = Some payload'   (payload' = content of the slice after the in-place call)
                                               | None             (the Go function returns an error)
     mac alg key count bearer direction msg     = Some mac | None  (NIA0: Some [], the Go function returns (nil, nil))
   instantiated with Model/Security.v's nas_encrypt / nas_mac in Model/NasSecInst.v.
   State = the fields of RanUeContext the two functions read or write.  Slices: the harness passes packets whose
   capacity equals their length, so slice expressions are checked against the length. *)
From Coq Require Import NArith List Bool.
Require Import Bytes Count.
Import ListNotations.
Open Scope N_scope.

Record ue_state := mk_ue { ul : N; dl : N; ea : N; ia : N; kenc : bytes; kint : bytes }.
Definition with_ul (st:ue_state) (u:N) : ue_state := mk_ue u (dl st) (ea st) (ia st) (kenc st) (kint st).
Definition with_dl (st:ue_state) (d:N) : ue_state := mk_ue (ul st) d (ea st) (ia st) (kenc st) (kint st).

Inductive nres (A:Type) : Type := Ok (a:A) | Err | Panic.
Arguments Ok {A} a. Arguments Err {A}. Arguments Panic {A}.

(* constants of src/free5gclib/nas/nas.go, nasMessage, security/parameters.go *)
Definition SecurityHeaderTypePlainNas : N := 0.
Definition SecurityHeaderTypeIntegrityProtected : N := 1.
Definition SecurityHeaderTypeIntegrityProtectedAndCiphered : N := 2.
Definition SecurityHeaderTypeIntegrityProtectedWithNew5gNasSecurityContext : N := 3.
Definition SecurityHeaderTypeIntegrityProtectedAndCipheredWithNew5gNasSecurityContext : N := 4.
Definition Epd5GSMobilityManagementMessage : N := 0x7E.
Definition Bearer3GPP : N := 1.
Definition DirectionUplink : N := 0.
Definition DirectionDownlink : N := 1.
Definition AlgIntegrity128NIA0 : N := 0.

Definition ciphered_type (t:N) : bool :=
  (t =? SecurityHeaderTypeIntegrityProtectedAndCiphered) ||
  (t =? SecurityHeaderTypeIntegrityProtectedAndCipheredWithNew5gNasSecurityContext).
Definition newctx_type (t:N) : bool :=
  (t =? SecurityHeaderTypeIntegrityProtectedWithNew5gNasSecurityContext) ||
  (t =? SecurityHeaderTypeIntegrityProtectedAndCipheredWithNew5gNasSecurityContext).

Section Crypto.
Variable enc : N -> list N -> N -> N -> N -> list N -> option (list N).
Variable mac : N -> list N -> N -> N -> N -> list N -> option (list N).

(* func NASEncode(ue *RanUeContext, msg *nas.Message, securityContextAvailable bool, newSecurityContext bool)
   with plain = msg.PlainNasEncode(), hdr = msg.SecurityHeader.SecurityHeaderType, epd = msg.SecurityHeader.ProtocolDiscriminator.
   The state is returned on every path: an error after the new-context reset leaves both counters at zero,
   an error anywhere leaves ULCount not incremented. *)
Definition nas_encode (st:ue_state) (plain:bytes) (hdr:N) (avail newctx:bool) (epd:N) : ue_state * nres bytes :=
  if negb avail then (st, Ok plain)
  else
    (* if newSecurityContext { ue.ULCount.Set(0, 0); ue.DLCount.Set(0, 0) } *)
    let st := if newctx then with_dl (with_ul st (cnt_set (ul st) 0 0)) (cnt_set (dl st) 0 0) else st in
    let sequenceNumber := cnt_sqn (ul st) in
    (* payload, err = msg.PlainNasEncode(): plain.  Ciphering only under header types 2 and 4 (fix c13f718) *)
    let '(st, ciphered) :=
      if ciphered_type hdr then
        let '(u, c) := cnt_get (ul st) in
        (with_ul st u, enc (ea st) (kenc st) c Bearer3GPP DirectionUplink plain)
      else (st, Some plain) in
    match ciphered with
    | None => (st, Err)
    | Some payload =>
      let payload := sequenceNumber :: payload in                        (* append([]byte{sequenceNumber}, payload[:]...) *)
      let '(u, c) := cnt_get (ul st) in
      let st := with_ul st u in
      match mac (ia st) (kint st) c Bearer3GPP DirectionUplink payload with
      | None => (st, Err)
      | Some mac32 =>                                                    (* NIA0: nil, nothing is prepended *)
        let payload := mac32 ++ payload in
        let payload := [epd; hdr] ++ payload in
        (with_ul st (cnt_addone (ul st)), Ok payload)
      end
    end.

(* func EncodeNasPduWithSecurity(ue, pdu, securityHeaderType, securityContextAvailable, newSecurityContext):
   plain = None when m.PlainNasDecode(&pdu) fails (returned before anything is touched). *)
Definition encode_nas_pdu_with_security (st:ue_state) (plain:option bytes) (hdr:N) (avail newctx:bool) : ue_state * nres bytes :=
  match plain with
  | None => (st, Err)
  | Some p => nas_encode st p (w8 hdr) avail newctx Epd5GSMobilityManagementMessage
  end.

(* func NASDecode(ue *RanUeContext, securityHeaderType uint8, payload []byte) up to the octets handed to PlainNasDecode.
   payload is never nil here (GetNasPdu passes the NAS-PDU octet string). *)
Definition nas_decode (st:ue_state) (securityHeaderType:N) (payload:bytes) : ue_state * nres bytes :=
  if securityHeaderType =? SecurityHeaderTypePlainNas then (st, Ok payload)
  else if ia st =? AlgIntegrity128NIA0 then
    if Nat.ltb (length payload) 3 then (st, Panic)                         (* payload[3:] *)
    else
      let payload := skipn 3 payload in
      let '(d, c) := cnt_get (dl st) in
      let st := with_dl st d in
      match enc (ea st) (kenc st) c Bearer3GPP DirectionDownlink payload with
      | None => (st, Err)
      | Some payload => (st, Ok payload)
      end
  else
    let st := if newctx_type securityHeaderType then with_dl st (cnt_set (dl st) 0 0) else st in
    if Nat.ltb (length payload) 6 then (st, Panic)                         (* payload[0:6] *)
    else match nth_error payload 6 with
    | None => (st, Panic)                                                 (* payload[6] *)
    | Some sequenceNumber =>
      let payload := skipn 6 payload in
      (* if ue.DLCount.SQN() > sequenceNumber { ue.DLCount.SetOverflow(ue.DLCount.Overflow() + 1) }; SetSQN *)
      let d := dl st in
      let d := if sequenceNumber <? cnt_sqn d then cnt_bump_overflow d else d in
      let d := cnt_setsqn d sequenceNumber in
      let '(d, c) := cnt_get d in
      let st := with_dl st d in
      (* the inner test ue.IntegrityAlg != NIA0 is always true on this branch; the MAC is computed and a
         mismatch with payload[2:6] is only printed *)
      match mac (ia st) (kint st) c Bearer3GPP DirectionDownlink payload with
      | None => (st, Err)
      | Some _ =>
        let payload := skipn 1 payload in
        if ciphered_type securityHeaderType then                          (* fix df48697: types 2 and 4 only, DIRECTION=downlink *)
          let '(d, c) := cnt_get (dl st) in
          let st := with_dl st d in
          match enc (ea st) (kenc st) c Bearer3GPP DirectionDownlink payload with
          | None => (st, Err)
          | Some payload => (st, Ok payload)
          end
        else (st, Ok payload)
      end
    end.

(* tglib.GetNasPdu: NASDecode(ue, nas.GetSecurityHeaderType(pkg), pkg) with GetSecurityHeaderType = byteArray[1] *)
Definition get_nas_pdu (st:ue_state) (pkg:bytes) : ue_state * nres bytes :=
  match nth_error pkg 1 with
  | None => (st, Panic)
  | Some t => nas_decode st t pkg
  end.

(* ---- histories: what the harness command nashist does to ONE RanUeContext *)
Inductive hop :=
| HSend (plain:option bytes) (hdr:N) (avail newctx:bool)
| HSetUL (ovf sqn:N)
| HSetDL (ovf sqn:N)
| HRecv (pkt:bytes).

Definition hstep (st:ue_state) (o:hop) : ue_state * nres bytes :=
  match o with
  | HSend p h a n => encode_nas_pdu_with_security st p h a n
  | HSetUL o s => (with_ul st (cnt_set (ul st) o s), Ok [])
  | HSetDL o s => (with_dl st (cnt_set (dl st) o s), Ok [])
  | HRecv pkt => get_nas_pdu st pkt
  end.

(* outputs in order, with ULCount.Get() and DLCount.Get() after each op *)
Fixpoint hrun (st:ue_state) (ops:list hop) : list (nres bytes * N * N) :=
  match ops with
  | [] => []
  | o :: r => let '(st', res) := hstep st o in
              let st' := with_dl (with_ul st' (cnt_mask (ul st'))) (cnt_mask (dl st')) in
              (res, ul st', dl st') :: hrun st' r
  end.
End Crypto.

Definition init_ue (ea ia:N) (kenc kint:bytes) : ue_state := mk_ue 0 0 ea ia kenc kint.
