(* C02: the schedule of test mode — which procedure runs for which UE index, in which order — derived from the
   regenerated wiring of main() (Gen/MainWiring.v); the session identity the emulator uses (src/stgutg/pdu.go,
   service.go: pduId := supiInt % 1e4, uint8(pduId) towards NAS, pduId towards NGAP). *)
From Coq Require Import List String Bool Arith ZArith Lia.
Require Import DriverTypes DriverConv.
Import ListNotations.
Open Scope string_scope.

(* (procedure, UE index) in execution order *)
Fixpoint indexed (n:nat) (i:nat) (procs:list string) : list (string * nat) :=
  match n with O => [] | S k => List.app (map (fun p => (p, i)) procs) (indexed k (S i) procs) end.
Definition schedule_of_step (c:cfgmap) (s:step) : list (string * nat) :=
  match s with
  | Straight cs => []
  | Loop b cs => match eval_bound c b with
                 | Some n => indexed (Z.to_nat n) 0 (map c_proc cs)
                 | None => [] end
  end.
Definition schedule (w:list step) (c:cfgmap) : list (string * nat) := flat_map (schedule_of_step c) w.

(* prerequisites of each per-UE procedure *)
Definition prerequisite (p:string) : option string :=
  if String.eqb p "stgutg.EstablishPDU" then Some "stgutg.RegisterUE"
  else if String.eqb p "stgutg.ServiceRequest" then Some "stgutg.EstablishPDU"
  else if String.eqb p "stgutg.ReleasePDU" then Some "stgutg.EstablishPDU"
  else if String.eqb p "stgutg.DeregisterUE" then Some "stgutg.RegisterUE"
  else None.

(* every scheduled (p, i) is preceded in the schedule by (prerequisite p, i) *)
Fixpoint prereqs_met (done:list (string * nat)) (todo:list (string * nat)) : bool :=
  match todo with
  | [] => true
  | (p, i) :: r =>
      (match prerequisite p with
       | Some q => existsb (fun d => String.eqb (fst d) q && Nat.eqb (snd d) i) done
       | None => true end)
      && prereqs_met ((p, i) :: done) r
  end.

(* loop bounds as sets of configuration fields combined by min: b1 below b2 whenever every field of b2 occurs in b1 *)
Fixpoint bound_leaves (b:bound) : option (list string) :=
  match b with
  | BCfg f => Some [f]
  | BMin x y => match bound_leaves x, bound_leaves y with Some a, Some c => Some (List.app a c) | _, _ => None end
  | _ => None
  end.
Definition bound_le (b1 b2:bound) : bool :=
  match bound_leaves b1, bound_leaves b2 with
  | Some l1, Some l2 => forallb (fun f => existsb (String.eqb f) l1) l2
  | _, _ => false
  end.
Definition loop_bound (w:list step) (proc:string) : option bound :=
  match find (fun s => match s with Loop _ cs => existsb (fun c => String.eqb (c_proc c) proc) cs | _ => false end) w with
  | Some (Loop b _) => Some b
  | _ => None
  end.
(* the clamps: each dependent loop is bounded by its prerequisite's loop, and the loops run in dependency order *)
Fixpoint before (w:list step) (p q:string) : bool :=       (* the loop running p comes strictly before the loop running q *)
  match w with
  | [] => false
  | Loop _ cs :: r =>
      if existsb (fun c => String.eqb (c_proc c) p) cs
      then existsb (fun s => match s with Loop _ cs' => existsb (fun c => String.eqb (c_proc c) q) cs' | _ => false end) r
      else before r p q
  | _ :: r => before r p q
  end.
Definition clamp_ok (w:list step) (p:string) : bool :=
  match prerequisite p with
  | None => true
  | Some q => match loop_bound w p, loop_bound w q with
              | Some bp, Some bq => bound_le bp bq && before w q p
              | _, _ => false end
  end.
Definition clamps_ok (w:list step) : bool :=
  forallb (clamp_ok w) ["stgutg.EstablishPDU"; "stgutg.ServiceRequest"; "stgutg.ReleasePDU"; "stgutg.DeregisterUE"].

(* ---- session identity *)
Definition pdu_id (supi_value:Z) : Z := supi_value mod 10000.            (* supiInt % 1e4 *)
Definition nas_session_id (supi_value:Z) : Z := (pdu_id supi_value) mod 256.   (* uint8(pduId) *)
Definition ngap_session_id (supi_value:Z) : option Z :=                  (* PDUSessionID INTEGER (0..255): refused above *)
  if (pdu_id supi_value <=? 255)%Z then Some (pdu_id supi_value) else None.
