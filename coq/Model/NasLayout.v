(* C09: the wire layout the library implements (normal form of the regenerated descriptors, Model/NasCodec.v nf_of)
   set against the TS 24.501 tables (Spec/TS24501Tables.v through the units of Spec/TS24501.v).  Definitions only. *)
From Coq Require Import NArith List Bool String.
Require Import Bytes NasValue NasCodec NasDesc NasCorr TS24501Tables TS24501.
Import ListNotations.
Open Scope string_scope.
Open Scope list_scope.
Open Scope N_scope.

Definition hi_le (hi:option N) (n:N) : bool := match hi with Some h => h <=? n | None => true end.
Definition fixed_is (lo:N) (hi:option N) (n:N) : bool := (lo =? n) && match hi with Some h => h =? n | None => false end.

(* does the library's format of a field realise the table's unit?  (IEI compared separately) *)
Definition fmt_conforms (w:wire_fmt) (k:unit_kind) : bool :=
  match k with
  | UV n => negb (w_tag w) && Nat.eqb (w_lenw w) 0 && match w_body w with WFixed m => N.of_nat m =? n | _ => false end
  | ULV lw lo hi =>
      negb (w_tag w) && Nat.eqb (w_lenw w) lw && (Nat.eqb lw 1 || Nat.eqb lw 2) &&
      match w_body w with
      | WBuf => true
      | WFixed m => fixed_is lo hi (N.of_nat m)      (* the library always sends m octets *)
      | WUpto m => hi_le hi (N.of_nat m) && match hi with Some _ => true | None => false end
      end
  | UThalf => w_tag w && w_half w
  | UTV n => w_tag w && negb (w_half w) && Nat.eqb (w_lenw w) 0 && match w_body w with WFixed m => N.of_nat m =? n | _ => false end
  | UTLV lw lo hi =>
      w_tag w && negb (w_half w) && Nat.eqb (w_lenw w) lw && (Nat.eqb lw 1 || Nat.eqb lw 2) &&
      match w_body w with
      | WBuf => true
      | WFixed m => fixed_is lo hi (N.of_nat m)
      | WUpto m => hi_le hi (N.of_nat m) && match hi with Some _ => true | None => false end
      end
  end.

Definition is_half_unit (u:unit_row) : bool := match u_kind u with UThalf => true | _ => false end.
Definition same_ie (x:nf_field) (u:unit_row) : bool :=
  (nf_iei x =? u_iei u) && Bool.eqb (w_half (nf_fmt x)) (is_half_unit u).

(* a difference between library and table: (EPD, message type, IEI (0 = mandatory part / whole message), what) *)
Definition diff := (N * N * N * string)%type.

Fixpoint mand_diffs (epd mt:N) (xs:list nf_field) (us:list unit_row) : list diff :=
  match xs, us with
  | [], [] => []
  | x :: xs', u :: us' =>
      (if fmt_conforms (nf_fmt x) (u_kind u) then [] else [(epd, mt, 0, String.append "mandatory field differs from the table: " (u_name u))])
      ++ mand_diffs epd mt xs' us'
  | _ :: _, [] => [(epd, mt, 0, "library has more mandatory fields than the table")]
  | [], _ :: _ => [(epd, mt, 0, "library has fewer mandatory fields than the table")]
  end.

Definition opt_diffs (epd mt:N) (xs:list nf_field) (us:list unit_row) : list diff :=
  let unc := filter u_uncertain us in
  let us' := filter (fun u => negb (u_uncertain u)) us in
  let xs' := filter (fun x => negb (existsb (same_ie x) unc)) xs in
  flat_map (fun x => match find (same_ie x) us' with
                     | None => [(epd, mt, nf_iei x, String.append "IE of the library is not in the table: " (nf_name x))]
                     | Some u => if fmt_conforms (nf_fmt x) (u_kind u) then []
                                 else [(epd, mt, nf_iei x, String.append "format/length differs from the table: " (u_name u))]
                     end) xs'
  ++ flat_map (fun u => if existsb (fun x => same_ie x u) xs' then []
                        else [(epd, mt, u_iei u, String.append "IE of the table is not in the library: " (u_name u))]) us'
  ++ (let common_l := map nf_iei (filter (fun x => existsb (same_ie x) us') xs') in
      let common_t := map u_iei (filter (fun u => existsb (fun x => same_ie x u) xs') us') in
      if eqb_list N.eqb common_l common_t then [] else [(epd, mt, 0, "optional IEs are not in the order of the table")]).

Definition msg_diffs (epd mt:N) (d:msg_desc) : list diff :=
  match find_table epd mt, nf_of d with
  | None, _ => [(epd, mt, 0, "message type is not defined in TS 24.501 clause 8")]
  | _, None => [(epd, mt, 0, "descriptor has no normal form")]
  | Some t, Some nf =>
      match mand_units (tb_mand t), opt_units (tb_opt t) with
      | Some mu, Some ou =>
          mand_diffs epd mt (filter (fun x => negb (nf_opt x)) nf) mu ++ opt_diffs epd mt (filter nf_opt nf) ou
      | _, _ => [(epd, mt, 0, "table unusable")] end
  end.

Definition epd_of_table (h:dispatch) : N :=
  match find (fun e => String.eqb (snd e) (h_name h)) (p_epd_decode plain_dispatch) with Some e => fst e | None => 0 end.

Definition table_diffs (h:dispatch) : list diff :=
  let epd := epd_of_table h in
  flat_map (fun e => match find_desc d_dec_func (snd (snd e)) all_msg_descs with
                     | Some d => msg_diffs epd (fst e) d
                     | None => [(epd, fst e, 0, "no descriptor")] end) (h_decode h)
  ++ flat_map (fun t => if (tb_epd t =? epd) && negb (existsb (fun e => fst e =? tb_type t) (h_decode h))
                        then [(epd, tb_type t, 0, String.append "message of TS 24.501 unknown to the library: " (tb_name t))] else [])
              ts24501_tables.

Definition layout_diffs : list diff := table_diffs gmm_dispatch ++ table_diffs gsm_dispatch.

Definition diff_key (x:diff) : N * N * N := fst x.
Definition eqb_key (a b:N * N * N) : bool :=
  let '(a1, a2, a3) := a in let '(b1, b2, b3) := b in (a1 =? b1) && (a2 =? b2) && (a3 =? b3).

(* the differences are exactly the listed deviations *)
Definition layout_conforms_except (dev:list (N * N * N)) : bool :=
  forallb (fun x => existsb (eqb_key (diff_key x)) dev) layout_diffs &&
  forallb (fun k => existsb (fun x => eqb_key (diff_key x) k) layout_diffs) dev.

(* rows left out of the comparison *)
Definition uncertain_rows : list (string * N * string) :=
  flat_map (fun t => map (fun r => (tb_name t, r_iei r, r_name r)) (filter r_uncertain (tb_mand t ++ tb_opt t))) ts24501_tables.

(* ---------------------------------------------------------------- conformance of a message to a table *)
(* the library sends all N octets of a fixed Octet whatever Len says; the standard format carries Len octets *)
Definition strict_val (x:nf_field) (v:fval) : bool :=
  if fv_present v then
    match w_body (nf_fmt x), w_lenw (nf_fmt x) with
    | WFixed n, S _ => fv_len v =? N.of_nat n
    | _, _ => true end
  else true.
(* value length within the bounds of the table row *)
Definition in_bounds (u:unit_row) (v:fval) : bool :=
  if fv_present v then
    match u_kind u with ULV _ lo hi | UTLV _ lo hi => within (fv_len v) lo hi | _ => true end
  else true.

(* field-by-field agreement of a descriptor with a table (no uncertain row, no deviation) *)
Fixpoint units_conform (opt:bool) (xs:list nf_field) (us:list unit_row) : bool :=
  match xs, us with
  | [], [] => true
  | x :: xs', u :: us' =>
      fmt_conforms (nf_fmt x) (u_kind u) && (if opt then same_ie x u else true) && units_conform opt xs' us'
  | _, _ => false end.
Definition layout_strict (d:msg_desc) (t:msg_table) : bool :=
  match nf_of d, mand_units (tb_mand t), opt_units (tb_opt t) with
  | Some nf, Some mu, Some ou =>
      units_conform false (filter (fun x => negb (nf_opt x)) nf) mu &&
      units_conform true (filter nf_opt nf) ou && table_ok t
  | _, _, _ => false end.

Fixpoint vals_conform (xs:list nf_field) (us:list unit_row) (vs:list fval) : bool :=
  match xs, us, vs with
  | [], [], [] => true
  | x :: xs', u :: us', v :: vs' => strict_val x v && in_bounds u v && vals_conform xs' us' vs'
  | _, _, _ => false end.

(* a library value in the vocabulary of the reference codec *)
Definition sent_body (x:nf_field) (v:fval) : bytes :=
  match w_body (nf_fmt x) with WUpto _ => firstn (N.to_nat (fv_len v)) (fv_body v) | _ => fv_body v end.
Definition ref_view (x:nf_field) (v:fval) : fval :=
  mk_fval true (if nf_opt x then nf_iei x else 0) (fv_len v) (sent_body x v).

Definition field_val (m:msg) (x:nf_field) : fval := match lookup (nf_name x) m with Some v => v | None => absent end.
(* the message respects what the table says beyond the format: fixed sizes and length bounds *)
Definition msg_conforms (d:msg_desc) (t:msg_table) (m:msg) : bool :=
  match nf_of d, mand_units (tb_mand t), opt_units (tb_opt t) with
  | Some nf, Some mu, Some ou =>
      let mx := filter (fun x => negb (nf_opt x)) nf in
      let ox := filter nf_opt nf in
      vals_conform mx mu (map (field_val m) mx) && vals_conform ox ou (map (field_val m) ox)
  | _, _, _ => false end.
(* the message as the reference codec sees it: mandatory values, one value per optional row *)
Definition msg_view (d:msg_desc) (m:msg) : list fval * list fval :=
  match nf_of d with
  | Some nf =>
      (map (fun x => ref_view x (field_val m x)) (filter (fun x => negb (nf_opt x)) nf),
       map (fun x => if fv_present (field_val m x) then ref_view x (field_val m x) else absent) (filter nf_opt nf))
  | None => ([], []) end.

(* message types whose table has no uncertain row and no recorded deviation: field-by-field agreement *)
Definition dispatched_pairs : list (N * N * msg_desc * msg_table) :=
  flat_map (fun h => flat_map (fun e => match find_desc d_dec_func (snd (snd e)) all_msg_descs, find_table (epd_of_table h) (fst e) with
                                        | Some d, Some t => [(epd_of_table h, fst e, d, t)] | _, _ => [] end) (h_decode h))
           [gmm_dispatch; gsm_dispatch].
Definition strict_pairs : list (N * N * msg_desc * msg_table) :=
  filter (fun p => let '(_, _, d, t) := p in layout_strict d t && desc_pair_ok d) dispatched_pairs.
