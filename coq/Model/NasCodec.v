(* Model of the free5GC NAS codec as STGUTG carries it (src/free5gclib/nas): descriptor types that
   Gen/NasDesc.v (regenerated from the Go source by `harness gen-nas`) instantiates, and two generic
   interpreters giving the Encode*/Decode* statement sequences the semantics of the Go code:

   binary.Write(buffer, BigEndian, x)  x : uint8 -> 1 octet; uint16 -> 2 octets big endian; *[N]uint8 -> the N
                                       octets; *[]uint8 / []uint8 -> the octets of the slice (none for nil)
   binary.Read(buffer, BigEndian, p)   size = 1 | 2 | N | len(slice); when the bytes.Buffer holds fewer octets the
                                       buffer is drained, the destination is left untouched and the error is
                                       dropped by the callers; size 0 reads nothing
   a.X.Octet[:a.X.GetLen()]            run-time panic when Len > N; Buffer[:Len] panics when Len > cap(Buffer)
   SetLen                              stores Len; for Buffer types also Buffer = make([]uint8, Len)
   IEI loop                            for buffer.Len() > 0: one octet ieiN; ieiN >= 0x80 selects by the high
                                       nibble; an IEI without case consumes only that octet; a repeated IE
                                       overwrites the earlier one (a fresh New* value each time)
   Nothing here is proved; see Proofs/NasCodecProofs.v. *)
From Coq Require Import NArith List Bool String.
Require Import Bytes NasValue.
Import ListNotations.
Open Scope string_scope.
Open Scope list_scope.
Open Scope N_scope.

(* ---------------------------------------------------------------- descriptors *)
Inductive body_kind := BOctet | BArray (n:nat) | BBuffer | BNone.
Inductive new_kind := NewPlain | NewSetsIei | NewSetsHighNibble | NewAbsent.
Record ie_type := mk_type {
  t_name : string;
  t_has_iei : bool;            (* field Iei uint8 *)
  t_lenw : nat;                (* field Len: 0 none, 1 uint8, 2 uint16 *)
  t_body : body_kind;          (* Octet uint8 | Octet [N]uint8 | Buffer []uint8 *)
  t_setlen_allocs : bool;      (* SetLen also does Buffer = make([]uint8, Len) *)
  t_new : new_kind;            (* what New<T>(iei) does with its argument *)
  t_odd : list string }.       (* anything of the type the translator did not recognise *)

Inductive wr := WIei | WLen | WBody | WBodyUptoLen | WUnrec (src:string).
Inductive rd := RNew | RLenField | RSetLen | RBody | RBodyUptoLen | ROctetIsIei | RUnrec (src:string).

Record field := mk_field { f_name : string; f_type : ie_type; f_optional : bool }.
Record enc_group := mk_eg { eg_field : string; eg_guarded : bool; eg_ops : list wr }.
Record dec_group := mk_dg { dg_field : string; dg_ops : list rd }.
Record dec_case := mk_case { dc_const : N; dc_const_name : string; dc_field : string; dc_ops : list rd }.
Inductive loop_kind := LoopNone | LoopStd (threshold:N) | LoopUnrec (src:string).

Record msg_desc := {
  d_name : string; d_enc_func : string; d_dec_func : string;
  d_fields : list field;             (* struct declaration order *)
  d_enc : list enc_group;            (* Encode* body, source order *)
  d_dec_mand : list dec_group;       (* Decode* body before the loop, source order *)
  d_loop : loop_kind;
  d_cases : list dec_case;           (* the switch of the IEI loop, source order *)
  d_odd : list string }.

Record dispatch := {
  h_name : string; h_header_len : nat; h_type_index : nat;
  h_decode : list (N * (string * string));   (* message type -> (struct allocated, Decode method) *)
  h_encode : list (N * string);              (* message type -> Encode method *)
  h_odd : list string }.
Record plain_desc := {
  p_epd_decode : list (N * string);          (* EPD -> "Gmm" | "Gsm" *)
  p_encode_order : list string;              (* which non-nil part PlainNasEncode takes first *)
  p_odd : list string }.

Definition is_nil {A} (l:list A) : bool := match l with [] => true | _ => false end.

Fixpoint findk {A} (key:A -> string) (k:string) (l:list A) : option A :=
  match l with [] => None | x :: r => if String.eqb k (key x) then Some x else findk key k r end.
Definition find_field : string -> list field -> option field := findk f_name.
Fixpoint find_case (c:N) (cs:list dec_case) : option dec_case :=
  match cs with [] => None | x :: r => if c =? dc_const x then Some x else find_case c r end.
Fixpoint lookupN {A} (k:N) (l:list (N * A)) : option A :=
  match l with [] => None | (k', v) :: r => if k =? k' then Some v else lookupN k r end.

Definition zeros (n:nat) : bytes := repeat 0 n.
Definition zero_body (t:ie_type) : bytes :=
  match t_body t with BOctet => [0] | BArray n => zeros n | BBuffer => [] | BNone => [] end.
Definition zero_val (t:ie_type) : fval := mk_fval true 0 0 (zero_body t).
Definition default_val (f:field) : fval := if f_optional f then absent else zero_val (f_type f).

(* ---------------------------------------------------------------- encode *)
Definition run_wr (t:ie_type) (v:fval) (op:wr) : res bytes :=
  match op with
  | WIei => if t_has_iei t then Ok [fv_iei v] else Err "GetIei of a type without Iei field is not modelled"
  | WLen => match t_lenw t with
            | 1%nat => Ok [fv_len v]
            | 2%nat => Ok [fv_len v / 256; fv_len v mod 256]
            | _ => Err "GetLen of a type without Len field" end
  | WBody => match t_body t with BNone => Err "no Octet/Buffer member" | _ => Ok (fv_body v) end
  | WBodyUptoLen =>
      match t_body t with
      | BNone => Err "no Octet/Buffer member"
      | _ => if fv_len v <=? N.of_nat (List.length (fv_body v))
             then Ok (firstn (N.to_nat (fv_len v)) (fv_body v))
             else Panic "slice bounds out of range" end
  | WUnrec s => Err s
  end.

Fixpoint run_wrs (t:ie_type) (v:fval) (ops:list wr) : res bytes :=
  match ops with
  | [] => Ok []
  | op :: r => bind (run_wr t v op) (fun a => bind (run_wrs t v r) (fun b => Ok (a ++ b)))
  end.

Definition enc_group_bytes (d:msg_desc) (m:msg) (g:enc_group) : res bytes :=
  match find_field (eg_field g) (d_fields d), lookup (eg_field g) m with
  | Some f, Some v =>
      if negb (is_nil (t_odd (f_type f))) then Err "type not understood by the translator"
      else if eg_guarded g then
        (if f_optional f then (if fv_present v then run_wrs (f_type f) v (eg_ops g) else Ok [])
         else Err "nil test on a non-pointer field")
      else if f_optional f && negb (fv_present v) then Panic "nil pointer dereference"
      else run_wrs (f_type f) v (eg_ops g)
  | _, _ => Err "statement on an unknown field"
  end.

Fixpoint enc_groups (d:msg_desc) (m:msg) (gs:list enc_group) : res bytes :=
  match gs with
  | [] => Ok []
  | g :: r => bind (enc_group_bytes d m g) (fun a => bind (enc_groups d m r) (fun b => Ok (a ++ b)))
  end.

Definition nas_encode (d:msg_desc) (m:msg) : res bytes :=
  if negb (is_nil (d_odd d)) then Err "message not understood by the translator" else enc_groups d m (d_enc d).

(* ---------------------------------------------------------------- decode *)
(* binary.Read of n octets from a bytes.Buffer *)
Definition take (n:nat) (buf:bytes) : option bytes * bytes :=
  if Nat.leb n (List.length buf) then (Some (firstn n buf), skipn n buf) else (None, []).

Definition new_val (t:ie_type) (iei:N) : res fval :=
  match t_new t with
  | NewPlain => Ok (zero_val t)
  | NewSetsIei => Ok (mk_fval true iei 0 (zero_body t))
  | NewSetsHighNibble => Ok (mk_fval true 0 0 [(iei mod 16) * 16])
  | NewAbsent => Err "no New function"
  end.

Definition set_body (v:fval) (b:bytes) : fval := mk_fval (fv_present v) (fv_iei v) (fv_len v) b.
Definition set_len (v:fval) (l:N) : fval := mk_fval (fv_present v) (fv_iei v) l (fv_body v).

Definition run_rd (t:ie_type) (iei:option N) (st:fval * bytes) (op:rd) : res (fval * bytes) :=
  let '(v, buf) := st in
  match op with
  | RNew => match iei with
            | Some i => bind (new_val t i) (fun v' => Ok (v', buf))
            | None => Err "New outside the IEI loop" end
  | RLenField =>
      match t_lenw t with
      | 1%nat => match take 1 buf with
                 | (Some [b], r) => Ok (set_len v b, r)
                 | (_, r) => Ok (v, r) end
      | 2%nat => match take 2 buf with
                 | (Some [h; l], r) => Ok (set_len v (h * 256 + l), r)
                 | (_, r) => Ok (v, r) end
      | _ => Err "no Len field" end
  | RSetLen =>
      match t_lenw t with
      | O => Err "no Len field"
      | _ => if t_setlen_allocs t then Ok (set_body v (zeros (N.to_nat (fv_len v))), buf) else Ok (v, buf) end
  | RBody =>
      match t_body t with
      | BNone => Err "no Octet/Buffer member"
      | _ => match take (List.length (fv_body v)) buf with
             | (Some bs, r) => Ok (set_body v bs, r)
             | (None, r) => Ok (v, r) end end
  | RBodyUptoLen =>
      match t_body t with
      | BNone => Err "no Octet/Buffer member"
      | _ => if fv_len v <=? N.of_nat (List.length (fv_body v)) then
               let n := N.to_nat (fv_len v) in
               match take n buf with
               | (Some bs, r) => Ok (set_body v (bs ++ skipn n (fv_body v)), r)
               | (None, r) => Ok (v, r) end
             else Panic "slice bounds out of range" end
  | ROctetIsIei =>
      match t_body t, iei with
      | BOctet, Some i => Ok (set_body v [i], buf)
      | _, _ => Err "Octet = ieiN outside its shape" end
  | RUnrec s => Err s
  end.

Fixpoint run_rds (t:ie_type) (iei:option N) (st:fval * bytes) (ops:list rd) : res (fval * bytes) :=
  match ops with
  | [] => Ok st
  | op :: r => bind (run_rd t iei st op) (fun st' => run_rds t iei st' r)
  end.

Definition dlog := list (string * fval).     (* most recent binding first *)

Definition dec_group_run (d:msg_desc) (g:dec_group) (st:dlog * bytes) : res (dlog * bytes) :=
  let '(log, buf) := st in
  match find_field (dg_field g) (d_fields d) with
  | Some f =>
      if negb (is_nil (t_odd (f_type f))) then Err "type not understood by the translator"
      else if f_optional f then Panic "nil pointer dereference"
      else let v0 := match lookup (dg_field g) log with Some v => v | None => zero_val (f_type f) end in
           bind (run_rds (f_type f) None (v0, buf) (dg_ops g)) (fun r => Ok ((dg_field g, fst r) :: log, snd r))
  | None => Err "statement on an unknown field"
  end.

Fixpoint dec_groups (d:msg_desc) (gs:list dec_group) (st:dlog * bytes) : res (dlog * bytes) :=
  match gs with
  | [] => Ok st
  | g :: r => bind (dec_group_run d g st) (fun st' => dec_groups d r st')
  end.

Definition run_case (d:msg_desc) (c:dec_case) (iei:N) (st:dlog * bytes) : res (dlog * bytes) :=
  let '(log, buf) := st in
  match find_field (dc_field c) (d_fields d) with
  | Some f =>
      if negb (is_nil (t_odd (f_type f))) then Err "type not understood by the translator"
      else if negb (f_optional f) then Err "New* assigned to a non-pointer field"
      else match dc_ops c with
           | RNew :: ops =>
               bind (new_val (f_type f) iei) (fun v0 =>
               bind (run_rds (f_type f) (Some iei) (v0, buf) ops) (fun r => Ok ((dc_field c, fst r) :: log, snd r)))
           | _ => Err "case does not start with New*" end
  | None => Err "case on an unknown field"
  end.

Definition iei_key (th ieiN:N) : N := if th <=? ieiN then N.land ieiN 240 / 16 else ieiN.

Fixpoint dec_loop (d:msg_desc) (th:N) (fuel:nat) (st:dlog * bytes) : res dlog :=
  match snd st with
  | [] => Ok (fst st)
  | ieiN :: rest =>
      match fuel with
      | O => OutOfFuel
      | S fuel' =>
          match find_case (iei_key th ieiN) (d_cases d) with
          | None => dec_loop d th fuel' (fst st, rest)
          | Some c => bind (run_case d c ieiN (fst st, rest)) (fun st' => dec_loop d th fuel' st')
          end
      end
  end.

Definition assemble (d:msg_desc) (log:dlog) : msg :=
  map (fun f => (f_name f, match lookup (f_name f) log with Some v => v | None => default_val f end)) (d_fields d).

Definition nas_decode (d:msg_desc) (bs:bytes) : res msg :=
  if negb (is_nil (d_odd d)) then Err "message not understood by the translator" else
  bind (dec_groups d (d_dec_mand d) ([], bs)) (fun st =>
  match d_loop d with
  | LoopNone => Ok (assemble d (fst st))
  | LoopStd th => bind (dec_loop d th (List.length (snd st)) st) (fun log => Ok (assemble d log))
  | LoopUnrec s => Err s
  end).

(* ---------------------------------------------------------------- nas.go: PlainNasEncode / PlainNasDecode *)
Record nas_message := mk_nas {
  n_kind : string;          (* "Gmm" | "Gsm": which of Message.GmmMessage / GsmMessage is non-nil *)
  n_header : bytes;         (* GmmHeader.Octet / GsmHeader.Octet *)
  n_struct : string;        (* the one nasMessage struct pointer that is non-nil *)
  n_fields : msg }.

Section Plain.
Variable descs : list msg_desc.
Variable gmm gsm : dispatch.
Variable plain : plain_desc.

Definition dispatch_of (k:string) : option dispatch :=
  if String.eqb k "Gmm" then Some gmm else if String.eqb k "Gsm" then Some gsm else None.
Fixpoint find_desc (sel:msg_desc -> string) (k:string) (ds:list msg_desc) : option msg_desc :=
  match ds with [] => None | x :: r => if String.eqb k (sel x) then Some x else find_desc sel k r end.

Definition plain_nas_decode (bs:bytes) : res nas_message :=
  if negb (is_nil (p_odd plain)) then Err "PlainNasDecode not understood by the translator" else
  match bs with
  | [] => Panic "index out of range [0] with length 0"
  | epd :: _ =>
      match lookupN epd (p_epd_decode plain) with
      | None => Err "Extended Protocol Discriminator is not allowed in Nas Message Decode"
      | Some k =>
          match dispatch_of k with
          | None => Err "unknown dispatch"
          | Some h =>
              if negb (is_nil (h_odd h)) then Err "dispatch not understood by the translator" else
              let hdr := match take (h_header_len h) bs with (Some x, _) => x | (None, _) => zeros (h_header_len h) end in
              let mt := nth (h_type_index h) hdr 0 in
              match lookupN mt (h_decode h) with
              | None => Err "MsgType doesn't exist"
              | Some (sname, fname) =>
                  match find_desc d_dec_func fname descs with
                  | None => Err "Decode method without descriptor"
                  | Some d =>
                      if negb (String.eqb sname (d_name d)) then Panic "nil pointer dereference"
                      else bind (nas_decode d bs) (fun m => Ok (mk_nas k hdr sname m))
                  end
              end
          end
      end
  end.

Definition plain_nas_encode (x:nas_message) : res bytes :=
  if negb (is_nil (p_odd plain)) then Err "PlainNasEncode not understood by the translator" else
  if negb (existsb (String.eqb (n_kind x)) (p_encode_order plain)) then Err "Gmm/Gsm Message are both empty" else
  match dispatch_of (n_kind x) with
  | None => Err "unknown dispatch"
  | Some h =>
      if negb (is_nil (h_odd h)) then Err "dispatch not understood by the translator" else
      match lookupN (nth (h_type_index h) (n_header x) 0) (h_encode h) with
      | None => Err "MsgType doesn't exist"
      | Some fname =>
          match find_desc d_enc_func fname descs with
          | None => Err "Encode method without descriptor"
          | Some d =>
              if negb (String.eqb (n_struct x) (d_name d)) then Panic "nil pointer dereference"
              else nas_encode d (n_fields x)
          end
      end
  end.
End Plain.

(* ---------------------------------------------------------------- well-formed pairs of Encode*/Decode* *)
(* The wire format of one field, recognised from the statements of both directions. *)
Inductive wire_body :=
| WFixed (n:nat)        (* all n octets of Octet, whatever Len says *)
| WBuf                  (* the whole Buffer on encode; Buffer[:Len] after make on decode *)
| WUpto (n:nat).        (* Octet[:Len] of an [n]uint8 in both directions *)
Record wire_fmt := mk_wire { w_tag : bool; w_half : bool; w_lenw : nat; w_body : wire_body }.

Definition eqb_wr (a b:wr) : bool :=
  match a, b with WIei, WIei | WLen, WLen | WBody, WBody | WBodyUptoLen, WBodyUptoLen => true | _, _ => false end.
Definition eqb_rd (a b:rd) : bool :=
  match a, b with RNew, RNew | RLenField, RLenField | RSetLen, RSetLen | RBody, RBody
  | RBodyUptoLen, RBodyUptoLen | ROctetIsIei, ROctetIsIei => true | _, _ => false end.
Fixpoint eqb_list {A} (e:A -> A -> bool) (a b:list A) : bool :=
  match a, b with [], [] => true | x::a', y::b' => e x y && eqb_list e a' b' | _, _ => false end.

Definition fixed_size (t:ie_type) : option nat :=
  match t_body t with BOctet => Some 1%nat | BArray n => Some n | _ => None end.
Definition lenw_ok (t:ie_type) : bool := match t_lenw t with 1%nat | 2%nat => true | _ => false end.

(* mandatory field: Encode ops / Decode ops *)
Definition mand_fmt (t:ie_type) (e:list wr) (r:list rd) : option wire_fmt :=
  if eqb_list eqb_wr e [WBody] && eqb_list eqb_rd r [RBody] && Nat.eqb (t_lenw t) 0 then
    match fixed_size t with Some n => Some (mk_wire false false 0 (WFixed n)) | None => None end
  else if eqb_list eqb_wr e [WLen; WBody] && eqb_list eqb_rd r [RLenField; RSetLen; RBody] && lenw_ok t then
    match t_body t with
    | BBuffer => if t_setlen_allocs t then Some (mk_wire false false (t_lenw t) WBuf) else None
    | BOctet => if t_setlen_allocs t then None else Some (mk_wire false false (t_lenw t) (WFixed 1))
    | BArray n => if t_setlen_allocs t then None else Some (mk_wire false false (t_lenw t) (WFixed n))
    | BNone => None end
  else None.

(* optional field: Encode ops inside `if a.X != nil` / ops of its case *)
Definition opt_fmt (t:ie_type) (e:list wr) (r:list rd) : option wire_fmt :=
  match t_new t with
  | NewSetsHighNibble =>
      if eqb_list eqb_wr e [WBody] && eqb_list eqb_rd r [RNew; ROctetIsIei] && negb (t_has_iei t) && Nat.eqb (t_lenw t) 0
      then match t_body t with BOctet => Some (mk_wire true true 0 (WFixed 1)) | _ => None end else None
  | NewSetsIei =>
      if negb (t_has_iei t) then None
      else if eqb_list eqb_wr e [WIei; WBody] && eqb_list eqb_rd r [RNew; RBody] && Nat.eqb (t_lenw t) 0 then
        match fixed_size t with Some n => Some (mk_wire true false 0 (WFixed n)) | None => None end
      else if negb (lenw_ok t) then None
      else if eqb_list eqb_wr e [WIei; WLen; WBody] && eqb_list eqb_rd r [RNew; RLenField; RSetLen; RBody] then
        (if t_setlen_allocs t then None else
         match fixed_size t with Some n => Some (mk_wire true false (t_lenw t) (WFixed n)) | None => None end)
      else if eqb_list eqb_wr e [WIei; WLen; WBody] && eqb_list eqb_rd r [RNew; RLenField; RSetLen; RBodyUptoLen] then
        match t_body t with BBuffer => if t_setlen_allocs t then Some (mk_wire true false (t_lenw t) WBuf) else None | _ => None end
      else if eqb_list eqb_wr e [WIei; WLen; WBodyUptoLen] && eqb_list eqb_rd r [RNew; RLenField; RSetLen; RBodyUptoLen] then
        match t_body t with BArray n => if t_setlen_allocs t then None else Some (mk_wire true false (t_lenw t) (WUpto n)) | _ => None end
      else None
  | _ => None
  end.

(* one row of the normal form of a descriptor: the field, its IEI constant (0 for mandatory fields), its format *)
Record nf_field := mk_nf { nf_name : string; nf_type : ie_type; nf_opt : bool; nf_iei : N; nf_fmt : wire_fmt }.

Definition find_eg : string -> list enc_group -> option enc_group := findk eg_field.
Definition find_dg : string -> list dec_group -> option dec_group := findk dg_field.
Definition find_case_of : string -> list dec_case -> option dec_case := findk dc_field.

(* the octets a field contributes to the wire, read off its format *)
Definition len_bytes (w:nat) (l:N) : bytes :=
  match w with 1%nat => [l] | 2%nat => [l / 256; l mod 256] | _ => [] end.
Definition enc_nf (x:nf_field) (v:fval) : bytes :=
  if fv_present v then
    (if w_half (nf_fmt x) then fv_body v
     else (if w_tag (nf_fmt x) then [fv_iei v] else []) ++ len_bytes (w_lenw (nf_fmt x)) (fv_len v) ++
          match w_body (nf_fmt x) with WUpto _ => firstn (N.to_nat (fv_len v)) (fv_body v) | _ => fv_body v end)
  else [].

Definition nf_of_field (d:msg_desc) (f:field) : option nf_field :=
  if negb (is_nil (t_odd (f_type f))) then None else
  match find_eg (f_name f) (d_enc d) with
  | None => None
  | Some g =>
      if negb (Bool.eqb (eg_guarded g) (f_optional f)) then None else
      if f_optional f then
        match find_case_of (f_name f) (d_cases d) with
        | None => None
        | Some c => match opt_fmt (f_type f) (eg_ops g) (dc_ops c) with
                    | Some w => Some (mk_nf (f_name f) (f_type f) true (dc_const c) w) | None => None end
        end
      else
        match find_dg (f_name f) (d_dec_mand d) with
        | None => None
        | Some g' => match mand_fmt (f_type f) (eg_ops g) (dg_ops g') with
                     | Some w => Some (mk_nf (f_name f) (f_type f) false 0 w) | None => None end
        end
  end.

Fixpoint all_some {A} (l:list (option A)) : option (list A) :=
  match l with [] => Some [] | Some x :: r => match all_some r with Some y => Some (x :: y) | None => None end | None :: _ => None end.
Definition nf_of (d:msg_desc) : option (list nf_field) := all_some (map (nf_of_field d) (d_fields d)).

Fixpoint nodup_str (l:list string) : bool :=
  match l with [] => true | x :: r => negb (existsb (String.eqb x) r) && nodup_str r end.
Fixpoint nodup_N (l:list N) : bool :=
  match l with [] => true | x :: r => negb (existsb (N.eqb x) r) && nodup_N r end.
(* mandatory fields first, then the pointer fields *)
Fixpoint mand_then_opt (l:list field) : bool :=
  match l with [] => true | f :: r => if f_optional f then forallb f_optional r else mand_then_opt r end.

Definition iei_ok (th:N) (x:nf_field) : bool :=
  if nf_opt x then
    (if w_half (nf_fmt x) then (th / 16 <=? nf_iei x) && (nf_iei x <? 16) else nf_iei x <? th)
  else true.

Definition desc_pair_ok (d:msg_desc) : bool :=
  is_nil (d_odd d) &&
  nodup_str (map f_name (d_fields d)) &&
  mand_then_opt (d_fields d) &&
  eqb_list String.eqb (map eg_field (d_enc d)) (map f_name (d_fields d)) &&
  eqb_list String.eqb (map dg_field (d_dec_mand d)) (map f_name (filter (fun f => negb (f_optional f)) (d_fields d))) &&
  eqb_list String.eqb (map dc_field (d_cases d)) (map f_name (filter f_optional (d_fields d))) &&
  nodup_N (map dc_const (d_cases d)) &&
  match d_loop d, nf_of d with
  | LoopStd th, Some nf => (th =? 128) && forallb (iei_ok th) nf
  | _, _ => false
  end.

(* ---------------------------------------------------------------- well-formed messages *)
Definition octets_ok (b:bytes) : bool := forallb (fun x => x <? 256) b.
(* the value is a value of the Go type: widths of Iei/Len, size of Octet, octets below 256; a nil pointer is [absent] *)
Definition typed_val (t:ie_type) (opt:bool) (v:fval) : bool :=
  if fv_present v then
    (if t_has_iei t then fv_iei v <? 256 else fv_iei v =? 0) &&
    (match t_lenw t with 1%nat => fv_len v <? 256 | 2%nat => fv_len v <? 65536 | _ => fv_len v =? 0 end) &&
    (match t_body t with BOctet => Nat.eqb (List.length (fv_body v)) 1 | BArray n => Nat.eqb (List.length (fv_body v)) n
                    | BBuffer => true | BNone => is_nil (fv_body v) end) &&
    octets_ok (fv_body v)
  else opt && eqb_fval v absent.

(* what the codec needs of a value, per field:
   Iei = the constant of the message's IEI table (high nibble of Octet for half-octet IEs; 0, i.e. unused, for
   mandatory fields, whose Iei member is never transmitted); Len = len(Buffer); Len <= N for Octet[:Len], the
   octets after Len being zero (they are not transmitted). *)
Definition wf_val (x:nf_field) (v:fval) : bool :=
  typed_val (nf_type x) (nf_opt x) v &&
  (if fv_present v then
     (if w_half (nf_fmt x) then match fv_body v with [o] => o / 16 =? nf_iei x | _ => false end
      else if t_has_iei (nf_type x) then fv_iei v =? nf_iei x else true) &&
     match w_body (nf_fmt x) with
     | WFixed _ => true
     | WBuf => fv_len v =? N.of_nat (List.length (fv_body v))
     | WUpto n => (fv_len v <=? N.of_nat n) && forallb (N.eqb 0) (skipn (N.to_nat (fv_len v)) (fv_body v))
     end
   else true).

Fixpoint wf_vals (nf:list nf_field) (m:msg) : bool :=
  match nf, m with
  | [], [] => true
  | x :: nf', (k, v) :: m' => String.eqb k (nf_name x) && wf_val x v && wf_vals nf' m'
  | _, _ => false
  end.
Definition wf_msg (d:msg_desc) (m:msg) : bool :=
  match nf_of d with Some nf => wf_vals nf m | None => false end.

(* ---------------------------------------------------------------- correspondence cases *)
Definition eqb_res_bytes (a:res bytes) (b:option bytes) : bool :=   (* observed: Some bytes | None = panic *)
  match a, b with Ok x, Some y => eqb_bytes x y | Panic _, None => true | _, _ => false end.
