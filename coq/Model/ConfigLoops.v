(* C18: the loop that repeats each test-mode procedure runs min(documented keys) times — exactly those keys.
   Reflective check over the regenerated wiring (Gen/MainWiring.v) and struct tags (Gen/ConfTags.v). *)
From Coq Require Import List String Bool Arith ZArith.
Require Import DriverTypes DriverConv ConfigDoc Config Lifecycle.
Import ListNotations.
Open Scope string_scope.

Definition same_set (a b:list string) : bool :=
  forallb (fun x => existsb (String.eqb x) b) a && forallb (fun x => existsb (String.eqb x) a) b.

Fixpoint fields_of_keys (tags:list (string * string * string)) (keys:list string) : option (list string) :=
  match keys with
  | [] => Some []
  | k :: r => match field_of_key tags k, fields_of_keys tags r with
              | Some (f, _), Some fs => Some (f :: fs)
              | _, _ => None end
  end.

(* the loop running [proc] is bounded by a min-tree whose leaves are exactly the fields of the documented keys *)
Definition repetitions_ok (tags:list (string * string * string)) (w:list step) (pk:string * list string) : bool :=
  let '(proc, keys) := pk in
  match loop_bound w proc, fields_of_keys tags keys with
  | Some b, Some fs => match bound_leaves b with Some l => same_set l fs | None => false end
  | _, _ => false
  end.

(* n is the minimum of the values the configuration gives to the fields fs *)
Definition is_min_of (c:cfgmap) (fs:list string) (n:Z) : Prop :=
  (forall f, In f fs -> (n <= cfg_get c f)%Z) /\ (exists f, In f fs /\ n = cfg_get c f).

(* executable forms for the process-level stream: repetitions per documented procedure
   (a) as documented: the minimum of the documented keys' values in the file (key -> value),
   (b) as wired: the value of the loop bound main() uses (field -> value) *)
Fixpoint zmin_list (l:list Z) : option Z :=
  match l with [] => None | [x] => Some x | x :: r => match zmin_list r with Some m => Some (Z.min x m) | None => Some x end end.
Definition documented_repetitions (file:list (string * Z)) : list (option Z) :=
  map (fun pk => zmin_list (map (cfg_get file) (snd pk))) documented_repetitions_test_mode.
Definition wired_repetitions (tags:list (string * string * string)) (w:list step) (file:list (string * Z)) : list (option Z) :=
  let c := flat_map (fun kv => match field_of_key tags (fst kv) with Some (f, _) => [(f, snd kv)] | None => [] end) file in
  map (fun pk => match loop_bound w (fst pk) with Some b => eval_bound c b | None => None end) documented_repetitions_test_mode.
