(* C09, sub-field layer: when does an accessor pair of nasType (Model/NasAcc.v descriptors) address a field of the table of
   TS 24.501 clause 9 (Spec/TS24501Fields.v)?  Definitions only, independent of the regenerated descriptors.

   [field_conforms]: the getter reads exactly the bits of the field (and shifts them down to bit 1), the setter writes exactly
   those bits from the low bits of its argument and keeps every other bit; both stay inside the Go container.  The check is
   structural (index, masks, shifts, bounds); Proofs/NasAccSem.v turns it into the semantic reading (getter = value of the
   field, setter = store into the field, for all octet values). *)
From Coq Require Import NArith Arith Bool String List.
Require Import NasAcc TS24501Fields.
Import ListNotations.
Open Scope string_scope.
Open Scope list_scope.
Open Scope N_scope.

(* bits hi..lo of an octet as a mask *)
Definition fmask (hi lo:nat) : N := pw hi - pw (lo - 1).

Definition bits_ok (hi lo:nat) : bool := (1 <=? lo)%nat && (lo <=? hi)%nat && (hi <=? 8)%nat.
(* width of the two-octet fields for which the semantic reading is proved (the only one that occurs: 10 bits) *)
Definition span_ok (w:nat) : bool := (w =? 10)%nat.

Definition get_conforms (k:fkind) (g:acc_body) : bool :=
  match k, g with
  | FBits o hi lo, AGetBits i mask sh =>
      (i =? o)%nat && bits_ok hi lo && (mask <? 256) && (sh =? N.of_nat (lo - 1)) &&
      (N.shiftl (N.shiftr mask sh) sh =? fmask hi lo)
  | FSpan o w, AGet16 i sh1 j mask2 sh2 =>
      (i =? o)%nat && (j =? S o)%nat && span_ok w && (sh1 =? N.of_nat (w - 8)) && (sh2 =? N.of_nat (16 - w)) &&
      (mask2 <? 256) && (N.shiftl (N.shiftr mask2 sh2) sh2 =? fmask 8 (17 - w))
  | FOctets first count, AGetOctets lo hi n => (lo =? first)%nat && (hi =? first + count)%nat && (n =? count)%nat && (1 <=? count)%nat
  | FRest first, AGetTail k => (k =? first)%nat
  | _, _ => false end.

Definition set_conforms (k:fkind) (s:acc_body) : bool :=
  match k, s with
  | FBits o hi lo, ASetBits i keep vmask sh _ =>
      (i =? o)%nat && bits_ok hi lo && (sh =? N.of_nat (lo - 1)) && (vmask =? pw (hi - lo + 1) - 1) && (keep =? 255 - fmask hi lo)
  | FSpan o w, ASet16 i sh1 m1 j keep2 vmask2 sh2 =>
      (i =? o)%nat && (j =? S o)%nat && span_ok w && (sh1 =? N.of_nat (w - 8)) && (m1 =? 255) &&
      (keep2 =? 255 - fmask 8 (17 - w)) && (vmask2 =? pw (w - 8) - 1) && (sh2 =? N.of_nat (16 - w))
  | FOctets first count, ASetOctets lo hi n => (lo =? first)%nat && (hi =? first + count)%nat && (n =? count)%nat && (1 <=? count)%nat
  | FRest first, ASetTail k => (k =? first)%nat
  | _, _ => false end.

(* the field lies inside the Go container *)
Definition fits (c:container) (k:fkind) : bool :=
  match c, k with
  | COctet, FBits o _ _ => (o =? 0)%nat
  | CArray n, FBits o _ _ => (o <? n)%nat
  | CArray n, FSpan o _ => (S o <? n)%nat
  | CArray n, FOctets first count => (first + count <=? n)%nat
  | CBuffer, _ => true
  | _, _ => false end.

Definition field_conforms (c:container) (k:fkind) (g s:acc_body) : bool :=
  fits c k && get_conforms k g && set_conforms k s.

Example acc_check_has_teeth_swapped_octets :
  field_conforms (CArray 2) (FBits 0 8 1) (AGetBits 1 255 0) (ASetBits 1 0 255 0 OpPlus) = false /\
  field_conforms (CArray 2) (FBits 0 8 1) (AGetBits 0 255 0) (ASetBits 0 0 255 0 OpPlus) = true.
Proof. vm_compute. split; reflexivity. Qed.
Example acc_check_has_teeth_wrong_mask :
  set_conforms (FBits 0 7 5) (ASetBits 0 143 7 4 OpPlus) = true /\ set_conforms (FBits 0 7 5) (ASetBits 0 15 7 4 OpPlus) = false /\
  set_conforms (FBits 0 7 5) (ASetBits 0 143 15 4 OpPlus) = false /\ get_conforms (FBits 0 7 5) (AGetBits 0 112 4) = true /\
  get_conforms (FBits 0 7 5) (AGetBits 0 240 4) = false /\ get_conforms (FBits 0 7 5) (AUnrecognised "x") = false.
Proof. vm_compute. repeat split; reflexivity. Qed.
