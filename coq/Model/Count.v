(* Model of security.Count (src/free5gclib/nas/security/counter.go): the 24-bit NAS COUNT kept in a uint32
   field, with the masks and shifts as the Go code writes them.
     type Count struct { count uint32 }
   The state is the value of the field (an N below 2^32); uint16 / uint8 arguments are truncated to their
   width where the Go conversion does it (w16 / w8), uint32 arithmetic carries its wrap (w32). *)
From Coq Require Import NArith.
Require Import Bytes.
Open Scope N_scope.

(* func (counter *Count) maskTo24Bits() { counter.count &= 0x00ffffff } *)
Definition cnt_mask (c:N) : N := N.land c 0x00ffffff.

(* func (counter *Count) Get() uint32 { counter.maskTo24Bits(); return counter.count }   (new field, result) *)
Definition cnt_get (c:N) : N * N := let c' := cnt_mask c in (c', c').

(* func (counter *Count) AddOne() { counter.count++; counter.maskTo24Bits() } *)
Definition cnt_addone (c:N) : N := cnt_mask (w32 (c + 1)).

(* func (counter *Count) SQN() uint8 { return uint8(counter.count & 0x000000ff) } *)
Definition cnt_sqn (c:N) : N := w8 (N.land c 0x000000ff).

(* func (counter *Count) SetSQN(sqn uint8) { counter.count = (counter.count & 0xffffff00) | uint32(sqn) } *)
Definition cnt_setsqn (c sqn:N) : N := N.lor (N.land c 0xffffff00) (w8 sqn).

(* func (counter *Count) Overflow() uint16 { return uint16((counter.count & 0x00ffff00) >> 8) } *)
Definition cnt_overflow (c:N) : N := w16 (N.shiftr (N.land c 0x00ffff00) 8).

(* func (counter *Count) SetOverflow(overflow uint16) { counter.count = (counter.count & 0xff0000ff) | (uint32(overflow) << 8) } *)
Definition cnt_setoverflow (c overflow:N) : N := N.lor (N.land c 0xff0000ff) (w32 (N.shiftl (w16 overflow) 8)).

(* func (counter *Count) Set(overflow uint16, sqn uint8) { counter.SetOverflow(overflow); counter.SetSQN(sqn) } *)
Definition cnt_set (c overflow sqn:N) : N := cnt_setsqn (cnt_setoverflow c overflow) sqn.

(* ue.DLCount.SetOverflow(ue.DLCount.Overflow() + 1): the sum is formed in uint16 and wraps at 65536 *)
Definition cnt_bump_overflow (c:N) : N := cnt_setoverflow c (w16 (cnt_overflow c + 1)).

Example cnt_addone_wraps : cnt_addone 0xffffff = 0. Proof. vm_compute. reflexivity. Qed.
Example cnt_addone_carries : cnt_addone 0x00ffff = 0x010000 /\ cnt_addone 0xff = 0x100. Proof. split; vm_compute; reflexivity. Qed.
Example cnt_set_get : cnt_get (cnt_set 0x123456 0xabcd 0xef) = (0xabcdef, 0xabcdef). Proof. vm_compute. reflexivity. Qed.
Example cnt_bump_wraps : cnt_bump_overflow 0xffff12 = 0x12. Proof. vm_compute. reflexivity. Qed.
