(* C13, ranges - the statement side: which argument assignments of a build-and-encode wrapper are well-formed
   ([env_wf]: everything except the identifiers) and which have all identifiers inside the ranges TS 38.413 gives them
   ([ids_ok]: AMF-UE-NGAP-ID 0..2^40-1, RAN-UE-NGAP-ID 0..2^32-1, PDU session id 0..255, a list of 1..256 session ids,
   the bit length 22..32 of the gNB id).
   Definitions only. *)
From Coq Require Import ZArith NArith List String Bool.
Require Import GoSlice AperCommon BuildersT TS38413 Builders Builders13.
Import ListNotations.
Open Scope string_scope.

Definition octs_ok (bs : list N) : bool := forallb (fun b => (b <? 256)%N) bs.

(* upper bound of an integer identifier, by the role of the Go parameter it is passed in *)
Definition id_ub (n : string) : option Z :=
  match role_of_param n with
  | Some RAmfId => Some 1099511627775%Z
  | Some RRanId => Some 4294967295%Z
  | Some RSessionId => Some 255%Z
  | _ => None
  end.
Definition id_ok (n : string) (z : Z) : bool :=
  match id_ub n with Some u => ((0 <=? z) && (z <=? u))%Z | None => true end.

Definition arg_ids_ok (s : env) (p : string * akind) : bool :=
  match snd p, lookup (fst p) (e_args s) with
  | KInt, Some (AInt z) => id_ok (fst p) z
  | KInts, Some (AInts (Some l)) => (1 <=? List.length l)%nat && (List.length l <=? 256)%nat && forallb pdu_session_id_ok l
  | KUint, Some (AInt z) => ((22 <=? z) && (z <=? 32))%Z                          (* gNB id: BIT STRING (SIZE (22..32)) *)
  | _, _ => true
  end.
Definition ids_ok (b : builder) (s : env) : bool := forallb (arg_ids_ok s) (b_args b).

(* the other arguments: bound, of the kind the parameter has, octets are octets, and of the size of the type they
   end up in (the NAS-PDU bound keeps the whole message below the 16384 octets after which X.691 fragments) *)
Definition bytes_len_ok (n : string) (bs : list N) : bool :=
  match role_of_param n with
  | Some RNasPdu => (len bs <? 15000)%N
  | Some RPlmn => (len bs =? 3)%N
  | Some RGnbName => ((1 <=? len bs) && (len bs <=? 150))%N
  | _ => true
  end.
Definition arg_wf (s : env) (p : string * akind) : bool :=
  match snd p, lookup (fst p) (e_args s) with
  | KInt, Some (AInt _) => true
  | KInts, Some (AInts None) => true
  | KInts, Some (AInts (Some l)) => (List.length l <=? 300)%nat       (* keeps the message below 16384 octets *)
  | KBytes, Some (ABytes bs) => octs_ok bs && bytes_len_ok (fst p) bs
  | KIPv4, Some (ABytes bs) => octs_ok bs && (len bs =? 4)%N
  | KTmsi, Some (ABytes _) => true
  | KUint, Some (AInt z) => (z <? 16384)%Z
  | _, _ => false
  end.
(* the octets of the gNB id are those of a bit string of the given bit length *)
Definition gnb_ok (s : env) : bool :=
  match lookup "gnbId" (e_args s), lookup "bitlength" (e_args s) with
  | Some (ABytes b), Some (AInt n) => (len b =? (Z.to_N n + 7) / 8)%N
  | _, _ => true
  end.
Definition env_wf (b : builder) (s : env) : bool :=
  forallb (arg_wf s) (b_args b) && gnb_ok s && octs_ok (e_plmn s) && (len (e_plmn s) =? 3)%N
  && match select s (b_variants b) with Some _ => true | None => false end.
