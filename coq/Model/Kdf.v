(* Model of free5gclib/UeauCommon/UeauCommon.go: KDFLen, GetKDFValue and the FC constants.
   hmac.New(sha256.New, key) ... Sum(nil) is the section variable H (key, message -> 32 octets);
   hmac_sha256 when executed. *)
From Coq Require Import NArith List Bool.
Require Import Bytes.
Import ListNotations.
Open Scope N_scope.

(* const ( FC_FOR_... = "6C" ... ): strings of hex digits, as ASCII codes *)
Definition FC_FOR_CK_PRIME_IK_PRIME_DERIVATION  : bytes := [50;48].   (* "20" *)
Definition FC_FOR_KSEAF_DERIVATION              : bytes := [54;67].   (* "6C" *)
Definition FC_FOR_RES_STAR_XRES_STAR_DERIVATION : bytes := [54;66].   (* "6B" *)
Definition FC_FOR_KAUSF_DERIVATION              : bytes := [54;65].   (* "6A" *)
Definition FC_FOR_KAMF_DERIVATION               : bytes := [54;68].   (* "6D" *)
Definition FC_FOR_KGNB_KN3IWF_DERIVATION        : bytes := [54;69].   (* "6E" *)
Definition FC_FOR_NH_DERIVATION                 : bytes := [54;70].   (* "6F" *)
Definition FC_FOR_ALGORITHM_KEY_DERIVATION      : bytes := [54;57].   (* "69" *)

(* r := make([]byte, 2); binary.BigEndian.PutUint16(r, uint16(len(input))) *)
Definition KDFLen (input:bytes) : bytes := N_to_be 2 (N.of_nat (length input) mod 65536).

Section Kdf.
Variable H : bytes -> bytes -> bytes.

(* S = hex.DecodeString(FC) (nil, after a log line, when that fails); S = append(S, p...) for every
   variadic argument in order; HMAC-SHA-256 of S under key *)
Definition GetKDFValue (key:bytes) (FC:bytes) (param:list bytes) : bytes :=
  let S := match hex_decode FC with Some s => s | None => [] end in
  H key (S ++ concat param).
End Kdf.
