(* Types of the data regenerated from the procedure drivers and main() (Gen/DriverSkel.v, Gen/MainWiring.v). *)
From Coq Require Import List String.
Import ListNotations.

(* one I/O-relevant statement of a procedure driver, in source order:
   EW conn.Write, ER conn.Read, ED ngap.Decoder, EB a builder/encoder call returning an error;
   [checked] = its error result reaches ManageError (print + os.Exit(1)) before it is overwritten *)
Inductive ekind := EW | ER | ED | EB.
Inductive event := Ev (k:ekind) (checked:bool) (what:string) | Unrecognised (src:string).

(* main(): which configuration field / variable is passed in which argument position *)
Inductive arg := ACfg (field:string) | AVar (name:string) | AIdx (lst idx:string) | AOther (src:string).
Record call := { c_proc : string; c_args : list arg }.
Inductive bound := BCfg (field:string) | BMin (a b:bound) | BLenOf (lst:string) | BOther (src:string).
Inductive step := Straight (cs:list call) | Loop (b:bound) (cs:list call).
