(* Executable transcription of free5gclib/aper/aper.go (perBitData = bytes, byteOffset, bitsOffset).
   The decoder mutates *pd in place and some callers swallow an error and carry on, so the primitive
   readers return the state reached together with the result ([sres]).  parseField additionally
   accounts the bytes reserved by reflect.MakeSlice ([ares]). *)
From Coq Require Import NArith ZArith List Bool String.
Require Import GoSlice AperCommon AperEnc.
Import ListNotations.
Open Scope N_scope.

Record dst := mkdst { d_bytes : list N; d_byteOffset : N; d_bitsOffset : N }.

Definition sres (A : Type) : Type := (res A * dst)%type.        (* result, state of *pd afterwards *)
Definition sbind {A B} (r : sres A) (f : A -> dst -> sres B) : sres B :=
  match r with
  | (Ok a, s) => f a s
  | (Err e, s) => (Err e, s)
  | (Panic p, s) => (Panic p, s)
  | (OutOfFuel, s) => (OutOfFuel, s)
  end.
Notation "'dos' ( x , s ) <- e ; f" := (sbind e (fun x s => f)) (at level 200, x pattern, s name, e at level 100, f at level 200, right associativity).

Definition bitCarry (s : dst) : dst :=
  mkdst (d_bytes s) (u64 (d_byteOffset s + N.shiftr (d_bitsOffset s) 3)) (N.land (d_bitsOffset s) 7).

Definition getBitString (s : dst) (numBits : N) : sres (list N) :=
  match slice_from (d_bytes s) (d_byteOffset s) with
  | Ok src =>
      match GetBitString src (d_bitsOffset s) numBits with
      | Ok d => (Ok d, bitCarry (mkdst (d_bytes s) (d_byteOffset s) (u64 (d_bitsOffset s + numBits))))
      | Err e => (Err e, s) | Panic p => (Panic p, s) | OutOfFuel => (OutOfFuel, s)
      end
  | Err e => (Err e, s) | Panic p => (Panic p, s) | OutOfFuel => (OutOfFuel, s)
  end.

Definition getBitsValue (s : dst) (numBits : N) : sres N :=
  match slice_from (d_bytes s) (d_byteOffset s) with
  | Ok src =>
      match GetBitsValue src (d_bitsOffset s) numBits with
      | Ok v => (Ok v, bitCarry (mkdst (d_bytes s) (d_byteOffset s) (u64 (d_bitsOffset s + numBits))))
      | Err e => (Err e, s) | Panic p => (Panic p, s) | OutOfFuel => (OutOfFuel, s)
      end
  | Err e => (Err e, s) | Panic p => (Panic p, s) | OutOfFuel => (OutOfFuel, s)
  end.

Definition parseAlignBits (s : dst) : sres unit :=
  if 0 <? N.land (d_bitsOffset s) 7 then
    let alignBits := 8 - N.land (d_bitsOffset s) 7 in
    dos (v, s) <- getBitsValue s alignBits;
    if v =? 0 then (Ok tt, s) else (Err E_ALIGN_NONZERO, s)
  else if negb (d_bitsOffset s =? 0) then (Ok tt, bitCarry s)
  else (Ok tt, s).

Definition parseConstraintValue (s : dst) (valueRange : Z) : sres N :=
  if (valueRange <=? 255)%Z then
    if (valueRange <? 0)%Z then (Err E_RANGE_NEG, s)
    else getBitsValue s (go_bits valueRange)
  else if (valueRange <=? 65536)%Z then
    let nbytes := if (valueRange =? 256)%Z then 1 else 2 in
    dos (_, s) <- parseAlignBits s;
    getBitsValue s (nbytes * 8)
  else (Err E_RANGE_BIG, s).

(* value, repeat *)
Definition parseLength (s : dst) (sizeRange : Z) : sres (N * bool) :=
  if ((sizeRange <=? 65536) && (0 <? sizeRange))%Z then
    dos (v, s) <- parseConstraintValue s sizeRange; (Ok (v, false), s)
  else
    dos (_, s) <- parseAlignBits s;
    dos (firstByte, s) <- getBitsValue s 8;
    if N.land firstByte 128 =? 0 then (Ok (N.land firstByte 127, false), s)
    else if N.land firstByte 64 =? 0 then
      dos (secondByte, s) <- getBitsValue s 8;
      (Ok (N.lor (N.shiftl (N.land firstByte 63) 8) secondByte, false), s)
    else
      let fb := N.land firstByte 63 in
      if (fb <? 1) || (4 <? fb) then (Err E_LEN_CONSTRAINT, s)
      else (Ok (16384 * fb, true), s).

(* lb, ub, sizeRange of parseBitString / parseOctetString *)
Definition dec_size_bounds (extensed : bool) (lbp ubp : option Z) : Z * Z * Z :=
  let lb := if extensed then 0%Z else match lbp with Some x => x | None => 0%Z end in
  let '(ub, sizeRange) := if extensed then ((-1)%Z, (-1)%Z)
                          else match ubp with Some u => (u, i64 (u - lb + 1)) | None => ((-1)%Z, (-1)%Z) end in
  let sizeRange := if (65535 <? ub)%Z then (-1)%Z else sizeRange in
  (lb, ub, sizeRange).

Fixpoint bits_dec_loop (fuel : nat) (s : dst) (sizeRange lb : Z) (acc : list N) (accLen : N) : sres (list N * N) :=
  match fuel with
  | O => (OutOfFuel, s)
  | S f =>
      dos (lr, s) <- parseLength s sizeRange;
      let '(length0, repeat) := lr in
      let rawLength := u64 (length0 + u64z lb) in
      if rawLength =? 0 then (Ok (acc, accLen), s)
      else
        let sizes := N.shiftr (u64 (rawLength + 7)) 3 in
        dos (_, s) <- parseAlignBits s;
        if len (d_bytes s) <? u64 (d_byteOffset s + sizes) then (Err E_OUT_OF_RANGE, s)
        else
          match slice (d_bytes s) (d_byteOffset s) (u64 (d_byteOffset s + sizes)) with
          | Ok chunk =>
              let bo := N.land rawLength 7 in
              let byo := u64 (d_byteOffset s + sizes) in
              let s := mkdst (d_bytes s) (if bo =? 0 then byo else sub64 byo 1) bo in
              let acc := acc ++ chunk in
              let accLen := u64 (accLen + rawLength) in
              if repeat then bits_dec_loop f s sizeRange lb acc accLen else (Ok (acc, accLen), s)
          | Err e => (Err e, s) | Panic p => (Panic p, s) | OutOfFuel => (OutOfFuel, s)
          end
  end.

Definition parseBitString (s : dst) (extensed : bool) (lbp ubp : option Z) : sres (list N * N) :=
  let '(lb, ub, sizeRange) := dec_size_bounds extensed lbp ubp in
  if (sizeRange =? 1)%Z then
    let sizes := N.shiftr (u64z (ub + 7)) 3 in
    let bitLength := u64z ub in
    if 2 <? sizes then
      dos (_, s) <- parseAlignBits s;
      if len (d_bytes s) <? u64 (d_byteOffset s + sizes) then (Err E_OUT_OF_RANGE, s)
      else
        match slice (d_bytes s) (d_byteOffset s) (u64 (d_byteOffset s + sizes)) with
        | Ok chunk =>
            let bo := N.land (u64z ub) 7 in
            let byo := u64 (d_byteOffset s + sizes) in
            (Ok (chunk, bitLength), mkdst (d_bytes s) (if 0 <? bo then sub64 byo 1 else byo) bo)
        | Err e => (Err e, s) | Panic p => (Panic p, s) | OutOfFuel => (OutOfFuel, s)
        end
    else
      dos (b, s) <- getBitString s (u64z ub); (Ok (b, bitLength), s)
  else bits_dec_loop (S (List.length (d_bytes s))) s sizeRange lb [] 0.

Fixpoint oct_dec_loop (fuel : nat) (s : dst) (sizeRange lb : Z) (acc : list N) : sres (list N) :=
  match fuel with
  | O => (OutOfFuel, s)
  | S f =>
      dos (lr, s) <- parseLength s sizeRange;
      let '(length0, repeat) := lr in
      let rawLength := u64 (length0 + u64z lb) in
      if rawLength =? 0 then (Ok acc, s)
      else
        dos (_, s) <- parseAlignBits s;
        if len (d_bytes s) <? u64 (rawLength + d_byteOffset s) then (Err E_OUT_OF_RANGE, s)
        else
          match slice (d_bytes s) (d_byteOffset s) (u64 (d_byteOffset s + rawLength)) with
          | Ok chunk =>
              let s := mkdst (d_bytes s) (u64 (d_byteOffset s + rawLength)) (d_bitsOffset s) in
              let acc := acc ++ chunk in
              if repeat then oct_dec_loop f s sizeRange lb acc else (Ok acc, s)
          | Err e => (Err e, s) | Panic p => (Panic p, s) | OutOfFuel => (OutOfFuel, s)
          end
  end.

Definition parseOctetString (s : dst) (extensed : bool) (lbp ubp : option Z) : sres (list N) :=
  let '(lb, ub, sizeRange) := dec_size_bounds extensed lbp ubp in
  if (sizeRange =? 1)%Z then
    if (2 <? ub)%Z then
      dos (_, s) <- parseAlignBits s;
      if (Z.of_N (len (d_bytes s)) <? i64 (i64n (d_byteOffset s) + ub))%Z then (Err E_OUT_OF_RANGE, s)
      else
        match slice (d_bytes s) (d_byteOffset s) (u64 (d_byteOffset s + u64z ub)) with
        | Ok chunk => (Ok chunk, mkdst (d_bytes s) (u64 (d_byteOffset s + u64z ub)) (d_bitsOffset s))
        | Err e => (Err e, s) | Panic p => (Panic p, s) | OutOfFuel => (OutOfFuel, s)
        end
    else getBitString s (u64z (ub * 8))
  else oct_dec_loop (S (List.length (d_bytes s))) s sizeRange lb [].

Definition parseBool (s : dst) : sres bool :=
  dos (bit, s) <- getBitsValue s 1; (Ok (bit =? 1), s).

(* for byteLen = 1; byteLen <= 127; byteLen++ { u >>= 8; if u == 0 break } *)
Fixpoint bytelen_loop_dec (fuel : nat) (byteLen u : N) : N :=
  match fuel with
  | O => byteLen
  | S f => let u' := N.shiftr u 8 in if u' =? 0 then byteLen else bytelen_loop_dec f (byteLen + 1) u'
  end.

Definition parseInteger (s : dst) (extensed : bool) (lbp ubp : option Z) : sres Z :=
  let '(lb, ub, valueRange) :=
    if extensed then (0, -1, -1)%Z
    else match lbp with
         | None => (0, -1, -1)%Z
         | Some lb => match ubp with
                      | Some ub => (lb, ub, i64 (ub - lb + 1))
                      | None => (lb, (-1)%Z, 0%Z)
                      end
         end in
  if (valueRange =? 1)%Z then (Ok ub, s)
  else if ((0 <? valueRange) && (valueRange <=? 65536))%Z then
    dos (rawValue, s) <- parseConstraintValue s valueRange; (Ok (i64 (i64n rawValue + lb)), s)
  else
    dos (rawLength, s) <-
      (if (valueRange <=? 0)%Z then
         dos (_, s) <- parseAlignBits s;
         if len (d_bytes s) <=? d_byteOffset s then (Err E_OUT_OF_RANGE, s)
         else match idx (d_bytes s) (d_byteOffset s) with
              | Ok b => (Ok b, mkdst (d_bytes s) (u64 (d_byteOffset s + 1)) (d_bitsOffset s))
              | Err e => (Err e, s) | Panic p => (Panic p, s) | OutOfFuel => (OutOfFuel, s)
              end
       else
         let byteLen := bytelen_loop_dec 127 1 (u64z (valueRange - 1)) in
         let i := go_bits (Z.of_N byteLen) in
         dos (tempLength, s) <- getBitsValue s i;
         dos (_, s) <- parseAlignBits s;
         (Ok (u64 (tempLength + 1)), s));
    dos (rawValue, s) <- getBitsValue s (u64 (rawLength * 8));
    if (valueRange <? 0)%Z then
      let signedBitMask := shl64 1 (sub64 (u64 (rawLength * 8)) 1) in
      let valueMask := sub64 signedBitMask 1 in
      if 0 <? N.land rawValue signedBitMask then
        (* int64((^rawValue)&valueMask+1) * -1 *)
        (Ok (i64 (- i64n (u64 (N.land (N.lxor rawValue (TWO64 - 1)) valueMask + 1)))), s)
      else (Ok (i64 (i64n rawValue + lb)), s)
    else (Ok (i64 (i64n rawValue + lb)), s).

Definition parseEnumerated (s : dst) (extensed : bool) (lbp ubp : option Z) : sres N :=
  if extensed then (Err E_ENUM_EXT, s)
  else match lbp, ubp with
       | Some lb, Some ub =>
           let valueRange := i64 (ub - lb + 1) in
           if (1 <? valueRange)%Z then parseConstraintValue s valueRange else (Ok 0, s)
       | _, _ => (Err E_ENUM_CONSTR, s)
       end.

Definition getChoiceIndex (s : dst) (extensed : bool) (ubp : option Z) : sres Z :=
  if extensed then (Err E_CHOICE_EXT, s)
  else match ubp with
       | None => (Err E_CHOICE_NOUB, s)
       | Some ub =>
           if (ub <? 0)%Z then (Err E_CHOICE_NEGUB, s)
           else dos (rawChoice, s) <- parseConstraintValue s (i64 (ub + 1)); (Ok (i64 (i64n rawChoice + 1)), s)
       end.

(* ---- parseField level: result + bytes reserved by reflect.MakeSlice so far *)
Definition ares (A : Type) : Type := (res A * N)%type.
Definition abind {A B} (r : ares A) (f : A -> ares B) : ares B :=
  match r with
  | (Ok a, n) => let '(r', m) := f a in (r', n + m)
  | (Err e, n) => (Err e, n)
  | (Panic p, n) => (Panic p, n)
  | (OutOfFuel, n) => (OutOfFuel, n)
  end.
Notation "'doa' x <- e ; f" := (abind e (fun x => f)) (at level 200, x pattern, e at level 100, f at level 200, right associativity).
Definition alift {A} (r : sres A) : ares (A * dst) :=
  match r with
  | (Ok a, s) => (Ok (a, s), 0)
  | (Err e, _) => (Err e, 0) | (Panic p, _) => (Panic p, 0) | (OutOfFuel, _) => (OutOfFuel, 0)
  end.
Definition aret {A} (a : A) : ares A := (Ok a, 0).
Definition aerr {A} (e : N) : ares A := (Err e, 0).

(* the open-type fragment loop: collects the octets into pdOpenType.bytes *)
Fixpoint open_dec_loop (fuel : nat) (s : dst) (acc : list N) : sres (list N) :=
  match fuel with
  | O => (OutOfFuel, s)
  | S f =>
      dos (lr, s) <- parseLength s (-1);
      let '(rawLength, repeat) := lr in
      if rawLength =? 0 then (Ok acc, s)
      else
        dos (_, s) <- parseAlignBits s;
        if len (d_bytes s) <? u64 (rawLength + d_byteOffset s) then (Err E_OUT_OF_RANGE, s)
        else
          match slice (d_bytes s) (d_byteOffset s) (u64 (d_byteOffset s + rawLength)) with
          | Ok chunk =>
              let s := mkdst (d_bytes s) (u64 (d_byteOffset s + rawLength)) (d_bitsOffset s) in
              let acc := acc ++ chunk in
              if repeat then open_dec_loop f s acc
              else dos (_, s) <- parseAlignBits s; (Ok acc, s)
          | Err e => (Err e, s) | Panic p => (Panic p, s) | OutOfFuel => (OutOfFuel, s)
          end
  end.

Fixpoint count_optional (fs : list field) : N :=
  match fs with [] => 0 | f :: r => (if p_optional (f_params f) then 1 else 0) + count_optional r end.

(* first j >= 1 whose referenceFieldValue equals refValue (0 when none) *)
Fixpoint find_alt (fs : list field) (j : nat) (refValue : Z) : nat :=
  match fs with
  | [] => O
  | f :: r => match p_refValue (f_params f) with
              | Some x => if (x =? refValue)%Z then j else find_alt r (S j) refValue
              | None => find_alt r (S j) refValue
              end
  end.

Fixpoint set_nth (l : list val) (i : nat) (v : val) : list val :=
  match l, i with
  | [], _ => []
  | _ :: r, O => v :: r
  | x :: r, S k => x :: set_nth r k v
  end.

Definition zero_fields (fs : list field) : list val := map (fun f => zero_val (f_ty f)) fs.

Section Fields.
  Variable rec : ty -> params -> dst -> ares (val * dst).     (* parseField with one unit of fuel less *)

  Definition decSequenceOf (e : ty) (p : params) (sizeExtensed : bool) (s : dst) : ares (val * dst) :=
    let lb := match p_sizeLB p with Some x => if (x <? 65536)%Z then x else 0%Z | None => 0%Z end in
    let sizeRange := match p_sizeUB p with
                     | Some ub => if negb sizeExtensed && (ub <? 65536)%Z then i64 (ub - lb + 1) else (-1)%Z
                     | None => (-1)%Z end in
    doa (numElements, s) <-
      (if (1 <? sizeRange)%Z then
         (* a failed read of the count is logged and ignored: numElements stays 0 *)
         match parseConstraintValue s sizeRange with
         | (Ok n, s') => aret (u64 (n + u64z lb), s')
         | (Err _, s') => aret (u64z lb, s')
         | (Panic p, _) => (Panic p, 0)
         | (OutOfFuel, _) => (OutOfFuel, 0)
         end
       else if (sizeRange =? 1)%Z then aret (u64z lb, s)
       else
         alift (dos (_, s) <- parseAlignBits s;
                if len (d_bytes s) <=? d_byteOffset s then (Err E_OUT_OF_RANGE, s)
                else match idx (d_bytes s) (d_byteOffset s) with
                     | Ok b => (Ok b, mkdst (d_bytes s) (u64 (d_byteOffset s + 1)) (d_bitsOffset s))
                     | Err e => (Err e, s) | Panic p => (Panic p, s) | OutOfFuel => (OutOfFuel, s)
                     end));
    let p' := clear_size p in
    let intNum := i64n numElements in
    if (intNum <? 0)%Z then (Panic P_MAKE, 0)
    else
      (* reflect.MakeSlice(sliceType, n, n) *)
      abind (Ok tt, numElements * go_sizeof e)
        (fun _ =>
           (fix elems (n : nat) (acc : list val) (s : dst) : ares (val * dst) :=
              match n with
              | O => aret (VList (rev acc), s)
              | S k => doa (v, s') <- rec e p' s; elems k (v :: acc) s'
              end) (Z.to_nat intNum) [] s).

  Definition parseOpenType (t : ty) (p : params) (s : dst) : ares (val * dst) :=
    doa (bytes, s) <- alift (open_dec_loop (S (List.length (d_bytes s))) s []);
    doa (v, _) <- rec t p (mkdst bytes 0 0);
    aret (v, s).

  Fixpoint dec_seq_loop (allf : list field) (fs : list field) (i : nat) (cnt pres : N) (vals : list val) (s : dst)
    : ares (val * dst) :=
    match fs with
    | [] => aret (VStruct vals, s)
    | f :: fr =>
        let fp := f_params f in
        let dec := p_optional fp && (0 <? cnt) in
        let cnt' := if dec then cnt - 1 else cnt in
        if dec && (N.land pres (shl64 1 cnt') =? 0) then dec_seq_loop allf fr (S i) cnt' pres vals s
        else
          doa fp' <-
            (if p_openType fp then
               let index := find_field (p_refName fp) allf i 0 in
               if Nat.eqb index i then aerr E_OPEN_NOFIELD
               else match nth_error allf index, nth_error vals index with
                    | Some rf, Some rv => (match get_ref REF_FUEL (f_ty rf) rv with
                                           | Ok z => aret (set_ref fp (Some z))
                                           | Err e => aerr e | Panic q => (Panic q, 0) | OutOfFuel => (OutOfFuel, 0) end)
                    | _, _ => (Panic P_ILLTYPED, 0)
                    end
             else aret fp);
          doa (v, s') <- rec (f_ty f) fp' s;
          dec_seq_loop allf fr (S i) cnt' pres (set_nth vals i v) s'
    end.

  Definition decStruct (fs : list field) (p : params) (valueExtensed : bool) (s : dst) : ares (val * dst) :=
    let optionalCount := count_optional fs in
    doa (pres, s) <- (if 0 <? optionalCount then alift (getBitsValue s optionalCount) else aret (0, s));
    let zeros := zero_fields fs in
    if is_choice fs then
      if p_openType p then
        match p_refValue p with
        | None => aerr E_OPEN_NOREF
        | Some refValue =>
            let present := find_alt (tl fs) 1 refValue in
            if Nat.eqb present 0 then aret (VStruct zeros, s)
            else match nth_error fs present with
                 | None => aerr E_DEC_OPEN_BIG
                 | Some f =>
                     doa (v, s') <- parseOpenType (f_ty f) (f_params f) s;
                     aret (VStruct (set_nth (set_nth zeros 0 (VInt (Z.of_nat present))) present v), s')
                 end
        end
      else
        (* an error of getChoiceIndex is logged and ignored: present stays 0 *)
        match getChoiceIndex s valueExtensed (p_valueUB p) with
        | (Panic q, _) => (Panic q, 0)
        | (OutOfFuel, _) => (OutOfFuel, 0)
        | (Err _, _) => aerr E_DEC_PRESENT_0
        | (Ok present, s) =>
            if (present =? 0)%Z then aerr E_DEC_PRESENT_0
            else if (present >=? Z.of_nat (List.length fs))%Z then aerr E_DEC_PRESENT_BIG
            else if (present <? 0)%Z then (Panic P_REFLECT, 0)
            else match nth_error fs (Z.to_nat present) with
                 | None => (Panic P_REFLECT, 0)
                 | Some f =>
                     doa (v, s') <- rec (f_ty f) (f_params f) s;
                     aret (VStruct (set_nth (set_nth zeros 0 (VInt present)) (Z.to_nat present) v), s')
                 end
        end
    else dec_seq_loop fs fs 0 optionalCount pres zeros s.
End Fields.

Fixpoint parseField (fuel : nat) (t : ty) (p : params) (s : dst) : ares (val * dst) :=
  match fuel with
  | O => (OutOfFuel, 0)
  | S f =>
      if d_byteOffset s =? len (d_bytes s) then aerr E_TRUNCATED
      else
        match t with
        | TPtr e => doa (v, s') <- parseField f e p s; aret (VPtr v, s')
        | _ =>
            doa (sizeExtensible, s) <-
              (if p_sizeExt p then alift (dos (b, s) <- getBitsValue s 1; (Ok (negb (b =? 0)), s)) else aret (false, s));
            doa (valueExtensible, s) <-
              (if p_valueExt p && negb (match t with TSlice _ => true | _ => false end)
               then alift (dos (b, s) <- getBitsValue s 1; (Ok (negb (b =? 0)), s)) else aret (false, s));
            match t with
            | TBits => doa ((bs, n), s') <- alift (parseBitString s sizeExtensible (p_sizeLB p) (p_sizeUB p));
                       aret (VBits bs n, s')
            | TOid => aerr E_OID
            | TOctets | TString =>
                doa (bs, s') <- alift (parseOctetString s sizeExtensible (p_sizeLB p) (p_sizeUB p)); aret (VOctets bs, s')
            | TEnum => doa (n, s') <- alift (parseEnumerated s valueExtensible (p_valueLB p) (p_valueUB p)); aret (VEnum n, s')
            | TBool => doa (b, s') <- alift (parseBool s); aret (VBool b, s')
            | TInt => doa (z, s') <- alift (parseInteger s valueExtensible (p_valueLB p) (p_valueUB p)); aret (VInt z, s')
            | TStruct fs => decStruct (parseField f) fs p valueExtensible s
            | TSlice e => decSequenceOf (parseField f) e p sizeExtensible s
            | TPtr _ => (Panic P_ILLTYPED, 0)
            end
        end
  end.

Definition unmarshal_full (fuel : nat) (t : ty) (p : params) (bs : list N) : ares (val * dst) :=
  parseField fuel t p (mkdst bs 0 0).

(* UnmarshalWithParams(b, &value, params): the decoded value, or the error / panic *)
Definition unmarshal (fuel : nat) (t : ty) (p : params) (bs : list N) : res val :=
  match fst (unmarshal_full fuel t p bs) with
  | Ok (v, _) => Ok v
  | Err e => Err e | Panic q => Panic q | OutOfFuel => OutOfFuel
  end.
Definition unmarshal_alloc (fuel : nat) (t : ty) (p : params) (bs : list N) : N := snd (unmarshal_full fuel t p bs).
