(* Models of the identifier conversion helpers (C17):
   nasConvert.SnssaiToNas, nasConvert.AmfIdToNas, ngapConvert.IPAddressToNgap / IPAddressToString
   (at the octet level: the textual forms are produced/parsed by Go's net package, see harness),
   nasConvert.ProtocolConfigurationOptions.Marshal / UnMarshal, util_3gpp.Dnn Marshal/UnmarshalBinary.
   nasConvert.PlmnIDToNas is in Model/SuciEnc.v (plmn_id_to_nas). *)
From Coq Require Import NArith ZArith List Bool.
Require Import Hex.
Import ListNotations.
Open Scope N_scope.

(* ---- SnssaiToNas: sst is an int32 cast to uint8; sd a hex string, appended only when it decodes *)
Definition snssai_to_nas (sst:Z) (sd:list N) : list N :=
  let sst8 := Z.to_N (sst mod 256) in
  match sd with
  | [] => [1; sst8]
  | _ => let '(b, ok) := hex_decode_go sd in [4; sst8] ++ (if ok then b else [])
  end.

(* ---- AmfIdToNas: None = index out of range panic (fewer than 3 decoded octets) *)
Definition amf_id_to_nas (amfid:list N) : option (N * N * N) :=
  match fst (hex_decode_go amfid) with
  | b0 :: b1 :: b2 :: _ =>
      Some (b0, (N.shiftl b1 2 + N.shiftr (N.land b2 192) 6) mod 65536, N.land b2 63)
  | _ => None
  end.

(* ---- transport layer address <-> IPv4 / IPv6 octets (TS 38.414) *)
Definition ip_to_ngap (v4 v6:option (list N)) : list N * N :=      (* (Bytes, BitLength) *)
  match v4, v6 with
  | None, None => ([], 0)
  | Some a, Some b => (firstn 4 a ++ firstn 16 b, 160)
  | Some a, None => (firstn 4 a, 32)
  | None, Some b => (firstn 16 b, 128)
  end.
(* IPAddressToString; None in the result = empty string; outer None = index panic *)
Definition ngap_to_ip (bytes:list N) (bitlen:N) : option (option (list N) * option (list N)) :=
  if bitlen =? 32 then
    if Nat.ltb (length bytes) 4 then None else Some (Some (firstn 4 bytes), None)
  else if bitlen =? 128 then Some (None, Some bytes)        (* for i := range ip.Bytes: all octets given *)
  else if bitlen =? 160 then
    if Nat.ltb (length bytes) 20 then None else Some (Some (firstn 4 bytes), Some (firstn 16 (skipn 4 bytes)))
  else Some (None, None).

(* ---- protocol configuration options *)
Record pcu := { u_id : N; u_len : N; u_contents : list N }.
Definition pco_marshal (us:list pcu) : list N :=
  128 :: flat_map (fun u => [(u_id u / 256) mod 256; u_id u mod 256; u_len u mod 256] ++ u_contents u) us.

Inductive pstate := RID | RLen | RContent.
Inductive pres := POk (l:list pcu) | PErr | PFuel.
Fixpoint pco_loop (fuel:nat) (num:Z) (rd:list N) (st:pstate) (cur:pcu) (acc:list pcu) : pres :=
  match fuel with
  | O => PFuel
  | S f =>
    if (num <=? 0)%Z then POk acc else
    match st with
    | RID => match rd with
             | a :: b :: r => pco_loop f (num - 2) r RLen {| u_id := a * 256 + b; u_len := 0; u_contents := [] |} acc
             | _ => PErr end
    | RLen => match rd with
              | l :: r => let cur' := {| u_id := u_id cur; u_len := l; u_contents := u_contents cur |} in
                          pco_loop f (num - 1) r RContent cur' (if l =? 0 then acc ++ [cur'] else acc)
              | [] => PErr end
    | RContent =>
        if 0 <? u_len cur then
          let n := N.to_nat (u_len cur) in
          if Nat.ltb (length rd) n then PErr else
          let cur' := {| u_id := u_id cur; u_len := u_len cur; u_contents := firstn n rd |} in
          pco_loop f (num - Z.of_N (u_len cur)) (skipn n rd) RID cur' (acc ++ [cur'])
        else pco_loop f num rd RID cur acc
    end
  end.
Definition pcu0 := {| u_id := 0; u_len := 0; u_contents := [] |}.
Definition pco_unmarshal (data:list N) : pres :=
  match data with
  | [] => PErr
  | _ :: r => pco_loop (3 * length data + 3) (Z.of_nat (length data) - 1) r RID pcu0 []
  end.

(* ---- Dnn *)
Definition dnn_marshal (d:list N) : list N := (N.of_nat (length d) mod 256) :: d.
Definition dnn_unmarshal (data:list N) : option (list N) := match data with [] => None | _ :: r => Some r end.

(* ---- correspondence *)
Fixpoint eqb_bytes (a b:list N) : bool :=
  match a, b with [], [] => true | x::a', y::b' => (x =? y) && eqb_bytes a' b' | _, _ => false end.
Definition eqb_ob (a b:option (list N)) : bool :=
  match a, b with Some x, Some y => eqb_bytes x y | None, None => true | _, _ => false end.
Fixpoint eqb_units (a b:list pcu) : bool :=
  match a, b with [], [] => true
  | x::a', y::b' => (u_id x =? u_id y) && (u_len x =? u_len y) && eqb_bytes (u_contents x) (u_contents y) && eqb_units a' b'
  | _, _ => false end.
Definition snssai_check (c:Z * list N * list N) : bool := let '(sst, sd, o) := c in eqb_bytes (snssai_to_nas sst sd) o.
Definition amfid_check (c:list N * option (N * N * N)) : bool :=
  let '(s, o) := c in
  match amf_id_to_nas s, o with
  | Some (r, st, p), Some (r', st', p') => (r =? r') && (st =? st') && (p =? p')
  | None, None => true | _, _ => false end.
(* v4, v6 given; observed Bytes, BitLength, back4, back6 *)
Definition ipaddr_check (c:option (list N) * option (list N) * list N * N * option (list N) * option (list N)) : bool :=
  let '(v4, v6, ob, ol, b4, b6) := c in
  let '(mb, ml) := ip_to_ngap v4 v6 in
  eqb_bytes mb ob && (ml =? ol) &&
  match ngap_to_ip ob ol with Some (m4, m6) => eqb_ob m4 b4 && eqb_ob m6 b6 | None => false end.
Definition ipstr_check (c:list N * N * option (option (list N) * option (list N))) : bool :=
  let '(b, l, o) := c in
  match ngap_to_ip b l, o with
  | Some (m4, m6), Some (o4, o6) => eqb_ob m4 o4 && eqb_ob m6 o6
  | None, None => true | _, _ => false end.
Definition pco_check (c:list pcu * list N * option (list pcu)) : bool :=
  let '(us, ob, ou) := c in
  eqb_bytes (pco_marshal us) ob &&
  match pco_unmarshal ob, ou with POk l, Some l' => eqb_units l l' | PErr, None => true | _, _ => false end.
Definition pcodec_check (c:list N * option (list pcu)) : bool :=
  let '(d, ou) := c in
  match pco_unmarshal d, ou with POk l, Some l' => eqb_units l l' | PErr, None => true | _, _ => false end.
Definition dnn_check (c:list N * list N * list N) : bool :=
  let '(d, ob, back) := c in eqb_bytes (dnn_marshal d) ob && eqb_ob (dnn_unmarshal ob) (Some back).
