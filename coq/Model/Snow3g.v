(* Model of package snow3g (src/free5gclib/nas/security/snow3g/snow3g.go), transcribed function by function.
   - byte / uint32 are N; every operation that can leave the type's range is followed by the explicit wrap
     (w8 = & 0xff, w32 = & 0xffffffff);
   - the package-level variables `lfsr` and `fsm` are threaded explicitly: every Go function f(args) that reads or
     writes them is  f : state -> args -> state [* result];
   - `lfsr.s` is a [16]uint32: a record of 16 fields with get/set by constant index, so that "every element of
     the array was assigned" is visible to Coq (InitSnow3g overwrites all of them);
   - the tables `sr`, `sq` come from Gen/Snow3gTables.v (translator gen-snow3g); indexing a [256]byte with an
     index < 256 cannot fail (the index is always `& 0xff` or a byte). *)
From Coq Require Import NArith List Bool.
Require Import Bytes Snow3gTables.
Import ListNotations.
Open Scope N_scope.

(* var sr = [...]byte{...}, var sq = [...]byte{...} *)
Definition sr (i:N) : N := nth (N.to_nat i) sr_table 0.
Definition sq (i:N) : N := nth (N.to_nat i) sq_table 0.

(* type Lfsr struct { s [16]uint32 };  type Fsm struct { r [3]uint32 } *)
Record Lfsr := mkLfsr { l0 : N; l1 : N; l2 : N; l3 : N; l4 : N; l5 : N; l6 : N; l7 : N; l8 : N; l9 : N; l10 : N; l11 : N; l12 : N; l13 : N; l14 : N; l15 : N }.
Record Fsm := mkFsm { r0 : N; r1 : N; r2 : N }.
Record state := mkState { lfsr : Lfsr; fsm : Fsm }.

Definition lget (a:Lfsr) (i:nat) : N :=
  match i with
  | 0%nat => l0 a
  | 1%nat => l1 a
  | 2%nat => l2 a
  | 3%nat => l3 a
  | 4%nat => l4 a
  | 5%nat => l5 a
  | 6%nat => l6 a
  | 7%nat => l7 a
  | 8%nat => l8 a
  | 9%nat => l9 a
  | 10%nat => l10 a
  | 11%nat => l11 a
  | 12%nat => l12 a
  | 13%nat => l13 a
  | 14%nat => l14 a
  | 15%nat => l15 a
  | _ => 0          (* not reachable: all indices in the source are constants or loop counters below 16 *)
  end.
Definition lset (a:Lfsr) (i:nat) (v:N) : Lfsr :=
  let '(mkLfsr a0 a1 a2 a3 a4 a5 a6 a7 a8 a9 a10 a11 a12 a13 a14 a15) := a in
  match i with
  | 0%nat => mkLfsr v a1 a2 a3 a4 a5 a6 a7 a8 a9 a10 a11 a12 a13 a14 a15
  | 1%nat => mkLfsr a0 v a2 a3 a4 a5 a6 a7 a8 a9 a10 a11 a12 a13 a14 a15
  | 2%nat => mkLfsr a0 a1 v a3 a4 a5 a6 a7 a8 a9 a10 a11 a12 a13 a14 a15
  | 3%nat => mkLfsr a0 a1 a2 v a4 a5 a6 a7 a8 a9 a10 a11 a12 a13 a14 a15
  | 4%nat => mkLfsr a0 a1 a2 a3 v a5 a6 a7 a8 a9 a10 a11 a12 a13 a14 a15
  | 5%nat => mkLfsr a0 a1 a2 a3 a4 v a6 a7 a8 a9 a10 a11 a12 a13 a14 a15
  | 6%nat => mkLfsr a0 a1 a2 a3 a4 a5 v a7 a8 a9 a10 a11 a12 a13 a14 a15
  | 7%nat => mkLfsr a0 a1 a2 a3 a4 a5 a6 v a8 a9 a10 a11 a12 a13 a14 a15
  | 8%nat => mkLfsr a0 a1 a2 a3 a4 a5 a6 a7 v a9 a10 a11 a12 a13 a14 a15
  | 9%nat => mkLfsr a0 a1 a2 a3 a4 a5 a6 a7 a8 v a10 a11 a12 a13 a14 a15
  | 10%nat => mkLfsr a0 a1 a2 a3 a4 a5 a6 a7 a8 a9 v a11 a12 a13 a14 a15
  | 11%nat => mkLfsr a0 a1 a2 a3 a4 a5 a6 a7 a8 a9 a10 v a12 a13 a14 a15
  | 12%nat => mkLfsr a0 a1 a2 a3 a4 a5 a6 a7 a8 a9 a10 a11 v a13 a14 a15
  | 13%nat => mkLfsr a0 a1 a2 a3 a4 a5 a6 a7 a8 a9 a10 a11 a12 v a14 a15
  | 14%nat => mkLfsr a0 a1 a2 a3 a4 a5 a6 a7 a8 a9 a10 a11 a12 a13 v a15
  | 15%nat => mkLfsr a0 a1 a2 a3 a4 a5 a6 a7 a8 a9 a10 a11 a12 a13 a14 v
  | _ => a
  end.
Definition rget (f:Fsm) (i:nat) : N := match i with 0%nat => r0 f | 1%nat => r1 f | 2%nat => r2 f | _ => 0 end.
Definition rset (f:Fsm) (i:nat) (v:N) : Fsm :=
  match i with
  | 0%nat => mkFsm v (r1 f) (r2 f) | 1%nat => mkFsm (r0 f) v (r2 f) | 2%nat => mkFsm (r0 f) (r1 f) v | _ => f end.
Definition set_s (st:state) (i:nat) (v:N) : state := mkState (lset (lfsr st) i v) (fsm st).
Definition set_r (st:state) (i:nat) (v:N) : state := mkState (lfsr st) (rset (fsm st) i v).
Definition s_ (st:state) (i:nat) : N := lget (lfsr st) i.
Definition r_ (st:state) (i:nat) : N := rget (fsm st) i.

(* func mulx(V, c byte) byte *)
Definition mulx (V c:N) : N :=
  if negb (N.land V 128 =? 0) then N.lxor (w8 (N.shiftl V 1)) c else w8 (N.shiftl V 1).
(* func mulxPow(V, i, c byte) byte   (recursion on i) *)
Fixpoint mulxPow (V:N) (i:nat) (c:N) : N :=
  match i with O => V | S j => mulx (mulxPow V j c) c end.

Definition xor5 (a b c d e:N) : N := N.lxor (N.lxor (N.lxor (N.lxor a b) c) d) e.
Definition pack (x0 x1 x2 x3:N) : N :=        (* (r0 << 24) | (r1 << 16) | (r2 << 8) | r3  on uint32 *)
  N.lor (N.lor (N.lor (w32 (N.shiftl x0 24)) (w32 (N.shiftl x1 16))) (w32 (N.shiftl x2 8))) x3.

(* func s1(w uint32) uint32 *)
Definition s1 (w:N) : N :=
  let w0 := N.land (N.shiftr w 24) 255 in
  let w1 := N.land (N.shiftr w 16) 255 in
  let w2 := N.land (N.shiftr w 8) 255 in
  let w3 := N.land w 255 in
  let x0 := xor5 (mulx (sr w0) 27) (sr w1) (sr w2) (mulx (sr w3) 27) (sr w3) in
  let x1 := xor5 (mulx (sr w0) 27) (sr w0) (mulx (sr w1) 27) (sr w2) (sr w3) in
  let x2 := xor5 (sr w0) (mulx (sr w1) 27) (sr w1) (mulx (sr w2) 27) (sr w3) in
  let x3 := xor5 (sr w0) (sr w1) (mulx (sr w2) 27) (sr w2) (mulx (sr w3) 27) in
  pack x0 x1 x2 x3.
(* func s2(w uint32) uint32 *)
Definition s2 (w:N) : N :=
  let w0 := N.land (N.shiftr w 24) 255 in
  let w1 := N.land (N.shiftr w 16) 255 in
  let w2 := N.land (N.shiftr w 8) 255 in
  let w3 := N.land w 255 in
  let x0 := xor5 (mulx (sq w0) 105) (sq w1) (sq w2) (mulx (sq w3) 105) (sq w3) in
  let x1 := xor5 (mulx (sq w0) 105) (sq w0) (mulx (sq w1) 105) (sq w2) (sq w3) in
  let x2 := xor5 (sq w0) (mulx (sq w1) 105) (sq w1) (mulx (sq w2) 105) (sq w3) in
  let x3 := xor5 (sq w0) (sq w1) (mulx (sq w2) 105) (sq w2) (mulx (sq w3) 105) in
  pack x0 x1 x2 x3.

(* func mulAlpha(c byte) uint32 / func divAlpha(c byte) uint32 *)
Definition mulAlpha (c:N) : N := pack (mulxPow c 23 169) (mulxPow c 245 169) (mulxPow c 48 169) (mulxPow c 239 169).
Definition divAlpha (c:N) : N := pack (mulxPow c 16 169) (mulxPow c 39 169) (mulxPow c 6 169) (mulxPow c 64 169).

(* the common part of lfsrInitialisationMode / lfsrKeystreamMode:
   (lfsr.s[0] << 8) ^ mulAlpha(byte(lfsr.s[0]>>24)&0xff) ^ lfsr.s[2] ^ (lfsr.s[11] >> 8) ^ divAlpha(byte(lfsr.s[11]&0xff)) *)
Definition lfsr_v (st:state) : N :=
  N.lxor (N.lxor (N.lxor (N.lxor (w32 (N.shiftl (s_ st 0) 8))
                                 (mulAlpha (N.land (w8 (N.shiftr (s_ st 0) 24)) 255)))
                         (s_ st 2))
                 (N.shiftr (s_ st 11) 8))
         (divAlpha (w8 (N.land (s_ st 11) 255))).
(* for i := 0; i < 15; i++ { lfsr.s[i] = lfsr.s[i+1] };  lfsr.s[15] = v *)
Definition lfsr_shift (st:state) (v:N) : state :=
  let st := fold_left (fun st i => set_s st i (s_ st (i + 1))) (seq 0 15) st in
  set_s st 15 v.
(* func lfsrInitialisationMode(F uint32) *)
Definition lfsrInitialisationMode (st:state) (F:N) : state := lfsr_shift st (N.lxor (lfsr_v st) F).
(* func lfsrKeystreamMode() *)
Definition lfsrKeystreamMode (st:state) : state := lfsr_shift st (lfsr_v st).

(* func clockFsm(s15, s5 uint32) uint32 *)
Definition clockFsm (st:state) (s15 s5:N) : state * N :=
  let F := N.lxor (w32 (s15 + r_ st 0)) (r_ st 1) in
  let r := w32 (r_ st 1 + N.lxor (r_ st 2) s5) in
  let st := set_r st 2 (s2 (r_ st 1)) in
  let st := set_r st 1 (s1 (r_ st 0)) in
  let st := set_r st 0 r in
  (st, F).

(* func InitSnow3g(k, iv [4]uint32) *)
Definition ffff : N := 4294967295.
Definition InitSnow3g (st:state) (k iv:list N) : state :=
  let k_ i := nth i k 0 in let iv_ i := nth i iv 0 in
  let st := set_s st 0 (N.lxor (k_ 0%nat) ffff) in
  let st := set_s st 1 (N.lxor (k_ 1%nat) ffff) in
  let st := set_s st 2 (N.lxor (k_ 2%nat) ffff) in
  let st := set_s st 3 (N.lxor (k_ 3%nat) ffff) in
  let st := set_s st 4 (k_ 0%nat) in
  let st := set_s st 5 (k_ 1%nat) in
  let st := set_s st 6 (k_ 2%nat) in
  let st := set_s st 7 (k_ 3%nat) in
  let st := set_s st 8 (N.lxor (k_ 0%nat) ffff) in
  let st := set_s st 9 (N.lxor (N.lxor (k_ 1%nat) ffff) (iv_ 3%nat)) in
  let st := set_s st 10 (N.lxor (N.lxor (k_ 2%nat) ffff) (iv_ 2%nat)) in
  let st := set_s st 11 (N.lxor (k_ 3%nat) ffff) in
  let st := set_s st 12 (N.lxor (k_ 0%nat) (iv_ 1%nat)) in
  let st := set_s st 13 (k_ 1%nat) in
  let st := set_s st 14 (k_ 2%nat) in
  let st := set_s st 15 (N.lxor (k_ 3%nat) (iv_ 0%nat)) in
  let st := fold_left (fun st i => set_r st i 0) (seq 0 3) st in
  fold_left (fun st (_:nat) => let '(st, F) := clockFsm st (s_ st 15) (s_ st 5) in lfsrInitialisationMode st F)
            (seq 0 32) st.

(* func GenerateKeystream(n int, ks []uint32): the n words written to ks[0..n-1] (both callers pass a slice of
   exactly n elements, all of which are overwritten) *)
Fixpoint gen_loop (n:nat) (st:state) : state * list N :=
  match n with
  | O => (st, [])
  | S n' =>
      let '(st, F) := clockFsm st (s_ st 15) (s_ st 5) in
      let z := N.lxor F (s_ st 0) in
      let st := lfsrKeystreamMode st in
      let '(st, zs) := gen_loop n' st in (st, z :: zs)
  end.
Definition GenerateKeystream (st:state) (n:nat) : state * list N :=
  let '(st, _) := clockFsm st (s_ st 15) (s_ st 5) in
  let st := lfsrKeystreamMode st in
  gen_loop n st.

(* some state to start from when the caller does not care (the zero value of the Go variables) *)
Definition zero_state : state := mkState (mkLfsr 0 0 0 0 0 0 0 0 0 0 0 0 0 0 0 0) (mkFsm 0 0 0).

(* same test data as the specification file, through the model (TS 35.222 test set 1) *)
Example model_snow3g_set1 :
  snd (GenerateKeystream (InitSnow3g zero_state [0x2BD6459F; 0x82C5B300; 0x952C4910; 0x4881FF48]
                                               [0xEA024714; 0xAD5C4D84; 0xDF1F9B25; 0x1C0BF45F]) 2)
  = [0xABEE9704; 0x7AC31373].
Proof. vm_compute. reflexivity. Qed.
