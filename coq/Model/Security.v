(* Model of package security (src/free5gclib/nas/security/security.go, parameters.go): NASEncrypt,
   NASMacCalculate, NEA1, NEA2, NIA1, NIA2, mulx/mulxPow/mul (GF(2^64) helpers of NIA1).
   Conventions:
   - the snow3g package state is threaded: functions that call into snow3g take and return [state];
   - [16]byte keys are lists of 16 octets (the Go type fixes the length; [key_ok] says so);
   - []byte arguments are lists; a nil slice is [None] at the two entry points that test for nil;
   - Go results (value, error) are [sres]: SOk v | SErr code | SPanic (run-time panic: index out of range) | SFuel;
   - crypto/aes + crypto/cipher.NewCTR + XORKeyStream are modelled by Modes.ctr_xor, github.com/aead/cmac.Sum
     by Modes.cmac, over a block cipher E that is a Section variable (aes128 at the executable entry points);
   - uint8/uint32/uint64 arithmetic carries its wrap (w8/w32/w64). *)
From Coq Require Import NArith List Bool.
Require Import Bytes AES Modes Snow3g.
Import ListNotations.
Open Scope N_scope.

Inductive sres (A:Type) : Type := SOk (a:A) | SErr (code:N) | SPanic | SFuel.
Arguments SOk {A} a. Arguments SErr {A} code. Arguments SPanic {A}. Arguments SFuel {A}.

(* error codes (the Go code returns fmt.Errorf strings) *)
Definition ERR_BEARER : N := 1.      (* "Bearer is beyond 5 bits" *)
Definition ERR_DIRECTION : N := 2.   (* "Direction is beyond 1 bits" *)
Definition ERR_NIL : N := 3.         (* "Nas Payload is nil" *)
Definition ERR_ALG3 : N := 4.        (* "NEA3 not implement yet." / "NIA3 not implement yet." *)
Definition ERR_UNKNOWN : N := 5.     (* "Unknown Algorithm Identity[%d]" *)

(* parameters.go *)
Definition AlgIntegrity128NIA0 : N := 0.  Definition AlgIntegrity128NIA1 : N := 1.
Definition AlgIntegrity128NIA2 : N := 2.  Definition AlgIntegrity128NIA3 : N := 3.
Definition AlgCiphering128NEA0 : N := 0.  Definition AlgCiphering128NEA1 : N := 1.
Definition AlgCiphering128NEA2 : N := 2.  Definition AlgCiphering128NEA3 : N := 3.

Definition key_ok (k:bytes) : bool := Nat.eqb (length k) 16.

(* ---- slices *)
Fixpoint set_nth (i:nat) (v:N) (l:list N) : list N :=            (* l[i] = v, for i < len(l) *)
  match l, i with
  | [], _ => []
  | _ :: r, O => v :: r
  | x :: r, S j => x :: set_nth j v r
  end.
(* copy(dst, src) *)
Definition go_copy (dst src:bytes) : bytes := firstn (length dst) src ++ skipn (length src) dst.
(* binary.BigEndian.Uint32(b) / Uint64(b): panics when b is shorter than 4 / 8 *)
Definition be_uint (n:nat) (b:bytes) : option N :=
  if Nat.leb n (length b) then Some (be_to_N (firstn n b)) else None.
(* binary.BigEndian.PutUint32(b, v) on a slice of at least 4 octets *)
Definition put_uint32 (b:bytes) (v:N) : bytes := N_to_be 4 v ++ skipn 4 b.

(* k[i] = binary.BigEndian.Uint32(ck[4*(3-i) : 4*(3-i+1)])  for i = 0..3 *)
Definition key_word (ck:bytes) (i:nat) : N :=
  be_to_N (firstn (4 * (3 - i + 1) - 4 * (3 - i)) (skipn (4 * (3 - i)) ck)).
Definition load_key (ck:bytes) : list N := map (key_word ck) (seq 0 4).

(* ---- NEA1 *)
(* byte((ks[i] >> (8*(3-j))) & 0xff) *)
Definition ks_byte (k:N) (j:nat) : N := w8 (N.land (N.shiftr k (8 * (3 - N.of_nat j))) 255).
(* obs[4*i+j] = ibs[4*i+j] ^ byte((ks[i]>>(8*(3-j)))&0xff); any index out of range panics *)
Definition xor_at (ibs ks:list N) (i j:nat) (obs:option (list N)) : option (list N) :=
  match obs with
  | None => None
  | Some o =>
      let p := (4 * i + j)%nat in
      match nth_error ibs p, nth_error ks i with
      | Some b, Some k => if Nat.ltb p (length o) then Some (set_nth p (N.lxor b (ks_byte k j)) o) else None
      | _, _ => None
      end
  end.

(* func NEA1(ck [16]byte, countC, bearer, direction uint32, ibs []byte, length uint32) (obs []byte, err error) *)
Definition NEA1 (st:state) (ck:bytes) (countC bearer direction:N) (ibs:bytes) (length_:N) : state * sres bytes :=
  let k := load_key ck in
  let x := N.lor (w32 (N.shiftl bearer 27)) (w32 (N.shiftl direction 26)) in
  let iv := [x; countC; x; countC] in
  let st := InitSnow3g st k iv in
  let l := w32 (length_ + 31) / 32 in
  let r := length_ mod 32 in
  let '(st, ks) := GenerateKeystream st (N.to_nat l) in
  (* if r != 0 { ks[l-1] &= ^((1 << (32 - r)) - 1) }   (all in uint32) *)
  let ks := if negb (r =? 0)
            then set_nth (N.to_nat (l - 1))
                         (N.land (nth (N.to_nat (l - 1)) ks 0)
                                 (N.lxor (w32 (w32 (N.shiftl 1 (32 - r)) + 4294967295)) 4294967295)) ks
            else ks in
  let obs := Some (repeat 0 (length ibs)) in
  let nfull := N.to_nat (length_ / 32) in
  (* for i = 0; i < length/32; i++ { for j := 0; j < 4; j++ { ... } } *)
  let obs := fold_left (fun o i => fold_left (fun o j => xor_at ibs ks i j o) (seq 0 4) o) (seq 0 nfull) obs in
  (* if r != 0 { ll := (r+7)/8; for j := 0; j < ll; j++ { ... } }      (i == length/32 here) *)
  let obs := if negb (r =? 0)
             then fold_left (fun o j => xor_at ibs ks nfull j o) (seq 0 (N.to_nat ((r + 7) / 8))) obs
             else obs in
  (st, match obs with Some o => SOk o | None => SPanic end).

(* ---- NIA1 *)
(* func mulx(V, c uint64) uint64 *)
Definition sec_mulx (V c:N) : N :=
  if negb (N.land V 9223372036854775808 =? 0) then N.lxor (w64 (N.shiftl V 1)) c else w64 (N.shiftl V 1).
(* func mulxPow(V, i, c uint64) uint64 *)
Fixpoint sec_mulxPow (V:N) (i:nat) (c:N) : N :=
  match i with O => V | S j => sec_mulx (sec_mulxPow V j c) c end.
(* func mul(V, P, c uint64) uint64 *)
Definition sec_mul (V P c:N) : N :=
  fold_left (fun rst i => if N.land (N.shiftr P (N.of_nat i)) 1 =? 1 then N.lxor rst (sec_mulxPow V i c) else rst)
            (seq 0 64) 0.

(* for i := uint64(0); i < D-2; i++ { M := binary.BigEndian.Uint64(msg[8*i:]); Eval = mul(Eval^M, P, 0x1b) }
   [bound] = D-2 in uint64 (it wraps to 2^64-1 for an empty message, in which case the first read panics);
   fuel: every iteration that does not panic consumes 8 further octets of msg *)
Fixpoint nia1_loop (fuel:nat) (i bound:N) (msg:bytes) (P Eval:N) : sres N :=
  if i <? bound then
    match fuel with
    | O => SFuel
    | S f =>
        if N.of_nat (length msg) <? 8 * i then SPanic               (* msg[8*i:] *)
        else match be_uint 8 (skipn (N.to_nat (8 * i)) msg) with
             | None => SPanic
             | Some M => nia1_loop f (i + 1) bound msg P (sec_mul (N.lxor Eval M) P 27)
             end
    end
  else SOk Eval.

(* func NIA1(ik [16]byte, countI uint32, bearer byte, direction uint32, msg []byte, length uint64) (mac []byte, err error) *)
Definition NIA1 (st:state) (ik:bytes) (countI bearer direction:N) (msg:bytes) (length_:N) : state * sres bytes :=
  let fresh := w32 (N.shiftl bearer 27) in
  let k := load_key ik in
  let iv := [N.lxor fresh (w32 (N.shiftl direction 15)); N.lxor countI (w32 (N.shiftl direction 31)); fresh; countI] in
  let D := w64 (w64 (length_ + 63) / 64 + 1) in
  let st := InitSnow3g st k iv in
  let '(st, z) := GenerateKeystream st 5 in
  let z_ i := nth i z 0 in
  let P := N.lor (w64 (N.shiftl (z_ 0%nat) 32)) (z_ 1%nat) in
  let Q := N.lor (w64 (N.shiftl (z_ 2%nat) 32)) (z_ 3%nat) in
  let Dm2 := w64 (D + 18446744073709551614) in                        (* D-2 in uint64 *)
  (st,
   match nia1_loop (S (length msg)) 0 Dm2 msg P 0 with
   | SOk Eval =>
       (* tmp := make([]byte, 8); copy(tmp, msg[8*(D-2):]) *)
       let off := w64 (8 * Dm2) in
       if N.of_nat (length msg) <? off then SPanic
       else
         let tmp := go_copy (repeat 0 8) (skipn (N.to_nat off) msg) in
         let M := be_to_N tmp in
         let Eval := sec_mul (N.lxor Eval M) P 27 in
         let Eval := N.lxor Eval length_ in
         let Eval := sec_mul Eval Q 27 in
         let MacI := N.lxor (w32 (N.shiftr Eval 32)) (z_ 4%nat) in
         SOk (put_uint32 (repeat 0 4) MacI)
   | SErr e => SErr e | SPanic => SPanic | SFuel => SFuel
   end).

Section BlockCipher.
(* aes.NewCipher(key[:]) never fails for a 16-octet key; E key = the resulting cipher.Block's Encrypt *)
Variable E : bytes -> bytes -> bytes.

(* func NEA2(key [16]byte, count uint32, bearer uint8, direction uint8, ibs []byte) (obs []byte, err error) *)
Definition NEA2 (key:bytes) (count bearer direction:N) (ibs:bytes) : sres bytes :=
  let couterBlk := repeat 0 16 in
  let couterBlk := put_uint32 couterBlk count in
  let couterBlk := set_nth 4 (N.lor (w8 (N.shiftl bearer 3)) (w8 (N.shiftl direction 2))) couterBlk in
  (* stream := cipher.NewCTR(block, couterBlk); stream.XORKeyStream(obs, ibs)  with len(obs) = len(ibs) *)
  SOk (ctr_xor E key couterBlk ibs).

(* func NIA2(key [16]byte, count uint32, bearer uint8, direction uint8, msg []byte) (mac []byte, err error) *)
Definition NIA2 (key:bytes) (count bearer direction:N) (msg:bytes) : sres bytes :=
  let m := repeat 0 (length msg + 8) in
  let m := put_uint32 m count in
  let m := set_nth 4 (N.lor (w8 (N.shiftl bearer 3)) (w8 (N.shiftl direction 2))) m in
  let m := firstn 8 m ++ go_copy (skipn 8 m) msg in                   (* copy(m[8:], msg) *)
  let mac := cmac E key m in                                          (* cmac.Sum(m, block, 16) *)
  SOk (firstn 4 mac).                                                 (* mac[:4] *)

(* func NASEncrypt(AlgoID uint8, KnasEnc [16]byte, Count uint32, Bearer uint8, Direction uint8, payload []byte) error
   The observable is the content of [payload] after the call (it is ciphered in place). *)
Definition NASEncrypt (st:state) (AlgoID:N) (KnasEnc:bytes) (Count Bearer Direction:N) (payload:option bytes)
  : state * sres bytes :=
  if 31 <? Bearer then (st, SErr ERR_BEARER)
  else if 1 <? Direction then (st, SErr ERR_DIRECTION)
  else match payload with
  | None => (st, SErr ERR_NIL)
  | Some payload =>
      if AlgoID =? AlgCiphering128NEA0 then (st, SOk payload)
      else if AlgoID =? AlgCiphering128NEA1 then
        (* NEA1(KnasEnc, Count, uint32(Bearer), uint32(Direction), payload, uint32(len(payload))*8) *)
        let '(st, r) := NEA1 st KnasEnc Count Bearer Direction payload (w32 (w32 (N.of_nat (length payload)) * 8)) in
        (st, match r with SOk output => SOk (go_copy payload output) | e => e end)
      else if AlgoID =? AlgCiphering128NEA2 then
        (st, match NEA2 KnasEnc Count Bearer Direction payload with SOk output => SOk (go_copy payload output) | e => e end)
      else if AlgoID =? AlgCiphering128NEA3 then (st, SErr ERR_ALG3)
      else (st, SErr ERR_UNKNOWN)
  end.

(* func NASMacCalculate(AlgoID uint8, KnasInt [16]uint8, Count uint32, Bearer uint8, Direction uint8, msg []byte) ([]byte, error)
   NIA0 returns (nil, nil): an empty MAC and no error. *)
Definition NASMacCalculate (st:state) (AlgoID:N) (KnasInt:bytes) (Count Bearer Direction:N) (msg:option bytes)
  : state * sres bytes :=
  if 31 <? Bearer then (st, SErr ERR_BEARER)
  else if 1 <? Direction then (st, SErr ERR_DIRECTION)
  else match msg with
  | None => (st, SErr ERR_NIL)
  | Some msg =>
      if AlgoID =? AlgIntegrity128NIA0 then (st, SOk [])
      else if AlgoID =? AlgIntegrity128NIA1 then
        NIA1 st KnasInt Count Bearer Direction msg (w64 (w64 (N.of_nat (length msg)) * 8))
      else if AlgoID =? AlgIntegrity128NIA2 then (st, NIA2 KnasInt Count Bearer Direction msg)
      else if AlgoID =? AlgIntegrity128NIA3 then (st, SErr ERR_ALG3)
      else (st, SErr ERR_UNKNOWN)
  end.
End BlockCipher.

(* ---- executable entry points for other modules: octets as list N, numbers as N; None = the Go function
   returns an error (or cannot be called: key not 16 octets; or panics: NIA1 on an empty message).
   The snow3g package state is hidden: the result does not depend on it (Proofs/SecProofs.v, C07). *)
Definition sres_opt {A} (r:sres A) : option A := match r with SOk a => Some a | _ => None end.
Definition nas_encrypt (alg:N) (key:list N) (count bearer dir:N) (payload:list N) : option (list N) :=
  if key_ok key then sres_opt (snd (NASEncrypt aes128 zero_state alg key count bearer dir (Some payload))) else None.
Definition nas_mac (alg:N) (key:list N) (count bearer dir:N) (msg:list N) : option (list N) :=
  if key_ok key then sres_opt (snd (NASMacCalculate aes128 zero_state alg key count bearer dir (Some msg))) else None.

(* ---- correspondence with the harness (cmd_nea.go).  One case =
   (dirty, alg, key, (count, bearer, dir), msg (None = nil slice), observed) with observed =
   SOk octets | SErr 0 (an error, whatever its text) | SPanic *)
Definition junk_key : bytes := map (fun i:nat => N.lxor 165 (w8 (N.of_nat i * 17))) (seq 0 16).
Definition junk_msg : bytes := [222;173;190;239;1;2;3;4;5;6;7].
(* what neaDirty does to the package state before the call under test *)
Definition dirty_state (st:state) : state :=
  let st := fst (NASEncrypt aes128 st AlgCiphering128NEA1 junk_key 305419896 7 1 (Some junk_msg)) in
  fst (NASMacCalculate aes128 st AlgIntegrity128NIA1 junk_key 2596069104 3 0 (Some junk_msg)).
(* the same state, computed once (it is a constant of the model); [dirty0_ok] restates where it comes from *)
Definition dirty0 : state := Eval vm_compute in dirty_state zero_state.
Example dirty0_ok : dirty0 = dirty_state zero_state.
Proof. vm_compute. reflexivity. Qed.
Fixpoint eqb_bytes (a b:bytes) : bool :=
  match a, b with [], [] => true | x :: a', y :: b' => (x =? y) && eqb_bytes a' b' | _, _ => false end.
Definition sres_agree (m o:sres bytes) : bool :=
  match m, o with
  | SOk a, SOk b => eqb_bytes a b
  | SErr _, SErr _ => true
  | SPanic, SPanic => true
  | _, _ => false
  end.
Definition sec_case := (bool * N * bytes * (N * N * N) * option bytes * sres bytes)%type.
Definition nea_check (c:sec_case) : bool :=
  let '(dirty, alg, key, (count, bearer, dir), msg, obs) := c in
  let st := if dirty then dirty0 else zero_state in
  sres_agree (snd (NASEncrypt aes128 st alg key count bearer dir msg)) obs.
Definition nia_check (c:sec_case) : bool :=
  let '(dirty, alg, key, (count, bearer, dir), msg, obs) := c in
  let st := if dirty then dirty0 else zero_state in
  sres_agree (snd (NASMacCalculate aes128 st alg key count bearer dir msg)) obs.
Definition nea_expected (c:sec_case) : sres bytes :=
  let '(dirty, alg, key, (count, bearer, dir), msg, obs) := c in
  snd (NASEncrypt aes128 (if dirty then dirty0 else zero_state) alg key count bearer dir msg).
Definition nia_expected (c:sec_case) : sres bytes :=
  let '(dirty, alg, key, (count, bearer, dir), msg, obs) := c in
  snd (NASMacCalculate aes128 (if dirty then dirty0 else zero_state) alg key count bearer dir msg).
(* the exported NEA1 / NIA1 with an explicit bit length (harness nea1raw / nia1raw): (dirty, key, (count,bearer,dir), msg, length, observed) *)
Definition raw_case := (bool * bytes * (N * N * N) * bytes * N * sres bytes)%type.
Definition nea1raw_check (c:raw_case) : bool :=
  let '(dirty, key, (count, bearer, dir), msg, len, obs) := c in
  sres_agree (snd (NEA1 (if dirty then dirty0 else zero_state) key count bearer dir msg len)) obs.
Definition nia1raw_check (c:raw_case) : bool :=
  let '(dirty, key, (count, bearer, dir), msg, len, obs) := c in
  sres_agree (snd (NIA1 (if dirty then dirty0 else zero_state) key count bearer dir msg len)) obs.
Definition nea1raw_expected (c:raw_case) : sres bytes :=
  let '(dirty, key, (count, bearer, dir), msg, len, obs) := c in
  snd (NEA1 (if dirty then dirty0 else zero_state) key count bearer dir msg len).
Definition nia1raw_expected (c:raw_case) : sres bytes :=
  let '(dirty, key, (count, bearer, dir), msg, len, obs) := c in
  snd (NIA1 (if dirty then dirty0 else zero_state) key count bearer dir msg len).

(* the implementation's historical defect and its absence now: NEA1 of four zero octets is keystream, not zeros *)
Example nea1_four_zero_octets_are_ciphered :
  nas_encrypt 1 [211;197;213;146;50;127;177;28;64;53;198;104;10;248;198;209] 5 1 0 [0;0;0;0] = Some [43;203;117;80].
Proof. vm_compute. reflexivity. Qed.
