(* Templates of the NGAP builders (tglib/ngapTestpacket/build.go) and build-and-encode wrappers
   (tglib/packet.go) as the sentinel-probing translator harness/gen_builders.go prints them (Gen/Builders.v):
   a value tree [tval] = the [val] of Model/AperCommon.v with holes naming the argument (or the package-level
   TestPlmn) that fills the place; [inst] fills the holes; navigation to procedure code, class and the
   ProtocolIE list, on templates and on values.  Definitions only. *)
From Coq Require Import ZArith NArith List String Bool.
Require Import AperCommon.
Import ListNotations.
Open Scope N_scope.

Inductive piece := PConst (bs : list N) | PArg (a : string) | PState (s : string).

Inductive tval :=
| TVInt (z : Z) | TVEnum (n : N) | TVBool (b : bool) | TVBits (bs : list N) (nbits : N) | TVOctets (bs : list N)
| TVList (l : list tval) | TVStruct (l : list tval) | TVNil | TVPtr (v : tval)
| TVOpaque                                   (* the probes differ here in a way no argument explains *)
| HInt (a : string)                          (* int64 argument *)
| HElem                                      (* the current element of the enclosing HMapInts *)
| HOctets (a : string)                       (* []byte / string argument, whole *)
| HState (s : string)                        (* package-level TestPlmn.Value *)
| HBits (a nb : string)                      (* BitString{Bytes: a, BitLength: nb} *)
| HBitsC (a : string) (nbits : N)            (* BitString{Bytes: a, BitLength: constant} *)
| HCat (ps : list piece)                     (* octet string: constants, whole arguments and the state, concatenated *)
| HMapInts (a : string) (item : tval).       (* one item per element of the []int64 argument a *)

Inductive akind := KInt | KUint | KBytes | KIPv4 | KInts | KTmsi | KFixed.
Inductive bkind := KBuild | KWrapper.
Inductive cond := CNil (a : string) | CNonNil (a : string) | CBytesEq (a : string) (bs : list N).

Record builder := mkB {
  b_name : string; b_kind : bkind;
  b_calls : string;                          (* wrapper: the Build* function its body calls *)
  b_args : list (string * akind);
  b_fixed : list string;                     (* structured arguments, probed as nil only *)
  b_writes : list (string * string);         (* (state variable, argument stored into it) *)
  b_variants : list (list cond * tval) }.

Inductive unprobed_fn := Unprobed (name : string).

(* ---- argument values; an IPv4 argument is its four octets, a nil []int64 is [AInts None] *)
Inductive aval := AInt (z : Z) | ABytes (bs : list N) | AInts (l : option (list Z)).
Record env := mkenv { e_args : list (string * aval); e_plmn : list N }.

Fixpoint lookup (a : string) (l : list (string * aval)) : option aval :=
  match l with [] => None | (k, v) :: r => if String.eqb a k then Some v else lookup a r end.
Definition get_int (s : env) (a : string) : option Z := match lookup a (e_args s) with Some (AInt z) => Some z | _ => None end.
Definition get_bytes (s : env) (a : string) : option (list N) := match lookup a (e_args s) with Some (ABytes b) => Some b | _ => None end.
Definition get_ints (s : env) (a : string) : option (list Z) := match lookup a (e_args s) with Some (AInts (Some l)) => Some l | _ => None end.

Definition piece_bytes (s : env) (p : piece) : list N :=
  match p with
  | PConst bs => bs
  | PArg a => match get_bytes s a with Some b => b | None => [] end
  | PState _ => e_plmn s
  end.

(* an unbound or ill-kinded argument gives VNil, which no NGAP type accepts (the encoder model panics) *)
Fixpoint inst (s : env) (elem : option Z) (t : tval) : val :=
  match t with
  | TVInt z => VInt z | TVEnum n => VEnum n | TVBool b => VBool b | TVBits bs n => VBits bs n | TVOctets bs => VOctets bs
  | TVList l => VList (map (inst s elem) l)
  | TVStruct l => VStruct (map (inst s elem) l)
  | TVNil => VNil
  | TVPtr v => VPtr (inst s elem v)
  | TVOpaque => VNil
  | HInt a => match get_int s a with Some z => VInt z | None => VNil end
  | HElem => match elem with Some z => VInt z | None => VNil end
  | HOctets a => match get_bytes s a with Some b => VOctets b | None => VNil end
  | HState _ => VOctets (e_plmn s)
  | HBits a nb => match get_bytes s a, get_int s nb with Some b, Some n => VBits b (Z.to_N n) | _, _ => VNil end
  | HBitsC a n => match get_bytes s a with Some b => VBits b n | None => VNil end
  | HCat ps => VOctets (flat_map (piece_bytes s) ps)
  | HMapInts a item => match get_ints s a with Some zs => VList (map (fun z => inst s (Some z) item) zs) | None => VNil end
  end.

(* ---- which variant of a builder an argument assignment selects *)
Definition list_N_eqb (a b : list N) : bool := list_eqb a b.
Definition cond_holds (s : env) (c : cond) : bool :=
  match c with
  | CNil a => match lookup a (e_args s) with Some (AInts None) => true | _ => false end
  | CNonNil a => match lookup a (e_args s) with Some (AInts (Some _)) => true | _ => false end
  | CBytesEq a bs => match get_bytes s a with Some b => list_N_eqb b bs | None => false end
  end.
Fixpoint select (s : env) (vs : list (list cond * tval)) : option tval :=
  match vs with
  | [] => None
  | (cs, t) :: r => if forallb (cond_holds s) cs then Some t else select s r
  end.

(* ---- navigation in an NGAP-PDU value: CHOICE = struct whose first field is the index of the present
   alternative; InitiatingMessage / SuccessfulOutcome / UnsuccessfulOutcome = (procedureCode, criticality,
   value); value = CHOICE of messages; message = (protocolIEs (list)); IE = (id, criticality, value) *)
Definition nth_field (l : list val) (i : Z) : option val := if (i <? 0)%Z then None else nth_error l (Z.to_nat i).

Definition v_choice (v : val) : option (Z * val) :=
  match v with
  | VStruct (VInt c :: r) => if (c <=? 0)%Z then None else
      match nth_field (VInt c :: r) c with Some (VPtr x) => Some (c, x) | _ => None end
  | _ => None
  end.

Record pdu_view := mkview { pv_class : Z; pv_proc : Z; pv_crit : N; pv_alt : Z; pv_ies : list val }.

Definition v_pdu (v : val) : option pdu_view :=
  match v_choice v with
  | Some (cls, VStruct [VStruct [VInt proc]; VStruct [VEnum crit]; value]) =>
      match v_choice value with
      | Some (alt, VStruct (VStruct [VList ies] :: _)) => Some (mkview cls proc crit alt ies)
      | _ => None
      end
  | _ => None
  end.

(* (id, criticality, index of the present value alternative, that alternative) *)
Definition v_ie (v : val) : option (Z * N * Z * val) :=
  match v with
  | VStruct [VStruct [VInt id]; VStruct [VEnum crit]; value] =>
      match v_choice value with Some (alt, x) => Some (id, crit, alt, x) | None => None end
  | _ => None
  end.

Fixpoint v_find_ie (ies : list val) (id : Z) : option val :=
  match ies with
  | [] => None
  | ie :: r => match v_ie ie with
               | Some (i, _, _, x) => if (i =? id)%Z then Some x else v_find_ie r id
               | None => None
               end
  end.
Definition find_ie (pdu : val) (id : Z) : option val :=
  match v_pdu pdu with Some pv => v_find_ie (pv_ies pv) id | None => None end.

(* ---- the same navigation on templates (a hole where a constant is needed = not found) *)
Definition nth_tfield (l : list tval) (i : Z) : option tval := if (i <? 0)%Z then None else nth_error l (Z.to_nat i).

Definition t_choice (v : tval) : option (Z * tval) :=
  match v with
  | TVStruct (TVInt c :: r) => if (c <=? 0)%Z then None else
      match nth_tfield (TVInt c :: r) c with Some (TVPtr x) => Some (c, x) | _ => None end
  | _ => None
  end.

Record tpdu_view := mktview { tv_class : Z; tv_proc : Z; tv_crit : N; tv_alt : Z; tv_ies : list tval }.

Definition t_pdu (v : tval) : option tpdu_view :=
  match t_choice v with
  | Some (cls, TVStruct [TVStruct [TVInt proc]; TVStruct [TVEnum crit]; value]) =>
      match t_choice value with
      | Some (alt, TVStruct (TVStruct [TVList ies] :: _)) => Some (mktview cls proc crit alt ies)
      | _ => None
      end
  | _ => None
  end.

Definition t_ie (v : tval) : option (Z * N * Z * tval) :=
  match v with
  | TVStruct [TVStruct [TVInt id]; TVStruct [TVEnum crit]; value] =>
      match t_choice value with Some (alt, x) => Some (id, crit, alt, x) | None => None end
  | _ => None
  end.

Fixpoint t_find_ie (ies : list tval) (id : Z) : option tval :=
  match ies with
  | [] => None
  | ie :: r => match t_ie ie with
               | Some (i, _, _, x) => if (i =? id)%Z then Some x else t_find_ie r id
               | None => None
               end
  end.
Definition find_ie_t (pdu : tval) (id : Z) : option tval :=
  match t_pdu pdu with Some pv => t_find_ie (tv_ies pv) id | None => None end.

(* the (id, criticality) list of a template; None when some IE is not of the expected shape *)
Fixpoint t_ie_heads (ies : list tval) : option (list (Z * N)) :=
  match ies with
  | [] => Some []
  | ie :: r => match t_ie ie, t_ie_heads r with
               | Some (i, c, _, _), Some l => Some ((i, c) :: l)
               | _, _ => None
               end
  end.

(* a declared-but-empty builder returns the zero NGAPPDU: Present = 0 *)
Definition is_stub (t : tval) : bool :=
  match t with TVStruct (TVInt 0 :: _) => true | _ => false end.

Fixpoint has_opaque (t : tval) : bool :=
  match t with
  | TVOpaque => true
  | TVList l | TVStruct l => existsb has_opaque l
  | TVPtr v => has_opaque v
  | HMapInts _ item => has_opaque item
  | _ => false
  end.

Fixpoint v_ie_heads (ies : list val) : option (list (Z * N)) :=
  match ies with
  | [] => Some []
  | ie :: r => match v_ie ie, v_ie_heads r with
               | Some (i, c, _, _), Some l => Some ((i, c) :: l)
               | _, _ => None
               end
  end.

(* the value of IE [id] is exactly the integer / octet-string argument [a] *)
Definition ie_int_hole (t : tval) (id : Z) (a : string) : bool :=
  match find_ie_t t id with Some (TVStruct [HInt a']) => String.eqb a a' | _ => false end.
Definition ie_bytes_hole (t : tval) (id : Z) (a : string) : bool :=
  match find_ie_t t id with Some (TVStruct [HOctets a']) => String.eqb a a' | _ => false end.
