(* Model of stgutg.EncodeSuci / hexCharToByte (src/stgutg/utils.go), of the PLMN slice taken by
   ManageNGSetup (src/stgutg/ngsetup.go: EncodeSuci(...).Buffer[1:4]) and of nasConvert.PlmnIDToNas. *)
From Coq Require Import NArith List Bool.
Import ListNotations.
Open Scope N_scope.

Definition hexCharToByte (c:N) : N :=
  if (48 <=? c) && (c <=? 57) then c - 48
  else if (97 <=? c) && (c <=? 102) then c - 97 + 10
  else if (65 <=? c) && (c <=? 70) then c - 65 + 10
  else 0.

(* hi<<4 | lo on Go bytes (uint8 shift drops the high bits) *)
Definition shl4_or (hi lo:N) : N := N.lor (N.shiftl hi 4 mod 256) lo.
Definition h (c:N) := hexCharToByte c.

(* the MSIN loop: two digits per appended octet, 0xf filler when one is left *)
Fixpoint msin_octets (msin:list N) : list N :=
  match msin with
  | [] => []
  | [a] => [shl4_or 15 (h a)]
  | a :: b :: r => shl4_or (h b) (h a) :: msin_octets r
  end.

(* None = index out of range panic (imsi shorter than MCC+MNC) *)
Definition encode_suci (imsi:list N) (mncLen:nat) : option (list N) :=
  let ix i := nth i imsi 0 in
  if Nat.ltb 2 mncLen then
    if Nat.ltb (length imsi) 6 then None else
    Some ([1; shl4_or (h (ix 1%nat)) (h (ix 0%nat));
              shl4_or (h (ix 5%nat)) (h (ix 2%nat));
              shl4_or (h (ix 4%nat)) (h (ix 3%nat)); 240; 255; 0; 0] ++ msin_octets (skipn 6 imsi))
  else
    if Nat.ltb (length imsi) 5 then None else
    Some ([1; shl4_or (h (ix 1%nat)) (h (ix 0%nat));
              shl4_or 15 (h (ix 2%nat));
              shl4_or (h (ix 4%nat)) (h (ix 3%nat)); 240; 255; 0; 0] ++ msin_octets (skipn 5 imsi)).
Definition suci_len (buf:list N) : N := N.of_nat (length buf) mod 65536.       (* uint16(len(Buffer)) *)

(* ManageNGSetup: Buffer[1:4] *)
Definition mobile_plmn (imsi:list N) (mncLen:nat) : option (list N) :=
  match encode_suci imsi mncLen with Some b => Some (firstn 3 (skipn 1 b)) | None => None end.

(* nasConvert.PlmnIDToNas on digit strings (strconv.Atoi of one character: digit value, 0 on error);
   None = index panic on a too short MCC/MNC *)
Definition atoi1 (c:N) : N := if (48 <=? c) && (c <=? 57) then c - 48 else 0.
Definition or8 (hi lo:N) : N := (N.lor (N.shiftl hi 4) lo) mod 256.            (* uint8((a << 4) | b) on ints *)
Definition plmn_id_to_nas (mcc mnc:list N) : option (list N) :=
  match mcc, mnc with
  | m1 :: m2 :: m3 :: _, n1 :: n2 :: rest =>
      let d3 := match rest with [n3] => atoi1 n3 | _ => 15 end in
      Some [or8 (atoi1 m2) (atoi1 m1); or8 d3 (atoi1 m3); or8 (atoi1 n2) (atoi1 n1)]
  | _, _ => None
  end.

(* ---- correspondence *)
Fixpoint eqb_bytes (a b:list N) : bool :=
  match a, b with [], [] => true | x::a', y::b' => (x =? y) && eqb_bytes a' b' | _, _ => false end.
Definition eqb_obytes (a b:option (list N)) : bool :=
  match a, b with Some x, Some y => eqb_bytes x y | None, None => true | _, _ => false end.
(* case: imsi, mncLen, observed buffer (None = panic), observed Len, observed Buffer[1:4] *)
Definition suci_check (c:list N * nat * option (list N) * N * option (list N)) : bool :=
  let '(imsi, ml, obuf, olen, oplmn) := c in
  eqb_obytes (encode_suci imsi ml) obuf &&
  match obuf with Some b => olen =? suci_len b | None => true end &&
  eqb_obytes (mobile_plmn imsi ml) oplmn.
Definition plmnnas_check (c:list N * list N * option (list N)) : bool :=
  let '(mcc, mnc, o) := c in eqb_obytes (plmn_id_to_nas mcc mnc) o.
