(* C13 — the model side: what the regenerated templates (Gen/Builders.v) are checked against, and the
   executable checkers the correspondence stream evaluates on every run.
     - which TS 38.413 message each Build* function / Get* wrapper is meant to produce (hand-written glue);
     - typed navigation (Gen/NgapSchema.v types + template / value trees) to the places TS38413.v names;
     - reflective conformance checks of templates against Spec/TS38413.v;
     - [encode_call]: template selected by the arguments, instantiated, encoded by the APER model;
     - [model_check] / [spec_check] over a history of wrapper calls (TestPlmn threaded as state).
   Definitions and computed Examples only. *)
From Coq Require Import ZArith NArith List String Bool.
Require Import GoSlice AperCommon AperEnc AperDec NgapSchema AperCheck BuildersT TS38413 Builders.
Import ListNotations.
Open Scope string_scope.

(* ---- glue: builder / wrapper -> TS 38.413 message *)
Definition builder_message : list (string * string) := [
  ("BuildNGSetupRequest", "NGSetupRequest"); ("BuildNGReset", "NGReset"); ("BuildNGResetAcknowledge", "NGResetAcknowledge");
  ("BuildInitialUEMessage", "InitialUEMessage"); ("BuildErrorIndication", "ErrorIndication");
  ("BuildUEContextReleaseRequest", "UEContextReleaseRequest"); ("BuildUEContextReleaseComplete", "UEContextReleaseComplete");
  ("BuildUEContextModificationResponse", "UEContextModificationResponse"); ("BuildUplinkNasTransport", "UplinkNASTransport");
  ("BuildInitialContextSetupResponse", "InitialContextSetupResponse"); ("BuildInitialContextSetupFailure", "InitialContextSetupFailure");
  ("BuildPathSwitchRequest", "PathSwitchRequest"); ("BuildHandoverRequestAcknowledge", "HandoverRequestAcknowledge");
  ("BuildHandoverFailure", "HandoverFailure"); ("BuildPDUSessionResourceReleaseResponse", "PDUSessionResourceReleaseResponse");
  ("BuildAMFConfigurationUpdateFailure", "AMFConfigurationUpdateFailure");
  ("BuildUERadioCapabilityCheckRequest", "UERadioCapabilityCheckRequest"); ("BuildUERadioCapabilityCheckResponse", "UERadioCapabilityCheckResponse");
  ("BuildHandoverCancel", "HandoverCancel"); ("BuildLocationReportingFailureIndication", "LocationReportingFailureIndication");
  ("BuildPDUSessionResourceSetupResponse", "PDUSessionResourceSetupResponse");
  ("BuildPDUSessionResourceSetupResponseForPaging", "PDUSessionResourceSetupResponse");
  ("BuildPDUSessionResourceModifyResponse", "PDUSessionResourceModifyResponse"); ("BuildPDUSessionResourceNotify", "PDUSessionResourceNotify");
  ("BuildPDUSessionResourceModifyIndication", "PDUSessionResourceModifyIndication");
  ("BuildUEContextModificationFailure", "UEContextModificationFailure"); ("BuildRRCInactiveTransitionReport", "RRCInactiveTransitionReport");
  ("BuildHandoverNotify", "HandoverNotify"); ("BuildUplinkRanStatusTransfer", "UplinkRANStatusTransfer");
  ("BuildNasNonDeliveryIndication", "NASNonDeliveryIndication"); ("BuildRanConfigurationUpdate", "RANConfigurationUpdate");
  ("BuildRanConfigurationUpdateAck", "RANConfigurationUpdateAcknowledge"); ("BuildRanConfigurationUpdateFailure", "RANConfigurationUpdateFailure");
  ("BuildAMFStatusIndication", "AMFStatusIndication"); ("BuildUplinkRanConfigurationTransfer", "UplinkRANConfigurationTransfer");
  ("BuildUplinkUEAssociatedNRPPATransport", "UplinkUEAssociatedNRPPaTransport");
  ("BuildUplinkNonUEAssociatedNRPPATransport", "UplinkNonUEAssociatedNRPPaTransport"); ("BuildLocationReport", "LocationReport");
  ("BuildUETNLABindingReleaseRequest", "UETNLABindingReleaseRequest"); ("BuildUERadioCapabilityInfoIndication", "UERadioCapabilityInfoIndication");
  ("BuildAMFConfigurationUpdateAcknowledge", "AMFConfigurationUpdateAcknowledge"); ("BuildAMFConfigurationUpdate", "AMFConfigurationUpdate");
  ("BuildHandoverRequired", "HandoverRequired"); ("BuildCellTrafficTrace", "CellTrafficTrace");
  ("BuildInitialContextSetupResponseForRegistraionTest", "InitialContextSetupResponse");
  ("BuildPDUSessionResourceSetupResponseForRegistrationTest", "PDUSessionResourceSetupResponse");
  ("BuildPDUSessionResourceReleaseResponseForReleaseTest", "PDUSessionResourceReleaseResponse");
  ("BuildNGSetupResponse", "NGSetupResponse"); ("BuildPDUSessionResourceModifyConfirm", "PDUSessionResourceModifyConfirm");
  ("BuildPDUSessionResourceReleaseCommand", "PDUSessionResourceReleaseCommand"); ("BuildOverloadStart", "OverloadStart");
  ("BuildOverloadStop", "OverloadStop") ].

(* the wrappers the emulator calls (src/stgutg/{ngsetup,ue,pdu,service}.go) *)
Definition emulator_wrappers : list string := [
  "GetNGSetupRequest"; "GetInitialUEMessage"; "GetUplinkNASTransport"; "GetInitialContextSetupResponse";
  "GetInitialContextSetupResponseForServiceRequest"; "GetPDUSessionResourceSetupResponse"; "GetUEContextReleaseComplete";
  "GetUEContextReleaseRequest"; "GetPDUSessionResourceReleaseResponse" ].

Fixpoint assoc (k : string) (l : list (string * string)) : option string :=
  match l with [] => None | (a, b) :: r => if String.eqb k a then Some b else assoc k r end.
Fixpoint find_builder (n : string) (l : list builder) : option builder :=
  match l with [] => None | b :: r => if String.eqb n (b_name b) then Some b else find_builder n r end.
Definition mem_str (s : string) (l : list string) : bool := existsb (String.eqb s) l.

Definition message_of (b : builder) : option message :=
  let bn := match b_kind b with KBuild => b_name b | KWrapper => b_calls b end in
  match assoc bn builder_message with Some m => find_message m messages | None => None end.

(* parameter name -> role (the names are those of the Go source, read by the translator) *)
Definition role_of_param (n : string) : option role :=
  if mem_str n ["amfUeNgapID"; "sourceAmfUeNgapID"; "amfUeNgapId"] then Some RAmfId
  else if mem_str n ["ranUeNgapID"; "ranUeNgapId"] then Some RRanId
  else if mem_str n ["nasPdu"; "naspdu"] then Some RNasPdu
  else if mem_str n ["pduId"; "pduSessionIDList"] then Some RSessionId
  else if String.eqb n "gnbId" then Some RGnbId
  else if String.eqb n "name" then Some RGnbName
  else if String.eqb n "ipv4" then Some RGtpAddr
  else if String.eqb n "mobilePLMN" then Some RPlmn
  else None.
Definition role_eqb (a b : role) : bool :=
  match a, b with
  | RAmfId, RAmfId | RRanId, RRanId | RNasPdu, RNasPdu | RSessionId, RSessionId | RGnbId, RGnbId | RGnbName, RGnbName
  | RGtpAddr, RGtpAddr | RPlmn, RPlmn => true
  | _, _ => false
  end.
Definition param_of_role (b : builder) (r : role) : option (string * akind) :=
  find (fun p => match role_of_param (fst p) with Some r' => role_eqb r r' | None => false end) (b_args b).

(* ---- embedding of values into templates (so that one navigation serves both) *)
Fixpoint emb (v : val) : tval :=
  match v with
  | VInt z => TVInt z | VEnum n => TVEnum n | VBool b => TVBool b | VBits bs n => TVBits bs n | VOctets bs => TVOctets bs
  | VList l => TVList (map emb l) | VStruct l => TVStruct (map emb l) | VNil => TVNil | VPtr x => TVPtr (emb x)
  end.

Definition piece_eqb (a b : piece) : bool :=
  match a, b with
  | PConst x, PConst y => list_eqb x y
  | PArg x, PArg y | PState x, PState y => String.eqb x y
  | _, _ => false
  end.
Fixpoint tval_eqb (a b : tval) : bool :=
  match a, b with
  | TVInt x, TVInt y => (x =? y)%Z
  | TVEnum x, TVEnum y => (x =? y)%N
  | TVBool x, TVBool y => Bool.eqb x y
  | TVBits x n, TVBits y m => list_eqb x y && (n =? m)%N
  | TVOctets x, TVOctets y => list_eqb x y
  | TVList x, TVList y | TVStruct x, TVStruct y =>
      (fix go (x y : list tval) : bool :=
         match x, y with [], [] => true | u :: x', w :: y' => tval_eqb u w && go x' y' | _, _ => false end) x y
  | TVNil, TVNil => true
  | TVPtr x, TVPtr y => tval_eqb x y
  | HInt x, HInt y | HOctets x, HOctets y | HState x, HState y => String.eqb x y
  | HElem, HElem => true
  | HBits a n, HBits b m => String.eqb a b && String.eqb n m
  | HBitsC a n, HBitsC b m => String.eqb a b && (n =? m)%N
  | HCat p, HCat q => (fix go (x y : list piece) : bool :=
         match x, y with [], [] => true | u :: x', w :: y' => piece_eqb u w && go x' y' | _, _ => false end) p q
  | HMapInts a x, HMapInts b y => String.eqb a b && tval_eqb x y
  | _, _ => false
  end.

(* ---- typed navigation: the schema type tells which field a component name is *)
Fixpoint field_index (n : string) (fs : list field) (i : nat) : option (nat * field) :=
  match fs with
  | [] => None
  | f :: r => if String.eqb n (f_name f) then Some (i, f) else field_index n r (S i)
  end.

Fixpoint concat_opt {A} (l : list (option (list A))) : option (list A) :=
  match l with
  | [] => Some []
  | None :: _ => None
  | Some x :: r => match concat_opt r with Some y => Some (x ++ y)%list | None => None end
  end.

Definition is_root (n : string) : bool := existsb (fun r => String.eqb n (fst (fst r))) ngap_roots.

(* all template nodes at [path] below (t, v); an absent optional / unselected alternative contributes nothing;
   a component naming one of the root types inside an OCTET STRING decodes the octets as that type *)
Fixpoint resolve (fuel : nat) (t : ty) (v : tval) (path : list string) : option (list tval) :=
  match fuel with
  | O => None
  | S f =>
      match t, v with
      | TPtr e, TVPtr x => resolve f e x path
      | TPtr _, TVNil => Some []
      | _, _ =>
          match path with
          | [] => Some [v]
          | n :: rest =>
              if String.eqb n "*" then
                match t, v with
                | TSlice e, TVList l => concat_opt (map (fun x => resolve f e x rest) l)
                | TSlice e, HMapInts _ item => resolve f e item rest
                | TStruct [lf], TVStruct [x] => resolve f (f_ty lf) x path     (* the Go wrapper struct{List []T} of a SEQUENCE OF *)
                | _, _ => None
                end
              else
                match t, v with
                | TStruct fs, TVStruct vs =>
                    match field_index n fs 0 with
                    | Some (i, fd) => match nth_error vs i with Some x => resolve f (f_ty fd) x rest | None => None end
                    | None => None
                    end
                | TOctets, TVOctets bs =>
                    if is_root n then
                      match unmarshal (dec_fuel (root_ty n)) (root_ty n) (root_pdec n) bs with
                      | Ok x => resolve f (root_ty n) (emb x) rest
                      | _ => None
                      end
                    else None
                | TOctets, _ => if is_root n then Some [v] else None      (* template: stop at the container *)
                | _, _ => None
                end
          end
      end
  end.
Definition RESOLVE_FUEL : nat := 40.

(* CHOICE step with types: (type, value) of the present alternative *)
Definition choice_ty (t : ty) (v : tval) : option (ty * tval) :=
  match t, v with
  | TStruct fs, TVStruct (TVInt c :: r) =>
      if (c <=? 0)%Z then None else
      match nth_error fs (Z.to_nat c), nth_error (TVInt c :: r) (Z.to_nat c) with
      | Some fd, Some (TVPtr x) => match f_ty fd with TPtr e => Some (e, x) | _ => None end
      | _, _ => None
      end
  | _, _ => None
  end.

Definition T_PDU : ty := root_ty "NGAPPDU".

(* the IEs of a PDU with the type of each present value alternative: (id, type, value) *)
Definition typed_ies (pdu : tval) : option (list (Z * ty * tval)) :=
  match choice_ty T_PDU pdu with
  | Some (TStruct [_; _; vf], TVStruct [_; _; value]) =>
      match choice_ty (f_ty vf) value with
      | Some (TStruct (f0 :: _), TVStruct (c0 :: _)) =>
          match f_ty f0, c0 with
          | TStruct [lf], TVStruct [TVList ies] =>
              match f_ty lf with
              | TSlice (TStruct [_; _; ivf]) =>
                  concat_opt (map (fun ie => match ie with
                                             | TVStruct [TVStruct [TVInt id]; _; iv] =>
                                                 match choice_ty (f_ty ivf) iv with
                                                 | Some (et, x) => Some [(id, et, x)]
                                                 | None => None end
                                             | _ => None end) ies)
              | _ => None
              end
          | _, _ => None
          end
      | _ => None
      end
  | _ => None
  end.

Fixpoint find_typed (id : Z) (l : list (Z * ty * tval)) : option (ty * tval) :=
  match l with [] => None | (i, t, x) :: r => if (i =? id)%Z then Some (t, x) else find_typed id r end.

(* nodes at a place; Some [] when the IE is absent *)
Definition at_place (pdu : tval) (p : place) : option (list tval) :=
  match typed_ies pdu with
  | Some l => match find_typed (fst p) l with
              | Some (t, x) => resolve RESOLVE_FUEL t x (snd p)
              | None => Some []
              end
  | None => None
  end.
Definition ie_present (pdu : tval) (id : Z) : bool :=
  match find_ie_t pdu id with Some _ => true | None => false end.

(* ---- reflective checks of the templates -------------------------------------------------------------------- *)

(* (1) every variant of every probed function is the empty stub or has the class and procedure code (and, when
   [strict], the criticality) of its message *)
Definition head_ok (strict : bool) (m : message) (t : tval) : bool :=
  match t_pdu t with
  | Some pv => head_conforms m strict (tv_class pv) (tv_proc pv) (tv_crit pv)
  | None => false
  end.
Definition builder_head_ok (b : builder) : bool :=
  match message_of b with
  | Some m => forallb (fun v => is_stub (snd v) || head_ok false m (snd v)) (b_variants b)
  | None => false
  end.
Definition stubs : list string :=
  map b_name (filter (fun b => forallb (fun v => is_stub (snd v)) (b_variants b)) builders).

(* (2) IE table: ids, criticalities, mandatory rows, order *)
Definition table_ok (m : message) (t : tval) : bool :=
  match m_ies m, t_pdu t with
  | Some rows, Some pv => match t_ie_heads (tv_ies pv) with Some hs => ies_conform rows hs | None => false end
  | _, _ => false
  end.
Definition wrapper_conforms (b : builder) : bool :=
  match message_of b with
  | Some m => forallb (fun v => head_ok true m (snd v) && table_ok m (snd v)) (b_variants b)
  | None => false
  end.
Definition emulator_wrapper_templates : list builder :=
  filter (fun b => mem_str (b_name b) emulator_wrappers) wrappers.
(* the Build* functions those wrappers call *)
Definition emulator_builder_templates : list builder :=
  filter (fun b => existsb (fun w => String.eqb (b_calls w) (b_name b)) emulator_wrapper_templates) builders.

(* (3) the caller's values are at the places the standard names: the hole expected for a role *)
Definition expected_hole (b : builder) (r : role) (pname : string) (k : akind) (node : tval) : bool :=
  match r, k with
  | RAmfId, KInt | RRanId, KInt => tval_eqb node (HInt pname)
  | RSessionId, KInt => tval_eqb node (HInt pname)
  | RSessionId, KInts => tval_eqb node HElem
  | RNasPdu, KBytes | RGnbName, KBytes | RPlmn, KBytes => tval_eqb node (HOctets pname)
  | RGnbId, KBytes => match node with HBits a nb => String.eqb a pname | _ => false end
  | RGtpAddr, KIPv4 => match node with HCat [PConst _; PArg a; PConst _] => String.eqb a pname | _ => false end
  | _, _ => false
  end.

(* for a role the function has a parameter for: at every place of the message whose IE is present, at least one
   node, and every node is the parameter's hole; for RPlmn without parameter: the TestPlmn state *)
Definition role_ok (b : builder) (m : message) (t : tval) (rp : role * list place) : bool :=
  let (r, places) := rp in
  match param_of_role b r with
  | Some (pname, k) =>
      existsb (fun p => ie_present t (fst p)) places &&
      forallb (fun p => negb (ie_present t (fst p)) ||
                        match at_place t p with
                        | Some (n :: ns) => forallb (expected_hole b r pname k) (n :: ns)
                        | _ => false end) places
  | None =>
      match r with
      | RPlmn => forallb (fun p => negb (ie_present t (fst p)) ||
                                   match at_place t p with
                                   | Some (n :: ns) => forallb (tval_eqb (HState "TestPlmn")) (n :: ns)
                                   | _ => false end) places
      | _ => true
      end
  end.
(* a []int64 argument that is nil selects a variant without the list IE: the role check applies to the variants
   whose condition does not say the role's parameter is nil *)
Definition variant_has_param (cs : list cond) (pname : string) : bool :=
  negb (existsb (fun c => match c with CNil a => String.eqb a pname | _ => false end) cs).
Definition roles_ok (b : builder) : bool :=
  match message_of b with
  | Some m =>
      forallb (fun v =>
        forallb (fun rp => match param_of_role b (fst rp) with
                           | Some (pname, _) => negb (variant_has_param (fst v) pname) || role_ok b m (snd v) rp
                           | None => role_ok b m (snd v) rp end) (m_where m)) (b_variants b)
  | None => false
  end.

(* TestPlmn is written by the NG Setup request (from its PLMN argument) and by nothing else *)
Definition state_ok (b : builder) : bool :=
  match b_writes b with
  | [] => negb (mem_str (b_name b) ["BuildNGSetupRequest"; "GetNGSetupRequest"])
  | [(s, a)] => String.eqb s "TestPlmn" && String.eqb a "mobilePLMN" && mem_str (b_name b) ["BuildNGSetupRequest"; "GetNGSetupRequest"]
  | _ => false
  end.

(* no function of the emulator's path has a place the probes could not explain *)
Definition no_opaque (b : builder) : bool := forallb (fun v => negb (has_opaque (snd v))) (b_variants b).

(* outside the property's criticality clause, kept as a diagnostic: functions (not used by the emulator) whose
   message has a transcribed table they do not conform to, or whose message criticality differs *)
Definition other_deviations : list string :=
  map b_name (filter (fun b => negb (mem_str (b_name b) emulator_wrappers) &&
                               negb (existsb (fun w => String.eqb (b_name w) (b_name b)) emulator_builder_templates) &&
                               match message_of b with
                               | Some m => existsb (fun v => negb (is_stub (snd v)) &&
                                                    (negb (head_ok true m (snd v)) ||
                                                     match m_ies m with Some _ => negb (table_ok m (snd v)) | None => false end))
                                                   (b_variants b)
                               | None => false end) (builders ++ wrappers)%list).

(* ---- executing a call: select the variant, instantiate, encode with the APER model ------------------------- *)
Definition P_NO_VARIANT : N := 98%N.
Definition bind_args (b : builder) (avs : list aval) : list (string * aval) := combine (map fst (b_args b)) avs.

Definition value_of_call (b : builder) (s : env) : option val :=
  match select s (b_variants b) with Some t => Some (inst s None t) | None => None end.

Definition encode_call (b : builder) (s : env) : res (list N) :=
  match value_of_call b s with
  | Some v => marshal T_PDU (root_penc "NGAPPDU") v
  | None => Panic P_NO_VARIANT
  end.

Definition next_plmn (b : builder) (s : env) : list N :=
  match b_writes b with
  | (_, a) :: _ => match get_bytes s a with Some bs => bs | None => e_plmn s end
  | [] => e_plmn s
  end.

(* ---- the correspondence stream ------------------------------------------------------------------------------ *)
Inductive alabel := LAmf | LRan | LNas | LTmsi | LPdu | LIpv4 | LIds | LGnbId | LPlmn | LBits | LName | LOther.
Inductive cobs := OHex (bs : list N) | OErr | OPanic.
(* wrapper, TS 38.413 message (per the check's own table), labelled arguments in parameter order, observation *)
Definition wcall := (string * string * list (alabel * aval) * cobs)%type.
Definition wcase := (list N * list wcall)%type.          (* TestPlmn at process start, the calls in order *)

Definition obs_matches (r : res (list N)) (o : cobs) : bool :=
  match r, o with
  | Ok bs, OHex bs' => list_eqb bs bs'
  | Err _, OErr => true
  | Panic _, OPanic => true
  | _, _ => false
  end.

Fixpoint model_calls (plmn : list N) (cs : list wcall) : bool :=
  match cs with
  | [] => true
  | (fn, _, args, o) :: r =>
      match find_builder fn wrappers with
      | None => false
      | Some b =>
          let s := mkenv (bind_args b (map snd args)) plmn in
          (negb (no_opaque b) || obs_matches (encode_call b s) o) && model_calls (next_plmn b s) r
      end
  end.
Definition model_check (c : wcase) : bool := model_calls (fst c) (snd c).

Definition model_out (c : wcase) : list (res (list N)) :=
  (fix go (plmn : list N) (cs : list wcall) : list (res (list N)) :=
     match cs with
     | [] => []
     | (fn, _, args, o) :: r =>
         match find_builder fn wrappers with
         | None => [Panic P_NO_VARIANT]
         | Some b => let s := mkenv (bind_args b (map snd args)) plmn in encode_call b s :: go (next_plmn b s) r
         end
     end) (fst c) (snd c).

(* -- the library builders themselves (all of [builders]), each called with the translator's sentinel arguments and encoded
   by the real ngap.Encoder: builder name, arguments by parameter name, TestPlmn before the call, observation *)
Definition bcall := (string * list (string * aval) * list N * cobs)%type.
Definition builder_enc_out (c : bcall) : res (list N) :=
  let '(fn, args, plmn, _) := c in
  match find_builder fn builders with Some b => encode_call b (mkenv args plmn) | None => Panic P_NO_VARIANT end.
Definition builder_enc_check (c : bcall) : bool :=
  let '(fn, args, plmn, o) := c in
  match find_builder fn builders with
  | Some b => negb (no_opaque b) || obs_matches (encode_call b (mkenv args plmn)) o
  | None => false
  end.

(* -- specification side: uses neither Gen/Builders.v nor the encoder model *)
Definition label_eqb (a b : alabel) : bool :=
  match a, b with
  | LAmf, LAmf | LRan, LRan | LNas, LNas | LTmsi, LTmsi | LPdu, LPdu | LIpv4, LIpv4 | LIds, LIds | LGnbId, LGnbId
  | LPlmn, LPlmn | LBits, LBits | LName, LName | LOther, LOther => true
  | _, _ => false
  end.
Fixpoint arg_of (l : alabel) (args : list (alabel * aval)) : option aval :=
  match args with [] => None | (k, v) :: r => if label_eqb l k then Some v else arg_of l r end.

Definition arg_in_range (la : alabel * aval) : bool :=
  match la with
  | (LAmf, AInt z) => amf_ue_ngap_id_ok z
  | (LRan, AInt z) => ran_ue_ngap_id_ok z
  | (LPdu, AInt z) => pdu_session_id_ok z
  | (LIds, AInts None) => true
  | (LIds, AInts (Some l)) => (1 <=? List.length l)%nat && (List.length l <=? 256)%nat && forallb pdu_session_id_ok l
  | (LPlmn, ABytes b) => (List.length b =? 3)%nat                                        (* OCTET STRING (SIZE(3)) *)
  | (LBits, AInt z) => ((22 <=? z) && (z <=? 32))%Z                                 (* BIT STRING (SIZE(22..32)) *)
  | (LName, ABytes b) => (1 <=? List.length b)%nat && (List.length b <=? 150)%nat             (* PrintableString (SIZE(1..150, ...)) *)
  | _ => true
  end.

(* the octets of a BIT STRING of n bits held in bs: unused bits of the last octet are zero on the wire *)
Definition mask_last (bs : list N) (n : N) : list N :=
  let k := N.to_nat ((n + 7) / 8) in
  let r := (n mod 8)%N in
  let b := firstn k bs in
  if (r =? 0)%N then b
  else match rev b with
       | last :: front => rev front ++ [N.land last (N.land (N.shiftl 255 (8 - r)) 255)]
       | [] => []
       end.

(* what must be found at the places of a role, given the labelled arguments and the PLMN announced at NG Setup *)
Definition expected_nodes (r : role) (args : list (alabel * aval)) (announced : option (list N)) (found : list tval)
  : option (list tval) :=
  match r with
  | RAmfId => match arg_of LAmf args with Some (AInt z) => Some [TVInt z] | _ => None end
  | RRanId => match arg_of LRan args with Some (AInt z) => Some [TVInt z] | _ => None end
  | RNasPdu => match arg_of LNas args with Some (ABytes b) => Some [TVOctets b] | _ => None end
  | RSessionId => match arg_of LPdu args, arg_of LIds args with
                  | Some (AInt z), _ => Some [TVInt z]
                  | _, Some (AInts (Some l)) => Some (map TVInt l)
                  | _, Some (AInts None) => Some []
                  | _, _ => None end
  | RGnbId => match arg_of LGnbId args, arg_of LBits args with
              | Some (ABytes b), Some (AInt n) => Some [TVBits (mask_last b (Z.to_N n)) (Z.to_N n)]
              | _, _ => None end
  | RGnbName => match arg_of LName args with Some (ABytes b) => Some [TVOctets b] | _ => None end
  | RGtpAddr => match arg_of LIpv4 args with Some (ABytes b) => Some (map (fun _ => TVBits b 32) found) | _ => None end
  | RPlmn => match arg_of LPlmn args with
             | Some (ABytes b) => Some (map (fun _ => TVOctets b) found)
             | _ => match announced with Some b => Some (map (fun _ => TVOctets b) found) | None => None end
             end
  end.

Definition list_tval_eqb (a b : list tval) : bool := tval_eqb (TVList a) (TVList b).

Definition role_found (pdu : tval) (args : list (alabel * aval)) (announced : option (list N)) (rp : role * list place) : bool :=
  let (r, places) := rp in
  match concat_opt (map (at_place pdu) places) with
  | None => false
  | Some found =>
      match expected_nodes r args announced found with
      | None => true                                    (* the call has no argument for this role *)
      | Some exp => list_tval_eqb found exp
      end
  end.

Definition announced_after (fn : string) (args : list (alabel * aval)) (cur : option (list N)) : option (list N) :=
  if String.eqb fn "GetNGSetupRequest" then match arg_of LPlmn args with Some (ABytes b) => Some b | _ => cur end else cur.

(* the messages the emulator itself sends: the criticality clause of the property applies to these *)
Definition emulator_messages : list string := [
  "NGSetupRequest"; "InitialUEMessage"; "UplinkNASTransport"; "InitialContextSetupResponse"; "PDUSessionResourceSetupResponse";
  "PDUSessionResourceReleaseResponse"; "UEContextReleaseComplete"; "UEContextReleaseRequest" ].

Definition spec_call (c : wcall) (announced : option (list N)) : bool :=
  let '(fn, mname, args, o) := c in
  match find_message mname messages with
  | None => false
  | Some m =>
      if negb (forallb arg_in_range args) then match o with OErr => true | _ => false end
      else match o with
           | OHex bs =>
               match unmarshal (dec_fuel T_PDU) T_PDU (root_pdec "NGAPPDU") bs with
               | Ok v =>
                   let t := emb v in
                   let strict := mem_str mname emulator_messages in
                   head_ok strict m t
                   && (negb strict || table_ok m t)
                   && forallb (role_found t args announced) (m_where m)
               | _ => false
               end
           | _ => false
           end
  end.

Fixpoint spec_calls (announced : option (list N)) (cs : list wcall) : bool :=
  match cs with
  | [] => true
  | c :: r => let '(fn, _, args, _) := c in spec_call c announced && spec_calls (announced_after fn args announced) r
  end.
Definition spec_check (c : wcase) : bool := spec_calls None (snd c).

(* ---- sample environments: boundary behaviour of whole messages, non-vacuity ------------------------------------ *)
Definition role_ub (r : option role) : Z :=
  match r with Some RAmfId => 1099511627775%Z | Some RRanId => 4294967295%Z | Some RSessionId => 255%Z | _ => 24%Z end.

(* every parameter in range, integer parameters at [pick (upper bound of their role)] *)
Definition sample_arg (pick : Z -> Z) (p : string * akind) : string * aval :=
  let (n, k) := p in
  (n, match k with
      | KInt => AInt (pick (role_ub (role_of_param n)))
      | KUint => AInt 24
      | KBytes => ABytes (match role_of_param n with
                          | Some RPlmn => [2; 248; 57]%N | Some RNasPdu => [126; 0; 65]%N | Some RGnbName => [103; 78; 66]%N
                          | _ => [1; 2; 3]%N end)
      | KIPv4 => ABytes [10; 203; 204; 205]%N
      | KInts => AInts (Some [pick 255%Z; 7%Z])
      | KTmsi => ABytes []
      | KFixed => AInts None
      end).
Definition sample_env (b : builder) (pick : Z -> Z) : env := mkenv (map (sample_arg pick) (b_args b)) [19; 241; 132]%N.
Definition override (s : env) (n : string) (v : aval) : env := mkenv ((n, v) :: e_args s) (e_plmn s).

Definition is_ok (r : res (list N)) : bool := match r with Ok _ => true | _ => false end.
Definition is_err (r : res (list N)) : bool := match r with Err _ => true | _ => false end.

(* at the bounds (0 and the upper bound of each identifier) the message encodes; with one identifier just outside
   (-1, upper bound + 1) it is refused with an error *)
Definition boundary_ok (b : builder) : bool :=
  let hi := sample_env b (fun ub => ub) in
  let lo := sample_env b (fun _ => 0%Z) in
  is_ok (encode_call b hi) && is_ok (encode_call b lo) &&
  forallb (fun p => match snd p with
                    | KInt => let ub := role_ub (role_of_param (fst p)) in
                              is_err (encode_call b (override hi (fst p) (AInt (ub + 1)))) &&
                              is_err (encode_call b (override hi (fst p) (AInt (-1)))) &&
                              is_err (encode_call b (override lo (fst p) (AInt (2 * ub + 2))))
                    | KInts => is_err (encode_call b (override hi (fst p) (AInts (Some [256%Z])))) &&
                               is_err (encode_call b (override hi (fst p) (AInts (Some [3%Z; (-1)%Z])))) &&
                               is_ok (encode_call b (override hi (fst p) (AInts None)))
                    | _ => true end) (b_args b).

(* the constraint the regenerated schema puts on the identifier inside IE [id] of a template: (lb, ub, extensible) *)
Definition id_constraint (t : tval) (id : Z) : option (option Z * option Z * bool) :=
  match typed_ies t with
  | Some l => match find_typed id l with
              | Some (TStruct [(_, p, TInt)], _) => Some (p_valueLB p, p_valueUB p, p_valueExt p)
              | _ => None end
  | None => None
  end.
Definition constraint_is (c : option (option Z * option Z * bool)) (ub : Z) : bool :=
  match c with Some (Some 0%Z, Some u, false) => (u =? ub)%Z | _ => false end.
Definition id_constraints_ok (b : builder) : bool :=
  forallb (fun v => (negb (ie_present (snd v) id_AMF_UE_NGAP_ID) || constraint_is (id_constraint (snd v) id_AMF_UE_NGAP_ID) 1099511627775)
                    && (negb (ie_present (snd v) id_RAN_UE_NGAP_ID) || constraint_is (id_constraint (snd v) id_RAN_UE_NGAP_ID) 4294967295))
          (b_variants b).

(* the GTP address of the sample environment is found, by the APER decoder model, at the place TS 38.413 names *)
Definition gtp_sample_ok (b : builder) : bool :=
  match message_of b, param_of_role b RGtpAddr with
  | Some m, Some _ =>
      let s := sample_env b (fun ub => ub) in
      match value_of_call b s with
      | Some v => forallb (fun rp => match fst rp with
                                     | RGtpAddr => forallb (fun p => match at_place (emb v) p with
                                                                     | Some [x] => tval_eqb x (TVBits [10; 203; 204; 205]%N 32)
                                                                     | _ => false end) (snd rp)
                                     | _ => true end) (m_where m)
      | None => false
      end
  | _, _ => true
  end.

(* the identifiers and payloads that are an IE of their own: IE id of the role, and the check that the IE's value
   is the parameter's hole in every variant *)
Definition role_ie (m : message) (r : role) : option Z :=
  match find (fun rp => role_eqb (fst rp) r) (m_where m) with
  | Some (_, [(id, ["Value"])]) => Some id
  | _ => None
  end.
Definition direct_ok (b : builder) : bool :=
  match message_of b with
  | Some m =>
      forallb (fun v =>
        forallb (fun p => match role_of_param (fst p), snd p with
                          | Some r, KInt => match role_ie m r with Some id => ie_int_hole (snd v) id (fst p) | None => true end
                          | Some r, KBytes => match role_ie m r with Some id => ie_bytes_hole (snd v) id (fst p) | None => true end
                          | _, _ => true end) (b_args b)) (b_variants b)
  | None => false
  end.
