(* C20: decidable conditions on the regenerated footprints (Gen/Footprints.v), and the operations of the
   security functions as critical sections over the SNOW 3G package state (Model/Snow3g.v state). *)
From Coq Require Import List String Bool Arith NArith.
Require Import Interleave.
Import ListNotations.
Open Scope string_scope.

Definition fp_row := (string * list string * list (string * string) * list (string * string))%type.
Definition fp_writes (r:fp_row) := snd (fst r).
Definition fp_reads (r:fp_row) := snd r.
Definition fp_entries (r:fp_row) := snd (fst (fst r)).
Definition is_data (c:string) : bool := String.eqb c "data".
Definition is_guarded (c:string) : bool := String.eqb (substring 0 8 c) "guarded:".
Definition is_logger (c:string) : bool := String.eqb c "logger".

(* no family writes a package-level variable outside a critical section (loggers: logrus serialises internally) *)
Definition no_unguarded_writes (fps:list fp_row) : bool :=
  forallb (fun r => forallb (fun w => negb (is_data (snd w))) (fp_writes r)) fps.
(* whatever is written under a lock is never touched outside that same lock by any family *)
Definition guarded_consistently (fps:list fp_row) : bool :=
  forallb (fun r => forallb (fun w =>
      if is_guarded (snd w) then
        forallb (fun r' => forallb (fun a => if String.eqb (fst a) (fst w) then String.eqb (snd a) (snd w) else true)
                                   (fp_writes r' ++ fp_reads r')) fps
      else true) (fp_writes r)) fps.
(* the expected entry points were all found by the translator *)
Definition entries_found (fps:list fp_row) (expected:list (string * nat)) : bool :=
  forallb (fun e => match find (fun r => String.eqb (fst (fst (fst r))) (fst e)) fps with
                    | Some r => Nat.eqb (List.length (fp_entries r)) (snd e) | None => false end) expected.
(* a family keeps no package-level state at all: it writes no package-level variable (guarded or not) and reads none but
   loggers — what its functions return can then depend on their arguments only, whatever was called before *)
Definition family_stateless (fps:list fp_row) (fam:string) : bool :=
  match find (fun r => String.eqb (fst (fst (fst r))) fam) fps with
  | Some r => match fp_writes r with [] => true | _ => false end &&
              forallb (fun a => is_logger (snd a)) (fp_reads r) &&
              negb (Nat.eqb (List.length (fp_entries r)) 0)
  | None => false
  end.
Definition expected_entries : list (string * nat) :=
  [("ngap_codec", 4); ("nas_codec", 2); ("key_derive", 4); ("milenage", 4); ("nas_cipher", 1); ("nas_mac", 1); ("nas_protect", 2); ("nea2_nia2", 2); ("nea1_nia1", 2)].
Definition footprints_ok (fps:list fp_row) : bool :=
  no_unguarded_writes fps && guarded_consistently fps && entries_found fps expected_entries.
