(* SHA-256 (FIPS 180-4) and HMAC (RFC 2104), definitional, over octet lists. *)
From Coq Require Import NArith List Lia Bool.
Require Import Bytes.
Import ListNotations.
Open Scope N_scope.

Definition rotr (x n:N) := N.lor (N.shiftr x n) (w32 (N.shiftl x (32-n))).
Definition K256 : list N := [1116352408;1899447441;3049323471;3921009573;961987163;1508970993;2453635748;2870763221;3624381080;310598401;607225278;1426881987;1925078388;2162078206;2614888103;3248222580;3835390401;4022224774;264347078;604807628;770255983;1249150122;1555081692;1996064986;2554220882;2821834349;2952996808;3210313671;3336571891;3584528711;113926993;338241895;666307205;773529912;1294757372;1396182291;1695183700;1986661051;2177026350;2456956037;2730485921;2820302411;3259730800;3345764771;3516065817;3600352804;4094571909;275423344;430227734;506948616;659060556;883997877;958139571;1322822218;1537002063;1747873779;1955562222;2024104815;2227730452;2361852424;2428436474;2756734187;3204031479;3329325298].
Definition H256 : list N := [1779033703;3144134277;1013904242;2773480762;1359893119;2600822924;528734635;1541459225].
Definition s0 x := N.lxor (N.lxor (rotr x 7) (rotr x 18)) (N.shiftr x 3).
Definition s1 x := N.lxor (N.lxor (rotr x 17) (rotr x 19)) (N.shiftr x 10).
Definition S0 x := N.lxor (N.lxor (rotr x 2) (rotr x 13)) (rotr x 22).
Definition S1 x := N.lxor (N.lxor (rotr x 6) (rotr x 11)) (rotr x 25).
Definition ch x y z := N.lxor (N.land x y) (N.land (N.lxor x 4294967295) z).
Definition maj x y z := N.lxor (N.lxor (N.land x y) (N.land x z)) (N.land y z).
Fixpoint sched (n:nat) (w:list N) : list N :=   (* w reversed: most recent first *)
  match n with O => w | S n' =>
    sched n' (w32 (s1 (nth 1 w 0) + nth 6 w 0 + s0 (nth 14 w 0) + nth 15 w 0) :: w) end.
Definition round (st:list N) (kw:N*N) : list N :=
  match st with [a;b;c;d;e;f;g;h] =>
    let t1 := h + S1 e + ch e f g + fst kw + snd kw in
    let t2 := S0 a + maj a b c in
    [w32 (t1+t2); a; b; c; w32 (d+t1); e; f; g]
  | _ => st end.
Definition compress (h:list N) (blk:bytes) : list N :=
  let w0 := map be_to_N (chunk 4 blk) in
  let w := rev (sched 48 (rev w0)) in
  let st := fold_left round (combine K256 w) h in
  map (fun p => w32 (fst p + snd p)) (combine h st).
Definition pad (msg:bytes) : bytes :=
  let l := N.of_nat (length msg) in
  let k := N.to_nat ((119 - l mod 64) mod 64) in    (* zero octets so that total = 0 mod 64 *)
  msg ++ [128] ++ repeat 0 k ++ N_to_be 8 (8 * l).
Definition sha256 (msg:bytes) : bytes :=
  flat_map word_bytes (fold_left compress (chunk 64 (pad msg)) H256).

Definition hmac_sha256 (key msg:bytes) : bytes :=
  let k0 := if Nat.ltb 64 (length key) then sha256 key else key in
  let k0 := k0 ++ repeat 0 (64 - length k0) in
  sha256 (map (N.lxor 92) k0 ++ sha256 (map (N.lxor 54) k0 ++ msg)).

(* "abc" *)
Example sha256_abc : sha256 [97;98;99] =
  [186;120;22;191;143;1;207;234;65;65;64;222;93;174;34;35;176;3;97;163;150;23;122;156;180;16;255;97;242;0;21;173].
Proof. vm_compute. reflexivity. Qed.
(* two-block message: 448-bit NIST vector *)
Example sha256_448 : sha256 (map (fun c => c) [97;98;99;100;98;99;100;101;99;100;101;102;100;101;102;103;101;102;103;104;102;103;104;105;103;104;105;106;104;105;106;107;105;106;107;108;106;107;108;109;107;108;109;110;108;109;110;111;109;110;111;112;110;111;112;113]) =
  [36;141;106;97;210;6;56;184;229;192;38;147;12;62;96;57;163;60;228;89;100;255;33;103;246;236;237;212;25;219;6;193].
Proof. vm_compute. reflexivity. Qed.
(* RFC 4231 test case 2: key "Jefe", data "what do ya want for nothing?" *)
Example hmac_rfc4231_2 : hmac_sha256 [74;101;102;101] [119;104;97;116;32;100;111;32;121;97;32;119;97;110;116;32;102;111;114;32;110;111;116;104;105;110;103;63] =
  [91;220;193;70;191;96;117;78;106;4;36;38;8;149;117;199;90;0;63;8;157;39;57;131;157;236;88;185;100;236;56;67].
Proof. vm_compute. reflexivity. Qed.
