(* AES-128 encryption (FIPS-197), definitional. State = 16 octets, column-major as in the standard's input order. *)
From Coq Require Import NArith List Lia Bool.
Require Import Bytes.
Import ListNotations.
Open Scope N_scope.

Definition xtime (a:N) : N := let a2 := N.shiftl a 1 in if N.testbit a 7 then w8 (N.lxor a2 27) else a2.
Fixpoint gmul_f (n:nat) (a b r:N) : N :=
  match n with O => r | S n' => gmul_f n' (xtime a) (N.shiftr b 1) (if N.odd b then N.lxor r a else r) end.
Definition gmul (a b:N) : N := gmul_f 8 a b 0.
Fixpoint gpow (a:N) (e:nat) : N := match e with O => 1 | S e' => gmul a (gpow a e') end.
Definition rotl8 (x k:N) := w8 (N.lor (N.shiftl x k) (N.shiftr x (8-k))).
Definition sbox_def (x:N) : N :=
  let i := if x =? 0 then 0 else gpow x 254 in
  N.lxor (N.lxor (N.lxor (N.lxor (N.lxor i (rotl8 i 1)) (rotl8 i 2)) (rotl8 i 3)) (rotl8 i 4)) 99.
(* computed once; sbox x = sbox_def x for x < 256 is sbox_table_ok below *)
Definition sbox_table : list N := Eval vm_compute in map sbox_def (map N.of_nat (seq 0 256)).
Definition sbox (x:N) : N := nth (N.to_nat x) sbox_table 0.
Lemma sbox_table_ok : sbox_table = map sbox_def (map N.of_nat (seq 0 256)).
Proof. vm_compute. reflexivity. Qed.

Definition sub_bytes (s:bytes) := map sbox s.
Definition shift_rows (s:bytes) : bytes :=
  map (fun i:nat => nth (Nat.modulo (i + 4 * (Nat.modulo i 4)) 16) s 0) (seq 0 16).
Definition mix_col (a:bytes) : bytes :=
  match a with [a0;a1;a2;a3] =>
    [ N.lxor (N.lxor (N.lxor (gmul a0 2) (gmul a1 3)) a2) a3;
      N.lxor (N.lxor (N.lxor a0 (gmul a1 2)) (gmul a2 3)) a3;
      N.lxor (N.lxor (N.lxor a0 a1) (gmul a2 2)) (gmul a3 3);
      N.lxor (N.lxor (N.lxor (gmul a0 3) a1) a2) (gmul a3 2) ]
  | _ => a end.
Definition mix_columns (s:bytes) : bytes := flat_map mix_col (chunk 4 s).

(* key expansion: list of 44 words (each 4 octets) *)
Definition sub_word (w:bytes) := map sbox w.
Definition rot_word (w:bytes) := rotl_list 1 w.
Fixpoint expand (n:nat) (i:nat) (rc:N) (ws:list bytes) : list bytes :=   (* ws holds words so far, most recent LAST *)
  match n with O => ws | S n' =>
    let prev := nth (i-1)%nat ws [] in let w4 := nth (i-4)%nat ws [] in
    if Nat.eqb (Nat.modulo i 4) 0%nat then
      let t := sub_word (rot_word prev) in
      let t := match t with x::r => N.lxor x rc :: r | [] => [] end in
      expand n' (S i) (xtime rc) (ws ++ [xor_bytes w4 t])
    else expand n' (S i) rc (ws ++ [xor_bytes w4 prev])
  end.
Definition key_schedule (key:bytes) : list bytes :=
  let ws := expand 40 4 1 (chunk 4 key) in map (@concat N) (map (fun r:nat => firstn 4 (skipn (Nat.mul 4 r) ws)) (seq 0 11)).

Definition add_round_key (s k:bytes) := xor_bytes s k.
Definition aes_round (s k:bytes) := add_round_key (mix_columns (shift_rows (sub_bytes s))) k.
Definition aes128 (key blk:bytes) : bytes :=
  match key_schedule key with
  | k0 :: rest =>
    let s := add_round_key blk k0 in
    let s := fold_left aes_round (firstn 9 rest) s in
    add_round_key (shift_rows (sub_bytes s)) (nth 9 rest [])
  | [] => [] end.

(* FIPS-197 Appendix C.1 *)
Example aes_fips197_c1 :
  aes128 (map N.of_nat (seq 0 16)) [0;17;34;51;68;85;102;119;136;153;170;187;204;221;238;255]
  = [105;196;224;216;106;123;4;48;216;205;183;128;112;180;197;90].
Proof. vm_compute. reflexivity. Qed.
