(* CMAC (RFC 4493 / SP 800-38B) and CTR (SP 800-38A) over a block cipher E : key -> block -> block. *)
From Coq Require Import NArith List Lia Bool.
Require Import Bytes AES.
Import ListNotations.
Open Scope N_scope.

Section Modes.
Variable E : bytes -> bytes -> bytes.

Definition dbl (b:bytes) : bytes :=
  let v := be_to_N b * 2 in
  let v := if 340282366920938463463374607431768211456 <=? v then N.lxor (v - 340282366920938463463374607431768211456) 135 else v in
  N_to_be 16 v.
Definition cmac (key msg:bytes) : bytes :=
  let k1 := dbl (E key (repeat 0 16)) in let k2 := dbl k1 in
  let n := Nat.max 1 (Nat.div (length msg + 15) 16) in
  let last := skipn (Nat.mul 16 (n - 1)) msg in
  let lastx := if Nat.eqb (length last) 16 then xor_bytes last k1
               else xor_bytes (last ++ [128] ++ repeat 0 (15 - length last)) k2 in
  let x := fold_left (fun x blk => E key (xor_bytes x blk)) (chunk 16 (firstn (Nat.mul 16 (n - 1)) msg)) (repeat 0 16) in
  E key (xor_bytes x lastx).

Fixpoint ctr_blocks (n:nat) (key:bytes) (ctr:N) : list bytes :=
  match n with O => [] | S n' => E key (N_to_be 16 (ctr mod 340282366920938463463374607431768211456)) :: ctr_blocks n' key (ctr + 1) end.
Definition ctr_xor (key icb msg:bytes) : bytes :=
  let ks := concat (ctr_blocks (Nat.div (length msg + 15) 16) key (be_to_N icb)) in
  xor_bytes msg ks.
End Modes.

(* RFC 4493 examples 1 and 2 (AES-128 key 2b7e1516 28aed2a6 abf71588 09cf4f3c) *)
Definition k4493 : bytes := [43;126;21;22;40;174;210;166;171;247;21;136;9;207;79;60].
Example cmac_rfc4493_1 : cmac aes128 k4493 [] = [187;29;105;41;233;89;55;40;127;163;125;18;155;117;103;70].
Proof. vm_compute. reflexivity. Qed.
Example cmac_rfc4493_2 : cmac aes128 k4493 [107;193;190;226;46;64;159;150;233;61;126;17;115;147;23;42] =
  [7;10;22;180;107;77;65;68;247;155;221;157;208;74;40;124].
Proof. vm_compute. reflexivity. Qed.
