(* placeholder while the streams are being brought up *)
From Coq Require Import NArith List Bool String.
Require Import Bytes NasValue NasCodec NasDesc NasCorr.
Import ListNotations.
Theorem c08_placeholder : List.length all_msg_descs = 45%nat.
Proof. vm_compute. reflexivity. Qed.
Print Assumptions c08_placeholder.
