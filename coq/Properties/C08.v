(* C08 — NAS message codec is lossless for all message types the library dispatches.
   Statements only; proofs in Proofs/NasCodecProofs.v (generic, over descriptors) and Proofs/NasDispatchProofs.v
   (reflective, over Gen/NasDesc.v which is regenerated from the Go source on every check). *)
From Coq Require Import NArith List Bool String Permutation.
Require Import Bytes NasValue NasCodec NasDesc NasCorr NasCodecProofs NasDispatchProofs.
Import ListNotations.
Open Scope list_scope.
Open Scope N_scope.

(* generic: any Encode*/Decode* pair accepted by desc_pair_ok is lossless on well-formed messages *)
Theorem c08_pair_ok_implies_lossless :
  forall d m, desc_pair_ok d = true -> wf_msg d m = true -> bind (nas_encode d m) (nas_decode d) = Ok m.
Proof. exact roundtrip. Qed.
Print Assumptions c08_pair_ok_implies_lossless.

(* reflective: all 44 descriptors reachable from PlainNasEncode/PlainNasDecode are accepted, and the encode and
   decode switches of nas.go agree *)
Theorem c08_all_dispatched_pairs_ok : forallb desc_pair_ok dispatched_descs = true /\ library_ok = true.
Proof. split; [exact all_pairs_ok | exact library_ok_true]. Qed.
Print Assumptions c08_all_dispatched_pairs_ok.

(* for every message type the library knows (every case of GmmMessageDecode / GsmMessageDecode), every well-formed
   message: decode (encode m) = m; the encoding is mandatory part ++ optional IEs in table order; decoding the
   mandatory part followed by the optional IEs in ANY order gives m *)
Theorem c08_lossless_every_message_type :
  forall h mt sname dfn, is_table h -> In (mt, (sname, dfn)) (h_decode h) ->
  exists d, find_desc d_dec_func dfn all_msg_descs = Some d /\ d_name d = sname /\
    lookupN mt (h_encode h) = Some (d_enc_func d) /\
    forall m, wf_msg d m = true ->
      bind (nas_encode d m) (nas_decode d) = Ok m /\
      nas_encode d m = Ok (mand_part d m ++ List.concat (opt_chunks d m)) /\
      (forall p, Permutation p (opt_chunks d m) -> nas_decode d (mand_part d m ++ List.concat p) = Ok m).
Proof. exact lossless_all_types. Qed.
Print Assumptions c08_lossless_every_message_type.

(* canonical byte strings (= encodings of well-formed messages: mandatory part, optional IEs in table order, lengths
   within capacity) are reproduced by decode-then-encode *)
Theorem c08_reencode_canonical :
  forall h mt sname dfn, is_table h -> In (mt, (sname, dfn)) (h_decode h) ->
  exists d, find_desc d_dec_func dfn all_msg_descs = Some d /\
    forall bs, canonical d bs -> bind (nas_decode d bs) (nas_encode d) = Ok bs.
Proof. exact reencode_all_types. Qed.
Print Assumptions c08_reencode_canonical.

(* PlainNasDecode (PlainNasEncode x) = x for the nas.Message values whose header copy agrees with the message *)
Theorem c08_plain_nas_roundtrip :
  forall h mt sname dfn hdr m bs, is_table h -> In (mt, (sname, dfn)) (h_decode h) ->
  nth (h_type_index h) hdr 0 = mt ->
  forall d, find_desc d_dec_func dfn all_msg_descs = Some d -> wf_msg d m = true ->
  nas_encode d m = Ok bs ->
  firstn (h_header_len h) bs = hdr -> (h_header_len h <= List.length bs)%nat -> nth 0 bs 0 = epd_of h ->
  lib_encode (mk_nas (kind_of h) hdr sname m) = Ok bs /\ lib_decode bs = Ok (mk_nas (kind_of h) hdr sname m).
Proof. exact plain_roundtrip. Qed.
Print Assumptions c08_plain_nas_roundtrip.

(* unknown extended protocol discriminators and message types are reported as errors, in both directions *)
Theorem c08_unknown_epd_is_error : forall epd tl, epd <> 126 -> epd <> 46 -> exists s, lib_decode (epd :: tl) = Err s.
Proof. exact unknown_epd_is_error. Qed.
Print Assumptions c08_unknown_epd_is_error.
Theorem c08_unknown_5gmm_type_is_error :
  forall sht mt tl, lookupN mt (h_decode gmm_dispatch) = None -> exists s, lib_decode (126 :: sht :: mt :: tl) = Err s.
Proof. exact unknown_gmm_type_is_error. Qed.
Print Assumptions c08_unknown_5gmm_type_is_error.
Theorem c08_unknown_5gsm_type_is_error :
  forall psi pti mt tl, lookupN mt (h_decode gsm_dispatch) = None -> exists s, lib_decode (46 :: psi :: pti :: mt :: tl) = Err s.
Proof. exact unknown_gsm_type_is_error. Qed.
Print Assumptions c08_unknown_5gsm_type_is_error.
Theorem c08_short_input_is_error : forall bs, (1 <= List.length bs <= 2)%nat -> exists s, lib_decode bs = Err s.
Proof. exact short_input_is_error. Qed.
Print Assumptions c08_short_input_is_error.
Theorem c08_unknown_type_encode_is_error :
  forall x h, dispatch_of gmm_dispatch gsm_dispatch (n_kind x) = Some h ->
  lookupN (nth (h_type_index h) (n_header x) 0) (h_encode h) = None -> exists s, lib_encode x = Err s.
Proof. exact unknown_type_encode_is_error. Qed.
Print Assumptions c08_unknown_type_encode_is_error.

(* ---- non-vacuity and boundary examples (computed on the regenerated descriptors) *)
Definition ex_est_req : msg := [
  ("ExtendedProtocolDiscriminator", mk_fval true 0 0 [46]); ("PDUSessionID", mk_fval true 0 0 [5]);
  ("PTI", mk_fval true 0 0 [1]); ("PDUSESSIONESTABLISHMENTREQUESTMessageIdentity", mk_fval true 0 0 [193]);
  ("IntegrityProtectionMaximumDataRate", mk_fval true 0 0 [255; 255]);
  ("PDUSessionType", mk_fval true 0 0 [145]); ("SSCMode", absent);
  ("Capability5GSM", mk_fval true 40 2 [1; 2; 0; 0; 0; 0; 0; 0; 0; 0; 0; 0; 0]);
  ("MaximumNumberOfSupportedPacketFilters", absent); ("AlwaysonPDUSessionRequested", absent);
  ("SMPDUDNRequestContainer", absent);
  ("ExtendedProtocolConfigurationOptions", mk_fval true 123 2 [170; 187])]%string.

(* the hypotheses are satisfiable; the bytes are those the Go library produces for this message *)
Example c08_hypotheses_met :
  desc_pair_ok D_PDUSessionEstablishmentRequest = true /\ wf_msg D_PDUSessionEstablishmentRequest ex_est_req = true /\
  nas_encode D_PDUSessionEstablishmentRequest ex_est_req = Ok [46;5;1;193;255;255;145;40;2;1;2;123;0;2;170;187] /\
  In (193, ("PDUSessionEstablishmentRequest", "DecodePDUSessionEstablishmentRequest")%string) (h_decode gsm_dispatch) /\
  opt_chunks D_PDUSessionEstablishmentRequest ex_est_req = [[145]; [40;2;1;2]; [123;0;2;170;187]] /\
  nas_decode D_PDUSessionEstablishmentRequest ([46;5;1;193;255;255] ++ [123;0;2;170;187] ++ [145] ++ [40;2;1;2]) = Ok ex_est_req.
Proof. repeat split; vm_compute; auto 20. Qed.

(* the message types the library knows (so "unknown" above is everything else) *)
Example c08_known_types :
  map fst (h_decode gmm_dispatch) = [65;66;67;68;69;70;71;72;76;77;78;84;85;86;87;88;89;90;91;92;93;94;95;100;101;102;103;104] /\
  map fst (h_decode gsm_dispatch) = [193;194;195;197;198;199;201;202;203;204;205;209;210;211;212;214] /\
  List.length dispatched_descs = 44%nat /\
  desc_pair_ok D_SecurityProtected5GSNASMessage = false.    (* 8.2.28: no dispatch entry, one statement not modelled *)
Proof. repeat split; vm_compute; reflexivity. Qed.

(* outside wf_msg: Len above the capacity of a fixed array makes the encoder panic (Octet[:Len]) ... *)
Definition set_field (k:string) (v:fval) (m:msg) : msg := map (fun kv => if String.eqb (fst kv) k then (k, v) else kv) m.
Example c08_len_above_capacity_panics :
  nas_encode D_PDUSessionEstablishmentRequest
    (set_field "Capability5GSM" (mk_fval true 40 14 [1;2;0;0;0;0;0;0;0;0;0;0;0]) ex_est_req) = Panic "slice bounds out of range".
Proof. vm_compute. reflexivity. Qed.
(* ... and so does the decoder on a received length above capacity *)
Example c08_received_len_above_capacity_panics :
  nas_decode D_PDUSessionEstablishmentRequest [46;5;1;193;255;255;40;14;1;2;3] = Panic "slice bounds out of range".
Proof. vm_compute. reflexivity. Qed.
(* octets of a fixed array after Len are not transmitted: without the "zero after Len" clause of wf_msg the
   message is not reproduced (it comes back with those octets cleared) *)
Example c08_octets_after_len_are_lost :
  let m := set_field "Capability5GSM" (mk_fval true 40 2 [1;2;9;0;0;0;0;0;0;0;0;0;0]) ex_est_req in
  wf_msg D_PDUSessionEstablishmentRequest m = false /\
  bind (nas_encode D_PDUSessionEstablishmentRequest m) (nas_decode D_PDUSessionEstablishmentRequest) = Ok ex_est_req.
Proof. split; vm_compute; reflexivity. Qed.
(* a repeated IE overwrites the earlier one; an IEI without case consumes one octet *)
Example c08_duplicate_overwrites_unknown_skipped :
  nas_decode D_PDUSessionEstablishmentRequest ([46;5;1;193;255;255] ++ [146] ++ [0] ++ [40;2;1;2] ++ [145] ++ [123;0;2;170;187]) = Ok ex_est_req.
Proof. vm_compute. reflexivity. Qed.
