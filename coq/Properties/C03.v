(* C03 - NGAP messages are encoded exactly as X.691 aligned PER / TS 38.413 prescribe; values outside their
   constraints are refused.  Statements only; proofs live in Proofs/AperEncProofs.v, Proofs/AperSchemaProofs.v,
   Proofs/AperBits*.v (refinement of the byte-level writer) and Proofs/AperStruct*.v (whole values).

   Shape of the argument (DESIGN.md C03):
   (1) every constraint that occurs in the NGAP schema (regenerated from the Go types on every check) is in a
       class on which the encoder is proved to follow X.691, except an explicit finite list       [c03_ngap_schema_supported]
   (2) the regenerated schema equals the frozen TS 38.413 transcription                          [c03_schema_is_golden]
   (3) per primitive: the model of marshal.go issues exactly the bit-writes X.691 prescribes     [c03_*_is_x691]
   (4) the byte-level writer (putBitString / putBitsValue / GetBitString with their shifts, appendAlignBits, raw
       appends) refines appending to a bit list                                                  [c03_writer_refines_bit_list]
   (5) OCTET STRING / BIT STRING (all supported SIZE classes)                                    [c03_octet_string_is_x691, c03_bit_string_is_x691]
   (6) whole values, by induction on the Go type (SEQUENCE preamble + extension bit, OPTIONAL pointers, CHOICE,
       SEQUENCE OF, open types with their reference field):                                      [c03_aper_encode_is_x691]
         tags_to_asn1 t p = Some at -> abs t p v = Some av -> sup t p v = true -> x691 at av 0 = XOk bits ->
         small bits -> marshal t p v = Ok (pack bits)
       "the value conforms and is not fragmented" is the hypothesis  x691 ... = XOk bits  (XViolation = outside the
       constraints, XOutside = a length >= 16384); [sup] (Proofs/AperStructDefs.v, decidable, value-directed) keeps the
       value inside the constraint classes on which the library follows X.691; [small] = below 2^40 bits.
   (7) refusal (C03.2), structural:                                                             [c03_aper_encode_refuses]
         tags_to_asn1 t p = Some at -> abs t p v = Some av -> supr t p v = true -> x691 at av 0 = XViolation ->
         asz av + 512 < 2^40 -> exists e, marshal t p v = Err e
       [supr] (Proofs/AperStructRefDefs.v) = [sup] without its validity parts (an INTEGER may be out of range, a mandatory
       pointer nil, a string / list of any size, Present = 0 or too large, an open type alternative other than the one
       registered under the identifier) + octets are octets; [asz] bounds the size of any partial output.  The error arises where the constraint is checked (theorems c03_refusal_...) and propagates through every
       enclosing SEQUENCE, SEQUENCE OF, CHOICE, open type and pointer; components before the violating one are encoded.

   Classes excluded by [sup] (each is a recorded deviation or has no NGAP instance; witnesses below / in AperEncProofs):
     SIZE upper bound >= 65536 (D5), extensible size below the root (D7), lengths >= 16384 (fragmentation),
     INTEGER: unconstrained / semi-constrained / range > 64K with lb <> 0 (D3, D4), extensible INTEGER above its root,
     extensible SEQUENCE OF above its root [c03_ext_seqof_above_root_refuted], CHOICE with a single alternative
     [c03_single_alternative_choice_refuted], an open type whose content encodes to zero bits (the library writes
     length 0 where X.691 wants one zero octet), OBJECT IDENTIFIER.

   TODO-PARTIAL (stated in full, not proved here):
     aper_encode_refuses_all_kinds : c03_aper_encode_refuses also for a negative Present and for Present = 0 / too large
       in the CHOICE that carries an open type's alternatives.  [supr] asks Present >= 0 everywhere and 0 < Present <
       number of alternatives in an open type value (the other kinds - INTEGER out of range, string / list of illegal
       size, Present = 0 or too large in a CHOICE, nil mandatory pointer, open type not matching its identifier - are
       covered by c03_aper_encode_refuses through any nesting); these remaining cases are refused where they are checked
       (c03_refusal_unset_choice) but their propagation through enclosing values is not proved.
     The classes excluded by [sup] / [supr] are recorded deviations (their refusal or encoding is NOT what X.691 says). *)
From Coq Require Import NArith ZArith List Bool String.
Require Import GoSlice Bits AperCommon AperEnc AperDec Asn1 X691 Asn1Tags NgapSchema NgapGolden AperCheck X691Check
        AperEncProofs AperSchemaProofs AperBits AperBitsGet AperBitsPut AperStructPrim AperStructStr AperStructBits
        AperStructDefs AperStructFld AperStructMain AperStructRefuse AperStructWitness AperStructSize AperStructRefDefs AperStructRefOk AperStructRefMain.
Import ListNotations.
Open Scope N_scope.

(* (1) the partition of the NGAP schema: supported classes + the listed instances *)
Theorem c03_ngap_schema_supported :
  forall tn fn t p, In (tn, fn, t, p) ngap_fields -> supported_one t p = true \/ In (tn, fn) ngap_exceptions.
Proof. exact ngap_schema_supported. Qed.
Print Assumptions c03_ngap_schema_supported.

(* (2) the regenerated schema is the frozen TS 38.413 transcription (types, tags, root parameters) *)
Theorem c03_schema_is_golden : schema_diff = golden_exceptions /\ roots_eqb ngap_roots_full golden_roots_full = true.
Proof. exact schema_is_golden. Qed.
Print Assumptions c03_schema_is_golden.

(* (3) primitives *)
Theorem c03_cwn_is_x691 :
  forall s range v pos, 2 <= range <= 65536 -> v < range ->
    appendConstraintValue s (Z.of_N range) v = run_ops s (cwn_ops range v)
    /\ cwn range v pos = XOk (ops_bits pos (cwn_ops range v)).
Proof. exact cwn_small_is_x691. Qed.
Print Assumptions c03_cwn_is_x691.

Theorem c03_length_determinant_is_x691 :
  forall s n pos, n < 16384 ->
    appendLength s (-1) n = run_ops s (lendet_ops n) /\ lendet n pos = XOk (ops_bits pos (lendet_ops n)).
Proof. exact lendet_is_x691. Qed.
Print Assumptions c03_length_determinant_is_x691.

Theorem c03_constrained_length_is_x691 :
  forall s lb ub n pos, lb < ub -> ub < 65536 -> lb <= n <= ub ->
    appendLength s (Z.of_N (ub - lb + 1)) (n - lb) = run_ops s (cwn_ops (ub - lb + 1) (n - lb))
    /\ cwn (ub - lb + 1) (n - lb) pos = XOk (ops_bits pos (cwn_ops (ub - lb + 1) (n - lb))).
Proof. exact constrained_length_is_x691. Qed.
Print Assumptions c03_constrained_length_is_x691.

Theorem c03_boolean_is_x691 :
  forall s b pos, appendBool s b = run_ops s [OPut (if b then 1 else 0) 1]
    /\ x691 ABool (AVBool b) pos = XOk (ops_bits pos [OPut (if b then 1 else 0) 1]).
Proof. exact bool_is_x691. Qed.
Print Assumptions c03_boolean_is_x691.

Theorem c03_enumerated_is_x691 :
  forall s n i ext pos, 1 <= n <= 65536 -> i < n ->
    appendEnumerated s i ext (Some 0%Z) (Some (Z.of_N n - 1)%Z) = run_ops s (enum_ops n i ext)
    /\ x691 (AEnum n ext) (AVEnum i) pos = XOk (ops_bits pos (enum_ops n i ext)).
Proof. exact enum_is_x691. Qed.
Print Assumptions c03_enumerated_is_x691.

Theorem c03_choice_index_is_x691 :
  forall s n idx ext pos, 2 <= n <= 65536 -> idx < n ->
    appendChoiceIndex s (Z.of_N idx + 1) ext (Some (Z.of_N n - 1)%Z) = run_ops s (cwn_ops n idx)
    /\ cwn n idx pos = XOk (ops_bits pos (cwn_ops n idx)).
Proof. exact choice_index_is_x691. Qed.
Print Assumptions c03_choice_index_is_x691.

(* INTEGER (lb..ub[, ...]) with at most 65536 values, value in the root *)
Theorem c03_integer_small_range_is_x691 :
  forall s lb ub ext z pos,
    e_bitsOffset s < 8 -> (lb <= z <= ub)%Z -> (ub - lb + 1 <= 65536)%Z ->
    (- 4611686018427387904 < lb)%Z -> (ub < 4611686018427387904)%Z ->
    appendInteger s z ext (Some lb) (Some ub) = run_ops s (int_small_ops lb ub ext z)
    /\ enc_int (Some lb) (Some ub) ext z pos = XOk (ops_bits pos (int_small_ops lb ub ext z)).
Proof. exact int_constrained_small_is_x691. Qed.
Print Assumptions c03_integer_small_range_is_x691.

(* INTEGER (0..ub[, ...]) with more than 65536 values (RepetitionPeriod, BitRate, ...): X.691 10.5.7.4 - holds for
   every ub since fix 8116821 (before: refuted for 65536 <= ub < 131072 and the other ranges of class D2) *)
Theorem c03_integer_big_range_is_x691 :
  forall s ub ext z pos,
    e_bitsOffset s < 8 -> (0 <= z <= ub)%Z -> (65536 <= ub)%Z -> (ub < 4611686018427387904)%Z ->
    appendInteger s z ext (Some 0%Z) (Some ub) = run_ops s (int_big_ops ub ext z)
    /\ enc_int (Some 0%Z) (Some ub) ext z pos = XOk (ops_bits pos (int_big_ops ub ext z)).
Proof. exact int_constrained_big_is_x691. Qed.
Print Assumptions c03_integer_big_range_is_x691.

(* (4) the byte-level writer refines the bit-list writer: on a state representing the bit list bl (octets = bits of bl
   padded with zero bits, bitsOffset = |bl| mod 8) any list of writer operations with in-range arguments succeeds and
   the new state represents bl ++ their bits *)
Theorem c03_writer_refines_bit_list :
  forall ops s bl, repr s bl -> ops_ok (List.length bl) ops -> small (bl ++ ops_bits (List.length bl) ops) ->
    exists s', run_ops s ops = Ok s' /\ repr s' (bl ++ ops_bits (List.length bl) ops).
Proof. exact run_ops_refines. Qed.
Print Assumptions c03_writer_refines_bit_list.

Theorem c03_putBitsValue_refines :
  forall s bl v n, repr s bl -> n <= 64 -> v < 2 ^ n -> small (bl ++ bits_of_N (N.to_nat n) v) ->
    exists s', putBitsValue s v n = Ok s' /\ repr s' (bl ++ bits_of_N (N.to_nat n) v).
Proof. exact putBitsValue_repr. Qed.
Print Assumptions c03_putBitsValue_refines.

(* GetBitString returns the n bits after bit position off, left-aligned and zero-padded (used by both directions) *)
Theorem c03_GetBitString_bits :
  forall src off n, bok src -> off < 8 -> 1 <= n -> off + n <= 8 * len src -> len src < 17592186044416 ->
    exists d, GetBitString src off n = Ok d /\ bok d /\ len d = (n + 7) / 8 /\
      bits_of_bytes d = firstn (N.to_nat n) (skipn (N.to_nat off) (bits_of_bytes src)) ++ repeat false (pad_len (N.to_nat n)).
Proof. exact GetBitString_bits. Qed.
Print Assumptions c03_GetBitString_bits.

(* the state reached is the packing of the bits written *)
Theorem c03_repr_is_pack : forall s bl, repr s bl -> e_bytes s = pack_bits bl.
Proof. exact repr_pack. Qed.
Print Assumptions c03_repr_is_pack.

(* (5) OCTET STRING (SIZE (lb..ub[, ...])), 0 <= lb <= ub < 65536, ub > 0: fixed size <= 2 octets / larger, constrained,
   extensible within / above the root; and without a SIZE constraint *)
Theorem c03_octet_string_is_x691 :
  forall s bl bytes ext lb ub b,
    repr s bl -> bok bytes -> (0 <= lb <= ub)%Z -> (0 < ub < 65536)%Z ->
    (ext = true -> Z.to_N lb <= len bytes) -> len bytes < 16384 ->
    enc_string (Z.to_N lb) (Some (Z.to_N ub)) ext (len bytes) (bits_of_bytes bytes) (Z.to_N ub <=? 2) (List.length bl) = XOk b ->
    small (bl ++ b) ->
    exists s', appendOctetString s bytes ext (Some lb) (Some ub) = Ok s' /\ repr s' (bl ++ b).
Proof. exact octets_constrained_emits. Qed.
Print Assumptions c03_octet_string_is_x691.

Theorem c03_octet_string_unconstrained_is_x691 :
  forall s bl bytes b,
    repr s bl -> bok bytes -> len bytes < 16384 ->
    enc_string 0 None false (len bytes) (bits_of_bytes bytes) false (List.length bl) = XOk b -> small (bl ++ b) ->
    exists s', appendOctetString s bytes false None None = Ok s' /\ repr s' (bl ++ b).
Proof. exact octets_unconstrained_emits. Qed.
Print Assumptions c03_octet_string_unconstrained_is_x691.

Theorem c03_bit_string_is_x691 :
  forall s bl bytes n c ext lb ub b,
    repr s bl -> bok bytes -> len bytes = (n + 7) / 8 -> c = firstn (N.to_nat n) (bits_of_bytes bytes) ->
    (0 <= lb <= ub)%Z -> (0 < ub < 65536)%Z -> (ext = true -> Z.to_N lb <= n) -> n < 16384 ->
    enc_string (Z.to_N lb) (Some (Z.to_N ub)) ext (N.of_nat (List.length c)) c (Z.to_N ub <=? 16) (List.length bl) = XOk b ->
    small (bl ++ b) ->
    exists s', appendBitString s bytes n ext (Some lb) (Some ub) = Ok s' /\ repr s' (bl ++ b).
Proof. exact bits_constrained_emits. Qed.
Print Assumptions c03_bit_string_is_x691.

(* (6) C03.1: whole values *)
Theorem c03_aper_encode_is_x691 :
  forall t p v at' av bits,
    tags_to_asn1 t p = Some at' -> abs t p v = Some av -> sup t p v = true ->
    x691 at' av 0 = XOk bits -> small bits ->
    marshal t p v = Ok (pack bits).
Proof. exact marshal_is_x691. Qed.
Print Assumptions c03_aper_encode_is_x691.

(* instantiated for the NGAP PDU and the transfer / container roots of the regenerated schema (every root has a
   reading as an ASN.1 type: c03_ngap_roots_have_asn1) *)
Theorem c03_ngap_encode_is_x691 :
  forall name t pe pd v at' av bits,
    In (name, t, pe, pd) ngap_roots_full -> tags_to_asn1 t pe = Some at' -> abs t pe v = Some av -> sup t pe v = true ->
    x691 at' av 0 = XOk bits -> small bits ->
    marshal t pe v = Ok (pack bits).
Proof. intros name t pe pd v at' av bits _. apply marshal_is_x691. Qed.
Print Assumptions c03_ngap_encode_is_x691.

Theorem c03_ngap_roots_have_asn1 :
  forallb (fun r => let '(n, t, pe, pd) := r in match tags_to_asn1 t pe with Some _ => true | None => false end) ngap_roots_full = true.
Proof. vm_compute. reflexivity. Qed.
Print Assumptions c03_ngap_roots_have_asn1.

(* (7) refusal: a fixed-size BIT STRING whose BitLength is not the size never reaches the wire *)
Theorem c03_fixed_bitstring_refused :
  forall s bs n ub, (0 < ub < 65536)%Z -> n <> Z.to_N ub ->
    (exists e, appendBitString s bs n false (Some ub) (Some ub) = Err e)
    \/ (exists p, appendBitString s bs n false (Some ub) (Some ub) = Panic p).
Proof. exact fixed_bitstring_wrong_length_refused. Qed.
Print Assumptions c03_fixed_bitstring_refused.

(* (7) C03.2, structural: a value outside its constraints is refused with an error *)
Theorem c03_aper_encode_refuses :
  forall t p v at' av,
    tags_to_asn1 t p = Some at' -> abs t p v = Some av -> supr t p v = true ->
    x691 at' av 0 = XViolation -> N.of_nat (asz av + SLACK) < LIM ->
    exists e, marshal t p v = Err e.
Proof. exact marshal_refuses. Qed.
Print Assumptions c03_aper_encode_refuses.

Theorem c03_ngap_encode_refuses :
  forall name t pe pd v at' av,
    In (name, t, pe, pd) ngap_roots_full -> tags_to_asn1 t pe = Some at' -> abs t pe v = Some av -> supr t pe v = true ->
    x691 at' av 0 = XViolation -> N.of_nat (asz av + SLACK) < LIM ->
    exists e, marshal t pe v = Err e.
Proof. intros name t pe pd v at' av _. apply marshal_refuses. Qed.
Print Assumptions c03_ngap_encode_refuses.

(* the relaxed side condition and a valid encoding give the side condition of (6) *)
Theorem c03_supr_valid_is_sup :
  forall t p v av at' b pos,
    tags_to_asn1 t p = Some at' -> abs t p v = Some av -> supr t p v = true -> x691 at' av pos = XOk b -> sup t p v = true.
Proof. exact supr_ok. Qed.
Print Assumptions c03_supr_valid_is_sup.

(* the size of an X.691 encoding is bounded by a function of the abstract value alone *)
Theorem c03_encoding_size_bound : forall v t pos b, x691 t v pos = XOk b -> (List.length b <= asz v)%nat.
Proof. exact x691_len. Qed.
Print Assumptions c03_encoding_size_bound.

(* refusal at the place of the violation (C03.2), one statement per kind named by the property *)
Theorem c03_refusal_integer_out_of_range :
  forall s z ext lb ub, (z < lb)%Z \/ (ext = false /\ (ub < z)%Z) -> exists e, appendInteger s z ext (Some lb) (Some ub) = Err e.
Proof. exact integer_out_of_range_refused. Qed.
Print Assumptions c03_refusal_integer_out_of_range.

Theorem c03_refusal_enumerated_out_of_range :
  forall s i ext u, (u < Z.of_N i)%Z -> i < 9223372036854775808 -> exists e, appendEnumerated s i ext (Some 0%Z) (Some u) = Err e.
Proof. exact enumerated_out_of_range_refused. Qed.
Print Assumptions c03_refusal_enumerated_out_of_range.

Theorem c03_refusal_octet_string_too_long :
  forall s bytes lb ub, (0 <= ub < 4611686018427387904)%Z -> Z.to_N ub < len bytes ->
    exists e, appendOctetString s bytes false (Some lb) (Some ub) = Err e.
Proof. exact octet_string_too_long_refused. Qed.
Print Assumptions c03_refusal_octet_string_too_long.

Theorem c03_refusal_octet_string_fixed_wrong_length :
  forall s bytes ub, (0 < ub < 65536)%Z -> len bytes < Z.to_N ub -> exists e, appendOctetString s bytes false (Some ub) (Some ub) = Err e.
Proof. exact octet_string_fixed_wrong_length_refused. Qed.
Print Assumptions c03_refusal_octet_string_fixed_wrong_length.

Theorem c03_refusal_bit_string_too_long :
  forall s bytes n lb ub, (0 <= ub < 4611686018427387904)%Z -> Z.to_N ub < n ->
    exists e, appendBitString s bytes n false (Some lb) (Some ub) = Err e.
Proof. exact bit_string_too_long_refused. Qed.
Print Assumptions c03_refusal_bit_string_too_long.

Theorem c03_refusal_sequence_of_too_long :
  forall rec e p l s lb ub,
    p_sizeLB p = Some lb -> p_sizeUB p = Some ub -> p_sizeExt p = false -> (0 <= lb <= ub)%Z -> (ub < 65536)%Z ->
    (ub < Z.of_nat (List.length l))%Z -> exists err, encSequenceOf rec e p l s = Err err.
Proof. exact sequence_of_too_long_refused. Qed.
Print Assumptions c03_refusal_sequence_of_too_long.

Theorem c03_refusal_sequence_of_too_short :
  forall rec e p l s lb ub,
    p_sizeLB p = Some lb -> p_sizeUB p = Some ub -> p_sizeExt p = false -> (0 <= lb <= ub)%Z -> (ub < 65536)%Z ->
    (Z.of_nat (List.length l) < lb)%Z -> exists err, encSequenceOf rec e p l s = Err err.
Proof. exact sequence_of_too_short_refused. Qed.
Print Assumptions c03_refusal_sequence_of_too_short.

Theorem c03_refusal_nil_value : forall fuel e p s, exists err, makeField (S fuel) (TPtr e) p VNil s = Err err.
Proof. exact nil_value_refused. Qed.
Print Assumptions c03_refusal_nil_value.

(* a nil pointer in a mandatory component of a SEQUENCE (the components before it well-typed: OPTIONAL ones are pointers) *)
Theorem c03_refusal_nil_mandatory_component :
  forall rec pf pv f post postv p s bl e0,
    is_choice (pf ++ f :: post) = false -> Forall2 fld_typed pf pv -> p_optional (f_params f) = false -> f_ty f = TPtr e0 ->
    List.length post = List.length postv -> repr s bl -> small (bl ++ [false]) ->
    exists err, encStruct rec (pf ++ f :: post) p (pv ++ VNil :: postv) s = Err err.
Proof. exact nil_mandatory_component_refused. Qed.
Print Assumptions c03_refusal_nil_mandatory_component.

(* CHOICE with Present = 0 or beyond the alternatives *)
Theorem c03_refusal_unset_choice :
  forall rec fs p present vr s bl,
    is_choice fs = true -> List.length fs = S (List.length vr) -> (present = 0 \/ Z.of_nat (List.length fs) <= present)%Z ->
    repr s bl -> small (bl ++ [false]) ->
    exists err, encStruct rec fs p (VInt present :: vr) s = Err err.
Proof. exact unset_choice_refused. Qed.
Print Assumptions c03_refusal_unset_choice.

(* open type whose alternative is not the one registered under the identifier's value *)
Theorem c03_refusal_open_type_mismatch :
  forall rec cfs p present cvr s a av refValue,
    is_choice cfs = true -> p_valueExt p = false -> p_openType p = true -> p_refValue p = Some refValue ->
    List.length cfs = S (List.length cvr) -> (0 < present < Z.of_nat (List.length cfs))%Z ->
    nth_error cfs (Z.to_nat present) = Some a -> nth_error (VInt present :: cvr) (Z.to_nat present) = Some av ->
    p_refValue (f_params a) <> Some refValue ->
    exists err, encStruct rec cfs p (VInt present :: cvr) s = Err err.
Proof. exact open_type_mismatch_refused. Qed.
Print Assumptions c03_refusal_open_type_mismatch.

(* deviation classes found while proving (6): excluded by [sup], no NGAP instance, each confirmed on the real code *)
Theorem c03_ext_seqof_above_root_refuted :
  marshal T_ext_seqof p_empty V_ext_seqof = Ok ([128; 130] ++ repeat 255 16 ++ [192])%list /\
  spec_encode T_ext_seqof p_empty V_ext_seqof = SVBytes ([128; 128; 130] ++ repeat 255 16 ++ [192])%list /\
  sup T_ext_seqof p_empty V_ext_seqof = false.
Proof. exact ext_seqof_above_root_refuted. Qed.
Print Assumptions c03_ext_seqof_above_root_refuted.

Theorem c03_single_alternative_choice_refuted :
  marshal T_choice1 p_empty V_choice1 = Ok [0; 5] /\ spec_encode T_choice1 p_empty V_choice1 = SVBytes [5] /\
  sup T_choice1 p_empty V_choice1 = false.
Proof. exact single_alternative_choice_refuted. Qed.
Print Assumptions c03_single_alternative_choice_refuted.

Theorem c03_open_type_empty_content_refuted :
  marshal T_open_empty p_empty V_open_empty = Ok [7; 0] /\
  spec_encode T_open_empty p_empty V_open_empty = SVBytes [7; 1; 0] /\
  (exists e, unmarshal (dec_fuel T_open_empty) T_open_empty p_empty [7; 0] = Err e) /\
  unmarshal (dec_fuel T_open_empty) T_open_empty p_empty [7; 1; 0] = Ok V_open_empty /\
  sup T_open_empty p_empty V_open_empty = false.
Proof. exact open_type_empty_content_refuted. Qed.
Print Assumptions c03_open_type_empty_content_refuted.

(* known deviation classes that remain (KNOWN FINDINGS C03:size-ub>=65536, C03:ext-below-root) and one class without
   an NGAP instance: concrete witnesses on the model, with the X.691 encoding next to them *)
Theorem c03_size_ub_65536_refuted :
  marshal (T_one TOctets (ps false 1 65536)) p_empty (VStruct [VOctets [4]]) = Ok [0; 4] /\
  x691_pdu (AOctets 1 (Some 65536) false) (AVOctets [4]) = Some [1; 4].
Proof. exact size_ub_65536_refuted. Qed.
Print Assumptions c03_size_ub_65536_refuted.

Theorem c03_ext_below_root_refuted :
  (exists e, marshal (T_one TOctets (ps true 1 150)) p_empty (VStruct [VOctets []]) = Err e) /\
  x691_pdu (AOctets 1 (Some 150) true) (AVOctets []) = Some [128; 0].
Proof. exact ext_below_root_refuted. Qed.
Print Assumptions c03_ext_below_root_refuted.

(* non-vacuity: an NGSetupRequest (GlobalRANNodeID, RANNodeName, ...) - model, specification over the frozen
   TS 38.413 types, and the bytes the implementation produced for this value agree *)
Definition ex_ngsetup : val := (VStruct [(VInt 1%Z);(VPtr (VStruct [(VStruct [(VInt 21%Z)]);(VStruct [(VEnum 0)]);(VStruct [(VInt 7%Z);VNil;VNil;VNil;VNil;VNil;VNil;(VPtr (VStruct [(VStruct [(VList [(VStruct [(VStruct [(VInt 82%Z)]);(VStruct [(VEnum 2)]);(VStruct [(VInt 2%Z);VNil;(VPtr (VStruct [(VOctets [100;122;108;103;114;49;106;113;101;115;97;103;50;57;119;97;48;122])]));VNil;VNil])]);(VStruct [(VStruct [(VInt 27%Z)]);(VStruct [(VEnum 2)]);(VStruct [(VInt 1%Z);(VPtr (VStruct [(VInt 1%Z);(VPtr (VStruct [(VStruct [(VOctets [142;184;201])]);(VStruct [(VInt 1%Z);(VPtr (VBits [246;97;27;106] 32));VNil]);VNil]));VNil;VNil;VNil]));VNil;VNil;VNil])])])])]));VNil;VNil;VNil;VNil;VNil;VNil;VNil;VNil;VNil;VNil;VNil;VNil;VNil;VNil;VNil;VNil;VNil;VNil;VNil;VNil;VNil;VNil;VNil;VNil;VNil;VNil;VNil;VNil;VNil;VNil;VNil;VNil;VNil;VNil;VNil;VNil;VNil;VNil;VNil;VNil;VNil;VNil;VNil;VNil;VNil])]));VNil;VNil]).
Definition ex_ngsetup_bytes : list N := [0;21;0;40;0;0;2;0;82;128;20;8;128;100;122;108;103;114;49;106;113;101;115;97;103;50;57;119;97;48;122;0;27;128;9;0;142;184;201;80;246;97;27;106].
Example c03_ngsetup_request_example :
  marshal (root_ty "NGAPPDU") (root_penc "NGAPPDU") ex_ngsetup = Ok ex_ngsetup_bytes
  /\ ngap_enc_spec_out ("NGAPPDU"%string, ex_ngsetup, EPanic) = SVBytes ex_ngsetup_bytes.
Proof. split; vm_compute; reflexivity. Qed.
Example c03_hypotheses_met :
  (2 <= 256 <= 65536) /\ (e_bitsOffset (mkest [128] 3) < 8) /\ (65536 <= 131071)%Z /\
  existsb (fun x => let '(tn, fn, _, _) := x in String.eqb tn "RepetitionPeriod" && String.eqb fn "Value") ngap_fields = true.
Proof. repeat split; try (vm_compute; congruence). Qed.

(* the hypotheses of c03_aper_encode_is_x691 hold for the NGSetupRequest above (so the theorem applies to it) *)
Example c03_structural_hypotheses_met :
  sup (root_ty "NGAPPDU") (root_penc "NGAPPDU") ex_ngsetup = true /\
  match tags_to_asn1 (root_ty "NGAPPDU") (root_penc "NGAPPDU"), abs (root_ty "NGAPPDU") (root_penc "NGAPPDU") ex_ngsetup with
  | Some at', Some av => match x691 at' av 0 with XOk b => N.of_nat (List.length b) <? LIM | _ => false end
  | _, _ => false
  end = true.
Proof. split; vm_compute; reflexivity. Qed.

(* the hypotheses of c03_aper_encode_refuses hold for the NGSetupRequest above with a 4-octet PLMNIdentity (SIZE(3)):
   the model refuses it, and so does the specification over the frozen TS 38.413 types *)
Definition ex_ngsetup_bad : val := (VStruct [(VInt 1%Z);(VPtr (VStruct [(VStruct [(VInt 21%Z)]);(VStruct [(VEnum 0)]);(VStruct [(VInt 7%Z);VNil;VNil;VNil;VNil;VNil;VNil;(VPtr (VStruct [(VStruct [(VList [(VStruct [(VStruct [(VInt 82%Z)]);(VStruct [(VEnum 2)]);(VStruct [(VInt 2%Z);VNil;(VPtr (VStruct [(VOctets [100;122;108;103;114;49;106;113;101;115;97;103;50;57;119;97;48;122])]));VNil;VNil])]);(VStruct [(VStruct [(VInt 27%Z)]);(VStruct [(VEnum 2)]);(VStruct [(VInt 1%Z);(VPtr (VStruct [(VInt 1%Z);(VPtr (VStruct [(VStruct [(VOctets [142;184;201;7])]);(VStruct [(VInt 1%Z);(VPtr (VBits [246;97;27;106] 32));VNil]);VNil]));VNil;VNil;VNil]));VNil;VNil;VNil])])])])]));VNil;VNil;VNil;VNil;VNil;VNil;VNil;VNil;VNil;VNil;VNil;VNil;VNil;VNil;VNil;VNil;VNil;VNil;VNil;VNil;VNil;VNil;VNil;VNil;VNil;VNil;VNil;VNil;VNil;VNil;VNil;VNil;VNil;VNil;VNil;VNil;VNil;VNil;VNil;VNil;VNil;VNil;VNil;VNil;VNil])]));VNil;VNil]).
Example c03_refusal_hypotheses_met :
  supr (root_ty "NGAPPDU") (root_penc "NGAPPDU") ex_ngsetup_bad = true /\
  match tags_to_asn1 (root_ty "NGAPPDU") (root_penc "NGAPPDU"), abs (root_ty "NGAPPDU") (root_penc "NGAPPDU") ex_ngsetup_bad with
  | Some at', Some av => match x691 at' av 0 with XViolation => N.of_nat (asz av + SLACK) <? LIM | _ => false end
  | _, _ => false
  end = true /\
  marshal (root_ty "NGAPPDU") (root_penc "NGAPPDU") ex_ngsetup_bad = Err E_OCT_OVER_UB /\
  ngap_enc_spec_out ("NGAPPDU"%string, ex_ngsetup_bad, EPanic) = SVRefuse.
Proof. repeat split; vm_compute; reflexivity. Qed.
