(* C03 - NGAP messages are encoded exactly as X.691 aligned PER / TS 38.413 prescribe; values outside their
   constraints are refused.  Statements only; proofs live in Proofs/AperEncProofs.v, Proofs/AperSchemaProofs.v.

   Shape of the argument (DESIGN.md C03):
   (1) every constraint that occurs in the NGAP schema (regenerated from the Go types on every check) is in a
       class on which the encoder is proved to follow X.691, except an explicit finite list       [c03_ngap_schema_supported]
   (2) the regenerated schema equals the frozen TS 38.413 transcription                          [c03_schema_is_golden]
   (3) per primitive: the model of marshal.go issues exactly the bit-writes X.691 prescribes     [c03_*_is_x691]
   (4) refusal of a fixed-size BIT STRING of the wrong length (after fix b7bd054)                [c03_fixed_bitstring_refused]

   TODO-PARTIAL (stated in full, not proved here):
     aper_encode_is_x691 :
       forall t p v at av bits, tags_to_asn1 t p = Some at -> abs t p v = Some av -> supported t p ->
         x691 at av 0 = XOk bits -> marshal t p v = Ok (pack bits)
     aper_encode_refuses :
       forall t p v at av, tags_to_asn1 t p = Some at -> abs t p v = Some av -> supported t p ->
         x691 at av 0 = XViolation -> exists e, marshal t p v = Err e
     Missing: (a) the refinement of the byte-level writer, i.e. for a well-formed state s (bitsOffset < 8, unused low
     bits of the last octet zero) and side conditions v < 2^n, n <= 64:  run_ops s ops = Ok s'  with
     bits_of_est s' = bits_of_est s ++ ops_bits (length (bits_of_est s)) ops   (putBitsValue / putBitString /
     GetBitString shift identities); (b) OCTET STRING, BIT STRING, unconstrained INTEGER and SEQUENCE OF count as
     op-lists (the prototypes of the design round cover them at bit level); (c) the structural induction over
     ty (SEQUENCE preamble, CHOICE, SEQUENCE OF, open type).  These parts are covered on every check by the
     correspondence streams prim-enc and ngap-enc (implementation = model = specification, every bit offset). *)
From Coq Require Import NArith ZArith List Bool String.
Require Import GoSlice Bits AperCommon AperEnc AperDec Asn1 X691 Asn1Tags NgapSchema NgapGolden AperCheck X691Check
        AperEncProofs AperSchemaProofs.
Import ListNotations.
Open Scope N_scope.

(* (1) the partition of the NGAP schema: supported classes + the listed instances *)
Theorem c03_ngap_schema_supported :
  forall tn fn t p, In (tn, fn, t, p) ngap_fields -> supported_one t p = true \/ In (tn, fn) ngap_exceptions.
Proof. exact ngap_schema_supported. Qed.
Print Assumptions c03_ngap_schema_supported.

(* (2) the regenerated schema is the frozen TS 38.413 transcription (types, tags, root parameters) *)
Theorem c03_schema_is_golden : schema_diff = golden_exceptions /\ roots_eqb ngap_roots_full golden_roots_full = true.
Proof. exact schema_is_golden. Qed.
Print Assumptions c03_schema_is_golden.

(* (3) primitives *)
Theorem c03_cwn_is_x691 :
  forall s range v pos, 2 <= range <= 65536 -> v < range ->
    appendConstraintValue s (Z.of_N range) v = run_ops s (cwn_ops range v)
    /\ cwn range v pos = XOk (ops_bits pos (cwn_ops range v)).
Proof. exact cwn_small_is_x691. Qed.
Print Assumptions c03_cwn_is_x691.

Theorem c03_length_determinant_is_x691 :
  forall s n pos, n < 16384 ->
    appendLength s (-1) n = run_ops s (lendet_ops n) /\ lendet n pos = XOk (ops_bits pos (lendet_ops n)).
Proof. exact lendet_is_x691. Qed.
Print Assumptions c03_length_determinant_is_x691.

Theorem c03_constrained_length_is_x691 :
  forall s lb ub n pos, lb < ub -> ub < 65536 -> lb <= n <= ub ->
    appendLength s (Z.of_N (ub - lb + 1)) (n - lb) = run_ops s (cwn_ops (ub - lb + 1) (n - lb))
    /\ cwn (ub - lb + 1) (n - lb) pos = XOk (ops_bits pos (cwn_ops (ub - lb + 1) (n - lb))).
Proof. exact constrained_length_is_x691. Qed.
Print Assumptions c03_constrained_length_is_x691.

Theorem c03_boolean_is_x691 :
  forall s b pos, appendBool s b = run_ops s [OPut (if b then 1 else 0) 1]
    /\ x691 ABool (AVBool b) pos = XOk (ops_bits pos [OPut (if b then 1 else 0) 1]).
Proof. exact bool_is_x691. Qed.
Print Assumptions c03_boolean_is_x691.

Theorem c03_enumerated_is_x691 :
  forall s n i ext pos, 1 <= n <= 65536 -> i < n ->
    appendEnumerated s i ext (Some 0%Z) (Some (Z.of_N n - 1)%Z) = run_ops s (enum_ops n i ext)
    /\ x691 (AEnum n ext) (AVEnum i) pos = XOk (ops_bits pos (enum_ops n i ext)).
Proof. exact enum_is_x691. Qed.
Print Assumptions c03_enumerated_is_x691.

Theorem c03_choice_index_is_x691 :
  forall s n idx ext pos, 2 <= n <= 65536 -> idx < n ->
    appendChoiceIndex s (Z.of_N idx + 1) ext (Some (Z.of_N n - 1)%Z) = run_ops s (cwn_ops n idx)
    /\ cwn n idx pos = XOk (ops_bits pos (cwn_ops n idx)).
Proof. exact choice_index_is_x691. Qed.
Print Assumptions c03_choice_index_is_x691.

(* INTEGER (lb..ub[, ...]) with at most 65536 values, value in the root *)
Theorem c03_integer_small_range_is_x691 :
  forall s lb ub ext z pos,
    e_bitsOffset s < 8 -> (lb <= z <= ub)%Z -> (ub - lb + 1 <= 65536)%Z ->
    (- 4611686018427387904 < lb)%Z -> (ub < 4611686018427387904)%Z ->
    appendInteger s z ext (Some lb) (Some ub) = run_ops s (int_small_ops lb ub ext z)
    /\ enc_int (Some lb) (Some ub) ext z pos = XOk (ops_bits pos (int_small_ops lb ub ext z)).
Proof. exact int_constrained_small_is_x691. Qed.
Print Assumptions c03_integer_small_range_is_x691.

(* INTEGER (0..ub[, ...]) with more than 65536 values (RepetitionPeriod, BitRate, ...): X.691 10.5.7.4 - holds for
   every ub since fix 8116821 (before: refuted for 65536 <= ub < 131072 and the other ranges of class D2) *)
Theorem c03_integer_big_range_is_x691 :
  forall s ub ext z pos,
    e_bitsOffset s < 8 -> (0 <= z <= ub)%Z -> (65536 <= ub)%Z -> (ub < 4611686018427387904)%Z ->
    appendInteger s z ext (Some 0%Z) (Some ub) = run_ops s (int_big_ops ub ext z)
    /\ enc_int (Some 0%Z) (Some ub) ext z pos = XOk (ops_bits pos (int_big_ops ub ext z)).
Proof. exact int_constrained_big_is_x691. Qed.
Print Assumptions c03_integer_big_range_is_x691.

(* (4) refusal: a fixed-size BIT STRING whose BitLength is not the size never reaches the wire *)
Theorem c03_fixed_bitstring_refused :
  forall s bs n ub, (0 < ub < 65536)%Z -> n <> Z.to_N ub ->
    (exists e, appendBitString s bs n false (Some ub) (Some ub) = Err e)
    \/ (exists p, appendBitString s bs n false (Some ub) (Some ub) = Panic p).
Proof. exact fixed_bitstring_wrong_length_refused. Qed.
Print Assumptions c03_fixed_bitstring_refused.

(* known deviation classes that remain (KNOWN FINDINGS C03:size-ub>=65536, C03:ext-below-root) and one class without
   an NGAP instance: concrete witnesses on the model, with the X.691 encoding next to them *)
Theorem c03_size_ub_65536_refuted :
  marshal (T_one TOctets (ps false 1 65536)) p_empty (VStruct [VOctets [4]]) = Ok [0; 4] /\
  x691_pdu (AOctets 1 (Some 65536) false) (AVOctets [4]) = Some [1; 4].
Proof. exact size_ub_65536_refuted. Qed.
Print Assumptions c03_size_ub_65536_refuted.

Theorem c03_ext_below_root_refuted :
  (exists e, marshal (T_one TOctets (ps true 1 150)) p_empty (VStruct [VOctets []]) = Err e) /\
  x691_pdu (AOctets 1 (Some 150) true) (AVOctets []) = Some [128; 0].
Proof. exact ext_below_root_refuted. Qed.
Print Assumptions c03_ext_below_root_refuted.

(* non-vacuity: an NGSetupRequest (GlobalRANNodeID, RANNodeName, ...) - model, specification over the frozen
   TS 38.413 types, and the bytes the implementation produced for this value agree *)
Definition ex_ngsetup : val := (VStruct [(VInt 1%Z);(VPtr (VStruct [(VStruct [(VInt 21%Z)]);(VStruct [(VEnum 0)]);(VStruct [(VInt 7%Z);VNil;VNil;VNil;VNil;VNil;VNil;(VPtr (VStruct [(VStruct [(VList [(VStruct [(VStruct [(VInt 82%Z)]);(VStruct [(VEnum 2)]);(VStruct [(VInt 2%Z);VNil;(VPtr (VStruct [(VOctets [100;122;108;103;114;49;106;113;101;115;97;103;50;57;119;97;48;122])]));VNil;VNil])]);(VStruct [(VStruct [(VInt 27%Z)]);(VStruct [(VEnum 2)]);(VStruct [(VInt 1%Z);(VPtr (VStruct [(VInt 1%Z);(VPtr (VStruct [(VStruct [(VOctets [142;184;201])]);(VStruct [(VInt 1%Z);(VPtr (VBits [246;97;27;106] 32));VNil]);VNil]));VNil;VNil;VNil]));VNil;VNil;VNil])])])])]));VNil;VNil;VNil;VNil;VNil;VNil;VNil;VNil;VNil;VNil;VNil;VNil;VNil;VNil;VNil;VNil;VNil;VNil;VNil;VNil;VNil;VNil;VNil;VNil;VNil;VNil;VNil;VNil;VNil;VNil;VNil;VNil;VNil;VNil;VNil;VNil;VNil;VNil;VNil;VNil;VNil;VNil;VNil;VNil;VNil])]));VNil;VNil]).
Definition ex_ngsetup_bytes : list N := [0;21;0;40;0;0;2;0;82;128;20;8;128;100;122;108;103;114;49;106;113;101;115;97;103;50;57;119;97;48;122;0;27;128;9;0;142;184;201;80;246;97;27;106].
Example c03_ngsetup_request_example :
  marshal (root_ty "NGAPPDU") (root_penc "NGAPPDU") ex_ngsetup = Ok ex_ngsetup_bytes
  /\ ngap_enc_spec_out ("NGAPPDU"%string, ex_ngsetup, EPanic) = SVBytes ex_ngsetup_bytes.
Proof. split; vm_compute; reflexivity. Qed.
Example c03_hypotheses_met :
  (2 <= 256 <= 65536) /\ (e_bitsOffset (mkest [128] 3) < 8) /\ (65536 <= 131071)%Z /\
  existsb (fun x => let '(tn, fn, _, _) := x in String.eqb tn "RepetitionPeriod" && String.eqb fn "Value") ngap_fields = true.
Proof. repeat split; try (vm_compute; congruence). Qed.
