(* C06 — Uplink NAS protection is correct over any message history.
   Statements only; proofs in Proofs/CountProofs.v, Proofs/NasSecProofs.v.
   Model: Model/Count.v (security.Count), Model/NasSec.v (tglib.NASEncode via EncodeNasPduWithSecurity).
   Specification: Spec/RefNasPeer.v (reference sender [protect], reference receiver [ul_receive], histories).
   [enc] / [mac] stand for security.NASEncrypt / security.NASMacCalculate (Model/Security.v: nas_encrypt, nas_mac);
   every theorem holds for ANY two functions, the receiver theorems under two hypotheses C07 discharges:
     mac_len4  the MAC has 4 octets                   (C07: c07_nas_mac_is_spec + eia1 / eia2 return 4 octets)
     enc_inv   deciphering inverts ciphering           (C07: c07_cipher_involutive, okp p := |p| < 536870909)
   and C07 (c07_nas_encrypt_is_spec, c07_nas_mac_is_spec) identifies nas_encrypt / nas_mac with 128-NEAx / 128-NIAx. *)
From Coq Require Import NArith List Bool.
Require Import Bytes Count NasSec RefNasPeer Security NasSecInst CountProofs NasSecProofs NasSecC07.
Import ListNotations.
Open Scope N_scope.

Definition alg := N -> list N -> N -> N -> N -> list N -> option (list N).

(* ---- (a) the counter type, all values at once: masks of counter.go as arithmetic *)
(* SetSQN on every uint32 field value (the mask 0xffffff00 and the OR) *)
Theorem c06_setsqn_mask :
  forall c s, c < 4294967296 -> s < 256 -> N.lor (N.land c 0xffffff00) s = (c / 256) * 256 + s.
Proof. exact lor_land_ffffff00. Qed.
Print Assumptions c06_setsqn_mask.

Theorem c06_counter_operations :
  forall c, c < 4294967296 ->
    cnt_mask c = c mod 16777216 /\ cnt_sqn c = c mod 256 /\ cnt_overflow c = (c / 256) mod 65536 /\
    cnt_addone c = ((c + 1) mod 4294967296) mod 16777216 /\
    (forall s, cnt_setsqn c s = (c / 256) * 256 + s mod 256) /\
    (forall o, cnt_setoverflow c o = (c / 16777216) * 16777216 + (o mod 65536) * 256 + c mod 256).
Proof.
  intros c H. exact (conj (cnt_mask_mod c) (conj (cnt_sqn_mod c) (conj (cnt_overflow_arith c) (conj (cnt_addone_arith c)
         (conj (fun s => cnt_setsqn_arith c s H) (fun o => cnt_setoverflow_arith c o H)))))).
Qed.
Print Assumptions c06_counter_operations.

(* the 24-bit NAS COUNT: COUNT = overflow || SQN; +1 carries from the sequence number into the overflow counter
   and wraps at 2^24 — for every one of the 2^24 values *)
Theorem c06_count_24bit :
  forall c, c < 16777216 ->
    c = cnt_overflow c * 256 + cnt_sqn c /\
    cnt_addone c = (c + 1) mod 16777216 /\
    cnt_sqn (cnt_addone c) = (cnt_sqn c + 1) mod 256 /\
    cnt_overflow (cnt_addone c) = (if cnt_sqn c =? 255 then (cnt_overflow c + 1) mod 65536 else cnt_overflow c) /\
    cnt_get c = (c, c) /\ cnt_set c 0 0 = 0.
Proof.
  intros c H. exact (conj (cnt_split c H) (conj (cnt_addone_24 c H) (conj (cnt_addone_sqn c H)
         (conj (cnt_addone_overflow c H) (conj (cnt_get_id c H) (cnt_set_0 c H)))))).
Qed.
Print Assumptions c06_count_24bit.

(* ---- (b) one message: NASEncode = the reference sender with COUNT = ULCount (0 after a new-context reset),
   DIRECTION = uplink, BEARER = 1; ULCount + 1 afterwards; an algorithm error leaves the counter unincremented *)
Theorem c06_message_is_protect :
  forall (enc mac:alg) st plain hdr newctx, wf st ->
    nas_encode enc mac st plain hdr true newctx Epd5GSMobilityManagementMessage =
    let c := ul_count_for (ul st) newctx in
    let d := if newctx then 0 else dl st in
    match protect enc mac (ctx_of st) UPLINK c hdr plain with
    | Some pkt => (mk_ue (ul_next c) d (ea st) (ia st) (kenc st) (kint st), Ok pkt)
    | None => (mk_ue c d (ea st) (ia st) (kenc st) (kint st), Err)
    end.
Proof. exact nas_encode_is_protect. Qed.
Print Assumptions c06_message_is_protect.

(* layout of what the reference sender emits: EPD | hdr | MAC(4) | SQN = COUNT mod 256 | message part, the MAC computed
   over SQN || message part as sent, the message part ciphered exactly under header types 2 and 4 *)
Theorem c06_protected_layout :
  forall (enc mac:alg) ctx dir c hdr plain pkt,
    (forall m t, mac (c_ia ctx) (c_kint ctx) c 1 dir m = Some t -> length t = 4%nat) ->
    protect enc mac ctx dir c hdr plain = Some pkt ->
    exists m body,
      pkt = EPD_5GMM :: hdr :: m ++ c mod 256 :: body /\ length m = 4%nat /\
      nth_error pkt 6 = Some (c mod 256) /\
      mac (c_ia ctx) (c_kint ctx) c BEARER_3GPP dir (c mod 256 :: body) = Some m /\
      (if hdr_ciphered hdr then enc (c_ea ctx) (c_kenc ctx) c BEARER_3GPP dir plain = Some body else body = plain).
Proof. exact protect_layout. Qed.
Print Assumptions c06_protected_layout.

(* ---- (c) ALL histories: every output, and both counters after every message, are the reference sender's *)
Theorem c06_history_is_reference_sender :
  forall (enc mac:alg) (ops:ul_ops) st,
    wf st -> Forall hdr_ok ops ->
    all_some (fst (ul_history enc mac (ctx_of st) (ul st) ops)) ->
    hrun enc mac st (map send_of ops) = ul_expected enc mac (ctx_of st) (ul st) (dl st) ops.
Proof. exact ul_history_is_reference_sender. Qed.
Print Assumptions c06_history_is_reference_sender.

(* which COUNT the messages of a history carry *)
Theorem c06_history_counts :
  forall (enc mac:alg) ctx (ops:ul_ops) next,
    fst (ul_history enc mac ctx next ops) =
    map (fun x => protect enc mac ctx UPLINK (snd x) (snd (fst (fst x))) (fst (fst (fst x))))
        (combine ops (ul_counts next (map (fun o => snd o) ops))).
Proof. exact ul_history_counts. Qed.
Print Assumptions c06_history_counts.

(* the i-th message since the last new-context message (itself message 1) carries COUNT i-1 mod 2^24;
   without a reset, message i carries start + i - 1 mod 2^24 (across 255->256, 65535->65536 and 2^24-1->0) *)
Theorem c06_counts_since_reset :
  forall (pre rest:list bool) next,
    Forall (fun b => b = false) rest ->
    ul_counts next (pre ++ true :: rest) =
    ul_counts next pre ++ map (fun i => N.of_nat i mod 16777216) (seq 0 (S (length rest))).
Proof. exact ul_counts_since_reset. Qed.
Print Assumptions c06_counts_since_reset.

Theorem c06_counts_without_reset :
  forall (news:list bool) next,
    next < 16777216 -> Forall (fun b => b = false) news ->
    ul_counts next news = map (fun i => (next + N.of_nat i) mod 16777216) (seq 0 (length news)).
Proof. exact ul_counts_run. Qed.
Print Assumptions c06_counts_without_reset.

(* the final state as fold_left of the step function: ULCount = the COUNT the sender uses next, DLCount reset iff a
   new context was taken, keys and algorithms untouched *)
Theorem c06_history_final_state :
  forall (enc mac:alg) (ops:ul_ops) st,
    wf st -> Forall hdr_ok ops ->
    all_some (fst (ul_history enc mac (ctx_of st) (ul st) ops)) ->
    let fin := fold_left (fun s o => fst (hstep enc mac s o)) (map send_of ops) st in
    ul fin = snd (ul_history enc mac (ctx_of st) (ul st) ops) /\
    dl fin = (if any_newctx ops then 0 else dl st) /\ wf fin /\ ctx_of fin = ctx_of st.
Proof. exact ul_history_final_count. Qed.
Print Assumptions c06_history_final_state.

(* ---- (d) a conformant receiver holding the same keys accepts every message of the history, in order, returns
   exactly the submitted plain octets and ends with the sender's COUNT *)
Theorem c06_receiver_recovers_history :
  forall (enc mac:alg) ctx (okp:list N -> Prop),
    (forall c d m t, mac (c_ia ctx) (c_kint ctx) c 1 d m = Some t -> length t = 4%nat) ->
    (forall c d p q, okp p -> enc (c_ea ctx) (c_kenc ctx) c 1 d p = Some q -> enc (c_ea ctx) (c_kenc ctx) c 1 d q = Some p) ->
    forall (ops:ul_ops) next,
      next < 16777216 -> Forall hdr_ok ops -> Forall (plain_ok_op okp) ops ->
      all_some (fst (ul_history enc mac ctx next ops)) ->
      ul_receive_history enc mac ctx next
        (combine (map unsome (fst (ul_history enc mac ctx next ops))) (map (fun o => snd o) ops))
      = (ul_accepts next ops, snd (ul_history enc mac ctx next ops)).
Proof. exact ul_history_received. Qed.
Print Assumptions c06_receiver_recovers_history.

(* the same for the algorithms the Go code calls (Model/Security.v), the two hypotheses discharged by C07
   (c07_mac_length = nas_mac_len4, c07_cipher_involutive = nas_encrypt_involutive): any 16-octet ciphering key,
   NEA0/1/2, NIA1/2, plain messages shorter than 2^29-3 octets *)
Theorem c06_receiver_recovers_history_go :
  forall ctx, key_ok (c_kenc ctx) = true -> c_ea ctx <= 2 -> c_ia ctx = 1 \/ c_ia ctx = 2 ->
    forall (ops:ul_ops) next,
      next < 16777216 -> Forall hdr_ok ops -> Forall (plain_ok_op short_enough) ops ->
      all_some (fst (ul_history nas_encrypt nas_mac ctx next ops)) ->
      ul_receive_history nas_encrypt nas_mac ctx next
        (combine (map unsome (fst (ul_history nas_encrypt nas_mac ctx next ops))) (map (fun o => snd o) ops))
      = (ul_accepts next ops, snd (ul_history nas_encrypt nas_mac ctx next ops)).
Proof. exact ul_history_received_go. Qed.
Print Assumptions c06_receiver_recovers_history_go.

(* ---- (e) a new context resets both counters; without a security context the octets go out unchanged *)
Theorem c06_new_context_resets :
  forall (enc mac:alg) st plain hdr, wf st ->
    let r := nas_encode enc mac st plain hdr true true Epd5GSMobilityManagementMessage in
    snd r = res_of (protect enc mac (ctx_of st) UPLINK 0 hdr plain) /\
    dl (fst r) = 0 /\
    ul (fst r) = match protect enc mac (ctx_of st) UPLINK 0 hdr plain with Some _ => 1 | None => 0 end.
Proof. exact nas_encode_new_context. Qed.
Print Assumptions c06_new_context_resets.

Theorem c06_no_context_unchanged :
  forall (enc mac:alg) st plain hdr newctx epd, nas_encode enc mac st plain hdr false newctx epd = (st, Ok plain).
Proof. exact nas_encode_no_context. Qed.
Print Assumptions c06_no_context_unchanged.

(* ---- non-vacuity *)
(* the two hypotheses on the algorithms are met by functions that depend on all their inputs *)
Example c06_hypotheses_satisfiable :
  (forall a k c b d m t, toy_mac a k c b d m = Some t -> length t = 4%nat) /\
  (forall a k c b d p q, toy_enc a k c b d p = Some q -> toy_enc a k c b d q = Some p).
Proof. exact (conj toy_mac_len4 toy_enc_inv). Qed.

(* the real algorithms on a history crossing 2^24-1 -> 0 with a reset in the middle: the hypotheses of
   c06_history_is_reference_sender hold and both sides are the computed octets; the reference receiver with the
   3GPP algorithms (Spec/TS33401B.v) accepts them and returns the plain messages *)
Definition c06_k1 : bytes := [0;1;2;3;4;5;6;7;8;9;10;11;12;13;14;15].
Definition c06_k2 : bytes := [16;17;18;19;20;21;22;23;24;25;26;27;28;29;30;31].
Definition c06_ops : ul_ops :=
  [([0x7e;0;0x43], 2, false); ([0x7e;0;0x64;0x6f], 1, false); ([0x7e;0;0x55], 4, true); ([0x7e;0;0x43], 3, false)].
Definition c06_st0 : ue_state := mk_ue 16777215 77 2 2 c06_k1 c06_k2.
Example c06_history_instance :
  wf c06_st0 /\ Forall hdr_ok c06_ops /\
  all_some (fst (ul_history nas_encrypt nas_mac (ctx_of c06_st0) (ul c06_st0) c06_ops)) /\
  map (fun x => snd (fst x)) (hrun_x c06_st0 (map send_of c06_ops)) = [0; 1; 1; 2] /\
  map (fun x => snd x) (hrun_x c06_st0 (map send_of c06_ops)) = [77; 77; 0; 0].
Proof.
  split; [split; vm_compute; reflexivity|].
  split; [repeat constructor; vm_compute; discriminate|].
  split; [vm_compute; repeat constructor; discriminate|].
  split; vm_compute; reflexivity.
Qed.
Example c06_receiver_instance :
  fst (ul_receive_history nea_s nia_s (ctx_of c06_st0) 16777215
        (combine (map (fun x => match fst (fst x) with Ok b => b | _ => [] end) (hrun_x c06_st0 (map send_of c06_ops)))
                 (map (fun o => snd o) c06_ops)))
  = [Accept [0x7e;0;0x43] 0; Accept [0x7e;0;0x64;0x6f] 1; Accept [0x7e;0;0x55] 1; Accept [0x7e;0;0x43] 2].
Proof. vm_compute. reflexivity. Qed.
