(* C13 — gNB-side NGAP messages carry the caller's values and all mandatory IEs.  Statements only.
   builders / wrappers (Gen/Builders.v) are REGENERATED on every run by sentinel probing of the real Build* / Get*
   functions (three sentinel sets, parametricity checked by the translator); messages / procedures
   (Spec/TS38413.v) are the hand-written transcription of TS 38.413; inst fills a template with arguments. *)
From Coq Require Import ZArith NArith List String Bool.
Require Import GoSlice AperCommon AperEnc AperDec NgapSchema AperCheck BuildersT TS38413 Builders Builders13 Builders13Proofs
        Builders13Range Builders13RangeAll.
Import ListNotations.
Open Scope string_scope.

(* (a1) every probed Build* function and Get* wrapper (all 52 + 14, none unprobed): for every argument assignment
   the PDU it returns is the empty stub (exactly the two declared-but-empty builders) or has the procedure code
   and the class TS 38.413 gives its message *)
Theorem c13_every_builder_has_code_and_class :
  forall b s t, In b (builders ++ wrappers) -> select s (b_variants b) = Some t ->
    is_stub t = true \/
    exists m pv, message_of b = Some m /\ v_pdu (inst s None t) = Some pv /\
                 head_conforms m false (pv_class pv) (pv_proc pv) (pv_crit pv) = true.
Proof. exact every_builder_code_and_class. Qed.
Print Assumptions c13_every_builder_has_code_and_class.

Theorem c13_stubs_and_coverage :
  stubs = ["BuildAMFStatusIndication"; "BuildUETNLABindingReleaseRequest"] /\
  map b_name emulator_wrapper_templates = emulator_wrappers /\ List.length emulator_builder_templates = 9%nat /\ unprobed = [].
Proof. exact (conj stubs_are emulator_templates_present). Qed.
Print Assumptions c13_stubs_and_coverage.

(* (a2) the nine wrappers the emulator calls (and the Build* functions under them), every variant, every argument
   assignment: procedure code, class and criticality of the message; every IE is a row of the clause 9.2 table
   with the row's criticality, in table order, at most once; every mandatory row is present *)
Theorem c13_emulator_messages_conform :
  forall b s t, In b (emulator_wrapper_templates ++ emulator_builder_templates) -> select s (b_variants b) = Some t ->
    exists m rows pv hs, message_of b = Some m /\ m_ies m = Some rows /\ v_pdu (inst s None t) = Some pv /\
      head_conforms m true (pv_class pv) (pv_proc pv) (pv_crit pv) = true /\
      v_ie_heads (pv_ies pv) = Some hs /\ ies_conform rows hs = true.
Proof. exact emulator_message_conforms. Qed.
Print Assumptions c13_emulator_messages_conform.

(* (b) generic, for every template whatsoever: IE lookup commutes with instantiation *)
Theorem c13_instantiate_find_ie :
  forall s e t id x, find_ie_t t id = Some x -> find_ie (inst s e t) id = Some (inst s e x).
Proof. exact find_ie_inst. Qed.
Print Assumptions c13_instantiate_find_ie.

(* (a3) AMF-UE-NGAP-ID, RAN-UE-NGAP-ID, NAS-PDU, RAN node name: the IE the standard names holds exactly the
   caller's argument, for every emulator wrapper, variant and argument assignment *)
Theorem c13_identifiers_and_nas_pdu_are_the_arguments :
  forall b s t m p r id, In b (emulator_wrapper_templates ++ emulator_builder_templates) -> select s (b_variants b) = Some t ->
    message_of b = Some m -> In p (b_args b) -> role_of_param (fst p) = Some r -> role_ie m r = Some id ->
    (snd p = KInt -> forall z, get_int s (fst p) = Some z -> find_ie (inst s None t) id = Some (VStruct [VInt z])) /\
    (snd p = KBytes -> forall bs, get_bytes s (fst p) = Some bs -> find_ie (inst s None t) id = Some (VStruct [VOctets bs])).
Proof. exact emulator_direct_values. Qed.
Print Assumptions c13_identifiers_and_nas_pdu_are_the_arguments.

(* (a4) the places inside IEs (PDU session ids per list item, gNB id, PLMN of the global gNB id / broadcast PLMNs /
   NR CGI / TAI, GTP address inside the response transfer): in every variant the node at every place TS38413.v
   names for the role is the hole of that role's parameter — PLMN: the NG Setup argument in the NG Setup request,
   the TestPlmn state elsewhere; TestPlmn is written by the NG Setup request from that argument and by nothing
   else; no place of these templates is unexplained by the arguments; the GTP address of a sample call is found
   by the APER decoder model at the standard's place inside the transfer.
   TODO-PARTIAL: this is the reflective statement about the templates; lifting it to [inst] for the nested places
   needs the commutation of [resolve] (typed navigation, incl. HMapInts and the nested decode) with [inst], which
   is proved here only for the IE level (c13_instantiate_find_ie). *)
Theorem c13_nested_values_at_standard_places_partial :
  forallb (fun b => roles_ok b && direct_ok b && no_opaque b) (emulator_wrapper_templates ++ emulator_builder_templates) = true
  /\ forallb state_ok (builders ++ wrappers) = true
  /\ forallb gtp_sample_ok emulator_wrapper_templates = true.
Proof. exact emulator_values_placed. Qed.
Print Assumptions c13_nested_values_at_standard_places_partial.

(* (c) ranges.  For ALL values and encoder states the INTEGER encoder model refuses a value outside a
   non-extensible (0..ub) constraint ... *)
Theorem c13_integer_below_zero_refused :
  forall st z ub, (z < 0)%Z -> appendInteger st z false (Some 0%Z) (Some ub) = Err E_INT_SMALL.
Proof. exact integer_below_zero_refused. Qed.
Print Assumptions c13_integer_below_zero_refused.
Theorem c13_integer_above_bound_refused :
  forall st z ub, (ub < z)%Z -> (0 <= z)%Z -> appendInteger st z false (Some 0%Z) (Some ub) = Err E_INT_LARGE.
Proof. exact integer_above_bound_refused. Qed.
Print Assumptions c13_integer_above_bound_refused.
(* ... and whole messages, for ALL argument values (the full statement of the range clause): for each of the nine
   wrappers the emulator calls, every argument assignment s that is well-formed apart from the identifiers
   ([env_wf b s], Model/Builders13Range.v: every parameter bound to a value of its kind, octets are octets, PLMN 3
   octets, IPv4 4 octets, RAN node name 1..150 octets, NAS-PDU below 15000 octets, a session id list of at most 300
   elements, gNB id octets = those of a bit string of the given bit length < 16384, a variant is selected):
     all identifiers in range  => the template instantiated with s and encoded by the APER model gives bytes,
     some identifier out of range (negative or above its bound) => it gives an error
   where "identifiers in range" ([ids_ok b s]) = AMF-UE-NGAP-ID in 0..2^40-1, RAN-UE-NGAP-ID in 0..2^32-1, PDU session
   id in 0..255, a non-nil session id list of 1..256 elements each in 0..255, gNB id bit length in 22..32.
   Proof: Proofs/Builders13Range*.v - the hypotheses of the structural C03 theorems (c03_aper_encode_is_x691 /
   c03_aper_encode_refuses: abs, supr, the X.691 specification function being XOk / XViolation) are established for
   the instantiated template with the identifiers as variables; the status of the X.691 function is decided without
   bits, independently of the bit position ([xst], Builders13RangeX.v).
   The bounds 15000 / 300 / 16384 keep the message below the 16384 octets after which X.691 fragments the length of
   the open type that wraps it (there the structural C03 theorems stop; the Go encoder goes on). *)
Theorem c13_identifiers_in_range_encode :
  forall b s, In b emulator_wrapper_templates -> env_wf b s = true -> ids_ok b s = true ->
    exists bs, encode_call b s = Ok bs.
Proof. exact ranges_in_range_encode. Qed.
Print Assumptions c13_identifiers_in_range_encode.

Theorem c13_identifiers_out_of_range_refused :
  forall b s, In b emulator_wrapper_templates -> env_wf b s = true -> ids_ok b s = false ->
    exists e, encode_call b s = Err e.
Proof. exact ranges_out_of_range_refused. Qed.
Print Assumptions c13_identifiers_out_of_range_refused.

(* the identifiers of the emulator's messages carry exactly the constraints (0..2^40-1), (0..2^32-1) in the
   regenerated schema; and, as computed samples of the two theorems above (kept: they run the encoder model itself),
   each whole message is Ok at the bounds 0 / 2^40-1 / 2^32-1 / 255 and an error just outside (-1, bound+1,
   2*bound+2; session id lists [256], [3;-1]).
   TODO-PARTIAL (what the two theorems above leave open): (1) argument assignments outside env_wf - a NAS-PDU of 15000
   octets or more, a session id list of more than 300 elements, a gNB id bit length >= 16384 (fragmented lengths,
   outside the structural C03 theorems); a PLMN / IPv4 / RAN node name of another size, gNB id octets that do not
   match the bit length (refused or not: not stated here); a 5G-S-TMSI other than the two probed forms (no template);
   an unbound / ill-kinded argument (the model answers Panic, Go does not type-check such a call), octets >= 256
   (not a Go byte); (2) the five wrappers the emulator does not call (path switch, handover ...) and the Build*
   functions called directly. *)
Theorem c13_identifier_constraints_and_boundary_samples :
  forallb (fun b => boundary_ok b && id_constraints_ok b) emulator_wrapper_templates = true.
Proof. exact emulator_boundaries. Qed.
Print Assumptions c13_identifier_constraints_and_boundary_samples.

(* outside the criticality clause (not sent by the emulator), kept visible: the functions whose output departs
   from the transcribed tables *)
Theorem c13_deviations_outside_the_clause :
  other_deviations = ["BuildHandoverFailure"; "BuildHandoverNotify"; "GetHandoverNotify"].
Proof. exact other_deviations_are. Qed.
Print Assumptions c13_deviations_outside_the_clause.

(* ---- non-vacuity *)
Definition ex_env : env :=
  mkenv [("amfUeNgapID", AInt 1099511627775); ("ranUeNgapID", AInt 7); ("nasPdu", ABytes [126; 0; 65]%N)] [2; 248; 57]%N.
Example c13_example_uplink_nas :
  In B_GetUplinkNASTransport (emulator_wrapper_templates ++ emulator_builder_templates) /\
  (exists t, select ex_env (b_variants B_GetUplinkNASTransport) = Some t /\
     find_ie (inst ex_env None t) 10 = Some (VStruct [VInt 1099511627775]) /\
     find_ie (inst ex_env None t) 38 = Some (VStruct [VOctets [126; 0; 65]%N])) /\
  encode_call B_GetUplinkNASTransport ex_env =
    Ok [0; 46; 64; 46; 0; 0; 4; 0; 10; 0; 6; 128; 255; 255; 255; 255; 255; 0; 85; 0; 2; 0; 7; 0; 38; 0; 4; 3; 126; 0; 65; 0; 121;
        64; 15; 64; 2; 248; 57; 0; 0; 0; 0; 16; 2; 248; 57; 0; 0; 1]%N /\
  (exists e, encode_call B_GetUplinkNASTransport (override ex_env "amfUeNgapID" (AInt 1099511627776)) = Err e) /\
  (exists e, encode_call B_GetUplinkNASTransport (override ex_env "ranUeNgapID" (AInt (-1))) = Err e).
Proof.
  split; [vm_compute; tauto|]. split; [eexists; vm_compute; repeat split; reflexivity|].
  split; [vm_compute; reflexivity|]. split; eexists; vm_compute; reflexivity.
Qed.

(* the variants: a nil session-id list selects the template without the list IE, a non-nil one the template whose
   list IE has one item per element *)
Example c13_example_release_complete :
  let s0 := mkenv [("amfUeNgapID", AInt 1); ("ranUeNgapID", AInt 2); ("pduSessionIDList", AInts None)] [2; 248; 57]%N in
  let s2 := override s0 "pduSessionIDList" (AInts (Some [5; 9]%Z)) in
  (exists t, select s0 (b_variants B_GetUEContextReleaseComplete) = Some t /\ find_ie (inst s0 None t) 60 = None) /\
  (exists t, select s2 (b_variants B_GetUEContextReleaseComplete) = Some t /\
     find_ie (inst s2 None t) 60 = Some (VStruct [VList [VStruct [VStruct [VInt 5]; VNil]; VStruct [VStruct [VInt 9]; VNil]]])).
Proof. split; eexists; vm_compute; split; reflexivity. Qed.

(* the range theorems apply: a well-formed assignment with all identifiers in range, and the same with the
   AMF-UE-NGAP-ID one above its bound / a session id list holding 256 *)
Example c13_example_ranges :
  In B_GetUplinkNASTransport emulator_wrapper_templates /\
  env_wf B_GetUplinkNASTransport ex_env = true /\ ids_ok B_GetUplinkNASTransport ex_env = true /\
  env_wf B_GetUplinkNASTransport (override ex_env "amfUeNgapID" (AInt 1099511627776)) = true /\
  ids_ok B_GetUplinkNASTransport (override ex_env "amfUeNgapID" (AInt 1099511627776)) = false /\
  (let s := mkenv [("amfUeNgapID", AInt 1); ("ranUeNgapID", AInt 2); ("pduSessionIDList", AInts (Some [5; 256]%Z))] [2; 248; 57]%N in
   In B_GetUEContextReleaseRequest emulator_wrapper_templates /\ env_wf B_GetUEContextReleaseRequest s = true /\
   ids_ok B_GetUEContextReleaseRequest s = false /\ encode_call B_GetUEContextReleaseRequest s = Err E_INT_LARGE) /\
  (let s := mkenv [("gnbId", ABytes [0; 1; 2]%N); ("mobilePLMN", ABytes [2; 248; 57]%N); ("bitlength", AInt 24); ("name", ABytes [103; 78; 66]%N)] [2; 248; 57]%N in
   In B_GetNGSetupRequest emulator_wrapper_templates /\ env_wf B_GetNGSetupRequest s = true /\ ids_ok B_GetNGSetupRequest s = true /\
   ids_ok B_GetNGSetupRequest (override (override s "bitlength" (AInt 40)) "gnbId" (ABytes [0; 1; 2; 3; 4]%N)) = false /\
   env_wf B_GetNGSetupRequest (override (override s "bitlength" (AInt 40)) "gnbId" (ABytes [0; 1; 2; 3; 4]%N)) = true).
Proof. vm_compute. repeat split; tauto. Qed.
