(* C12 — UE address, TEID and UPF address are extracted exactly from the setup request; extraction terminates.
   Statements only. *)
From Coq Require Import NArith List Bool.
Require Import Extract SessionMsgs ExtractProofs.
Import ListNotations.
Open Scope N_scope.

(* Any security-protected DL NAS TRANSPORT carrying a PDU SESSION ESTABLISHMENT ACCEPT built per TS 24.501
   — any header, PTI, session id, SSC/type octet, QoS rules of any length, any 6-octet session AMBR, any
   list of the other optional IEs in front of the PDU address, anything after it — yields exactly the
   IPv4 PDU address the network encoded.  The two size hypotheses are the LV-E limits of the format itself. *)
Theorem c12_ue_address_exact :
  forall sht m1 m2 m3 m4 sqn pct psi pti t qos ambr pre a post trailing,
    forallb accept_opt_ok pre = true -> length a = 4%nat -> length ambr = 6%nat ->
    N.of_nat (length qos) < 65536 ->
    N.of_nat (length (est_accept psi pti t qos ambr pre a post)) < 65536 ->
    decode_nas_pdu (protected sht [m1;m2;m3;m4] sqn (dl_nas_transport pct (est_accept psi pti t qos ambr pre a post) trailing))
    = XOk (Some a).
Proof. exact nas_extract_exact. Qed.
Print Assumptions c12_ue_address_exact.

(* Any transfer whose IEs in front of UL-NGU-UP-TNLInformation have values shorter than 128 octets
   (in definition order that is only the aggregate maximum bit rate) and whose tunnel is an IPv4 GTP tunnel
   yields exactly the TEID and UPF address encoded. *)
Theorem c12_teid_and_upf_exact :
  forall pre addr teid post,
    forallb transfer_pre_ok pre = true -> length addr = 4%nat -> length teid = 4%nat ->
    decode_transfer (setup_request_transfer pre addr teid post) = XOk (be32 teid, Some addr).
Proof. exact transfer_extract_exact. Qed.
Print Assumptions c12_teid_and_upf_exact.

(* On any input whatsoever both extractions terminate (value, nil or panic — never out of fuel). *)
Theorem c12_nas_extraction_terminates : forall b, decode_nas_pdu b <> XFuel.
Proof. exact decode_nas_pdu_terminates. Qed.
Print Assumptions c12_nas_extraction_terminates.
Theorem c12_transfer_extraction_terminates : forall b, decode_transfer b <> XFuel.
Proof. exact decode_transfer_terminates. Qed.
Print Assumptions c12_transfer_extraction_terminates.

(* non-vacuity *)
Example c12_example :
  let pre := [TVn 89 [36]; TV1 8 1; TLV 34 [1;1;2;3]; TLVE 121 [1;2;3]] in
  forallb accept_opt_ok pre = true /\
  decode_nas_pdu (protected 2 [1;2;3;4] 7 (dl_nas_transport 1 (est_accept 10 0 17 [1;0;6;49;49;1;1;255;9] [1;0;100;1;0;100] pre [10;60;0;1] [37;2;1;97]) [18;10]))
    = XOk (Some [10;60;0;1]) /\
  decode_transfer (setup_request_transfer [(130, 0, [8;12;53;164;233;0;12;53;164;233;0])] [10;200;200;102] [0;0;0;1] [0;134;0;1;16])
    = XOk (1, Some [10;200;200;102]).
Proof. vm_compute. repeat split; reflexivity. Qed.
