(* C10 placeholder: statements follow *)
From Coq Require Import NArith List Bool.
Require Import Bytes Count NasSec RefNasPeer NasSecInst.
