(* C10 — Downlink NAS messages from a conformant AMF are recovered exactly.
   Statements only; proofs in Proofs/CountProofs.v, Proofs/NasSecProofs.v.
   Model: Model/Count.v, Model/NasSec.v (tglib.NASDecode as called by GetNasPdu: nas_decode, get_nas_pdu; histories: hrun).
   Specification: Spec/RefNasPeer.v (the AMF as a downlink sender: dl_send, dl_history, built on [protect] with DIRECTION = downlink).
   [enc] / [mac] stand for security.NASEncrypt / NASMacCalculate; the theorems hold for any two functions with
     mac_len4  the MAC has 4 octets                   (C07: c07_nas_mac_is_spec + eia1 / eia2 return 4 octets)
     enc_inv   deciphering inverts ciphering           (C07: c07_cipher_involutive, okp p := |p| < 536870909)
   The received MAC is computed but never compared by the code, so no hypothesis about MAC verification appears. *)
From Coq Require Import NArith List Bool.
Require Import Bytes Count NasSec RefNasPeer Security NasSecInst CountProofs NasSecProofs NasSecC07.
Require Import Concurrency Footprints AesStateless.
Import ListNotations.
Open Scope N_scope.

Definition alg := N -> list N -> N -> N -> N -> list N -> option (list N).

(* ---- (a) the COUNT estimate NASDecode forms (if SQN() > sqn { SetOverflow(Overflow()+1) }; SetSQN(sqn)), as
   arithmetic, for every stored value and every received sequence number *)
Theorem c10_estimate_arith :
  forall c s, c < 16777216 -> s < 256 ->
    cnt_estimate c s = ((if s <? c mod 256 then c / 256 + 1 else c / 256) mod 65536) * 256 + s.
Proof. exact cnt_estimate_arith. Qed.
Print Assumptions c10_estimate_arith.

(* it equals the sender's COUNT whenever that COUNT is 1..255 ahead of the stored one, modulo 2^24: the overflow
   counter is incremented exactly when the sequence number wraps, including the wrap of the overflow counter itself *)
Theorem c10_estimate_is_sender_count :
  forall c d, c < 16777216 -> 1 <= d -> d <= 255 ->
    cnt_estimate c (((c + d) mod 16777216) mod 256) = (c + d) mod 16777216.
Proof. exact cnt_estimate_advance. Qed.
Print Assumptions c10_estimate_is_sender_count.

(* a new-context header (Set(0,0) first) makes the estimate the message's sequence number with overflow 0,
   whatever was stored *)
Theorem c10_new_context_resets_estimate :
  forall c s, c < 16777216 -> s < 256 -> cnt_estimate (cnt_set c 0 0) s = s.
Proof. exact cnt_estimate_after_reset. Qed.
Print Assumptions c10_new_context_resets_estimate.

(* ---- (b) one message of the reference AMF: plain (header type 0), integrity protected (1, 3: in clear) or integrity
   protected and ciphered (2, 4), COUNT = last + d or 0 for a new context: the octets handed to the plain decoder are
   the plain message and DLCount becomes the AMF's COUNT *)
Theorem c10_message_recovered :
  forall (enc mac:alg) (okp:list N -> Prop) st plain hdr d c pkt,
    wf st -> ia st <> 0 -> dl_op_ok okp (plain, hdr, d) ->
    (forall c d m t, mac (ia st) (kint st) c 1 d m = Some t -> length t = 4%nat) ->
    (forall c d p q, okp p -> enc (ea st) (kenc st) c 1 d p = Some q -> enc (ea st) (kenc st) c 1 d q = Some p) ->
    dl_send enc mac (ctx_of st) (dl st) plain hdr d = (c, Some pkt) ->
    get_nas_pdu enc mac st pkt = (with_dl st c, Ok plain).
Proof. exact get_nas_pdu_recovers. Qed.
Print Assumptions c10_message_recovered.

(* ---- (c) ALL downlink histories (plain, hdr in 0..4, advance d in 1..255): after every message the recovered octets
   are the plain message the AMF protected, DLCount is the COUNT the AMF used for it, ULCount is untouched *)
Theorem c10_history_recovered :
  forall (enc mac:alg) (okp:list N -> Prop) (ops:dl_ops) st,
    wf st -> ia st <> 0 -> Forall (dl_op_ok okp) ops ->
    (forall c d m t, mac (ia st) (kint st) c 1 d m = Some t -> length t = 4%nat) ->
    (forall c d p q, okp p -> enc (ea st) (kenc st) c 1 d p = Some q -> enc (ea st) (kenc st) c 1 d q = Some p) ->
    let sent := dl_history enc mac (ctx_of st) (dl st) ops in
    all_some (map snd sent) ->
    hrun enc mac st (map (fun x => HRecv (unsome (snd x))) sent) = dl_expected (ul st) ops sent.
Proof. exact dl_history_recovered. Qed.
Print Assumptions c10_history_recovered.

(* the same for the algorithms the Go code calls (Model/Security.v), hypotheses discharged by C07
   (c07_mac_length = nas_mac_len4, c07_cipher_involutive = nas_encrypt_involutive) *)
Theorem c10_history_recovered_go :
  forall (ops:dl_ops) st,
    wf st -> key_ok (kenc st) = true -> ea st <= 2 -> ia st = 1 \/ ia st = 2 ->
    Forall (dl_op_ok short_enough) ops ->
    let sent := dl_history nas_encrypt nas_mac (ctx_of st) (dl st) ops in
    all_some (map snd sent) ->
    hrun nas_encrypt nas_mac st (map (fun x => HRecv (unsome (snd x))) sent) = dl_expected (ul st) ops sent.
Proof. exact dl_history_recovered_go. Qed.
Print Assumptions c10_history_recovered_go.

(* ---- non-vacuity *)
Example c10_hypotheses_satisfiable :
  (forall a k c b d m t, toy_mac a k c b d m = Some t -> length t = 4%nat) /\
  (forall a k c b d p q, toy_enc a k c b d p = Some q -> toy_enc a k c b d q = Some p).
Proof. exact (conj toy_mac_len4 toy_enc_inv). Qed.

(* the reference AMF with the 3GPP algorithms (Spec/TS33401B.v) against the model with the Go algorithms
   (Model/Security.v), a history that wraps the sequence number twice, crosses 2^24-1 -> 0 and takes a new context *)
Definition c10_k1 : bytes := [0;1;2;3;4;5;6;7;8;9;10;11;12;13;14;15].
Definition c10_k2 : bytes := [16;17;18;19;20;21;22;23;24;25;26;27;28;29;30;31].
Definition c10_msg : list N := [0x7e;0;0x5e;0x77;0;9;0x15;0x11;0;0;0;0;0;0;0].
Definition c10_ops : dl_ops :=
  [(c10_msg, 2, 200); ([0x7e;0;0x43], 1, 255); ([0x7e;0;0x55], 0, 9); (c10_msg, 2, 100); ([0x7e;0;0x43], 4, 1); (c10_msg, 2, 255)].
Definition c10_st0 : ue_state := mk_ue 5 (16777216 - 300) 2 2 c10_k1 c10_k2.
Example c10_history_instance :
  wf c10_st0 /\ ia c10_st0 <> 0 /\ Forall (dl_op_ok (fun _ => True)) c10_ops /\
  let sent := dl_history nea_s nia_s (ctx_of c10_st0) (dl c10_st0) c10_ops in
  map fst sent = [16777116; 155; 155; 255; 0; 255] /\
  hrun_x c10_st0 (map (fun x => HRecv (unsome (snd x))) sent) = dl_expected 5 c10_ops sent.
Proof.
  split; [split; vm_compute; reflexivity|].
  split; [vm_compute; discriminate|].
  split; [repeat constructor; vm_compute; try reflexivity; discriminate|].
  cbv zeta. split; vm_compute; reflexivity.
Qed.

(* recorded, outside the statement: the MAC of a received message is computed and a mismatch only printed *)
Example c10_wrong_mac_is_not_rejected :
  snd (get_nas_pdu_x (init_ue 2 2 c10_k1 c10_k2) [0x7e; 1; 0xde; 0xad; 0xbe; 0xef; 7; 0x7e; 0; 0x43]) = Ok [0x7e; 0; 0x43].
Proof. vm_compute. reflexivity. Qed.

(* the AES-based algorithms keep nothing between calls: reflective over the footprints REGENERATED from the current source
   (go/ssa: package-level variables written / read by everything statically reachable from NEA2 and NIA2) *)
Theorem c10_aes_algorithms_keep_no_package_state : family_stateless footprints aes_family = true.
Proof. exact nea2_nia2_keep_no_state. Qed.
Print Assumptions c10_aes_algorithms_keep_no_package_state.
