(* C20 — Codecs and security functions are safe to use concurrently for different UEs. Statements only.
   PARTIAL in the sense of DESIGN.md: the Go memory model and scheduler are not modelled; what is proved is the logic —
   (1) no operation family writes package-level state outside a critical section (reflective, over footprints extracted
       by go/ssa from the current source), (2) operations that share lock-protected state give, under EVERY schedule of
   their critical sections, the results each thread gets alone; the race detector and the stress run are the runtime
   evidence. *)
From Coq Require Import List String Bool Arith NArith.
Require Import Bytes Interleave InterleaveProofs Concurrency Footprints Snow3g Security ConcurrencyProofs.
Import ListNotations.

Theorem c20_no_shared_writes_outside_locks : footprints_ok footprints = true.
Proof. exact footprints_conform. Qed.
Print Assumptions c20_no_shared_writes_outside_locks.

(* generic: sections whose result does not depend on the incoming shared state commute with any interleaving *)
Theorem c20_interleaving_equals_sequential :
  forall (Shared Res:Type) (s0:Shared) sched (ts:list (list (section Shared Res))) s,
    (forall t, In t ts -> forall sec, In sec t -> reset_first Shared Res sec) ->
    let '(acc', ts', _) := exec Shared Res sched ts (map (fun _ => []) ts) s in
    (forall j, nth j ts' [] = []) ->
    forall j, nth j acc' [] = solo Shared Res s0 (nth j ts []).
Proof. exact interleaving_equals_sequential. Qed.
Print Assumptions c20_interleaving_equals_sequential.

(* instance: NEA1 / NIA1 / NASEncrypt / NASMacCalculate calls of any number of UEs, any schedule *)
Theorem c20_security_calls_interleave_safely :
  forall s0 sched (ts:list (list (section Snow3g.state sec_result))) s,
    (forall t, In t ts -> forall sec, In sec t -> sec_op sec) ->
    let '(acc', ts', _) := exec Snow3g.state sec_result sched ts (map (fun _ => []) ts) s in
    (forall j, nth j ts' [] = []) ->
    forall j, nth j acc' [] = solo Snow3g.state sec_result s0 (nth j ts []).
Proof. exact security_calls_interleave_safely. Qed.
Print Assumptions c20_security_calls_interleave_safely.

(* non-vacuity / necessity of the lock *)
Example c20_lock_is_needed :
  let alone := snd (GenerateKeystream (InitSnow3g zero_state k1 iv0) 2) in
  snd (GenerateKeystream (InitSnow3g (InitSnow3g zero_state k1 iv0) k2 iv0) 2) <> alone.
Proof. exact unlocked_schedule_goes_wrong. Qed.
