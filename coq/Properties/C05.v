(* C05 — 5G-AKA: RES* and the NAS key hierarchy equal what the network derives.
   Statements only; proofs live in Proofs/RanUeProofs.v.  E is ANY function from a key and a block to 16 octets
   (AES-128 in Milenage), H ANY function from a key and a message to 32 octets (HMAC-SHA-256 in TS 33.220 B.2);
   Crypto/AES.v and Crypto/SHA256.v when executed.  K / OPc / OP are the hex texts of config.yaml. *)
From Coq Require Import NArith ZArith List Bool.
Require Import Bytes BytesLemmas AES SHA256 TS35206 TS33501 Milenage WmnskMilenage Kdf RanUe MilenageProofs RanUeProofs.
Import ListNotations.
Open Scope N_scope.

Definition cipher16 (E:bytes -> bytes -> bytes) : Prop := forall k x, length (E k x) = 16%nat.
Definition mac32 (H:bytes -> bytes -> bytes) : Prop := forall k x, length (H k x) = 32%nat.
Definition digits (d:bytes) : Prop := forallb is_digit d = true.

(* With an OPc configured: what RegisterUE + DeriveRESstarAndSetKey return / install for a received (RAND, AUTN)
   is the network-side derivation (TS 35.206 f2-f4, TS 33.501 A.2 with P1 = AUTN[0..5] = SQN xor AK, A.4, A.6,
   A.7 with the IMSI digits and ABBA 0000, A.8), for MCC of 3 and MNC of 2 or 3 characters and SUPI "imsi-" + 5..15 digits *)
Theorem c05_keys_are_the_networks :
  forall E H, cipher16 E -> mac32 H ->
  forall ks opcs ops k opc rand autn mcc mnc d ea ia,
  hex_decode ks = Some k -> opcs <> [] -> hex_decode opcs = Some opc ->
  length k = 16%nat -> length opc = 16%nat -> length rand = 16%nat ->
  length mcc = 3%nat -> (length mnc = 2%nat \/ length mnc = 3%nat) ->
  digits d -> (5 <= length d)%nat -> (length d <= 15)%nat -> ea < 256 -> ia < 256 ->
  register_derive E H (s_imsi_dash ++ d) ea ia ks opcs ops autn rand mnc mcc
  = ue_of_keys (network_keys E H k opc rand (firstn 6 autn) mcc mnc d ea ia).
Proof. exact derive_is_network_opc. Qed.
Print Assumptions c05_keys_are_the_networks.

(* With only OP configured (opc: ""): the same with OPc = E_K(OP) xor OP *)
Theorem c05_keys_are_the_networks_op_only :
  forall E H, cipher16 E -> mac32 H ->
  forall ks ops k op rand autn mcc mnc d ea ia,
  hex_decode ks = Some k -> hex_decode ops = Some op ->
  length k = 16%nat -> length op = 16%nat -> length rand = 16%nat ->
  length mcc = 3%nat -> (length mnc = 2%nat \/ length mnc = 3%nat) ->
  digits d -> (5 <= length d)%nat -> (length d <= 15)%nat -> ea < 256 -> ia < 256 ->
  register_derive E H (s_imsi_dash ++ d) ea ia ks [] ops autn rand mnc mcc
  = ue_of_keys (network_keys E H k (opc_of E k op) rand (firstn 6 autn) mcc mnc d ea ia).
Proof. exact derive_is_network_op. Qed.
Print Assumptions c05_keys_are_the_networks_op_only.

(* op_equals_opc: OP-only configuration = configuring the corresponding OPc (whatever OP text accompanies it) *)
Theorem c05_op_equals_opc :
  forall E H, cipher16 E -> mac32 H ->
  forall ks ops opcs ops' k op rand autn mcc mnc d ea ia,
  hex_decode ks = Some k -> hex_decode ops = Some op -> opcs <> [] -> hex_decode opcs = Some (opc_of E k op) ->
  length k = 16%nat -> length op = 16%nat -> length rand = 16%nat ->
  length mcc = 3%nat -> (length mnc = 2%nat \/ length mnc = 3%nat) ->
  digits d -> (5 <= length d)%nat -> (length d <= 15)%nat -> ea < 256 -> ia < 256 ->
  register_derive E H (s_imsi_dash ++ d) ea ia ks [] ops autn rand mnc mcc
  = register_derive E H (s_imsi_dash ++ d) ea ia ks opcs ops' autn rand mnc mcc.
Proof. exact op_equals_opc. Qed.
Print Assumptions c05_op_equals_opc.

(* For the AUTN a conformant network builds from its SQN (TS 33.102 6.3.2) the UE holds exactly the keys the
   network derives from that SQN (A.2: P1 = SQN xor AK) *)
Theorem c05_keys_for_network_built_autn :
  forall E H, cipher16 E -> mac32 H ->
  forall ks opcs ops k opc rand sqn amf mcc mnc d ea ia,
  hex_decode ks = Some k -> opcs <> [] -> hex_decode opcs = Some opc ->
  length k = 16%nat -> length opc = 16%nat -> length rand = 16%nat -> length sqn = 6%nat ->
  length mcc = 3%nat -> (length mnc = 2%nat \/ length mnc = 3%nat) ->
  digits d -> (5 <= length d)%nat -> (length d <= 15)%nat -> ea < 256 -> ia < 256 ->
  register_derive E H (s_imsi_dash ++ d) ea ia ks opcs ops (autn E k opc rand sqn amf) rand mnc mcc
  = ue_of_keys (network_keys_sqn E H k opc rand sqn mcc mnc d ea ia).
Proof. exact derive_is_network_sqn. Qed.
Print Assumptions c05_keys_for_network_built_autn.

(* the pieces, each for all inputs: *)
(* GetKDFValue with L_i = KDFLen(P_i) (uint16 truncation included) is the TS 33.220 B.2 KDF *)
Theorem c05_kdf_is_ts33220 :
  forall H key fcs fc p0 p1, hex_decode fcs = Some [fc] ->
  GetKDFValue H key fcs [p0; KDFLen p0; p1; KDFLen p1] = kdf H key fc [p0; p1] /\
  GetKDFValue H key fcs [p0; KDFLen p0] = kdf H key fc [p0].
Proof. exact kdf12. Qed.
Print Assumptions c05_kdf_is_ts33220.

(* the SN name RegisterUE builds is "5G:mnc<3 digits>.mcc<mcc>.3gppnetwork.org", a 2-character MNC padded with 0 *)
Theorem c05_sn_name : forall mnc mcc, register_snName mnc mcc = snn mcc mnc.
Proof. exact register_snName_spec. Qed.
Print Assumptions c05_sn_name.

(* the regular expression of DerivateKamf yields all the digits of "imsi-" + 5..15 digits *)
Theorem c05_supi_digits :
  forall d, digits d -> (5 <= length d)%nat -> (length d <= 15)%nat -> supi_group1 (s_imsi_dash ++ d) = Some d.
Proof. exact supi_group1_imsi. Qed.
Print Assumptions c05_supi_digits.

(* the external Milenage library: RES, CK, IK, AK = f2, f3, f4, f5 and RES* = TS 33.501 A.4 *)
Theorem c05_wmnsk_f2345_is_ts35206 :
  forall E, cipher16 E -> forall m opc, validateLength m = true -> opc_of_wm E m = WOk opc -> length opc = 16%nat ->
  length (w_RAND m) = 16%nat ->
  wF2345 E m = WOk (f2 E (w_K m) opc (w_RAND m), f3 E (w_K m) opc (w_RAND m), f4 E (w_K m) opc (w_RAND m), f5 E (w_K m) opc (w_RAND m)).
Proof. exact wF2345_spec. Qed.
Print Assumptions c05_wmnsk_f2345_is_ts35206.
Theorem c05_wmnsk_resstar_is_ts33501 :
  forall H, mac32 H -> forall m res ck ik mcc mnc, validateLength m = true ->
  length mcc = 3%nat -> (length mnc = 2%nat \/ length mnc = 3%nat) ->
  ComputeRESStar H m res ck ik mcc mnc = WOk (skipn 16 (kdf H (ck ++ ik) 107 [snn mcc mnc; w_RAND m; res])).
Proof. exact ComputeRESStar_spec. Qed.
Print Assumptions c05_wmnsk_resstar_is_ts33501.

(* ---- non-vacuity: AES-128 and HMAC-SHA-256 made total satisfy the hypotheses on E and H; with them the shipped
   src/config.yaml (K, OPc, mcc 001, mnc 01, IMSI 001010000000001, NEA0/NIA2) and RAND/AUTN of TS 35.208 set 1 meet
   every hypothesis, and the model returns the values the Go code returns (harness `derive`). *)
Definition aes_t (k x:bytes) : bytes := let y := aes128 k x in if Nat.eqb (length y) 16 then y else repeat 0 16.
Definition hmac_t (k x:bytes) : bytes := let y := hmac_sha256 k x in if Nat.eqb (length y) 32 then y else repeat 0 32.
Example c05_primitives_fit : cipher16 aes_t /\ mac32 hmac_t.
Proof.
  split; intros k x; [unfold aes_t; generalize (aes128 k x)|unfold hmac_t; generalize (hmac_sha256 k x)]; intro y.
  - destruct (Nat.eqb (length y) 16) eqn:L; [apply Nat.eqb_eq; exact L|reflexivity].
  - destruct (Nat.eqb (length y) 32) eqn:L; [apply Nat.eqb_eq; exact L|reflexivity].
Qed.

Definition conf_k : bytes := [52;54;53;66;53;67;69;56;66;49;57;57;66;52;57;70;65;65;53;70;48;65;50;69;69;50;51;56;65;54;66;67].
Definition conf_opc : bytes := [69;56;69;68;50;56;57;68;69;66;65;57;53;50;69;52;50;56;51;66;53;52;69;56;56;69;54;49;56;51;67;65].
Definition conf_imsi : bytes := [48;48;49;48;49;48;48;48;48;48;48;48;48;48;49].
Definition autn_set1 : bytes := [85;243;40;180;53;119;185;185;74;159;250;195;84;223;175;179].
Example c05_hypotheses_met_config_yaml :
  hex_decode conf_k = Some k1 /\ conf_opc <> [] /\
  hex_decode conf_opc = Some [232;237;40;157;235;169;82;228;40;59;84;232;142;97;131;202] /\
  digits conf_imsi /\ Nat.leb 5 (length conf_imsi) = true /\ Nat.leb (length conf_imsi) 15 = true /\
  register_derive aes_t hmac_t (s_imsi_dash ++ conf_imsi) 0 2 conf_k conf_opc conf_opc autn_set1 rnd1 [48;49] [48;48;49]
  = UeOk {| ue_res_star := [7;62;34;87;149;248;216;180;144;217;43;115;185;5;197;250];
            ue_kamf := [4;28;118;235;79;189;249;208;178;67;126;40;62;80;198;160;143;149;12;12;178;141;19;113;221;3;109;138;100;142;187;179];
            ue_knasint := [2;241;137;46;204;32;39;137;126;234;18;43;31;57;38;123];
            ue_knasenc := [248;153;33;141;133;232;18;23;142;94;99;58;230;226;205;180] |}.
Proof. repeat split; try discriminate; vm_compute; reflexivity. Qed.
(* OP-only, 3-digit MNC, 5-digit SUPI, NEA2/NIA1, OP of TS 35.208 set 1 *)
Example c05_hypotheses_met_op_only :
  register_derive aes_t hmac_t (s_imsi_dash ++ [50;48;56;57;51]) 2 1 conf_k []
    [67;68;67;50;48;50;68;53;49;50;51;69;50;48;70;54;50;66;54;68;54;55;54;65;67;55;50;67;66;51;49;56] autn_set1 rnd1 [57;51;48] [50;48;56]
  = UeOk {| ue_res_star := [72;36;183;56;76;189;22;107;58;153;207;127;69;122;71;137];
            ue_kamf := [137;126;25;184;52;27;175;58;50;133;241;47;129;113;117;93;32;244;103;15;202;81;101;199;135;113;127;201;222;210;156;27];
            ue_knasint := [165;250;254;28;13;30;27;6;152;87;232;67;65;171;235;22];
            ue_knasenc := [189;245;61;209;101;111;6;92;64;194;198;131;143;164;69;70] |}.
Proof. vm_compute. reflexivity. Qed.
