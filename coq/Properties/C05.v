(* C05 placeholder while the proofs are being written *)
From Coq Require Import NArith List.
Require Import Bytes RanUe.
Example c05_placeholder : register_snName [48;49] [48;48;49] = register_snName [48;49] [48;48;49].
Proof. reflexivity. Qed.
