(* C02 — Session lifecycle for N UEs. Statements only.
   The process-level part (a conformant AMF/SMF accepts the messages; reported UE address / TEID / UPF address equal the
   assigned ones) is judged on every run by the reference AMF on the real process; the design-level deviations it finds
   (constant ngKSI / 5G-S-TMSI in Service Request, PTI 0 in release messages, session identities above 15, ReleasePDU never
   reading) are recorded known findings.  Exact extraction is C12; per-message protection is C06. *)
From Coq Require Import List String Bool Arith ZArith NArith.
Require Import DriverTypes DriverConv Lifecycle MainWiring LifecycleProofs RefNasPeer.
Import ListNotations.
Open Scope string_scope.

(* the Min() clamps of main(), for ANY five repetition counts (any integers): whenever a procedure is scheduled for UE
   index i, its prerequisite procedure is scheduled for the same index — and, from the order of the loops, earlier *)
Theorem c02_clamps_are_safe :
  forall cfg p q i, prerequisite p = Some q ->
    In (p, i) (schedule wiring_mode2 cfg) -> In (q, i) (schedule wiring_mode2 cfg).
Proof. exact (prerequisite_scheduled wiring_mode2 (proj1 wiring_clamps_ok) (proj2 wiring_clamps_ok)). Qed.
Print Assumptions c02_clamps_are_safe.

Theorem c02_loops_run_in_dependency_order : clamps_ok wiring_mode2 = true /\ unique_loops wiring_mode2 = true.
Proof. exact wiring_clamps_ok. Qed.
Print Assumptions c02_loops_run_in_dependency_order.

(* one PDU session identity in the NAS request / NAS transport header (uint8(pduId)) and in the NGAP response (pduId):
   the two agree exactly when SUPI mod 10^4 is at most 255 *)
Theorem c02_session_identity_consistent_iff :
  forall supi, (0 <= supi)%Z -> (ngap_session_id supi = Some (nas_session_id supi) <-> (supi mod 10000 <= 255)%Z).
Proof. exact session_id_consistent. Qed.
Print Assumptions c02_session_identity_consistent_iff.

(* ... so the statement as given is REFUTED for most IMSIs (recorded finding C02:session-id): IMSI ...0300 asks for
   NAS session 44 and an NGAP session identity 300, which the encoder refuses *)
Theorem c02_session_identity_refuted :
  exists supi, (0 <= supi)%Z /\ nas_session_id supi = 44%Z /\ ngap_session_id supi = None.
Proof. exists 208930000000300%Z. vm_compute. repeat split; discriminate. Qed.
Print Assumptions c02_session_identity_refuted.

(* across the life of a UE (one key: the first protected message takes the context into use, no later re-keying) no
   uplink NAS COUNT is used twice, for any number of messages up to 2^24 *)
Theorem c02_ul_count_never_reused :
  forall (rest:list bool) next,
    Forall (fun b => b = false) rest -> (N.of_nat (S (List.length rest)) <= 16777216)%N ->
    NoDup (ul_counts next (true :: rest)).
Proof. exact counts_never_reused. Qed.
Print Assumptions c02_ul_count_never_reused.

(* non-vacuity: counts above and below the number registered, negative counts *)
Example c02_schedules :
  let cfg a b c d e := [("Test_ue_registation", a); ("Test_ue_pdu_establishment", b); ("Test_ue_service", c); ("Test_ue_pdu_release", d); ("Test_ue_deregistration", e)]%Z in
  prereqs_met [] (schedule wiring_mode2 (cfg 2 5 1 9 7)%Z) = true /\
  prereqs_met [] (schedule wiring_mode2 (cfg 3 1 2 2 (-4))%Z) = true /\
  List.length (schedule wiring_mode2 (cfg 2 5 1 9 7)%Z) = 11%nat /\
  schedule wiring_mode2 (cfg (-1) 5 5 5 5)%Z = [].
Proof. vm_compute. repeat split; reflexivity. Qed.
