(* C01 — NG Setup + UE registration is accepted by a conformant AMF. Statements only.
   The theorem composes the models of CreateUE (C16), EncodeSuci (C11), DeriveRESstarAndSetKey (C05) and
   NASEncode/EncodeNasPduWithSecurity (C06) into the NAS side of RegisterUE (Model/Register.v) and runs the result
   through the reference AMF checker (Spec/RefAMF.v), for EVERY valid subscriber configuration, UE index and AMF
   choice.  E (Milenage kernel), H (HMAC-SHA-256) and the NAS algorithms are arbitrary functions with the stated
   properties (C07 provides them for the algorithms of Model/Security.v).  The NGAP side (mandatory IEs, identifiers,
   PLMN) is C13 / C11 / C18; on every run the real process is accepted by the independent reference AMF and its NAS
   PDUs are compared octet by octet with this model. *)
From Coq Require Import NArith ZArith List Bool.
Require Import Bytes AES SHA256 Hex Dec CreateUE SuciEnc RanUe NasSec RefNasPeer TS33501 TS35206 Register RefAMF RegisterProofs RegisterInst.
Require Import Security RegisterGo.
Import ListNotations.
Open Scope N_scope.

Theorem c01_registration_is_accepted :
  forall (E H : bytes -> bytes -> bytes) (enc mac : N -> list N -> N -> N -> N -> list N -> option (list N)),
    (forall k x, length (E k x) = 16%nat) -> (forall k x, length (H k x) = 32%nat) ->
    (* of the NAS algorithms only what concerns the pair CreateUE selects (5G-EA0, 128-5G-IA2) with 16-octet keys *)
    (forall k c d m t, mac 2 k c 1 d m = Some t -> length t = 4%nat) ->
    (forall k c d p q, enc 0 k c 1 d p = Some q -> enc 0 k c 1 d q = Some p) ->
    (forall kenc kint c hdr p, length kenc = 16%nat -> length kint = 16%nat ->
       protect enc mac (mk_ctx 0 2 kenc kint) UPLINK c hdr p <> None) ->
  forall mcc mnc msin ks opcs ops k opc idx rand sqn amff,
    (* valid configuration: IMSI = MCC (3 digits) MNC (2|3 digits) MSIN, at most 15 digits; K and OPc 16 octets of hex *)
    digits_ok mcc = true -> digits_ok mnc = true -> digits_ok msin = true ->
    length mcc = 3%nat -> (length mnc = 2%nat \/ length mnc = 3%nat) -> (1 <= length msin)%nat ->
    (length (mcc ++ mnc ++ msin) <= 15)%nat ->
    undec msin + idx < 10 ^ N.of_nat (length msin) ->                      (* the UE index fits the MSIN *)
    hex_decode ks = Some k -> opcs <> [] -> hex_decode opcs = Some opc -> length k = 16%nat -> length opc = 16%nat ->
    (* any AMF choice of RAND, SQN and AMF field *)
    length rand = 16%nat -> length sqn = 6%nat ->
    let g := {| g_imsi := to_ascii (mcc ++ mnc ++ msin); g_mcc := to_ascii mcc; g_mnc := to_ascii mnc; g_k := ks; g_opc := opcs; g_op := ops |} in
    let s := {| sub_mcc := mcc; sub_mnc := mnc; sub_msin := pad0 (length msin) (undec msin + idx); sub_k := k; sub_opc := opc |} in
    let ch := {| ch_rand := rand; ch_sqn := sqn; ch_amf := amff |} in
    exists o, register_ue E H enc mac g idx rand (amf_autn E s ch) = RegOk o
      (* SUCI identifies the subscriber, RES* = XRES*, SECURITY MODE COMPLETE under header type 4 with COUNT 0 and a valid
         MAC, REGISTRATION COMPLETE under header type 2 with COUNT 1 and a valid MAC: the AMF ends in Registered, expecting COUNT 2 *)
      /\ amf_registration E H enc mac s ch (o_regreq o) (o_authresp o) (o_smc_complete o) (o_reg_complete o) = Registered 2
      /\ o_supi o = ascii_imsi_dash ++ sub_imsi_ascii s
      /\ ul (o_final o) = 2.
Proof. exact registration_accepted. Qed.
Print Assumptions c01_registration_is_accepted.

(* the same for the algorithms the emulator really runs, no hypothesis left on them: AES-128 as the Milenage kernel
   (aes128_16 = aes128 on 16-octet keys, the only ones Go's aes.NewCipher accepts; K is 16 octets here), HMAC-SHA-256 as
   the KDF, and the models of the Go functions NASEncrypt / NASMacCalculate (= 128-NEA / 128-NIA by C07) on both sides *)
Theorem c01_registration_is_accepted_go :
  forall mcc mnc msin ks opcs ops k opc idx rand sqn amff,
    digits_ok mcc = true -> digits_ok mnc = true -> digits_ok msin = true ->
    length mcc = 3%nat -> (length mnc = 2%nat \/ length mnc = 3%nat) -> (1 <= length msin)%nat ->
    (length (mcc ++ mnc ++ msin) <= 15)%nat ->
    undec msin + idx < 10 ^ N.of_nat (length msin) ->
    hex_decode ks = Some k -> opcs <> [] -> hex_decode opcs = Some opc -> length k = 16%nat -> length opc = 16%nat ->
    length rand = 16%nat -> length sqn = 6%nat ->
    let g := {| g_imsi := to_ascii (mcc ++ mnc ++ msin); g_mcc := to_ascii mcc; g_mnc := to_ascii mnc; g_k := ks; g_opc := opcs; g_op := ops |} in
    let s := {| sub_mcc := mcc; sub_mnc := mnc; sub_msin := pad0 (length msin) (undec msin + idx); sub_k := k; sub_opc := opc |} in
    let ch := {| ch_rand := rand; ch_sqn := sqn; ch_amf := amff |} in
    exists o, register_ue aes128_16 hmac_sha256 nas_encrypt nas_mac g idx rand (amf_autn aes128_16 s ch) = RegOk o
      /\ amf_registration aes128_16 hmac_sha256 nas_encrypt nas_mac s ch (o_regreq o) (o_authresp o) (o_smc_complete o) (o_reg_complete o) = Registered 2
      /\ o_supi o = ascii_imsi_dash ++ sub_imsi_ascii s
      /\ ul (o_final o) = 2.
Proof. exact registration_accepted_go. Qed.
Print Assumptions c01_registration_is_accepted_go.

Theorem c01_aes128_16_is_aes128 : forall k x, length k = 16%nat -> aes128_16 k x = aes128 k x.
Proof. exact aes128_16_is_aes128. Qed.
Print Assumptions c01_aes128_16_is_aes128.

(* non-vacuity with the real algorithms: the shipped configuration (IMSI 001010000000001, K/OPc of src/config.yaml), UE index 1,
   RAND/SQN/AMF of TS 35.208 test set 1 *)
Example c01_shipped_configuration_registers :
  let g := {| g_imsi := to_ascii [0;0;1;0;1;0;0;0;0;0;0;0;0;0;1]; g_mcc := to_ascii [0;0;1]; g_mnc := to_ascii [0;1];
              g_k := hex_encode [70;91;92;232;177;153;180;159;170;95;10;46;226;56;166;188];
              g_opc := hex_encode [232;237;40;157;235;169;82;228;40;59;84;232;142;97;131;202]; g_op := [] |} in
  let s := {| sub_mcc := [0;0;1]; sub_mnc := [0;1]; sub_msin := [0;0;0;0;0;0;0;0;0;2];
              sub_k := [70;91;92;232;177;153;180;159;170;95;10;46;226;56;166;188];
              sub_opc := [232;237;40;157;235;169;82;228;40;59;84;232;142;97;131;202] |} in
  let ch := {| ch_rand := [35;85;60;190;150;55;168;157;33;138;230;77;174;71;191;53]; ch_sqn := [255;155;180;208;182;7]; ch_amf := [128;0] |} in
  match register_x g 1 (ch_rand ch) (amf_autn aes128 s ch) with
  | RegOk o => amf_registration_x s ch (o_regreq o) (o_authresp o) (o_smc_complete o) (o_reg_complete o) = Registered 2
  | RegFail _ => False end.
Proof. vm_compute. reflexivity. Qed.
