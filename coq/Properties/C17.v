(* C17 — Identifier conversion helpers produce the 3GPP encodings and invert exactly. Statements only.
   (PLMN: c17_plmn re-states the C11 result for PlmnIDToNas.) *)
From Coq Require Import NArith ZArith List Bool.
Require Import Bytes Dec Hex SuciEnc Suci SuciProofs Convert Convert3gpp ConvertProofs.
Import ListNotations.
Open Scope N_scope.

Theorem c17_plmn :
  forall mcc mnc, digits_ok mcc = true -> digits_ok mnc = true -> length mcc = 3%nat -> (length mnc = 2%nat \/ length mnc = 3%nat) ->
  exists o, plmn_encode mcc mnc = Some o /\ plmn_id_to_nas (to_ascii mcc) (to_ascii mnc) = Some o /\ plmn_decode o = Some (mcc, mnc).
Proof. intros mcc mnc H1 H2 H3 H4. destruct (plmn_announced mcc mnc [] H1 H2 H3 H4) as [o [A [_ [B D]]]]. exists o. auto. Qed.
Print Assumptions c17_plmn.

Theorem c17_snssai_sst_only :
  forall sst, (0 <= sst < 256)%Z -> snssai_decode (snssai_to_nas sst []) = Some (Z.to_N sst, None).
Proof. exact snssai_sst_only. Qed.
Print Assumptions c17_snssai_sst_only.

Theorem c17_snssai_sst_sd :
  forall sst a b c, (0 <= sst < 256)%Z -> a < 256 -> b < 256 -> c < 256 ->
  snssai_decode (snssai_to_nas sst (hex_encode [a; b; c])) = Some (Z.to_N sst, Some [a; b; c]).
Proof. exact snssai_sst_sd. Qed.
Print Assumptions c17_snssai_sst_sd.

(* every 24-bit AMF identifier splits into region (8) / set (10) / pointer (6) *)
Theorem c17_amf_id :
  forall v, v < 16777216 -> amf_id_to_nas (hex_encode (N_to_be 3 v)) = Some (amf_id_fields v).
Proof. exact amf_id_roundtrip. Qed.
Print Assumptions c17_amf_id.

Theorem c17_ipv4 : forall a, length a = 4%nat ->
  let '(b, l) := ip_to_ngap (Some a) None in ngap_to_ip b l = Some (Some a, None) /\ tla_decode b l = Some (TlaV4 a).
Proof. exact ip_v4_roundtrip. Qed.
Print Assumptions c17_ipv4.
Theorem c17_ipv6 : forall b, length b = 16%nat ->
  let '(o, l) := ip_to_ngap None (Some b) in ngap_to_ip o l = Some (None, Some b) /\ tla_decode o l = Some (TlaV6 b).
Proof. exact ip_v6_roundtrip. Qed.
Print Assumptions c17_ipv6.
Theorem c17_dual_stack : forall a b, length a = 4%nat -> length b = 16%nat ->
  let '(o, l) := ip_to_ngap (Some a) (Some b) in ngap_to_ip o l = Some (Some a, Some b) /\ tla_decode o l = Some (TlaBoth a b).
Proof. exact ip_dual_roundtrip. Qed.
Print Assumptions c17_dual_stack.

(* option lists of any length, contents of 0..255 octets *)
Theorem c17_pco_roundtrip : forall us, forallb wf_unit us = true -> pco_unmarshal (pco_marshal us) = POk us.
Proof. exact pco_roundtrip. Qed.
Print Assumptions c17_pco_roundtrip.
Theorem c17_pco_is_ts24008 : forall us, forallb wf_unit us = true ->
  pco_decode (pco_marshal us) = Some (map (fun u => (u_id u, u_contents u)) us).
Proof. exact pco_spec_reads. Qed.
Print Assumptions c17_pco_is_ts24008.

Theorem c17_dnn : forall d, (length d < 256)%nat -> dnn_unmarshal (dnn_marshal d) = Some d /\ dnn_lv_decode (dnn_marshal d) = Some d.
Proof. exact dnn_roundtrip. Qed.
Print Assumptions c17_dnn.

Example c17_nonvacuous :
  forallb wf_unit [{| u_id := 13; u_len := 0; u_contents := [] |}; {| u_id := 3; u_len := 4; u_contents := [8;8;8;8] |}] = true
  /\ amf_id_to_nas (hex_encode (N_to_be 3 13303362)) = Some (202, 1017, 2)     (* "cafe42" *)
  /\ snssai_to_nas 1 (hex_encode [1;2;3]) = [4;1;1;2;3].
Proof. vm_compute. repeat split; reflexivity. Qed.
