(* C18 — Configuration file and command line reach the procedures unchanged. Statements only.
   conf_tags (reflection over stgutg.Conf) and wiring_mode1/2 (go/ast over main()) are REGENERATED from the
   current source on every run; documented_keys / documented_mode are the hand-written specification. *)
From Coq Require Import List String Bool Arith.
From Coq Require ZArith.
Require Import DriverTypes DriverConv ConfigDoc Config ConfTags MainWiring ConfigProofs Lifecycle ConfigLoops ConfigLoopsProofs MinFn MinFnProofs.
Import ListNotations.
Open Scope string_scope.

(* the struct tags are exactly the 24 documented keys, each on a field of the documented kind, and every
   call site in main() passes the documented field in the documented argument position *)
Theorem c18_tags_and_wiring_conform : doc_ok conf_tags [wiring_mode1; wiring_mode2] = true.
Proof. exact tags_and_wiring_ok. Qed.
Print Assumptions c18_tags_and_wiring_conform.

(* for ANY configuration file (any values, any order of keys; one value per key) and every documented key:
   every call of every consuming procedure, in both modes, receives exactly the value written in the file *)
Theorem c18_value_reaches_procedure :
  forall file key kind consumers v proc pos w cl,
    In (key, kind, consumers) documented_keys -> In (CArg proc pos) consumers -> proc <> "net.InterfaceByName" ->
    In w [wiring_mode1; wiring_mode2] -> In cl (calls_of w proc) ->
    file_wf file -> In (key, v) file ->
    exists a, nth_error (c_args cl) pos = Some a /\ arg_value (load conf_tags file) a = Some v.
Proof. exact value_reaches_procedure. Qed.
Print Assumptions c18_value_reaches_procedure.

(* UE count and the five repetition counts bound the loops of the documented procedures *)
Theorem c18_counts_bound_the_loops :
  forallb (loop_ok conf_tags wiring_mode2) documented_loops_test_mode = true
  /\ loop_ok conf_tags wiring_mode1 documented_loop_traffic_mode = true.
Proof. exact loops_ok. Qed.
Print Assumptions c18_counts_bound_the_loops.

(* ... and exactly: for EVERY configuration (any integers), the loop that repeats each test-mode procedure runs
   min(documented keys of that test) times — the regenerated bound is a min-tree over exactly the fields of those keys,
   no other key limits it (reflective over Gen/MainWiring.v and Gen/ConfTags.v + the generic lemma repetitions_exact) *)
Theorem c18_test_mode_repetitions :
  forall (c:cfgmap) proc keys, In (proc, keys) documented_repetitions_test_mode ->
  exists fs b n, fields_of_keys conf_tags keys = Some fs /\ loop_bound wiring_mode2 proc = Some b /\
                 eval_bound c b = Some n /\ is_min_of c fs n.
Proof. exact test_mode_repetitions. Qed.
Print Assumptions c18_test_mode_repetitions.

(* command line: traffic mode with no argument, test mode with -t only, anything else no mode (for every argv) *)
Theorem c18_mode_table : forall argv, mode_of_nat (get_mode argv) = documented_mode argv.
Proof. exact mode_table. Qed.
Print Assumptions c18_mode_table.

Example c18_nonvacuous :
  let file := [("mnc", "93"); ("k", "8baf473f2f8fd09487cccbd7097c6862"); ("sst", "1")] in
  get (load conf_tags file) "Mnc" = Some "93" /\ get (load conf_tags file) "K" = Some "8baf473f2f8fd09487cccbd7097c6862"
  /\ List.length (calls_of wiring_mode2 "stgutg.RegisterUE") = 1 /\ get_mode ["-t"] = 2 /\ get_mode ["-t"; "x"] = 0 /\ get_mode ["-T"] = 0.
Proof. vm_compute. repeat split; reflexivity. Qed.

(* the function those loop bounds are computed with — stgutg.Min, whose body is REGENERATED as Gen/MinFn.v — returns the
   minimum of its arguments for all integers (no arithmetic on the arguments, hence no overflow): the meaning Z.min that
   eval_bound gives to a BMin node is the meaning of the source *)
Theorem c18_min_is_the_minimum :
  go_Min_recognised = true /\ go_Min_overflow_free = true /\ forall x y : BinNums.Z, go_Min x y = BinInt.Z.min x y.
Proof. exact (conj (proj1 go_min_translated) (conj (proj2 go_min_translated) go_min_is_min)). Qed.
Print Assumptions c18_min_is_the_minimum.
