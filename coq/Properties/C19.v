(* C19 — Fail-stop when the AMF disappears or answers garbage. Statements only.
   The conversation is DERIVED from the regenerated wiring of main() (test mode) and the regenerated driver
   skeletons; [cfg] is any assignment of the five repetition counts (any integers). *)
From Coq Require Import List String Bool Arith ZArith.
Require Import DriverTypes Driver DriverConv DriverSkel MainWiring DriverProofs DriverGenProofs.
Import ListNotations.
Open Scope string_scope.

(* every Write/Read result of every procedure driver reaches ManageError; every Decoder result too, except the
   one after Registration Complete; no statement outside the recognised shapes (reflective, over the source as it is now) *)
Theorem c19_every_io_result_is_checked : forallb skeleton_ok driver_skeletons = true.
Proof. exact skeletons_ok. Qed.
Print Assumptions c19_every_io_result_is_checked.

(* the connection closes after the j-th uplink message arrived, k downlink messages still being readable (queued
   ones, or the part of the answer that was sent) — any j, k after which the emulator still writes or reads past them:
   the process stops with exit status 1 at an event of the conversation — before its end, hence before the
   completion banner — in a number of steps bounded by the length of the conversation *)
Theorem c19_close_is_fail_stop :
  forall cfg j k,
    io_after_w (conversation_of driver_skeletons wiring_mode2 cfg) j k = true ->
    exists m, run (FClose j k) (conversation_of driver_skeletons wiring_mode2 cfg) pst0 0 = Exit1 m
              /\ m < List.length (conversation_of driver_skeletons wiring_mode2 cfg).
Proof. exact test_mode_close_fail_stop. Qed.
Print Assumptions c19_close_is_fail_stop.

(* the reply to the j-th uplink message is undecodable (q earlier downlink messages still unread): if the
   emulator consumes that reply with a checked decode, it stops with exit status 1 *)
Theorem c19_garbage_is_fail_stop :
  forall cfg j q,
    reply_consumed (conversation_of driver_skeletons wiring_mode2 cfg) j q = true ->
    exists m, run (FGarbage j q) (conversation_of driver_skeletons wiring_mode2 cfg) pst0 0 = Exit1 m.
Proof. exact test_mode_garbage_fail_stop. Qed.
Print Assumptions c19_garbage_is_fail_stop.

(* generic form: any conversation assembled from checked skeletons *)
Theorem c19_close_generic :
  forall evs j k, wr_checked evs = true -> io_after_w evs j k = true ->
  exists m, run (FClose j k) evs pst0 0 = Exit1 m /\ m < List.length evs.
Proof. exact close_fail_stop. Qed.
Print Assumptions c19_close_generic.

(* non-vacuity: one UE through all five procedures = 15 uplink messages; a close at any of the first 14 and
   garbage in answer to every request whose reply is consumed stop the run; after the 15th nothing is read *)
Definition cfg_one_ue : cfgmap :=
  [("Test_ue_registation",1%Z);("Test_ue_pdu_establishment",1%Z);("Test_ue_service",1%Z);("Test_ue_pdu_release",1%Z);("Test_ue_deregistration",1%Z)].
Example c19_one_ue :
  let conv := conversation_of driver_skeletons wiring_mode2 cfg_one_ue in
  count_w conv = 15 /\
  forallb (fun j => io_after_w conv j 0) (seq 0 14) = true /\ io_after_w conv 14 0 = false /\ io_after_w conv 13 1 = true /\
  forallb (fun j => reply_consumed conv j 0) [0;1;2;3;6;8] = true /\
  run FNone conv pst0 0 = Completed.
Proof. vm_compute. repeat split; reflexivity. Qed.
