(* C16 — Emulated UEs have distinct identities derived from the configured IMSI.
   Statements only; proofs live in Proofs/. *)
From Coq Require Import NArith List Bool.
Require Import Dec CreateUE UeIdentity DecProofs CreateUEProofs.
Import ListNotations.
Open Scope N_scope.

(* distinct indices give distinct SUPIs (any IMSI string, any indices) *)
Theorem c16_supi_pairwise_distinct :
  forall imsi i j, i <> j -> u_supi (create_ue imsi i) <> u_supi (create_ue imsi j).
Proof. exact supi_distinct. Qed.
Print Assumptions c16_supi_pairwise_distinct.

(* any two UEs of a population of at most 10 000 have distinct RAN-UE-NGAP-IDs *)
Theorem c16_ranid_pairwise_distinct :
  forall imsi i j, i < j -> j < i + 10000 -> u_ranid (create_ue imsi i) <> u_ranid (create_ue imsi j).
Proof. exact ranid_distinct. Qed.
Print Assumptions c16_ranid_pairwise_distinct.

(* while the MSIN digits can accommodate the index, the SUPI is "imsi-" MCC MNC (unchanged) MSIN+i,
   with the configured number of digits *)
Theorem c16_supi_stays_in_plmn :
  forall pre msin i,
    digits_ok pre = true -> digits_ok msin = true -> (1 <= length msin)%nat ->
    undec msin + i < 10 ^ N.of_nat (length msin) ->
    u_supi (create_ue (to_ascii (pre ++ msin)) i)
      = ascii_imsi_dash ++ to_ascii pre ++ to_ascii (pad0 (length msin) (undec msin + i))
    /\ length (u_supi (create_ue (to_ascii (pre ++ msin)) i)) = (5 + length (pre ++ msin))%nat.
Proof. intros; split; [apply supi_in_plmn | apply supi_length]; assumption. Qed.
Print Assumptions c16_supi_stays_in_plmn.

(* the advertised capability names exactly the algorithms the UE context uses *)
Theorem c16_capability_is_exact :
  forall ea ia, ea < 4 -> ia < 4 -> advertises_exactly (sec_cap ea ia) ea ia = true.
Proof. exact sec_cap_exact. Qed.
Print Assumptions c16_capability_is_exact.

Theorem c16_created_ue_advertises_its_algorithms :
  forall imsi i, let u := create_ue imsi i in advertises_exactly (sec_cap (u_ea u) (u_ia u)) (u_ea u) (u_ia u) = true.
Proof. intros. apply sec_cap_exact; cbn; reflexivity. Qed.
Print Assumptions c16_created_ue_advertises_its_algorithms.

(* non-vacuity: the shipped configuration's IMSI 208930000000003 (MCC 208, MNC 93) with 10 000 UEs *)
Example c16_hypotheses_met :
  let pre := [2;0;8;9;3] in let msin := [0;0;0;0;0;0;0;0;0;3] in
  digits_ok pre = true /\ digits_ok msin = true /\ Nat.leb 1 (length msin) = true /\
  undec msin + 9999 < 10 ^ N.of_nat (length msin) /\
  u_supi (create_ue (to_ascii (pre ++ msin)) 9999) = ascii_imsi_dash ++ to_ascii [2;0;8;9;3;0;0;0;0;0;1;0;0;0;2].
Proof. cbv zeta. repeat split; vm_compute; reflexivity. Qed.
