(* C07 — NAS ciphering and integrity algorithms are the 3GPP 128-NEA/NIA algorithms.
   Statements only; proofs live in Proofs/Snow3gProofs.v, Proofs/SecProofs.v, Proofs/SecNia1.v, Proofs/SecAesLen.v.
   Model: Model/Snow3g.v, Model/Security.v (the Go code).  Specification: Spec/Snow3gSpec.v (TS 35.215/35.216),
   Spec/TS33401B.v (TS 33.401 Annex B, TS 33.501 Annex D). *)
From Coq Require Import NArith List Bool.
Require Import Bytes AES Modes Snow3gTables Snow3g Security Snow3gSpec TS33401B.
Require Import Snow3gBits Snow3gProofs SecAesLen SecProofs SecNia1.
Require Import Concurrency Footprints AesStateless.
Import ListNotations.
Open Scope N_scope.

(* ---- (a) the tables carried by snow3g.go are the algebraically defined S-boxes, all 256 entries *)
Theorem c07_sbox_tables :
  sr_table = map S_R_alg (map N.of_nat (seq 0 256)) /\ sq_table = map S_Q_alg (map N.of_nat (seq 0 256)).
Proof. exact (conj sr_table_is_S_R sq_table_is_S_Q). Qed.
Print Assumptions c07_sbox_tables.

(* MULalpha / DIValpha as the code computes them (mulxPow recursion on bytes), all 256 arguments *)
Theorem c07_mulalpha_divalpha :
  forall c, c < 256 -> mulAlpha c = MULalpha c /\ divAlpha c = DIValpha c.
Proof. intros c H. exact (conj (mulAlpha_is_MULalpha c H) (divAlpha_is_DIValpha c H)). Qed.
Print Assumptions c07_mulalpha_divalpha.

(* ---- (b) InitSnow3g + GenerateKeystream on the package state = the keystream of TS 35.216,
   for every previous state, key words, IV words and number of words *)
Theorem c07_snow3g_model_is_spec :
  forall st k iv n, snd (GenerateKeystream (InitSnow3g st k iv) n) = snow3g_keystream k iv n.
Proof. exact snow3g_model_is_spec. Qed.
Print Assumptions c07_snow3g_model_is_spec.

(* ---- (c) NEA1 as called by NASEncrypt (length = 8 * len) is 128-EEA1 for EVERY message length
   (empty included), any key octets, COUNT, BEARER < 32, DIRECTION < 2.  The bound is where uint32(len)*8+31 wraps. *)
Theorem c07_nea1_is_eea1 :
  forall st ck count bearer dir ibs,
    bearer < 32 -> dir < 2 -> N.of_nat (length ibs) < 536870909 ->
    snd (NEA1 st ck count bearer dir ibs (8 * N.of_nat (length ibs))) = SOk (eea1 ck count bearer dir ibs).
Proof. exact NEA1_is_eea1. Qed.
Print Assumptions c07_nea1_is_eea1.

(* the same, spelled with the keystream octets: output = msg xor (first |msg| octets of the SNOW 3G keystream) *)
Theorem c07_nea1_is_xor_with_keystream :
  forall st ck count bearer dir ibs,
    bearer < 32 -> dir < 2 -> N.of_nat (length ibs) < 536870909 ->
    snd (NEA1 st ck count bearer dir ibs (8 * N.of_nat (length ibs)))
    = SOk (xor_bytes ibs (firstn (length ibs)
             (words_to_bytes (snow3g_keystream (key_words ck) (f8_iv count bearer dir) (Nat.div (length ibs + 3) 4))))).
Proof. exact NEA1_is_xor_firstn. Qed.
Print Assumptions c07_nea1_is_xor_with_keystream.

(* ---- (d) NEA2 = 128-EEA2, NIA2 = 128-EIA2 for any block cipher *)
Theorem c07_nea2_is_eea2 :
  forall (E:bytes -> bytes -> bytes) key count bearer dir ibs,
    bearer < 32 -> dir < 2 -> NEA2 E key count bearer dir ibs = SOk (eea2 E key count bearer dir ibs).
Proof. exact NEA2_is_eea2. Qed.
Print Assumptions c07_nea2_is_eea2.

Theorem c07_nia2_is_eia2 :
  forall (E:bytes -> bytes -> bytes) key count bearer dir msg,
    bearer < 32 -> dir < 2 -> NIA2 E key count bearer dir msg = SOk (eia2 E key count bearer dir msg).
Proof. exact NIA2_is_eia2. Qed.
Print Assumptions c07_nia2_is_eia2.

(* ---- (e) NIA1 as called by NASMacCalculate is 128-EIA1 for every non-empty message of octets *)
Theorem c07_nia1_is_eia1 :
  forall st ik count bearer dir msg,
    bearer < 32 -> dir < 2 -> count < 4294967296 -> bytes_ok ik = true -> bytes_ok msg = true ->
    msg <> [] -> N.of_nat (length msg) < 2305843009213693944 ->
    snd (NIA1 st ik count bearer dir msg (8 * N.of_nat (length msg))) = SOk (eia1 ik count bearer dir msg).
Proof. exact NIA1_is_eia1. Qed.
Print Assumptions c07_nia1_is_eia1.

(* ---- the entry points other modules use *)
(* ciphering: identifiers 0, 1, 2 do what TS 33.501 Annex D says *)
Theorem c07_nas_encrypt_is_spec :
  forall alg key count bearer dir msg,
    key_ok key = true -> alg <= 2 -> bearer < 32 -> dir < 2 -> N.of_nat (length msg) < 536870909 ->
    nas_encrypt alg key count bearer dir msg = nea_spec aes128 alg key count bearer dir msg.
Proof. exact nas_encrypt_is_spec. Qed.
Print Assumptions c07_nas_encrypt_is_spec.

(* integrity: identifiers 1 and 2 *)
Theorem c07_nas_mac_is_spec :
  forall alg key count bearer dir msg,
    key_ok key = true -> bytes_ok key = true -> bytes_ok msg = true -> alg = 1 \/ alg = 2 ->
    bearer < 32 -> dir < 2 -> count < 4294967296 -> msg <> [] -> N.of_nat (length msg) < 2305843009213693944 ->
    nas_mac alg key count bearer dir msg = nia_spec aes128 alg key count bearer dir msg.
Proof. exact nas_mac_is_spec. Qed.
Print Assumptions c07_nas_mac_is_spec.

(* a MAC that is returned is four octets *)
Theorem c07_mac_length :
  forall alg key count bearer dir msg t,
    nas_mac alg key count bearer dir msg = Some t -> alg = 1 \/ alg = 2 -> length t = 4%nat.
Proof. exact nas_mac_len4. Qed.
Print Assumptions c07_mac_length.

(* NEA0 leaves the message unchanged *)
Theorem c07_nea0_identity :
  forall key count bearer dir msg,
    key_ok key = true -> bearer < 32 -> dir < 2 -> nas_encrypt 0 key count bearer dir msg = Some msg.
Proof. exact nas_encrypt_nea0_identity. Qed.
Print Assumptions c07_nea0_identity.

(* applying the cipher twice with the same parameters restores the input *)
Theorem c07_cipher_involutive :
  forall alg key count bearer dir msg ct,
    key_ok key = true -> alg <= 2 -> bearer < 32 -> dir < 2 -> N.of_nat (length msg) < 536870909 ->
    nas_encrypt alg key count bearer dir msg = Some ct -> nas_encrypt alg key count bearer dir ct = Some msg.
Proof. exact nas_encrypt_involutive. Qed.
Print Assumptions c07_cipher_involutive.

(* every octet of the message is covered by keystream: the output has the length of the message and octet p is
   msg[p] xor K[p], where K depends on key, COUNT, BEARER, DIRECTION and the length only and is long enough *)
Theorem c07_every_octet_covered :
  forall alg key count bearer dir msg,
    key_ok key = true -> alg = 1 \/ alg = 2 -> bearer < 32 -> dir < 2 -> N.of_nat (length msg) < 536870909 ->
    exists ct, nas_encrypt alg key count bearer dir msg = Some ct /\ length ct = length msg /\
               (length msg <= length (nea_keystream alg key count bearer dir (length msg)))%nat /\
               forall p, (p < length msg)%nat ->
                         nth p ct 0 = N.lxor (nth p msg 0) (nth p (nea_keystream alg key count bearer dir (length msg)) 0).
Proof. exact nas_encrypt_covers_every_octet. Qed.
Print Assumptions c07_every_octet_covered.

(* the result is a function of the arguments only: whatever earlier calls left in snow3g.lfsr / snow3g.fsm *)
Theorem c07_state_independent :
  (forall s s' ck count bearer dir ibs len,
      snd (NEA1 s ck count bearer dir ibs len) = snd (NEA1 s' ck count bearer dir ibs len)) /\
  (forall s s' ik count bearer dir msg len,
      snd (NIA1 s ik count bearer dir msg len) = snd (NIA1 s' ik count bearer dir msg len)) /\
  (forall E s s' alg key count bearer dir payload,
      snd (NASEncrypt E s alg key count bearer dir payload) = snd (NASEncrypt E s' alg key count bearer dir payload)) /\
  (forall E s s' alg key count bearer dir msg,
      snd (NASMacCalculate E s alg key count bearer dir msg) = snd (NASMacCalculate E s' alg key count bearer dir msg)).
Proof.
  exact (conj NEA1_state_independent (conj NIA1_state_independent
        (conj NASEncrypt_state_independent NASMacCalculate_state_independent))).
Qed.
Print Assumptions c07_state_independent.

(* outside the claim: NEA3/NIA3, unknown identifiers, BEARER > 31, DIRECTION > 1 are refused with an error *)
Theorem c07_refused :
  forall alg key count bearer dir msg,
    2 < alg \/ 31 < bearer \/ 1 < dir ->
    nas_encrypt alg key count bearer dir msg = None /\ nas_mac alg key count bearer dir msg = None.
Proof. intros. split; [apply nas_encrypt_refused | apply nas_mac_refused]; assumption. Qed.
Print Assumptions c07_refused.

(* ---- non-vacuity: the hypotheses are met by the published test data and the results are the published ones *)
Example c07_hypotheses_met_eea2_set1 :
  let key := ts33401_k1 in
  key_ok key = true /\ bytes_ok key = true /\ 0x15 < 32 /\ 1 < 2 /\
  nas_encrypt 2 key 0x398A59B4 0x15 1 [0x98;0x1B;0xA6;0x82;0x4C;0x1B;0xFB;0x1A] = Some [0xE9;0xFE;0xD8;0xA6;0x3D;0x15;0x53;0x04].
Proof. cbv zeta. repeat split; vm_compute; reflexivity. Qed.
Example c07_nea1_on_uea2_set1 :
  key_ok uea2_ts1_key = true /\
  option_map (firstn 99) (nas_encrypt 1 uea2_ts1_key 0x72A4F20F 0x0C 1 uea2_ts1_pt) = Some (firstn 99 uea2_ts1_ct).
Proof. split; vm_compute; reflexivity. Qed.
Example c07_nia2_on_eia2_set2 :
  nas_mac 2 ts33401_k1 0x398A59B4 0x1A 1 [0x48;0x45;0x83;0xD5;0xAF;0xE0;0x82;0xAE] = Some [0xB9;0x37;0x87;0xE6].
Proof. vm_compute. reflexivity. Qed.
(* a length that is a multiple of four octets (the class the historical defect lived in) and a dirty previous state *)
Example c07_len_multiple_of_4_dirty_state :
  let k := ts33401_k1 in
  snd (NASEncrypt aes128 (dirty_state zero_state) 1 k 5 1 0 (Some [0;0;0;0;0;0;0;0]))
  = SOk (eea1 k 5 1 0 [0;0;0;0;0;0;0;0]) /\ eea1 k 5 1 0 [0;0;0;0;0;0;0;0] <> [0;0;0;0;0;0;0;0].
Proof. cbv zeta. split; [vm_compute; reflexivity | vm_compute; discriminate]. Qed.
Example c07_nia1_hypotheses_met :
  let k := ts33401_k1 in let m := [1;2;3;4;5;6;7;8;9] in
  key_ok k = true /\ bytes_ok k = true /\ bytes_ok m = true /\ m <> [] /\
  nas_mac 1 k 7 3 1 m = Some (eia1 k 7 3 1 m).
Proof. cbv zeta. repeat split; try (vm_compute; reflexivity). discriminate. Qed.

(* the AES-based algorithms keep nothing between calls: reflective over the footprints REGENERATED from the current source
   (go/ssa: package-level variables written / read by everything statically reachable from NEA2 and NIA2) *)
Theorem c07_aes_algorithms_keep_no_package_state : family_stateless footprints aes_family = true.
Proof. exact nea2_nia2_keep_no_state. Qed.
Print Assumptions c07_aes_algorithms_keep_no_package_state.
