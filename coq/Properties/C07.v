(* C07 placeholder (being filled) *)
From Coq Require Import NArith List Bool.
Require Import Bytes AES Modes Snow3g Security Snow3gSpec TS33401B.
Import ListNotations.
Open Scope N_scope.
Example c07_placeholder : nas_encrypt 0 (repeat 0 16) 0 0 0 [1] = Some [1].
Proof. vm_compute. reflexivity. Qed.
