(* C14 - NGAP decoding is total: value or error, never a panic, a hang or an unbounded allocation.
   Statements only; proofs in Proofs/AperDecProofs.v.

   Proved for all inputs: with the cursor invariant
       dinv s  :=  byteOffset <= len /\ bitsOffset < 8 /\ (bitsOffset > 0 -> byteOffset < len) /\ len < 2^32
   every primitive reader of aper.go (GetBitString, GetBitsValue, getBitString, getBitsValue, parseAlignBits,
   parseConstraintValue, parseLength, parseBool, parseEnumerated, getChoiceIndex, parseInteger) returns a value or an
   error - never Panic, never OutOfFuel - and re-establishes the invariant on the same buffer.  This covers the
   only panic the pinned tree had (zero-bit read, fixed by 1966540: [GetBitString] with numBits = 0 returns []).

   Proved for all inputs as well (Proofs/AperTotalPrim.v, AperTotalField.v, AperTotalNgap.v):
     - parseOctetString / parseBitString (fixed size, constrained, unconstrained and fragmented forms) and the
       open-type fragment loop: value or error, cursor invariant kept, cursor never moves backwards, the fuel
       S (length bytes) of the fragment loops is never exhausted (each further fragment costs >= 8 bits);
     - parseField / parseSequenceOf / parseOpenType / struct and CHOICE decoding by induction on the fuel, for every
       type satisfying the decidable condition wf_ty (SIZE lower bounds in 0..2^32-1, CHOICE structs start with an
       int, open-type reference fields are INTEGER wrappers): never Panic with any fuel, never OutOfFuel with
       fuel >= ty_depth t;
     - wf_ty holds of every root of the regenerated NGAP schema (vm_compute), hence [c14_decode_total].
   Hypotheses on the input: every element of the byte string is an octet (< 256) and len < 2^32.

   Allocation (Proofs/AperTotalAlloc.v), in terms of the model's reflect.MakeSlice counter [unmarshal_alloc]:
     - proved for every well-formed type whose list elements consume input ([cons_ok], decidable):
         a successful parseField reserves at most  lcoef t  octets per input bit it consumed (a completed list has
         parsed one element, hence at least one bit, per slot it reserved);
         a failing one at most  chain t + lcoef t * (bits left)  where chain t is the worst sum, along one path of
         the type, of  count_ub p * sizeof(elem)  (count_ub: the largest count the <=16-bit / one-octet count field
         can produce, independent of the input);
     - computed over the regenerated schema (vm_compute): cons_ok holds of every root, max chain = 16 252 872 octets
       (NGAPPDU: PWSCancelResponseIEs 65535 x 56 -> TAICancelledEUTRAItem 65536 x 88 -> CancelledCellsInTAIEUTRAItem
       65536 x 80 -> EUTRACGIExtIEs 65536 x 24), max lcoef = 304 octets per bit;
     - hence [c14_decode_alloc_bounded]: alloc <= 16 252 872 + 2432 * |bs| for every root, input and fuel.
       (So "a few MiB" of the property text is 15.5 MiB + 2.4 KiB per input octet; c14_overclaim_example shows a
       7-octet input that reserves 3.67 MB, reproduced by the implementation.)

   Time ("never a hang") as a bound on the work done (Model/AperDecCost.v, Proofs/AperCostErase.v, AperCostPrim.v,
   AperCostField.v, AperCostNgap.v):
     - Model/AperDecCost.v is a step-counting copy of the decoder model, clause by clause.  One step is: a call of
       parseField; a call of pd.getBitsValue / pd.getBitString (+ the octets of the bit string it builds, which bounds
       the loops inside GetBitString / GetBitsValue); a direct octet read; an iteration of the bit-width / byteLen loops;
       a turn of the fragment loops of parseBitString / parseOctetString / parseOpenType (+ the octets appended; the
       fixed-size forms: 1 + the octets sliced); a turn of the element loop of parseSequenceOf; per struct: one per field
       for the tag loop, a turn of the field loop, of the alternative search, of the reference-name search, a call of
       getReferenceFieldValue.  Not counted: the strings perTrace / perBitLog format and drop, reflect bookkeeping,
       parseFieldParameters on the constant tags, the runtime clearing what reflect.MakeSlice reserves (bounded by
       the allocation theorem below) and append's amortised regrowth.
     - [c14_steps_same_result]: dropping the counter gives back Model/AperDec.v - same value, same cursor, same error,
       for all inputs and all fuel - so the streams that tie the model to the implementation tie the counted run too.
     - [c14_parseFieldC_steps]: for every well-formed type whose list elements consume input (wf_ty, cons_ok as for the
       allocation bound): a successful parseField takes at most  kost t + lstep t * (bits consumed)  steps, a failing
       one at most  kost t + lstep t * (bits left).  kost: what is spent whatever the input (sum over SEQUENCE fields,
       maximum over CHOICE alternatives, one failing element per list); lstep: steps per input bit, for a list
       1 + kost elem + lstep elem, because every decoded element has consumed at least one bit (cons_ok holds of every
       NGAP root: c14_ngap_lists_consume - there is no NGAP list whose element can be decoded from zero bits), so an
       element loop makes at most one turn per input bit plus the turn that fails; a fragment loop goes round again only
       after a fragment of >= 16384 octets/bits; an open type is decoded from octets the outer cursor passed over.
     - computed over the regenerated schema (vm_compute): max kost = 3365, max lstep = 4862 per bit (NGAPPDU), hence
       [c14_decode_steps_bounded]: steps <= 3365 + 38896 * |bs| for every root, input and fuel, and
       [c14_decode_linear_time]: with the checkers' fuel the run ends in a value or an error within that many steps.
       The bound is linear but coarse (it lets every input bit start a new element of the most expensive list):
       the 44-octet NGSetupRequest of c14_steps_example takes 361 steps.
     On every check the streams ngap-malformed and prim-malformed run the real decoder and the
     model on every prefix, bit/byte corruptions, splices and random octets: same value | same error code, no panic,
     allocation and time within the limits. *)
From Coq Require Import NArith ZArith List Bool String.
Require Import GoSlice AperCommon AperEnc AperDec NgapSchema AperCheck AperSchemaProofs AperDecProofs.
Require Import AperTotalPrim AperTotalField AperTotalAlloc AperTotalNgap.
Require Import AperDecCost AperCostErase AperCostPrim AperCostField AperCostNgap.
Import ListNotations.
Open Scope N_scope.

Theorem c14_GetBitString_total :
  forall src off n, off < 8 -> (0 < off -> 1 <= len src) -> len src < MAXLEN ->
    (exists e, GetBitString src off n = Err e)
    \/ (exists d, GetBitString src off n = Ok d /\ len d = (n + 7) / 8 /\ off + n <= 8 * len src).
Proof. exact GetBitString_total. Qed.
Print Assumptions c14_GetBitString_total.

Theorem c14_GetBitsValue_total :
  forall src off n, off < 8 -> (0 < off -> 1 <= len src) -> len src < MAXLEN ->
    (exists e, GetBitsValue src off n = Err e) \/ (exists v, GetBitsValue src off n = Ok v /\ off + n <= 8 * len src).
Proof. exact GetBitsValue_total. Qed.
Print Assumptions c14_GetBitsValue_total.

Theorem c14_getBitsValue_total :
  forall s n, dinv s -> quiet (fst (getBitsValue s n)) /\ dinv (snd (getBitsValue s n)) /\ d_bytes (snd (getBitsValue s n)) = d_bytes s.
Proof. exact getBitsValue_good. Qed.
Print Assumptions c14_getBitsValue_total.

Theorem c14_getBitString_total :
  forall s n, dinv s -> quiet (fst (getBitString s n)) /\ dinv (snd (getBitString s n)) /\ d_bytes (snd (getBitString s n)) = d_bytes s.
Proof. exact getBitString_good. Qed.
Print Assumptions c14_getBitString_total.

Theorem c14_parseAlignBits_total : forall s, dinv s -> good3 s (parseAlignBits s).
Proof. exact parseAlignBits_good. Qed.
Print Assumptions c14_parseAlignBits_total.

Theorem c14_parseConstraintValue_total : forall s r, dinv s -> good3 s (parseConstraintValue s r).
Proof. exact parseConstraintValue_good. Qed.
Print Assumptions c14_parseConstraintValue_total.

Theorem c14_parseLength_total : forall s r, dinv s -> good3 s (parseLength s r).
Proof. exact parseLength_good. Qed.
Print Assumptions c14_parseLength_total.

Theorem c14_parseBool_total : forall s, dinv s -> good3 s (parseBool s).
Proof. exact parseBool_good. Qed.
Print Assumptions c14_parseBool_total.

Theorem c14_parseEnumerated_total : forall s ext lb ub, dinv s -> good3 s (parseEnumerated s ext lb ub).
Proof. exact parseEnumerated_good. Qed.
Print Assumptions c14_parseEnumerated_total.

Theorem c14_getChoiceIndex_total : forall s ext ub, dinv s -> good3 s (getChoiceIndex s ext ub).
Proof. exact getChoiceIndex_good. Qed.
Print Assumptions c14_getChoiceIndex_total.

(* INTEGER in all its forms, including the length octet 0 in front of an unconstrained / extension-encoded value *)
Theorem c14_parseInteger_total : forall s ext lb ub, dinv s -> good3 s (parseInteger s ext lb ub).
Proof. exact parseInteger_good. Qed.
Print Assumptions c14_parseInteger_total.

(* OCTET STRING / BIT STRING in all their forms: value or error, invariant kept, cursor not moved backwards.
   [size_ok]: the SIZE bounds are int64 tag values with 0 <= lb < 2^32 (see c14_negative_lb_panics for why). *)
Theorem c14_parseOctetString_total :
  forall s ext lbp ubp, dinv s -> octs s -> size_ok lbp ubp -> sgood s anyres (parseOctetString s ext lbp ubp).
Proof. exact parseOctetString_good. Qed.
Print Assumptions c14_parseOctetString_total.

Theorem c14_parseBitString_total :
  forall s ext lbp ubp, dinv s -> octs s -> size_ok lbp ubp -> sgood s anyres (parseBitString s ext lbp ubp).
Proof. exact parseBitString_good. Qed.
Print Assumptions c14_parseBitString_total.

(* the open-type fragment loop with the fuel parseOpenType gives it: the collected octets were all passed over *)
Theorem c14_open_type_loop_total :
  forall fuel s acc, dinv s -> octs s -> octets acc -> 8 * len (d_bytes s) < 8 * N.of_nat fuel + pos s ->
    sgood s (open_post s acc) (open_dec_loop fuel s acc).
Proof. exact open_dec_loop_good. Qed.
Print Assumptions c14_open_type_loop_total.

(* parseField on any well-formed type, any fuel: never a panic; out of fuel only below the nesting depth;
   a returned value is well-typed and the cursor is inside the buffer and not before where it started *)
Theorem c14_parseField_total :
  forall fuel t p s, wf_ty t (psize_ok p) = true -> dinv s -> octs s ->
    match fst (parseField fuel t p s) with
    | Ok (v, s') => adv s s' /\ has_ty t v
    | Err _ => True
    | Panic _ => False
    | OutOfFuel => (fuel < ty_depth t)%nat
    end.
Proof. exact parseField_total. Qed.
Print Assumptions c14_parseField_total.

Theorem c14_unmarshal_never_panics :
  forall fuel t p bs, wf_ty t (psize_ok p) = true -> Forall (fun b => b < 256) bs -> len bs < 4294967296 ->
    forall q, unmarshal fuel t p bs <> Panic q.
Proof. exact unmarshal_never_panics. Qed.
Print Assumptions c14_unmarshal_never_panics.

Theorem c14_unmarshal_total :
  forall fuel t p bs, wf_ty t (psize_ok p) = true -> (ty_depth t <= fuel)%nat ->
    Forall (fun b => b < 256) bs -> len bs < 4294967296 ->
    match unmarshal fuel t p bs with Ok _ | Err _ => True | Panic _ | OutOfFuel => False end.
Proof. exact unmarshal_total. Qed.
Print Assumptions c14_unmarshal_total.

(* every root of the regenerated schema is well-formed (evaluated) ... *)
Theorem c14_ngap_roots_wf :
  forallb (fun r => let '(_, t, pe, pd) := r in wf_ty t (psize_ok pd) && wf_ty t (psize_ok pe)) ngap_roots_full = true.
Proof. exact ngap_roots_wf. Qed.
Print Assumptions c14_ngap_roots_wf.

(* ... hence: NGAP decoding of EVERY octet string against EVERY root is a value or an error *)
Theorem c14_decode_total :
  forall root t pe pd bs, In (root, t, pe, pd) ngap_roots_full ->
    Forall (fun b => b < 256) bs -> len bs < 4294967296 ->
    match unmarshal (dec_fuel t) t pd bs with Ok _ | Err _ => True | Panic _ | OutOfFuel => False end.
Proof. exact ngap_decode_total. Qed.
Print Assumptions c14_decode_total.

(* ---- allocation *)
(* parseField: octets reserved vs. input consumed (success) / input left plus the schema's worst over-claim (failure) *)
Theorem c14_parseField_alloc :
  forall fuel t p s, wf_ty t (psize_ok p) = true -> cons_ok t p = true -> dinv s -> octs s ->
    match fst (parseField fuel t p s) with
    | Ok (v, s') => adv s s' /\ (consumes t p = true -> pos s + 1 <= pos s')
                    /\ snd (parseField fuel t p s) <= lcoef t * (pos s' - pos s)
    | _ => snd (parseField fuel t p s) <= chain t (count_ub p) + lcoef t * (8 * len (d_bytes s) - pos s)
    end.
Proof. exact parseField_alloc. Qed.
Print Assumptions c14_parseField_alloc.

Theorem c14_unmarshal_alloc_bound :
  forall fuel t p bs, wf_ty t (psize_ok p) = true -> cons_ok t p = true ->
    Forall (fun b => b < 256) bs -> len bs < 4294967296 ->
    unmarshal_alloc fuel t p bs <= chain t (count_ub p) + lcoef t * (8 * len bs).
Proof. exact unmarshal_alloc_bound. Qed.
Print Assumptions c14_unmarshal_alloc_bound.

(* the schema-side facts, evaluated *)
Theorem c14_ngap_lists_consume :
  forallb (fun r : string * ty * params * params => let '(_, t, _, pd) := r in cons_ok t pd) ngap_roots_full = true.
Proof. exact ngap_roots_cons. Qed.
Print Assumptions c14_ngap_lists_consume.
Theorem c14_ngap_alloc_consts :
  forallb (fun r : string * ty * params * params =>
             let '(_, t, _, pd) := r in (chain t (count_ub pd) <=? 16252872) && (lcoef t <=? 304)) ngap_roots_full = true.
Proof. exact ngap_alloc_consts. Qed.
Print Assumptions c14_ngap_alloc_consts.

(* NGAP: whatever the counts and lengths inside the input claim, one decoding call reserves at most 15.5 MiB plus
   2432 octets per input octet *)
Theorem c14_decode_alloc_bounded :
  forall root t pe pd bs fuel, In (root, t, pe, pd) ngap_roots_full ->
    Forall (fun b => b < 256) bs -> len bs < 4294967296 ->
    unmarshal_alloc fuel t pd bs <= 16252872 + 2432 * len bs.
Proof. exact ngap_decode_alloc_bounded. Qed.
Print Assumptions c14_decode_alloc_bounded.

(* ---- time: steps of the step-counting decoder (Model/AperDecCost.v) *)
(* the counted run is the model's run: same value and cursor, or same error / panic / out-of-fuel, whatever the input *)
Theorem c14_parseFieldC_same_result :
  forall fuel t p s, fst (parseFieldC fuel t p s) = fst (parseField fuel t p s).
Proof. exact parseFieldC_erase. Qed.
Print Assumptions c14_parseFieldC_same_result.

Theorem c14_steps_same_result :
  forall fuel t p bs, fst (unmarshal_costed fuel t p bs) = fst (unmarshal_full fuel t p bs).
Proof. exact unmarshal_costed_result. Qed.
Print Assumptions c14_steps_same_result.

(* the bounded readers take a constant number of steps in any state *)
Theorem c14_parseLength_steps : forall s r, snd (parseLengthC s r) <= 12.
Proof. exact parseLengthC_cost. Qed.
Print Assumptions c14_parseLength_steps.
Theorem c14_parseConstraintValue_steps : forall s r, snd (parseConstraintValueC s r) <= 12.
Proof. exact parseConstraintValueC_cost. Qed.
Print Assumptions c14_parseConstraintValue_steps.

(* the readers that loop or read a length taken from the input: value or error as before, and at most
   K + (bits the cursor moved) steps - also when they fail *)
Theorem c14_parseInteger_steps :
  forall s ext lb ub, dinv s -> octs s ->
    sgood s anyres (fst (parseIntegerC s ext lb ub))
    /\ snd (parseIntegerC s ext lb ub) <= 24 + (pos (snd (fst (parseIntegerC s ext lb ub))) - pos s).
Proof. exact parseIntegerC_cgood. Qed.
Print Assumptions c14_parseInteger_steps.

Theorem c14_parseOctetString_steps :
  forall s ext lbp ubp, dinv s -> octs s -> size_ok lbp ubp ->
    sgood s (fun _ s' => oct_nonempty lbp = true -> pos s + 1 <= pos s') (fst (parseOctetStringC s ext lbp ubp))
    /\ snd (parseOctetStringC s ext lbp ubp) <= 15 + (pos (snd (fst (parseOctetStringC s ext lbp ubp))) - pos s).
Proof. exact parseOctetStringC_cgood. Qed.
Print Assumptions c14_parseOctetString_steps.

Theorem c14_parseBitString_steps :
  forall s ext lbp ubp, dinv s -> octs s -> size_ok lbp ubp ->
    sgood s anyres (fst (parseBitStringC s ext lbp ubp))
    /\ snd (parseBitStringC s ext lbp ubp) <= 15 + (pos (snd (fst (parseBitStringC s ext lbp ubp))) - pos s).
Proof. exact parseBitStringC_cgood. Qed.
Print Assumptions c14_parseBitString_steps.

Theorem c14_open_type_loop_steps :
  forall fuel s acc, dinv s -> octs s -> octets acc -> 8 * len (d_bytes s) < 8 * N.of_nat fuel + pos s ->
    sgood s (open_post s acc) (fst (open_dec_loopC fuel s acc))
    /\ snd (open_dec_loopC fuel s acc) <= 17 + (pos (snd (fst (open_dec_loopC fuel s acc))) - pos s).
Proof. exact open_dec_loopC_cgood. Qed.
Print Assumptions c14_open_type_loop_steps.

(* parseField: steps vs. input consumed (success) / input left (failure) *)
Theorem c14_parseFieldC_steps :
  forall fuel t p s, wf_ty t (psize_ok p) = true -> cons_ok t p = true -> dinv s -> octs s ->
    match fst (parseFieldC fuel t p s) with
    | Ok (v, s') => adv s s' /\ (consumes t p = true -> pos s + 1 <= pos s')
                    /\ snd (parseFieldC fuel t p s) <= kost t + lstep t * (pos s' - pos s)
    | _ => snd (parseFieldC fuel t p s) <= kost t + lstep t * (8 * len (d_bytes s) - pos s)
    end.
Proof. exact parseFieldC_steps. Qed.
Print Assumptions c14_parseFieldC_steps.

Theorem c14_unmarshal_steps_bound :
  forall fuel t p bs, wf_ty t (psize_ok p) = true -> cons_ok t p = true ->
    Forall (fun b => b < 256) bs -> len bs < 4294967296 ->
    unmarshal_steps fuel t p bs <= kost t + lstep t * (8 * len bs).
Proof. exact unmarshal_steps_bound. Qed.
Print Assumptions c14_unmarshal_steps_bound.

(* the schema-side constants, evaluated *)
Theorem c14_ngap_steps_consts :
  forallb (fun r : string * ty * params * params =>
             let '(_, t, _, _) := r in (kost t <=? 3365) && (lstep t <=? 4862)) ngap_roots_full = true.
Proof. exact ngap_steps_consts. Qed.
Print Assumptions c14_ngap_steps_consts.

(* NGAP: whatever the counts and lengths inside the input claim, one decoding call takes at most
   3365 + 38896 * |input| steps (any root, any fuel) *)
Theorem c14_decode_steps_bounded :
  forall root t pe pd bs fuel, In (root, t, pe, pd) ngap_roots_full ->
    Forall (fun b => b < 256) bs -> len bs < 4294967296 ->
    unmarshal_steps fuel t pd bs <= 3365 + 38896 * len bs.
Proof. exact ngap_decode_steps_bounded. Qed.
Print Assumptions c14_decode_steps_bounded.

(* for the inputs of the property (at most 4 KiB): at most 159 321 381 steps *)
Theorem c14_decode_steps_4k :
  forall root t pe pd bs fuel, In (root, t, pe, pd) ngap_roots_full ->
    Forall (fun b => b < 256) bs -> len bs <= 4096 ->
    unmarshal_steps fuel t pd bs <= 159321381.
Proof. exact ngap_decode_steps_4k. Qed.
Print Assumptions c14_decode_steps_4k.

(* ... and with the fuel the checkers use: value or error, the counted run is that run, linear number of steps *)
Theorem c14_decode_linear_time :
  forall root t pe pd bs, In (root, t, pe, pd) ngap_roots_full ->
    Forall (fun b => b < 256) bs -> len bs < 4294967296 ->
    match unmarshal (dec_fuel t) t pd bs with Ok _ | Err _ => True | Panic _ | OutOfFuel => False end
    /\ match fst (unmarshal_costed (dec_fuel t) t pd bs) with
       | Ok (v, _) => Ok v | Err e => Err e | Panic q => Panic q | OutOfFuel => OutOfFuel
       end = unmarshal (dec_fuel t) t pd bs
    /\ unmarshal_steps (dec_fuel t) t pd bs <= 3365 + 38896 * len bs.
Proof. exact ngap_decode_linear_time. Qed.
Print Assumptions c14_decode_linear_time.

(* constants of the schema used by the bounds *)
Theorem c14_root_depth_bound : forallb (fun r => let '(_, t, _, _) := r in Nat.leb (ty_depth t) max_root_depth) ngap_roots_full = true.
Proof. exact root_depth_bound. Qed.
Print Assumptions c14_root_depth_bound.
Theorem c14_go_sizes : forallb (fun r => let '(_, t, sz) := r in go_sizeof t =? sz) ngap_types = true.
Proof. exact ngap_sizes_ok. Qed.
Print Assumptions c14_go_sizes.

(* non-vacuity: the initial cursor satisfies the invariant; the input that panicked the pinned tree now yields an error
   or a value in the model (and, by the stream, in the implementation) *)
Example c14_initial_state_ok : dinv (mkdst [0; 14; 0; 18] 0 0).
Proof. unfold dinv, MAXLEN. cbn. repeat split; try discriminate; intros; try discriminate. Qed.
Example c14_historic_input_no_panic :
  match unmarshal (dec_fuel (root_ty "NGAPPDU")) (root_ty "NGAPPDU") (root_pdec "NGAPPDU")
          [0;14;0;18;0;0;1;0;110;0;11;32;0;3;163;82;148;64;1;16;3;232] with
  | Ok _ | Err _ => True | _ => False end.
Proof. vm_compute. exact I. Qed.

(* the hypotheses are satisfiable / needed *)
Example c14_root_in_schema : In ("NGAPPDU"%string, root_ty "NGAPPDU", root_penc "NGAPPDU", root_pdec "NGAPPDU") ngap_roots_full.
Proof. left. reflexivity. Qed.
Example c14_octs_example : octs (mkdst [0; 14; 0; 18] 0 0).
Proof. unfold octs, octets, octet. cbn. repeat constructor. Qed.
Example c14_size_ok_example : size_ok (Some 1%Z) (Some 150%Z).
Proof. unfold size_ok. split; split; reflexivity || discriminate. Qed.
(* a (non-NGAP) tag with a negative SIZE lower bound does make the library slice out of range: pd.bytes[1:0] *)
Example c14_negative_lb_panics : fst (parseOctetString (mkdst [0] 0 0) false (Some (-1)%Z) None) = Panic P_SLICE.
Proof. vm_compute. reflexivity. Qed.
(* over-claiming is real: SuccessfulOutcome / PWSCancel with an IE count of 65535 and nothing behind it reserves
   65535 * 56 octets before failing (implementation: TotalAlloc delta 3 702 784 on the same input) *)
Example c14_overclaim_example :
  unmarshal_alloc (dec_fuel (root_ty "NGAPPDU")) (root_ty "NGAPPDU") (root_pdec "NGAPPDU") [32;32;0;3;0;255;255] = 3669960
  /\ unmarshal (dec_fuel (root_ty "NGAPPDU")) (root_ty "NGAPPDU") (root_pdec "NGAPPDU") [32;32;0;3;0;255;255] = Err E_TRUNCATED.
Proof. vm_compute. split; reflexivity. Qed.
(* the constant of c14_decode_alloc_bounded is attained: this 33-octet input (SuccessfulOutcome / PWSCancel, four nested
   lists each claiming the largest count its field can carry, then end of input) reserves exactly the worst chain
   (implementation on the same input: error "sequence truncated", TotalAlloc delta 16 340 848) *)
Example c14_worst_chain_attained :
  let inp := [32;32;0;29;0;255;255;0;12;0;22;32;255;255;0;0;0;0;0;0;0;255;255;16;0;0;0;0;0;0;0;255;255] in
  unmarshal_alloc (dec_fuel (root_ty "NGAPPDU")) (root_ty "NGAPPDU") (root_pdec "NGAPPDU") inp = 16252872
  /\ unmarshal (dec_fuel (root_ty "NGAPPDU")) (root_ty "NGAPPDU") (root_pdec "NGAPPDU") inp = Err E_TRUNCATED.
Proof. vm_compute. split; reflexivity. Qed.
(* time, non-vacuity: the 44-octet NGSetupRequest the implementation produced (Properties/C04.v) decodes to a value in
   361 steps, within the bound of c14_decode_steps_bounded; the worst-chain input above fails after 308 steps *)
Definition c14_ngsetup_bytes : list N := [0;21;0;40;0;0;2;0;82;128;20;8;128;100;122;108;103;114;49;106;113;101;115;97;103;50;57;119;97;48;122;0;27;128;9;0;142;184;201;80;246;97;27;106].
Example c14_steps_example :
  match unmarshal (dec_fuel (root_ty "NGAPPDU")) (root_ty "NGAPPDU") (root_pdec "NGAPPDU") c14_ngsetup_bytes with Ok _ => True | _ => False end
  /\ unmarshal_steps (dec_fuel (root_ty "NGAPPDU")) (root_ty "NGAPPDU") (root_pdec "NGAPPDU") c14_ngsetup_bytes = 361
  /\ 0 < 361 /\ 361 <= 3365 + 38896 * len c14_ngsetup_bytes
  /\ Forall (fun b => b < 256) c14_ngsetup_bytes.
Proof.
  split; [vm_compute; exact I|]. split; [vm_compute; reflexivity|]. split; [reflexivity|]. split; [vm_compute; discriminate|].
  unfold c14_ngsetup_bytes. repeat constructor.
Qed.
Example c14_steps_worst_chain_example :
  let inp := [32;32;0;29;0;255;255;0;12;0;22;32;255;255;0;0;0;0;0;0;0;255;255;16;0;0;0;0;0;0;0;255;255] in
  unmarshal_steps (dec_fuel (root_ty "NGAPPDU")) (root_ty "NGAPPDU") (root_pdec "NGAPPDU") inp = 308.
Proof. vm_compute. reflexivity. Qed.
(* the constants are those of the NGAPPDU root *)
Example c14_steps_consts_example : kost (root_ty "NGAPPDU") = 3365 /\ lstep (root_ty "NGAPPDU") = 4862.
Proof. split; vm_compute; reflexivity. Qed.
