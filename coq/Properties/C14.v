(* C14 - NGAP decoding is total: value or error, never a panic, a hang or an unbounded allocation.
   Statements only; proofs in Proofs/AperDecProofs.v.

   Proved for all inputs: with the cursor invariant
       dinv s  :=  byteOffset <= len /\ bitsOffset < 8 /\ (bitsOffset > 0 -> byteOffset < len) /\ len < 2^32
   every primitive reader of aper.go (GetBitString, GetBitsValue, getBitString, getBitsValue, parseAlignBits,
   parseConstraintValue, parseLength, parseBool, parseEnumerated, getChoiceIndex, parseInteger) returns a value or an
   error - never Panic, never OutOfFuel - and re-establishes the invariant on the same buffer.  This covers the
   only panic the pinned tree had (zero-bit read, fixed by 1966540: [GetBitString] with numBits = 0 returns []).

   TODO-PARTIAL (stated in full):
     decode_total :
       forall root t pe pd bs, In (root, t, pe, pd) ngap_roots_full -> len bs < 2^32 ->
         exists r, unmarshal (dec_fuel t) t pd bs = r /\ quiet r
     decode_alloc_bounded :
       forall ..., unmarshal_alloc (dec_fuel t) t pd bs <= depth * 65535 * maxelem + 8 * len bs * maxelem
     Missing: parseOctetString / parseBitString (the fragment loops: fuel S (length bytes) suffices because every
     repeat iteration consumes at least 2048 octets; slices are guarded by the explicit length tests), then
     parseField by induction on fuel (decStruct / dec_seq_loop / decSequenceOf / parseOpenType; get_ref on the
     partially built value needs the schema well-formedness facts: reference fields are INTEGER wrappers, every
     CHOICE struct has at least the Present field), fuel sufficiency from ty_depth (root_depth_bound: 30), and the
     allocation accounting.  On every check the streams ngap-malformed and prim-malformed run the real decoder and the
     model on every prefix, bit/byte corruptions, splices and random octets: same value | same error code, no panic,
     allocation and time within the limits. *)
From Coq Require Import NArith ZArith List Bool String.
Require Import GoSlice AperCommon AperEnc AperDec NgapSchema AperCheck AperSchemaProofs AperDecProofs.
Import ListNotations.
Open Scope N_scope.

Theorem c14_GetBitString_total :
  forall src off n, off < 8 -> (0 < off -> 1 <= len src) -> len src < MAXLEN ->
    (exists e, GetBitString src off n = Err e)
    \/ (exists d, GetBitString src off n = Ok d /\ len d = (n + 7) / 8 /\ off + n <= 8 * len src).
Proof. exact GetBitString_total. Qed.
Print Assumptions c14_GetBitString_total.

Theorem c14_GetBitsValue_total :
  forall src off n, off < 8 -> (0 < off -> 1 <= len src) -> len src < MAXLEN ->
    (exists e, GetBitsValue src off n = Err e) \/ (exists v, GetBitsValue src off n = Ok v /\ off + n <= 8 * len src).
Proof. exact GetBitsValue_total. Qed.
Print Assumptions c14_GetBitsValue_total.

Theorem c14_getBitsValue_total :
  forall s n, dinv s -> quiet (fst (getBitsValue s n)) /\ dinv (snd (getBitsValue s n)) /\ d_bytes (snd (getBitsValue s n)) = d_bytes s.
Proof. exact getBitsValue_good. Qed.
Print Assumptions c14_getBitsValue_total.

Theorem c14_getBitString_total :
  forall s n, dinv s -> quiet (fst (getBitString s n)) /\ dinv (snd (getBitString s n)) /\ d_bytes (snd (getBitString s n)) = d_bytes s.
Proof. exact getBitString_good. Qed.
Print Assumptions c14_getBitString_total.

Theorem c14_parseAlignBits_total : forall s, dinv s -> good3 s (parseAlignBits s).
Proof. exact parseAlignBits_good. Qed.
Print Assumptions c14_parseAlignBits_total.

Theorem c14_parseConstraintValue_total : forall s r, dinv s -> good3 s (parseConstraintValue s r).
Proof. exact parseConstraintValue_good. Qed.
Print Assumptions c14_parseConstraintValue_total.

Theorem c14_parseLength_total : forall s r, dinv s -> good3 s (parseLength s r).
Proof. exact parseLength_good. Qed.
Print Assumptions c14_parseLength_total.

Theorem c14_parseBool_total : forall s, dinv s -> good3 s (parseBool s).
Proof. exact parseBool_good. Qed.
Print Assumptions c14_parseBool_total.

Theorem c14_parseEnumerated_total : forall s ext lb ub, dinv s -> good3 s (parseEnumerated s ext lb ub).
Proof. exact parseEnumerated_good. Qed.
Print Assumptions c14_parseEnumerated_total.

Theorem c14_getChoiceIndex_total : forall s ext ub, dinv s -> good3 s (getChoiceIndex s ext ub).
Proof. exact getChoiceIndex_good. Qed.
Print Assumptions c14_getChoiceIndex_total.

(* INTEGER in all its forms, including the length octet 0 in front of an unconstrained / extension-encoded value *)
Theorem c14_parseInteger_total : forall s ext lb ub, dinv s -> good3 s (parseInteger s ext lb ub).
Proof. exact parseInteger_good. Qed.
Print Assumptions c14_parseInteger_total.

(* constants of the schema used by the bounds *)
Theorem c14_root_depth_bound : forallb (fun r => let '(_, t, _, _) := r in Nat.leb (ty_depth t) max_root_depth) ngap_roots_full = true.
Proof. exact root_depth_bound. Qed.
Print Assumptions c14_root_depth_bound.
Theorem c14_go_sizes : forallb (fun r => let '(_, t, sz) := r in go_sizeof t =? sz) ngap_types = true.
Proof. exact ngap_sizes_ok. Qed.
Print Assumptions c14_go_sizes.

(* non-vacuity: the initial cursor satisfies the invariant; the input that panicked the pinned tree now yields an error
   or a value in the model (and, by the stream, in the implementation) *)
Example c14_initial_state_ok : dinv (mkdst [0; 14; 0; 18] 0 0).
Proof. unfold dinv, MAXLEN. cbn. repeat split; try discriminate; intros; try discriminate. Qed.
Example c14_historic_input_no_panic :
  match unmarshal (dec_fuel (root_ty "NGAPPDU")) (root_ty "NGAPPDU") (root_pdec "NGAPPDU")
          [0;14;0;18;0;0;1;0;110;0;11;32;0;3;163;82;148;64;1;16;3;232] with
  | Ok _ | Err _ => True | _ => False end.
Proof. vm_compute. exact I. Qed.
