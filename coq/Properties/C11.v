(* C11 — Subscriber and PLMN identities are encoded per TS 24.501 / TS 38.413. Statements only. *)
From Coq Require Import NArith List Bool.
Require Import Dec SuciEnc Suci SuciProofs.
Import ListNotations.
Open Scope N_scope.

(* For every IMSI = MCC (3 digits) MNC (2 or 3 digits) MSIN (any number of digits, odd or even), the
   mobile identity produced by EncodeSuci is decoded by the independent TS 24.501 9.11.3.4 decoder to the
   same MCC, MNC, MSIN, with routing indicator 0, null scheme, key id 0. *)
Theorem c11_suci_decodes_to_the_imsi :
  forall mcc mnc msin,
    digits_ok mcc = true -> digits_ok mnc = true -> digits_ok msin = true ->
    length mcc = 3%nat -> (length mnc = 2%nat \/ length mnc = 3%nat) ->
    exists buf, encode_suci (to_ascii (mcc ++ mnc ++ msin)) (length mnc) = Some buf
                /\ suci_decode buf = Some (suci_of mcc mnc msin).
Proof. exact suci_roundtrip. Qed.
Print Assumptions c11_suci_decodes_to_the_imsi.

(* The PLMN octets taken for NG Setup (and remembered for every user-location IE) are the standard 3-octet
   coding of the same MCC/MNC, equal to the library's own conversion, and decode back to MCC/MNC. *)
Theorem c11_plmn_announced_is_standard :
  forall mcc mnc msin,
    digits_ok mcc = true -> digits_ok mnc = true ->
    length mcc = 3%nat -> (length mnc = 2%nat \/ length mnc = 3%nat) ->
    exists o, plmn_encode mcc mnc = Some o
      /\ mobile_plmn (to_ascii (mcc ++ mnc ++ msin)) (length mnc) = Some o
      /\ plmn_id_to_nas (to_ascii mcc) (to_ascii mnc) = Some o
      /\ plmn_decode o = Some (mcc, mnc).
Proof. exact plmn_announced. Qed.
Print Assumptions c11_plmn_announced_is_standard.

(* non-vacuity: shipped configuration (208/93, MSIN 0000000003) and a three-digit MNC with an odd MSIN *)
Example c11_shipped :
  encode_suci (to_ascii ([2;0;8] ++ [9;3] ++ [0;0;0;0;0;0;0;0;0;3])) 2 = Some [1; 2; 248; 57; 240; 255; 0; 0; 0; 0; 0; 0; 48].
Proof. vm_compute. reflexivity. Qed.
Example c11_three_digit_mnc :
  encode_suci (to_ascii ([0;0;0] ++ [0;3;7] ++ [1;2;3;4;5])) 3 = Some [1; 0; 112; 48; 240; 255; 0; 0; 33; 67; 245].
Proof. vm_compute. reflexivity. Qed.
