(* C15 — the in-repo Milenage library implements TS 35.206 and accepts exactly valid AUTNs.
   Statements only; proofs live in Proofs/MilenageProofs.v.  E is ANY function from a key and a block to
   16 octets (AES-128 in TS 35.206's example algorithm set; Crypto/AES.v when executed). *)
From Coq Require Import NArith ZArith List Bool.
Require Import Bytes BytesLemmas AES TS35206 Milenage MilenageProofs.
Import ListNotations.
Open Scope N_scope.

Definition cipher16 (E:bytes -> bytes -> bytes) : Prop := forall k x, length (E k x) = 16%nat.
Definition cipher_octets (E:bytes -> bytes -> bytes) : Prop := forall k x, bytes_ok (E k x) = true.

(* f2, f3, f4, f5, f5* (exported F2345; the byte-index loops dst[(i+r)%16] are the rotations by r2..r5) *)
Theorem c15_f2345_is_ts35206 :
  forall E, cipher16 E -> forall opc k rand, length opc = 16%nat -> length k = 16%nat -> length rand = 16%nat ->
  F2345 E opc k rand = MOk {| m_res := f2 E k opc rand; m_ck := f3 E k opc rand; m_ik := f4 E k opc rand;
                             m_ak := f5 E k opc rand; m_aks := f5s E k opc rand |}.
Proof. exact F2345_spec. Qed.
Print Assumptions c15_f2345_is_ts35206.

(* f1, f1* (exported F1) *)
Theorem c15_f1_is_ts35206 :
  forall E, cipher16 E -> forall opc k rand sqn amf, length opc = 16%nat -> length k = 16%nat -> length rand = 16%nat ->
  length sqn = 6%nat -> length amf = 2%nat ->
  F1 E opc k rand sqn amf = MOk (f1 E k opc rand sqn amf, f1s E k opc rand sqn amf).
Proof. exact F1_spec. Qed.
Print Assumptions c15_f1_is_ts35206.

(* OPc *)
Theorem c15_opc_is_ts35206 :
  forall E, cipher16 E -> forall k op, length k = 16%nat -> length op = 16%nat -> GenerateOPC E k op = MOk (opc_of E k op).
Proof. exact GenerateOPC_spec. Qed.
Print Assumptions c15_opc_is_ts35206.

(* os_memcmp over 6 octets (as coded after commit 020149a) is the order of the 48-bit big-endian numbers *)
Theorem c15_memcmp_lex :
  forall a b, length a = 6%nat -> length b = 6%nat -> bytes_ok a = true -> bytes_ok b = true ->
  exists c, os_memcmp a b 6 = Some c /\ ((c <= 0)%Z <-> be_to_N a <= be_to_N b) /\ (c = 0%Z <-> a = b).
Proof. exact memcmp_lex. Qed.
Print Assumptions c15_memcmp_lex.

(* MilenageGenerate builds the TS 33.102 6.3.2 AUTN and vector *)
Theorem c15_generate_is_ts33102 :
  forall E, cipher16 E -> forall opc amf k sqn rand res_len,
  length opc = 16%nat -> length k = 16%nat -> length rand = 16%nat -> length sqn = 6%nat -> length amf = 2%nat -> 8 <= res_len ->
  MilenageGenerate E opc amf k sqn rand res_len =
  GenOk (autn E k opc rand sqn amf) (f4 E k opc rand) (f3 E k opc rand) (f5 E k opc rand) (f2 E k opc rand).
Proof. exact generate_spec. Qed.
Print Assumptions c15_generate_is_ts33102.

(* check_iff: Milenage_check returns 0 (always together with RES/CK/IK = f2/f3/f4) iff MAC-A is exactly f1 over the
   concealed SQN and the AMF and that SQN is greater than the UE's; -2 iff it is not greater *)
Theorem c15_check_iff :
  forall E, cipher16 E -> cipher_octets E -> forall opc k sqn rand a,
  length opc = 16%nat -> length k = 16%nat -> length rand = 16%nat -> length sqn = 6%nat -> length a = 16%nat ->
  bytes_ok opc = true -> bytes_ok sqn = true -> bytes_ok a = true ->
  exists rc t, Milenage_check E opc k sqn rand a = CheckRet rc (f2 E k opc rand) (f3 E k opc rand) (f4 E k opc rand) t /\
    (rc = 0 \/ rc = -1 \/ rc = -2)%Z /\
    (rc = 0%Z <-> (f1 E k opc rand (autn_sqn E k opc rand a) (autn_amf a) = autn_mac a /\
                   sqn_val sqn < sqn_val (autn_sqn E k opc rand a))) /\
    (rc = (-2)%Z <-> sqn_val (autn_sqn E k opc rand a) <= sqn_val sqn).
Proof. exact check_iff. Qed.
Print Assumptions c15_check_iff.

(* the same against the TS 33.102 6.3.3 USIM procedure *)
Theorem c15_check_accepts_iff_usim :
  forall E, cipher16 E -> cipher_octets E -> forall opc k sqn rand a,
  length opc = 16%nat -> length k = 16%nat -> length rand = 16%nat -> length sqn = 6%nat -> length a = 16%nat ->
  bytes_ok opc = true -> bytes_ok sqn = true -> bytes_ok a = true ->
  (exists t, Milenage_check E opc k sqn rand a = CheckRet 0 (f2 E k opc rand) (f3 E k opc rand) (f4 E k opc rand) t)
  <-> usim_check E k opc rand a sqn = Accept (f2 E k opc rand) (f3 E k opc rand) (f4 E k opc rand).
Proof. exact check_accepts_iff_usim. Qed.
Print Assumptions c15_check_accepts_iff_usim.

(* resync: a not-greater SQN yields -2 and the TS 33.102 AUTS of the UE's SQN, which Milenage_auts (and the
   specification's network-side check) accepts, returning the UE's SQN *)
Theorem c15_resync :
  forall E, cipher16 E -> cipher_octets E -> forall opc k sqn rand a,
  length opc = 16%nat -> length k = 16%nat -> length rand = 16%nat -> length sqn = 6%nat -> length a = 16%nat ->
  bytes_ok opc = true -> bytes_ok sqn = true -> bytes_ok a = true ->
  sqn_val (autn_sqn E k opc rand a) <= sqn_val sqn ->
  exists t, Milenage_check E opc k sqn rand a = CheckRet (-2) (f2 E k opc rand) (f3 E k opc rand) (f4 E k opc rand) (Some t) /\
    t = auts E k opc rand sqn /\ length t = 14%nat /\
    Milenage_auts E opc k rand t = AutsRet 0 sqn /\ auts_check E k opc rand t = Some sqn.
Proof. exact resync. Qed.
Print Assumptions c15_resync.

(* Milenage_auts is the TS 33.102 6.3.5 check for every 14-octet token: 0 and SQN_MS iff MAC-S verifies *)
Theorem c15_auts_is_ts33102 :
  forall E, cipher16 E -> forall opc k rand t,
  length opc = 16%nat -> length k = 16%nat -> length rand = 16%nat -> length t = 14%nat ->
  Milenage_auts E opc k rand t =
  match auts_check E k opc rand t with
  | Some s => AutsRet 0 s
  | None => AutsRet (-1) (xor_bytes (firstn 6 t) (f5s E k opc rand))
  end.
Proof. exact auts_char. Qed.
Print Assumptions c15_auts_is_ts33102.

(* generation and checking are inverse *)
Theorem c15_generate_check_inverse :
  forall E, cipher16 E -> cipher_octets E -> forall opc amf k sqn rand sqn_ue,
  length opc = 16%nat -> length k = 16%nat -> length rand = 16%nat -> length sqn = 6%nat -> length amf = 2%nat ->
  length sqn_ue = 6%nat -> bytes_ok opc = true -> bytes_ok sqn = true -> bytes_ok amf = true -> bytes_ok sqn_ue = true ->
  exists autn ik ck ak res, MilenageGenerate E opc amf k sqn rand 8 = GenOk autn ik ck ak res /\
    autn = TS35206.autn E k opc rand sqn amf /\
    (sqn_val sqn_ue < sqn_val sqn -> Milenage_check E opc k sqn_ue rand autn = CheckRet 0 res ck ik None) /\
    (sqn_val sqn <= sqn_val sqn_ue -> exists t, Milenage_check E opc k sqn_ue rand autn = CheckRet (-2) res ck ik (Some t)).
Proof. exact generate_check_inverse. Qed.
Print Assumptions c15_generate_check_inverse.

(* NOT satisfied by the code: reporting the TS 33.102 failure class.  The full statement would be
     forall ..., usim_check E k opc rand a sqn = MacFailure -> exists t, Milenage_check E opc k sqn rand a = CheckRet (-1) .. t
   The code tests the SQN before MAC-A, so a stale AUTN with a wrong MAC gets -2 and an AUTS instead of a MAC failure. *)
Theorem c15_failure_class_refuted :
  exists opc k sqn rand a,
    length opc = 16%nat /\ length k = 16%nat /\ length rand = 16%nat /\ length sqn = 6%nat /\ length a = 16%nat /\
    usim_check aes128 k opc rand a sqn = MacFailure /\
    Milenage_check aes128 opc k sqn rand a
    = CheckRet (-2) (f2 aes128 k opc rand) (f3 aes128 k opc rand) (f4 aes128 k opc rand) (Some (auts aes128 k opc rand sqn)).
Proof. exact failure_class_refuted. Qed.
Print Assumptions c15_failure_class_refuted.

(* ---- non-vacuity.  aes128 made total on arbitrary lists satisfies both hypotheses about E, coincides with
   aes128 on TS 35.208 test set 1 (and on the shipped config.yaml key), where every hypothesis of the theorems
   above holds and the conclusions are the published values. *)
Definition aes128_16 (k x:bytes) : bytes :=
  let y := aes128 k x in if Nat.eqb (length y) 16 && bytes_ok y then y else repeat 0 16.
Example c15_aes_is_cipher16 : cipher16 aes128_16 /\ cipher_octets aes128_16.
Proof.
  split; intros k x; unfold aes128_16; generalize (aes128 k x); intro y;
    destruct (Nat.eqb (length y) 16 && bytes_ok y) eqn:H.
  - apply andb_true_iff in H. destruct H as [H1 H2]. apply Nat.eqb_eq. exact H1.
  - reflexivity.
  - apply andb_true_iff in H. destruct H as [H1 H2]. exact H2.
  - reflexivity.
Qed.
Example c15_hypotheses_met_set1 :
  length opc1 = 16%nat /\ length k1 = 16%nat /\ length rnd1 = 16%nat /\ length sqn1 = 6%nat /\ length amf1 = 2%nat /\
  bytes_ok opc1 = true /\ bytes_ok sqn1 = true /\ bytes_ok amf1 = true /\ bytes_ok sqn1_minus1 = true /\
  sqn_val sqn1_minus1 < sqn_val sqn1 /\
  MilenageGenerate aes128_16 opc1 amf1 k1 sqn1 rnd1 8
  = GenOk [85;243;40;180;53;119;185;185;74;159;250;195;84;223;175;179]
          [247;105;188;215;81;4;70;4;18;118;114;113;28;109;52;65] [180;11;169;163;197;139;42;5;187;240;217;135;178;27;248;203]
          [170;104;156;100;131;112] [165;66;17;213;227;186;80;191] /\
  Milenage_check aes128_16 opc1 k1 sqn1_minus1 rnd1 [85;243;40;180;53;119;185;185;74;159;250;195;84;223;175;179]
  = CheckRet 0 [165;66;17;213;227;186;80;191] [180;11;169;163;197;139;42;5;187;240;217;135;178;27;248;203]
               [247;105;188;215;81;4;70;4;18;118;114;113;28;109;52;65] None /\
  Milenage_check aes128_16 opc1 k1 sqn1 rnd1 [85;243;40;180;53;119;185;185;74;159;250;195;84;223;175;179]
  = CheckRet (-2) [165;66;17;213;227;186;80;191] [180;11;169;163;197;139;42;5;187;240;217;135;178;27;248;203]
             [247;105;188;215;81;4;70;4;18;118;114;113;28;109;52;65] (Some (auts aes128_16 k1 opc1 rnd1 sqn1)) /\
  Milenage_auts aes128_16 opc1 k1 rnd1 (auts aes128_16 k1 opc1 rnd1 sqn1) = AutsRet 0 sqn1.
Proof. vm_compute. repeat split; reflexivity. Qed.
(* shipped src/config.yaml: K = 465B5CE8..., OPc = E8ED289D...; first-octet MAC corruption (the defect repaired by
   commit 020149a) is rejected, as is every other single-octet corruption by c15_check_iff *)
Definition opc_conf : bytes := [232;237;40;157;235;169;82;228;40;59;84;232;142;97;131;202].
Example c15_config_yaml_first_mac_octet :
  let a := autn aes128_16 k1 opc_conf rnd1 sqn1 amf1 in
  Milenage_check aes128_16 opc_conf k1 sqn1_minus1 rnd1 a
  = CheckRet 0 (f2 aes128_16 k1 opc_conf rnd1) (f3 aes128_16 k1 opc_conf rnd1) (f4 aes128_16 k1 opc_conf rnd1) None /\
  Milenage_check aes128_16 opc_conf k1 sqn1_minus1 rnd1 (firstn 8 a ++ [N.lxor (nth 8 a 0) 1] ++ skipn 9 a)
  = CheckRet (-1) (f2 aes128_16 k1 opc_conf rnd1) (f3 aes128_16 k1 opc_conf rnd1) (f4 aes128_16 k1 opc_conf rnd1) None.
Proof. vm_compute. split; reflexivity. Qed.
