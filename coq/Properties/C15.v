(* C15 placeholder while the proofs are being written *)
From Coq Require Import NArith List.
Require Import Bytes AES TS35206 Milenage.
Import ListNotations.
Open Scope N_scope.
Example c15_set1_model : F2345 aes128 opc1 k1 rnd1 = MOk (f2345_core aes128 opc1 k1 rnd1).
Proof. reflexivity. Qed.
