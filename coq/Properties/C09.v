(* C09 — NAS wire layout follows the TS 24.501 message tables.  Statements only; proofs in
   Proofs/NasLayoutProofs.v (reflective, over the regenerated descriptors and the tables) and Proofs/NasRefProofs.v
   (generic). *)
From Coq Require Import NArith List Bool String.
Require Import Bytes NasValue NasCodec NasDesc NasCorr TS24501Tables TS24501 NasLayout NasCodecProofs NasLayoutProofs NasRefProofs.
Import ListNotations.
Open Scope N_scope.

(* For every message type of both dispatch switches: the message type is defined in TS 24.501 8.2/8.3, the
   mandatory fields have the order, format and widths of the table, every optional IE has the table's IEI, format
   (half-octet TV, TV, TLV, TLV-E), length-field width and size, in the table's order, and every IE of the table is
   implemented -- except exactly the [known_deviations] (findings) and the rows marked uncertain in the tables. *)
Theorem c09_layout_follows_tables : layout_conforms_except known_deviations = true.
Proof. exact layout_conforms. Qed.
Print Assumptions c09_layout_follows_tables.

Theorem c09_tables_are_wellformed : forallb table_ok ts24501_tables = true.
Proof. exact tables_usable. Qed.
Print Assumptions c09_tables_are_wellformed.

(* generic: when a descriptor agrees row by row with a table, the independent reference parser reads from the
   library's encoding of any well-formed, table-conformant message exactly the values the message carries ... *)
Theorem c09_reference_parser_reads_library_encoding :
  forall d t m, desc_pair_ok d = true -> wf_msg d m = true -> layout_strict d t = true -> msg_conforms d t m = true ->
  exists bs, nas_encode d m = Ok bs /\ ref_parse t bs = Ok (msg_view d m).
Proof. exact ref_parse_reads_lib. Qed.
Print Assumptions c09_reference_parser_reads_library_encoding.

(* ... and the library decodes what the independent reference encoder builds, to the same contents *)
Theorem c09_library_decodes_reference_encoding :
  forall d t mand opt bs, desc_pair_ok d = true -> layout_strict d t = true -> ref_encode t mand opt = Ok bs ->
  exists m, wf_msg d m = true /\ nas_encode d m = Ok bs /\ nas_decode d bs = Ok m /\
            map fv_body (fst (msg_view d m)) = map fv_body mand /\
            map content (snd (msg_view d m)) = map content opt.
Proof. exact lib_reads_ref. Qed.
Print Assumptions c09_library_decodes_reference_encoding.

(* lifted: both hold for 40 of the 44 message types (all but the four with a deviation or an uncertain row) *)
Theorem c09_forty_message_types_conform_row_by_row :
  List.length strict_pairs = 40%nat /\
  forall e ty d t, In (e, ty, d, t) strict_pairs ->
    (forall m, wf_msg d m = true -> msg_conforms d t m = true ->
       exists bs, nas_encode d m = Ok bs /\ ref_parse t bs = Ok (msg_view d m)) /\
    (forall mand opt bs, ref_encode t mand opt = Ok bs ->
       exists m, wf_msg d m = true /\ nas_decode d bs = Ok m /\
                 map fv_body (fst (msg_view d m)) = map fv_body mand /\ map content (snd (msg_view d m)) = map content opt).
Proof.
  split; [apply strict_pairs_count|]. intros e ty d t Hin. destruct (strict_pairs_ok e ty d t Hin) as [Hl Hd]. split.
  - intros m Hw Hc. now apply ref_parse_reads_lib.
  - intros mand opt bs He. destruct (lib_reads_ref d t mand opt bs Hd Hl He) as (m & H1 & _ & H3 & H4 & H5). eauto.
Qed.
Print Assumptions c09_forty_message_types_conform_row_by_row.

(* ---- scope and non-vacuity *)
Example c09_scope :
  List.length ts24501_tables = 44%nat /\
  List.length (flat_map (fun t => tb_opt t) ts24501_tables) = 164%nat /\
  List.length uncertain_rows = 6%nat /\
  List.length layout_diffs = 2%nat /\
  map (fun p => let '(e, ty, _, _) := p in (e, ty)) (filter (fun p => let '(_, _, d, t) := p in negb (layout_strict d t)) dispatched_pairs)
  = [(0x7E, 0x41); (0x7E, 0x42); (0x2E, 0xC9); (0x2E, 0xCB)].
Proof. repeat split; vm_compute; reflexivity. Qed.

(* AUTHENTICATION REQUEST (a downlink message the emulator consumes): a reference-built message is accepted by
   the hypotheses and decoded by the library model to the intended RAND / AUTN *)
Example c09_hypotheses_met :
  let rand := repeat 17 16 in let autn := repeat 34 16 in
  existsb (fun p => let '(e, ty, d, _) := p in (e =? 0x7E) && (ty =? 0x56) && String.eqb (d_name d) "AuthenticationRequest") strict_pairs = true /\
  match find_table 0x7E 0x56 with
  | Some t =>
      layout_strict D_AuthenticationRequest t = true /\
      match ref_encode t [mk_fval true 0 0 [0x7E]; mk_fval true 0 0 [0]; mk_fval true 0 0 [0x56]; mk_fval true 0 0 [0];
                          mk_fval true 0 2 [0; 0]]
                         [mk_fval true 0x21 0 rand; mk_fval true 0x20 16 autn; absent] with
      | Ok bs =>
          match nas_decode D_AuthenticationRequest bs with
          | Ok m => lookup "AuthenticationParameterRAND"%string m = Some (mk_fval true 0x21 0 rand) /\
                    lookup "AuthenticationParameterAUTN"%string m = Some (mk_fval true 0x20 16 autn) /\
                    wf_msg D_AuthenticationRequest m = true /\ msg_conforms D_AuthenticationRequest t m = true
          | _ => False end
      | _ => False end
  | None => False end.
Proof. cbv zeta. split; [vm_compute; reflexivity|]. vm_compute. repeat split; reflexivity. Qed.

(* the two findings, as the model and the reference codec see them *)
Example c09_last_visited_tai_is_one_octet_too_long :
  match nf_of D_RegistrationRequest with
  | Some nf => map (fun x => (nf_iei x, nf_fmt x)) (filter (fun x => nf_iei x =? 0x52) nf) = [(0x52, mk_wire true false 0 (WFixed 7))]
  | None => False end.
Proof. vm_compute. reflexivity. Qed.
Example c09_requested_qos_rules_has_one_length_octet :
  match nf_of D_PDUSessionModificationRequest with
  | Some nf => map (fun x => (nf_iei x, nf_fmt x)) (filter (fun x => nf_iei x =? 0x7A) nf) = [(0x7A, mk_wire true false 1 WBuf)]
  | None => False end.
Proof. vm_compute. reflexivity. Qed.
