(* C09 — NAS wire layout follows the TS 24.501 message tables.  Statements only; proofs in
   Proofs/NasLayoutProofs.v (reflective, over the regenerated descriptors and the tables) and Proofs/NasRefProofs.v
   (generic). *)
From Coq Require Import NArith List Bool String.
Require Import Bytes NasValue NasCodec NasDesc NasCorr TS24501Tables TS24501 NasLayout NasCodecProofs NasLayoutProofs NasRefProofs.
Import ListNotations.
Open Scope N_scope.

(* For every message type of both dispatch switches: the message type is defined in TS 24.501 8.2/8.3, the
   mandatory fields have the order, format and widths of the table, every optional IE has the table's IEI, format
   (half-octet TV, TV, TLV, TLV-E), length-field width and size, in the table's order, and every IE of the table is
   implemented -- except exactly the [known_deviations] (findings) and the rows marked uncertain in the tables. *)
Theorem c09_layout_follows_tables : layout_conforms_except known_deviations = true.
Proof. exact layout_conforms. Qed.
Print Assumptions c09_layout_follows_tables.

Theorem c09_tables_are_wellformed : forallb table_ok ts24501_tables = true.
Proof. exact tables_usable. Qed.
Print Assumptions c09_tables_are_wellformed.

(* generic: when a descriptor agrees row by row with a table, the independent reference parser reads from the
   library's encoding of any well-formed, table-conformant message exactly the values the message carries ... *)
Theorem c09_reference_parser_reads_library_encoding :
  forall d t m, desc_pair_ok d = true -> wf_msg d m = true -> layout_strict d t = true -> msg_conforms d t m = true ->
  exists bs, nas_encode d m = Ok bs /\ ref_parse t bs = Ok (msg_view d m).
Proof. exact ref_parse_reads_lib. Qed.
Print Assumptions c09_reference_parser_reads_library_encoding.

(* ... and the library decodes what the independent reference encoder builds, to the same contents *)
Theorem c09_library_decodes_reference_encoding :
  forall d t mand opt bs, desc_pair_ok d = true -> layout_strict d t = true -> ref_encode t mand opt = Ok bs ->
  exists m, wf_msg d m = true /\ nas_encode d m = Ok bs /\ nas_decode d bs = Ok m /\
            map fv_body (fst (msg_view d m)) = map fv_body mand /\
            map content (snd (msg_view d m)) = map content opt.
Proof. exact lib_reads_ref. Qed.
Print Assumptions c09_library_decodes_reference_encoding.

(* lifted: both hold for 40 of the 44 message types (all but the four with a deviation or an uncertain row) *)
Theorem c09_forty_message_types_conform_row_by_row :
  List.length strict_pairs = 40%nat /\
  forall e ty d t, In (e, ty, d, t) strict_pairs ->
    (forall m, wf_msg d m = true -> msg_conforms d t m = true ->
       exists bs, nas_encode d m = Ok bs /\ ref_parse t bs = Ok (msg_view d m)) /\
    (forall mand opt bs, ref_encode t mand opt = Ok bs ->
       exists m, wf_msg d m = true /\ nas_decode d bs = Ok m /\
                 map fv_body (fst (msg_view d m)) = map fv_body mand /\ map content (snd (msg_view d m)) = map content opt).
Proof.
  split; [apply strict_pairs_count|]. intros e ty d t Hin. destruct (strict_pairs_ok e ty d t Hin) as [Hl Hd]. split.
  - intros m Hw Hc. now apply ref_parse_reads_lib.
  - intros mand opt bs He. destruct (lib_reads_ref d t mand opt bs Hd Hl He) as (m & H1 & _ & H3 & H4 & H5). eauto.
Qed.
Print Assumptions c09_forty_message_types_conform_row_by_row.

(* ---- scope and non-vacuity *)
Example c09_scope :
  List.length ts24501_tables = 44%nat /\
  List.length (flat_map (fun t => tb_opt t) ts24501_tables) = 164%nat /\
  List.length uncertain_rows = 6%nat /\
  List.length layout_diffs = 2%nat /\
  map (fun p => let '(e, ty, _, _) := p in (e, ty)) (filter (fun p => let '(_, _, d, t) := p in negb (layout_strict d t)) dispatched_pairs)
  = [(0x7E, 0x41); (0x7E, 0x42); (0x2E, 0xC9); (0x2E, 0xCB)].
Proof. repeat split; vm_compute; reflexivity. Qed.

(* AUTHENTICATION REQUEST (a downlink message the emulator consumes): a reference-built message is accepted by
   the hypotheses and decoded by the library model to the intended RAND / AUTN *)
Example c09_hypotheses_met :
  let rand := repeat 17 16 in let autn := repeat 34 16 in
  existsb (fun p => let '(e, ty, d, _) := p in (e =? 0x7E) && (ty =? 0x56) && String.eqb (d_name d) "AuthenticationRequest") strict_pairs = true /\
  match find_table 0x7E 0x56 with
  | Some t =>
      layout_strict D_AuthenticationRequest t = true /\
      match ref_encode t [mk_fval true 0 0 [0x7E]; mk_fval true 0 0 [0]; mk_fval true 0 0 [0x56]; mk_fval true 0 0 [0];
                          mk_fval true 0 2 [0; 0]]
                         [mk_fval true 0x21 0 rand; mk_fval true 0x20 16 autn; absent] with
      | Ok bs =>
          match nas_decode D_AuthenticationRequest bs with
          | Ok m => lookup "AuthenticationParameterRAND"%string m = Some (mk_fval true 0x21 0 rand) /\
                    lookup "AuthenticationParameterAUTN"%string m = Some (mk_fval true 0x20 16 autn) /\
                    wf_msg D_AuthenticationRequest m = true /\ msg_conforms D_AuthenticationRequest t m = true
          | _ => False end
      | _ => False end
  | None => False end.
Proof. cbv zeta. split; [vm_compute; reflexivity|]. vm_compute. repeat split; reflexivity. Qed.

(* the two findings, as the model and the reference codec see them *)
Example c09_last_visited_tai_is_one_octet_too_long :
  match nf_of D_RegistrationRequest with
  | Some nf => map (fun x => (nf_iei x, nf_fmt x)) (filter (fun x => nf_iei x =? 0x52) nf) = [(0x52, mk_wire true false 0 (WFixed 7))]
  | None => False end.
Proof. vm_compute. reflexivity. Qed.
Example c09_requested_qos_rules_has_one_length_octet :
  match nf_of D_PDUSessionModificationRequest with
  | Some nf => map (fun x => (nf_iei x, nf_fmt x)) (filter (fun x => nf_iei x =? 0x7A) nf) = [(0x7A, mk_wire true false 1 WBuf)]
  | None => False end.
Proof. vm_compute. reflexivity. Qed.

(* ================================================================================================================
   Sub-field layer: the accessor methods (getters/setters) of package nasType against the field layouts INSIDE the IE
   values (TS 24.501 clause 9; Spec/TS24501Fields.v).  Statements only; proofs in Proofs/NasAccProofs.v (reflective,
   over the descriptors regenerated by `harness gen-nasacc`) and Proofs/NasAccSem.v (generic). *)
Require Import NasAcc NasAccessors TS24501Fields NasAccConform NasAccCheck NasAccSem NasAccProofs.

(* For every IE type of the 16 NAS messages on the emulator's path (107 types; DNN and "maximum number of supported packet
   filters" are explicitly left out of the table) and every field of the table (513): the accessor pair the table names
   exists, was understood by the translator, lies inside the Go container, the getter reads exactly the bits of the field
   and the setter writes exactly those bits and keeps all others; every accessor of these types is tabulated or explicitly
   left out -- except exactly the [known_acc_deviations] (findings).
   Full-strength statement [accessors_ok = true] does not hold on the unchanged tree: see the _refuted theorem below. *)
Theorem c09_accessors_address_their_fields_partial : accessors_ok_except known_acc_deviations = true.
Proof. exact accessors_conform. Qed.
Print Assumptions c09_accessors_address_their_fields_partial.

(* FINDING.  nasType.TMSI5GS.SetAMFSetID (same body in GUTI5G and AdditionalGUTI) masks the second octet with
   GetBitMask(6, 6) = 0: storing an AMF Set ID clears the AMF Pointer (bits 6-1 of the same octet, TS 24.501 9.11.3.4).
   Witness: 5G-S-TMSI value f4 ff 3f 00 00 00 01, SetAMFSetID(0) gives f4 00 00 .. (table: f4 00 3f ..), GetAMFPointer 0x3f -> 0. *)
Theorem c09_set_amf_set_id_keeps_the_amf_pointer_refuted :
  exists s p, find_acc acc_descs "TMSI5GS" "SetAMFSetID" = Some s /\ find_acc acc_descs "TMSI5GS" "GetAMFPointer" = Some p /\
    let st := [0xF4; 0xFF; 0x3F; 0; 0; 0; 1] in
    octets_ok st = true /\ value_fits (FSpan 1 10) st (inl 0) = true /\ acc_get (a_body p) st = Some (inl 0x3F) /\
    exists st', acc_set (a_body s) st (inl 0) = Some st' /\ acc_get (a_body p) st' = Some (inl 0) /\
                spec_set (FSpan 1 10) st (inl 0) <> Some st'.
Proof. exact set_amf_set_id_clears_pointer. Qed.
Print Assumptions c09_set_amf_set_id_keeps_the_amf_pointer_refuted.

Theorem c09_all_accessors_address_their_fields_refuted : accessors_ok = false.
Proof. exact accessors_ok_refuted. Qed.
Print Assumptions c09_all_accessors_address_their_fields_refuted.

(* generic: what the structural check means.  For ALL octet values of the IE value, a conforming getter returns the value
   the field holds according to the table and a conforming setter stores into exactly that field (for all values that fit) *)
Theorem c09_conforming_accessors_read_and_write_the_field :
  forall c k g s, field_conforms c k g s = true ->
  forall st, octets_ok st = true ->
    acc_get g st = spec_get k st /\ (forall v, value_fits k st v = true -> acc_set s st v = spec_set k st v).
Proof. exact accessor_semantics. Qed.
Print Assumptions c09_conforming_accessors_read_and_write_the_field.

(* ... and the table's store/load: the stored value is read back, the length and every bit outside the field are unchanged *)
Theorem c09_field_store_then_load :
  forall k st v st', kind_proved k = true -> octets_ok st = true -> spec_set k st v = Some st' ->
  spec_get k st' = Some v /\ List.length st' = List.length st /\ octets_ok st' = true /\
  forall i b, (b < 8)%nat -> in_field k (List.length st) i b = false ->
    N.testbit (nth i st' 0) (N.of_nat b) = N.testbit (nth i st 0) (N.of_nat b).
Proof. exact field_store_load. Qed.
Print Assumptions c09_field_store_then_load.

(* lifted to the 510 conforming accessor pairs of the tree: getter (setter st v) = v, nothing else moves *)
Theorem c09_accessors_of_the_tree_round_trip :
  List.length conforming_fields = 510%nat /\
  forall ty f g s c st v, In (ty, f, g, s, c) conforming_fields -> octets_ok st = true -> value_fits (f_kind f) st v = true ->
  forall st', acc_set s st v = Some st' ->
    acc_get g st' = Some v /\ List.length st' = List.length st /\
    forall i b, (b < 8)%nat -> in_field (f_kind f) (List.length st) i b = false ->
      N.testbit (nth i st' 0) (N.of_nat b) = N.testbit (nth i st 0) (N.of_nat b).
Proof. split; [vm_compute; reflexivity|exact conforming_accessors_round_trip]. Qed.
Print Assumptions c09_accessors_of_the_tree_round_trip.

(* ---- scope and non-vacuity *)
Example c09_accessor_scope :
  (List.length acc_messages, List.length acc_types, List.length acc_descs, List.length ts24501_fields,
   List.length (flat_map ie_fields ts24501_fields), List.length conforming_fields, List.length acc_diffs)
  = (16, 107, 1034, 105, 513, 510, 3)%nat /\
  map (fun d => fst d) acc_diffs = known_acc_deviations /\
  filter (fun a => is_unrecognised (a_body a)) acc_descs
  = filter (fun a => String.eqb (a_type a) "DNN") acc_descs.
Proof. split; [vm_compute; reflexivity|]. split; vm_compute; reflexivity. Qed.

(* TS 24.501 9.11.4.7: octet 2 (value octet 0) = uplink, octet 3 (value octet 1) = downlink; the pair is among the
   conforming ones, the hypotheses of the round-trip theorem are met and distinct values land in distinct octets *)
Example c09_uplink_downlink :
  let up := "MaximumDataRatePerUEForUserPlaneIntegrityProtectionForUpLink"%string in
  let down := "MaximumDataRatePerUEForUserPlaneIntegrityProtectionForDownLink"%string in
  existsb (fun x => let '(ty, f, _, _, _) := x in String.eqb ty "IntegrityProtectionMaximumDataRate" && String.eqb (f_set f) (String.append "Set" up) &&
                    match f_kind f with FBits 0 8 1 => true | _ => false end) conforming_fields = true /\
  existsb (fun x => let '(ty, f, _, _, _) := x in String.eqb ty "IntegrityProtectionMaximumDataRate" && String.eqb (f_set f) (String.append "Set" down) &&
                    match f_kind f with FBits 1 8 1 => true | _ => false end) conforming_fields = true /\
  octets_ok [0; 0] = true /\ value_fits (FBits 0 8 1) [0; 0] (inl 0x11) = true /\
  run_case acc_descs "IntegrityProtectionMaximumDataRate" [0; 0]
           [(String.append "Set" up, inl 0x11); (String.append "Set" down, inl 0xEE)] [String.append "Get" up; String.append "Get" down]
  = Some ([0x11; 0xEE], [inl 0x11; inl 0xEE]).
Proof. cbv zeta. split; [vm_compute; reflexivity|]. split; [vm_compute; reflexivity|]. split; [reflexivity|]. split; vm_compute; reflexivity. Qed.
