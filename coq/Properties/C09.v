(* C09 — NAS wire layout follows the TS 24.501 message tables.  Statements only. *)
From Coq Require Import NArith List Bool String.
Require Import Bytes NasValue NasCodec NasDesc NasCorr TS24501Tables TS24501 NasLayout NasLayoutProofs.
Import ListNotations.
Open Scope N_scope.

(* For every message type of both dispatch switches: the message type is defined in TS 24.501 8.2/8.3, the
   mandatory fields have the order, format and widths of the table, every optional IE has the table's IEI, format
   (half-octet TV, TV, TLV, TLV-E), length-field width and size, in the table's order, and every IE of the table is
   implemented -- except exactly the [known_deviations] (findings) and the rows marked uncertain in the tables. *)
Theorem c09_layout_follows_tables : layout_conforms_except known_deviations = true.
Proof. exact layout_conforms. Qed.
Print Assumptions c09_layout_follows_tables.

Theorem c09_tables_are_wellformed : forallb table_ok ts24501_tables = true.
Proof. exact tables_usable. Qed.
Print Assumptions c09_tables_are_wellformed.

(* what the comparison covers *)
Example c09_scope :
  List.length ts24501_tables = 44%nat /\
  List.length (flat_map (fun t => tb_opt t) ts24501_tables) = 164%nat /\
  List.length uncertain_rows = 6%nat /\
  List.length layout_diffs = 2%nat.
Proof. repeat split; vm_compute; reflexivity. Qed.
