(* C04 - NGAP decode inverts encode; canonical encodings are accepted and re-encoded identically.
   Statements only.

   What is proved for all inputs here is the part C04 shares with C03 and C14: the partition of the NGAP schema into
   supported constraint classes + the listed instances, and - for the decoder - that every primitive reader keeps the
   cursor invariant (so decoding of an encoding never leaves the buffer).  The round trip itself is

   TODO-PARTIAL (stated in full):
     aper_roundtrip :
       forall t p v bs, supported t p -> conforms t p v -> nofrag t p v ->
         marshal t p v = Ok bs -> unmarshal (dec_fuel t) t p bs = Ok (norm v)
     aper_accepts_canonical :
       forall t p v at av bits, tags_to_asn1 t p = Some at -> abs t p v = Some av -> supported t p ->
         x691 at av 0 = XOk bits ->
         unmarshal (dec_fuel t) t p (pack bits) = Ok (norm v) /\ marshal t p (norm v) = Ok (pack bits)
     where norm masks the unused bits of a BIT STRING's last octet and identifies nil with empty slices.
     Missing: the bit-level characterisation of GetBitString / putBitString (see Properties/C03.v) from which the
     position-indexed primitive round trips dec p (enc v p ++ rest) = (v, p + |enc|, rest) follow (proved at bit level
     for the constrained whole number in the design round), and the induction over ty.
   On every check the streams prim-dec, ngap-rt and ngap-canon establish, for thousands of constraint/value pairs and
   for values of every NGAP message type: Go decode(Go encode v) = v, re-encoding = encoding, Go decode (independent
   reference encoding) = v, model decoder = Go decoder, and Coq X.691 specification = independent reference encoding. *)
From Coq Require Import NArith ZArith List Bool String.
Require Import GoSlice Bits AperCommon AperEnc AperDec Asn1 X691 Asn1Tags NgapSchema NgapGolden AperCheck X691Check
        AperSchemaProofs AperDecProofs.
Import ListNotations.
Open Scope N_scope.

Theorem c04_ngap_schema_supported :
  forall tn fn t p, In (tn, fn, t, p) ngap_fields -> supported_one t p = true \/ In (tn, fn) ngap_exceptions.
Proof. exact ngap_schema_supported. Qed.
Print Assumptions c04_ngap_schema_supported.

(* encoder and decoder size the length-of-length field of big INTEGER ranges identically (D2, repaired by fix 8116821:
   before it [bytelen_loop] stopped at `<= 1`) *)
Theorem c04_length_of_length_agrees : forall f b u, bytelen_loop f b u = bytelen_loop_dec f b u.
Proof. induction f as [|f IH]; intros b u; [reflexivity|]. cbn [bytelen_loop bytelen_loop_dec]. destruct (N.shiftr u 8 =? 0); [reflexivity|apply IH]. Qed.
Print Assumptions c04_length_of_length_agrees.

(* the decoder's cursor stays inside the buffer through every primitive reader (used by C14 as well) *)
Theorem c04_getBitsValue_keeps_cursor :
  forall s n, dinv s -> quiet (fst (getBitsValue s n)) /\ dinv (snd (getBitsValue s n)) /\ d_bytes (snd (getBitsValue s n)) = d_bytes s.
Proof. exact getBitsValue_good. Qed.
Print Assumptions c04_getBitsValue_keeps_cursor.

(* non-vacuity / instances: an NGSetupRequest value: model decoder inverts model encoder, the bytes are the ones the
   implementation produced, and they are the canonical X.691 encoding under the frozen TS 38.413 types *)
Definition ex_ngsetup : val := (VStruct [(VInt 1%Z);(VPtr (VStruct [(VStruct [(VInt 21%Z)]);(VStruct [(VEnum 0)]);(VStruct [(VInt 7%Z);VNil;VNil;VNil;VNil;VNil;VNil;(VPtr (VStruct [(VStruct [(VList [(VStruct [(VStruct [(VInt 82%Z)]);(VStruct [(VEnum 2)]);(VStruct [(VInt 2%Z);VNil;(VPtr (VStruct [(VOctets [100;122;108;103;114;49;106;113;101;115;97;103;50;57;119;97;48;122])]));VNil;VNil])]);(VStruct [(VStruct [(VInt 27%Z)]);(VStruct [(VEnum 2)]);(VStruct [(VInt 1%Z);(VPtr (VStruct [(VInt 1%Z);(VPtr (VStruct [(VStruct [(VOctets [142;184;201])]);(VStruct [(VInt 1%Z);(VPtr (VBits [246;97;27;106] 32));VNil]);VNil]));VNil;VNil;VNil]));VNil;VNil;VNil])])])])]));VNil;VNil;VNil;VNil;VNil;VNil;VNil;VNil;VNil;VNil;VNil;VNil;VNil;VNil;VNil;VNil;VNil;VNil;VNil;VNil;VNil;VNil;VNil;VNil;VNil;VNil;VNil;VNil;VNil;VNil;VNil;VNil;VNil;VNil;VNil;VNil;VNil;VNil;VNil;VNil;VNil;VNil;VNil;VNil;VNil])]));VNil;VNil]).
Definition ex_ngsetup_bytes : list N := [0;21;0;40;0;0;2;0;82;128;20;8;128;100;122;108;103;114;49;106;113;101;115;97;103;50;57;119;97;48;122;0;27;128;9;0;142;184;201;80;246;97;27;106].
Example c04_ngsetup_roundtrip_example :
  marshal (root_ty "NGAPPDU") (root_penc "NGAPPDU") ex_ngsetup = Ok ex_ngsetup_bytes
  /\ unmarshal (dec_fuel (root_ty "NGAPPDU")) (root_ty "NGAPPDU") (root_pdec "NGAPPDU") ex_ngsetup_bytes = Ok ex_ngsetup
  /\ ngap_canon_spec_check ("NGAPPDU"%string, ex_ngsetup, ex_ngsetup_bytes, DPanic) = true.
Proof. repeat split; vm_compute; reflexivity. Qed.

(* primitive round trips on the model at every bit offset 0..7 for a table of constraint shapes (finite, by computation) *)
Definition rt_shapes : list (ty * params * val) :=
  [(TInt, mkp false false false false None None (Some 0%Z) (Some 255%Z) None "", VInt 200);
   (TInt, mkp false false false false None None (Some 0%Z) (Some 131071%Z) None "", VInt 70000);
   (TInt, mkp false false true false None None (Some 0%Z) (Some 4000000000000%Z) None "", VInt 4000000000001);
   (TInt, mkp false false false false None None None None None "", VInt (-129));
   (TEnum, mkp false false true false None None (Some 0%Z) (Some 5%Z) None "", VEnum 3);
   (TBool, p_empty, VBool true);
   (TOctets, mkp false false false false (Some 3%Z) (Some 3%Z) None None None "", VOctets [1; 2; 3]);
   (TOctets, mkp false true false false (Some 1%Z) (Some 150%Z) None None None "", VOctets [104; 105]);
   (TOctets, p_empty, VOctets (repeat 7 130));
   (TBits, mkp false false false false (Some 6%Z) (Some 6%Z) None None None "", VBits [168] 6);
   (TBits, mkp false true false false (Some 1%Z) (Some 160%Z) None None None "", VBits [192; 168; 0; 1] 32)]%string.
Definition rt_at (pre : nat) (x : ty * params * val) : bool :=
  let '(t, p, v) := x in
  let T := TStruct (map (fun i => ("P"%string, p_empty, TBool)) (seq 0 pre) ++ [("V"%string, p, t)]) in
  let V := VStruct (map (fun i => VBool (Nat.even i)) (seq 0 pre) ++ [v]) in
  match marshal T p_empty V with
  | Ok bs => match unmarshal (dec_fuel T) T p_empty bs with Ok V' => val_eqb V V' | _ => false end
  | _ => false
  end.
Example c04_primitive_roundtrips_table :
  forallb (fun pre => forallb (rt_at pre) rt_shapes) (seq 0 8) = true.
Proof. vm_compute. reflexivity. Qed.
