(* C04 - NGAP decode inverts encode; canonical encodings are accepted and re-encoded identically.
   Statements only; proofs in Proofs/AperRound*.v (reader at bit level, primitive readers, structural induction) on top of
   Proofs/AperBits*.v and Proofs/AperStruct*.v (C03).

   Main statements (for every Go type t, tag parameters p; "supported" = the decidable, value-directed side conditions
   sup (on the Go value, Proofs/AperStructDefs.v) and supa (on the abstract value, Proofs/AperRoundDefs.v)):

     c04_accepts_canonical :  tags_to_asn1 t p = Some at -> supa t p av = true -> x691 at av 0 = XOk bits -> small bits ->
                              exists v', unmarshal (dec_fuel t) t p (pack bits) = Ok v' /\ abs t p v' = Some av
                                         /\ marshal t p v' = Ok (pack bits)
       every canonical X.691 encoding (of an abstract value within the supported classes, unfragmented) is accepted,
       decoded to a Go value that denotes the abstract value it encodes, and re-encoded to exactly the same bytes;

     c04_roundtrip : ... abs t p v = Some av -> sup t p v = true -> ... ->
                     exists bs v', marshal t p v = Ok bs /\ unmarshal (dec_fuel t) t p bs = Ok v' /\
                                   abs t p v' = abs t p v /\ marshal t p v' = Ok bs
       decoding the encoding of v yields a value v' denoting the same abstract value as v, and re-encoding v' reproduces
       the bytes.

   Why "abs t p v' = abs t p v" and not "v' = norm v": the decoder slices BIT STRING contents out of the input without
   clearing the unused low bits of the last octet (they hold the next field's bits), so the decoded Go value depends on
   what follows it in the buffer and is not a function of v.  abs (Spec/Asn1Tags.v) reads a Go value as an ASN.1 value
   and forgets exactly what the codec does not carry: those unused bits and the non-selected alternatives of a CHOICE
   (the decoder zeroes them).  Equality of abs is equality "in every field" of the ASN.1 value.

   TODO-PARTIAL (stated in full):
     aper_roundtrip_norm : unmarshal (dec_fuel t) t p bs = Ok (norm v)  for a normalisation norm : val -> val.
       Not provable as stated (see above: v' is not a function of v); what is proved instead is abs t p v' = abs t p v.
       The derivation of supa t p av from sup t p v and abs t p v = Some av (they state the same class conditions on
       the two sides, supa adding the non-emptiness of components) is not done: both are hypotheses of c04_roundtrip.
     Classes excluded by sup / supa are those listed in Properties/C03.v plus, for decoding, a component that occupies
     zero bits at the very end of the buffer (the library answers "sequence truncated": supa asks every component
     reached to be of a statically non-empty type, ne_f) and CHOICE types with OPTIONAL-tagged alternatives.
   On every check the streams prim-dec, ngap-rt and ngap-canon establish, for thousands of constraint/value pairs and
   for values of every NGAP message type: Go decode(Go encode v) = v, re-encoding = encoding, Go decode (independent
   reference encoding) = v, model decoder = Go decoder, and Coq X.691 specification = independent reference encoding. *)
From Coq Require Import NArith ZArith List Bool String.
Require Import GoSlice Bits AperCommon AperEnc AperDec Asn1 X691 Asn1Tags NgapSchema NgapGolden AperCheck X691Check
        AperSchemaProofs AperDecProofs AperBits AperBitsGet AperBitsPut AperStructDefs AperStructMain
        AperRoundGet AperRoundPrim AperRoundLeaf AperRoundStr AperRoundBits AperRoundDefs AperRoundNe AperRoundMain AperRoundTop.
Import ListNotations.
Open Scope N_scope.

Theorem c04_ngap_schema_supported :
  forall tn fn t p, In (tn, fn, t, p) ngap_fields -> supported_one t p = true \/ In (tn, fn) ngap_exceptions.
Proof. exact ngap_schema_supported. Qed.
Print Assumptions c04_ngap_schema_supported.

(* encoder and decoder size the length-of-length field of big INTEGER ranges identically (D2, repaired by fix 8116821:
   before it [bytelen_loop] stopped at `<= 1`) *)
Theorem c04_length_of_length_agrees : forall f b u, bytelen_loop f b u = bytelen_loop_dec f b u.
Proof. induction f as [|f IH]; intros b u; [reflexivity|]. cbn [bytelen_loop bytelen_loop_dec]. destruct (N.shiftr u 8 =? 0); [reflexivity|apply IH]. Qed.
Print Assumptions c04_length_of_length_agrees.

(* the decoder's cursor stays inside the buffer through every primitive reader (used by C14 as well) *)
Theorem c04_getBitsValue_keeps_cursor :
  forall s n, dinv s -> quiet (fst (getBitsValue s n)) /\ dinv (snd (getBitsValue s n)) /\ d_bytes (snd (getBitsValue s n)) = d_bytes s.
Proof. exact getBitsValue_good. Qed.
Print Assumptions c04_getBitsValue_keeps_cursor.

(* ---- the reader at bit level: [at_pos d bs pos] = the cursor of d over the buffer bs stands at bit pos;
   [bits_at bs pos b] = the buffer continues at bit pos with the bits b *)
Theorem c04_getBitsValue_reads_bits :
  forall d bs pos n, at_pos d bs pos -> buf bs -> 1 <= n <= 64 -> (pos + N.to_nat n <= 8 * List.length bs)%nat ->
    exists d', getBitsValue d n = (Ok (N_of_bits (firstn (N.to_nat n) (skipn pos (bits_of_bytes bs)))), d')
               /\ at_pos d' bs (pos + N.to_nat n).
Proof. exact getBitsValue_at. Qed.
Print Assumptions c04_getBitsValue_reads_bits.

(* ---- primitive round trips, position-indexed: if the buffer continues at the cursor with the X.691 bits of a value,
   the reader returns the value and advances by exactly those bits *)
Theorem c04_constrained_whole_number_roundtrip :
  forall d bs pos range v b, at_pos d bs pos -> buf bs -> 2 <= range <= 65536 -> v < range -> cwn range v pos = XOk b -> bits_at bs pos b ->
    dec_ok (parseConstraintValue d (Z.of_N range)) bs (pos + List.length b) v.
Proof. exact rd_cwn. Qed.
Print Assumptions c04_constrained_whole_number_roundtrip.

Theorem c04_length_determinant_roundtrip :
  forall d bs pos n b, at_pos d bs pos -> buf bs -> n < 16384 -> lendet n pos = XOk b -> bits_at bs pos b ->
    dec_ok (parseLength d (-1)) bs (pos + List.length b) (n, false).
Proof. exact rd_lendet. Qed.
Print Assumptions c04_length_determinant_roundtrip.

Theorem c04_integer_roundtrip :
  forall d bs pos lb ub z e,
    at_pos d bs pos -> buf bs -> (lb <= z <= ub)%Z -> (- 4611686018427387904 < lb)%Z -> (ub < 4611686018427387904)%Z ->
    ((ub - lb + 1 <= 65536)%Z \/ (lb = 0 /\ 65536 <= ub)%Z) ->
    cwn (Z.to_N (ub - lb + 1)) (Z.to_N (z - lb)) pos = XOk e -> bits_at bs pos e ->
    dec_ok (parseInteger d false (Some lb) (Some ub)) bs (pos + List.length e) z.
Proof. exact rd_int. Qed.
Print Assumptions c04_integer_roundtrip.

Theorem c04_octet_string_roundtrip :
  forall d bs pos lb ub bytes b,
    at_pos d bs pos -> buf bs -> bok bytes -> (0 <= lb <= ub)%Z -> (0 < ub < 65536)%Z ->
    Z.to_N lb <= len bytes <= Z.to_N ub ->
    enc_string (Z.to_N lb) (Some (Z.to_N ub)) false (len bytes) (bits_of_bytes bytes) (Z.to_N ub <=? 2) pos = XOk b ->
    bits_at bs pos b ->
    dec_ok (parseOctetString d false (Some lb) (Some ub)) bs (pos + List.length b) bytes.
Proof. exact rd_octets_constrained. Qed.
Print Assumptions c04_octet_string_roundtrip.

(* BIT STRING: the octets returned are determined on their first BitLength bits *)
Theorem c04_bit_string_roundtrip :
  forall d bs pos lb ub c b,
    at_pos d bs pos -> buf bs -> (0 <= lb <= ub)%Z -> (0 < ub < 65536)%Z ->
    Z.to_N lb <= N.of_nat (List.length c) <= Z.to_N ub ->
    enc_string (Z.to_N lb) (Some (Z.to_N ub)) false (N.of_nat (List.length c)) c (Z.to_N ub <=? 16) pos = XOk b ->
    bits_at bs pos b ->
    exists r, dec_ok (parseBitString d false (Some lb) (Some ub)) bs (pos + List.length b) r /\ bits_val r c.
Proof. exact rd_bitstring_constrained. Qed.
Print Assumptions c04_bit_string_roundtrip.

(* ---- whole values *)
Theorem c04_decode_canonical :
  forall t p at' av bits,
    tags_to_asn1 t p = Some at' -> supa t p av = true -> x691 at' av 0 = XOk bits -> small bits ->
    exists v', unmarshal (dec_fuel t) t p (pack bits) = Ok v' /\ abs t p v' = Some av /\ sup t p v' = true.
Proof. exact unmarshal_canonical. Qed.
Print Assumptions c04_decode_canonical.

Theorem c04_accepts_canonical :
  forall t p at' av bits,
    tags_to_asn1 t p = Some at' -> supa t p av = true -> x691 at' av 0 = XOk bits -> small bits ->
    exists v', unmarshal (dec_fuel t) t p (pack bits) = Ok v' /\ abs t p v' = Some av /\ marshal t p v' = Ok (pack bits).
Proof. exact accepts_canonical. Qed.
Print Assumptions c04_accepts_canonical.

Theorem c04_roundtrip :
  forall t p v at' av bits,
    tags_to_asn1 t p = Some at' -> abs t p v = Some av -> sup t p v = true -> supa t p av = true ->
    x691 at' av 0 = XOk bits -> small bits ->
    exists bs v', marshal t p v = Ok bs /\ unmarshal (dec_fuel t) t p bs = Ok v' /\ abs t p v' = abs t p v /\ marshal t p v' = Ok bs.
Proof. exact roundtrip. Qed.
Print Assumptions c04_roundtrip.

(* for the NGAP PDU and the transfer / container roots (encoding and decoding calls use the same parameters) *)
Theorem c04_ngap_roundtrip :
  forall name t pe pd v at' av bits,
    In (name, t, pe, pd) ngap_roots_full -> tags_to_asn1 t pe = Some at' -> abs t pe v = Some av -> sup t pe v = true -> supa t pe av = true ->
    x691 at' av 0 = XOk bits -> small bits ->
    exists bs v', marshal t pe v = Ok bs /\ unmarshal (dec_fuel t) t pe bs = Ok v' /\ abs t pe v' = abs t pe v /\ marshal t pe v' = Ok bs.
Proof. intros name t pe pd v at' av bits _. apply roundtrip. Qed.
Print Assumptions c04_ngap_roundtrip.

Theorem c04_ngap_root_params_agree :
  forallb (fun r => let '(n, t, pe, pd) := r in AperSchemaProofs.params_eqb pe pd) ngap_roots_full = true.
Proof. vm_compute. reflexivity. Qed.
Print Assumptions c04_ngap_root_params_agree.

(* non-vacuity / instances: an NGSetupRequest value: model decoder inverts model encoder, the bytes are the ones the
   implementation produced, and they are the canonical X.691 encoding under the frozen TS 38.413 types *)
Definition ex_ngsetup : val := (VStruct [(VInt 1%Z);(VPtr (VStruct [(VStruct [(VInt 21%Z)]);(VStruct [(VEnum 0)]);(VStruct [(VInt 7%Z);VNil;VNil;VNil;VNil;VNil;VNil;(VPtr (VStruct [(VStruct [(VList [(VStruct [(VStruct [(VInt 82%Z)]);(VStruct [(VEnum 2)]);(VStruct [(VInt 2%Z);VNil;(VPtr (VStruct [(VOctets [100;122;108;103;114;49;106;113;101;115;97;103;50;57;119;97;48;122])]));VNil;VNil])]);(VStruct [(VStruct [(VInt 27%Z)]);(VStruct [(VEnum 2)]);(VStruct [(VInt 1%Z);(VPtr (VStruct [(VInt 1%Z);(VPtr (VStruct [(VStruct [(VOctets [142;184;201])]);(VStruct [(VInt 1%Z);(VPtr (VBits [246;97;27;106] 32));VNil]);VNil]));VNil;VNil;VNil]));VNil;VNil;VNil])])])])]));VNil;VNil;VNil;VNil;VNil;VNil;VNil;VNil;VNil;VNil;VNil;VNil;VNil;VNil;VNil;VNil;VNil;VNil;VNil;VNil;VNil;VNil;VNil;VNil;VNil;VNil;VNil;VNil;VNil;VNil;VNil;VNil;VNil;VNil;VNil;VNil;VNil;VNil;VNil;VNil;VNil;VNil;VNil;VNil;VNil])]));VNil;VNil]).
Definition ex_ngsetup_bytes : list N := [0;21;0;40;0;0;2;0;82;128;20;8;128;100;122;108;103;114;49;106;113;101;115;97;103;50;57;119;97;48;122;0;27;128;9;0;142;184;201;80;246;97;27;106].
Example c04_ngsetup_roundtrip_example :
  marshal (root_ty "NGAPPDU") (root_penc "NGAPPDU") ex_ngsetup = Ok ex_ngsetup_bytes
  /\ unmarshal (dec_fuel (root_ty "NGAPPDU")) (root_ty "NGAPPDU") (root_pdec "NGAPPDU") ex_ngsetup_bytes = Ok ex_ngsetup
  /\ ngap_canon_spec_check ("NGAPPDU"%string, ex_ngsetup, ex_ngsetup_bytes, DPanic) = true.
Proof. repeat split; vm_compute; reflexivity. Qed.

(* primitive round trips on the model at every bit offset 0..7 for a table of constraint shapes (finite, by computation) *)
Definition rt_shapes : list (ty * params * val) :=
  [(TInt, mkp false false false false None None (Some 0%Z) (Some 255%Z) None "", VInt 200);
   (TInt, mkp false false false false None None (Some 0%Z) (Some 131071%Z) None "", VInt 70000);
   (TInt, mkp false false true false None None (Some 0%Z) (Some 4000000000000%Z) None "", VInt 4000000000001);
   (TInt, mkp false false false false None None None None None "", VInt (-129));
   (TEnum, mkp false false true false None None (Some 0%Z) (Some 5%Z) None "", VEnum 3);
   (TBool, p_empty, VBool true);
   (TOctets, mkp false false false false (Some 3%Z) (Some 3%Z) None None None "", VOctets [1; 2; 3]);
   (TOctets, mkp false true false false (Some 1%Z) (Some 150%Z) None None None "", VOctets [104; 105]);
   (TOctets, p_empty, VOctets (repeat 7 130));
   (TBits, mkp false false false false (Some 6%Z) (Some 6%Z) None None None "", VBits [168] 6);
   (TBits, mkp false true false false (Some 1%Z) (Some 160%Z) None None None "", VBits [192; 168; 0; 1] 32)]%string.
Definition rt_at (pre : nat) (x : ty * params * val) : bool :=
  let '(t, p, v) := x in
  let T := TStruct (map (fun i => ("P"%string, p_empty, TBool)) (seq 0 pre) ++ [("V"%string, p, t)]) in
  let V := VStruct (map (fun i => VBool (Nat.even i)) (seq 0 pre) ++ [v]) in
  match marshal T p_empty V with
  | Ok bs => match unmarshal (dec_fuel T) T p_empty bs with Ok V' => val_eqb V V' | _ => false end
  | _ => false
  end.
Example c04_primitive_roundtrips_table :
  forallb (fun pre => forallb (rt_at pre) rt_shapes) (seq 0 8) = true.
Proof. vm_compute. reflexivity. Qed.

(* the hypotheses of c04_roundtrip hold for the NGSetupRequest above *)
Example c04_structural_hypotheses_met :
  sup (root_ty "NGAPPDU") (root_penc "NGAPPDU") ex_ngsetup = true /\
  match abs (root_ty "NGAPPDU") (root_penc "NGAPPDU") ex_ngsetup with
  | Some av => supa (root_ty "NGAPPDU") (root_penc "NGAPPDU") av
  | None => false
  end = true.
Proof. split; vm_compute; reflexivity. Qed.
