(* C13, ranges - part 4: the emulator's wrappers with integer identifiers only (no list argument). *)
From Coq Require Import ZArith NArith List String Bool Lia.
From Coq Require Import ZifyN ZifyNat ZifyBool.
Require Import GoSlice AperCommon AperEnc AperDec NgapSchema AperCheck BuildersT TS38413 Builders Builders13 Asn1 X691 Asn1Tags
        AperStructDefs AperStructRefDefs AperStructSize Builders13Range Builders13RangeX Builders13RangeNE Builders13RangeTac.
Import ListNotations.
Open Scope string_scope.

(* ---- UplinkNASTransport *)
Definition tU := Eval vm_compute in match b_variants B_GetUplinkNASTransport with (_, t) :: _ => t | _ => TVNil end.
Lemma G_uplink s z1 z2 bs :
  lookup "amfUeNgapID" (e_args s) = Some (BuildersT.AInt z1) -> lookup "ranUeNgapID" (e_args s) = Some (BuildersT.AInt z2) ->
  lookup "nasPdu" (e_args s) = Some (ABytes bs) -> octs_ok bs = true -> (len bs < 15000)%N ->
  octs_ok (e_plmn s) = true -> len (e_plmn s) = 3%N ->
  good (inst s None tU) [AMF z1; RAN z2].
Proof. intros. unfold tU. inst_tac. gen_plmn s. good_tac. Qed.

Theorem R_uplink s : env_wf B_GetUplinkNASTransport s = true ->
  (ids_ok B_GetUplinkNASTransport s = true -> exists bs, encode_call B_GetUplinkNASTransport s = Ok bs) /\
  (ids_ok B_GetUplinkNASTransport s = false -> exists e, encode_call B_GetUplinkNASTransport s = Err e).
Proof. intros Hwf. env_tac B_GetUplinkNASTransport Hwf. get_good G_uplink. Qed.

(* ---- InitialContextSetupResponse (registration) *)
Definition tICS := Eval vm_compute in match b_variants B_GetInitialContextSetupResponse with (_, t) :: _ => t | _ => TVNil end.
Lemma G_ics s z1 z2 :
  lookup "amfUeNgapID" (e_args s) = Some (BuildersT.AInt z1) -> lookup "ranUeNgapID" (e_args s) = Some (BuildersT.AInt z2) ->
  good (inst s None tICS) [AMF z1; RAN z2].
Proof. intros. unfold tICS. inst_tac. good_tac. Qed.
Theorem R_ics s : env_wf B_GetInitialContextSetupResponse s = true ->
  (ids_ok B_GetInitialContextSetupResponse s = true -> exists bs, encode_call B_GetInitialContextSetupResponse s = Ok bs) /\
  (ids_ok B_GetInitialContextSetupResponse s = false -> exists e, encode_call B_GetInitialContextSetupResponse s = Err e).
Proof. intros Hwf. env_tac B_GetInitialContextSetupResponse Hwf. get_good G_ics. Qed.

(* ---- PDUSessionResourceReleaseResponse *)
Definition tRel := Eval vm_compute in match b_variants B_GetPDUSessionResourceReleaseResponse with (_, t) :: _ => t | _ => TVNil end.
Lemma G_rel s z1 z2 z3 :
  lookup "amfUeNgapID" (e_args s) = Some (BuildersT.AInt z1) -> lookup "ranUeNgapID" (e_args s) = Some (BuildersT.AInt z2) ->
  lookup "pduId" (e_args s) = Some (BuildersT.AInt z3) ->
  good (inst s None tRel) [AMF z1; RAN z2; SID z3].
Proof. intros. unfold tRel. inst_tac. good_tac. Qed.
Theorem R_rel s : env_wf B_GetPDUSessionResourceReleaseResponse s = true ->
  (ids_ok B_GetPDUSessionResourceReleaseResponse s = true -> exists bs, encode_call B_GetPDUSessionResourceReleaseResponse s = Ok bs) /\
  (ids_ok B_GetPDUSessionResourceReleaseResponse s = false -> exists e, encode_call B_GetPDUSessionResourceReleaseResponse s = Err e).
Proof. intros Hwf. env_tac B_GetPDUSessionResourceReleaseResponse Hwf. get_good G_rel. Qed.
