(* Proofs for C06 / C10: Model/NasSec.v (the Go code) against Spec/RefNasPeer.v (the reference peer), for ALL
   histories, parametric in the two algorithm entry points [enc] (security.NASEncrypt) and [mac]
   (security.NASMacCalculate).  Model and reference peer are instantiated with the same two functions here;
   C07 (Properties/C07.v: c07_nas_encrypt_is_spec, c07_nas_mac_is_spec) identifies Model/Security.v's
   nas_encrypt / nas_mac with the 3GPP algorithms the executable reference peer uses. *)
From Coq Require Import NArith ZArith Lia Bool List.
From Coq Require Import ZifyN ZifyNat ZifyBool.
Require Import Bytes Count NasSec RefNasPeer CountProofs.
Import ListNotations.
Ltac Zify.zify_post_hook ::= Z.div_mod_to_equations.
Open Scope N_scope.

Local Arguments N.mul : simpl never.
Local Arguments N.add : simpl never.
Local Arguments N.modulo : simpl never.
Local Arguments N.div : simpl never.
Local Arguments N.ltb : simpl never.
Local Arguments N.eqb : simpl never.
Local Arguments N.land : simpl never.
Local Arguments N.lor : simpl never.

Definition wf (st:ue_state) : Prop := ul st < 16777216 /\ dl st < 16777216.
Definition ctx_of (st:ue_state) : sec_ctx := mk_ctx (ea st) (ia st) (kenc st) (kint st).
Definition res_of (o:option (list N)) : nres bytes := match o with Some b => Ok b | None => Err end.
Definition all_some {A} (l:list (option A)) : Prop := Forall (fun o => o <> None) l.

Lemma eqb_octets_refl a : eqb_octets a a = true.
Proof. induction a as [|x a IH]; cbn [eqb_octets]; [reflexivity|]. rewrite N.eqb_refl, IH. reflexivity. Qed.
Lemma eqb_octets_eq a b : eqb_octets a b = true -> a = b.
Proof.
  revert b; induction a as [|x a IH]; intros [|y b] H; cbn [eqb_octets] in H; try discriminate; [reflexivity|].
  apply andb_true_iff in H. destruct H as [H1 H2]. apply N.eqb_eq in H1. f_equal; [assumption|apply IH; assumption].
Qed.

Lemma init_ue_wf e i k1 k2 : wf (init_ue e i k1 k2).
Proof. split; cbn; lia. Qed.

Lemma norm_wf st :
  wf st -> with_dl (with_ul st (cnt_mask (ul st))) (cnt_mask (dl st)) = st.
Proof.
  destruct st as [u d e i k1 k2]. intros [Hu Hd]. cbn [ul dl] in Hu, Hd.
  cbv [with_dl with_ul]. cbn [ul dl ea ia kenc kint]. rewrite !cnt_mask_id by assumption. reflexivity.
Qed.

(* ---- COUNT arithmetic of the reference peer (no algorithm involved) *)
Lemma ul_next_lt c : ul_next c < 16777216.
Proof. unfold ul_next. change COUNT_MOD with 16777216. lia. Qed.
Lemma ul_count_for_lt c n : c < 16777216 -> ul_count_for c n < 16777216.
Proof. intro H. unfold ul_count_for. destruct n; lia. Qed.

Lemma dl_count_lt last h d : dl_count last h d < 16777216.
Proof. unfold dl_count. change COUNT_MOD with 16777216. destruct (hdr_newctx h); lia. Qed.

Lemma estimate_in_sync c : c < 16777216 -> estimate c (c mod 256) = c.
Proof.
  intro H. unfold estimate. change COUNT_MOD with 16777216.
  destruct (N.ltb_spec (c mod 256) (c mod 256)); lia.
Qed.

(* no new context in between: message i (from 0) carries next + i mod 2^24 *)
Lemma ul_counts_run : forall (news:list bool) next,
  next < 16777216 -> Forall (fun b => b = false) news ->
  ul_counts next news = map (fun i => (next + N.of_nat i) mod 16777216) (seq 0 (length news)).
Proof.
  induction news as [|b r IH]; intros next Hn Hall; [reflexivity|].
  inversion Hall as [|? ? Hb Hr]; subst.
  cbn [ul_counts length seq map]. unfold ul_count_for at 1 2.
  rewrite IH by (try apply ul_next_lt; assumption).
  f_equal; [lia|].
  rewrite <- seq_shift, map_map. apply map_ext. intro i.
  unfold ul_next. change COUNT_MOD with 16777216. lia.
Qed.

(* the i-th message since the last new-context message (which is message 1) carries COUNT i-1 mod 2^24 *)
Theorem ul_counts_since_reset : forall (pre rest:list bool) next,
  Forall (fun b => b = false) rest ->
  ul_counts next (pre ++ true :: rest) =
  ul_counts next pre ++ map (fun i => N.of_nat i mod 16777216) (seq 0 (S (length rest))).
Proof.
  induction pre as [|b pre IH]; intros rest next Hall.
  - cbn [app ul_counts ul_count_for]. rewrite ul_counts_run by (try apply ul_next_lt; assumption).
    cbn [seq map]. f_equal.
    rewrite <- seq_shift, map_map. apply map_ext. intro i.
    unfold ul_next. change COUNT_MOD with 16777216. lia.
  - cbn [app ul_counts]. rewrite IH by assumption. reflexivity.
Qed.

Section Crypto.
Variable enc : N -> list N -> N -> N -> N -> list N -> option (list N).
Variable mac : N -> list N -> N -> N -> N -> list N -> option (list N).

(* ===================================================================== uplink: NASEncode = the reference sender *)

(* one message, no hypothesis on the algorithms: the code protects with COUNT = ULCount (0 after a new-context
   reset), exactly as the reference sender does, and increments; when an algorithm refuses, the error is returned
   with the counters reset (if asked) but not incremented *)
Lemma nas_encode_newctx_unfold st plain hdr epd :
  nas_encode enc mac st plain hdr true true epd =
  nas_encode enc mac (with_dl (with_ul st (cnt_set (ul st) 0 0)) (cnt_set (dl st) 0 0)) plain hdr true false epd.
Proof. reflexivity. Qed.

Lemma nas_encode_same_ctx u d e i k1 k2 plain hdr :
  u < 16777216 ->
  nas_encode enc mac (mk_ue u d e i k1 k2) plain hdr true false Epd5GSMobilityManagementMessage =
  match protect enc mac (mk_ctx e i k1 k2) UPLINK u hdr plain with
  | Some pkt => (mk_ue (ul_next u) d e i k1 k2, Ok pkt)
  | None => (mk_ue u d e i k1 k2, Err)
  end.
Proof.
  intro Hu. unfold nas_encode, protect, ul_next. cbn [negb].
  cbv [with_dl with_ul]. cbn [ul dl ea ia kenc kint c_ea c_ia c_kenc c_kint].
  change (hdr_ciphered hdr) with (ciphered_type hdr).
  change Bearer3GPP with 1. change BEARER_3GPP with 1. change DirectionUplink with 0. change UPLINK with 0.
  change COUNT_MOD with 16777216. change EPD_5GMM with Epd5GSMobilityManagementMessage.
  rewrite !(cnt_get_id u) by assumption. rewrite cnt_sqn_mod.
  destruct (ciphered_type hdr).
  - cbn [ul dl ea ia kenc kint].
    destruct (enc e k1 u 1 0 plain) as [body|]; [|reflexivity].
    cbn [ul dl ea ia kenc kint]. rewrite ?(cnt_get_id u) by assumption. cbn [ul dl ea ia kenc kint].
    destruct (mac i k2 u 1 0 (u mod 256 :: body)) as [m|]; [|reflexivity].
    rewrite cnt_addone_24 by assumption. reflexivity.
  - cbn [ul dl ea ia kenc kint]. rewrite ?(cnt_get_id u) by assumption. cbn [ul dl ea ia kenc kint].
    destruct (mac i k2 u 1 0 (u mod 256 :: plain)) as [m|]; [|reflexivity].
    rewrite cnt_addone_24 by assumption. reflexivity.
Qed.

Lemma nas_encode_is_protect st plain hdr newctx :
  wf st ->
  nas_encode enc mac st plain hdr true newctx Epd5GSMobilityManagementMessage =
  let c := ul_count_for (ul st) newctx in
  let d := if newctx then 0 else dl st in
  match protect enc mac (ctx_of st) UPLINK c hdr plain with
  | Some pkt => (mk_ue (ul_next c) d (ea st) (ia st) (kenc st) (kint st), Ok pkt)
  | None => (mk_ue c d (ea st) (ia st) (kenc st) (kint st), Err)
  end.
Proof.
  destruct st as [u d e i k1 k2]. intros [Hu Hd]. cbn [ul dl] in Hu, Hd.
  unfold ctx_of, ul_count_for. cbn [ul dl ea ia kenc kint]. cbv zeta.
  destruct newctx.
  - rewrite nas_encode_newctx_unfold. cbv [with_dl with_ul]. cbn [ul dl ea ia kenc kint].
    rewrite !cnt_set_0 by assumption. apply nas_encode_same_ctx. lia.
  - apply nas_encode_same_ctx. assumption.
Qed.

(* without a security context the bytes are returned unchanged and nothing is touched *)
Lemma nas_encode_no_context st plain hdr newctx epd :
  nas_encode enc mac st plain hdr false newctx epd = (st, Ok plain).
Proof. reflexivity. Qed.

(* ---- histories.  ops = (plain, hdr, newctx), every message sent with a security context *)
Definition ul_ops := list (list N * N * bool).
Definition send_of (o:list N * N * bool) : hop := let '(p, h, n) := o in HSend (Some p) h true n.
Definition any_newctx (ops:ul_ops) : bool := existsb (fun o => snd o) ops.
Definition hdr_ok (o:list N * N * bool) : Prop := 1 <= snd (fst o) /\ snd (fst o) <= 4.

(* expected observations: protected message i, then ULCount = COUNT_i + 1 and DLCount (0 once a new context was taken) *)
Fixpoint ul_expected (ctx:sec_ctx) (next dl0:N) (ops:ul_ops) : list (nres bytes * N * N) :=
  match ops with
  | [] => []
  | (plain, hdr, newctx) :: r =>
    let c := ul_count_for next newctx in
    let d := if newctx then 0 else dl0 in
    (res_of (protect enc mac ctx UPLINK c hdr plain), ul_next c, d) :: ul_expected ctx (ul_next c) d r
  end.

Lemma w8_small h : h <= 4 -> w8 h = h.
Proof. intro H. rewrite w8_mod. lia. Qed.

Theorem ul_history_is_reference_sender : forall (ops:ul_ops) st,
  wf st -> Forall hdr_ok ops ->
  all_some (fst (ul_history enc mac (ctx_of st) (ul st) ops)) ->
  hrun enc mac st (map send_of ops) = ul_expected (ctx_of st) (ul st) (dl st) ops.
Proof.
  induction ops as [|[[plain hdr] newctx] r IH]; intros st Hwf Hok Hall; [reflexivity|].
  inversion Hok as [|? ? [H1 H2] Hok']; subst. cbn [fst snd] in H1, H2.
  cbn [map send_of hrun hstep encode_nas_pdu_with_security ul_expected].
  rewrite w8_small by assumption.
  rewrite nas_encode_is_protect by assumption. cbv zeta.
  cbn [ul_history] in Hall.
  destruct (ul_history enc mac (ctx_of st) (ul_next (ul_count_for (ul st) newctx)) r) as [outs fin] eqn:Hh.
  cbn [fst] in Hall. inversion Hall as [|? ? Hsome Hall']; subst.
  destruct (protect enc mac (ctx_of st) UPLINK (ul_count_for (ul st) newctx) hdr plain) as [pkt|] eqn:Hp; [|congruence].
  destruct Hwf as [Hu Hd].
  set (st1 := mk_ue (ul_next (ul_count_for (ul st) newctx)) (if newctx then 0 else dl st) (ea st) (ia st) (kenc st) (kint st)).
  assert (Hwf1 : wf st1).
  { split; cbn [ul dl st1]; [apply ul_next_lt|destruct newctx; lia]. }
  rewrite (norm_wf st1 Hwf1).
  cbn [res_of]. f_equal.
  specialize (IH st1 Hwf1 Hok').
  change (ctx_of st1) with (ctx_of st) in IH. cbn [ul dl st1] in IH.
  apply IH. rewrite Hh. exact Hall'.
Qed.

(* the final state as a left fold of the step function: ULCount ends at the COUNT the reference sender would use next *)
Definition hfold (st:ue_state) (ops:list hop) : ue_state := fold_left (fun s o => fst (hstep enc mac s o)) ops st.

Theorem ul_history_final_count : forall (ops:ul_ops) st,
  wf st -> Forall hdr_ok ops ->
  all_some (fst (ul_history enc mac (ctx_of st) (ul st) ops)) ->
  let fin := hfold st (map send_of ops) in
  ul fin = snd (ul_history enc mac (ctx_of st) (ul st) ops) /\
  dl fin = (if any_newctx ops then 0 else dl st) /\ wf fin /\ ctx_of fin = ctx_of st.
Proof.
  unfold hfold.
  induction ops as [|[[plain hdr] newctx] r IH]; intros st Hwf Hok Hall.
  - cbn. repeat split; apply Hwf.
  - inversion Hok as [|? ? [H1 H2] Hok']; subst. cbn [fst snd] in H1, H2.
    cbn [map send_of fold_left hstep encode_nas_pdu_with_security].
    rewrite w8_small by assumption.
    rewrite nas_encode_is_protect by assumption. cbv zeta.
    cbn [ul_history] in Hall |- *.
    destruct (ul_history enc mac (ctx_of st) (ul_next (ul_count_for (ul st) newctx)) r) as [outs fin] eqn:Hh.
    cbn [fst snd] in Hall |- *. inversion Hall as [|? ? Hsome Hall']; subst.
    destruct (protect enc mac (ctx_of st) UPLINK (ul_count_for (ul st) newctx) hdr plain) as [pkt|] eqn:Hp; [|congruence].
    cbn [fst].
    destruct Hwf as [Hu Hd].
    set (st1 := mk_ue (ul_next (ul_count_for (ul st) newctx)) (if newctx then 0 else dl st) (ea st) (ia st) (kenc st) (kint st)).
    assert (Hwf1 : wf st1).
    { split; cbn [ul dl st1]; [apply ul_next_lt|destruct newctx; lia]. }
    specialize (IH st1 Hwf1 Hok').
    change (ctx_of st1) with (ctx_of st) in IH. cbn [ul dl st1] in IH.
    rewrite Hh in IH. cbn [fst snd] in IH. specialize (IH Hall').
    destruct IH as (I1 & I2 & I3 & I4). cbv zeta in I1, I2, I3, I4.
    destruct I3 as [I3a I3b]. repeat split; try assumption.
    cbn [any_newctx existsb snd]. fold (any_newctx r). rewrite I2.
    destruct newctx; cbn [orb]; [destruct (any_newctx r); reflexivity|reflexivity].
Qed.

(* ---- which COUNT each message carries *)
Lemma ul_history_counts : forall ctx (ops:ul_ops) next,
  fst (ul_history enc mac ctx next ops) =
  map (fun x => protect enc mac ctx UPLINK (snd x) (snd (fst (fst x))) (fst (fst (fst x))))
      (combine ops (ul_counts next (map (fun o => snd o) ops))).
Proof.
  induction ops as [|[[p h] n] r IH]; intro next; [reflexivity|].
  cbn [ul_history map ul_counts combine fst snd].
  specialize (IH (ul_next (ul_count_for next n))).
  destruct (ul_history enc mac ctx (ul_next (ul_count_for next n)) r) as [outs fin].
  cbn [fst] in IH |- *. rewrite IH. reflexivity.
Qed.

(* ===================================================================== the reference receiver accepts the history *)
Section Receiver.
Variable ctx : sec_ctx.
Variable okp : list N -> Prop.          (* the class of plain messages considered (e.g. a length bound) *)
(* C07: nas_mac returns 4 octets for NIA1 / NIA2 (NIA1: PutUint32 into 4 octets; NIA2: mac[:4]) *)
Hypothesis mac_len4 : forall c d m t, mac (c_ia ctx) (c_kint ctx) c 1 d m = Some t -> length t = 4%nat.
(* C07: c07_cipher_involutive (same KEY, COUNT, BEARER, DIRECTION: applying the cipher twice restores the input) *)
Hypothesis enc_inv : forall c d p q, okp p ->
  enc (c_ea ctx) (c_kenc ctx) c 1 d p = Some q -> enc (c_ea ctx) (c_kenc ctx) c 1 d q = Some p.

(* one message: what [protect] produced with COUNT c in direction dir is accepted by a receiver whose stored
   COUNT is c, which returns the plain message and stores c + 1 *)
Lemma receive_protect dir c hdr plain pkt :
  c < 16777216 -> 1 <= hdr -> hdr <= 4 -> okp plain ->
  protect enc mac ctx dir c hdr plain = Some pkt ->
  receive enc mac ctx dir c pkt = Accept plain ((c + 1) mod COUNT_MOD).
Proof.
  intros Hc H1 H2 Hok Hp. unfold protect in Hp.
  change BEARER_3GPP with 1 in Hp.
  destruct (hdr_ciphered hdr) eqn:Hcy.
  - destruct (enc (c_ea ctx) (c_kenc ctx) c 1 dir plain) as [body|] eqn:He; [|discriminate].
    destruct (mac (c_ia ctx) (c_kint ctx) c 1 dir (c mod 256 :: body)) as [m|] eqn:Hm; [|discriminate].
    pose proof (mac_len4 _ _ _ _ Hm) as Hl.
    destruct m as [|m1 [|m2 [|m3 [|m4 [|? ?]]]]]; try discriminate Hl.
    injection Hp as <-. cbn [app].
    unfold receive. change (EPD_5GMM =? EPD_5GMM) with true. cbn [negb].
    assert (Hpr : hdr_protected hdr = true).
    { unfold hdr_protected. apply andb_true_iff. split; apply N.leb_le; assumption. }
    rewrite Hpr. cbn [negb]. rewrite estimate_in_sync by assumption.
    change BEARER_3GPP with 1. rewrite Hm, eqb_octets_refl. cbn [negb]. rewrite Hcy.
    rewrite (enc_inv _ _ _ _ Hok He). reflexivity.
  - destruct (mac (c_ia ctx) (c_kint ctx) c 1 dir (c mod 256 :: plain)) as [m|] eqn:Hm; [|discriminate].
    pose proof (mac_len4 _ _ _ _ Hm) as Hl.
    destruct m as [|m1 [|m2 [|m3 [|m4 [|? ?]]]]]; try discriminate Hl.
    injection Hp as <-. cbn [app].
    unfold receive. change (EPD_5GMM =? EPD_5GMM) with true. cbn [negb].
    assert (Hpr : hdr_protected hdr = true).
    { unfold hdr_protected. apply andb_true_iff. split; apply N.leb_le; assumption. }
    rewrite Hpr. cbn [negb]. rewrite estimate_in_sync by assumption.
    change BEARER_3GPP with 1. rewrite Hm, eqb_octets_refl. cbn [negb]. rewrite Hcy. reflexivity.
Qed.

Fixpoint ul_accepts (next:N) (ops:ul_ops) : list rx :=
  match ops with
  | [] => []
  | (plain, hdr, newctx) :: r =>
    let c := ul_count_for next newctx in Accept plain (ul_next c) :: ul_accepts (ul_next c) r
  end.
Definition unsome (o:option (list N)) : list N := match o with Some b => b | None => [] end.
Definition plain_ok_op (o:list N * N * bool) : Prop := okp (fst (fst o)).

(* the whole history: the AMF holding the same keys accepts every message in order, returns exactly the
   submitted plain octets and ends with the COUNT the sender ends with *)
Theorem ul_history_received : forall (ops:ul_ops) next,
  next < 16777216 -> Forall hdr_ok ops -> Forall plain_ok_op ops ->
  all_some (fst (ul_history enc mac ctx next ops)) ->
  ul_receive_history enc mac ctx next
    (combine (map unsome (fst (ul_history enc mac ctx next ops))) (map (fun o => snd o) ops))
  = (ul_accepts next ops, snd (ul_history enc mac ctx next ops)).
Proof.
  induction ops as [|[[plain hdr] newctx] r IH]; intros next Hn Hok Hpl Hall; [reflexivity|].
  inversion Hok as [|? ? [H1 H2] Hok']; subst. cbn [fst snd] in H1, H2.
  inversion Hpl as [|? ? Hp1 Hpl']; subst. unfold plain_ok_op in Hp1. cbn [fst] in Hp1.
  cbn [ul_history] in Hall |- *.
  specialize (IH (ul_next (ul_count_for next newctx)) (ul_next_lt _) Hok' Hpl').
  destruct (ul_history enc mac ctx (ul_next (ul_count_for next newctx)) r) as [outs fin] eqn:Hh.
  cbn [fst snd] in Hall, IH |- *. inversion Hall as [|? ? Hsome Hall']; subst.
  destruct (protect enc mac ctx UPLINK (ul_count_for next newctx) hdr plain) as [pkt|] eqn:Hp; [|congruence].
  cbn [map unsome combine snd ul_receive_history ul_accepts].
  unfold ul_receive.
  assert (Hs : (if newctx then 0 else next) = ul_count_for next newctx) by reflexivity.
  rewrite Hs.
  rewrite (receive_protect UPLINK _ hdr plain pkt (ul_count_for_lt _ _ Hn) H1 H2 Hp1 Hp).
  fold (ul_next (ul_count_for next newctx)).
  rewrite (IH Hall'). reflexivity.
Qed.
End Receiver.

(* ===================================================================== downlink: NASDecode against the reference AMF *)
Section Downlink.
Variable okp : list N -> Prop.
Definition dl_ops := list (list N * N * N).
(* a plain 5GMM message: second octet = security header type 0 (TS 24.501 9.3) *)
Definition plain_msg (p:list N) : Prop := nth_error p 1 = Some 0.
Definition dl_op_ok (o:list N * N * N) : Prop :=
  let '(p, h, d) := o in h <= 4 /\ 1 <= d /\ d <= 255 /\ plain_msg p /\ okp p.

(* one message *)
Lemma get_nas_pdu_recovers st plain hdr d c pkt :
  wf st -> ia st <> 0 -> dl_op_ok (plain, hdr, d) ->
  (forall c d m t, mac (ia st) (kint st) c 1 d m = Some t -> length t = 4%nat) ->
  (forall c d p q, okp p -> enc (ea st) (kenc st) c 1 d p = Some q -> enc (ea st) (kenc st) c 1 d q = Some p) ->
  dl_send enc mac (ctx_of st) (dl st) plain hdr d = (c, Some pkt) ->
  get_nas_pdu enc mac st pkt = (with_dl st c, Ok plain).
Proof.
  destruct st as [u dd e i k1 k2]. intros [Hu Hd] Hia (Hh & Hd1 & Hd2 & Hpm & Hokp) mac_len4 enc_inv Hs.
  cbn [ul dl ea ia kenc kint] in *. unfold ctx_of in Hs. cbn [ul dl ea ia kenc kint] in Hs.
  unfold dl_send in Hs.
  destruct (N.eqb_spec hdr 0) as [->|Hnz].
  - injection Hs as <- <-. unfold get_nas_pdu. rewrite Hpm. unfold nas_decode.
    change (0 =? SecurityHeaderTypePlainNas) with true. cbv [with_dl]. reflexivity.
  - injection Hs as Hc Hp. unfold protect in Hp. cbn [c_ea c_ia c_kenc c_kint] in Hp.
    change BEARER_3GPP with 1 in Hp. change DOWNLINK with 1 in Hp. rewrite Hc in Hp.
    assert (Hclt : c < 16777216) by (subst c; apply dl_count_lt).
    (* the estimate the code forms equals the sender's COUNT *)
    assert (Hest : cnt_estimate (if newctx_type hdr then cnt_set dd 0 0 else dd) (c mod 256) = c).
    { subst c. unfold dl_count. change (hdr_newctx hdr) with (newctx_type hdr).
      destruct (newctx_type hdr).
      - rewrite cnt_estimate_after_reset by (try assumption; reflexivity). reflexivity.
      - change COUNT_MOD with 16777216. apply cnt_estimate_advance; assumption. }
    assert (Hmid : forall body m,
      mac i k2 c 1 1 (c mod 256 :: body) = Some m ->
      nas_decode enc mac (mk_ue u dd e i k1 k2) hdr (EPD_5GMM :: hdr :: m ++ c mod 256 :: body) =
      if ciphered_type hdr then
        match enc e k1 c 1 1 body with
        | None => (mk_ue u c e i k1 k2, Err)
        | Some p => (mk_ue u c e i k1 k2, Ok p)
        end
      else (mk_ue u c e i k1 k2, Ok body)).
    { intros body m Hm. pose proof (mac_len4 _ _ _ _ Hm) as Hl.
      destruct m as [|m1 [|m2 [|m3 [|m4 [|? ?]]]]]; try discriminate Hl.
      unfold nas_decode. change SecurityHeaderTypePlainNas with 0.
      destruct (N.eqb_spec hdr 0) as [|_]; [contradiction|].
      cbn [ia]. change AlgIntegrity128NIA0 with 0.
      destruct (N.eqb_spec i 0) as [|_]; [contradiction|].
      cbn [app length nth_error skipn Nat.ltb Nat.leb].
      cbv [with_dl]. cbn [ul dl ea ia kenc kint].
      assert (Hdl : (if newctx_type hdr then mk_ue u (cnt_set dd 0 0) e i k1 k2 else mk_ue u dd e i k1 k2)
                    = mk_ue u (if newctx_type hdr then cnt_set dd 0 0 else dd) e i k1 k2)
        by (destruct (newctx_type hdr); reflexivity).
      rewrite Hdl. cbn [ul dl ea ia kenc kint].
      fold (cnt_estimate (if newctx_type hdr then cnt_set dd 0 0 else dd) (c mod 256)).
      rewrite Hest. rewrite (cnt_get_id c) by assumption.
      change Bearer3GPP with 1. change DirectionDownlink with 1.
      cbn [ul dl ea ia kenc kint]. rewrite Hm.
      destruct (ciphered_type hdr); [|reflexivity].
      cbn [ul dl ea ia kenc kint]. rewrite (cnt_get_id c) by assumption. cbn [ul dl ea ia kenc kint].
      destruct (enc e k1 c 1 1 body); reflexivity. }
    unfold get_nas_pdu. change (hdr_ciphered hdr) with (ciphered_type hdr) in Hp.
    cbv [with_dl]. cbn [ul dl ea ia kenc kint].
    destruct (ciphered_type hdr) eqn:Hcy.
    + destruct (enc e k1 c 1 1 plain) as [body|] eqn:He; [|discriminate].
      destruct (mac i k2 c 1 1 (c mod 256 :: body)) as [m|] eqn:Hm; [|discriminate].
      injection Hp as <-. cbn [nth_error]. rewrite (Hmid body m Hm).
      rewrite (enc_inv _ _ _ _ Hokp He). reflexivity.
    + destruct (mac i k2 c 1 1 (c mod 256 :: plain)) as [m|] eqn:Hm; [|discriminate].
      injection Hp as <-. cbn [nth_error]. rewrite (Hmid plain m Hm). reflexivity.
Qed.

(* the whole history: after each message the UE's DLCount equals the COUNT the AMF used for it, and the octets
   handed to the plain decoder are exactly the plain message the AMF protected *)
Definition dl_expected (u:N) (ops:dl_ops) (sent:list (N * option (list N))) : list (nres bytes * N * N) :=
  map (fun x => (Ok (fst (fst (fst x))), u, fst (snd x))) (combine ops sent).

Theorem dl_history_recovered : forall (ops:dl_ops) st,
  wf st -> ia st <> 0 -> Forall dl_op_ok ops ->
  (forall c d m t, mac (ia st) (kint st) c 1 d m = Some t -> length t = 4%nat) ->
  (forall c d p q, okp p -> enc (ea st) (kenc st) c 1 d p = Some q -> enc (ea st) (kenc st) c 1 d q = Some p) ->
  let sent := dl_history enc mac (ctx_of st) (dl st) ops in
  all_some (map snd sent) ->
  hrun enc mac st (map (fun x => HRecv (unsome (snd x))) sent) = dl_expected (ul st) ops sent.
Proof.
  induction ops as [|[[plain hdr] d] r IH]; intros st Hwf Hia Hok Hml Hinv; [reflexivity|].
  cbv zeta. intro Hall.
  inversion Hok as [|? ? Hok1 Hok']; subst.
  cbn [dl_history] in Hall |- *.
  destruct (dl_send enc mac (ctx_of st) (dl st) plain hdr d) as [c pkt] eqn:Hs.
  cbn [map snd] in Hall. inversion Hall as [|? ? Hsome Hall']; subst.
  destruct pkt as [pkt|]; [|congruence].
  cbn [map snd unsome hrun hstep].
  rewrite (get_nas_pdu_recovers st plain hdr d c pkt Hwf Hia Hok1 Hml Hinv Hs).
  assert (Hclt : c < 16777216).
  { unfold dl_send in Hs. destruct (hdr =? 0); cbv zeta in Hs; injection Hs as <- _; [apply Hwf|apply dl_count_lt]. }
  assert (Hwf1 : wf (with_dl st c)) by (split; [apply Hwf|exact Hclt]).
  rewrite (norm_wf _ Hwf1).
  unfold dl_expected. cbn [combine map fst snd]. f_equal.
  specialize (IH (with_dl st c) Hwf1 Hia Hok' Hml Hinv).
  cbv zeta in IH. change (ctx_of (with_dl st c)) with (ctx_of st) in IH.
  change (dl (with_dl st c)) with c in IH. change (ul (with_dl st c)) with (ul st) in IH.
  apply IH. exact Hall'.
Qed.

(* a new-context header resets the estimate to the message's sequence number with overflow 0, whatever the
   stored value was (no synchronisation needed) *)
Lemma newctx_resets_estimate dd s : dd < 16777216 -> s < 256 -> cnt_estimate (cnt_set dd 0 0) s = s.
Proof. apply cnt_estimate_after_reset. Qed.
End Downlink.
End Crypto.

(* ---- layout of a protected message (TS 24.501 9.1): with a 4-octet MAC the sequence-number octet is octet 7
   and equals COUNT mod 256; the MAC is the algorithm's output over sequence number || message part *)
Lemma protect_layout enc mac ctx dir c hdr plain pkt :
  (forall m t, mac (c_ia ctx) (c_kint ctx) c 1 dir m = Some t -> length t = 4%nat) ->
  protect enc mac ctx dir c hdr plain = Some pkt ->
  exists m body,
    pkt = EPD_5GMM :: hdr :: m ++ c mod 256 :: body /\ length m = 4%nat /\
    nth_error pkt 6 = Some (c mod 256) /\
    mac (c_ia ctx) (c_kint ctx) c BEARER_3GPP dir (c mod 256 :: body) = Some m /\
    (if hdr_ciphered hdr then enc (c_ea ctx) (c_kenc ctx) c BEARER_3GPP dir plain = Some body else body = plain).
Proof.
  intros Hlen Hp. unfold protect in Hp.
  destruct (hdr_ciphered hdr).
  - destruct (enc (c_ea ctx) (c_kenc ctx) c BEARER_3GPP dir plain) as [body|] eqn:He; [|discriminate].
    destruct (mac (c_ia ctx) (c_kint ctx) c BEARER_3GPP dir (c mod 256 :: body)) as [m|] eqn:Hm; [|discriminate].
    injection Hp as <-. exists m, body. pose proof (Hlen _ _ Hm) as Hl.
    destruct m as [|m1 [|m2 [|m3 [|m4 [|? ?]]]]]; try discriminate Hl.
    repeat split; try reflexivity; assumption.
  - destruct (mac (c_ia ctx) (c_kint ctx) c BEARER_3GPP dir (c mod 256 :: plain)) as [m|] eqn:Hm; [|discriminate].
    injection Hp as <-. exists m, plain. pose proof (Hlen _ _ Hm) as Hl.
    destruct m as [|m1 [|m2 [|m3 [|m4 [|? ?]]]]]; try discriminate Hl.
    repeat split; try reflexivity; assumption.
Qed.

(* taking a new context into use: the message carries COUNT 0 and both counters restart *)
Lemma nas_encode_new_context enc mac st plain hdr :
  wf st ->
  let r := nas_encode enc mac st plain hdr true true Epd5GSMobilityManagementMessage in
  snd r = res_of (protect enc mac (ctx_of st) UPLINK 0 hdr plain) /\
  dl (fst r) = 0 /\
  ul (fst r) = match protect enc mac (ctx_of st) UPLINK 0 hdr plain with Some _ => 1 | None => 0 end.
Proof.
  intro Hwf. cbv zeta. rewrite nas_encode_is_protect by assumption. cbv zeta.
  change (ul_count_for (ul st) true) with 0.
  destruct (protect enc mac (ctx_of st) UPLINK 0 hdr plain); cbn [fst snd ul dl res_of]; repeat split; reflexivity.
Qed.

(* ---- the hypotheses on the two algorithms are satisfiable: a toy cipher / MAC that depend on every input *)
Definition toy_enc (a:N) (k:list N) (c b d:N) (p:list N) : option (list N) :=
  Some (map (fun x => N.lxor x (N.land (a + c + 2 * d + b + N.of_nat (length k)) 255)) p).
Definition toy_mac (a:N) (k:list N) (c b d:N) (m:list N) : option (list N) :=
  Some [c mod 256; d; N.of_nat (length m) mod 256; a].
Lemma toy_mac_len4 a k c b d m t : toy_mac a k c b d m = Some t -> length t = 4%nat.
Proof. unfold toy_mac. intro H. injection H as <-. reflexivity. Qed.
Lemma toy_enc_inv a k c b d p q : toy_enc a k c b d p = Some q -> toy_enc a k c b d q = Some p.
Proof.
  unfold toy_enc. intro H. injection H as <-. f_equal. rewrite map_map.
  rewrite <- (map_id p) at 2. apply map_ext. intro x.
  rewrite N.lxor_assoc, N.lxor_nilpotent, N.lxor_0_r. reflexivity.
Qed.
