(* C08 over the regenerated data: every descriptor that nas.go dispatches to is accepted by desc_pair_ok (a finite
   check done by vm_compute over Gen/NasDesc.v), lifted by the generic theorems of NasCodecProofs.v to all
   well-formed messages of every message type the library knows; unknown EPDs / message types are errors;
   PlainNasDecode inverts PlainNasEncode. *)
From Coq Require Import NArith PeanoNat List Bool String Lia Permutation.
Require Import Bytes NasValue NasCodec NasDesc NasCorr NasCodecProofs.
Import ListNotations.
Open Scope list_scope.
Open Scope N_scope.

(* ---- reflective facts about the regenerated descriptors *)
Lemma library_ok_true : library_ok = true.
Proof. vm_compute. reflexivity. Qed.

Lemma all_pairs_ok : forallb desc_pair_ok dispatched_descs = true.
Proof. vm_compute. reflexivity. Qed.

(* ---- generic lemmas about the dispatch functions *)
Lemma find_desc_in sel k ds d : find_desc sel k ds = Some d -> In d ds /\ sel d = k.
Proof.
  induction ds as [|x ds IH]; cbn; [discriminate|]. destruct (String.eqb k (sel x)) eqn:E.
  - intros [= <-]. apply String.eqb_eq in E. auto.
  - intro H. destruct (IH H). auto.
Qed.
Lemma name_unique (ds:list msg_desc) a b : NoDup (map d_name ds) -> In a ds -> In b ds -> d_name a = d_name b -> a = b.
Proof.
  induction ds as [|x ds IH]; cbn; [tauto|]. intros Hn Ha Hb He. inversion Hn; subst.
  destruct Ha as [->|Ha], Hb as [->|Hb]; auto.
  - exfalso. apply H1. rewrite He. now apply in_map.
  - exfalso. apply H1. rewrite <- He. now apply in_map.
Qed.
Lemma lookupN_in {A} k (l:list (N * A)) v : lookupN k l = Some v -> In (k, v) l.
Proof.
  induction l as [|[k' v'] l IH]; cbn; [discriminate|]. destruct (k =? k') eqn:E; [|auto].
  intros [= <-]. apply N.eqb_eq in E. subst. auto.
Qed.
Lemma lookupN_nodup {A} k (l:list (N * A)) v : NoDup (map fst l) -> In (k, v) l -> lookupN k l = Some v.
Proof.
  induction l as [|[k' v'] l IH]; cbn; [tauto|]. intros Hn [[= -> ->]|Hi].
  - now rewrite N.eqb_refl.
  - inversion Hn; subst. destruct (k =? k') eqn:E; [|auto]. apply N.eqb_eq in E. subst k'.
    exfalso. apply H1. change k with (fst (k, v)). now apply in_map.
Qed.

Definition is_table (h:dispatch) : Prop := h = gmm_dispatch \/ h = gsm_dispatch.

Lemma table_ok h : is_table h -> dispatch_ok h = true /\ nodup_str (map d_name all_msg_descs) = true.
Proof.
  pose proof library_ok_true as L. unfold library_ok in L.
  repeat (apply andb_true_iff in L as [L ?]).
  intros [->| ->]; auto.
Qed.

(* every entry of the decode switch: one descriptor, the same one the encode switch uses, accepted by desc_pair_ok *)
Lemma dispatch_entry h mt sname dfn : is_table h -> In (mt, (sname, dfn)) (h_decode h) ->
  exists d, find_desc d_dec_func dfn all_msg_descs = Some d /\ d_name d = sname /\ desc_pair_ok d = true /\
            lookupN mt (h_decode h) = Some (sname, dfn) /\
            lookupN mt (h_encode h) = Some (d_enc_func d) /\ find_desc d_enc_func (d_enc_func d) all_msg_descs = Some d.
Proof.
  intros Ht Hin. destruct (table_ok h Ht) as [Hok Hnames]. unfold dispatch_ok in Hok.
  repeat (apply andb_true_iff in Hok as [Hok ?]).
  rewrite forallb_forall in H3. specialize (H3 _ Hin). unfold entry_ok in H3.
  destruct (find_desc d_dec_func dfn all_msg_descs) as [d|] eqn:Ed; [|discriminate].
  destruct (lookupN mt (h_encode h)) as [efn|] eqn:Ee; [|discriminate].
  apply andb_true_iff in H3 as [H3 Hd2]. apply andb_true_iff in H3 as [Hs Hp]. apply String.eqb_eq in Hs.
  destruct (find_desc d_enc_func efn all_msg_descs) as [d2|] eqn:Ed2; [|discriminate]. apply String.eqb_eq in Hd2.
  destruct (find_desc_in _ _ _ _ Ed) as [Hi1 _]. destruct (find_desc_in _ _ _ _ Ed2) as [Hi2 Hefn].
  assert (d2 = d) by (eapply name_unique; eauto; now apply nodup_str_NoDup). subst d2.
  exists d. repeat split; auto.
  - apply lookupN_nodup; auto. now apply nodup_N_NoDup.
  - now rewrite Hefn.
  - now rewrite Hefn.
Qed.

(* ---- C08, statement 1-3: for every message type the library knows *)
Theorem lossless_all_types h mt sname dfn :
  is_table h -> In (mt, (sname, dfn)) (h_decode h) ->
  exists d, find_desc d_dec_func dfn all_msg_descs = Some d /\ d_name d = sname /\
    lookupN mt (h_encode h) = Some (d_enc_func d) /\
    forall m, wf_msg d m = true ->
      bind (nas_encode d m) (nas_decode d) = Ok m /\
      nas_encode d m = Ok (mand_part d m ++ List.concat (opt_chunks d m)) /\
      (forall p, Permutation p (opt_chunks d m) -> nas_decode d (mand_part d m ++ List.concat p) = Ok m).
Proof.
  intros Ht Hin. destruct (dispatch_entry h mt sname dfn Ht Hin) as (d & Hd & Hn & Hp & _ & He & _).
  exists d. repeat split; auto.
  - now apply roundtrip.
  - now apply encode_shape.
  - intros p Hperm. now apply order_insensitive.
Qed.

Theorem reencode_all_types h mt sname dfn :
  is_table h -> In (mt, (sname, dfn)) (h_decode h) ->
  exists d, find_desc d_dec_func dfn all_msg_descs = Some d /\
    forall bs, canonical d bs -> bind (nas_decode d bs) (nas_encode d) = Ok bs.
Proof.
  intros Ht Hin. destruct (dispatch_entry h mt sname dfn Ht Hin) as (d & Hd & Hn & Hp & _).
  exists d. split; auto. intros bs Hc. now apply reencode.
Qed.

(* ---- unknown EPD / message type: an error, for any dispatch data *)
Section Generic.
Variable descs : list msg_desc.
Variable gmm gsm : dispatch.
Variable plain : plain_desc.

Definition header_of (h:dispatch) (bs:bytes) : bytes :=
  match take (h_header_len h) bs with (Some x, _) => x | (None, _) => zeros (h_header_len h) end.

Lemma decode_unknown_epd epd tl : lookupN epd (p_epd_decode plain) = None ->
  exists s, plain_nas_decode descs gmm gsm plain (epd :: tl) = Err s.
Proof. intro H. unfold plain_nas_decode. destruct (negb (is_nil (p_odd plain))); [eauto|]. rewrite H. eauto. Qed.

Lemma decode_unknown_type epd tl k h :
  lookupN epd (p_epd_decode plain) = Some k -> dispatch_of gmm gsm k = Some h ->
  lookupN (nth (h_type_index h) (header_of h (epd :: tl)) 0) (h_decode h) = None ->
  exists s, plain_nas_decode descs gmm gsm plain (epd :: tl) = Err s.
Proof.
  intros H1 H2 H3. unfold plain_nas_decode. destruct (negb (is_nil (p_odd plain))); [eauto|]. rewrite H1, H2.
  destruct (negb (is_nil (h_odd h))); [eauto|]. unfold header_of in H3. rewrite H3. eauto.
Qed.

Lemma encode_unknown_type x h :
  dispatch_of gmm gsm (n_kind x) = Some h ->
  lookupN (nth (h_type_index h) (n_header x) 0) (h_encode h) = None ->
  exists s, plain_nas_encode descs gmm gsm plain x = Err s.
Proof.
  intros H1 H2. unfold plain_nas_encode. destruct (negb (is_nil (p_odd plain))); [eauto|].
  destruct (negb (existsb (String.eqb (n_kind x)) (p_encode_order plain))); [eauto|]. rewrite H1.
  destruct (negb (is_nil (h_odd h))); [eauto|]. rewrite H2. eauto.
Qed.

(* PlainNasDecode (PlainNasEncode x) = x when the header copy in the struct agrees with the message's own first
   octets and both switches send the type to the same, invertible, descriptor *)
Lemma plain_roundtrip_generic k hdr m h d dfn bs epd tl :
  p_odd plain = [] -> existsb (String.eqb k) (p_encode_order plain) = true ->
  dispatch_of gmm gsm k = Some h -> h_odd h = [] ->
  lookupN (nth (h_type_index h) hdr 0) (h_encode h) = Some (d_enc_func d) ->
  find_desc d_enc_func (d_enc_func d) descs = Some d ->
  lookupN (nth (h_type_index h) hdr 0) (h_decode h) = Some (d_name d, dfn) ->
  find_desc d_dec_func dfn descs = Some d ->
  nas_encode d m = Ok bs -> nas_decode d bs = Ok m ->
  bs = epd :: tl -> lookupN epd (p_epd_decode plain) = Some k -> take (h_header_len h) bs = (Some hdr, skipn (h_header_len h) bs) ->
  plain_nas_encode descs gmm gsm plain (mk_nas k hdr (d_name d) m) = Ok bs /\
  plain_nas_decode descs gmm gsm plain bs = Ok (mk_nas k hdr (d_name d) m).
Proof.
  intros Hp Hk Hh Ho He Hfe Hd Hfd Hen Hde Hbs Hepd Htake. split.
  - unfold plain_nas_encode. cbn [n_kind n_header n_struct n_fields]. rewrite Hp, Hk, Hh, Ho. cbn [is_nil negb].
    rewrite He, Hfe, String.eqb_refl. cbn [negb]. exact Hen.
  - unfold plain_nas_decode. rewrite Hp. cbn [is_nil negb]. subst bs. rewrite Hepd, Hh, Ho. cbn [is_nil negb].
    rewrite Htake, Hd, Hfd, String.eqb_refl. cbn [negb]. rewrite Hde. reflexivity.
Qed.
End Generic.

(* ---- ... instantiated with the library's tables *)
Theorem unknown_epd_is_error epd tl : epd <> 126 -> epd <> 46 -> exists s, lib_decode (epd :: tl) = Err s.
Proof.
  intros H1 H2. apply decode_unknown_epd. cbn.
  destruct (epd =? 126) eqn:E1; [apply N.eqb_eq in E1; contradiction|].
  destruct (epd =? 46) eqn:E2; [apply N.eqb_eq in E2; contradiction|]. reflexivity.
Qed.

Theorem unknown_gmm_type_is_error sht mt tl :
  lookupN mt (h_decode gmm_dispatch) = None -> exists s, lib_decode (126 :: sht :: mt :: tl) = Err s.
Proof. intro H. eapply decode_unknown_type with (k := "Gmm"%string) (h := gmm_dispatch); try reflexivity. exact H. Qed.

Theorem unknown_gsm_type_is_error psi pti mt tl :
  lookupN mt (h_decode gsm_dispatch) = None -> exists s, lib_decode (46 :: psi :: pti :: mt :: tl) = Err s.
Proof. intro H. eapply decode_unknown_type with (k := "Gsm"%string) (h := gsm_dispatch); try reflexivity. exact H. Qed.

(* too short to carry a message type: the header stays zero and type 0 is in neither table *)
Theorem short_input_is_error bs : (1 <= List.length bs <= 2)%nat -> exists s, lib_decode bs = Err s.
Proof.
  intros H. destruct bs as [|epd [|x [|y ?]]]; cbn in H; try lia.
  - destruct (N.eq_dec epd 126) as [->|]; [|destruct (N.eq_dec epd 46) as [->|]; [|now apply unknown_epd_is_error]].
    + eapply decode_unknown_type with (k := "Gmm"%string) (h := gmm_dispatch); reflexivity.
    + eapply decode_unknown_type with (k := "Gsm"%string) (h := gsm_dispatch); reflexivity.
  - destruct (N.eq_dec epd 126) as [->|]; [|destruct (N.eq_dec epd 46) as [->|]; [|now apply unknown_epd_is_error]].
    + eapply decode_unknown_type with (k := "Gmm"%string) (h := gmm_dispatch); reflexivity.
    + eapply decode_unknown_type with (k := "Gsm"%string) (h := gsm_dispatch); reflexivity.
Qed.

Theorem unknown_type_encode_is_error x h :
  dispatch_of gmm_dispatch gsm_dispatch (n_kind x) = Some h ->
  lookupN (nth (h_type_index h) (n_header x) 0) (h_encode h) = None ->
  exists s, lib_encode x = Err s.
Proof. apply encode_unknown_type. Qed.

Definition kind_of (h:dispatch) : string := h_name h.
Definition epd_of (h:dispatch) : N := if String.eqb (h_name h) "Gmm" then 126 else 46.

Theorem plain_roundtrip h mt sname dfn hdr m bs :
  is_table h -> In (mt, (sname, dfn)) (h_decode h) ->
  nth (h_type_index h) hdr 0 = mt ->
  forall d, find_desc d_dec_func dfn all_msg_descs = Some d -> wf_msg d m = true ->
  nas_encode d m = Ok bs ->
  (* the struct's header copy is what the message itself carries in its first octets *)
  firstn (h_header_len h) bs = hdr -> (h_header_len h <= List.length bs)%nat -> nth 0 bs 0 = epd_of h ->
  lib_encode (mk_nas (kind_of h) hdr sname m) = Ok bs /\
  lib_decode bs = Ok (mk_nas (kind_of h) hdr sname m).
Proof.
  intros Ht Hin Hmt d Hd Hw Hen Hhdr Hlen Hepd.
  destruct (dispatch_entry h mt sname dfn Ht Hin) as (d' & Hd' & Hn & Hp & Hld & Hle & Hfe).
  assert (d' = d) by congruence. subst d'. subst sname.
  assert (Hdec : nas_decode d bs = Ok m).
  { pose proof (roundtrip d m Hp Hw) as R. rewrite Hen in R. exact R. }
  destruct bs as [|epd tl]; [destruct Ht as [-> | ->]; cbn in Hlen; lia|].
  cbn [nth] in Hepd.
  unfold lib_encode, lib_decode.
  eapply plain_roundtrip_generic with (dfn := dfn) (epd := epd) (tl := tl); eauto; try (rewrite Hmt; eauto).
  - destruct Ht as [-> | ->]; reflexivity.
  - destruct Ht as [-> | ->]; reflexivity.
  - destruct Ht as [-> | ->]; reflexivity.
  - destruct Ht as [-> | ->]; subst epd; reflexivity.
  - unfold take. replace (Nat.leb (h_header_len h) (List.length (epd :: tl))) with true by (symmetry; apply Nat.leb_le; lia).
    now rewrite Hhdr.
Qed.
