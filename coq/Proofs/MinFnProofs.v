(* C18: the function main() bounds its test-mode loops with (stgutg.Min, regenerated as Gen/MinFn.v) is the minimum.
   gen-mainwiring records each call as a BMin node and DriverConv.eval_bound gives BMin the meaning Z.min; this lemma is
   what justifies that meaning for the source as it is now. *)
From Coq Require Import ZArith Bool Lia.
Require Import MinFn.
Local Open Scope Z_scope.

Lemma go_min_translated : go_Min_recognised = true /\ go_Min_overflow_free = true.
Proof. split; reflexivity. Qed.

Lemma go_min_is_min : forall x y : Z, go_Min x y = Z.min x y.
Proof.
  intros x y. unfold go_Min.
  repeat match goal with
         | |- context [if ?c then _ else _] => destruct c eqn:?
         end;
  repeat match goal with
         | H : (_ && _)%bool = true |- _ => apply andb_prop in H; destruct H
         | H : (_ && _)%bool = false |- _ => apply andb_false_iff in H
         | H : (_ || _)%bool = true |- _ => apply orb_prop in H
         | H : (_ || _)%bool = false |- _ => apply orb_false_iff in H; destruct H
         | H : negb _ = true |- _ => apply negb_true_iff in H
         | H : negb _ = false |- _ => apply negb_false_iff in H
         end;
  lia.
Qed.
