From Coq Require Import List String Bool Arith ZArith.
Require Import DriverTypes ConfigDoc Config ConfTags MainWiring.
Import ListNotations.
Open Scope string_scope.

(* reflective: tags and wiring extracted from the current source conform to the documentation *)
Lemma tags_and_wiring_ok : doc_ok conf_tags [wiring_mode1; wiring_mode2] = true.
Proof. vm_compute. reflexivity. Qed.
Lemma loops_ok : forallb (loop_ok conf_tags wiring_mode2) documented_loops_test_mode = true
                 /\ loop_ok conf_tags wiring_mode1 documented_loop_traffic_mode = true.
Proof. vm_compute. split; reflexivity. Qed.

(* generic: when tags/wiring conform, every documented key's value is what the procedure receives *)
Lemma get_load_unique tags file key f ty v :
  field_of_key tags key = Some (f, ty) ->
  (forall k' v', In (k', v') file -> forall f' ty', field_of_key tags k' = Some (f', ty') -> f' = f -> k' = key) ->
  In (key, v) file -> (forall v', In (key, v') file -> v' = v) ->
  get (load tags file) f = Some v.
Proof.
  intros Hk Huniq Hin Hval. unfold load.
  induction file as [|[k0 v0] file IH]; [contradiction|].
  cbn [flat_map fst snd]. destruct (field_of_key tags k0) as [[f0 ty0]|] eqn:E0.
  - cbn [app get]. destruct (String.eqb f f0) eqn:Ef.
    + apply String.eqb_eq in Ef. subst f0.
      assert (k0 = key) by (eapply Huniq; [left; reflexivity | exact E0 | reflexivity]). subst k0.
      f_equal. apply Hval. left. reflexivity.
    + apply IH.
      * intros k' v' Hi. apply Huniq with (v' := v'). right. exact Hi.
      * destruct Hin as [Heq|Hin]; [|exact Hin]. injection Heq as -> ->. rewrite Hk in E0. injection E0 as <- <-.
        rewrite String.eqb_refl in Ef. discriminate.
      * intros v' Hi. apply Hval. right. exact Hi.
  - apply IH.
    + intros k' v' Hi. apply Huniq with (v' := v'). right. exact Hi.
    + destruct Hin as [Heq|Hin]; [|exact Hin]. injection Heq as -> ->. rewrite Hk in E0. discriminate.
    + intros v' Hi. apply Hval. right. exact Hi.
Qed.

(* mode selection *)
Lemma mode_table argv : mode_of_nat (get_mode argv) = documented_mode argv.
Proof.
  destruct argv as [|a [|b r]]; cbn [get_mode documented_mode]; try reflexivity.
  destruct (string_dec a "-t") as [->|N].
  - reflexivity.
  - destruct (String.eqb a "-t") eqn:E; [apply String.eqb_eq in E; contradiction | reflexivity].
Qed.

(* ---- every documented value is the value the procedure receives *)
Definition fields_unique (tags:list (string * string * string)) : bool :=
  forallb (fun t => Nat.eqb (List.length (filter (fun t' => String.eqb (fst (fst t)) (fst (fst t'))) tags)) 1) tags.
Lemma conf_fields_unique : fields_unique conf_tags = true.
Proof. vm_compute. reflexivity. Qed.

Lemma filter_len1_unique {A} (p:A -> bool) (l:list A) x y :
  List.length (filter p l) = 1 -> In x l -> In y l -> p x = true -> p y = true -> x = y.
Proof.
  induction l as [|a l IH]; intros Hl Hx Hy Px Py; [contradiction|].
  cbn [filter] in Hl. destruct (p a) eqn:Pa.
  - cbn [List.length] in Hl. injection Hl as Hl.
    assert (Hn : forall z, In z l -> p z = true -> False).
    { intros z Hz Pz. assert (In z (filter p l)) by (apply filter_In; split; assumption).
      destruct (filter p l); [contradiction | discriminate Hl]. }
    destruct Hx as [->|Hx], Hy as [->|Hy]; try reflexivity; exfalso; eauto.
  - destruct Hx as [->|Hx]; [congruence|]. destruct Hy as [->|Hy]; [congruence|]. apply IH; assumption.
Qed.

Lemma field_of_key_inj tags k1 k2 f ty1 ty2 :
  fields_unique tags = true ->
  field_of_key tags k1 = Some (f, ty1) -> field_of_key tags k2 = Some (f, ty2) -> k1 = k2.
Proof.
  unfold field_of_key. intros U H1 H2.
  destruct (find (fun t => String.eqb (snd t) k1) tags) as [[[f1 t1] y1]|] eqn:E1; [|discriminate].
  destruct (find (fun t => String.eqb (snd t) k2) tags) as [[[f2 t2] y2]|] eqn:E2; [|discriminate].
  injection H1 as -> ->. injection H2 as -> ->.
  apply find_some in E1, E2. destruct E1 as [I1 K1], E2 as [I2 K2]. cbn [snd] in K1, K2.
  apply String.eqb_eq in K1, K2. subst y1 y2.
  unfold fields_unique in U. rewrite forallb_forall in U. specialize (U _ I1). apply Nat.eqb_eq in U.
  assert (Heq : (f, ty1, k1) = (f, ty2, k2)).
  { apply (filter_len1_unique _ tags _ _ U I1 I2); cbn [fst]; apply String.eqb_refl. }
  congruence.
Qed.

Definition file_wf (file:list (string * string)) : Prop :=
  forall k v v', In (k, v) file -> In (k, v') file -> v = v'.

Theorem value_reaches_procedure file key kind consumers v proc pos w cl :
  In (key, kind, consumers) documented_keys -> In (CArg proc pos) consumers -> proc <> "net.InterfaceByName" ->
  In w [wiring_mode1; wiring_mode2] -> In cl (calls_of w proc) ->
  file_wf file -> In (key, v) file ->
  exists a, nth_error (c_args cl) pos = Some a /\ arg_value (load conf_tags file) a = Some v.
Proof.
  intros Hd Hc Hp Hw Hcl Hwf Hin.
  pose proof tags_and_wiring_ok as D. unfold doc_ok in D.
  apply andb_true_iff in D. destruct D as [D _]. apply andb_true_iff in D. destruct D as [D _].
  rewrite forallb_forall in D. specialize (D _ Hd). apply andb_true_iff in D. destruct D as [Dk Dc].
  cbn [fst snd] in Dc. rewrite forallb_forall in Dc. specialize (Dc _ Hc). unfold consumer_ok in Dc.
  destruct (field_of_key conf_tags key) as [[f ty]|] eqn:Ef; [|discriminate].
  apply andb_true_iff in Dc. destruct Dc as [_ Dall].
  destruct (String.eqb proc "net.InterfaceByName") eqn:Ep; [apply String.eqb_eq in Ep; contradiction|].
  rewrite forallb_forall in Dall.
  assert (Hcl' : In cl (flat_map (fun w => calls_of w proc) [wiring_mode1; wiring_mode2])) by (apply in_flat_map; exists w; split; assumption).
  specialize (Dall _ Hcl').
  destruct (nth_error (c_args cl) pos) as [[f'| | |]|] eqn:En; try discriminate.
  apply String.eqb_eq in Dall. subst f'.
  exists (ACfg f). split; [reflexivity|]. cbn [arg_value].
  apply (get_load_unique conf_tags file key f ty v Ef).
  - intros k' v' Hi f' ty' Hk' ->. eapply field_of_key_inj; [exact conf_fields_unique | exact Hk' | exact Ef].
  - exact Hin.
  - intros v' Hi. symmetry. eapply Hwf; eassumption.
Qed.
