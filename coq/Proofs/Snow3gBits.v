(* Bit-level and list-level facts shared by the SNOW 3G / NAS security proofs (C07). *)
From Coq Require Import NArith ZArith List Lia Bool.
From Coq Require Import ZifyN ZifyNat ZifyBool.
Require Import Bytes.
Import ListNotations.
Open Scope N_scope.
Ltac Zify.zify_post_hook ::= Z.div_mod_to_equations.

(* ---- truncations are mod 2^k *)
Lemma w8_mod x : w8 x = x mod 256.
Proof. unfold w8. change 255 with (N.ones 8). rewrite N.land_ones. reflexivity. Qed.
Lemma w32_mod x : w32 x = x mod 4294967296.
Proof. unfold w32. change 4294967295 with (N.ones 32). rewrite N.land_ones. reflexivity. Qed.
Lemma w64_mod x : w64 x = x mod 18446744073709551616.
Proof. unfold w64. change 18446744073709551615 with (N.ones 64). rewrite N.land_ones. reflexivity. Qed.
Lemma land255_mod x : N.land x 255 = x mod 256.
Proof. exact (w8_mod x). Qed.
Lemma land255_lt x : N.land x 255 < 256.
Proof. rewrite land255_mod. lia. Qed.

Lemma shiftl_mul x k : N.shiftl x k = x * 2 ^ k.
Proof. apply N.shiftl_mul_pow2. Qed.
Lemma shiftr_div x k : N.shiftr x k = x / 2 ^ k.
Proof. apply N.shiftr_div_pow2. Qed.

(* ---- xor keeps numbers inside 2^n *)
Lemma lt_pow2_land_ones a n : a < 2 ^ n -> N.land a (N.ones n) = a.
Proof. intro H. rewrite N.land_ones. apply N.mod_small, H. Qed.
Lemma testbit_high_lt a n m : a < 2 ^ n -> n <= m -> N.testbit a m = false.
Proof. intros Ha Hm. rewrite <- (N.mod_small a (2 ^ n) Ha). apply N.mod_pow2_bits_high. exact Hm. Qed.
Lemma lxor_lt_pow2 a b n : a < 2 ^ n -> b < 2 ^ n -> N.lxor a b < 2 ^ n.
Proof.
  intros Ha Hb.
  assert (E : N.lxor a b = (N.lxor a b) mod 2 ^ n).
  { apply N.bits_inj. intro m. destruct (N.lt_ge_cases m n) as [Hm|Hm].
    - rewrite N.mod_pow2_bits_low by exact Hm. reflexivity.
    - rewrite N.mod_pow2_bits_high by exact Hm. rewrite N.lxor_spec.
      rewrite (testbit_high_lt a n m Ha Hm), (testbit_high_lt b n m Hb Hm). reflexivity. }
  rewrite E. apply N.mod_lt. apply N.pow_nonzero. discriminate.
Qed.
Lemma lxor_lt_256 a b : a < 256 -> b < 256 -> N.lxor a b < 256.
Proof. exact (lxor_lt_pow2 a b 8). Qed.
Lemma lxor_lt_32 a b : a < 4294967296 -> b < 4294967296 -> N.lxor a b < 4294967296.
Proof. exact (lxor_lt_pow2 a b 32). Qed.
Lemma lxor_lt_64 a b : a < 18446744073709551616 -> b < 18446744073709551616 -> N.lxor a b < 18446744073709551616.
Proof. exact (lxor_lt_pow2 a b 64). Qed.

(* ---- (x << n) | y = x * 2^n + y when y fits below *)
Lemma land_mul_pow2_low x y n : y < 2 ^ n -> N.land (x * 2 ^ n) y = 0.
Proof.
  intro Hy. apply N.bits_inj_0. intro m. rewrite N.land_spec.
  destruct (N.lt_ge_cases m n) as [Hm|Hm].
  - rewrite N.mul_pow2_bits_low by exact Hm. reflexivity.
  - rewrite (testbit_high_lt y n m Hy Hm). apply andb_false_r.
Qed.
Lemma lor_mul_pow2_add x y n : y < 2 ^ n -> N.lor (x * 2 ^ n) y = x * 2 ^ n + y.
Proof.
  intro Hy. pose proof (land_mul_pow2_low x y n Hy) as H0.
  rewrite <- (N.lxor_lor _ _ H0). symmetry. apply N.add_nocarry_lxor. exact H0.
Qed.

(* ---- a property of one octet checked on all 256 octets holds for every octet *)
Definition range256' : list N := map N.of_nat (seq 0 256).
Lemma in_range256 x : x < 256 -> In x range256'.
Proof.
  intro H. unfold range256'. rewrite <- (N2Nat.id x). apply in_map. apply in_seq. lia.
Qed.
Lemma byte_check (P:N -> bool) : forallb P range256' = true -> forall x, x < 256 -> P x = true.
Proof. intros H x Hx. rewrite forallb_forall in H. apply H, in_range256, Hx. Qed.

(* ---- slices *)
Lemma nth_error_nth {A} (l:list A) i d : (i < length l)%nat -> nth_error l i = Some (nth i l d).
Proof.
  revert i; induction l as [|x l IH]; intros i H.
  - cbn in H. lia.
  - destruct i as [|i]; [reflexivity|]. cbn [nth_error nth]. apply IH. cbn in H. lia.
Qed.

Lemma xor_bytes_length a b : length (xor_bytes a b) = Nat.min (length a) (length b).
Proof. revert b; induction a as [|x a IH]; intros [|y b]; cbn [xor_bytes length Nat.min]; try reflexivity. rewrite IH. reflexivity. Qed.
Lemma xor_bytes_nth a b p : (p < length a)%nat -> (p < length b)%nat ->
  nth p (xor_bytes a b) 0 = N.lxor (nth p a 0) (nth p b 0).
Proof.
  revert b p; induction a as [|x a IH]; intros b p Ha Hb; [cbn in Ha; lia|].
  destruct b as [|y b]; [cbn in Hb; lia|].
  destruct p as [|p]; [reflexivity|]. cbn [xor_bytes nth]. cbn in Ha, Hb. apply IH; lia.
Qed.

Lemma N_to_be_4 w : N_to_be 4 w = [w / 256 / 256 / 256 mod 256; w / 256 / 256 mod 256; w / 256 mod 256; w mod 256].
Proof. reflexivity. Qed.

Lemma firstn_repeat {A} (x:A) n m : (n <= m)%nat -> firstn n (repeat x m) = repeat x n.
Proof. revert m; induction n as [|n IH]; intros [|m] H; cbn; try reflexivity; try lia. f_equal. apply IH. lia. Qed.
Lemma skipn_repeat {A} (x:A) n m : skipn n (repeat x m) = repeat x (m - n).
Proof. revert m; induction n as [|n IH]; intros [|m]; cbn; try reflexivity. apply IH. Qed.
