(* C07 (e): NIA1 = 128-EIA1.  Three ingredients:
   - the keystream words are 32-bit (range invariant of SNOW 3G), so P = z1||z2, Q = z3||z4 agree;
   - mulx/mulxPow/mul of security.go are MULx/MULxPOW/MUL of TS 35.215 4.3 on 64-bit values;
   - the block loop with its slice arithmetic (D, the copy into an 8-octet zero buffer) reads the
     message as the zero-padded 64-bit blocks M_0 .. M_(D-2). *)
From Coq Require Import NArith ZArith List Lia Bool.
From Coq Require Import ZifyN ZifyNat ZifyBool.
Require Import Bytes AES Modes Snow3gTables Snow3g Security Snow3gSpec TS33401B Snow3gBits Snow3gProofs SecAesLen SecProofs.
Import ListNotations.
Open Scope N_scope.
Ltac Zify.zify_post_hook ::= Z.div_mod_to_equations.

Definition lt32 (x:N) : Prop := x < 4294967296.
Definition lt64 (x:N) : Prop := x < 18446744073709551616.

(* ------------------------------------------------------------------ SNOW 3G words stay below 2^32 *)
Lemma nth_lt32 l i : Forall lt32 l -> lt32 (nth i l 0).
Proof.
  intro H. destruct (Nat.lt_ge_cases i (length l)) as [Hi|Hi].
  - rewrite Forall_forall in H. apply H, nth_In, Hi.
  - rewrite nth_overflow by exact Hi. unfold lt32. lia.
Qed.

Lemma MULx_lt V c : c < 256 -> MULx V c < 256.
Proof.
  intro Hc. unfold MULx. assert (H : shl8 V < 256) by (unfold shl8; apply land255_lt).
  destruct (128 <=? V); [apply lxor_lt_256; assumption | exact H].
Qed.
Lemma MULxPOW_lt V i c : V < 256 -> c < 256 -> MULxPOW V i c < 256.
Proof. intros HV Hc. destruct i as [|i]; cbn [MULxPOW]; [exact HV | apply MULx_lt, Hc]. Qed.
Lemma S_R_lt x : S_R x < 256.
Proof. rewrite <- sr_is_S_R. apply sr_lt. Qed.
Lemma S_Q_lt x : S_Q x < 256.
Proof. rewrite <- sq_is_S_Q. apply sq_lt. Qed.
Lemma x5_lt a b c d e : a < 256 -> b < 256 -> c < 256 -> d < 256 -> e < 256 -> x5 a b c d e < 256.
Proof. intros. unfold x5. repeat apply lxor_lt_256; assumption. Qed.
Lemma Smix_lt SB c w : (forall x, SB x < 256) -> c < 256 -> lt32 (Smix SB c w).
Proof.
  intros HS Hc. unfold Smix, lt32. cbv zeta. apply cat4_lt; apply x5_lt; (apply HS || apply MULx_lt, Hc).
Qed.
Lemma S1_lt w : lt32 (S1 w).
Proof. apply Smix_lt; [apply S_R_lt | lia]. Qed.
Lemma S2_lt w : lt32 (S2 w).
Proof. apply Smix_lt; [apply S_Q_lt | lia]. Qed.
Lemma octet_lt w i : octet w i < 256.
Proof. unfold octet. apply land255_lt. Qed.
Lemma MULalpha_lt c : c < 256 -> lt32 (MULalpha c).
Proof. intro H. unfold MULalpha, lt32. apply cat4_lt; apply MULxPOW_lt; (exact H || lia). Qed.
Lemma DIValpha_lt c : c < 256 -> lt32 (DIValpha c).
Proof. intro H. unfold DIValpha, lt32. apply cat4_lt; apply MULxPOW_lt; (exact H || lia). Qed.

Definition wf32 (st:snow) : Prop := Forall lt32 (S_lfsr st) /\ lt32 (S_R1 st) /\ lt32 (S_R2 st) /\ lt32 (S_R3 st).
Lemma sx_lt32 st i : wf32 st -> lt32 (sx st i).
Proof. intros [H _]. apply nth_lt32, H. Qed.

Lemma ClockFSM_wf st : wf32 st -> wf32 (fst (ClockFSM st)) /\ lt32 (snd (ClockFSM st)).
Proof.
  intros Hw. pose proof Hw as [Hl [H1 [H2 H3]]]. unfold ClockFSM. cbn [fst snd]. split.
  - unfold wf32. cbn [S_lfsr S_R1 S_R2 S_R3]. repeat split; try assumption.
    + unfold lt32, add32, two32. lia.
    + apply S1_lt.
    + apply S2_lt.
  - unfold lt32. apply lxor_lt_32; [unfold add32, two32; lia | exact H2].
Qed.
Lemma Forall_tl {A} (P:A -> Prop) l : Forall P l -> Forall P (tl l).
Proof. intro H. destruct l; [exact H|]. inversion H; assumption. Qed.
Lemma ClockLFSR_wf st F : wf32 st -> lt32 F -> wf32 (ClockLFSR st F).
Proof.
  intros Hw HF. pose proof Hw as [Hl [H1 [H2 H3]]]. unfold ClockLFSR, wf32. cbn [S_lfsr S_R1 S_R2 S_R3].
  repeat split; try assumption.
  apply Forall_app. split; [apply Forall_tl, Hl|]. constructor; [|constructor].
  unfold lt32. apply lxor_lt_32; [|exact HF]. unfold lfsr_feedback.
  pose proof (sx_lt32 st 0 Hw) as A0. pose proof (sx_lt32 st 2 Hw) as A2. pose proof (sx_lt32 st 11 Hw) as A11. unfold lt32 in *.
  repeat apply lxor_lt_32.
  - unfold two32. lia.
  - apply MULalpha_lt, octet_lt.
  - exact A2.
  - unfold two8. lia.
  - apply DIValpha_lt, octet_lt.
Qed.
Lemma init_round_wf st : wf32 st -> wf32 (init_round st).
Proof.
  intro Hw. unfold init_round. destruct (ClockFSM_wf st Hw) as [H1 H2].
  destruct (ClockFSM st) as [st1 F]. cbn [fst snd] in *. apply ClockLFSR_wf; assumption.
Qed.
Lemma iter_init_wf n st : wf32 st -> wf32 (Nat.iter n init_round st).
Proof.
  intro Hw. induction n as [|n IH]; [exact Hw|].
  change (wf32 (init_round (Nat.iter n init_round st))). apply init_round_wf, IH.
Qed.
Lemma snow_load_wf k iv : Forall lt32 k -> Forall lt32 iv -> wf32 (snow_load k iv).
Proof.
  intros Hk Hi. unfold snow_load, wf32. cbn [S_lfsr S_R1 S_R2 S_R3].
  pose proof (nth_lt32 k 0 Hk). pose proof (nth_lt32 k 1 Hk). pose proof (nth_lt32 k 2 Hk). pose proof (nth_lt32 k 3 Hk).
  pose proof (nth_lt32 iv 0 Hi). pose proof (nth_lt32 iv 1 Hi). pose proof (nth_lt32 iv 2 Hi). pose proof (nth_lt32 iv 3 Hi).
  assert (Ho : ones32 < 4294967296) by (unfold ones32; lia).
  unfold lt32 in *. repeat split; try lia.
  repeat (constructor; [repeat apply lxor_lt_32; assumption|]). constructor.
Qed.
Lemma snow_words_lt32 n st : wf32 st -> Forall lt32 (snow_words n st).
Proof.
  revert st; induction n as [|n IH]; intros st Hw; [constructor|].
  cbn [snow_words]. destruct (ClockFSM_wf st Hw) as [H1 H2]. destruct (ClockFSM st) as [st1 F]. cbn [fst snd] in *.
  constructor.
  - unfold lt32. apply lxor_lt_32; [exact H2 | apply (sx_lt32 st1 0 H1)].
  - apply IH. apply ClockLFSR_wf; [exact H1 | unfold lt32; lia].
Qed.
Lemma snow3g_keystream_lt32 k iv n : Forall lt32 k -> Forall lt32 iv -> Forall lt32 (snow3g_keystream k iv n).
Proof.
  intros Hk Hi. unfold snow3g_keystream, snow_init.
  pose proof (iter_init_wf 32 _ (snow_load_wf k iv Hk Hi)) as Hw.
  destruct (ClockFSM_wf _ Hw) as [H1 H2]. destruct (ClockFSM _) as [st1 F]. cbn [fst snd] in *.
  apply snow_words_lt32. apply ClockLFSR_wf; [exact H1 | unfold lt32; lia].
Qed.

(* ------------------------------------------------------------------ octet strings as numbers *)
Lemma bytes_ok_In l x : bytes_ok l = true -> In x l -> x < 256.
Proof. intros H Hx. unfold bytes_ok in H. rewrite forallb_forall in H. specialize (H x Hx). unfold byte_ok in H. lia. Qed.
Lemma be_to_N_acc_lt l : (forall x, In x l -> x < 256) -> forall acc, be_to_N_acc acc l < (acc + 1) * 256 ^ N.of_nat (length l).
Proof.
  induction l as [|b l IH]; intros H acc.
  - cbn [be_to_N_acc length N.of_nat]. rewrite N.pow_0_r. lia.
  - cbn [be_to_N_acc length]. rewrite Nat2N.inj_succ, N.pow_succ_r'.
    assert (Hb : b < 256) by (apply H; left; reflexivity).
    specialize (IH (fun x Hx => H x (or_intror Hx)) (acc * 256 + b)).
    assert (Hp : 0 < 256 ^ N.of_nat (length l)) by (apply N.neq_0_lt_0, N.pow_nonzero; lia).
    nia.
Qed.
Lemma be_to_N_lt l m : (forall x, In x l -> x < 256) -> (length l <= m)%nat -> be_to_N l < 256 ^ N.of_nat m.
Proof.
  intros H Hl. unfold be_to_N. pose proof (be_to_N_acc_lt l H 0) as A. rewrite N.add_0_l, N.mul_1_l in A.
  eapply N.lt_le_trans; [exact A|]. apply N.pow_le_mono_r; lia.
Qed.
Lemma In_firstn {A} (x:A) n l : In x (firstn n l) -> In x l.
Proof. intro H. rewrite <- (firstn_skipn n l). apply in_or_app. left. exact H. Qed.
Lemma In_skipn {A} (x:A) n l : In x (skipn n l) -> In x l.
Proof. intro H. rewrite <- (firstn_skipn n l). apply in_or_app. right. exact H. Qed.

Lemma key_words_lt32 ck : bytes_ok ck = true -> Forall lt32 (key_words ck).
Proof.
  intro H. unfold key_words.
  assert (A : forall l, (forall x, In x l -> In x ck) -> lt32 (be_to_N (firstn 4 l))).
  { intros l Hl. unfold lt32. change 4294967296 with (256 ^ N.of_nat 4). apply be_to_N_lt.
    - intros x Hx. apply (bytes_ok_In ck x H), Hl, (In_firstn x 4 l Hx).
    - apply firstn_le_length. }
  repeat constructor; apply A; intros x Hx; (exact Hx || apply (In_skipn x _ ck Hx)).
Qed.

(* ------------------------------------------------------------------ GF(2^64) helpers *)
Lemma land_pow2 V n : N.land V (2 ^ n) = if N.testbit V n then 2 ^ n else 0.
Proof.
  apply N.bits_inj. intro m. rewrite N.land_spec, N.pow2_bits_eqb.
  destruct (N.eqb_spec n m) as [->|Hne].
  - destruct (N.testbit V m); [rewrite N.pow2_bits_true | rewrite N.bits_0]; reflexivity.
  - rewrite andb_false_r. destruct (N.testbit V n); [rewrite N.pow2_bits_false by exact Hne | rewrite N.bits_0]; reflexivity.
Qed.
Lemma msb64 V : lt64 V -> negb (N.land V 9223372036854775808 =? 0) = (9223372036854775808 <=? V).
Proof.
  unfold lt64. intro HV. change 9223372036854775808 with (2 ^ 63). rewrite land_pow2.
  destruct (N.testbit V 63) eqn:T.
  - apply N.testbit_true in T. change (2 ^ 63) with 9223372036854775808 in *. cbn [N.eqb negb]. lia.
  - apply N.testbit_false in T. change (2 ^ 63) with 9223372036854775808 in *. cbn [N.eqb negb]. lia.
Qed.
Lemma sec_mulx_MULx64 V c : lt64 V -> sec_mulx V c = MULx64 V c.
Proof.
  intro HV. unfold sec_mulx, MULx64. rewrite (msb64 V HV).
  assert (E : w64 (N.shiftl V 1) = shl64 V) by (unfold w64, shl64; rewrite shiftl_mul; reflexivity).
  rewrite E. reflexivity.
Qed.
Lemma sec_mulx_lt V c : lt64 c -> lt64 (sec_mulx V c).
Proof.
  unfold lt64. intro Hc. unfold sec_mulx. assert (H : w64 (N.shiftl V 1) < 18446744073709551616) by (rewrite w64_mod; lia).
  destruct (negb _); [apply lxor_lt_64; assumption | exact H].
Qed.
Lemma sec_mulxPow_lt V i c : lt64 V -> lt64 c -> lt64 (sec_mulxPow V i c).
Proof. intros HV Hc. destruct i as [|i]; cbn [sec_mulxPow]; [exact HV | apply sec_mulx_lt, Hc]. Qed.
Lemma sec_mulxPow_MULxPOW64 V i c : lt64 V -> lt64 c -> sec_mulxPow V i c = MULxPOW64 V i c.
Proof.
  intros HV Hc. induction i as [|i IH]; cbn [sec_mulxPow MULxPOW64]; [reflexivity|].
  rewrite <- IH. apply sec_mulx_MULx64. apply sec_mulxPow_lt; assumption.
Qed.
Lemma bit_test P i : (N.land (N.shiftr P i) 1 =? 1) = N.testbit P i.
Proof.
  change 1 with (N.ones 1) at 1. rewrite N.land_ones. change (2 ^ 1) with 2.
  rewrite <- N.bit0_mod, N.shiftr_spec, N.add_0_l by lia. destruct (N.testbit P i); reflexivity.
Qed.
Lemma fold_left_ext_lt {A B} (f g:A -> B -> A) (I:A -> Prop) l a :
  I a -> (forall a b, I a -> f a b = g a b /\ I (f a b)) -> fold_left f l a = fold_left g l a /\ I (fold_left f l a).
Proof.
  intros Ha H. revert a Ha; induction l as [|b l IH]; intros a Ha; [split; [reflexivity | exact Ha]|].
  cbn [fold_left]. destruct (H a b Ha) as [E Hi]. rewrite <- E. apply IH, Hi.
Qed.
Lemma sec_mul_MUL64 V P c : lt64 V -> lt64 c -> sec_mul V P c = MUL64 V P c /\ lt64 (sec_mul V P c).
Proof.
  intros HV Hc. unfold sec_mul, MUL64. apply (fold_left_ext_lt _ _ lt64).
  - unfold lt64. lia.
  - intros a i Ha. rewrite bit_test, sec_mulxPow_MULxPOW64 by assumption. split; [reflexivity|].
    destruct (N.testbit P (N.of_nat i)); [|exact Ha].
    unfold lt64 in *. apply lxor_lt_64; [exact Ha|]. rewrite <- sec_mulxPow_MULxPOW64 by assumption. apply sec_mulxPow_lt; assumption.
Qed.

Global Opaque sec_mul MUL64.

(* ------------------------------------------------------------------ the block loop *)
Definition mblk (msg:bytes) (i:nat) : N := be_to_N (firstn 8 (skipn (8 * i) msg)).
Definition mstep (P:N) (e m:N) : N := sec_mul (N.lxor e m) P 27.

Lemma mstep_eq P e m : mstep P e m = sec_mul (N.lxor e m) P 27.
Proof. reflexivity. Qed.
Lemma nia1_loop_unfold fuel i bound msg P E :
  nia1_loop fuel i bound msg P E =
  if i <? bound then
    match fuel with
    | O => SFuel
    | S f =>
        if N.of_nat (length msg) <? 8 * i then SPanic
        else match be_uint 8 (skipn (N.to_nat (8 * i)) msg) with
             | None => SPanic
             | Some M => nia1_loop f (i + 1) bound msg P (sec_mul (N.lxor E M) P 27)
             end
    end
  else SOk E.
Proof. destruct fuel; reflexivity. Qed.
Lemma fold_map_seq_cons (f:N -> N -> N) (g:nat -> N) i k E :
  fold_left f (map g (seq i (S k))) E = fold_left f (map g (seq (S i) k)) (f E (g i)).
Proof. reflexivity. Qed.
Lemma fold_blocks_cons P msg i k E :
  fold_left (mstep P) (map (mblk msg) (seq i (S k))) E
  = fold_left (mstep P) (map (mblk msg) (seq (S i) k)) (mstep P E (mblk msg i)).
Proof. exact (fold_map_seq_cons (mstep P) (mblk msg) i k E). Qed.

Lemma nia1_loop_blocks msg P q : (8 * q < length msg)%nat ->
  forall k i fuel E, (i + k = q)%nat -> (k <= fuel)%nat ->
    nia1_loop fuel (N.of_nat i) (N.of_nat q) msg P E = SOk (fold_left (mstep P) (map (mblk msg) (seq i k)) E).
Proof.
  intros Hq. induction k as [|k IH]; intros i fuel E Hik Hf.
  - rewrite nia1_loop_unfold. replace (N.of_nat i <? N.of_nat q) with false by lia. reflexivity.
  - destruct fuel as [|f]; [lia|]. rewrite nia1_loop_unfold.
    replace (N.of_nat i <? N.of_nat q) with true by lia.
    replace (N.of_nat (length msg) <? 8 * N.of_nat i) with false by lia.
    replace (N.to_nat (8 * N.of_nat i)) with (8 * i)%nat by lia.
    unfold be_uint. rewrite skipn_length. replace (8 <=? length msg - 8 * i)%nat with true by (symmetry; apply Nat.leb_le; lia).
    replace (N.of_nat i + 1) with (N.of_nat (S i)) by lia.
    rewrite IH by lia. rewrite fold_blocks_cons, mstep_eq. reflexivity.
Qed.

Lemma blocks64_split msg q : (8 * q < length msg)%nat -> (length msg <= 8 * q + 8)%nat ->
  blocks64 (q + 1) msg = map (mblk msg) (seq 0 q) ++ [be_to_N (skipn (8 * q) msg ++ repeat 0 (8 * q + 8 - length msg))].
Proof.
  intros H1 H2. unfold blocks64. rewrite Nat.add_1_r, seq_S, map_app. cbn [map Nat.add]. f_equal.
  - apply map_ext_in. intros i Hi. apply in_seq in Hi. unfold mblk, pad_to. f_equal.
    rewrite skipn_app. replace (8 * i - length msg)%nat with 0%nat by lia. cbn [skipn].
    rewrite firstn_app. rewrite skipn_length. replace (8 - (length msg - 8 * i))%nat with 0%nat by lia.
    cbn [firstn]. rewrite app_nil_r. reflexivity.
  - f_equal. f_equal. unfold pad_to. rewrite skipn_app. replace (8 * q - length msg)%nat with 0%nat by lia. cbn [skipn].
    replace (8 * S q - length msg)%nat with (8 * q + 8 - length msg)%nat by lia.
    apply firstn_all2. rewrite app_length, skipn_length, repeat_length. lia.
Qed.

Lemma mblk_lt64 msg i : bytes_ok msg = true -> lt64 (mblk msg i).
Proof.
  intro H. unfold lt64, mblk. change 18446744073709551616 with (256 ^ N.of_nat 8). apply be_to_N_lt.
  - intros x Hx. apply (bytes_ok_In msg x H). apply (In_skipn x (8 * i)), (In_firstn x 8), Hx.
  - apply firstn_le_length.
Qed.
Lemma fold_left_ext_inv {A B} (f g:A -> B -> A) (I:A -> Prop) (J:B -> Prop) l a :
  I a -> Forall J l -> (forall a b, I a -> J b -> f a b = g a b /\ I (f a b)) ->
  fold_left f l a = fold_left g l a /\ I (fold_left f l a).
Proof.
  intros Ha Hl H. revert a Ha; induction Hl as [|b l Hb Hl IH]; intros a Ha; [split; [reflexivity | exact Ha]|].
  cbn [fold_left]. destruct (H a b Ha Hb) as [E Hi]. rewrite <- E. apply IH, Hi.
Qed.
Lemma mstep_spec P a b : lt64 a -> lt64 b -> mstep P a b = MUL64 (N.lxor a b) P 27 /\ lt64 (mstep P a b).
Proof.
  intros Ha Hb. rewrite mstep_eq. apply sec_mul_MUL64; [apply lxor_lt_64; assumption | unfold lt64; lia].
Qed.
Lemma fold_mstep_spec P msg l E : bytes_ok msg = true -> lt64 E ->
  fold_left (mstep P) (map (mblk msg) l) E = fold_left (fun e m => MUL64 (N.lxor e m) P 27) (map (mblk msg) l) E
  /\ lt64 (fold_left (mstep P) (map (mblk msg) l) E).
Proof.
  intros Hm HE. apply (fold_left_ext_inv (mstep P) (fun e m => MUL64 (N.lxor e m) P 27) lt64 lt64).
  - exact HE.
  - apply Forall_forall. intros x Hx. apply in_map_iff in Hx. destruct Hx as [i [<- _]]. apply mblk_lt64, Hm.
  - intros a b Ha Hb. apply mstep_spec; assumption.
Qed.

(* ------------------------------------------------------------------ IV *)
Lemma nia1_iv_is_f9_iv count bearer dir : bearer < 32 -> dir < 2 ->
  nia1_iv count bearer dir = f9_iv count (bearer * 2 ^ 27) dir.
Proof.
  intros Hb Hd. unfold nia1_iv, f9_iv.
  assert (Hf : w32 (N.shiftl bearer 27) = bearer * 2 ^ 27).
  { rewrite w32_mod, shiftl_mul. change (2 ^ 27) with 134217728. apply N.mod_small. lia. }
  assert (H15 : w32 (N.shiftl dir 15) = dir * 2 ^ 15).
  { rewrite w32_mod, shiftl_mul. change (2 ^ 15) with 32768. apply N.mod_small. lia. }
  assert (H31 : w32 (N.shiftl dir 31) = dir * 2 ^ 31).
  { rewrite w32_mod, shiftl_mul. change (2 ^ 31) with 2147483648. apply N.mod_small. lia. }
  rewrite Hf, H15, H31. reflexivity.
Qed.
Lemma f9_iv_lt32 count bearer dir : bearer < 32 -> dir < 2 -> count < 4294967296 -> Forall lt32 (f9_iv count (bearer * 2 ^ 27) dir).
Proof.
  intros Hb Hd Hc. unfold f9_iv, lt32. change (2 ^ 27) with 134217728. change (2 ^ 15) with 32768. change (2 ^ 31) with 2147483648.
  repeat constructor; try apply lxor_lt_32; lia.
Qed.

Lemma cat64 a b : lt32 a -> lt32 b -> N.lor (w64 (N.shiftl a 32)) b = a * two32 + b.
Proof.
  unfold lt32, two32. intros Ha Hb. rewrite w64_mod, shiftl_mul. change (2 ^ 32) with 4294967296.
  rewrite N.mod_small by lia. change 4294967296 with (2 ^ 32) at 1. rewrite lor_mul_pow2_add by (change (2 ^ 32) with 4294967296; lia).
  reflexivity.
Qed.

(* ------------------------------------------------------------------ NIA1 = 128-EIA1 *)
Lemma nia1_post_is_uia2 z msg n :
  n = length msg -> (1 <= n)%nat -> N.of_nat n < 2305843009213693944 -> bytes_ok msg = true -> Forall lt32 z ->
  nia1_post z msg (8 * N.of_nat n) =
  SOk (let P := nth 0 z 0 * two32 + nth 1 z 0 in
       let Q := nth 2 z 0 * two32 + nth 3 z 0 in
       let EVAL := fold_left (fun e m => MUL64 (N.lxor e m) P 27) (blocks64 (N.to_nat ((8 * N.of_nat n + 63) / 64)) msg) 0 in
       let EVAL := N.lxor EVAL (8 * N.of_nat n) in
       let EVAL := MUL64 EVAL Q 27 in
       N_to_be 4 (N.lxor (EVAL / two32) (nth 4 z 0))).
Proof.
  intros En H1 Hn Hm Hz. unfold nia1_post. cbv zeta.
  set (q := ((n - 1) / 8)%nat).
  assert (Hq1 : (8 * q < n)%nat) by (unfold q; lia).
  assert (Hq2 : (n <= 8 * q + 8)%nat) by (unfold q; lia).
  assert (ED : w64 (w64 (w64 (8 * N.of_nat n + 63) / 64 + 1) + 18446744073709551614) = N.of_nat q).
  { rewrite !w64_mod. rewrite (N.mod_small (8 * N.of_nat n + 63)) by lia.
    rewrite (N.mod_small ((8 * N.of_nat n + 63) / 64 + 1)) by lia. unfold q. lia. }
  rewrite ED.
  rewrite (cat64 _ _ (nth_lt32 z 0 Hz) (nth_lt32 z 1 Hz)), (cat64 _ _ (nth_lt32 z 2 Hz) (nth_lt32 z 3 Hz)).
  set (P := nth 0 z 0 * two32 + nth 1 z 0). set (Q := nth 2 z 0 * two32 + nth 3 z 0).
  change 0 with (N.of_nat 0) at 1.
  rewrite (nia1_loop_blocks msg P q) with (k := q) by (try rewrite <- En; lia).
  assert (Eoff : w64 (8 * N.of_nat q) = N.of_nat (8 * q)) by (rewrite w64_mod, N.mod_small by lia; lia).
  rewrite Eoff. rewrite <- En. replace (N.of_nat n <? N.of_nat (8 * q)) with false by lia.
  rewrite Nat2N.id. f_equal.
  (* the blocks *)
  replace (N.to_nat ((8 * N.of_nat n + 63) / 64)) with (q + 1)%nat by (unfold q; lia).
  rewrite blocks64_split by (rewrite <- En; assumption). rewrite <- En. rewrite fold_left_app. cbn [fold_left].
  destruct (fold_mstep_spec P msg (seq 0 q) 0 Hm) as [EF LF]; [unfold lt64; lia|].
  rewrite <- EF. set (E0 := fold_left (mstep P) (map (mblk msg) (seq 0 q)) 0) in *.
  (* the last block: copy into an 8-octet zero buffer *)
  assert (Etmp : go_copy (repeat 0 8) (skipn (8 * q) msg) = skipn (8 * q) msg ++ repeat 0 (8 * q + 8 - n)).
  { unfold go_copy. rewrite repeat_length, skipn_length, <- En.
    rewrite firstn_all2 by (rewrite skipn_length, <- En; lia). rewrite skipn_repeat. f_equal. f_equal. lia. }
  rewrite Etmp. set (M := be_to_N (skipn (8 * q) msg ++ repeat 0 (8 * q + 8 - n))).
  assert (HM : lt64 M).
  { unfold lt64, M. change 18446744073709551616 with (256 ^ N.of_nat 8). apply be_to_N_lt.
    - intros x Hx. apply in_app_or in Hx. destruct Hx as [Hx|Hx].
      + apply (bytes_ok_In msg x Hm), (In_skipn x (8 * q)), Hx.
      + apply repeat_spec in Hx. lia.
    - rewrite app_length, skipn_length, repeat_length, <- En. lia. }
  destruct (sec_mul_MUL64 (N.lxor E0 M) P 27) as [E1 L1]; [apply lxor_lt_64; assumption | unfold lt64; lia|].
  rewrite <- E1. set (Ev1 := sec_mul (N.lxor E0 M) P 27) in *.
  assert (HL : lt64 (N.lxor Ev1 (8 * N.of_nat n))) by (apply lxor_lt_64; [exact L1 | unfold lt64; lia]).
  destruct (sec_mul_MUL64 (N.lxor Ev1 (8 * N.of_nat n)) Q 27 HL) as [E2 L2]; [unfold lt64; lia|].
  rewrite <- E2. set (Ev2 := sec_mul (N.lxor Ev1 (8 * N.of_nat n)) Q 27) in *.
  unfold put_uint32. cbn [repeat skipn]. rewrite app_nil_r. f_equal. f_equal.
  rewrite w32_mod, shiftr_div. unfold lt64 in L2. unfold two32. change (2 ^ 32) with 4294967296. lia.
Qed.

Theorem NIA1_is_eia1 st ik count bearer dir msg :
  bearer < 32 -> dir < 2 -> count < 4294967296 -> bytes_ok ik = true -> bytes_ok msg = true ->
  msg <> [] -> N.of_nat (length msg) < 2305843009213693944 ->
  snd (NIA1 st ik count bearer dir msg (8 * N.of_nat (length msg))) = SOk (eia1 ik count bearer dir msg).
Proof.
  intros Hb Hd Hc Hk Hm Hne Hn. rewrite NIA1_unfold, snow3g_model_is_spec.
  rewrite load_key_is_key_words, nia1_iv_is_f9_iv by assumption.
  rewrite (nia1_post_is_uia2 _ msg (length msg)); try trivial.
  - destruct msg; [congruence | cbn [length]; lia].
  - apply snow3g_keystream_lt32; [apply key_words_lt32, Hk | apply f9_iv_lt32; assumption].
Qed.

Lemma len64_times8 n : N.of_nat n < 2305843009213693944 -> w64 (w64 (N.of_nat n) * 8) = 8 * N.of_nat n.
Proof. intro H. rewrite !w64_mod. rewrite (N.mod_small (N.of_nat n)) by lia. rewrite N.mod_small by lia. lia. Qed.

Theorem nas_mac_is_spec alg key count bearer dir msg :
  key_ok key = true -> bytes_ok key = true -> bytes_ok msg = true -> alg = 1 \/ alg = 2 ->
  bearer < 32 -> dir < 2 -> count < 4294967296 -> msg <> [] -> N.of_nat (length msg) < 2305843009213693944 ->
  nas_mac alg key count bearer dir msg = nia_spec aes128 alg key count bearer dir msg.
Proof.
  intros Hk Hkb Hm Ha Hb Hd Hc Hne Hn. unfold nia_spec.
  replace (bearer <? 32) with true by lia. replace (dir <? 2) with true by lia. cbn [andb].
  destruct Ha as [-> | ->]; cbn [N.eqb Pos.eqb].
  - unfold nas_mac, NASMacCalculate. rewrite Hk.
    replace (31 <? bearer) with false by lia. replace (1 <? dir) with false by lia.
    cbn [AlgIntegrity128NIA0 AlgIntegrity128NIA1 N.eqb Pos.eqb].
    rewrite len64_times8 by exact Hn. rewrite NIA1_is_eia1 by assumption. reflexivity.
  - apply nas_mac_nia2_is_eia2; assumption.
Qed.

(* ------------------------------------------------------------------ the MAC is four octets (used by C06/C10) *)
Lemma Some_inj {A} (a b:A) : Some a = Some b -> a = b.
Proof. intro H. injection H. auto. Qed.
Lemma SOk_inj {A} (a b:A) : SOk a = SOk b -> a = b.
Proof. intro H. injection H. auto. Qed.
Lemma nia1_post_len z msg L t : nia1_post z msg L = SOk t -> length t = 4%nat.
Proof.
  unfold nia1_post. cbv zeta. destruct (nia1_loop _ _ _ _ _ _); try discriminate.
  destruct (_ <? _); try discriminate. intro H. apply SOk_inj in H. rewrite <- H. unfold put_uint32.
  rewrite app_length, N_to_be_length. reflexivity.
Qed.
Lemma cmac_aes128_length key m : key_ok key = true -> length (cmac aes128 key m) = 16%nat.
Proof. intro Hk. unfold cmac. cbv zeta. apply aes128_length. unfold key_ok in Hk. apply Nat.eqb_eq, Hk. Qed.
Lemma eia2_aes128_length key count bearer dir msg : key_ok key = true -> length (eia2 aes128 key count bearer dir msg) = 4%nat.
Proof. intro Hk. unfold eia2. rewrite firstn_length, cmac_aes128_length by exact Hk. reflexivity. Qed.
Lemma nas_mac_alg1 key count bearer dir msg :
  key_ok key = true -> bearer < 32 -> dir < 2 ->
  nas_mac 1 key count bearer dir msg
  = sres_opt (snd (NIA1 zero_state key count bearer dir msg (w64 (w64 (N.of_nat (length msg)) * 8)))).
Proof.
  intros Hk Hb Hd. unfold nas_mac, NASMacCalculate. rewrite Hk.
  replace (31 <? bearer) with false by lia. replace (1 <? dir) with false by lia. reflexivity.
Qed.
Theorem nas_mac_len4 alg key count bearer dir msg t :
  nas_mac alg key count bearer dir msg = Some t -> alg = 1 \/ alg = 2 -> length t = 4%nat.
Proof.
  intros H Ha.
  destruct (N.le_gt_cases bearer 31) as [Hb|Hb]; [|rewrite nas_mac_refused in H by lia; discriminate].
  destruct (N.le_gt_cases dir 1) as [Hd|Hd]; [|rewrite nas_mac_refused in H by lia; discriminate].
  destruct (key_ok key) eqn:Hk; [|unfold nas_mac in H; rewrite Hk in H; discriminate].
  destruct Ha as [-> | ->].
  - rewrite nas_mac_alg1, NIA1_unfold in H by (assumption || lia).
    destruct (nia1_post _ _ _) eqn:Hp; try discriminate.
    apply Some_inj in H. subst a. apply (nia1_post_len _ _ _ _ Hp).
  - rewrite nas_mac_nia2_is_eia2 in H by (assumption || lia).
    apply Some_inj in H. subst t. apply eia2_aes128_length, Hk.
Qed.
