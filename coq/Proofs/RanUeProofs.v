(* C05: DeriveRESstarAndSetKey / DerivateKamf / DerivateAlgKey / the SN name of RegisterUE (Model/RanUe.v, Kdf.v,
   WmnskMilenage.v) against TS 35.206 + TS 33.501 Annex A (Spec/TS33501.v), for every block cipher E with
   16-octet output and every MAC function H with 32-octet output. *)
From Coq Require Import NArith ZArith List Lia Bool.
From Coq Require Import ZifyN ZifyNat ZifyBool.
Require Import Bytes BytesLemmas TS35206 TS33501 Milenage WmnskMilenage Kdf RanUe MilenageProofs.
Import ListNotations.
Open Scope N_scope.

(* ---- KDF: GetKDFValue with the L_i produced by KDFLen is the TS 33.220 B.2 KDF *)
Lemma KDFLen_len2 p : KDFLen p = len2 p.
Proof. unfold KDFLen, len2. apply N_to_be_2_mod. Qed.

Section Kdf.
Variable H : bytes -> bytes -> bytes.
Lemma kdf2 key fcs fc p0 p1 : hex_decode fcs = Some [fc] ->
  GetKDFValue H key fcs [p0; KDFLen p0; p1; KDFLen p1] = kdf H key fc [p0; p1].
Proof.
  intro Hf. unfold GetKDFValue, kdf. rewrite Hf, !KDFLen_len2. cbn [concat params app]. rewrite !app_nil_r. reflexivity.
Qed.
Lemma kdf1 key fcs fc p0 : hex_decode fcs = Some [fc] ->
  GetKDFValue H key fcs [p0; KDFLen p0] = kdf H key fc [p0].
Proof.
  intro Hf. unfold GetKDFValue, kdf. rewrite Hf, !KDFLen_len2. cbn [concat params app]. rewrite !app_nil_r. reflexivity.
Qed.
Lemma kdf12 key fcs fc p0 p1 : hex_decode fcs = Some [fc] ->
  GetKDFValue H key fcs [p0; KDFLen p0; p1; KDFLen p1] = kdf H key fc [p0; p1] /\
  GetKDFValue H key fcs [p0; KDFLen p0] = kdf H key fc [p0].
Proof. intro Hf. split; [apply kdf2|apply kdf1]; exact Hf. Qed.
End Kdf.

Lemma fc_kausf : hex_decode FC_FOR_KAUSF_DERIVATION = Some [106]. Proof. reflexivity. Qed.
Lemma fc_kseaf : hex_decode FC_FOR_KSEAF_DERIVATION = Some [108]. Proof. reflexivity. Qed.
Lemma fc_kamf : hex_decode FC_FOR_KAMF_DERIVATION = Some [109]. Proof. reflexivity. Qed.
Lemma fc_alg : hex_decode FC_FOR_ALGORITHM_KEY_DERIVATION = Some [105]. Proof. reflexivity. Qed.

Ltac kdf_norm :=
  unfold GetKDFValue, kdf; rewrite ?fc_kausf, ?fc_kseaf, ?fc_kamf, ?fc_alg;
  cbn [concat params app]; rewrite ?KDFLen_len2, ?app_nil_r.

(* ---- serving network name *)
Lemma register_snName_spec mnc mcc : register_snName mnc mcc = snn mcc mnc.
Proof.
  unfold register_snName, snn. destruct (Nat.eqb (length mnc) 2); reflexivity.
Qed.
Lemma snn_length mcc mnc : length mcc = 3%nat -> (length mnc = 2%nat \/ length mnc = 3%nat) -> length (snn mcc mnc) = 32%nat.
Proof.
  intros Hc Hn. unfold snn. destruct Hn as [Hn|Hn]; rewrite Hn; cbn [Nat.eqb]; rewrite !app_length; cbn [length]; rewrite ?Hn, Hc; reflexivity.
Qed.

(* ---- the SUPI regular expression on "imsi-" followed by 5..15 digits: all the digits *)
Lemma take_digits_all n d : forallb is_digit d = true -> (length d <= n)%nat -> take_digits n d = d.
Proof.
  revert d; induction n as [|n IH]; intros [|c d] Hd Hl; cbn [take_digits length forallb] in *; try reflexivity; try lia.
  apply andb_true_iff in Hd. destruct Hd as [Hc Hd]. rewrite Hc, IH by (assumption || lia). reflexivity.
Qed.
Lemma supi_group1_imsi d : forallb is_digit d = true -> (5 <= length d)%nat -> (length d <= 15)%nat ->
  supi_group1 (s_imsi_dash ++ d) = Some d.
Proof.
  intros Hd H5 H15.
  assert (M : match_at (s_imsi_dash ++ d) = Some d).
  { unfold match_at. rewrite bytes_eqb_prefix_app. cbn [orb].
    rewrite (skipn_app_exact s_imsi_dash d 5) by reflexivity.
    rewrite take_digits_all by assumption.
    destruct (Nat.leb 5 (length d)) eqn:L; [reflexivity|]. apply Nat.leb_gt in L. lia. }
  unfold s_imsi_dash in *. cbn [app] in *. cbn [supi_group1]. rewrite M. reflexivity.
Qed.

Section Eq.
Variable E : bytes -> bytes -> bytes.
Variable H : bytes -> bytes -> bytes.
Hypothesis E_len : forall k x, length (E k x) = 16%nat.
Hypothesis H_len : forall k x, length (H k x) = 32%nat.
Hint Resolve E_len : len16.

(* ---- the external library *)
Lemma wm_sqn_len v : length (wm_sqn v) = 6%nat.
Proof. unfold wm_sqn. rewrite skipn_length, N_to_be_length. reflexivity. Qed.
Lemma wm_amf_len v : length (wm_amf v) = 2%nat.
Proof. unfold wm_amf. apply N_to_be_length. Qed.

Lemma validate_opc k opc rand s a : length k = 16%nat -> length opc = 16%nat -> length rand = 16%nat ->
  validateLength (NewWithOPc k opc rand s a) = true.
Proof.
  intros Hk Ho Hr. unfold validateLength, NewWithOPc. cbn [w_K w_OP w_OPc w_RAND w_SQN w_AMF]. unfold opt_len_is, len_is.
  rewrite Hk, Ho, Hr, wm_sqn_len, wm_amf_len. reflexivity.
Qed.
Lemma validate_op k op rand s a : length k = 16%nat -> length op = 16%nat -> length rand = 16%nat ->
  validateLength (New k op rand s a) = true.
Proof.
  intros Hk Ho Hr. unfold validateLength, New. cbn [w_K w_OP w_OPc w_RAND w_SQN w_AMF]. unfold opt_len_is, len_is.
  rewrite Hk, Ho, Hr, wm_sqn_len, wm_amf_len. reflexivity.
Qed.

(* F2345 of the library on a struct whose OPc (given or computed) is opc *)
Lemma wF2345_spec m opc : validateLength m = true -> opc_of_wm E m = WOk opc -> length opc = 16%nat -> length (w_RAND m) = 16%nat ->
  wF2345 E m = WOk (f2 E (w_K m) opc (w_RAND m), f3 E (w_K m) opc (w_RAND m), f4 E (w_K m) opc (w_RAND m), f5 E (w_K m) opc (w_RAND m)).
Proof.
  intros Hv Hopc Ho Hr. unfold wF2345. rewrite Hv, Hopc. cbn [negb].
  unfold f2, f3, f4, f5, outn, temp, rot_octets.
  rewrite (xor16_xor (w_RAND m) opc) by len.
  set (T := E (w_K m) (xor_bytes (w_RAND m) opc)). assert (HT : length T = 16%nat) by (subst T; len).
  rewrite (xor16_xor T opc), scatter_rot_12, scatter_rot_8 by len.
  rewrite !set_last_xor_cconst by len.
  reflexivity.
Qed.

(* ComputeRESStar = TS 33.501 A.4 *)
Lemma ComputeRESStar_spec m res ck ik mcc mnc : validateLength m = true ->
  length mcc = 3%nat -> (length mnc = 2%nat \/ length mnc = 3%nat) ->
  ComputeRESStar H m res ck ik mcc mnc = WOk (skipn 16 (kdf H (ck ++ ik) 107 [snn mcc mnc; w_RAND m; res])).
Proof.
  intros Hv Hc Hn. unfold ComputeRESStar. rewrite Hv. cbn [negb]. unfold len_is at 1. rewrite Hc. cbn [Nat.eqb negb].
  change s_5G_mnc with ascii_5G_mnc. change s_mcc with ascii_mcc. change s_3gpp with ascii_tail.
  pose proof (snn_length mcc mnc Hc Hn) as L. unfold snn in L. unfold kdf, snn.
  unfold len_is. destruct Hn as [Hn|Hn]; rewrite Hn in *; cbn [Nat.eqb] in *; cbv beta iota;
    rewrite L; cbn [Nat.eqb negb]; unfold be16; rewrite !N_to_be_2_mod; rewrite H_len;
    cbn [params]; unfold len2; rewrite L, app_nil_r; reflexivity.
Qed.

(* algorithm keys = TS 33.501 A.8 *)
Lemma alg_key_spec kamf dist alg : alg_key H kamf dist alg = skipn 16 (kdf H kamf 105 [[dist]; [alg]]).
Proof.
  unfold alg_key. cbv zeta. kdf_norm.
  apply firstn_all2. rewrite skipn_length, H_len. reflexivity.
Qed.

Lemma DerivateKamf_spec d key sn sqnak : forallb is_digit d = true -> (5 <= length d)%nat -> (length d <= 15)%nat ->
  DerivateKamf H (s_imsi_dash ++ d) key sn sqnak
  = Some (kdf H (kdf H (kdf H key 106 [sn; sqnak]) 108 [sn]) 109 [d; [0;0]]).
Proof.
  intros Hd H5 H15. unfold DerivateKamf. cbv zeta. rewrite supi_group1_imsi by assumption.
  kdf_norm. reflexivity.
Qed.

(* ---- the whole derivation *)
Definition ue_of_keys (s:keys) : ue_result :=
  UeOk {| ue_res_star := res_star s; ue_kamf := k_amf s; ue_knasint := k_nas_int s; ue_knasenc := k_nas_enc s |}.

Lemma derive_core supi_d ea ia m opc autn sn mnc mcc :
  validateLength m = true -> opc_of_wm E m = WOk opc -> length opc = 16%nat -> length (w_RAND m) = 16%nat ->
  length mcc = 3%nat -> (length mnc = 2%nat \/ length mnc = 3%nat) ->
  forallb is_digit supi_d = true -> (5 <= length supi_d)%nat -> (length supi_d <= 15)%nat -> ea < 256 -> ia < 256 ->
  sn = snn mcc mnc ->
  match wF2345 E m with
  | WErr => UeFatal
  | WPanic => UePanic
  | WOk (res, ck, ik, ak) =>
    let key := ck ++ ik in
    match DerivateKamf H (s_imsi_dash ++ supi_d) key sn (firstn 6 autn) with
    | None => UePanic
    | Some kamf =>
      let kenc := alg_key H kamf NNASEncAlg (ea mod 256) in
      let kint := alg_key H kamf NNASIntAlg (ia mod 256) in
      match ComputeRESStar H m res ck ik mcc mnc with
      | WOk rs => UeOk {| ue_res_star := rs; ue_kamf := kamf; ue_knasint := kint; ue_knasenc := kenc |}
      | WErr => UeFatal
      | WPanic => UePanic
      end
    end
  end = ue_of_keys (network_keys E H (w_K m) opc (w_RAND m) (firstn 6 autn) mcc mnc supi_d ea ia).
Proof.
  intros Hv Hopc Ho Hr Hc Hn Hd H5 H15 Hea Hia Hsn.
  rewrite (wF2345_spec m opc Hv Hopc Ho Hr). cbv zeta.
  rewrite DerivateKamf_spec by assumption.
  rewrite ComputeRESStar_spec by assumption.
  rewrite !alg_key_spec. rewrite (N.mod_small ea 256), (N.mod_small ia 256) by assumption.
  subst sn. reflexivity.
Qed.

(* C05, OPc configured *)
Theorem derive_is_network_opc ks opcs ops k opc rand autn mcc mnc d ea ia :
  hex_decode ks = Some k -> opcs <> [] -> hex_decode opcs = Some opc ->
  length k = 16%nat -> length opc = 16%nat -> length rand = 16%nat ->
  length mcc = 3%nat -> (length mnc = 2%nat \/ length mnc = 3%nat) ->
  forallb is_digit d = true -> (5 <= length d)%nat -> (length d <= 15)%nat -> ea < 256 -> ia < 256 ->
  register_derive E H (s_imsi_dash ++ d) ea ia ks opcs ops autn rand mnc mcc
  = ue_of_keys (network_keys E H k opc rand (firstn 6 autn) mcc mnc d ea ia).
Proof.
  intros Hks Hne Hopcs Hk Ho Hr Hc Hn Hd H5 H15 Hea Hia.
  unfold register_derive, DeriveRESstarAndSetKey, GetAuthSubscription. cbn [as_k as_opc as_op as_amf].
  change (hex_decode [56;48;48;48]) with (Some [128;0]). cbv beta iota. rewrite Hks.
  destruct opcs as [|c0 opcs']; [contradiction Hne; reflexivity|]. rewrite Hopcs.
  set (m := NewWithOPc k opc rand _ _).
  apply (derive_core d ea ia m opc autn (register_snName mnc mcc) mnc mcc); try assumption.
  - apply validate_opc; assumption.
  - reflexivity.
  - apply register_snName_spec.
Qed.

(* C05, only OP configured: the result is that of OPc = E_K(OP) xor OP *)
Theorem derive_is_network_op ks ops k op rand autn mcc mnc d ea ia :
  hex_decode ks = Some k -> hex_decode ops = Some op ->
  length k = 16%nat -> length op = 16%nat -> length rand = 16%nat ->
  length mcc = 3%nat -> (length mnc = 2%nat \/ length mnc = 3%nat) ->
  forallb is_digit d = true -> (5 <= length d)%nat -> (length d <= 15)%nat -> ea < 256 -> ia < 256 ->
  register_derive E H (s_imsi_dash ++ d) ea ia ks [] ops autn rand mnc mcc
  = ue_of_keys (network_keys E H k (opc_of E k op) rand (firstn 6 autn) mcc mnc d ea ia).
Proof.
  intros Hks Hops Hk Ho Hr Hc Hn Hd H5 H15 Hea Hia.
  unfold register_derive, DeriveRESstarAndSetKey, GetAuthSubscription. cbn [as_k as_opc as_op as_amf].
  change (hex_decode [56;48;48;48]) with (Some [128;0]). cbv beta iota. rewrite Hks, Hops.
  set (m := New k op rand _ _).
  apply (derive_core d ea ia m (opc_of E k op) autn (register_snName mnc mcc) mnc mcc); try assumption.
  - apply validate_op; assumption.
  - reflexivity.
  - unfold opc_of. len.
  - apply register_snName_spec.
Qed.

(* op_equals_opc: an OP-only configuration behaves as the configuration of the corresponding OPc *)
Theorem op_equals_opc ks ops opcs ops' k op rand autn mcc mnc d ea ia :
  hex_decode ks = Some k -> hex_decode ops = Some op -> opcs <> [] -> hex_decode opcs = Some (opc_of E k op) ->
  length k = 16%nat -> length op = 16%nat -> length rand = 16%nat ->
  length mcc = 3%nat -> (length mnc = 2%nat \/ length mnc = 3%nat) ->
  forallb is_digit d = true -> (5 <= length d)%nat -> (length d <= 15)%nat -> ea < 256 -> ia < 256 ->
  register_derive E H (s_imsi_dash ++ d) ea ia ks [] ops autn rand mnc mcc
  = register_derive E H (s_imsi_dash ++ d) ea ia ks opcs ops' autn rand mnc mcc.
Proof.
  intros Hks Hops Hne Hopcs Hk Ho Hr Hc Hn Hd H5 H15 Hea Hia.
  rewrite (derive_is_network_op ks ops k op) by assumption.
  rewrite (derive_is_network_opc ks opcs ops' k (opc_of E k op)); try assumption; [reflexivity|].
  unfold opc_of. len.
Qed.

(* the AUTN a conformant network builds from its SQN carries SQN xor AK, so the UE's keys are those the network
   derives from SQN (A.2: P1 = SQN xor AK) *)
Theorem derive_is_network_sqn ks opcs ops k opc rand sqn amf mcc mnc d ea ia :
  hex_decode ks = Some k -> opcs <> [] -> hex_decode opcs = Some opc ->
  length k = 16%nat -> length opc = 16%nat -> length rand = 16%nat -> length sqn = 6%nat ->
  length mcc = 3%nat -> (length mnc = 2%nat \/ length mnc = 3%nat) ->
  forallb is_digit d = true -> (5 <= length d)%nat -> (length d <= 15)%nat -> ea < 256 -> ia < 256 ->
  register_derive E H (s_imsi_dash ++ d) ea ia ks opcs ops (autn E k opc rand sqn amf) rand mnc mcc
  = ue_of_keys (network_keys_sqn E H k opc rand sqn mcc mnc d ea ia).
Proof.
  intros Hks Hne Hopcs Hk Ho Hr Hs Hc Hn Hd H5 H15 Hea Hia.
  rewrite (derive_is_network_opc ks opcs ops k opc) by assumption.
  unfold network_keys_sqn, autn. rewrite firstn_app_exact; [reflexivity|].
  rewrite xor_bytes_length, Hs, (f5_len E E_len) by assumption. reflexivity.
Qed.
End Eq.
