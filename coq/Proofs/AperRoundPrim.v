(* The primitive readers of aper.go against X.691 at bit level: when the buffer continues at the cursor with the bits
   X.691 prescribes for a value, the reader returns that value and advances the cursor by exactly those bits. *)
From Coq Require Import String NArith ZArith List Bool Lia Arith.
From Coq Require Import ZifyN ZifyNat ZifyBool.
Require Import GoSlice Bits AperCommon AperEnc AperDec Asn1 X691 AperBits AperBitsGet AperBitsPut AperEncProofs
        AperStructPrim AperStructStr AperStructSeq AperRoundGet.
Import ListNotations.
Open Scope N_scope.
Ltac Zify.zify_post_hook ::= Z.div_mod_to_equations.
Local Arguments N.add : simpl never.
Local Arguments N.mul : simpl never.
Local Arguments N.sub : simpl never.
Local Arguments N.div : simpl never.
Local Arguments N.modulo : simpl never.
Local Arguments N.land : simpl never.
Local Arguments N.lor : simpl never.
Local Arguments N.shiftr : simpl never.
Local Arguments N.shiftl : simpl never.
Local Arguments N.pow : simpl never.

Lemma xok_inj a b : XOk a = XOk b -> a = b.
Proof. congruence. Qed.

(* the buffer continues at bit [pos] with [b] *)
Definition bits_at (bs : list N) (pos : nat) (b : bits) : Prop :=
  exists post, skipn pos (bits_of_bytes bs) = b ++ post.

Lemma bits_at_fit bs pos b : bits_at bs pos b -> b <> [] -> (pos + length b <= 8 * length bs)%nat.
Proof.
  intros [post H] Hne. apply (f_equal (@length bool)) in H. rewrite skipn_length, app_length, bits_of_bytes_length in H.
  destruct b; [congruence|]. cbn [length] in *. lia.
Qed.
Lemma bits_at_first bs pos b : bits_at bs pos b -> firstn (length b) (skipn pos (bits_of_bytes bs)) = b.
Proof. intros [post H]. rewrite H. rewrite firstn_app_l by lia. apply firstn_all. Qed.
Lemma bits_at_app bs pos b1 b2 : bits_at bs pos (b1 ++ b2) -> bits_at bs pos b1 /\ bits_at bs (pos + length b1) b2.
Proof.
  intros [post H]. split.
  - exists (b2 ++ post). rewrite H, app_assoc. reflexivity.
  - exists post. rewrite <- skipn_skipn, H. rewrite <- app_assoc.
    rewrite skipn_app_r by lia. replace (length b1 - length b1)%nat with O by lia. reflexivity.
Qed.
Lemma bits_at_nil bs pos : (pos <= 8 * length bs)%nat -> bits_at bs pos [].
Proof. intros H. eexists. reflexivity. Qed.

Definition dec_ok {A} (r : sres A) (bs : list N) (pos' : nat) (v : A) : Prop :=
  exists d', r = (Ok v, d') /\ at_pos d' bs pos'.

Lemma dec_ok_bind {A B} (r : sres A) (f : A -> dst -> sres B) bs p1 p2 v w :
  dec_ok r bs p1 v -> (forall d1, at_pos d1 bs p1 -> dec_ok (f v d1) bs p2 w) -> dec_ok (sbind r f) bs p2 w.
Proof. intros (d1 & -> & H1) Hf. cbn [sbind]. apply Hf. exact H1. Qed.

Theorem rd_bits d bs pos n v :
  at_pos d bs pos -> buf bs -> 1 <= n <= 64 -> v < 2 ^ n -> bits_at bs pos (bits_of_N (N.to_nat n) v) ->
  dec_ok (getBitsValue d n) bs (pos + N.to_nat n) v.
Proof.
  intros Hd Hb Hn Hv Hbits.
  pose proof (bits_at_fit _ _ _ Hbits) as Hfit. rewrite bits_of_N_length in Hfit.
  destruct (getBitsValue_at d bs pos n Hd Hb Hn) as (d' & E & Hd').
  { apply Hfit. intros E. apply (f_equal (@length bool)) in E. rewrite bits_of_N_length in E. cbn in E. lia. }
  exists d'. split; [|exact Hd']. rewrite E. f_equal. f_equal.
  pose proof (bits_at_first _ _ _ Hbits) as Hf. rewrite bits_of_N_length in Hf. rewrite Hf.
  apply N_of_bits_of_N. rewrite N2Nat.id. exact Hv.
Qed.

Theorem rd_align d bs pos :
  at_pos d bs pos -> buf bs -> bits_at bs pos (align pos) ->
  dec_ok (parseAlignBits d) bs (pos + pad_len pos) tt.
Proof.
  intros Hd Hb Hbits. unfold align in Hbits.
  destruct (Nat.eq_dec (pad_len pos) 0) as [E0|E0].
  - unfold dec_ok. rewrite E0, Nat.add_0_r. pose proof Hd as (H1 & H2 & H3). unfold parseAlignBits. rewrite H3, land7.
    assert (pos mod 8 = 0)%nat by (unfold pad_len in E0; lia).
    assert (0 <? N.of_nat (pos mod 8) mod 8 = false) as -> by lia. assert (negb (N.of_nat (pos mod 8) =? 0) = false) as -> by lia.
    eauto.
  - apply parseAlignBits_at; auto.
    + pose proof (bits_at_fit _ _ _ Hbits) as Hfit. rewrite repeat_length in Hfit. apply Hfit. destruct (pad_len pos); [lia|discriminate].
    + pose proof (bits_at_first _ _ _ Hbits) as Hf. rewrite repeat_length in Hf. exact Hf.
Qed.

(* ---------------------------------------------------------------- constrained whole number *)
Theorem rd_cwn d bs pos range v b :
  at_pos d bs pos -> buf bs -> 2 <= range <= 65536 -> v < range -> cwn range v pos = XOk b -> bits_at bs pos b ->
  dec_ok (parseConstraintValue d (Z.of_N range)) bs (pos + length b) v.
Proof.
  intros Hd Hb Hr Hv Hx Hbits. unfold parseConstraintValue. unfold cwn in Hx.
  assert ((range =? 0) || (range <=? v) = false) as E0 by lia. rewrite E0 in Hx. assert (range =? 1 = false) as E1 by lia. rewrite E1 in Hx.
  destruct (range <=? 255) eqn:E255.
  - apply xok_inj in Hx; subst b. assert ((Z.of_N range <=? 255)%Z = true) as -> by lia. assert ((Z.of_N range <? 0)%Z = false) as -> by lia.
    rewrite bits_of_N_length. unfold log2up_nat in *.
    rewrite go_bits_log2up by lia.
    assert (Hl : 1 <= N.log2_up range <= 8).
    { pose proof (N.log2_up_le_mono range 255 ltac:(lia)) as H. change (N.log2_up 255) with 8 in H.
      pose proof (N.log2_up_le_mono 2 range ltac:(lia)) as H2. change (N.log2_up 2) with 1 in H2. lia. }
    apply rd_bits; auto; try lia. apply lt_pow_log2up; lia.
  - assert ((Z.of_N range <=? 255)%Z = false) as -> by lia. assert ((Z.of_N range <=? 65536)%Z = true) as -> by lia.
    destruct (range =? 256) eqn:E256.
    + apply xok_inj in Hx; subst b. assert ((Z.of_N range =? 256)%Z = true) as -> by lia.
      apply bits_at_app in Hbits. destruct Hbits as [Hb1 Hb2]. unfold align in Hb2. rewrite repeat_length in Hb2.
      rewrite app_length. unfold align. rewrite repeat_length, bits_of_N_length.
      eapply dec_ok_bind; [apply rd_align; eauto|]. intros d1 Hd1. cbv beta.
      rewrite Nat.add_assoc. change 8%nat with (N.to_nat (1 * 8)). apply rd_bits; auto; try lia.
    + assert (range <=? 65536 = true) as E64 by lia. rewrite E64 in Hx. apply xok_inj in Hx; subst b. assert ((Z.of_N range =? 256)%Z = false) as -> by lia.
      apply bits_at_app in Hbits. destruct Hbits as [Hb1 Hb2]. unfold align in Hb2. rewrite repeat_length in Hb2.
      rewrite app_length. unfold align. rewrite repeat_length, bits_of_N_length.
      eapply dec_ok_bind; [apply rd_align; eauto|]. intros d1 Hd1. cbv beta.
      rewrite Nat.add_assoc. change 16%nat with (N.to_nat (2 * 8)). apply rd_bits; auto; try lia.
Qed.

(* ---------------------------------------------------------------- length determinants *)
Definition fb_check (fb : N) : bool :=
  Bool.eqb (N.land fb 128 =? 0) (fb <? 128) && ((128 <=? fb) || (N.land fb 127 =? fb))
  && (negb ((128 <=? fb) && (fb <? 192)) || ((N.land fb 64 =? 0) && (N.land fb 63 =? fb - 128))).
Lemma fb_fin : forallb fb_check r256 = true.
Proof. vm_cast_no_check (eq_refl true). Qed.
Lemma fb_facts fb : fb < 256 ->
  (N.land fb 128 =? 0) = (fb <? 128) /\ (fb < 128 -> N.land fb 127 = fb) /\
  (128 <= fb < 192 -> N.land fb 64 = 0 /\ N.land fb 63 = fb - 128).
Proof.
  intros H. pose proof fb_fin as F. rewrite forallb_forall in F. specialize (F fb (in_r256 fb H)). unfold fb_check in F.
  apply andb_true_iff in F. destruct F as [F F3]. apply andb_true_iff in F. destruct F as [F1 F2]. apply eqb_prop in F1.
  split; [exact F1|]. split.
  - intros Hlt. assert (128 <=? fb = false) as E by lia. rewrite E in F2. cbn [orb] in F2. lia.
  - intros Hr. assert ((128 <=? fb) && (fb <? 192) = true) as E by lia. rewrite E in F3. cbn [negb orb] in F3. lia.
Qed.

Theorem rd_lendet d bs pos n b :
  at_pos d bs pos -> buf bs -> n < 16384 -> lendet n pos = XOk b -> bits_at bs pos b ->
  dec_ok (parseLength d (-1)) bs (pos + length b) (n, false).
Proof.
  intros Hd Hb Hn Hx Hbits. unfold parseLength. cbn [Z.leb Z.ltb Z.compare andb]. unfold lendet in Hx.
  destruct (n <? 128) eqn:E1.
  - apply xok_inj in Hx; subst b. apply bits_at_app in Hbits. destruct Hbits as [Hb1 Hb2]. unfold align in Hb2. rewrite repeat_length in Hb2.
    rewrite app_length. unfold align. rewrite repeat_length, bits_of_N_length.
    eapply dec_ok_bind; [apply rd_align; eauto|]. intros d1 Hd1. cbv beta.
    eapply dec_ok_bind; [apply (rd_bits d1 bs (pos + pad_len pos)%nat 8 n); eauto; lia|]. intros d2 Hd2. cbv beta.
    destruct (fb_facts n ltac:(lia)) as (F1 & F2 & _). rewrite F1, E1, F2 by lia.
    exists d2. split; [reflexivity|]. rewrite <- Nat.add_assoc in Hd2. exact Hd2.
  - assert (n <? 16384 = true) as E2 by lia. rewrite E2 in Hx. apply xok_inj in Hx; subst b.
    apply bits_at_app in Hbits. destruct Hbits as [Hb1 Hb2]. unfold align in Hb2. rewrite repeat_length in Hb2.
    rewrite app_length. unfold align. rewrite repeat_length, bits_of_N_length.
    change 16%nat with (8 + 8)%nat in Hb2. rewrite (bits_of_N_app 8 8) in Hb2. change (2 ^ N.of_nat 8) with 256 in Hb2.
    apply bits_at_app in Hb2. destruct Hb2 as [Hb2 Hb3]. rewrite bits_of_N_length in Hb3.
    rewrite <- (bits_of_N_mod 8 (32768 + n)) in Hb3. change (2 ^ N.of_nat 8) with 256 in Hb3.
    set (fb := (32768 + n) / 256) in *. set (sb := (32768 + n) mod 256) in *.
    assert (Hfb : 128 <= fb < 192) by (unfold fb; lia). assert (Hsb : sb < 256) by (unfold sb; lia).
    eapply dec_ok_bind; [apply rd_align; eauto|]. intros d1 Hd1. cbv beta.
    eapply dec_ok_bind; [apply (rd_bits d1 bs (pos + pad_len pos)%nat 8 fb); eauto; lia|]. intros d2 Hd2. cbv beta.
    destruct (fb_facts fb ltac:(lia)) as (F1 & _ & F3). destruct (F3 Hfb) as [F4 F5].
    rewrite F1. assert (fb <? 128 = false) as -> by lia. rewrite F4. cbn [N.eqb].
    eapply dec_ok_bind; [apply (rd_bits d2 bs (pos + pad_len pos + N.to_nat 8)%nat 8 sb); eauto; lia|]. intros d3 Hd3. cbv beta.
    rewrite F5. rewrite N.shiftl_mul_pow2. change (2 ^ 8) with 256.
    assert (Hv : N.lor ((fb - 128) * 256) sb = n).
    { change 256 with (2 ^ 8). rewrite lor_disjoint by (change (2 ^ 8) with 256; exact Hsb). change (2 ^ 8) with 256. unfold fb, sb. lia. }
    rewrite Hv. exists d3. split; [reflexivity|].
    replace (pos + (pad_len pos + 16))%nat with (pos + pad_len pos + N.to_nat 8 + N.to_nat 8)%nat by lia. exact Hd3.
Qed.

Theorem rd_clen d bs pos lb ub n b :
  at_pos d bs pos -> buf bs -> lb < ub -> ub < 65536 -> lb <= n <= ub ->
  cwn (ub - lb + 1) (n - lb) pos = XOk b -> bits_at bs pos b ->
  dec_ok (parseLength d (Z.of_N (ub - lb + 1))) bs (pos + length b) (n - lb, false).
Proof.
  intros Hd Hb H1 H2 H3 Hx Hbits. unfold parseLength.
  assert (((Z.of_N (ub - lb + 1) <=? 65536) && (0 <? Z.of_N (ub - lb + 1)))%Z = true) as -> by lia.
  eapply dec_ok_bind; [apply (rd_cwn d bs pos (ub - lb + 1) (n - lb) b); eauto; lia|].
  intros d1 Hd1. exists d1. auto.
Qed.
