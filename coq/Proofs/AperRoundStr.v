(* Readers of OCTET STRING and BIT STRING (parseOctetString / parseBitString) against X.691 clauses 16, 17. *)
From Coq Require Import String NArith ZArith List Bool Lia Arith.
From Coq Require Import ZifyN ZifyNat ZifyBool.
Require Import GoSlice Bits AperCommon AperEnc AperDec Asn1 X691 AperBits AperBitsGet AperBitsPut AperEncProofs
        AperStructPrim AperStructStr AperStructSeq AperRoundGet AperRoundPrim AperRoundLeaf.
Import ListNotations.
Open Scope N_scope.
Ltac Zify.zify_post_hook ::= Z.div_mod_to_equations.
Local Arguments N.add : simpl never.
Local Arguments N.mul : simpl never.
Local Arguments N.sub : simpl never.
Local Arguments N.div : simpl never.
Local Arguments N.modulo : simpl never.
Local Arguments N.land : simpl never.
Local Arguments N.lor : simpl never.
Local Arguments N.shiftr : simpl never.
Local Arguments N.shiftl : simpl never.
Local Arguments N.pow : simpl never.

Lemma bits_of_bytes_inj a b : bok a -> bok b -> bits_of_bytes a = bits_of_bytes b -> a = b.
Proof.
  intros Ha Hb H.
  assert (Hp : forall l, bok l -> pack_bits (bits_of_bytes l) = l).
  { intros l Hl. apply pack_bits_repr; [exact Hl|]. rewrite pad_len_0 by (rewrite bits_of_bytes_length; lia). cbn [repeat]. rewrite app_nil_r. reflexivity. }
  rewrite <- (Hp a Ha), <- (Hp b Hb), H. reflexivity.
Qed.

Lemma slice_chunk (l : list N) a k : (a + k <= length l)%nat -> N.of_nat (length l) < LIM ->
  slice l (N.of_nat a) (u64 (N.of_nat a + N.of_nat k)) = Ok (firstn k (skipn a l)).
Proof.
  intros H Hl. unfold slice. unfold LIM in Hl. rewrite u64_small by (unfold TWO64; lia).
  assert ((N.of_nat a <=? N.of_nat a + N.of_nat k) && (N.of_nat a + N.of_nat k <=? len l) = true) as -> by (unfold len; lia).
  f_equal. f_equal; [lia|]. f_equal. lia.
Qed.

Lemma chunk_bits bs pos k : (pos mod 8 = 0)%nat ->
  bits_of_bytes (firstn k (skipn (pos / 8) bs)) = firstn (8 * k) (skipn pos (bits_of_bytes bs)).
Proof. intros H. rewrite bits_of_bytes_firstn, bits_of_bytes_skipn. f_equal. f_equal. lia. Qed.

(* whole octets at an octet boundary *)
Lemma rd_aligned_octets d bs pos bytes :
  at_pos d bs pos -> (pos mod 8 = 0)%nat -> buf bs -> bok bytes -> bytes <> [] -> bits_at bs pos (bits_of_bytes bytes) ->
  slice (d_bytes d) (d_byteOffset d) (u64 (d_byteOffset d + len bytes)) = Ok bytes /\
  at_pos (mkdst (d_bytes d) (u64 (d_byteOffset d + len bytes)) (d_bitsOffset d)) bs (pos + 8 * length bytes) /\
  (pos + 8 * length bytes <= 8 * length bs)%nat.
Proof.
  intros (H1 & H2 & H3) Ha [Hb Hl] Hok Hne Hbits. rewrite H1, H2, H3.
  assert (Hfit : (pos + 8 * length bytes <= 8 * length bs)%nat).
  { destruct bytes as [|x r]; [congruence|].
    pose proof (bits_at_fit _ _ _ Hbits) as Hf. rewrite bits_of_bytes_length in Hf. apply Hf. rewrite bits_of_bytes_cons. destruct (bits_of_N 8 x) eqn:E; [|discriminate].
    apply (f_equal (@length bool)) in E. rewrite bits_of_N_length in E. discriminate. }
  unfold len. split; [|split; [|exact Hfit]].
  - rewrite slice_chunk by (unfold len in Hl; lia). f_equal.
    apply bits_of_bytes_inj; [apply bok_firstn; apply bok_skipn; exact Hb|exact Hok|].
    rewrite chunk_bits by exact Ha. pose proof (bits_at_first _ _ _ Hbits) as Hf. rewrite bits_of_bytes_length in Hf. exact Hf.
  - unfold at_pos. cbn [d_bytes d_byteOffset d_bitsOffset]. unfold LIM, len in Hl. rewrite u64_small by (unfold TWO64; lia).
    split; [reflexivity|]. split; lia.
Qed.

(* ---------------------------------------------------------------- OCTET STRING *)
Lemma oct_dec_once k d bs pos sr lb bytes L :
  at_pos d bs pos -> buf bs -> bok bytes -> (0 <= lb < 65536)%Z -> Z.to_N lb <= len bytes ->
  (forall d0, at_pos d0 bs pos -> dec_ok (parseLength d0 sr) bs (pos + length L) (len bytes - Z.to_N lb, false)) ->
  bits_at bs (pos + length L) (if len bytes =? 0 then [] else align (pos + length L) ++ bits_of_bytes bytes) ->
  dec_ok (oct_dec_loop (S k) d sr lb []) bs
         (pos + length (L ++ (if len bytes =? 0 then [] else align (pos + length L) ++ bits_of_bytes bytes))) bytes.
Proof.
  intros Hd Hb Hok Hlb Hge HL Hbits. cbn [oct_dec_loop].
  eapply dec_ok_bind; [apply HL; exact Hd|]. intros d1 Hd1. cbv beta iota.
  rewrite u64z_small by lia. pose proof Hb as [_ Hlen]. unfold LIM in Hlen.
  assert (Hbl : len bytes < LIM).
  { destruct (len bytes =? 0) eqn:E0; [unfold LIM; lia|]. apply bits_at_app in Hbits. destruct Hbits as [_ Hb2].
    pose proof (bits_at_fit _ _ _ Hb2) as Hf. rewrite bits_of_bytes_length in Hf. unfold len, LIM in *.
    assert (bits_of_bytes bytes <> []). { destruct bytes; [cbn in E0; lia|]. rewrite bits_of_bytes_cons. destruct (bits_of_N 8 n) eqn:E; [|discriminate].
      apply (f_equal (@length bool)) in E. rewrite bits_of_N_length in E. discriminate. }
    specialize (Hf H). lia. }
  unfold LIM in Hbl.
  rewrite u64_small by (unfold TWO64; lia). replace (len bytes - Z.to_N lb + Z.to_N lb) with (len bytes) by lia.
  destruct (len bytes =? 0) eqn:E0.
  - assert (length bytes = O) by (unfold len in E0; lia). destruct bytes; [|cbn in *; lia].
    exists d1. rewrite app_nil_r. auto.
  - apply bits_at_app in Hbits. destruct Hbits as [Hb1 Hb2]. unfold align in Hb2. rewrite repeat_length in Hb2.
    eapply dec_ok_bind; [apply rd_align; eauto|]. intros d2 Hd2. cbv beta.
    assert (Ha2 : ((pos + length L + pad_len (pos + length L)) mod 8 = 0)%nat) by apply pad_len_spec.
    destruct (rd_aligned_octets d2 bs _ bytes Hd2 Ha2 Hb Hok ltac:(intros ->; cbn in *; lia) Hb2) as (Hs & Hat & Hfit).
    pose proof Hd2 as (Q1 & Q2 & Q3).
    assert (Hchk : len (d_bytes d2) <? u64 (len bytes + d_byteOffset d2) = false).
    { rewrite Q1, Q2. rewrite u64_small by (unfold TWO64, len in *; lia). unfold len in *. lia. }
    rewrite Hchk. rewrite Hs. exists (mkdst (d_bytes d2) (u64 (d_byteOffset d2 + len bytes)) (d_bitsOffset d2)).
    split; [reflexivity|]. rewrite !app_length. unfold align. rewrite repeat_length, bits_of_bytes_length.
    rewrite !Nat.add_assoc. exact Hat.
Qed.

Theorem rd_octets_unconstrained d bs pos bytes b :
  at_pos d bs pos -> buf bs -> bok bytes -> len bytes < 16384 ->
  enc_string 0 None false (len bytes) (bits_of_bytes bytes) false pos = XOk b -> bits_at bs pos b ->
  dec_ok (parseOctetString d false None None) bs (pos + length b) bytes.
Proof.
  intros Hd Hb Hok Hn Hx Hbits. unfold parseOctetString, dec_size_bounds. cbn [Z.ltb Z.compare Z.eqb].
  unfold enc_string, size_prefix, size_inroot, size_fixed in Hx. cbn [andb negb] in Hx.
  assert (0 <=? len bytes = true) as E1 by lia. rewrite E1 in Hx. cbn [andb negb app length] in Hx. rewrite Nat.add_0_r in Hx.
  destruct (lendet (len bytes) pos) as [L| |] eqn:EL; cbn [xbind] in Hx; try discriminate.
  assert (Hb' : b = L ++ (if len bytes =? 0 then [] else align (pos + length L) ++ bits_of_bytes bytes)).
  { destruct (len bytes =? 0); apply xok_inj in Hx; subst b; [rewrite app_nil_r|]; reflexivity. }
  subst b. apply bits_at_app in Hbits. destruct Hbits as [HbL Hbr].
  apply (oct_dec_once (length (d_bytes d)) d bs pos (-1) 0 bytes L); auto; try lia.
  intros d0 Hd0. change (Z.to_N 0) with 0. rewrite N.sub_0_r. apply rd_lendet; auto.
Qed.

Theorem rd_octets_constrained d bs pos lb ub bytes b :
  at_pos d bs pos -> buf bs -> bok bytes -> (0 <= lb <= ub)%Z -> (0 < ub < 65536)%Z ->
  Z.to_N lb <= len bytes <= Z.to_N ub ->
  enc_string (Z.to_N lb) (Some (Z.to_N ub)) false (len bytes) (bits_of_bytes bytes) (Z.to_N ub <=? 2) pos = XOk b ->
  bits_at bs pos b ->
  dec_ok (parseOctetString d false (Some lb) (Some ub)) bs (pos + length b) bytes.
Proof.
  intros Hd Hb Hok Hlb Hub Hin Hx Hbits. unfold parseOctetString, dec_size_bounds. rewrite i64_small by lia.
  assert ((65535 <? ub)%Z = false) as -> by lia.
  unfold enc_string, size_prefix, size_inroot, size_fixed in Hx.
  assert (Z.to_N ub <? 65536 = true) as Eu by lia. rewrite Eu in Hx.
  assert ((Z.to_N lb <=? len bytes) && (len bytes <=? Z.to_N ub) = true) as Ein by lia. rewrite Ein in Hx.
  cbn [negb andb app length] in Hx. rewrite Nat.add_0_r in Hx.
  pose proof Hb as [Hbok Hlen]. unfold LIM in Hlen.
  destruct (Z.to_N lb =? Z.to_N ub) eqn:Efix.
  - (* fixed size *)
    cbn [xbind andb app length] in Hx. rewrite Nat.add_0_r in Hx.
    assert ((ub - lb + 1 =? 1)%Z = true) as -> by lia. assert (Hnn : len bytes = Z.to_N ub) by lia.
    assert (Z.to_N ub <=? 2 = negb (2 <? ub)%Z) as Esm by lia. rewrite Esm in Hx.
    destruct (2 <? ub)%Z eqn:E2; cbn [negb] in Hx; apply xok_inj in Hx; subst b.
    + apply bits_at_app in Hbits. destruct Hbits as [Hb1 Hb2]. unfold align in Hb2. rewrite repeat_length in Hb2.
      eapply dec_ok_bind; [apply rd_align; eauto|]. intros d2 Hd2. cbv beta.
      assert (Ha2 : ((pos + pad_len pos) mod 8 = 0)%nat) by apply pad_len_spec.
      destruct (rd_aligned_octets d2 bs _ bytes Hd2 Ha2 Hb Hok ltac:(intros ->; cbn in *; lia) Hb2) as (Hs & Hat & Hfit).
      pose proof Hd2 as (Q1 & Q2 & Q3). rewrite u64z_small by lia. rewrite <- Hnn.
      assert (Hchk : (Z.of_N (len (d_bytes d2)) <? i64 (i64n (d_byteOffset d2) + ub))%Z = false).
      { rewrite Q1, Q2. rewrite i64n_small by (unfold len in *; lia). rewrite i64_small by (unfold len in *; lia). unfold len in *. lia. }
      rewrite Hchk, Hs. eexists. split; [reflexivity|]. rewrite app_length. unfold align. rewrite repeat_length, bits_of_bytes_length.
      rewrite Nat.add_assoc. exact Hat.
    + rewrite u64z_small by lia.
      destruct (getBitString_at d bs pos (Z.to_N (ub * 8)) Hd Hb ltac:(lia)) as (r & d' & Eg & Hd' & Hr & Hrl & Hrb).
      { pose proof (bits_at_fit _ _ _ Hbits) as Hf. rewrite bits_of_bytes_length in *. unfold len in Hnn.
        assert (bits_of_bytes bytes <> []). { destruct bytes; [cbn in Hnn; lia|]. rewrite bits_of_bytes_cons. destruct (bits_of_N 8 n) eqn:E; [|discriminate].
          apply (f_equal (@length bool)) in E. rewrite bits_of_N_length in E. discriminate. }
        specialize (Hf H). lia. }
      exists d'. rewrite Eg. split.
      * f_equal. f_equal. apply bits_of_bytes_inj; auto. rewrite Hrb. rewrite pad_len_0 by lia. cbn [repeat]. rewrite app_nil_r.
        pose proof (bits_at_first _ _ _ Hbits) as Hf. rewrite bits_of_bytes_length in Hf. unfold len in Hnn.
        replace (N.to_nat (Z.to_N (ub * 8))) with (8 * length bytes)%nat by lia. exact Hf.
      * rewrite bits_of_bytes_length. unfold len in Hnn. replace (8 * length bytes)%nat with (N.to_nat (Z.to_N (ub * 8))) by lia. exact Hd'.
  - destruct (cwn (Z.to_N ub - Z.to_N lb + 1) (len bytes - Z.to_N lb) pos) as [L| |] eqn:EL; cbn [xbind] in Hx; try discriminate.
    cbn [andb] in Hx.
    assert (Hb' : b = L ++ (if len bytes =? 0 then [] else align (pos + length L) ++ bits_of_bytes bytes)).
    { destruct (len bytes =? 0); apply xok_inj in Hx; subst b; [rewrite app_nil_r|]; reflexivity. }
    subst b. assert ((ub - lb + 1 =? 1)%Z = false) as -> by lia.
    apply bits_at_app in Hbits. destruct Hbits as [HbL Hbr].
    apply (oct_dec_once (length (d_bytes d)) d bs pos (ub - lb + 1) lb bytes L); auto; try lia.
    intros d0 Hd0. replace (ub - lb + 1)%Z with (Z.of_N (Z.to_N ub - Z.to_N lb + 1)) by lia. apply rd_clen; auto; lia.
Qed.
