(* The bit-level reader of aper.go (perBitData = bytes, byteOffset, bitsOffset) as reading from a bit list at an explicit
   bit position: getBitString / getBitsValue / parseAlignBits.  [at_pos d bs pos]: the cursor of [d] over the buffer
   [bs] stands at bit [pos]. *)
From Coq Require Import String NArith ZArith List Bool Lia Arith.
From Coq Require Import ZifyN ZifyNat ZifyBool.
Require Import GoSlice Bits AperCommon AperEnc AperDec AperBits AperBitsGet AperBitsPut AperEncProofs AperStructSeq.
Import ListNotations.
Open Scope N_scope.
Ltac Zify.zify_post_hook ::= Z.div_mod_to_equations.
Local Arguments N.add : simpl never.
Local Arguments N.mul : simpl never.
Local Arguments N.sub : simpl never.
Local Arguments N.div : simpl never.
Local Arguments N.modulo : simpl never.
Local Arguments N.land : simpl never.
Local Arguments N.lor : simpl never.
Local Arguments N.shiftr : simpl never.
Local Arguments N.shiftl : simpl never.
Local Arguments N.pow : simpl never.

Definition at_pos (d : dst) (bs : list N) (pos : nat) : Prop :=
  d_bytes d = bs /\ d_byteOffset d = N.of_nat (pos / 8) /\ d_bitsOffset d = N.of_nat (pos mod 8).

(* a buffer: octets, far below 2^40 of them *)
Definition buf (bs : list N) : Prop := bok bs /\ len bs < LIM.

Lemma at_pos_init bs : at_pos (mkdst bs 0 0) bs 0.
Proof. unfold at_pos. cbn [d_bytes d_byteOffset d_bitsOffset]. auto. Qed.

(* ---------------------------------------------------------------- arithmetic of disjoint bit fields *)
Lemma lor_disjoint a b k : b < 2 ^ k -> N.lor (a * 2 ^ k) b = a * 2 ^ k + b.
Proof.
  intros H. assert (Hl : N.land (a * 2 ^ k) b = 0).
  { apply N.bits_inj. intros j. rewrite N.land_spec, N.bits_0. destruct (N.lt_ge_cases j k) as [Hj|Hj].
    - rewrite N.mul_pow2_bits_low by exact Hj. reflexivity.
    - replace b with (b mod 2 ^ k) by (apply N.mod_small; exact H). rewrite N.mod_pow2_bits_high by exact Hj. apply andb_false_r. }
  rewrite <- (N.lxor_lor _ _ Hl). symmetry. apply N.add_nocarry_lxor. exact Hl.
Qed.

Definition S7_check (x r : N) : bool :=
  (r =? 0) || (N.land (shr8 x (8 - r)) (N.shiftl 1 r - 1) =? N_of_bits (firstn (nat8 r) (B8 x))).
Lemma S7_fin : forallb (fun a => forallb (fun o => S7_check a o) r8) r256 = true.
Proof. vm_cast_no_check (eq_refl true). Qed.
Lemma S7 x r : x < 256 -> 1 <= r < 8 ->
  N.land (shr8 x (8 - r)) (N.shiftl 1 r - 1) = N_of_bits (firstn (N.to_nat r) (bits_of_N 8 x)).
Proof.
  intros Hx Hr. pose proof (sweep2 S7_check S7_fin x r Hx ltac:(lia)) as H. unfold S7_check in H.
  assert (r =? 0 = false) as E by lia. rewrite E in H. cbn [orb] in H. apply N.eqb_eq. exact H.
Qed.

(* ---------------------------------------------------------------- GetBitsValue *)
Lemma N_of_bits_acc_byte v b : b < 256 -> N_of_bits_acc v (bits_of_N 8 b) = v * 256 + b.
Proof. intros H. rewrite N_of_bits_acc_shift. rewrite bits_of_N_length. change (2 ^ N.of_nat 8) with 256. f_equal. apply (N_of_bits_of_N 8 b H). Qed.

Lemma gbv_loop_spec : forall mid pre post v,
  bok mid -> (v + 1) * 256 ^ N.of_nat (length mid) <= TWO64 ->
  gbv_loop (length mid) (len pre) (pre ++ mid ++ post) v = Ok (N_of_bits_acc v (bits_of_bytes mid)).
Proof.
  induction mid as [|b mid IH]; intros pre post v Hb Hv; [reflexivity|].
  apply bok_cons in Hb. destruct Hb as [Hb Hm]. cbn [length gbv_loop app].
  rewrite idx_mid. cbn [bind]. cbn [length] in Hv. rewrite pow256_succ in Hv.
  assert (Hp : 1 <= 256 ^ N.of_nat (length mid)) by (apply N.lt_pred_le; apply N.neq_0_lt_0; apply N.pow_nonzero; lia).
  assert (Hsh : N.lor (shl64 v 8) b = v * 256 + b).
  { unfold shl64. cbn [N.ltb N.compare Pos.compare Pos.compare_cont]. rewrite N.shiftl_mul_pow2. change (2 ^ 8) with 256.
    rewrite N.mod_small by (unfold TWO64 in *; nia). change 256 with (2 ^ 8). apply lor_disjoint. change (2 ^ 8) with 256. exact Hb. }
  rewrite Hsh.
  replace (pre ++ b :: mid ++ post) with ((pre ++ [b]) ++ mid ++ post) by (rewrite <- app_assoc; reflexivity).
  replace (len pre + 1) with (len (pre ++ [b])) by (rewrite len_app; reflexivity).
  rewrite IH; [|exact Hm|unfold TWO64 in *; nia].
  rewrite bits_of_bytes_cons, N_of_bits_acc_app, N_of_bits_acc_byte by exact Hb. reflexivity.
Qed.

Lemma N_of_bits_acc_0 l : N_of_bits_acc 0 l = N_of_bits l.
Proof. reflexivity. Qed.

Theorem GetBitsValue_bits src off n :
  bok src -> off < 8 -> 1 <= n <= 64 -> off + n <= 8 * len src -> len src < 17592186044416 ->
  GetBitsValue src off n = Ok (N_of_bits (firstn (N.to_nat n) (skipn (N.to_nat off) (bits_of_bytes src)))).
Proof.
  intros Hok Hoff Hn Hfit Hlen. unfold GetBitsValue.
  destruct (GetBitString_bits src off n Hok Hoff ltac:(lia) Hfit Hlen) as (d & Ed & Hd & Hdl & Hdb). rewrite Ed. cbn [bind].
  set (c := firstn (N.to_nat n) (skipn (N.to_nat off) (bits_of_bytes src))) in *.
  assert (Hcl : length c = N.to_nat n).
  { unfold c. apply firstn_length_le. rewrite skipn_length, bits_of_bytes_length. unfold len in *. lia. }
  set (q := N.to_nat (n / 8)). set (r := (N.to_nat n mod 8)%nat).
  (* split d into the q full octets and the rest *)
  assert (Hdlen : length d = N.to_nat ((n + 7) / 8)) by (unfold len in Hdl; lia).
  assert (Hq : (q <= length d)%nat) by (unfold q; lia).
  set (mid := firstn q d). set (post := skipn q d).
  assert (Hsplit : d = [] ++ mid ++ post) by (cbn [app]; unfold mid, post; symmetry; apply firstn_skipn).
  assert (Hml : length mid = q) by (unfold mid; apply firstn_length_le; exact Hq).
  assert (Hg : gbv_loop (N.to_nat (n / 8)) 0 d 0 = Ok (N_of_bits_acc 0 (bits_of_bytes mid))).
  { fold q. rewrite <- Hml. rewrite Hsplit at 1. apply (gbv_loop_spec mid [] post 0); [apply bok_firstn; exact Hd|].
    rewrite N.add_0_l, N.mul_1_l. change TWO64 with (256 ^ 8). apply N.pow_le_mono_r; [lia|]. rewrite Hml. unfold q. lia. }
  fold q in Hg. rewrite Hg.
  cbn [bind]. rewrite N_of_bits_acc_0. rewrite land7.
  assert (Hmb : bits_of_bytes mid = firstn (8 * q) c).
  { unfold mid. rewrite bits_of_bytes_firstn, Hdb. rewrite firstn_app_l by (unfold q; lia). reflexivity. }
  destruct (n mod 8 =? 0) eqn:E0.
  - f_equal. rewrite Hmb. rewrite firstn_all2 by (unfold q; lia). reflexivity.
  - (* the partial last octet *)
    assert (Hpl : length post = 1%nat) by (unfold post; rewrite skipn_length; unfold q; lia).
    destruct post as [|lastb [|? ?]] eqn:Ep; cbn [length] in Hpl; try lia.
    assert (Hidx : idx d (sub64 (len d) 1) = Ok lastb).
    { rewrite sub64_small by (unfold TWO64, len in *; lia). rewrite Hsplit. cbn [app]. apply idx_mid'. unfold len in *. rewrite app_length. cbn [length]. lia. }
    rewrite Hidx. cbn [bind]. f_equal.
    assert (Hlb : lastb < 256).
    { rewrite Hsplit in Hd. cbn [app] in Hd. apply bok_app in Hd. destruct Hd as [_ Hd]. apply bok_cons in Hd. tauto. }
    rewrite S7 by (try exact Hlb; lia).
    assert (Hcsplit : c = firstn (8 * q) c ++ firstn r (bits_of_N 8 lastb)).
    { rewrite <- (firstn_skipn (8 * q) c) at 1. f_equal.
      assert (Hpb : bits_of_bytes [lastb] = skipn (8 * q) (c ++ repeat false (pad_len (N.to_nat n)))).
      { rewrite <- Hdb. rewrite <- bits_of_bytes_skipn. fold post. rewrite Ep. reflexivity. }
      rewrite bits_of_bytes_cons, bits_of_bytes_nil, app_nil_r in Hpb. rewrite Hpb.
      rewrite skipn_app_l by (unfold q; lia). rewrite firstn_app_l by (rewrite skipn_length; unfold r, q; lia).
      rewrite firstn_all2 by (rewrite skipn_length; unfold r, q; lia). reflexivity. }
    replace (N_of_bits c) with (N_of_bits (firstn (8 * q) c ++ firstn r (bits_of_N 8 lastb))) by (rewrite <- Hcsplit; reflexivity).
    rewrite N_of_bits_app. rewrite firstn_length_le by (rewrite bits_of_N_length; unfold r; lia).
    replace (N.to_nat (n mod 8)) with r by (unfold r; lia).
    set (hi := N_of_bits (firstn (8 * q) c)). set (lo := N_of_bits (firstn r (bits_of_N 8 lastb))).
    assert (Hlo : lo < 2 ^ N.of_nat r).
    { unfold lo. pose proof (N_of_bits_lt (firstn r (bits_of_N 8 lastb))) as H. rewrite firstn_length_le in H by (rewrite bits_of_N_length; unfold r; lia). exact H. }
    assert (Hhi : hi < 2 ^ N.of_nat (8 * q)).
    { unfold hi. pose proof (N_of_bits_lt (firstn (8 * q) c)) as H. rewrite firstn_length_le in H by (unfold q; lia). exact H. }
    rewrite Hmb. fold hi.
    unfold shl64. assert (n mod 8 <? 64 = true) as -> by lia. rewrite N.shiftl_mul_pow2.
    replace (n mod 8) with (N.of_nat r) by (unfold r; lia).
    assert (Hbound : hi * 2 ^ N.of_nat r < TWO64).
    { assert (hi * 2 ^ N.of_nat r < 2 ^ N.of_nat (8 * q) * 2 ^ N.of_nat r) by (apply N.mul_lt_mono_pos_r; [apply N.neq_0_lt_0; apply N.pow_nonzero; lia|exact Hhi]).
      rewrite <- N.pow_add_r in H. eapply N.lt_le_trans; [exact H|]. change TWO64 with (2 ^ 64). apply N.pow_le_mono_r; [lia|]. unfold q, r. lia. }
    rewrite N.mod_small by exact Hbound. apply lor_disjoint. exact Hlo.
Qed.

(* ---------------------------------------------------------------- the cursor *)
Lemma src_bits bs pos :
  skipn (pos mod 8) (bits_of_bytes (skipn (pos / 8) bs)) = skipn pos (bits_of_bytes bs).
Proof. rewrite bits_of_bytes_skipn, skipn_skipn. f_equal. lia. Qed.

Lemma slice_from_ok (l : list N) k : (k <= length l)%nat -> slice_from l (N.of_nat k) = Ok (skipn k l).
Proof. intros H. unfold slice_from. assert (N.of_nat k <=? len l = true) as -> by (unfold len; lia). rewrite Nat2N.id. reflexivity. Qed.

Lemma carry_at bs pos n : N.of_nat pos + n < TWO64 ->
  at_pos (bitCarry (mkdst bs (N.of_nat (pos / 8)) (u64 (N.of_nat (pos mod 8) + n)))) bs (pos + N.to_nat n).
Proof.
  intros H. unfold at_pos, bitCarry. cbn [d_bytes d_byteOffset d_bitsOffset].
  rewrite (u64_small (N.of_nat (pos mod 8) + n)) by (unfold TWO64 in *; lia). rewrite shiftr3, land7.
  rewrite u64_small by (unfold TWO64 in *; lia). split; [reflexivity|]. split; lia.
Qed.

Theorem getBitsValue_at d bs pos n :
  at_pos d bs pos -> buf bs -> 1 <= n <= 64 -> (pos + N.to_nat n <= 8 * length bs)%nat ->
  exists d', getBitsValue d n = (Ok (N_of_bits (firstn (N.to_nat n) (skipn pos (bits_of_bytes bs)))), d')
             /\ at_pos d' bs (pos + N.to_nat n).
Proof.
  intros (H1 & H2 & H3) [Hb Hl] Hn Hfit. unfold getBitsValue. rewrite H1, H2, H3.
  unfold LIM, len in Hl.
  rewrite slice_from_ok by lia.
  rewrite GetBitsValue_bits; try lia.
  - eexists. split.
    + rewrite Nat2N.id, src_bits. reflexivity.
    + apply carry_at. unfold TWO64. lia.
  - apply bok_skipn. exact Hb.
  - unfold len. rewrite skipn_length. lia.
  - unfold len. rewrite skipn_length. lia.
Qed.

Theorem getBitString_at d bs pos n :
  at_pos d bs pos -> buf bs -> 1 <= n -> (pos + N.to_nat n <= 8 * length bs)%nat ->
  exists r d', getBitString d n = (Ok r, d') /\ at_pos d' bs (pos + N.to_nat n) /\ bok r /\ len r = (n + 7) / 8 /\
    bits_of_bytes r = firstn (N.to_nat n) (skipn pos (bits_of_bytes bs)) ++ repeat false (pad_len (N.to_nat n)).
Proof.
  intros (H1 & H2 & H3) [Hb Hl] Hn Hfit. unfold getBitString. rewrite H1, H2, H3.
  unfold LIM, len in Hl.
  rewrite slice_from_ok by lia.
  destruct (GetBitString_bits (skipn (pos / 8) bs) (N.of_nat (pos mod 8)) n) as (r & Er & Hr & Hrl & Hrb); try lia.
  - apply bok_skipn. exact Hb.
  - unfold len. rewrite skipn_length. lia.
  - unfold len. rewrite skipn_length. lia.
  - rewrite Er. exists r. eexists. split; [reflexivity|]. split; [apply carry_at; unfold TWO64; lia|].
    split; [exact Hr|]. split; [exact Hrl|]. rewrite Hrb, Nat2N.id, src_bits. reflexivity.
Qed.

Lemma N_of_bits_zeros k : N_of_bits (repeat false k) = 0.
Proof. induction k as [|k IH]; [reflexivity|]. cbn [repeat]. rewrite N_of_bits_cons, IH. lia. Qed.

Theorem parseAlignBits_at d bs pos :
  at_pos d bs pos -> buf bs -> (pos + pad_len pos <= 8 * length bs)%nat ->
  firstn (pad_len pos) (skipn pos (bits_of_bytes bs)) = repeat false (pad_len pos) ->
  exists d', parseAlignBits d = (Ok tt, d') /\ at_pos d' bs (pos + pad_len pos).
Proof.
  intros Hd Hb Hfit Hz. pose proof Hd as (H1 & H2 & H3). unfold parseAlignBits. rewrite H3, land7.
  destruct (0 <? N.of_nat (pos mod 8) mod 8) eqn:E.
  - assert (Hpl : N.to_nat (8 - N.of_nat (pos mod 8) mod 8) = pad_len pos) by (unfold pad_len; lia).
    destruct (getBitsValue_at d bs pos (8 - N.of_nat (pos mod 8) mod 8) Hd Hb ltac:(lia) ltac:(lia)) as (d' & Eg & Hd').
    rewrite Eg. cbn [sbind]. rewrite Hpl in *. rewrite Hz, N_of_bits_zeros. cbn [N.eqb]. eauto.
  - assert (pos mod 8 = 0)%nat by lia. assert (negb (N.of_nat (pos mod 8) =? 0) = false) as -> by lia.
    exists d. split; [reflexivity|]. rewrite pad_len_0 by assumption. rewrite Nat.add_0_r. exact Hd.
Qed.

(* the bits at the cursor, when the buffer is known to continue with [b] there *)
Lemma firstn_at (B pre b post : bits) : B = pre ++ b ++ post -> firstn (length b) (skipn (length pre) B) = b.
Proof.
  intros ->. rewrite skipn_app_r by lia. replace (length pre - length pre)%nat with O by lia. rewrite skipn_O.
  rewrite firstn_app_l by lia. apply firstn_all.
Qed.
