(* C14, time bound, part 4: the constants of Proofs/AperCostField.v evaluated over the regenerated NGAP schema
   (vm_compute), hence: decoding any octet string against any NGAP root takes a number of steps that is linear
   in the length of the input. *)
From Coq Require Import NArith ZArith List Bool Lia Arith String.
From Coq Require Import ZifyN ZifyNat ZifyBool.
Require Import GoSlice AperCommon AperEnc AperDec NgapSchema AperCheck AperDecProofs AperTotalPrim AperTotalField AperTotalAlloc AperTotalNgap.
Require Import AperDecCost AperCostErase AperCostPrim AperCostField.
Import ListNotations.
Open Scope N_scope.

(* worst constant part and worst steps-per-bit over all roots *)
Definition ngap_kost_max : N :=
  Eval vm_compute in fold_right (fun (r : string * ty * params * params) m => let '(_, t, _, _) := r in N.max (kost t) m) 0 ngap_roots_full.
Definition ngap_lstep_max : N :=
  Eval vm_compute in fold_right (fun (r : string * ty * params * params) m => let '(_, t, _, _) := r in N.max (lstep t) m) 0 ngap_roots_full.

Lemma ngap_steps_consts :
  forallb (fun r : string * ty * params * params =>
             let '(_, t, _, _) := r in (kost t <=? ngap_kost_max) && (lstep t <=? ngap_lstep_max)) ngap_roots_full = true.
Proof. vm_compute. reflexivity. Qed.

Lemma ngap_steps_consts_values : ngap_kost_max = 3365 /\ ngap_lstep_max = 4862 /\ 8 * ngap_lstep_max = 38896.
Proof. repeat split; reflexivity. Qed.

(* per root, with the root's own constants *)
Theorem ngap_decode_steps_root root t pe pd bs fuel :
  In (root, t, pe, pd) ngap_roots_full -> bytes_ok bs -> len bs < MAXLEN ->
  unmarshal_steps fuel t pd bs <= kost t + lstep t * (8 * len bs).
Proof.
  intros Hin Hb Hl.
  pose proof ngap_roots_wf as Hw. rewrite forallb_forall in Hw. specialize (Hw _ Hin). cbn [root_wf] in Hw. apply andb_prop in Hw as (Hw & _).
  pose proof ngap_roots_cons as Hc. rewrite forallb_forall in Hc. specialize (Hc _ Hin). cbv beta iota in Hc.
  apply unmarshal_steps_bound; assumption.
Qed.

Theorem ngap_decode_steps_bounded root t pe pd bs fuel :
  In (root, t, pe, pd) ngap_roots_full -> bytes_ok bs -> len bs < MAXLEN ->
  unmarshal_steps fuel t pd bs <= 3365 + 38896 * len bs.
Proof.
  intros Hin Hb Hl.
  pose proof (ngap_decode_steps_root root t pe pd bs fuel Hin Hb Hl) as H.
  pose proof ngap_steps_consts as Hk. rewrite forallb_forall in Hk. specialize (Hk _ Hin). cbv beta iota in Hk.
  apply andb_prop in Hk as (Hk1 & Hk2). apply N.leb_le in Hk1, Hk2.
  change ngap_kost_max with 3365 in Hk1. change ngap_lstep_max with 4862 in Hk2.
  pose proof (N.mul_le_mono_r (lstep t) 4862 (8 * len bs) Hk2).
  replace (38896 * len bs) with (4862 * (8 * len bs)) by (rewrite N.mul_assoc; reflexivity).
  lia.
Qed.

(* the same run returns what the decoder model returns *)
Theorem ngap_decode_steps_same_result root t pe pd bs fuel :
  In (root, t, pe, pd) ngap_roots_full ->
  match fst (unmarshal_costed fuel t pd bs) with
  | Ok (v, _) => Ok v | Err e => Err e | Panic q => Panic q | OutOfFuel => OutOfFuel
  end = unmarshal fuel t pd bs.
Proof. intros _. apply unmarshal_costed_unmarshal. Qed.

(* "never a hang", in full: with the fuel the checkers use, the run ends with a value or an error, the step-counting
   run is the same run, and it took at most 3365 + 38896 * |input| steps *)
Theorem ngap_decode_linear_time root t pe pd bs :
  In (root, t, pe, pd) ngap_roots_full -> bytes_ok bs -> len bs < MAXLEN ->
  match unmarshal (dec_fuel t) t pd bs with Ok _ | Err _ => True | Panic _ | OutOfFuel => False end
  /\ match fst (unmarshal_costed (dec_fuel t) t pd bs) with
     | Ok (v, _) => Ok v | Err e => Err e | Panic q => Panic q | OutOfFuel => OutOfFuel
     end = unmarshal (dec_fuel t) t pd bs
  /\ unmarshal_steps (dec_fuel t) t pd bs <= 3365 + 38896 * len bs.
Proof.
  intros Hin Hb Hl. split; [|split].
  - pose proof (ngap_decode_total root t pe pd bs Hin Hb Hl) as H.
    destruct (unmarshal (dec_fuel t) t pd bs); cbn [quiet] in H; try contradiction; exact I.
  - apply unmarshal_costed_unmarshal.
  - apply (ngap_decode_steps_bounded root t pe pd bs (dec_fuel t) Hin Hb Hl).
Qed.

(* the property's input size: at most 4 KiB *)
Corollary ngap_decode_steps_4k root t pe pd bs fuel :
  In (root, t, pe, pd) ngap_roots_full -> bytes_ok bs -> len bs <= 4096 ->
  unmarshal_steps fuel t pd bs <= 159321381.
Proof.
  intros Hin Hb Hl.
  assert (Hl' : len bs < MAXLEN) by (unfold MAXLEN; lia).
  pose proof (ngap_decode_steps_bounded root t pe pd bs fuel Hin Hb Hl'). lia.
Qed.
