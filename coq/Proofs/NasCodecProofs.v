(* Proofs about the generic NAS codec interpreters of Model/NasCodec.v (C08).
   For every descriptor accepted by [desc_pair_ok] and every message satisfying [wf_msg]:
   the encoding is the mandatory part followed by the present optional IEs in struct order ([encode_shape]);
   decoding the mandatory part followed by ANY permutation of those IEs gives the message back
   ([order_insensitive]); hence decode (encode m) = m ([roundtrip]) and canonical byte strings re-encode to
   themselves ([reencode]).  Nothing here depends on the generated descriptors. *)
From Coq Require Import NArith ZArith List Bool String Lia Permutation.
From Coq Require Import ZifyN ZifyNat ZifyBool.
Require Import Bytes NasValue NasCodec.
Import ListNotations.
Open Scope list_scope.
Open Scope N_scope.
Ltac Zify.zify_post_hook ::= Z.div_mod_to_equations.

(* ---------------------------------------------------------------- small facts *)
Lemma take_app a rest : take (List.length a) (a ++ rest) = (Some a, rest).
Proof.
  unfold take. rewrite app_length.
  replace (Nat.leb (List.length a) (List.length a + List.length rest)) with true
    by (symmetry; apply Nat.leb_le; lia).
  rewrite firstn_app, Nat.sub_diag, firstn_all, skipn_app, Nat.sub_diag, skipn_all. cbn. now rewrite app_nil_r.
Qed.

Lemma take_app_n n a rest : List.length a = n -> take n (a ++ rest) = (Some a, rest).
Proof. intros <-. apply take_app. Qed.

Lemma eqb_list_wr a b : eqb_list eqb_wr a b = true -> a = b.
Proof.
  revert b; induction a as [|x a IH]; intros [|y b]; cbn; try discriminate; auto.
  intro H. apply andb_true_iff in H as [H1 H2]. f_equal; auto.
  destruct x, y; cbn in H1; try discriminate; reflexivity.
Qed.
Lemma eqb_list_rd a b : eqb_list eqb_rd a b = true -> a = b.
Proof.
  revert b; induction a as [|x a IH]; intros [|y b]; cbn; try discriminate; auto.
  intro H. apply andb_true_iff in H as [H1 H2]. f_equal; auto.
  destruct x, y; cbn in H1; try discriminate; reflexivity.
Qed.
Lemma eqb_list_str a b : eqb_list String.eqb a b = true -> a = b.
Proof.
  revert b; induction a as [|x a IH]; intros [|y b]; cbn; try discriminate; auto.
  intro H. apply andb_true_iff in H as [H1 H2]. f_equal; auto. now apply String.eqb_eq.
Qed.

Lemma eqb_bytes_eq a b : eqb_bytes a b = true -> a = b.
Proof.
  revert b; induction a as [|x a IH]; intros [|y b]; cbn; try discriminate; auto.
  intro H. apply andb_true_iff in H as [H1 H2]. f_equal; auto. now apply N.eqb_eq.
Qed.
Lemma eqb_fval_eq a b : eqb_fval a b = true -> a = b.
Proof.
  destruct a, b; unfold eqb_fval; cbn. intro H.
  apply andb_true_iff in H as [H H4]. apply andb_true_iff in H as [H H3]. apply andb_true_iff in H as [H1 H2].
  apply Bool.eqb_prop in H1. apply N.eqb_eq in H2. apply N.eqb_eq in H3. apply eqb_bytes_eq in H4. congruence.
Qed.

Lemma firstn_skipn_zero (n:nat) (b:bytes) m :
  List.length b = m -> (n <= m)%nat -> forallb (N.eqb 0) (skipn n b) = true ->
  firstn n b ++ skipn n (zeros m) = b.
Proof.
  intros Hl Hn Hz. rewrite <- (firstn_skipn n b) at 2. f_equal.
  assert (Hs : List.length (skipn n b) = (m - n)%nat) by (rewrite skipn_length; lia).
  unfold zeros. replace m with (n + (m - n))%nat at 1 by lia. rewrite repeat_app, skipn_app.
  rewrite repeat_length, Nat.sub_diag. rewrite skipn_all2 by (rewrite repeat_length; lia). cbn [skipn app].
  revert Hs Hz. generalize (skipn n b) (m - n)%nat. clear.
  induction l as [|x l IH]; intros [|k]; cbn; try discriminate; auto.
  intros Hs Hz. apply andb_true_iff in Hz as [H1 H2]. destruct x; try discriminate. f_equal. apply IH; auto.
Qed.

Ltac split_andb :=
  repeat match goal with
  | H : _ && _ = true |- _ => apply andb_true_iff in H as [? ?]
  end.
Ltac boolfacts :=
  repeat match goal with
  | H : Nat.eqb _ _ = true |- _ => apply Nat.eqb_eq in H
  | H : N.eqb _ _ = true |- _ => apply N.eqb_eq in H
  | H : N.ltb _ _ = true |- _ => apply N.ltb_lt in H
  | H : N.leb _ _ = true |- _ => apply N.leb_le in H
  | H : negb _ = true |- _ => apply negb_true_iff in H
  | H : is_nil ?l = true |- _ => destruct l; [clear H | discriminate H]
  end.

Lemma len2_value l : l < 65536 -> l / 256 * 256 + l mod 256 = l.
Proof. intro H. lia. Qed.

Lemma zeros_length n : List.length (zeros n) = n.
Proof. apply repeat_length. Qed.

Lemma take1 x l : take 1 (x :: l) = (Some [x], l).
Proof. reflexivity. Qed.
Lemma take2 x y l : take 2 (x :: y :: l) = (Some [x; y], l).
Proof. reflexivity. Qed.

Ltac rd_step :=
  cbn [run_rds run_rd bind t_lenw t_body t_setlen_allocs t_new t_has_iei fv_body fv_len fv_present fv_iei
       set_len set_body app fst snd new_val zero_val zero_body];
  rewrite ?take1, ?take2;
  try (rewrite take_app_n by (cbn [List.length]; rewrite ?zeros_length; lia)).
Ltac rd_steps := do 4 rd_step.

Lemma mand_roundtrip k t e r w v rest :
  mand_fmt t e r = Some w ->
  wf_val (mk_nf k t false 0 w) v = true ->
  run_wrs t v e = Ok (enc_nf (mk_nf k t false 0 w) v) /\
  run_rds t None (zero_val t, enc_nf (mk_nf k t false 0 w) v ++ rest) r = Ok (v, rest).
Proof.
  destruct t as [nm hi lw bd al nw odd]. destruct v as [p i l b].
  unfold mand_fmt, wf_val, typed_val, enc_nf, zero_val, zero_body, fixed_size, lenw_ok.
  cbn [t_lenw t_body t_setlen_allocs t_has_iei nf_type nf_opt nf_iei nf_fmt fv_present fv_iei fv_len fv_body].
  intros Hf Hw.
  destruct p; [|cbn in Hw; discriminate].
  destruct (eqb_list eqb_wr e [WBody] && eqb_list eqb_rd r [RBody] && Nat.eqb lw 0) eqn:E1.
  - apply andb_true_iff in E1 as [E1 Ec]. apply andb_true_iff in E1 as [Ea Eb].
    apply eqb_list_wr in Ea. apply eqb_list_rd in Eb. apply Nat.eqb_eq in Ec. subst e r lw.
    destruct bd as [|n| |]; try discriminate; inversion Hf; subst w; clear Hf;
      cbn [w_half w_tag w_lenw w_body len_bytes app] in *;
      assert (Hi : i = 0) by (destruct hi; split_andb; boolfacts; auto);
      assert (Hl : l = 0) by (split_andb; boolfacts; auto);
      subst i l; split_andb; boolfacts;
      (split; [cbn; now rewrite app_nil_r|]);
      cbn [run_rds run_rd bind t_body fv_body].
    + rewrite take_app_n by (cbn; auto). reflexivity.
    + rewrite take_app_n by (rewrite zeros_length; auto). reflexivity.
  - clear E1.
    destruct (eqb_list eqb_wr e [WLen; WBody] && eqb_list eqb_rd r [RLenField; RSetLen; RBody] &&
              match lw with 1%nat | 2%nat => true | _ => false end) eqn:E2; [|discriminate].
    apply andb_true_iff in E2 as [E2 Ec]. apply andb_true_iff in E2 as [Ea Eb].
    apply eqb_list_wr in Ea. apply eqb_list_rd in Eb. subst e r.
    assert (Hlw : lw = 1%nat \/ lw = 2%nat) by (destruct lw as [|[|[|?]]]; try discriminate; auto).
    destruct bd as [|n| |]; try discriminate; destruct al; try discriminate; inversion Hf; subst w; clear Hf;
      cbn [w_half w_tag w_lenw w_body app] in *;
      assert (Hi : i = 0) by (destruct hi; split_andb; boolfacts; auto); subst i;
      split_andb; boolfacts;
      destruct Hlw; subst lw; boolfacts;
      cbn [len_bytes run_wrs run_wr bind t_lenw t_body fv_len fv_body app];
      (split; [cbn [app]; now rewrite ?app_nil_r|]);
      rd_steps; rewrite ?len2_value by assumption; reflexivity.
Qed.

Lemma land240 o : o < 256 -> N.land o 240 / 16 = o / 16.
Proof.
  intro H.
  assert (A : forallb (fun o => N.land o 240 / 16 =? o / 16) (map N.of_nat (seq 0 256)) = true) by (vm_compute; reflexivity).
  rewrite forallb_forall in A. apply N.eqb_eq, A. apply in_map_iff. exists (N.to_nat o). split; [lia | apply in_seq; lia].
Qed.

Lemma skipn_zeros_all n : skipn n (zeros n) = [].
Proof. apply skipn_all2. rewrite zeros_length. lia. Qed.

Lemma opt_roundtrip k t e r w c v rest :
  opt_fmt t e r = Some w ->
  iei_ok 128 (mk_nf k t true c w) = true ->
  wf_val (mk_nf k t true c w) v = true -> fv_present v = true ->
  run_wrs t v e = Ok (enc_nf (mk_nf k t true c w) v) /\
  exists ieiN tail r' v0,
    enc_nf (mk_nf k t true c w) v = ieiN :: tail /\ iei_key 128 ieiN = c /\ r = RNew :: r' /\
    new_val t ieiN = Ok v0 /\ run_rds t (Some ieiN) (v0, tail ++ rest) r' = Ok (v, rest).
Proof.
  destruct t as [nm hi lw bd al nw odd]. destruct v as [p i l b].
  unfold opt_fmt, iei_ok, wf_val, typed_val, enc_nf, fixed_size, lenw_ok, new_val.
  cbn [t_lenw t_body t_setlen_allocs t_has_iei t_new nf_type nf_opt nf_iei nf_fmt fv_present fv_iei fv_len fv_body].
  intros Hf Hi Hw Hp. subst p.
  destruct nw; try discriminate.
  - (* TV / TLV *)
    destruct hi; [|discriminate]. cbn [negb] in Hf.
    destruct (eqb_list eqb_wr e [WIei; WBody] && eqb_list eqb_rd r [RNew; RBody] && Nat.eqb lw 0) eqn:E1.
    { apply andb_true_iff in E1 as [E1 Ec]. apply andb_true_iff in E1 as [Ea Eb].
      apply eqb_list_wr in Ea. apply eqb_list_rd in Eb. apply Nat.eqb_eq in Ec. subst e r lw.
      destruct bd as [|n| |]; try discriminate; inversion Hf; subst w; clear Hf;
        cbn [w_half w_tag w_lenw w_body len_bytes app] in *; split_andb; boolfacts; subst i l;
        (split; [cbn; now rewrite ?app_nil_r|]);
        do 4 eexists;
        (split; [cbn [app]; reflexivity|]); (split; [unfold iei_key; replace (128 <=? c) with false by (symmetry; apply N.leb_gt; lia); reflexivity|]);
        (split; [reflexivity|]); (split; [reflexivity|]);
        rd_steps; reflexivity. }
    clear E1.
    destruct (match lw with 1%nat | 2%nat => true | _ => false end) eqn:Elw; [|discriminate]. cbn [negb] in Hf.
    assert (Hlw : lw = 1%nat \/ lw = 2%nat) by (destruct lw as [|[|[|?]]]; try discriminate; auto). clear Elw.
    destruct (eqb_list eqb_wr e [WIei; WLen; WBody] && eqb_list eqb_rd r [RNew; RLenField; RSetLen; RBody]) eqn:E2.
    { apply andb_true_iff in E2 as [Ea Eb]. apply eqb_list_wr in Ea. apply eqb_list_rd in Eb. subst e r.
      destruct al; [discriminate|].
      destruct bd as [|n| |]; try discriminate; inversion Hf; subst w; clear Hf;
        cbn [w_half w_tag w_lenw w_body app] in *; split_andb; boolfacts; subst i;
        destruct Hlw; subst lw; boolfacts; cbn [len_bytes app];
        (split; [cbn; now rewrite ?app_nil_r|]).
      all: do 4 eexists.
      all: (split; [cbn [app]; reflexivity|]); (split; [unfold iei_key; replace (128 <=? c) with false by (symmetry; apply N.leb_gt; lia); reflexivity|]);
        (split; [reflexivity|]).
      all: try (split; [reflexivity|]; cbn [app]; rd_steps; rewrite ?len2_value by assumption; reflexivity). }
    clear E2.
    destruct (eqb_list eqb_wr e [WIei; WLen; WBody] && eqb_list eqb_rd r [RNew; RLenField; RSetLen; RBodyUptoLen]) eqn:E3.
    { apply andb_true_iff in E3 as [Ea Eb]. apply eqb_list_wr in Ea. apply eqb_list_rd in Eb. subst e r.
      destruct bd as [|n| |]; try discriminate. destruct al; [|discriminate]. inversion Hf; subst w; clear Hf.
      cbn [w_half w_tag w_lenw w_body app] in *; split_andb; boolfacts; subst i.
      destruct Hlw; subst lw; boolfacts; cbn [len_bytes app];
        (split; [cbn; now rewrite ?app_nil_r|]).
      all: do 4 eexists.
      all: (split; [cbn [app]; reflexivity|]); (split; [unfold iei_key; replace (128 <=? c) with false by (symmetry; apply N.leb_gt; lia); reflexivity|]);
        (split; [reflexivity|]); (split; [reflexivity|]).
      all: cbn [app]; rd_step; rd_step; rewrite ?len2_value by assumption; cbn [run_rds run_rd bind t_body t_lenw t_setlen_allocs fv_len fv_body set_body set_len fv_present fv_iei].
      all: rewrite zeros_length; replace (l <=? N.of_nat (N.to_nat l)) with true by (symmetry; apply N.leb_le; lia).
      all: rewrite ?take_app_n by lia; cbn [bind run_rds set_body set_len fv_present fv_iei fv_len fv_body]; rewrite skipn_zeros_all, app_nil_r; reflexivity. }
    clear E3.
    destruct (eqb_list eqb_wr e [WIei; WLen; WBodyUptoLen] && eqb_list eqb_rd r [RNew; RLenField; RSetLen; RBodyUptoLen]) eqn:E4; [|discriminate].
    apply andb_true_iff in E4 as [Ea Eb]. apply eqb_list_wr in Ea. apply eqb_list_rd in Eb. subst e r.
    destruct bd as [|n| |]; try discriminate. destruct al; [discriminate|]. inversion Hf; subst w; clear Hf.
    cbn [w_half w_tag w_lenw w_body app] in *; split_andb; boolfacts; subst i.
    assert (Hfl : List.length (firstn (N.to_nat l) b) = N.to_nat l) by (rewrite firstn_length; lia).
    destruct Hlw; subst lw; boolfacts; cbn [len_bytes app].
    all: (split; [cbn [run_wrs run_wr bind t_has_iei t_lenw t_body fv_iei fv_len fv_body];
                  replace (l <=? N.of_nat (List.length b)) with true by (symmetry; apply N.leb_le; lia);
                  cbn [bind app]; now rewrite ?app_nil_r|]).
    all: do 4 eexists.
    all: (split; [cbn [app]; reflexivity|]); (split; [unfold iei_key; replace (128 <=? c) with false by (symmetry; apply N.leb_gt; lia); reflexivity|]);
      (split; [reflexivity|]); (split; [reflexivity|]).
    all: cbn [app]; rd_step; rd_step; rewrite ?len2_value by assumption; cbn [run_rds run_rd bind t_body t_lenw t_setlen_allocs fv_len fv_body set_body set_len fv_present fv_iei].
    all: rewrite zeros_length; replace (l <=? N.of_nat n) with true by (symmetry; apply N.leb_le; lia).
    all: rewrite ?take_app_n by lia; cbn [bind run_rds set_body set_len fv_present fv_iei fv_len fv_body]; rewrite (firstn_skipn_zero (N.to_nat l) b n) by (auto; lia); reflexivity.
  - (* half octet *)
    destruct (eqb_list eqb_wr e [WBody] && eqb_list eqb_rd r [RNew; ROctetIsIei] && negb hi && Nat.eqb lw 0) eqn:E1; [|discriminate].
    apply andb_true_iff in E1 as [E1 Ec]. apply andb_true_iff in E1 as [E1 Eh]. apply andb_true_iff in E1 as [Ea Eb].
    apply eqb_list_wr in Ea. apply eqb_list_rd in Eb. apply Nat.eqb_eq in Ec. apply negb_true_iff in Eh. subst e r lw hi.
    destruct bd; try discriminate. inversion Hf; subst w; clear Hf.
    cbn [w_half w_tag w_lenw w_body app] in *. split_andb.
    destruct b as [|o [|? ?]]; try discriminate. boolfacts. subst i l.
    cbn [octets_ok forallb] in *. split_andb. boolfacts.
    split; [cbn; reflexivity|].
    exists o, [], [ROctetIsIei], (mk_fval true 0 0 [o mod 16 * 16]).
    split; [reflexivity|]. split.
    { unfold iei_key. replace (128 <=? o) with true by (symmetry; apply N.leb_le; lia). rewrite land240 by assumption. assumption. }
    split; [reflexivity|]. split; [reflexivity|]. cbn. reflexivity.
Qed.

(* ---------------------------------------------------------------- keyed lists *)
Lemma findk_in {A} (key:A -> string) k l x : findk key k l = Some x -> In x l /\ key x = k.
Proof.
  induction l as [|y l IH]; cbn; [discriminate|].
  destruct (String.eqb k (key y)) eqn:E.
  - intros [= <-]. apply String.eqb_eq in E. auto.
  - intro H. destruct (IH H). auto.
Qed.
Lemma findk_nodup {A} (key:A -> string) l x : NoDup (map key l) -> In x l -> findk key (key x) l = Some x.
Proof.
  induction l as [|y l IH]; cbn; [tauto|]. intros Hn [->|Hi].
  - now rewrite String.eqb_refl.
  - inversion Hn; subst. destruct (String.eqb (key x) (key y)) eqn:E; [|auto].
    apply String.eqb_eq in E. exfalso. apply H1. rewrite <- E. now apply in_map.
Qed.
Lemma findk_none {A} (key:A -> string) k l : ~ In k (map key l) -> findk key k l = None.
Proof.
  induction l as [|y l IH]; cbn; [auto|]. intro H.
  destruct (String.eqb k (key y)) eqn:E; [apply String.eqb_eq in E; exfalso; auto | apply IH; tauto].
Qed.
Lemma lookup_in {A} k (l:list (string * A)) v : lookup k l = Some v -> In (k, v) l.
Proof.
  induction l as [|[k' v'] l IH]; cbn; [discriminate|].
  destruct (String.eqb k k') eqn:E; [intros [= <-]; apply String.eqb_eq in E; subst; auto | auto].
Qed.
Lemma lookup_nodup {A} k (l:list (string * A)) v : NoDup (map fst l) -> In (k, v) l -> lookup k l = Some v.
Proof.
  induction l as [|[k' v'] l IH]; cbn; [tauto|]. intros Hn [[= -> ->]|Hi].
  - now rewrite String.eqb_refl.
  - inversion Hn; subst. destruct (String.eqb k k') eqn:E; [|auto].
    apply String.eqb_eq in E. subst k'. exfalso. apply H1. change k with (fst (k, v)). now apply in_map.
Qed.
Lemma lookup_none {A} k (l:list (string * A)) : ~ In k (map fst l) -> lookup k l = None.
Proof.
  induction l as [|[k' v'] l IH]; cbn; [auto|]. intro H.
  destruct (String.eqb k k') eqn:E; [apply String.eqb_eq in E; exfalso; auto | apply IH; tauto].
Qed.
Lemma find_case_nodup cs c : NoDup (map dc_const cs) -> In c cs -> find_case (dc_const c) cs = Some c.
Proof.
  induction cs as [|y l IH]; cbn; [tauto|]. intros Hn [->|Hi].
  - now rewrite N.eqb_refl.
  - inversion Hn; subst. destruct (dc_const c =? dc_const y) eqn:E; [|auto].
    apply N.eqb_eq in E. exfalso. apply H1. rewrite <- E. now apply in_map.
Qed.

Lemma nodup_str_NoDup l : nodup_str l = true -> NoDup l.
Proof.
  induction l as [|x l IH]; cbn; [constructor|]. intro H. apply andb_true_iff in H as [H1 H2].
  constructor; auto. intro Hi. apply negb_true_iff in H1.
  assert (existsb (String.eqb x) l = true) by (apply existsb_exists; exists x; split; auto; apply String.eqb_refl). congruence.
Qed.
Lemma nodup_N_NoDup l : nodup_N l = true -> NoDup l.
Proof.
  induction l as [|x l IH]; cbn; [constructor|]. intro H. apply andb_true_iff in H as [H1 H2].
  constructor; auto. intro Hi. apply negb_true_iff in H1.
  assert (existsb (N.eqb x) l = true) by (apply existsb_exists; exists x; split; auto; apply N.eqb_refl). congruence.
Qed.

Lemma NoDup_map_filter {A B} (f:A -> B) p l : NoDup (map f l) -> NoDup (map f (filter p l)).
Proof.
  induction l as [|x l IH]; cbn; auto. intro H. inversion H; subst. destruct (p x); cbn; auto.
  constructor; auto. intro Hi. apply H2. apply in_map_iff in Hi as (y & Hy & Hin). apply filter_In in Hin as [Hin _].
  rewrite <- Hy. now apply in_map.
Qed.

Lemma mand_then_opt_split l :
  mand_then_opt l = true -> l = filter (fun f => negb (f_optional f)) l ++ filter f_optional l.
Proof.
  induction l as [|f l IH]; cbn; auto. destruct (f_optional f) eqn:E; cbn.
  - intro H. assert (A : filter (fun f => negb (f_optional f)) l = [] /\ filter f_optional l = l).
    { clear -H. induction l as [|g l IH]; cbn; auto. cbn in H. apply andb_true_iff in H as [H1 H2]. rewrite H1. cbn.
      destruct (IH H2) as [-> ->]. auto. }
    destruct A as [-> ->]. reflexivity.
  - intro H. f_equal. auto.
Qed.

Lemma all_some_forall2 {A B} (f:A -> option B) l r : all_some (map f l) = Some r -> Forall2 (fun a b => f a = Some b) l r.
Proof.
  revert r; induction l as [|a l IH]; cbn; intros r H.
  - inversion H. constructor.
  - destruct (f a) eqn:E; [|discriminate]. destruct (all_some (map f l)); [|discriminate]. inversion H; subst. constructor; auto.
Qed.

(* ---------------------------------------------------------------- what desc_pair_ok says *)
Record pair_facts (d:msg_desc) (nf:list nf_field) : Prop := {
  pf_odd : d_odd d = [];
  pf_nodup : NoDup (map f_name (d_fields d));
  pf_order : mand_then_opt (d_fields d) = true;
  pf_enc : map eg_field (d_enc d) = map f_name (d_fields d);
  pf_mand : map dg_field (d_dec_mand d) = map f_name (filter (fun f => negb (f_optional f)) (d_fields d));
  pf_cases : map dc_field (d_cases d) = map f_name (filter f_optional (d_fields d));
  pf_consts : NoDup (map dc_const (d_cases d));
  pf_loop : d_loop d = LoopStd 128;
  pf_nf : Forall2 (fun f x => nf_of_field d f = Some x) (d_fields d) nf;
  pf_nf_of : nf_of d = Some nf;
  pf_iei : forall x, In x nf -> iei_ok 128 x = true }.

Lemma desc_pair_ok_facts d : desc_pair_ok d = true -> exists nf, pair_facts d nf.
Proof.
  unfold desc_pair_ok. intro H.
  repeat (apply andb_true_iff in H as [H ?]).
  destruct (d_loop d) eqn:El; try discriminate. destruct (nf_of d) as [nf|] eqn:En; try discriminate.
  match goal with H : _ && _ = true |- _ => apply andb_true_iff in H as [Ht Hi] end.
  apply N.eqb_eq in Ht. subst threshold.
  exists nf. constructor; auto.
  - destruct (d_odd d); [reflexivity|discriminate].
  - now apply nodup_str_NoDup.
  - now apply eqb_list_str.
  - now apply eqb_list_str.
  - now apply eqb_list_str.
  - now apply nodup_N_NoDup.
  - now apply all_some_forall2.
  - now apply forallb_forall.
Qed.

(* what a row of the normal form says about the statements of both methods *)
Lemma nf_of_field_inv d f x :
  nf_of_field d f = Some x ->
  t_odd (f_type f) = [] /\
  exists g w, find_eg (f_name f) (d_enc d) = Some g /\ eg_guarded g = f_optional f /\
    if f_optional f then
      exists c, find_case_of (f_name f) (d_cases d) = Some c /\ opt_fmt (f_type f) (eg_ops g) (dc_ops c) = Some w /\
                x = mk_nf (f_name f) (f_type f) true (dc_const c) w
    else
      exists g', find_dg (f_name f) (d_dec_mand d) = Some g' /\ mand_fmt (f_type f) (eg_ops g) (dg_ops g') = Some w /\
                 x = mk_nf (f_name f) (f_type f) false 0 w.
Proof.
  unfold nf_of_field. destruct (t_odd (f_type f)) eqn:Eo; cbn [is_nil negb]; [|discriminate].
  destruct (find_eg (f_name f) (d_enc d)) as [g|] eqn:Eg; [|discriminate].
  destruct (Bool.eqb (eg_guarded g) (f_optional f)) eqn:Egd; cbn [negb]; [|discriminate].
  apply Bool.eqb_prop in Egd. intro H. split; auto.
  destruct (f_optional f) eqn:Eopt.
  - destruct (find_case_of (f_name f) (d_cases d)) as [c|] eqn:Ec; [|discriminate].
    destruct (opt_fmt (f_type f) (eg_ops g) (dc_ops c)) as [w|] eqn:Ew; [|discriminate].
    inversion H; subst. exists g, w. repeat split; auto. exists c. auto.
  - destruct (find_dg (f_name f) (d_dec_mand d)) as [g'|] eqn:Ec; [|discriminate].
    destruct (mand_fmt (f_type f) (eg_ops g) (dg_ops g')) as [w|] eqn:Ew; [|discriminate].
    inversion H; subst. exists g, w. repeat split; auto. exists g'. auto.
Qed.

Lemma wf_vals_forall2 nf m :
  wf_vals nf m = true -> Forall2 (fun x kv => fst kv = nf_name x /\ wf_val x (snd kv) = true) nf m.
Proof.
  revert m; induction nf as [|x nf IH]; intros [|[k v] m]; cbn; try discriminate; [constructor|].
  intro H. apply andb_true_iff in H as [H H3]. apply andb_true_iff in H as [H1 H2]. apply String.eqb_eq in H1.
  constructor; auto.
Qed.

Lemma Forall2_in_l {A B} (R:A -> B -> Prop) l1 l2 a : Forall2 R l1 l2 -> In a l1 -> exists b, In b l2 /\ R a b.
Proof.
  induction 1; cbn; [tauto|]. intros [->|Hi]; [eauto|]. destruct (IHForall2 Hi) as (b & ? & ?). eauto.
Qed.
Lemma Forall2_in_r {A B} (R:A -> B -> Prop) l1 l2 b : Forall2 R l1 l2 -> In b l2 -> exists a, In a l1 /\ R a b.
Proof.
  induction 1; cbn; [tauto|]. intros [->|Hi]; [eauto|]. destruct (IHForall2 Hi) as (a & ? & ?). eauto.
Qed.
Lemma Forall2_map_eq {A B C} (R:A -> B -> Prop) (f:A -> C) (g:B -> C) l1 l2 :
  Forall2 R l1 l2 -> (forall a b, R a b -> f a = g b) -> map f l1 = map g l2.
Proof. induction 1; cbn; intros; f_equal; auto. Qed.

Section Desc.
Variable d : msg_desc.
Variable nf : list nf_field.
Hypothesis PF : pair_facts d nf.

Let names := map f_name (d_fields d).
Let mfields := filter (fun f => negb (f_optional f)) (d_fields d).
Let ofields := filter f_optional (d_fields d).

Lemma nf_name_of f x : nf_of_field d f = Some x -> nf_name x = f_name f /\ nf_type x = f_type f /\ nf_opt x = f_optional f.
Proof.
  intro H. destruct (nf_of_field_inv _ _ _ H) as (_ & g & w & _ & _ & Hc).
  destruct (f_optional f); [destruct Hc as (c & _ & _ & ->) | destruct Hc as (g' & _ & _ & ->)]; auto.
Qed.

Lemma nf_names : map nf_name nf = names.
Proof. symmetry. apply (Forall2_map_eq _ _ _ _ _ (pf_nf _ _ PF)). intros a b H. symmetry. now apply nf_name_of. Qed.

Lemma nodup_nf : NoDup (map nf_name nf).
Proof. rewrite nf_names. apply (pf_nodup _ _ PF). Qed.

Lemma field_split : d_fields d = mfields ++ ofields.
Proof. apply mand_then_opt_split, (pf_order _ _ PF). Qed.

Section Msg.
Variable m : msg.
Hypothesis WF : wf_vals nf m = true.

Lemma m_keys : map fst m = names.
Proof.
  rewrite <- nf_names. symmetry. apply (Forall2_map_eq _ _ _ _ _ (wf_vals_forall2 _ _ WF)). intros a b [H _]. now symmetry.
Qed.
Lemma nodup_m : NoDup (map fst m).
Proof. rewrite m_keys. apply (pf_nodup _ _ PF). Qed.

(* everything known about one field, by name *)
Lemma key_env f : In f (d_fields d) ->
  exists x v, In x nf /\ nf_of_field d f = Some x /\ nf_name x = f_name f /\
    find_field (f_name f) (d_fields d) = Some f /\ findk nf_name (f_name f) nf = Some x /\
    lookup (f_name f) m = Some v /\ In (f_name f, v) m /\ wf_val x v = true.
Proof.
  intro Hf.
  destruct (Forall2_in_l _ _ _ _ (pf_nf _ _ PF) Hf) as (x & Hx & Hfx).
  destruct (Forall2_in_l _ _ _ _ (wf_vals_forall2 _ _ WF) Hx) as ([k v] & Hkv & Hk & Hw). cbn in Hk, Hw.
  destruct (nf_name_of _ _ Hfx) as (Hn & _). subst k. rewrite Hn in Hkv.
  exists x, v. repeat split; auto.
  - apply findk_nodup; [apply (pf_nodup _ _ PF) | auto].
  - rewrite <- Hn. apply findk_nodup; [apply nodup_nf | auto].
  - apply lookup_nodup; [apply nodup_m | auto].
Qed.

Definition E (k:string) : bytes :=
  match findk nf_name k nf, lookup k m with Some x, Some v => enc_nf x v | _, _ => [] end.

Lemma enc_group_ok g : In g (d_enc d) -> enc_group_bytes d m g = Ok (E (eg_field g)).
Proof.
  intro Hg.
  assert (Hk : In (eg_field g) names) by (unfold names; rewrite <- (pf_enc _ _ PF); now apply in_map).
  apply in_map_iff in Hk as (f & Hfn & Hf).
  destruct (key_env f Hf) as (x & v & Hx & Hfx & Hn & Hff & Hfk & Hl & Hin & Hw).
  destruct (nf_of_field_inv _ _ _ Hfx) as (Hodd & g0 & w & Hg0 & Hgd & Hc).
  assert (g0 = g).
  { rewrite Hfn in Hg0. unfold find_eg in Hg0. rewrite findk_nodup in Hg0; [congruence| |auto].
    rewrite (pf_enc _ _ PF). apply (pf_nodup _ _ PF). }
  subst g0. unfold enc_group_bytes, E. rewrite <- Hfn, Hff, Hl, Hfk, Hodd. cbn [is_nil negb]. rewrite Hgd.
  destruct (f_optional f) eqn:Eo.
  - destruct Hc as (c & Hcf & Hfmt & ->).
    destruct (fv_present v) eqn:Ep.
    + eapply opt_roundtrip with (rest := []) in Hfmt as [He _]; eauto. apply (pf_iei _ _ PF); auto.
    + unfold enc_nf. now rewrite Ep.
  - destruct Hc as (g' & Hcf & Hfmt & ->). cbn [andb].
    eapply mand_roundtrip with (rest := []) in Hfmt as [He _]; eauto.
Qed.

Lemma enc_groups_ok gs : incl gs (d_enc d) -> enc_groups d m gs = Ok (List.concat (map E (map eg_field gs))).
Proof.
  induction gs as [|g gs IH]; cbn [enc_groups map List.concat]; intro Hi; [reflexivity|].
  rewrite enc_group_ok by (apply Hi; now left). cbn [bind]. rewrite IH by (intros a Ha; apply Hi; now right). reflexivity.
Qed.

Theorem nas_encode_ok : nas_encode d m = Ok (List.concat (map E names)).
Proof.
  unfold nas_encode. rewrite (pf_odd _ _ PF). cbn [is_nil negb]. rewrite enc_groups_ok by apply incl_refl.
  now rewrite (pf_enc _ _ PF).
Qed.

End Msg.
End Desc.

Lemma lookup_app_some {A} k (a b:list (string * A)) v : lookup k a = Some v -> lookup k (a ++ b) = Some v.
Proof. induction a as [|[k' v'] a IH]; cbn; [discriminate|]. destruct (String.eqb k k'); auto. Qed.
Lemma lookup_app_none {A} k (a b:list (string * A)) : lookup k a = None -> lookup k (a ++ b) = lookup k b.
Proof. induction a as [|[k' v'] a IH]; cbn; auto. destruct (String.eqb k k'); [discriminate|auto]. Qed.
Lemma lookup_not_in {A} k (l:list (string * A)) : lookup k l = None -> ~ In k (map fst l).
Proof.
  induction l as [|[k' v'] l IH]; cbn; [tauto|]. destruct (String.eqb k k') eqn:E; [discriminate|].
  intros H [Hk|Hk]; [subst; rewrite String.eqb_refl in E; discriminate | now apply IH].
Qed.

Lemma rebuild_by_keys (m:msg) :
  NoDup (map fst m) -> map (fun k => (k, match lookup k m with Some v => v | None => absent end)) (map fst m) = m.
Proof.
  induction m as [|[k v] m IH]; cbn; [reflexivity|]. intro Hn. inversion Hn; subst. rewrite String.eqb_refl. f_equal.
  rewrite <- IH at 2 by assumption. apply map_ext_in. intros k' Hk'.
  destruct (String.eqb k' k) eqn:E; [apply String.eqb_eq in E; subst; contradiction | reflexivity].
Qed.

Section Desc.
Variable d : msg_desc.
Variable nf : list nf_field.
Hypothesis PF : pair_facts d nf.
Variable m : msg.
Hypothesis WF : wf_vals nf m = true.

Let names := map f_name (d_fields d).
Let mfields := filter (fun f => negb (f_optional f)) (d_fields d).
Let ofields := filter f_optional (d_fields d).
Let EE := E nf m.
Definition V (k:string) : fval := match lookup k m with Some v => v | None => absent end.

Lemma name_inj f f' : In f (d_fields d) -> In f' (d_fields d) -> f_name f = f_name f' -> f = f'.
Proof.
  intros H1 H2 Hn. pose proof (findk_nodup f_name _ _ (pf_nodup _ _ PF) H1) as A.
  pose proof (findk_nodup f_name _ _ (pf_nodup _ _ PF) H2) as B. rewrite Hn in A. congruence.
Qed.

Lemma nodup_mand_keys : NoDup (map dg_field (d_dec_mand d)).
Proof. rewrite (pf_mand _ _ PF). apply NoDup_map_filter, (pf_nodup _ _ PF). Qed.

Lemma dec_group_ok g log rest :
  In g (d_dec_mand d) -> lookup (dg_field g) log = None ->
  dec_group_run d g (log, EE (dg_field g) ++ rest) = Ok ((dg_field g, V (dg_field g)) :: log, rest).
Proof.
  intros Hg Hl.
  assert (Hk : In (dg_field g) (map f_name mfields)) by (unfold mfields; rewrite <- (pf_mand _ _ PF); now apply in_map).
  apply in_map_iff in Hk as (f & Hfn & Hf). apply filter_In in Hf as [Hf Hopt]. apply negb_true_iff in Hopt.
  destruct (key_env d nf PF m WF f Hf) as (x & v & Hx & Hfx & Hn & Hff & Hfk & Hlm & Hin & Hw).
  destruct (nf_of_field_inv _ _ _ Hfx) as (Hodd & g0 & w & Hg0 & Hgd & Hc).
  rewrite Hopt in Hc. destruct Hc as (g' & Hg' & Hfmt & ->).
  assert (g' = g).
  { rewrite Hfn in Hg'. unfold find_dg in Hg'. rewrite findk_nodup in Hg'; [congruence|apply nodup_mand_keys|auto]. }
  subst g'. unfold dec_group_run, EE, E, V. rewrite <- Hfn, Hff, Hfk, Hlm, Hodd, Hopt. cbn [is_nil negb].
  rewrite Hfn, Hl.
  eapply mand_roundtrip in Hfmt as [_ Hd]; eauto. rewrite Hd. reflexivity.
Qed.

Lemma dec_groups_ok gs : forall log rest,
  incl gs (d_dec_mand d) -> NoDup (map dg_field gs) ->
  (forall g, In g gs -> lookup (dg_field g) log = None) ->
  dec_groups d gs (log, List.concat (map EE (map dg_field gs)) ++ rest)
  = Ok (rev (map (fun g => (dg_field g, V (dg_field g))) gs) ++ log, rest).
Proof.
  induction gs as [|g gs IH]; intros log rest Hi Hn Hl; cbn [dec_groups map List.concat rev app]; [reflexivity|].
  rewrite <- app_assoc. rewrite dec_group_ok; [|apply Hi; now left|apply Hl; now left]. cbn [bind].
  inversion Hn; subst.
  rewrite IH.
  - now rewrite <- app_assoc.
  - intros a Ha; apply Hi; now right.
  - assumption.
  - intros g' Hg'. cbn [lookup]. destruct (String.eqb (dg_field g') (dg_field g)) eqn:E.
    + apply String.eqb_eq in E. exfalso. apply H1. rewrite <- E. now apply in_map.
    + apply Hl. now right.
Qed.

(* one encoded optional IE *)
Definition ie_chunk (kv:string * fval) : bytes :=
  match findk nf_name (fst kv) nf with Some x => enc_nf x (snd kv) | None => [] end.
Definition good_chunk (kv:string * fval) : Prop :=
  exists f x, In f ofields /\ f_name f = fst kv /\ nf_of_field d f = Some x /\ In x nf /\
              wf_val x (snd kv) = true /\ fv_present (snd kv) = true.

Lemma dec_loop_ok cs : Forall good_chunk cs -> forall fuel log,
  (List.length (List.concat (map ie_chunk cs)) <= fuel)%nat ->
  dec_loop d 128 fuel (log, List.concat (map ie_chunk cs)) = Ok (rev cs ++ log).
Proof.
  induction 1 as [|[k v] cs Hg Hcs IH]; intros fuel log Hfuel.
  - cbn. destruct fuel; reflexivity.
  - destruct Hg as (f & x & Hf & Hk & Hfx & Hx & Hw & Hp). cbn [fst snd] in *. subst k.
    apply filter_In in Hf as [Hf Hopt].
    destruct (nf_of_field_inv _ _ _ Hfx) as (Hodd & g0 & w & Hg0 & Hgd & Hc).
    rewrite Hopt in Hc. destruct Hc as (c & Hcf & Hfmt & Hxe).
    assert (Hfk : findk nf_name (f_name f) nf = Some x).
    { destruct (nf_name_of d _ _ Hfx) as (Hn & _). rewrite <- Hn. apply findk_nodup; [apply (nodup_nf d nf PF)|auto]. }
    cbn [map List.concat] in *. unfold ie_chunk at 1. unfold ie_chunk at 1 in Hfuel. cbn [fst snd] in *. rewrite Hfk in *.
    subst x.
    eapply opt_roundtrip with (rest := List.concat (map ie_chunk cs)) in Hfmt as [_ (ieiN & tail & r' & v0 & He & Hkey & Hr & Hnew & Hrun)];
      eauto; [|apply (pf_iei _ _ PF); auto].
    rewrite He in *. cbn [app List.length] in Hfuel. destruct fuel as [|fuel]; [lia|].
    cbn [app]. cbn [dec_loop snd fst]. rewrite Hkey.
    destruct (findk_in _ _ _ _ Hcf) as [Hcin Hcname].
    rewrite (find_case_nodup _ _ (pf_consts _ _ PF) Hcin).
    unfold run_case. rewrite Hcname.
    replace (find_field (f_name f) (d_fields d)) with (Some f) by (symmetry; apply findk_nodup; [apply (pf_nodup _ _ PF)|auto]).
    rewrite Hodd, Hopt, Hr. cbn [is_nil negb]. rewrite Hnew. cbn [bind]. unfold bytes in *. rewrite Hrun. cbn [bind fst snd].
    rewrite IH by (rewrite app_length in Hfuel; lia).
    cbn [rev]. now rewrite <- app_assoc.
Qed.

(* the optional IEs that are present, in struct order *)
Definition present_opt : list (string * fval) :=
  flat_map (fun f => match lookup (f_name f) m with
                     | Some v => if fv_present v then [(f_name f, v)] else []
                     | None => [] end) ofields.

Lemma present_opt_in kv : In kv present_opt <->
  exists f, In f ofields /\ fst kv = f_name f /\ lookup (f_name f) m = Some (snd kv) /\ fv_present (snd kv) = true.
Proof.
  unfold present_opt. rewrite in_flat_map. split.
  - intros (f & Hf & Hin). exists f. destruct (lookup (f_name f) m) as [v|] eqn:El; [|destruct Hin].
    destruct (fv_present v) eqn:Ep; [|destruct Hin]. destruct Hin as [<-|[]]. auto.
  - intros (f & Hf & Hk & Hl & Hp). exists f. split; auto. rewrite Hl, Hp. left. destruct kv; cbn in *; congruence.
Qed.

Lemma present_opt_good : Forall good_chunk present_opt.
Proof.
  apply Forall_forall. intros kv Hkv. apply present_opt_in in Hkv as (f & Hf & Hk & Hl & Hp).
  pose proof Hf as Hf'. apply filter_In in Hf' as [Hf' _].
  destruct (key_env d nf PF m WF f Hf') as (x & v & Hx & Hfx & Hn & Hff & Hfk & Hlm & Hin & Hw).
  exists f, x. repeat split; auto. congruence.
Qed.

Lemma present_opt_keys_nodup : NoDup (map fst present_opt).
Proof.
  unfold present_opt.
  assert (Hn : NoDup (map f_name ofields)) by (apply NoDup_map_filter, (pf_nodup _ _ PF)).
  revert Hn. generalize ofields. intro l. induction l as [|f l IH]; cbn; [constructor|]. intro Hn. inversion Hn; subst.
  rewrite map_app. destruct (lookup (f_name f) m) as [v|]; [destruct (fv_present v)|]; cbn; auto.
  constructor; auto. intro Hi. apply H1. apply in_map_iff in Hi as ([k v'] & Hk & Hin). cbn in Hk. subst k.
  apply in_flat_map in Hin as (f' & Hf' & Hin). apply in_map_iff. exists f'. split; auto.
  destruct (lookup (f_name f') m) as [v2|]; [destruct (fv_present v2)|]; cbn in Hin; try tauto. destruct Hin as [[= <- _]|[]]. reflexivity.
Qed.

Lemma E_opt_chunks : List.concat (map EE (map f_name ofields)) = List.concat (map ie_chunk present_opt).
Proof.
  unfold present_opt.
  assert (Hs : forall f, In f ofields -> In f ofields) by auto. revert Hs. generalize ofields at 1 3 4.
  intro l. induction l as [|f l IH]; cbn; [reflexivity|]. intro Hs.
  rewrite map_app, concat_app, <- IH by (intros; apply Hs; now right). f_equal.
  assert (Hf : In f (d_fields d)) by (specialize (Hs f (or_introl eq_refl)); apply filter_In in Hs; tauto).
  destruct (key_env d nf PF m WF f Hf) as (x & v & Hx & Hfx & Hn & Hff & Hfk & Hlm & Hin & Hw).
  unfold EE, E. rewrite Hfk, Hlm. destruct (fv_present v) eqn:Ep.
  - cbn. unfold ie_chunk. cbn. rewrite Hfk. now rewrite app_nil_r.
  - unfold enc_nf. now rewrite Ep.
Qed.

Lemma assemble_ok cs :
  Permutation cs present_opt ->
  assemble d (rev cs ++ rev (map (fun g => (dg_field g, V (dg_field g))) (d_dec_mand d)) ++ []) = m.
Proof.
  intro Hperm. rewrite app_nil_r. set (mlog := rev (map _ (d_dec_mand d))).
  rewrite <- (rebuild_by_keys m (nodup_m d nf PF m WF)). rewrite (m_keys d nf PF m WF). unfold assemble.
  rewrite map_map. apply map_ext_in. intros f Hf. f_equal. fold (V (f_name f)).
  destruct (key_env d nf PF m WF f Hf) as (x & v & Hx & Hfx & Hn & Hff & Hfk & Hlm & Hin & Hw).
  assert (HV : V (f_name f) = v) by (unfold V; now rewrite Hlm).
  assert (Hcs_keys : forall k, In k (map fst cs) -> exists f', In f' ofields /\ f_name f' = k).
  { intros k Hk. apply in_map_iff in Hk as (kv & <- & Hkv). apply (Permutation_in _ Hperm) in Hkv.
    apply present_opt_in in Hkv as (f' & ? & ? & _). eauto. }
  assert (Hml_keys : map fst mlog = rev (map f_name mfields)).
  { unfold mlog. rewrite <- map_rev, map_map. cbn [fst]. rewrite map_rev. f_equal. apply (pf_mand _ _ PF). }
  assert (Hnd_cs : NoDup (map fst (rev cs))).
  { rewrite map_rev. apply NoDup_rev. eapply Permutation_NoDup; [|apply present_opt_keys_nodup].
    apply Permutation_map. now apply Permutation_sym. }
  destruct (f_optional f) eqn:Eo.
  - (* optional *)
    assert (Hfo : In f ofields) by (apply filter_In; auto).
    assert (Hnm : lookup (f_name f) mlog = None).
    { apply lookup_none. rewrite Hml_keys. rewrite <- in_rev. intro Hi. apply in_map_iff in Hi as (f' & Hn' & Hf').
      apply filter_In in Hf' as [Hf' Ho']. rewrite (name_inj f' f Hf' Hf Hn') in Ho'. rewrite Eo in Ho'. discriminate. }
    destruct (fv_present v) eqn:Ep.
    + assert (Hi : In (f_name f, v) (rev cs)).
      { rewrite <- in_rev. apply (Permutation_in _ (Permutation_sym Hperm)). apply present_opt_in. exists f. cbn. auto. }
      rewrite (lookup_app_some _ _ _ _ (lookup_nodup _ _ _ Hnd_cs Hi)). congruence.
    + assert (Hnc : lookup (f_name f) (rev cs) = None).
      { apply lookup_none. rewrite map_rev, <- in_rev. intro Hi. apply in_map_iff in Hi as ([k v'] & Hk & Hkv). cbn in Hk. subst k.
        apply (Permutation_in _ Hperm) in Hkv. apply present_opt_in in Hkv as (f' & Hf' & Hk' & Hl' & Hp'). cbn in *.
        apply filter_In in Hf' as [Hf' _]. rewrite <- (name_inj f f' Hf Hf' Hk') in Hl'. congruence. }
      rewrite lookup_app_none, Hnm by assumption. unfold default_val. rewrite Eo, HV.
      unfold wf_val, typed_val in Hw. rewrite Ep in Hw. apply andb_true_iff in Hw as [Hw _]. apply andb_true_iff in Hw as [_ Hw].
      symmetry. now apply eqb_fval_eq.
  - (* mandatory *)
    assert (Hfm : In f mfields) by (apply filter_In; rewrite Eo; auto).
    assert (Hnc : lookup (f_name f) (rev cs) = None).
    { apply lookup_none. rewrite map_rev, <- in_rev. intro Hi. destruct (Hcs_keys _ Hi) as (f' & Hf' & Hn').
      apply filter_In in Hf' as [Hf' Ho']. rewrite (name_inj f' f Hf' Hf Hn') in Ho'. congruence. }
    rewrite lookup_app_none by assumption.
    assert (Hi : In (f_name f, V (f_name f)) mlog).
    { unfold mlog. rewrite <- in_rev. apply in_map_iff.
      assert (Hk : In (f_name f) (map dg_field (d_dec_mand d))) by (rewrite (pf_mand _ _ PF); now apply in_map).
      apply in_map_iff in Hk as (g & Hg & Hgin). exists g. rewrite Hg. auto. }
    assert (Hnd_m : NoDup (map fst mlog)) by (rewrite Hml_keys; apply NoDup_rev, NoDup_map_filter, (pf_nodup _ _ PF)).
    rewrite (lookup_nodup _ _ _ Hnd_m Hi). reflexivity.
Qed.

Theorem nas_decode_perm cs :
  Permutation cs present_opt ->
  nas_decode d (List.concat (map EE (map f_name mfields)) ++ List.concat (map ie_chunk cs)) = Ok m.
Proof.
  intro Hperm. unfold nas_decode. rewrite (pf_odd _ _ PF). cbn [is_nil negb].
  unfold mfields. rewrite <- (pf_mand _ _ PF).
  rewrite dec_groups_ok; [|apply incl_refl|apply nodup_mand_keys|reflexivity].
  cbn [bind]. rewrite (pf_loop _ _ PF). cbn [snd fst].
  rewrite dec_loop_ok; [|eapply Permutation_Forall; [apply Permutation_sym, Hperm|apply present_opt_good]|lia].
  cbn [bind]. f_equal. now apply assemble_ok.
Qed.

Theorem nas_encode_split :
  nas_encode d m = Ok (List.concat (map EE (map f_name mfields)) ++ List.concat (map ie_chunk present_opt)).
Proof.
  rewrite (nas_encode_ok d nf PF m WF). f_equal. rewrite (field_split d nf PF) at 1.
  rewrite map_app, map_app, concat_app. f_equal. apply E_opt_chunks.
Qed.

End Desc.

(* ---------------------------------------------------------------- the statements of C08, per descriptor *)
(* the mandatory part and the encoded optional IEs (in struct order) of a message *)
Definition mand_part (d:msg_desc) (m:msg) : bytes :=
  match nf_of d with
  | Some nf => List.concat (map (E nf m) (map f_name (filter (fun f => negb (f_optional f)) (d_fields d))))
  | None => [] end.
Definition opt_chunks (d:msg_desc) (m:msg) : list bytes :=
  match nf_of d with Some nf => map (ie_chunk nf) (present_opt d m) | None => [] end.

Lemma wf_msg_inv d m : desc_pair_ok d = true -> wf_msg d m = true ->
  exists nf, pair_facts d nf /\ wf_vals nf m = true /\ nf_of d = Some nf.
Proof.
  intros Hd Hw. destruct (desc_pair_ok_facts d Hd) as (nf & PF). exists nf. split; auto.
  unfold wf_msg in Hw. rewrite (pf_nf_of _ _ PF) in Hw. split; auto. apply (pf_nf_of _ _ PF).
Qed.

Theorem encode_shape d m : desc_pair_ok d = true -> wf_msg d m = true ->
  nas_encode d m = Ok (mand_part d m ++ List.concat (opt_chunks d m)).
Proof.
  intros Hd Hw. destruct (wf_msg_inv d m Hd Hw) as (nf & PF & WF & Hnf).
  unfold mand_part, opt_chunks. rewrite Hnf. apply (nas_encode_split d nf PF m WF).
Qed.

Theorem order_insensitive d m p : desc_pair_ok d = true -> wf_msg d m = true ->
  Permutation p (opt_chunks d m) -> nas_decode d (mand_part d m ++ List.concat p) = Ok m.
Proof.
  intros Hd Hw Hp. destruct (wf_msg_inv d m Hd Hw) as (nf & PF & WF & Hnf).
  unfold mand_part, opt_chunks in *. rewrite Hnf in *.
  apply Permutation_map_inv in Hp as (cs & -> & Hcs).
  apply (nas_decode_perm d nf PF m WF). now apply Permutation_sym.
Qed.

Theorem roundtrip d m : desc_pair_ok d = true -> wf_msg d m = true ->
  bind (nas_encode d m) (nas_decode d) = Ok m.
Proof.
  intros Hd Hw. rewrite (encode_shape d m Hd Hw). cbn [bind]. apply order_insensitive; auto.
Qed.

(* canonical byte strings: the encodings of well-formed messages (mandatory part, then the optional IEs in the
   order of the message table, every length within capacity) *)
Definition canonical (d:msg_desc) (bs:bytes) : Prop := exists m, wf_msg d m = true /\ nas_encode d m = Ok bs.

Theorem reencode d bs : desc_pair_ok d = true -> canonical d bs ->
  bind (nas_decode d bs) (nas_encode d) = Ok bs.
Proof.
  intros Hd (m & Hw & He). pose proof (roundtrip d m Hd Hw) as R. rewrite He in R. cbn [bind] in R. rewrite R. exact He.
Qed.

(* a message whose octets after Len are not zero is not reproduced: the clause of wf_msg is needed *)
