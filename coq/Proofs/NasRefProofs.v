(* C09, generic part: when the library's normal form of a message agrees field by field with a TS 24.501 table
   ([layout_strict]), the reference parser of Spec/TS24501.v reads from the library's encoding exactly the values the
   message carries ([ref_parse_reads_lib]), and the library decodes what the reference encoder builds
   ([lib_reads_ref]).  Nothing here depends on the generated descriptors or on the contents of the tables. *)
From Coq Require Import NArith ZArith PeanoNat List Bool String Lia Permutation.
From Coq Require Import ZifyN ZifyNat ZifyBool.
Require Import Bytes NasValue NasCodec NasDesc NasCorr TS24501Tables TS24501 NasLayout NasCodecProofs.
Import ListNotations.
Open Scope list_scope.
Open Scope N_scope.
Ltac Zify.zify_post_hook ::= Z.div_mod_to_equations.

(* what the format of a field says about its Go type (true of every row of a normal form) *)
Definition fmt_of_type_ok (t:ie_type) (w:wire_fmt) : bool :=
  Nat.eqb (w_lenw w) (t_lenw t) &&
  match w_body w with
  | WFixed n => match fixed_size t with Some k => Nat.eqb k n | None => false end
  | WBuf => match t_body t with BBuffer => true | _ => false end
  | WUpto n => match t_body t with BArray k => Nat.eqb k n | _ => false end
  end &&
  (if w_half w then negb (t_has_iei t) && w_tag w && Nat.eqb (t_lenw t) 0 && match t_body t with BOctet => true | _ => false end
   else if w_tag w then t_has_iei t else true) &&
  match t_lenw t with 0%nat | 1%nat | 2%nat => true | _ => false end.

Lemma mand_fmt_type_ok t e r w : mand_fmt t e r = Some w -> fmt_of_type_ok t w = true /\ w_tag w = false /\ w_half w = false.
Proof.
  destruct t as [nm hi lw bd al nw odd]. unfold mand_fmt, fmt_of_type_ok, fixed_size, lenw_ok. cbn [t_lenw t_body t_setlen_allocs t_has_iei].
  destruct (eqb_list eqb_wr e [WBody] && eqb_list eqb_rd r [RBody] && Nat.eqb lw 0) eqn:E1.
  - apply andb_true_iff in E1 as [_ Ec]. apply Nat.eqb_eq in Ec. subst lw.
    destruct bd; intros [= <-]; cbn; rewrite ?Nat.eqb_refl; auto.
  - destruct (eqb_list eqb_wr e [WLen; WBody] && eqb_list eqb_rd r [RLenField; RSetLen; RBody] &&
              match lw with 1%nat | 2%nat => true | _ => false end) eqn:E2; [|discriminate].
    apply andb_true_iff in E2 as [_ Ec].
    assert (Hlw : lw = 1%nat \/ lw = 2%nat) by (destruct lw as [|[|[|?]]]; try discriminate; auto).
    destruct bd; try discriminate; destruct al; try discriminate; intros [= <-]; destruct Hlw; subst lw; cbn; rewrite ?Nat.eqb_refl; auto.
Qed.

Lemma opt_fmt_type_ok t e r w : opt_fmt t e r = Some w -> fmt_of_type_ok t w = true /\ w_tag w = true.
Proof.
  destruct t as [nm hi lw bd al nw odd]. unfold opt_fmt, fmt_of_type_ok, fixed_size, lenw_ok. cbn [t_lenw t_body t_setlen_allocs t_has_iei t_new].
  destruct nw; try discriminate.
  - destruct hi; [|discriminate]. cbn [negb].
    destruct (eqb_list eqb_wr e [WIei; WBody] && eqb_list eqb_rd r [RNew; RBody] && Nat.eqb lw 0) eqn:E1.
    { apply andb_true_iff in E1 as [_ Ec]. apply Nat.eqb_eq in Ec. subst lw.
      destruct bd; intros [= <-]; cbn; rewrite ?Nat.eqb_refl; auto. }
    destruct (match lw with 1%nat | 2%nat => true | _ => false end) eqn:Elw; [|discriminate]. cbn [negb].
    assert (Hlw : lw = 1%nat \/ lw = 2%nat) by (destruct lw as [|[|[|?]]]; try discriminate; auto).
    destruct (eqb_list eqb_wr e [WIei; WLen; WBody] && eqb_list eqb_rd r [RNew; RLenField; RSetLen; RBody]).
    { destruct al; [discriminate|]. destruct bd; intros [= <-]; destruct Hlw; subst lw; cbn; rewrite ?Nat.eqb_refl; auto. }
    destruct (eqb_list eqb_wr e [WIei; WLen; WBody] && eqb_list eqb_rd r [RNew; RLenField; RSetLen; RBodyUptoLen]).
    { destruct bd; try discriminate. destruct al; [|discriminate]. intros [= <-]; destruct Hlw; subst lw; cbn; auto. }
    destruct (eqb_list eqb_wr e [WIei; WLen; WBodyUptoLen] && eqb_list eqb_rd r [RNew; RLenField; RSetLen; RBodyUptoLen]); [|discriminate].
    destruct bd; try discriminate. destruct al; [discriminate|]. intros [= <-]; destruct Hlw; subst lw; cbn; rewrite ?Nat.eqb_refl; auto.
  - destruct (eqb_list eqb_wr e [WBody] && eqb_list eqb_rd r [RNew; ROctetIsIei] && negb hi && Nat.eqb lw 0) eqn:E1; [|discriminate].
    apply andb_true_iff in E1 as [E1 Ec]. apply andb_true_iff in E1 as [_ Eh]. apply Nat.eqb_eq in Ec. apply negb_true_iff in Eh. subst.
    destruct bd; try discriminate. intros [= <-]. cbn. auto.
Qed.

Lemma nf_row_type_ok d f x : nf_of_field d f = Some x ->
  fmt_of_type_ok (nf_type x) (nf_fmt x) = true /\ w_tag (nf_fmt x) = nf_opt x /\ (nf_opt x = false -> w_half (nf_fmt x) = false).
Proof.
  intro H. destruct (nf_of_field_inv _ _ _ H) as (_ & g & w & _ & _ & Hc).
  destruct (f_optional f).
  - destruct Hc as (c & _ & Hf & ->). destruct (opt_fmt_type_ok _ _ _ _ Hf). cbn. repeat split; auto. discriminate.
  - destruct Hc as (g' & _ & Hf & ->). destruct (mand_fmt_type_ok _ _ _ _ Hf) as (? & ? & ?). cbn. auto.
Qed.

Lemma split_at_app n (a rest:bytes) : N.of_nat (List.length a) = n -> split_at n (a ++ rest) = Some (a, rest).
Proof.
  intro H. unfold split_at. rewrite app_length.
  replace (n <=? N.of_nat (List.length a + List.length rest)) with true by (symmetry; apply N.leb_le; lia).
  replace (N.to_nat n) with (List.length a) by lia.
  rewrite firstn_app, Nat.sub_diag, firstn_all, skipn_app, Nat.sub_diag, skipn_all. cbn. now rewrite app_nil_r.
Qed.

Ltac split_andb :=
  repeat match goal with H : _ && _ = true |- _ => apply andb_true_iff in H as [? ?] end.
Ltac boolfacts :=
  repeat match goal with
  | H : Nat.eqb _ _ = true |- _ => apply Nat.eqb_eq in H
  | H : N.eqb _ _ = true |- _ => apply N.eqb_eq in H
  | H : N.ltb _ _ = true |- _ => apply N.ltb_lt in H
  | H : N.leb _ _ = true |- _ => apply N.leb_le in H
  | H : negb _ = true |- _ => apply negb_true_iff in H
  | H : Bool.eqb _ _ = true |- _ => apply Bool.eqb_prop in H
  end.

Lemma len2_split l : l < 65536 -> l / 256 * 256 + l mod 256 = l.
Proof. intro H. lia. Qed.

(* the reference parser reads a mandatory field written by the library *)
Lemma ref_reads_mand x u v rest :
  nf_opt x = false -> w_tag (nf_fmt x) = false -> w_half (nf_fmt x) = false ->
  fmt_of_type_ok (nf_type x) (nf_fmt x) = true ->
  fmt_conforms (nf_fmt x) (u_kind u) = true ->
  wf_val x v = true -> strict_val x v = true -> in_bounds u v = true ->
  ref_parse_value u 0 (enc_nf x v ++ rest) = Ok (ref_view x v, rest).
Proof.
  destruct x as [k t o c w]. destruct w as [tag half lw body]. destruct t as [nm hi tlw bd al nw odd]. destruct v as [p i l b].
  destruct u as [ui un uk uu].
  unfold fmt_of_type_ok, fmt_conforms, wf_val, typed_val, strict_val, in_bounds, ref_parse_value, enc_nf, ref_view, sent_body, fixed_size.
  cbn [nf_opt nf_fmt nf_type nf_iei w_tag w_half w_lenw w_body t_lenw t_body t_has_iei fv_present fv_iei fv_len fv_body u_kind u_iei].
  intros -> -> -> Ht Hc Hw Hs Hb.
  destruct p; [|cbn in Hw; discriminate]. cbn [app].
  apply andb_true_iff in Ht as [Ht Ht4]. apply andb_true_iff in Ht as [Ht _]. apply andb_true_iff in Ht as [Ht1 Ht2].
  apply Nat.eqb_eq in Ht1. subst tlw.
  apply andb_true_iff in Hw as [Hty Hw2]. apply andb_true_iff in Hty as [Hty Hoct]. apply andb_true_iff in Hty as [Hty Hbody].
  apply andb_true_iff in Hty as [_ Hlen]. apply andb_true_iff in Hw2 as [_ Hw2].
  destruct uk as [n|ulw lo uhi| |n|ulw lo uhi]; cbn [negb andb] in Hc; try discriminate.
  - (* V *)
    apply andb_true_iff in Hc as [Hc1 Hc2]. apply Nat.eqb_eq in Hc1. subst lw.
    destruct body as [m| |m]; try discriminate. apply N.eqb_eq in Hc2. cbn [len_bytes app].
    apply N.eqb_eq in Hlen. subst l.
    assert (Hl : N.of_nat (List.length b) = n).
    { destruct bd; try discriminate; boolfacts; lia. }
    rewrite split_at_app by assumption. reflexivity.
  - (* LV *)
    apply andb_true_iff in Hc as [Hc Hc3]. apply andb_true_iff in Hc as [Hc1 Hc2]. apply Nat.eqb_eq in Hc1. subst ulw.
    assert (Hlw : lw = 1%nat \/ lw = 2%nat) by (apply orb_true_iff in Hc2 as [E|E]; apply Nat.eqb_eq in E; auto).
    assert (Hsent : N.of_nat (List.length (match body with WUpto _ => firstn (N.to_nat l) b | _ => b end)) = l).
    { destruct body as [m| |m].
      - destruct Hlw; subst lw; cbn in Hs; apply N.eqb_eq in Hs; destruct bd; try discriminate; boolfacts; lia.
      - apply N.eqb_eq in Hw2. lia.
      - apply andb_true_iff in Hw2 as [Hw2 _]. apply N.leb_le in Hw2. rewrite firstn_length. destruct bd; try discriminate. boolfacts. lia. }
    destruct Hlw; subst lw; cbn [len_bytes app read_len].
    + rewrite split_at_app by assumption. rewrite Hb. reflexivity.
    + apply N.ltb_lt in Hlen. rewrite len2_split by assumption.
      rewrite split_at_app by assumption. rewrite Hb. reflexivity.
Qed.

(* the reference parser recognises and reads an optional IE written by the library *)
Lemma ref_reads_opt x u v rest :
  nf_opt x = true -> w_tag (nf_fmt x) = true ->
  fmt_of_type_ok (nf_type x) (nf_fmt x) = true ->
  fmt_conforms (nf_fmt x) (u_kind u) = true -> same_ie x u = true -> iei_ok 128 x = true ->
  wf_val x v = true -> fv_present v = true -> strict_val x v = true -> in_bounds u v = true ->
  exists iei tail, enc_nf x v = iei :: tail /\ unit_matches iei u = true /\
    ref_parse_value u iei (tail ++ rest) = Ok (ref_view x v, rest).
Proof.
  destruct x as [k t o c w]. destruct w as [tag half lw body]. destruct t as [nm hi tlw bd al nw odd]. destruct v as [p i l b].
  destruct u as [ui un uk uu].
  unfold fmt_of_type_ok, fmt_conforms, same_ie, is_half_unit, iei_ok, wf_val, typed_val, strict_val, in_bounds, ref_parse_value,
    unit_matches, enc_nf, ref_view, sent_body, fixed_size.
  cbn [nf_opt nf_fmt nf_type nf_iei w_tag w_half w_lenw w_body t_lenw t_body t_has_iei fv_present fv_iei fv_len fv_body u_kind u_iei].
  intros -> -> Ht Hc Hsame Hiei Hw -> Hs Hb.
  apply andb_true_iff in Hsame as [Hs1 Hs2]. apply N.eqb_eq in Hs1. subst ui. apply Bool.eqb_prop in Hs2.
  apply andb_true_iff in Ht as [Ht Ht4]. apply andb_true_iff in Ht as [Ht Ht3]. apply andb_true_iff in Ht as [Ht1 Ht2].
  apply Nat.eqb_eq in Ht1. subst tlw.
  apply andb_true_iff in Hw as [Hty Hw2]. apply andb_true_iff in Hty as [Hty Hoct]. apply andb_true_iff in Hty as [Hty Hbody].
  apply andb_true_iff in Hty as [Hi Hlen]. apply andb_true_iff in Hw2 as [Hwi Hw2].
  destruct uk as [n|ulw lo uhi| |n|ulw lo uhi]; cbn [negb andb] in Hc; try discriminate.
  - (* half octet *)
    cbn in Hs2. subst half.
    apply andb_true_iff in Ht3 as [Ht3 Hbd]. apply andb_true_iff in Ht3 as [Ht3 Hlw0]. apply andb_true_iff in Ht3 as [Hhi _].
    apply negb_true_iff in Hhi. subst hi. apply Nat.eqb_eq in Hlw0. subst lw.
    destruct bd; try discriminate. apply Nat.eqb_eq in Hbody.
    destruct b as [|ob [|? ?]]; try discriminate. apply N.eqb_eq in Hwi. apply N.eqb_eq in Hlen. apply N.eqb_eq in Hi. subst l i.
    apply andb_true_iff in Hiei as [Hlo Hhi]. apply N.leb_le in Hlo. apply N.ltb_lt in Hhi.
    cbn [octets_ok forallb] in Hoct. apply andb_true_iff in Hoct as [Hob _]. apply N.ltb_lt in Hob.
    exists ob, []. split; [reflexivity|]. split.
    + replace (128 <=? ob) with true by (symmetry; apply N.leb_le; lia). rewrite Hwi, N.eqb_refl. reflexivity.
    + subst c. destruct body; try discriminate. reflexivity.
  - (* TV *)
    cbn in Hs2. subst half. cbn [negb andb] in Hc.
    apply andb_true_iff in Hc as [Hc1 Hc2]. apply Nat.eqb_eq in Hc1. subst lw.
    destruct body as [m| |m]; try discriminate. apply N.eqb_eq in Hc2. cbn [len_bytes app].
    cbn in Ht3. subst hi. apply N.eqb_eq in Hwi. subst i. apply N.eqb_eq in Hlen. subst l.
    apply N.ltb_lt in Hiei.
    assert (Hl : N.of_nat (List.length b) = n).
    { destruct bd; try discriminate; boolfacts; lia. }
    exists c, b. split; [reflexivity|]. split.
    + replace (c <? 128) with true by (symmetry; apply N.ltb_lt; lia). now rewrite N.eqb_refl.
    + rewrite split_at_app by assumption. reflexivity.
  - (* TLV *)
    cbn in Hs2. subst half. cbn [negb andb] in Hc.
    apply andb_true_iff in Hc as [Hc Hc3]. apply andb_true_iff in Hc as [Hc1 Hc2]. apply Nat.eqb_eq in Hc1. subst ulw.
    assert (Hlw : lw = 1%nat \/ lw = 2%nat) by (apply orb_true_iff in Hc2 as [E|E]; apply Nat.eqb_eq in E; auto).
    cbn in Ht3. subst hi. apply N.eqb_eq in Hwi. subst i. apply N.ltb_lt in Hiei.
    assert (Hsent : N.of_nat (List.length (match body with WUpto _ => firstn (N.to_nat l) b | _ => b end)) = l).
    { destruct body as [m| |m].
      - destruct Hlw; subst lw; cbn in Hs; apply N.eqb_eq in Hs; destruct bd; try discriminate; boolfacts; lia.
      - apply N.eqb_eq in Hw2. lia.
      - apply andb_true_iff in Hw2 as [Hw2 _]. apply N.leb_le in Hw2. rewrite firstn_length. destruct bd; try discriminate. boolfacts. lia. }
    exists c. eexists. split; [cbn [app]; reflexivity|]. split.
    + replace (c <? 128) with true by (symmetry; apply N.ltb_lt; lia). now rewrite N.eqb_refl.
    + destruct Hlw; subst lw; cbn [len_bytes app read_len].
      * rewrite split_at_app by assumption. rewrite Hb. reflexivity.
      * apply N.ltb_lt in Hlen. rewrite len2_split by assumption.
        rewrite split_at_app by assumption. rewrite Hb. reflexivity.
Qed.

Lemma units_conform_combine opt xs us : units_conform opt xs us = true ->
  List.length xs = List.length us /\
  forall x u, In (x, u) (combine xs us) -> fmt_conforms (nf_fmt x) (u_kind u) = true /\ (opt = true -> same_ie x u = true).
Proof.
  revert us; induction xs as [|x xs IH]; intros [|u us]; cbn; try discriminate.
  - intros _. split; auto.
  - intro H. apply andb_true_iff in H as [H H3]. apply andb_true_iff in H as [H1 H2]. destruct (IH _ H3) as [Hl Hc].
    split; [lia|]. intros x' u' [[= <- <-]|Hi]; [|auto]. split; auto. intros ->. exact H2.
Qed.

Lemma vals_conform_combine xs us (f:nf_field -> fval) : vals_conform xs us (map f xs) = true ->
  forall x u, In (x, u) (combine xs us) -> strict_val x (f x) = true /\ in_bounds u (f x) = true.
Proof.
  revert us; induction xs as [|x xs IH]; intros [|u us]; cbn; try discriminate; try tauto.
  intro H. apply andb_true_iff in H as [H H3]. apply andb_true_iff in H as [H1 H2].
  intros x' u' [[= <- <-]|Hi]; [auto|]. eapply IH; eauto.
Qed.

Lemma Forall2_filter {A B} (R:A -> B -> Prop) p q l1 l2 :
  Forall2 R l1 l2 -> (forall a b, R a b -> p a = q b) -> Forall2 R (filter p l1) (filter q l2).
Proof.
  induction 1; cbn; intros Hpq; [constructor|]. rewrite (Hpq _ _ H). destruct (q y); auto.
Qed.

Lemma lookupK_nodup k (l:list (N * fval)) v : NoDup (map fst l) -> In (k, v) l -> lookupK k l = Some v.
Proof.
  induction l as [|[k' v'] l IH]; cbn; [tauto|]. intros Hn [[= -> ->]|Hi].
  - now rewrite N.eqb_refl.
  - inversion Hn; subst. destruct (k =? k') eqn:E; [|auto]. apply N.eqb_eq in E. subst k'.
    exfalso. apply H1. change k with (fst (k, v)). now apply in_map.
Qed.
Lemma lookupK_none k (l:list (N * fval)) : ~ In k (map fst l) -> lookupK k l = None.
Proof.
  induction l as [|[k' v'] l IH]; cbn; [auto|]. intro H.
  destruct (k =? k') eqn:E; [apply N.eqb_eq in E; exfalso; auto | apply IH; tauto].
Qed.

Lemma nodupN_NoDup l : nodupN l = true -> NoDup l.
Proof.
  induction l as [|x l IH]; cbn; [constructor|]. intro H. apply andb_true_iff in H as [H1 H2].
  constructor; auto. intro Hi. apply negb_true_iff in H1.
  assert (existsb (N.eqb x) l = true) by (apply existsb_exists; exists x; split; auto; apply N.eqb_refl). congruence.
Qed.

(* an IEI octet selects at most one row: rows matching the same octet have the same key *)
Lemma unit_matches_key iei u u' : unit_matches iei u = true -> unit_matches iei u' = true -> unit_key u = unit_key u'.
Proof.
  unfold unit_matches, unit_key. destruct (u_kind u), (u_kind u'); intros H1 H2;
    apply andb_true_iff in H1 as [A1 B1]; apply andb_true_iff in H2 as [A2 B2];
    apply N.eqb_eq in B1; apply N.eqb_eq in B2; try congruence;
    (apply N.leb_le in A1 || apply N.ltb_lt in A1); (apply N.leb_le in A2 || apply N.ltb_lt in A2); lia.
Qed.
Lemma key_unique (us:list unit_row) a b : NoDup (map unit_key us) -> In a us -> In b us -> unit_key a = unit_key b -> a = b.
Proof.
  induction us as [|x us IH]; cbn; [tauto|]. intros Hn Ha Hb He. inversion Hn; subst.
  destruct Ha as [->|Ha], Hb as [->|Hb]; auto.
  - exfalso. apply H1. rewrite He. now apply in_map.
  - exfalso. apply H1. rewrite <- He. now apply in_map.
Qed.
Lemma find_unit us iei u : NoDup (map unit_key us) -> In u us -> unit_matches iei u = true -> find (unit_matches iei) us = Some u.
Proof.
  intros Hn Hi Hm. destruct (find (unit_matches iei) us) as [u'|] eqn:E.
  - apply find_some in E as [Hi' Hm']. f_equal. eapply key_unique; eauto. eapply unit_matches_key; eauto.
  - exfalso. pose proof (find_none _ _ E _ Hi). congruence.
Qed.

Section RefReadsLib.
Variable d : msg_desc.
Variable nf : list nf_field.
Hypothesis PF : pair_facts d nf.
Variable m : msg.
Hypothesis WF : wf_vals nf m = true.

(* everything known about one row of the normal form *)
Lemma row_env x : In x nf ->
  findk nf_name (nf_name x) nf = Some x /\ lookup (nf_name x) m = Some (field_val m x) /\
  wf_val x (field_val m x) = true /\ iei_ok 128 x = true /\
  fmt_of_type_ok (nf_type x) (nf_fmt x) = true /\ w_tag (nf_fmt x) = nf_opt x /\ (nf_opt x = false -> w_half (nf_fmt x) = false) /\
  E nf m (nf_name x) = enc_nf x (field_val m x).
Proof.
  intro Hx. destruct (Forall2_in_r _ _ _ _ (pf_nf _ _ PF) Hx) as (f & Hf & Hfx).
  destruct (key_env d nf PF m WF f Hf) as (x' & v & Hx' & Hfx' & Hn & Hff & Hfk & Hlm & Hin & Hw).
  assert (x' = x) by congruence. subst x'.
  destruct (nf_row_type_ok _ _ _ Hfx) as (T1 & T2 & T3).
  assert (Hfv : field_val m x = v) by (unfold field_val; rewrite Hn, Hlm; reflexivity).
  rewrite Hfv. rewrite Hn. repeat split; auto.
  - apply (pf_iei _ _ PF); auto.
  - unfold E. now rewrite Hfk, Hlm.
Qed.

Lemma ref_mand_ok ps : forall rest,
  (forall x u, In (x, u) ps -> In x nf /\ nf_opt x = false /\ fmt_conforms (nf_fmt x) (u_kind u) = true /\
                              strict_val x (field_val m x) = true /\ in_bounds u (field_val m x) = true) ->
  ref_parse_mand (map snd ps) (List.concat (map (fun xu => E nf m (nf_name (fst xu))) ps) ++ rest)
  = Ok (map (fun xu => ref_view (fst xu) (field_val m (fst xu))) ps, rest).
Proof.
  induction ps as [|[x u] ps IH]; intros rest H; cbn [map List.concat ref_parse_mand fst snd app]; [reflexivity|].
  destruct (H x u (or_introl eq_refl)) as (Hx & Ho & Hc & Hs & Hb).
  destruct (row_env x Hx) as (_ & _ & Hw & _ & T1 & T2 & T3 & HE).
  rewrite HE, <- app_assoc.
  rewrite (ref_reads_mand x u (field_val m x)); auto; [|congruence]. cbn [bind fst snd].
  rewrite IH by (intros; apply H; now right). reflexivity.
Qed.

Definition entries (ps:list (nf_field * unit_row)) : list (N * fval) :=
  flat_map (fun xu => if fv_present (field_val m (fst xu)) then [(unit_key (snd xu), ref_view (fst xu) (field_val m (fst xu)))] else []) ps.

Lemma entries_keys ps k : In k (map fst (entries ps)) -> In k (map (fun xu => unit_key (snd xu)) ps).
Proof.
  unfold entries. rewrite in_map_iff. intros ([k' v] & <- & Hi). apply in_flat_map in Hi as ([x u] & Hxu & Hi).
  cbn [fst snd] in Hi. destruct (fv_present (field_val m x)); [|destruct Hi]. destruct Hi as [[= <- <-]|[]].
  apply in_map_iff. exists (x, u). auto.
Qed.

Lemma ref_opt_ok (ou:list unit_row) ps : NoDup (map unit_key ou) -> forall fuel log,
  (forall x u, In (x, u) ps -> In x nf /\ In u ou /\ nf_opt x = true /\ fmt_conforms (nf_fmt x) (u_kind u) = true /\ same_ie x u = true /\
                              strict_val x (field_val m x) = true /\ in_bounds u (field_val m x) = true) ->
  NoDup (map (fun xu => unit_key (snd xu)) ps) ->
  (forall x u, In (x, u) ps -> lookupK (unit_key u) log = None) ->
  (List.length (List.concat (map (fun xu => E nf m (nf_name (fst xu))) ps)) <= fuel)%nat ->
  ref_parse_opt fuel ou log (List.concat (map (fun xu => E nf m (nf_name (fst xu))) ps)) = Ok (rev (entries ps) ++ log).
Proof.
  intro Hou. induction ps as [|[x u] ps IH]; intros fuel log H Hnd Hlog Hfuel.
  - cbn. destruct fuel; reflexivity.
  - cbn [map List.concat fst snd] in *.
    destruct (H x u (or_introl eq_refl)) as (Hx & Hu & Ho & Hc & Hsame & Hs & Hb).
    destruct (row_env x Hx) as (_ & _ & Hw & Hiei & T1 & T2 & T3 & HE).
    inversion Hnd; subst.
    assert (Htail : forall x' u', In (x', u') ps -> lookupK (unit_key u') log = None) by (intros; eapply Hlog; right; eauto).
    unfold entries. cbn [flat_map fst snd]. fold (entries ps).
    rewrite HE in *. destruct (fv_present (field_val m x)) eqn:Ep.
    + destruct (ref_reads_opt x u (field_val m x) (List.concat (map (fun xu => E nf m (nf_name (fst xu))) ps)))
        as (iei & tail & He & Hm & Hp); auto; [congruence|].
      rewrite He in *. cbn [app List.length] in Hfuel. destruct fuel as [|fuel]; [lia|].
      cbn [app ref_parse_opt]. rewrite (find_unit ou iei u Hou Hu Hm). rewrite Hp. cbn [bind fst snd].
      unfold log_first. rewrite (Hlog x u (or_introl eq_refl)).
      rewrite IH; auto.
      * cbn [rev app]. now rewrite <- app_assoc.
      * intros; apply H; now right.
      * intros x' u' Hi. cbn [lookupK]. destruct (unit_key u' =? unit_key u) eqn:Ek; [|eauto].
        apply N.eqb_eq in Ek. exfalso. apply H2. rewrite <- Ek. apply in_map_iff. exists (x', u'). auto.
      * rewrite app_length in Hfuel. lia.
    + unfold enc_nf in *. rewrite Ep in *. cbn [app] in *. apply IH; auto. intros; apply H; now right.
Qed.
End RefReadsLib.

Lemma nodup_map_inj {A B} (f:A -> B) (l:list A) a b : NoDup (map f l) -> In a l -> In b l -> f a = f b -> a = b.
Proof.
  induction l as [|x l IH]; cbn; [tauto|]. intros Hn Ha Hb He. inversion Hn; subst.
  destruct Ha as [->|Ha], Hb as [->|Hb]; auto.
  - exfalso. apply H1. rewrite He. now apply in_map.
  - exfalso. apply H1. rewrite <- He. now apply in_map.
Qed.

Lemma combine_fst_snd {A B} (l:list A) (l':list B) : List.length l = List.length l' ->
  map fst (combine l l') = l /\ map snd (combine l l') = l'.
Proof.
  revert l'; induction l as [|a l IH]; intros [|b l']; cbn; try discriminate; auto.
  intros [= H]. destruct (IH _ H) as [-> ->]. auto.
Qed.

Fixpoint flags_sorted (l:list bool) : bool :=
  match l with [] => true | b :: r => if b then forallb (fun x => x) r else flags_sorted r end.
Lemma mand_then_opt_flags l : mand_then_opt l = flags_sorted (map f_optional l).
Proof.
  induction l as [|f l IH]; cbn; auto. destruct (f_optional f); auto.
  clear. induction l as [|g l IH]; cbn; auto. now rewrite IH.
Qed.
Lemma split_by_flag {A} (p:A -> bool) l : flags_sorted (map p l) = true -> l = filter (fun a => negb (p a)) l ++ filter p l.
Proof.
  induction l as [|a l IH]; cbn; auto. destruct (p a) eqn:E; cbn.
  - intro H. assert (A' : filter (fun a => negb (p a)) l = [] /\ filter p l = l).
    { clear -H. induction l as [|g l IH]; cbn; auto. cbn in H. apply andb_true_iff in H as [H1 H2]. rewrite H1. cbn.
      destruct (IH H2) as [-> ->]. auto. }
    destruct A' as [-> ->]. reflexivity.
  - intro H. f_equal. auto.
Qed.

Lemma entries_nodup m ps : NoDup (map (fun xu : nf_field * unit_row => unit_key (snd xu)) ps) -> NoDup (map fst (entries m ps)).
Proof.
  induction ps as [|[x u] ps IH]; cbn; [constructor|]. intro H. inversion H; subst.
  unfold entries. cbn [flat_map fst snd]. fold (entries m ps).
  destruct (fv_present (field_val m x)); cbn; auto. constructor; auto. intro Hi. apply H2. now apply entries_keys in Hi.
Qed.

Theorem ref_parse_reads_lib d t m :
  desc_pair_ok d = true -> wf_msg d m = true -> layout_strict d t = true -> msg_conforms d t m = true ->
  exists bs, nas_encode d m = Ok bs /\ ref_parse t bs = Ok (msg_view d m).
Proof.
  intros Hd Hw Hl Hc. destruct (wf_msg_inv d m Hd Hw) as (nf & PF & WF & Hnf).
  unfold layout_strict in Hl. unfold msg_conforms in Hc. unfold msg_view. rewrite Hnf in *.
  destruct (mand_units (tb_mand t)) as [mu|] eqn:Hmu; [|discriminate].
  destruct (opt_units (tb_opt t)) as [ou|] eqn:Hou; [|discriminate].
  set (mx := filter (fun x => negb (nf_opt x)) nf) in *. set (ox := filter nf_opt nf) in *.
  apply andb_true_iff in Hl as [Hl Htab]. apply andb_true_iff in Hl as [Hum Huo].
  apply andb_true_iff in Hc as [Hvm Hvo].
  destruct (units_conform_combine _ _ _ Hum) as [Hlm Hcm]. destruct (units_conform_combine _ _ _ Huo) as [Hlo Hco].
  pose proof (vals_conform_combine _ _ _ Hvm) as Hsm. pose proof (vals_conform_combine _ _ _ Hvo) as Hso.
  destruct (combine_fst_snd mx mu Hlm) as [Hm1 Hm2]. destruct (combine_fst_snd ox ou Hlo) as [Ho1 Ho2].
  set (pm := combine mx mu) in *. set (po := combine ox ou) in *.
  assert (Hkeys : NoDup (map unit_key ou)).
  { unfold table_ok in Htab. rewrite Hmu, Hou in Htab. apply andb_true_iff in Htab as [Htab _]. now apply nodupN_NoDup. }
  assert (Hsplit : nf = mx ++ ox).
  { apply split_by_flag. rewrite <- (pf_order _ _ PF), mand_then_opt_flags. f_equal.
    symmetry. apply (Forall2_map_eq _ _ _ _ _ (pf_nf _ _ PF)). intros a b Hab. symmetry. now apply (nf_name_of d). }
  exists (List.concat (map (E nf m) (map f_name (d_fields d)))). split; [apply (nas_encode_ok d nf PF m WF)|].
  assert (Hb1 : List.concat (map (E nf m) (map nf_name mx)) = List.concat (map (fun xu : nf_field * unit_row => E nf m (nf_name (fst xu))) pm)).
  { rewrite <- Hm1 at 1. now rewrite !map_map. }
  assert (Hb2 : List.concat (map (E nf m) (map nf_name ox)) = List.concat (map (fun xu : nf_field * unit_row => E nf m (nf_name (fst xu))) po)).
  { rewrite <- Ho1 at 1. now rewrite !map_map. }
  assert (Hr1 : map (fun x => ref_view x (field_val m x)) mx = map (fun xu : nf_field * unit_row => ref_view (fst xu) (field_val m (fst xu))) pm).
  { rewrite <- Hm1 at 1. now rewrite map_map. }
  assert (Hr2 : map (fun x => if fv_present (field_val m x) then ref_view x (field_val m x) else absent) ox
                = map (fun xu : nf_field * unit_row => if fv_present (field_val m (fst xu)) then ref_view (fst xu) (field_val m (fst xu)) else absent) po).
  { rewrite <- Ho1 at 1. now rewrite map_map. }
  rewrite <- (nf_names d nf PF). rewrite Hsplit at 2. rewrite map_app, map_app, concat_app, Hb1, Hb2, Hr1, Hr2.
  unfold ref_parse. rewrite Hmu, Hou. rewrite <- Hm2 at 1.
  rewrite (ref_mand_ok d nf PF m WF pm).
  2:{ intros x u Hi. destruct (Hcm x u Hi) as [Hc1 _]. destruct (Hsm x u Hi) as [Hs1 Hs2].
      assert (Hx : In x mx) by (rewrite <- Hm1; apply in_map_iff; exists (x, u); auto).
      apply filter_In in Hx as [Hx Hopt]. apply negb_true_iff in Hopt. auto 10. }
  cbn [bind fst snd].
  assert (Hpo_keys : NoDup (map (fun xu : nf_field * unit_row => unit_key (snd xu)) po)).
  { rewrite <- (map_map snd unit_key). rewrite Ho2. exact Hkeys. }
  rewrite (ref_opt_ok d nf PF m WF ou po Hkeys); auto.
  2:{ intros x u Hi. destruct (Hco x u Hi) as [Hc1 Hc2]. destruct (Hso x u Hi) as [Hs1 Hs2].
      assert (Hx : In x ox) by (rewrite <- Ho1; apply in_map_iff; exists (x, u); auto).
      assert (Hu : In u ou) by (rewrite <- Ho2; apply in_map_iff; exists (x, u); auto).
      apply filter_In in Hx as [Hx Hopt]. auto 10. }
  cbn [bind]. f_equal. f_equal.
  rewrite app_nil_r. rewrite <- Ho2 at 1. rewrite map_map. apply map_ext_in. intros [x u] Hi. cbn [fst snd].
  assert (Hnd : NoDup (map fst (rev (entries m po)))) by (rewrite map_rev; apply NoDup_rev, entries_nodup, Hpo_keys).
  destruct (fv_present (field_val m x)) eqn:Ep.
  + rewrite (lookupK_nodup _ _ (ref_view x (field_val m x)) Hnd); [reflexivity|].
    rewrite <- in_rev. unfold entries. apply in_flat_map. exists (x, u). split; auto. cbn [fst snd]. rewrite Ep. now left.
  + rewrite lookupK_none; [reflexivity|]. rewrite map_rev, <- in_rev. intro Hk.
    unfold entries in Hk. apply in_map_iff in Hk as ([k v] & Hk & Hin). cbn in Hk. subst k.
    apply in_flat_map in Hin as ([x' u'] & Hi' & Hin). cbn [fst snd] in Hin.
    destruct (fv_present (field_val m x')) eqn:Ep'; [|destruct Hin]. destruct Hin as [[= Hk _]|[]].
    assert ((x', u') = (x, u)) by (eapply (nodup_map_inj (fun xu : nf_field * unit_row => unit_key (snd xu)) po); eauto).
    congruence.
Qed.

(* ================================================================ the other direction *)

(* the library value that carries a reference value: Iei = the constant, Len = the length, a fixed array padded *)
Definition to_lib (x:nf_field) (v:fval) : fval :=
  if fv_present v then
    mk_fval true (if nf_opt x && negb (w_half (nf_fmt x)) then nf_iei x else 0)
            (match w_lenw (nf_fmt x) with O => 0 | _ => N.of_nat (List.length (fv_body v)) end)
            (match w_body (nf_fmt x) with
             | WUpto n => fv_body v ++ zeros (n - List.length (fv_body v))
             | _ => fv_body v end)
  else absent.

Lemma octets_ok_app a b : octets_ok (a ++ b) = octets_ok a && octets_ok b.
Proof. unfold octets_ok. apply forallb_app. Qed.
Lemma octets_ok_zeros n : octets_ok (zeros n) = true.
Proof. induction n; cbn; auto. Qed.
Lemma zeros_all_zero n : forallb (N.eqb 0) (zeros n) = true.
Proof. induction n; cbn; auto. Qed.
Lemma octets_same b : octets_lt256 b = octets_ok b.
Proof. reflexivity. Qed.

Lemma lib_takes_ref_unit x u v bs :
  fmt_of_type_ok (nf_type x) (nf_fmt x) = true -> w_tag (nf_fmt x) = nf_opt x ->
  (nf_opt x = false -> w_half (nf_fmt x) = false /\ nf_iei x = 0) ->
  fmt_conforms (nf_fmt x) (u_kind u) = true -> (nf_opt x = true -> same_ie x u = true) -> iei_ok 128 x = true ->
  fv_present v = true -> ref_enc_unit u v = Ok bs ->
  wf_val x (to_lib x v) = true /\ enc_nf x (to_lib x v) = bs /\ sent_body x (to_lib x v) = fv_body v /\
  fv_present (to_lib x v) = true /\ strict_val x (to_lib x v) = true /\ in_bounds u (to_lib x v) = true.
Proof.
  destruct x as [k t o c w]. destruct w as [tag half lw body]. destruct t as [nm hi tlw bd al nw odd]. destruct v as [p i l b].
  destruct u as [ui un uk uu].
  unfold fmt_of_type_ok, fmt_conforms, same_ie, is_half_unit, iei_ok, wf_val, typed_val, strict_val, in_bounds, ref_enc_unit,
    enc_nf, sent_body, to_lib, fixed_size.
  cbn [nf_opt nf_fmt nf_type nf_iei w_tag w_half w_lenw w_body t_lenw t_body t_has_iei fv_present fv_iei fv_len fv_body u_kind u_iei].
  intros Ht -> Hmand Hc Hsame Hiei -> He.
  cbn [fv_present fv_iei fv_len fv_body].
  apply andb_true_iff in Ht as [Ht Ht4]. apply andb_true_iff in Ht as [Ht Ht3]. apply andb_true_iff in Ht as [Ht1 Ht2].
  apply Nat.eqb_eq in Ht1. subst tlw.
  destruct (octets_lt256 b) eqn:Hoct; cbn [negb] in He; [|discriminate]. change (octets_ok b = true) in Hoct.
  destruct uk as [n|ulw lo uhi| |n|ulw lo uhi].
  - (* V *)
    destruct o; cbn [negb andb] in Hc; [discriminate|]. destruct (Hmand eq_refl) as [-> ->].
    apply andb_true_iff in Hc as [Hc1 Hc2]. apply Nat.eqb_eq in Hc1. subst lw.
    destruct body as [m| |m]; try discriminate. apply N.eqb_eq in Hc2.
    destruct (N.of_nat (List.length b) =? n) eqn:En; [|discriminate]. apply N.eqb_eq in En. injection He as <-.
    cbn [andb negb len_bytes app]. rewrite Hoct.
    assert (Hb : match bd with BOctet => Nat.eqb (List.length b) 1 | BArray n0 => Nat.eqb (List.length b) n0 | BBuffer => true | BNone => is_nil b end = true).
    { destruct bd; try discriminate; boolfacts; apply Nat.eqb_eq; lia. }
    rewrite Hb. destruct hi; cbn; auto 10.
  - (* LV *)
    destruct o; cbn [negb andb] in Hc; [discriminate|]. destruct (Hmand eq_refl) as [-> ->].
    apply andb_true_iff in Hc as [Hc Hc3]. apply andb_true_iff in Hc as [Hc1 Hc2]. apply Nat.eqb_eq in Hc1. subst ulw.
    assert (Hlw : lw = 1%nat \/ lw = 2%nat) by (apply orb_true_iff in Hc2 as [E|E]; apply Nat.eqb_eq in E; auto).
    destruct (within (N.of_nat (List.length b)) lo uhi && (l =? N.of_nat (List.length b)) &&
              (N.of_nat (List.length b) <? (if Nat.eqb lw 1 then 256 else 65536))) eqn:Eok; [|discriminate].
    apply andb_true_iff in Eok as [Eok Elt]. apply andb_true_iff in Eok as [Ewi Eln]. apply N.eqb_eq in Eln. subst l.
    injection He as <-. apply N.ltb_lt in Elt. cbn [andb negb app].
    assert (Hlen : match lw with 1%nat => N.of_nat (List.length b) <? 256 | 2%nat => N.of_nat (List.length b) <? 65536 | _ => N.of_nat (List.length b) =? 0 end = true).
    { destruct Hlw; subst lw; cbn in Elt; apply N.ltb_lt; lia. }
    assert (Hmatch : match lw with O => 0 | S _ => N.of_nat (List.length b) end = N.of_nat (List.length b)) by (destruct Hlw; subst lw; reflexivity).
    rewrite Hmatch, Hlen.
    unfold within in Ewi. apply andb_true_iff in Ewi as [Ew1 Ew2]. apply N.leb_le in Ew1.
    destruct body as [m| |m].
    + apply andb_true_iff in Hc3 as [F1 F2]. apply N.eqb_eq in F1. destruct uhi as [h|]; [|discriminate]. apply N.eqb_eq in F2. apply N.leb_le in Ew2.
      assert (Hm : N.of_nat (List.length b) = N.of_nat m) by lia.
      assert (Hb : match bd with BOctet => Nat.eqb (List.length b) 1 | BArray n0 => Nat.eqb (List.length b) n0 | BBuffer => true | BNone => is_nil b end = true).
      { destruct bd; try discriminate; boolfacts; apply Nat.eqb_eq; lia. }
      rewrite Hb, Hoct. unfold within. replace (lo <=? N.of_nat (List.length b)) with true by (symmetry; apply N.leb_le; lia).
      replace (N.of_nat (List.length b) <=? h) with true by (symmetry; apply N.leb_le; lia).
      destruct Hlw; subst lw; cbn; rewrite ?Hm, ?N.eqb_refl; destruct hi; cbn; auto 10.
    + destruct bd; try discriminate. rewrite Hoct, N.eqb_refl. unfold within.
      replace (lo <=? N.of_nat (List.length b)) with true by (symmetry; apply N.leb_le; lia). rewrite Ew2.
      destruct Hlw; subst lw; cbn; rewrite ?N.eqb_refl; destruct hi; cbn; auto 10.
    + destruct bd as [|kk| |]; try discriminate. apply Nat.eqb_eq in Ht2. subst kk.
      apply andb_true_iff in Hc3 as [F1 F2]. destruct uhi as [h|]; [|discriminate]. apply N.leb_le in F1. apply N.leb_le in Ew2.
      rewrite app_length, zeros_length. replace (Nat.eqb (List.length b + (m - List.length b)) m) with true by (symmetry; apply Nat.eqb_eq; lia).
      rewrite octets_ok_app, Hoct, octets_ok_zeros. replace (N.of_nat (List.length b) <=? N.of_nat m) with true by (symmetry; apply N.leb_le; lia).
      rewrite Nat2N.id, skipn_app, Nat.sub_diag, skipn_all, firstn_app, Nat.sub_diag, firstn_all. cbn [app skipn firstn]. rewrite zeros_all_zero, app_nil_r.
      unfold within. replace (lo <=? N.of_nat (List.length b)) with true by (symmetry; apply N.leb_le; lia).
      replace (N.of_nat (List.length b) <=? h) with true by (symmetry; apply N.leb_le; lia).
      destruct Hlw; subst lw; cbn; rewrite ?N.eqb_refl; destruct hi; cbn; auto 10.
  - (* TV half *)
    apply andb_true_iff in Hc as [Hc1 Hc2]. cbn in Hc1, Hc2. subst o half. cbn [andb negb].
    specialize (Hsame eq_refl). apply andb_true_iff in Hsame as [Hs1 _]. apply N.eqb_eq in Hs1. subst ui.
    apply andb_true_iff in Ht3 as [Ht3 Hbd]. apply andb_true_iff in Ht3 as [Ht3 Hlw0]. apply andb_true_iff in Ht3 as [Hhi _].
    apply negb_true_iff in Hhi. subst hi. apply Nat.eqb_eq in Hlw0. subst lw.
    destruct bd; try discriminate. destruct body as [m| |m]; try discriminate. apply Nat.eqb_eq in Ht2. subst m.
    destruct b as [|ob [|? ?]]; try discriminate.
    destruct ((ob / 16 =? c) && (i =? c)) eqn:Eok; [|discriminate]. apply andb_true_iff in Eok as [E1 E2].
    injection He as <-. cbn [List.length Nat.eqb andb]. rewrite Hoct, E1. cbn. auto 10.
  - (* TV *)
    apply andb_true_iff in Hc as [Hc Hc3]. apply andb_true_iff in Hc as [Hc Hc2]. apply andb_true_iff in Hc as [Hc0 Hc1].
    cbn in Hc0. subst o. apply negb_true_iff in Hc1. subst half. apply Nat.eqb_eq in Hc2. subst lw. cbn [andb negb].
    specialize (Hsame eq_refl). apply andb_true_iff in Hsame as [Hs1 _]. apply N.eqb_eq in Hs1. subst ui.
    cbn in Ht3. subst hi. apply N.ltb_lt in Hiei.
    destruct body as [m| |m]; try discriminate. apply N.eqb_eq in Hc3.
    destruct ((N.of_nat (List.length b) =? n) && (i =? c)) eqn:Eok; [|discriminate]. apply andb_true_iff in Eok as [E1 E2]. apply N.eqb_eq in E1.
    injection He as <-. cbn [len_bytes app].
    assert (Hb : match bd with BOctet => Nat.eqb (List.length b) 1 | BArray n0 => Nat.eqb (List.length b) n0 | BBuffer => true | BNone => is_nil b end = true).
    { destruct bd; try discriminate; boolfacts; apply Nat.eqb_eq; lia. }
    rewrite Hb, Hoct, N.eqb_refl. replace (c <? 256) with true by (symmetry; apply N.ltb_lt; lia). cbn. rewrite ?N.eqb_refl. cbn. auto 10.
  - (* TLV *)
    apply andb_true_iff in Hc as [Hc Hc4]. apply andb_true_iff in Hc as [Hc Hc3]. apply andb_true_iff in Hc as [Hc Hc2]. apply andb_true_iff in Hc as [Hc0 Hc1].
    cbn in Hc0. subst o. apply negb_true_iff in Hc1. subst half. apply Nat.eqb_eq in Hc2. subst ulw. cbn [andb negb].
    specialize (Hsame eq_refl). apply andb_true_iff in Hsame as [Hs1 _]. apply N.eqb_eq in Hs1. subst ui.
    cbn in Ht3. subst hi. apply N.ltb_lt in Hiei.
    assert (Hlw : lw = 1%nat \/ lw = 2%nat) by (apply orb_true_iff in Hc3 as [E|E]; apply Nat.eqb_eq in E; auto).
    destruct (within (N.of_nat (List.length b)) lo uhi && (l =? N.of_nat (List.length b)) && (i =? c) &&
              (N.of_nat (List.length b) <? (if Nat.eqb lw 1 then 256 else 65536))) eqn:Eok; [|discriminate].
    apply andb_true_iff in Eok as [Eok Elt]. apply andb_true_iff in Eok as [Eok Eiei]. apply andb_true_iff in Eok as [Ewi Eln].
    apply N.eqb_eq in Eln. subst l. injection He as <-. apply N.ltb_lt in Elt. cbn [app].
    assert (Hlen : match lw with 1%nat => N.of_nat (List.length b) <? 256 | 2%nat => N.of_nat (List.length b) <? 65536 | _ => N.of_nat (List.length b) =? 0 end = true).
    { destruct Hlw; subst lw; cbn in Elt; apply N.ltb_lt; lia. }
    assert (Hmatch : match lw with O => 0 | S _ => N.of_nat (List.length b) end = N.of_nat (List.length b)) by (destruct Hlw; subst lw; reflexivity).
    rewrite Hmatch, Hlen. replace (c <? 256) with true by (symmetry; apply N.ltb_lt; lia). rewrite N.eqb_refl. cbn [andb].
    unfold within in Ewi. apply andb_true_iff in Ewi as [Ew1 Ew2]. apply N.leb_le in Ew1.
    destruct body as [m| |m].
    + apply andb_true_iff in Hc4 as [F1 F2]. apply N.eqb_eq in F1. destruct uhi as [h|]; [|discriminate]. apply N.eqb_eq in F2. apply N.leb_le in Ew2.
      assert (Hm : N.of_nat (List.length b) = N.of_nat m) by lia.
      assert (Hb : match bd with BOctet => Nat.eqb (List.length b) 1 | BArray n0 => Nat.eqb (List.length b) n0 | BBuffer => true | BNone => is_nil b end = true).
      { destruct bd; try discriminate; boolfacts; apply Nat.eqb_eq; lia. }
      rewrite Hb, Hoct. unfold within. replace (lo <=? N.of_nat (List.length b)) with true by (symmetry; apply N.leb_le; lia).
      replace (N.of_nat (List.length b) <=? h) with true by (symmetry; apply N.leb_le; lia).
      destruct Hlw; subst lw; cbn; rewrite ?Hm, ?N.eqb_refl; cbn; auto 10.
    + destruct bd; try discriminate. rewrite Hoct, N.eqb_refl. unfold within.
      replace (lo <=? N.of_nat (List.length b)) with true by (symmetry; apply N.leb_le; lia). rewrite Ew2.
      destruct Hlw; subst lw; cbn; rewrite ?N.eqb_refl; cbn; auto 10.
    + destruct bd as [|kk| |]; try discriminate. apply Nat.eqb_eq in Ht2. subst kk.
      apply andb_true_iff in Hc4 as [F1 F2]. destruct uhi as [h|]; [|discriminate]. apply N.leb_le in F1. apply N.leb_le in Ew2.
      rewrite app_length, zeros_length. replace (Nat.eqb (List.length b + (m - List.length b)) m) with true by (symmetry; apply Nat.eqb_eq; lia).
      rewrite octets_ok_app, Hoct, octets_ok_zeros. replace (N.of_nat (List.length b) <=? N.of_nat m) with true by (symmetry; apply N.leb_le; lia).
      rewrite Nat2N.id, skipn_app, Nat.sub_diag, skipn_all, firstn_app, Nat.sub_diag, firstn_all. cbn [app skipn firstn]. rewrite zeros_all_zero, app_nil_r.
      unfold within. replace (lo <=? N.of_nat (List.length b)) with true by (symmetry; apply N.leb_le; lia).
      replace (N.of_nat (List.length b) <=? h) with true by (symmetry; apply N.leb_le; lia).
      destruct Hlw; subst lw; cbn; rewrite ?N.eqb_refl; cbn; auto 10.
Qed.

Definition build_msg (xs:list nf_field) (vs:list fval) : msg :=
  map (fun xv => (nf_name (fst xv), to_lib (fst xv) (snd xv))) (combine xs vs).

Lemma wf_vals_build xs vs : List.length vs = List.length xs ->
  (forall x v, In (x, v) (combine xs vs) -> wf_val x (to_lib x v) = true) -> wf_vals xs (build_msg xs vs) = true.
Proof.
  revert vs; induction xs as [|x xs IH]; intros [|v vs]; cbn; try discriminate; auto.
  intros [= Hl] H. rewrite String.eqb_refl, (H x v (or_introl eq_refl)). cbn. apply IH; auto.
Qed.

Lemma to_lib_absent x v : fv_present v = false -> to_lib x v = absent.
Proof. unfold to_lib. now intros ->. Qed.

Lemma wf_val_absent x : nf_opt x = true -> wf_val x absent = true.
Proof. unfold wf_val, typed_val. cbn. now intros ->. Qed.

Section LibReadsRef.
Variable d : msg_desc.
Variable nf : list nf_field.
Hypothesis PF : pair_facts d nf.

Lemma row_static x : In x nf ->
  fmt_of_type_ok (nf_type x) (nf_fmt x) = true /\ w_tag (nf_fmt x) = nf_opt x /\
  (nf_opt x = false -> w_half (nf_fmt x) = false /\ nf_iei x = 0) /\ iei_ok 128 x = true.
Proof.
  intro Hx. destruct (Forall2_in_r _ _ _ _ (pf_nf _ _ PF) Hx) as (f & Hf & Hfx).
  destruct (nf_row_type_ok _ _ _ Hfx) as (T1 & T2 & T3). split; [auto|]. split; [auto|]. split.
  - destruct (nf_of_field_inv _ _ _ Hfx) as (_ & g & w & _ & _ & Hc). intro Ho. split; [auto|].
    destruct (f_optional f); [destruct Hc as (c & _ & _ & ->); discriminate|destruct Hc as (g' & _ & _ & ->); reflexivity].
  - apply (pf_iei _ _ PF); auto.
Qed.

Definition enc_of (opt:bool) := if opt then ref_enc_opt else ref_enc_mand.

Lemma enc_align (opt:bool) xs : forall us vs a,
  (forall x, In x xs -> In x nf /\ nf_opt x = opt) -> units_conform opt xs us = true ->
  enc_of opt us vs = Ok a ->
  List.length vs = List.length xs /\
  a = List.concat (map (fun xv => enc_nf (fst xv) (to_lib (fst xv) (snd xv))) (combine xs vs)) /\
  (forall x v, In (x, v) (combine xs vs) ->
     wf_val x (to_lib x v) = true /\ (opt = false -> fv_present v = true) /\
     (fv_present v = true -> sent_body x (to_lib x v) = fv_body v /\ fv_present (to_lib x v) = true)).
Proof.
  induction xs as [|x xs IH]; intros [|u us] vs a Hin Hc He; cbn in Hc; try discriminate.
  - destruct vs; destruct opt; cbn in He; try discriminate; injection He as <-; (split; [reflexivity|]); (split; [reflexivity|]); intros x v [].
  - apply andb_true_iff in Hc as [Hc Hc3]. apply andb_true_iff in Hc as [Hc1 Hc2].
    destruct (Hin x (or_introl eq_refl)) as [Hx Ho]. destruct (row_static x Hx) as (T1 & T2 & T3 & T4).
    destruct vs as [|v vs]; [destruct opt; discriminate|].
    assert (Hstep : exists a1 a2, a = a1 ++ a2 /\ enc_of opt us vs = Ok a2 /\
              ((fv_present v = true /\ ref_enc_unit u v = Ok a1) \/ (opt = true /\ fv_present v = false /\ a1 = []))).
    { destruct opt; cbn in He |- *.
      - destruct (fv_present v) eqn:Ep.
        + destruct (ref_enc_unit u v) as [a1| | |] eqn:E1; try discriminate. cbn in He.
          destruct (ref_enc_opt us vs) as [a2| | |] eqn:E2; try discriminate. injection He as <-. exists a1, a2. auto.
        + cbn in He. destruct (ref_enc_opt us vs) as [a2| | |] eqn:E2; try discriminate. injection He as <-. exists [], a2. auto 10.
      - destruct (fv_present v) eqn:Ep; [|discriminate].
        destruct (ref_enc_unit u v) as [a1| | |] eqn:E1; try discriminate. cbn in He.
        destruct (ref_enc_mand us vs) as [a2| | |] eqn:E2; try discriminate. injection He as <-. exists a1, a2. auto. }
    destruct Hstep as (a1 & a2 & -> & He2 & Hhead).
    destruct (IH us vs a2) as (Hl & Ha & Hall); auto; [intros; apply Hin; now right|].
    assert (Hx1 : wf_val x (to_lib x v) = true /\ enc_nf x (to_lib x v) = a1 /\ (opt = false -> fv_present v = true) /\
                  (fv_present v = true -> sent_body x (to_lib x v) = fv_body v /\ fv_present (to_lib x v) = true)).
    { destruct Hhead as [[Hp Hu]|(Hot & Hp & ->)].
      - destruct (lib_takes_ref_unit x u v a1) as (W1 & W2 & W3 & W4 & _); auto.
        + intros Hxo. rewrite Ho in Hxo. rewrite Hxo in Hc2. exact Hc2.
      - rewrite (to_lib_absent x v Hp). split; [apply wf_val_absent; congruence|]. split; [reflexivity|].
        split; [intros ->; discriminate|]. intros Hp'. congruence. }
    destruct Hx1 as (W1 & W2 & W3 & W4).
    cbn [List.length combine map List.concat fst snd]. split; [lia|]. split; [now rewrite W2, Ha|].
    intros x' v' [[= <- <-]|Hi]; auto.
Qed.
End LibReadsRef.

Lemma wf_vals_app xs1 xs2 m1 m2 : wf_vals xs1 m1 = true -> wf_vals xs2 m2 = true -> wf_vals (xs1 ++ xs2) (m1 ++ m2) = true.
Proof.
  revert m1; induction xs1 as [|x xs IH]; intros [|[k v] m1]; cbn; try discriminate; auto.
  intros H H2. apply andb_true_iff in H as [H H3]. rewrite H. cbn. auto.
Qed.

Definition content (v:fval) : option bytes := if fv_present v then Some (fv_body v) else None.

Theorem lib_reads_ref d t mand opt bs :
  desc_pair_ok d = true -> layout_strict d t = true -> ref_encode t mand opt = Ok bs ->
  exists m, wf_msg d m = true /\ nas_encode d m = Ok bs /\ nas_decode d bs = Ok m /\
            map fv_body (fst (msg_view d m)) = map fv_body mand /\
            map content (snd (msg_view d m)) = map content opt.
Proof.
  intros Hd Hl He. destruct (desc_pair_ok_facts d Hd) as (nf & PF). pose proof (pf_nf_of _ _ PF) as Hnf.
  unfold layout_strict in Hl. unfold ref_encode in He. unfold msg_view, wf_msg. rewrite Hnf in *.
  destruct (mand_units (tb_mand t)) as [mu|] eqn:Hmu; [|discriminate].
  destruct (opt_units (tb_opt t)) as [ou|] eqn:Hou; [|discriminate].
  set (mx := filter (fun x => negb (nf_opt x)) nf) in *. set (ox := filter nf_opt nf) in *.
  apply andb_true_iff in Hl as [Hl _]. apply andb_true_iff in Hl as [Hum Huo].
  destruct (ref_enc_mand mu mand) as [a| | |] eqn:Ea; try discriminate. cbn [bind] in He.
  destruct (ref_enc_opt ou opt) as [b| | |] eqn:Eb; try discriminate. cbn [bind] in He. injection He as <-.
  assert (Hsplit : nf = mx ++ ox).
  { apply split_by_flag. rewrite <- (pf_order _ _ PF), mand_then_opt_flags. f_equal.
    symmetry. apply (Forall2_map_eq _ _ _ _ _ (pf_nf _ _ PF)). intros x y Hab. symmetry. now apply (nf_name_of d). }
  destruct (enc_align d nf PF false mx mu mand a) as (Hlm & Ha & Hfm); auto.
  { intros x Hx. apply filter_In in Hx as [Hx Ho]. apply negb_true_iff in Ho. auto. }
  destruct (enc_align d nf PF true ox ou opt b) as (Hlo & Hb & Hfo); auto.
  { intros x Hx. apply filter_In in Hx as [Hx Ho]. auto. }
  set (m := build_msg mx mand ++ build_msg ox opt).
  assert (WF : wf_vals nf m = true).
  { rewrite Hsplit. apply wf_vals_app; apply wf_vals_build; auto; intros x v Hi; [apply (Hfm x v Hi) | apply (Hfo x v Hi)]. }
  assert (Hfv : forall x v, In (x, v) (combine mx mand) \/ In (x, v) (combine ox opt) -> field_val m x = to_lib x v).
  { intros x v Hi. unfold field_val. rewrite (lookup_nodup (nf_name x) m (to_lib x v)); auto.
    - apply (nodup_m d nf PF m WF).
    - unfold m, build_msg. apply in_app_iff. destruct Hi as [Hi|Hi]; [left|right]; apply in_map_iff; exists (x, v); auto. }
  destruct (combine_fst_snd mx mand (eq_sym Hlm)) as [Hm1 Hm2]. destruct (combine_fst_snd ox opt (eq_sym Hlo)) as [Ho1 Ho2].
  assert (Henc : nas_encode d m = Ok (a ++ b)).
  { rewrite (nas_encode_ok d nf PF m WF). f_equal. rewrite <- (nf_names d nf PF). rewrite Hsplit at 2.
    rewrite map_app, map_app, concat_app, Ha, Hb. f_equal.
    - rewrite <- Hm1 at 1. rewrite !map_map. f_equal. apply map_ext_in. intros [x v] Hi. cbn [fst snd].
      assert (Hx : In x nf) by (assert (In x mx) by (rewrite <- Hm1; apply in_map_iff; exists (x, v); auto); apply filter_In in H; tauto).
      destruct (row_env d nf PF m WF x Hx) as (_ & _ & _ & _ & _ & _ & _ & HE). rewrite HE, (Hfv x v); auto.
    - rewrite <- Ho1 at 1. rewrite !map_map. f_equal. apply map_ext_in. intros [x v] Hi. cbn [fst snd].
      assert (Hx : In x nf) by (assert (In x ox) by (rewrite <- Ho1; apply in_map_iff; exists (x, v); auto); apply filter_In in H; tauto).
      destruct (row_env d nf PF m WF x Hx) as (_ & _ & _ & _ & _ & _ & _ & HE). rewrite HE, (Hfv x v); auto. }
  exists m. split; [exact WF|]. split; [exact Henc|]. split.
  { assert (Hw : wf_msg d m = true) by (unfold wf_msg; rewrite Hnf; exact WF).
    pose proof (roundtrip d m Hd Hw) as R. rewrite Henc in R. exact R. }
  cbn [fst snd]. split.
  - rewrite <- Hm1 at 1. rewrite <- Hm2 at 2. rewrite !map_map. apply map_ext_in. intros [x v] Hi. cbn [fst snd].
    rewrite (Hfv x v) by auto. destruct (Hfm x v Hi) as (_ & Hp & Hs). destruct (Hs (Hp eq_refl)) as [Hs1 _]. exact Hs1.
  - rewrite <- Ho1 at 1. rewrite <- Ho2 at 2. rewrite !map_map. apply map_ext_in. intros [x v] Hi. cbn [fst snd].
    rewrite (Hfv x v) by auto. unfold content. destruct (fv_present v) eqn:Ep.
    + destruct (Hfo x v Hi) as (_ & _ & Hs). destruct (Hs Ep) as [Hs1 Hs2]. unfold ref_view. cbn [fv_present fv_body]. rewrite Hs2. now rewrite Hs1.
    + rewrite (to_lib_absent x v Ep). reflexivity.
Qed.
