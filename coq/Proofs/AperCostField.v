(* C14, time bound, part 3: steps taken by parseFieldC (Model/AperDecCost.v), by induction on the fuel.

   Accounting, for a type t of the schema (same shape as the allocation bound of Proofs/AperTotalAlloc.v):
       a successful parseFieldC takes at most   kost t + lstep t * (bits it consumed)          steps,
       a failing one at most                    kost t + lstep t * (bits that were left)       steps.
   [kost t]  - steps that are spent whatever the input: per call, per struct field (sum over the fields of a
               SEQUENCE, maximum over the alternatives of a CHOICE), the constant part of every primitive reader, one
               (failing) element of every list;
   [lstep t] - steps per input bit: 1 for the readers that pass over their input (strings, open-type wrappers,
               wide INTEGERs); for SEQUENCE OF e: 1 + kost e + lstep e, because every element that is decoded has consumed
               at least one bit ([consumes] / [cons_ok] of Proofs/AperTotalAlloc.v, decidable and evaluated over the
               schema), so an element loop makes at most one turn per input bit, plus the turn that fails.
   An open type is decoded from a copy of octets the outer cursor has passed over, so its steps are charged to
   those bits. *)
From Coq Require Import NArith ZArith List Bool Lia Arith String.
From Coq Require Import ZifyN ZifyNat ZifyBool.
Require Import GoSlice AperCommon AperEnc AperDec AperDecProofs AperTotalPrim AperTotalField AperTotalAlloc.
Require Import AperDecCost AperCostErase AperCostPrim.
Import ListNotations.
Open Scope N_scope.
Ltac Zify.zify_post_hook ::= Z.div_mod_to_equations.

Local Arguments N.add : simpl never.
Local Arguments N.mul : simpl never.
Local Arguments N.sub : simpl never.
Local Arguments N.div : simpl never.
Local Arguments N.modulo : simpl never.
Local Arguments N.land : simpl never.
Local Arguments N.lor : simpl never.
Local Arguments N.shiftr : simpl never.
Local Arguments N.shiftl : simpl never.
Local Arguments N.pow : simpl never.
Local Arguments N.max : simpl never.
Local Arguments N.of_nat : simpl never.

(* ------------------------------------------------------------------------------------------------ *)
(* schema-side quantities *)

Definition K_ALT : N := 17.        (* max K_CV K_OPEN: CHOICE index, or the open-type fragment loop *)
Definition K_REF : N := 16.        (* REF_FUEL: depth of getReferenceFieldValue *)

Fixpoint kost (t : ty) : N :=
  match t with
  | TInt => 5 + K_INT
  | TEnum => 5 + K_CV
  | TBool => 7
  | TBits | TOctets | TString => 5 + K_STR
  | TOid => 5
  | TSlice e => 5 + K_CV + (1 + kost e)
  | TPtr e => 1 + kost e
  | TStruct fs =>
      5 + len fs + (1 + octs_of (count_optional fs)) +
      (if is_choice fs
       then len fs + K_ALT +
            (fix go (fs : list (string * params * ty)) : N :=
               match fs with [] => 0 | (_, _, t') :: r => N.max (kost t') (go r) end) fs
       else (fix go (fs : list (string * params * ty)) (i : nat) : N :=
               match fs with
               | [] => 0
               | (_, p', t') :: r => (1 + (if p_openType p' then N.of_nat i + K_REF else 0) + kost t') + go r (S i)
               end) fs 0%nat)
  end.

Fixpoint lstep (t : ty) : N :=
  match t with
  | TSlice e => 1 + kost e + lstep e
  | TPtr e => lstep e
  | TStruct fs => 1 + (fix go (fs : list (string * params * ty)) : N :=
                         match fs with [] => 0 | (_, _, t') :: r => N.max (lstep t') (go r) end) fs
  | _ => 1
  end.

Fixpoint kmax (fs : list field) : N := match fs with [] => 0 | f :: r => N.max (kost (f_ty f)) (kmax r) end.
Fixpoint lmax (fs : list field) : N := match fs with [] => 0 | f :: r => N.max (lstep (f_ty f)) (lmax r) end.
Definition ref_steps (f : field) (i : nat) : N := if p_openType (f_params f) then N.of_nat i + K_REF else 0.
Fixpoint ksum (fs : list field) (i : nat) : N :=
  match fs with [] => 0 | f :: r => (1 + ref_steps f i + kost (f_ty f)) + ksum r (S i) end.

Lemma kost_struct fs : kost (TStruct fs) =
  5 + len fs + (1 + octs_of (count_optional fs)) + (if is_choice fs then len fs + K_ALT + kmax fs else ksum fs 0).
Proof.
  cbn [kost]. f_equal. destruct (is_choice fs).
  - f_equal. induction fs as [|[[n p'] t'] r IH]; [reflexivity|]. cbn [kmax f_ty snd]. f_equal. exact IH.
  - generalize 0%nat. induction fs as [|[[n p'] t'] r IH]; intros i; [reflexivity|].
    cbn [ksum]. unfold ref_steps. cbn [f_ty f_params fst snd]. f_equal. apply IH.
Qed.

Lemma lstep_struct fs : lstep (TStruct fs) = 1 + lmax fs.
Proof.
  cbn [lstep]. f_equal. induction fs as [|[[n p'] t'] r IH]; [reflexivity|]. cbn [lmax f_ty snd]. f_equal. exact IH.
Qed.

Lemma kmax_field fs f : In f fs -> kost (f_ty f) <= kmax fs.
Proof. induction fs as [|g r IH]; intros Hin; [contradiction|]. cbn [kmax]. destruct Hin as [<-|Hin]; [lia|]. specialize (IH Hin). lia. Qed.
Lemma lmax_field fs f : In f fs -> lstep (f_ty f) <= lmax fs.
Proof. induction fs as [|g r IH]; intros Hin; [contradiction|]. cbn [lmax]. destruct Hin as [<-|Hin]; [lia|]. specialize (IH Hin). lia. Qed.

Lemma lstep_pos t : 1 <= lstep t.
Proof. induction t; cbn [lstep]; lia. Qed.

(* ------------------------------------------------------------------------------------------------ *)
(* specification frame: cursor s0, constant K, steps per bit L *)

Definition kspec {A} (s0 : dst) (K L : N) (Q : A -> dst -> Prop) (r : ares (A * dst)) : Prop :=
  match fst r with
  | Ok (a, s') => adv s0 s' /\ Q a s' /\ snd r <= K + L * (pos s' - pos s0)
  | _ => snd r <= K + L * (8 * len (d_bytes s0) - pos s0)
  end.

(* lia with the products of the goal known to be non-negative *)
Ltac nnprod := repeat match goal with
  | |- context [?a * ?b] => lazymatch goal with H : 0 <= a * b |- _ => fail | _ => pose proof (N.le_0_l (a * b)) end
  end.
Ltac klia := nnprod; lia.

Lemma karith1 L K1 K2 a1 a2 p0 p1 p2 : p0 <= p1 -> p1 <= p2 -> a1 <= K1 + L * (p1 - p0) -> a2 <= K2 + L * (p2 - p1) ->
  a1 + a2 <= K1 + K2 + L * (p2 - p0).
Proof.
  intros H01 H12 H1 H2. replace (p2 - p0) with ((p1 - p0) + (p2 - p1)) by lia. rewrite N.mul_add_distr_l. lia.
Qed.
Lemma karith_le L x y : x <= y -> L * x <= L * y.
Proof. apply N.mul_le_mono_l. Qed.

Lemma kspec_bind {A B} s0 K1 K2 L (P : A -> dst -> Prop) (Q : B -> dst -> Prop) (r : ares (A * dst)) (f : A * dst -> ares (B * dst)) :
  kspec s0 K1 L P r -> (forall a s1, adv s0 s1 -> P a s1 -> kspec s1 K2 L Q (f (a, s1))) -> kspec s0 (K1 + K2) L Q (abind r f).
Proof.
  unfold kspec. destruct r as [[[a s1]|e|q|] n]; cbn [fst snd abind]; try (intros; klia).
  intros (Ha & HP & Hn) Hf. specialize (Hf a s1 Ha HP).
  destruct (f (a, s1)) as [r' m]. cbn [fst snd] in *.
  destruct (adv_pos_le _ _ Ha) as (P01 & P1R).
  destruct r' as [[b s2]|e|q|].
  - destruct Hf as (Ha2 & HQ & Hm). destruct (adv_pos_le _ _ Ha2) as (P12 & _).
    split; [apply (adv_trans _ _ _ Ha Ha2)|]. split; [exact HQ|]. apply (karith1 L K1 K2 n m _ (pos s1)); assumption.
  - rewrite (adv_len _ _ Ha) in Hf. apply (karith1 L K1 K2 n m _ (pos s1)); assumption.
  - rewrite (adv_len _ _ Ha) in Hf. apply (karith1 L K1 K2 n m _ (pos s1)); assumption.
  - rewrite (adv_len _ _ Ha) in Hf. apply (karith1 L K1 K2 n m _ (pos s1)); assumption.
Qed.

Lemma kspec_clift {A} s0 K L (Q : A -> dst -> Prop) (r : cres A) : 1 <= L -> cgood s0 K Q r -> kspec s0 K L Q (clift r).
Proof.
  intros HL (H1 & H2). unfold kspec. destruct r as [[[a|e|q|] s] n]; cbn [sgood clift fst snd] in *; try contradiction.
  - destruct H1 as (Ha & HQ). split; [exact Ha|]. split; [exact HQ|].
    pose proof (N.mul_le_mono_r 1 L (pos s - pos s0) HL). klia.
  - destruct (adv_pos_le _ _ H1) as (P01 & P1R).
    pose proof (N.mul_le_mono_r 1 L (8 * len (d_bytes s0) - pos s0) HL). klia.
Qed.

Lemma kspec_aret {A} s0 K L (Q : A -> dst -> Prop) a s : adv s0 s -> Q a s -> kspec s0 K L Q (aret (a, s)).
Proof. intros Ha HQ. unfold kspec. cbn [aret fst snd]. split; [exact Ha|]. split; [exact HQ|klia]. Qed.

Lemma kspec_fail0 {A} s0 K L (Q : A -> dst -> Prop) (x : res (A * dst)) :
  match x with Ok _ => False | _ => True end -> kspec s0 K L Q (x, 0).
Proof. unfold kspec. cbn [fst snd]. destruct x; try contradiction; intros _; klia. Qed.

Lemma kspec_mono {A} s0 K K' L L' (Q Q' : A -> dst -> Prop) r :
  K <= K' -> L <= L' -> (forall a s', adv s0 s' -> Q a s' -> Q' a s') -> kspec s0 K L Q r -> kspec s0 K' L' Q' r.
Proof.
  intros HK HL HQ. unfold kspec. destruct (fst r) as [[a s']|e|q|].
  - intros (Ha & Hq & Hn). split; [exact Ha|]. split; [apply HQ; assumption|].
    pose proof (N.mul_le_mono_r L L' (pos s' - pos s0) HL). klia.
  - intros Hn. pose proof (N.mul_le_mono_r L L' (8 * len (d_bytes s0) - pos s0) HL). klia.
  - intros Hn. pose proof (N.mul_le_mono_r L L' (8 * len (d_bytes s0) - pos s0) HL). klia.
  - intros Hn. pose proof (N.mul_le_mono_r L L' (8 * len (d_bytes s0) - pos s0) HL). klia.
Qed.

Lemma kspec_le {A} s0 K K' L (Q : A -> dst -> Prop) r : kspec s0 K L Q r -> K <= K' -> kspec s0 K' L Q r.
Proof. intros H HK. eapply kspec_mono; [exact HK|apply N.le_refl|intros a s' _ Hq; exact Hq|exact H]. Qed.

Lemma kspec_from {A} s0 s1 K L (Q : A -> dst -> Prop) r : adv s0 s1 -> kspec s1 K L Q r -> kspec s0 K L Q r.
Proof.
  intros Ha. destruct (adv_pos_le _ _ Ha) as (P01 & P1R). unfold kspec. rewrite (adv_len _ _ Ha).
  destruct (fst r) as [[a s']|e|q|].
  - intros (Ha' & Hq & Hn). split; [apply (adv_trans _ _ _ Ha Ha')|]. split; [exact Hq|].
    pose proof (karith_le L (pos s' - pos s1) (pos s' - pos s0)). klia.
  - intros Hn. pose proof (karith_le L (8 * len (d_bytes s0) - pos s1) (8 * len (d_bytes s0) - pos s0)). klia.
  - intros Hn. pose proof (karith_le L (8 * len (d_bytes s0) - pos s1) (8 * len (d_bytes s0) - pos s0)). klia.
  - intros Hn. pose proof (karith_le L (8 * len (d_bytes s0) - pos s1) (8 * len (d_bytes s0) - pos s0)). klia.
Qed.

Lemma kspec_tick {A} s0 k K L (Q : A -> dst -> Prop) r : kspec s0 K L Q r -> kspec s0 (k + K) L Q (atick k r).
Proof.
  unfold kspec. cbn [atick fst snd]. destruct (fst r) as [[a s']|e|q|]; [|intros; klia..].
  intros (Ha & Hq & Hn). split; [exact Ha|]. split; [exact Hq|klia].
Qed.

(* a step that produces no cursor (tag computation) and takes at most c steps *)
Lemma kspec_abindc {A B} s0 c K L (Q : B -> dst -> Prop) (r : ares A) (f : A -> ares (B * dst)) :
  snd r <= c -> (forall a, fst r = Ok a -> kspec s0 K L Q (f a)) -> kspec s0 (c + K) L Q (abind r f).
Proof.
  destruct r as [[a|e|q|] n]; cbn [fst snd abind]; intros Hn Hf; try (unfold kspec; cbn [fst snd]; klia).
  specialize (Hf a eq_refl). destruct (f a) as [r' m]. unfold kspec in *. cbn [fst snd] in *.
  destruct r' as [[b s']|e|q|]; [|klia..]. destruct Hf as (Ha & Hq & Hm). split; [exact Ha|]. split; [exact Hq|klia].
Qed.

(* one turn of an element loop whose element consumes input: the per-element constant is paid by the bit *)
Lemma karith_iter Ke Le n m d1 d2 : 1 <= d1 -> n <= Ke + Le * d1 -> m <= (1 + Ke) + (1 + Ke + Le) * d2 ->
  1 + (n + m) <= (1 + Ke) + (1 + Ke + Le) * (d1 + d2).
Proof.
  intros Hd Hn Hm. rewrite N.mul_add_distr_l. rewrite (N.mul_add_distr_r (1 + Ke) Le d1).
  pose proof (N.mul_le_mono_l 1 d1 (1 + Ke) Hd). klia.
Qed.

Lemma kspec_iter {A B} s Ke Le m (r : ares (A * dst)) (f : A * dst -> ares (B * dst)) :
  kspec s Ke Le (fun _ s1 => pos s + 1 <= pos s1) r ->
  (forall a s1, adv s s1 -> pos s + 1 <= pos s1 ->
     kspec s1 (1 + Ke) (1 + Ke + Le) (fun _ s' => pos s1 + m <= pos s') (f (a, s1))) ->
  kspec s (1 + Ke) (1 + Ke + Le) (fun _ s' => pos s + (1 + m) <= pos s') (atick 1 (abind r f)).
Proof.
  unfold kspec. destruct r as [[[a s1]|e|q|] n]; cbn [atick abind fst snd].
  - intros (Ha & Hp & Hn) Hf. specialize (Hf a s1 Ha Hp).
    destruct (f (a, s1)) as [r' k]. cbn [fst snd] in *.
    destruct (adv_pos_le _ _ Ha) as (P01 & P1R).
    destruct r' as [[b s2]|e|q|].
    + destruct Hf as (Ha2 & HQ & Hk). destruct (adv_pos_le _ _ Ha2) as (P12 & _).
      split; [apply (adv_trans _ _ _ Ha Ha2)|]. split; [klia|].
      replace (pos s2 - pos s) with ((pos s1 - pos s) + (pos s2 - pos s1)) by klia. apply karith_iter; [klia|exact Hn|exact Hk].
    + rewrite (adv_len _ _ Ha) in Hf.
      replace (8 * len (d_bytes s) - pos s) with ((pos s1 - pos s) + (8 * len (d_bytes s) - pos s1)) by klia.
      apply karith_iter; [klia|exact Hn|exact Hf].
    + rewrite (adv_len _ _ Ha) in Hf.
      replace (8 * len (d_bytes s) - pos s) with ((pos s1 - pos s) + (8 * len (d_bytes s) - pos s1)) by klia.
      apply karith_iter; [klia|exact Hn|exact Hf].
    + rewrite (adv_len _ _ Ha) in Hf.
      replace (8 * len (d_bytes s) - pos s) with ((pos s1 - pos s) + (8 * len (d_bytes s) - pos s1)) by klia.
      apply karith_iter; [klia|exact Hn|exact Hf].
  - intros Hn _. pose proof (N.mul_le_mono_r Le (1 + Ke + Le) (8 * len (d_bytes s) - pos s)). klia.
  - intros Hn _. pose proof (N.mul_le_mono_r Le (1 + Ke + Le) (8 * len (d_bytes s) - pos s)). klia.
  - intros Hn _. pose proof (N.mul_le_mono_r Le (1 + Ke + Le) (8 * len (d_bytes s) - pos s)). klia.
Qed.

(* the extension-bit prefix of parseFieldC: at most 2 steps *)
Lemma ext_bit_kspec L (flag : bool) s : 1 <= L -> dinv s ->
  kspec s 2 L (ext_post s flag)
    (if flag then clift (doc (b, s) <- getBitsValueC s 1; cpure (Ok (negb (b =? 0)), s)) else aret (false, s)).
Proof.
  intros HL Hs. destruct flag.
  - apply kspec_clift; [exact HL|]. apply cgood_const.
    + assert (E : fst (doc (b, s0) <- getBitsValueC s 1; cpure (Ok (negb (b =? 0)), s0)) =
                  (dos (b, s0) <- getBitsValue s 1; (Ok (negb (b =? 0)), s0)))
        by (apply cbind_erase; [reflexivity|intros; reflexivity]).
      rewrite E. eapply sgood_bind; [apply getBitsValue_good', Hs|].
      intros v s' Ha (Hp & _). apply sgood_ok; [exact Ha|]. split; [reflexivity|]. intros _. klia.
    + apply (cbind_cost 2 0); [| |reflexivity].
      * pose proof (getBitsValueC_cost s 1) as H. change (octs_of 1) with 1 in H. klia.
      * intros; cbn; klia.
  - apply kspec_aret; [apply adv_refl, Hs|]. split; intros; discriminate.
Qed.

(* ------------------------------------------------------------------------------------------------ *)
(* parseFieldC: the statement threaded through the recursion *)

Definition pspecC (t : ty) (p : params) (s : dst) (r : ares (val * dst)) : Prop :=
  kspec s (kost t) (lstep t) (fun _ s' => consumes t p = true -> pos s + 1 <= pos s') r.

Lemma kost_pos t : 1 <= kost t.
Proof. induction t; cbn [kost]; lia. Qed.

Section RecKA.
  Variable rec : ty -> params -> dst -> ares (val * dst).
  Variable D : nat.
  Hypothesis Hrec : forall t p s, (ty_depth t < D)%nat -> wf_ty t (psize_ok p) = true -> cons_ok t p = true ->
    dinv s -> octs s -> pspecC t p s (rec t p s).

  Lemma seqof_elemsC_steps e p' : (ty_depth e < D)%nat -> wf_ty e (psize_ok p') = true -> cons_ok e p' = true ->
    consumes e p' = true -> forall n acc s, dinv s -> octs s ->
    kspec s (1 + kost e) (1 + kost e + lstep e) (fun _ s' => pos s + N.of_nat n <= pos s') (seqof_elemsC rec e p' n acc s).
  Proof.
    intros Hd Hw Hc Hcons. induction n as [|n IH]; intros acc s Hs Ho; cbn [seqof_elemsC].
    - apply kspec_aret; [apply adv_refl, Hs|]. lia.
    - eapply kspec_mono; [apply N.le_refl|apply N.le_refl| |apply (kspec_iter s (kost e) (lstep e) (N.of_nat n))].
      + intros a s' _ H. cbv beta in *. lia.
      + eapply kspec_mono; [apply N.le_refl|apply N.le_refl| |apply (Hrec e p' s Hd Hw Hc Hs Ho)].
        intros a s' _ H. apply H. exact Hcons.
      + intros v s1 Ha1 Hp1. cbv beta iota. apply IH; [apply Ha1|apply (adv_octs _ _ Ha1 Ho)].
  Qed.

  Lemma decSequenceOfC_eq e p ext s :
    decSequenceOfC rec e p ext s =
    (doa (numElements, s) <-
       (if (1 <? seq_range p ext)%Z then
          match parseConstraintValueC s (seq_range p ext) with
          | ((Ok n, s'), c) => (Ok (u64 (n + u64z (seq_lb p)), s'), c)
          | ((Err _, s'), c) => (Ok (u64z (seq_lb p), s'), c)
          | ((Panic p, _), c) => (Panic p, c)
          | ((OutOfFuel, _), c) => (OutOfFuel, c)
          end
        else if (seq_range p ext =? 1)%Z then aret (u64z (seq_lb p), s)
        else
          clift (doc (_, s) <- parseAlignBitsC s;
                 if len (d_bytes s) <=? d_byteOffset s then cpure (Err E_OUT_OF_RANGE, s)
                 else match idx (d_bytes s) (d_byteOffset s) with
                      | Ok b => ((Ok b, mkdst (d_bytes s) (u64 (d_byteOffset s + 1)) (d_bitsOffset s)), 1)
                      | Err e => cpure (Err e, s) | Panic p => cpure (Panic p, s) | OutOfFuel => cpure (OutOfFuel, s)
                      end));
     if (i64n numElements <? 0)%Z then (Panic P_MAKE, 0)
     else seqof_elemsC rec e (clear_size p) (Z.to_nat (i64n numElements)) [] s).
  Proof. reflexivity. Qed.

  Lemma seqof_countC_spec L p ext s : 1 <= L -> psize_ok p = true -> (ext = true -> p_sizeExt p = true) -> dinv s -> octs s ->
    kspec s K_CV L (fun n _ => n <= count_ub p)
       (if (1 <? seq_range p ext)%Z then
          match parseConstraintValueC s (seq_range p ext) with
          | ((Ok n, s'), c) => (Ok (u64 (n + u64z (seq_lb p)), s'), c)
          | ((Err _, s'), c) => (Ok (u64z (seq_lb p), s'), c)
          | ((Panic p, _), c) => (Panic p, c)
          | ((OutOfFuel, _), c) => (OutOfFuel, c)
          end
        else if (seq_range p ext =? 1)%Z then aret (u64z (seq_lb p), s)
        else
          clift (doc (_, s) <- parseAlignBitsC s;
                 if len (d_bytes s) <=? d_byteOffset s then cpure (Err E_OUT_OF_RANGE, s)
                 else match idx (d_bytes s) (d_byteOffset s) with
                      | Ok b => ((Ok b, mkdst (d_bytes s) (u64 (d_byteOffset s + 1)) (d_bitsOffset s)), 1)
                      | Err e => cpure (Err e, s) | Panic p => cpure (Panic p, s) | OutOfFuel => cpure (OutOfFuel, s)
                      end)).
  Proof.
    intros HL Hp He Hs Ho. pose proof (seq_lb_range p Hp) as Hlb. destruct (count_of_le p ext Hp He) as (Hcu & _).
    assert (Hu : u64z (seq_lb p) = Z.to_N (seq_lb p)) by (apply u64z_small; lia).
    unfold count_of in Hcu. cbv zeta in Hcu.
    destruct (1 <? seq_range p ext)%Z.
    - destruct (parseConstraintValueC_cgood s (seq_range p ext) Hs Ho) as (H & Hc). pose proof (cv_ub_le (seq_range p ext)) as Hcv.
      destruct (parseConstraintValueC s (seq_range p ext)) as [[[n|e|q|] s'] c]; cbn [sgood fst snd] in H, Hc; try contradiction.
      + destruct H as (Ha & _ & Hn). unfold kspec. cbn [fst snd]. split; [exact Ha|]. split.
        * rewrite Hu. rewrite u64_small by (unfold TWO64; lia). lia.
        * pose proof (N.mul_le_mono_r 1 L (pos s' - pos s) HL). lia.
      + unfold kspec. cbn [fst snd]. split; [exact H|]. split; [rewrite Hu; lia|].
        pose proof (N.mul_le_mono_r 1 L (pos s' - pos s) HL). lia.
    - destruct (seq_range p ext =? 1)%Z.
      + apply kspec_aret; [apply adv_refl, Hs|]. rewrite Hu. lia.
      + apply kspec_clift; [exact HL|].
        apply (cgood_weaken s (K_ALIGN + 1) K_CV (fun b _ => b <= count_ub p)); [exact Hs|unfold K_ALIGN, K_CV; lia|intros a s' _ H; exact H|].
        eapply cgood_bind; [apply parseAlignBitsC_cgood, Hs|].
        intros u s1 Ha1 Hb0. cbv beta in Hb0 |- *.
        pose proof (adv_dinv _ _ Ha1) as Hs1. pose proof Hs1 as (B1 & B2 & B3 & B4). unfold MAXLEN in B4.
        destruct (len (d_bytes s1) <=? d_byteOffset s1) eqn:E; [apply cgood_err; apply adv_refl, Hs1|].
        destruct (idx_ok (d_bytes s1) (d_byteOffset s1)) as [b Eb]; [lia|]. rewrite Eb.
        rewrite u64_small by (unfold TWO64; lia).
        split; cbn [fst snd sgood].
        * split; [apply adv_skip; [exact Hs1|exact Hb0|lia]|].
          pose proof (idx_octet _ _ _ (adv_octs _ _ Ha1 Ho) Eb) as Hb. unfold octet in Hb. lia.
        * lia.
  Qed.

  Lemma decSequenceOfC_steps e p ext s : (ty_depth e < D)%nat -> wf_ty (TSlice e) (psize_ok p) = true ->
    cons_ok (TSlice e) p = true -> (ext = true -> p_sizeExt p = true) -> dinv s -> octs s ->
    kspec s (K_CV + (1 + kost e)) (lstep (TSlice e)) triv (decSequenceOfC rec e p ext s).
  Proof.
    intros Hd Hw Hc He Hs Ho. rewrite decSequenceOfC_eq.
    cbn [wf_ty] in Hw. apply andb_prop in Hw as (Hp & Hwe).
    cbn [cons_ok] in Hc. apply andb_prop in Hc as (Hcons & Hce).
    cbn [lstep].
    eapply kspec_bind; [apply (seqof_countC_spec _ p ext s); [lia|assumption..]|].
    intros n s1 Ha1 Hn. cbv beta iota. cbv beta in Hn.
    destruct (count_of_le p ext Hp He) as (_ & Hcu).
    assert (Hi : i64n n = Z.of_N n) by (unfold i64n; apply i64_small; lia).
    rewrite Hi. assert ((Z.of_N n <? 0)%Z = false) as -> by lia.
    eapply kspec_mono; [apply N.le_refl|apply N.le_refl| |apply (seqof_elemsC_steps e (clear_size p) Hd Hwe Hce Hcons)].
    - intros; exact I.
    - apply Ha1.
    - apply (adv_octs _ _ Ha1 Ho).
  Qed.

  Lemma parseOpenTypeC_steps t p s : (ty_depth t < D)%nat -> wf_ty t (psize_ok p) = true -> cons_ok t p = true ->
    dinv s -> octs s -> kspec s (K_OPEN + kost t) (1 + lstep t) triv (parseOpenTypeC rec t p s).
  Proof.
    intros Hd Hw Hc Hs Ho. unfold parseOpenTypeC.
    assert (Hl : cgood s K_OPEN (open_post s []) (open_dec_loopC (S (List.length (d_bytes s))) s [])).
    { apply open_dec_loopC_cgood; [exact Hs|exact Ho|constructor|]. pose proof (dinv_pos s Hs). unfold len. lia. }
    destruct Hl as (Hl & Hc1).
    destruct (open_dec_loopC (S (List.length (d_bytes s))) s []) as [[[bytes|e|q|] s1] c]; cbn [sgood fst snd] in Hl, Hc1; try contradiction.
    2:{ unfold kspec. cbn [clift abind fst snd]. destruct (adv_pos_le _ _ Hl) as (P01 & P1R).
        rewrite N.mul_add_distr_r, N.mul_1_l. klia. }
    destruct Hl as (Ha1 & Hob & Hlen & _). change (len (@nil N)) with 0 in Hlen.
    destruct (adv_pos_le _ _ Ha1) as (P01 & P1R).
    assert (Hsi : dinv (mkdst bytes 0 0)).
    { destruct Hs as (_ & _ & _ & H4). unfold dinv. cbn [d_bytes d_byteOffset d_bitsOffset]. unfold MAXLEN in *. repeat split; try lia. }
    pose proof (Hrec t p (mkdst bytes 0 0) Hd Hw Hc Hsi Hob) as Hr. unfold pspecC, kspec in Hr.
    unfold kspec. cbn [clift abind fst snd].
    destruct (rec t p (mkdst bytes 0 0)) as [[[v s2]|e|q|] n]; cbn [abind aret fst snd] in *.
    - destruct Hr as (Ha2 & _ & Hn). split; [exact Ha1|]. split; [exact I|].
      pose proof (dinv_pos _ (adv_dinv _ _ Ha2)) as Hp2. rewrite (adv_len _ _ Ha2) in Hp2. cbn [d_bytes] in Hp2.
      change (pos (mkdst bytes 0 0)) with 0 in Hn. rewrite N.sub_0_r in Hn.
      pose proof (karith_le (lstep t) (pos s2) (pos s1 - pos s)).
      rewrite N.mul_add_distr_r, N.mul_1_l. lia.
    - change (pos (mkdst bytes 0 0)) with 0 in Hr. rewrite N.sub_0_r in Hr. cbn [d_bytes] in Hr.
      pose proof (karith_le (lstep t) (8 * len bytes) (8 * len (d_bytes s) - pos s)).
      rewrite N.mul_add_distr_r, N.mul_1_l. lia.
    - change (pos (mkdst bytes 0 0)) with 0 in Hr. rewrite N.sub_0_r in Hr. cbn [d_bytes] in Hr.
      pose proof (karith_le (lstep t) (8 * len bytes) (8 * len (d_bytes s) - pos s)).
      rewrite N.mul_add_distr_r, N.mul_1_l. lia.
    - change (pos (mkdst bytes 0 0)) with 0 in Hr. rewrite N.sub_0_r in Hr. cbn [d_bytes] in Hr.
      pose proof (karith_le (lstep t) (8 * len bytes) (8 * len (d_bytes s) - pos s)).
      rewrite N.mul_add_distr_r, N.mul_1_l. lia.
  Qed.
End RecKA.

(* ---- struct decoding: the tag of an open-type field, the alternative search *)
Lemma get_ref_calls_le : forall fuel t v, get_ref_calls fuel t v <= N.of_nat fuel.
Proof.
  induction fuel as [|f IH]; intros t v; cbn [get_ref_calls]; [lia|].
  assert (Hx : forall x, x <= N.of_nat f -> 1 + x <= N.of_nat (S f)) by (intros; lia).
  apply Hx. destruct t; try lia. destruct v; try lia. destruct fields as [|f0 r]; [lia|].
  destruct (String.eqb (f_name f0) "Present").
  - destruct l as [|v0 l]; [lia|]. destruct v0; try lia.
    destruct (z =? 0)%Z; [lia|]. destruct (z >=? _)%Z; [lia|]. destruct (z <? 0)%Z; [lia|].
    destruct (nth_error (f0 :: r) _); [|lia]. destruct (nth_error _ _); [apply IH|lia].
  - destruct l; [lia|apply IH].
Qed.

Lemma ref_paramsC_spec allf vals i fp :
  snd (ref_paramsC allf vals i fp) <= (if p_openType fp then N.of_nat i + K_REF else 0) /\
  forall a, fst (ref_paramsC allf vals i fp) = Ok a -> peq a fp /\ (p_openType fp = false -> a = fp).
Proof.
  split.
  - unfold ref_paramsC. destruct (p_openType fp); [|cbn; lia]. cbv zeta. cbn [atick snd].
    set (index := find_field (p_refName fp) allf i 0).
    assert (N.of_nat (Nat.min (S index) i) <= N.of_nat i) by lia.
    destruct (Nat.eqb index i); [cbn [aerr snd]; lia|].
    destruct (nth_error allf index) as [rf|]; [|cbn [snd]; lia].
    destruct (nth_error vals index) as [rv|]; [|cbn [snd]; lia].
    cbn [atick snd]. pose proof (get_ref_calls_le REF_FUEL (f_ty rf) rv) as Hg. change (N.of_nat REF_FUEL) with 16 in Hg.
    unfold K_REF. destruct (get_ref REF_FUEL (f_ty rf) rv); cbn [aret aerr fst snd]; lia.
  - intros a. rewrite ref_paramsC_erase. apply (proj2 (ref_params_spec allf vals i fp)).
Qed.

Lemma find_alt_range rv : forall fs j, find_alt fs j rv = O \/ (find_alt fs j rv < j + List.length fs)%nat.
Proof.
  induction fs as [|f r IH]; intros j; cbn [find_alt]; [left; reflexivity|].
  destruct (p_refValue (f_params f)) as [x|].
  - destruct (x =? rv)%Z; [right; cbn [List.length]; lia|]. destruct (IH (S j)) as [H|H]; [left; exact H|right; cbn [List.length]; lia].
  - destruct (IH (S j)) as [H|H]; [left; exact H|right; cbn [List.length]; lia].
Qed.

Lemma alt_search_le fs rv : alt_search_steps fs (find_alt (tl fs) 1 rv) <= len fs.
Proof.
  unfold alt_search_steps, len. destruct (find_alt_range rv (tl fs) 1) as [H|H].
  - rewrite H. cbn [Nat.eqb]. lia.
  - destruct (Nat.eqb _ 0) eqn:E; [lia|]. apply Nat.eqb_neq in E. destruct fs as [|f r]; cbn [tl List.length] in *; lia.
Qed.

Section RecKB.
  Variable rec : ty -> params -> dst -> ares (val * dst).
  Variable D : nat.
  Hypothesis Hrec : forall t p s, (ty_depth t < D)%nat -> wf_ty t (psize_ok p) = true -> cons_ok t p = true ->
    dinv s -> octs s -> pspecC t p s (rec t p s).

  Definition field_hypC (L : N) (f : field) : Prop :=
    wf_ty (f_ty f) (psize_ok (f_params f)) = true /\ (ty_depth (f_ty f) < D)%nat /\ cons_ok (f_ty f) (f_params f) = true /\
    lstep (f_ty f) <= L.

  Lemma field_recC L f fp' s : field_hypC L f -> peq fp' (f_params f) -> dinv s -> octs s ->
    kspec s (kost (f_ty f)) L (fun _ s' => consumes (f_ty f) fp' = true -> pos s + 1 <= pos s') (rec (f_ty f) fp' s).
  Proof.
    intros (Hwf & Hdf & Hcf & HLf) Hpe Hs Ho.
    eapply kspec_mono; [apply N.le_refl|exact HLf|intros a s' _ H; exact H|apply (Hrec (f_ty f) fp' s Hdf)]; try assumption.
    - replace (psize_ok fp') with (psize_ok (f_params f)); [exact Hwf|].
      destruct Hpe as (_ & _ & _ & _ & E5 & E6 & _). unfold psize_ok. rewrite E5, E6. reflexivity.
    - rewrite (cons_ok_peq _ _ _ Hpe). exact Hcf.
  Qed.

  Lemma dec_seq_loopC_steps allf L : forall fs i cnt pres vals s,
    Forall (field_hypC L) fs -> dinv s -> octs s ->
    kspec s (ksum fs i) L (fun _ s' => fields_consume fs = true -> pos s + 1 <= pos s') (dec_seq_loopC rec allf fs i cnt pres vals s).
  Proof.
    induction fs as [|f fr IH]; intros i cnt pres vals s Hf Hs Ho.
    - cbn [dec_seq_loopC]. apply kspec_aret; [apply adv_refl, Hs|]. cbn. discriminate.
    - cbn [dec_seq_loopC]. cbv zeta.
      inversion Hf as [|f' fr' Hfh Hf']; subst f' fr'.
      cbn [fields_consume ksum].
      destruct (ref_paramsC_spec allf vals i (f_params f)) as (Hrc & Hfp). fold (ref_steps f i) in Hrc.
      destruct (p_optional (f_params f) && (0 <? cnt)) eqn:Edec.
      + assert (Hopt : p_optional (f_params f) = true) by (apply andb_prop in Edec as (H & _); exact H).
        rewrite Hopt. cbn [negb andb orb].
        destruct (N.land pres (shl64 1 (cnt - 1)) =? 0); cbn [andb].
        * eapply kspec_le; [apply kspec_tick; apply IH; assumption|lia].
        * eapply kspec_le; [apply kspec_tick; apply (kspec_abindc s (ref_steps f i)); [exact Hrc|]|].
          2: rewrite <- !N.add_assoc; apply N.le_refl.
          intros fp' Efp'. destruct (Hfp fp' Efp') as (Hpe & _).
          eapply kspec_bind; [apply (field_recC L f fp' s Hfh Hpe Hs Ho)|].
          intros v s1 Ha1 _. cbv beta iota.
          eapply kspec_mono; [apply N.le_refl|apply N.le_refl| |apply IH; [exact Hf'|apply Ha1|apply (adv_octs _ _ Ha1 Ho)]].
          destruct (adv_pos_le _ _ Ha1) as (P01 & _).
          intros a s' _ H Hc. specialize (H Hc). lia.
      + cbn [andb].
        eapply kspec_le; [apply kspec_tick; apply (kspec_abindc s (ref_steps f i)); [exact Hrc|]|].
        2: rewrite <- !N.add_assoc; apply N.le_refl.
        intros fp' Efp'. destruct (Hfp fp' Efp') as (Hpe & Hsame).
        eapply kspec_bind; [apply (field_recC L f fp' s Hfh Hpe Hs Ho)|].
        intros v s1 Ha1 Hp1. cbv beta iota in Hp1 |- *.
        destruct (adv_pos_le _ _ Ha1) as (P01 & _).
        eapply kspec_mono; [apply N.le_refl|apply N.le_refl| |apply IH; [exact Hf'|apply Ha1|apply (adv_octs _ _ Ha1 Ho)]].
        intros a s' Ha' H Hc. destruct (adv_pos_le _ _ Ha') as (P1' & _).
        apply orb_prop in Hc as [Hc|Hc]; [|specialize (H Hc); lia].
        apply andb_prop in Hc as (Hc & Hc3). apply andb_prop in Hc as (_ & Hc2).
        assert (Ho' : p_openType (f_params f) = false) by (destruct (p_openType (f_params f)); [discriminate|reflexivity]).
        rewrite (Hsame Ho') in Hp1. specialize (Hp1 Hc3). lia.
  Qed.

  Lemma decStructC_steps fs p ext s : (ty_depth (TStruct fs) <= D)%nat -> wf_ty (TStruct fs) (psize_ok p) = true ->
    cons_ok (TStruct fs) p = true -> dinv s -> octs s ->
    kspec s (len fs + ((1 + octs_of (count_optional fs)) + (if is_choice fs then len fs + K_ALT + kmax fs else ksum fs 0)))
      (1 + lmax fs) (fun _ s' => struct_consumes fs p = true -> pos s + 1 <= pos s') (decStructC rec fs p ext s).
  Proof.
    intros Hd Hw Hc Hs Ho. unfold decStructC. cbv zeta.
    apply wf_struct in Hw as (_ & Hf). apply cons_ok_struct in Hc.
    set (L := 1 + lmax fs).
    assert (Hfh : Forall (field_hypC L) fs).
    { rewrite Forall_forall in *. intros f Hin. unfold field_hypC.
      split; [apply Hf; exact Hin|]. split; [pose proof (ty_depth_field _ _ Hin); lia|]. split; [apply Hc; exact Hin|].
      pose proof (lmax_field _ _ Hin). unfold L. lia. }
    apply kspec_tick.
    eapply kspec_bind with (P := fun _ s1 => (0 <? count_optional fs) = true -> pos s + 1 <= pos s1).
    { destruct (0 <? count_optional fs) eqn:E0.
      - apply kspec_clift; [unfold L; lia|]. apply cgood_const; [|apply getBitsValueC_cost].
        rewrite getBitsValueC_erase. eapply sgood_weaken; [apply adv_refl, Hs|apply getBitsValue_good', Hs|].
        intros v s' _ (Hp & _) _. lia.
      - apply kspec_aret; [apply adv_refl, Hs|discriminate]. }
    intros pres s1 Ha1 Hp1. cbv beta iota.
    pose proof (adv_dinv _ _ Ha1) as Hs1. pose proof (adv_octs _ _ Ha1 Ho) as Ho1. destruct (adv_pos_le _ _ Ha1) as (P01 & _).
    unfold struct_consumes.
    destruct (is_choice fs) eqn:Ech.
    - destruct (p_openType p) eqn:Eop.
      + (* open type CHOICE: nothing claimed about consumption *)
        destruct (p_refValue p) as [refValue|]; [|apply kspec_fail0; exact I].
        pose proof (alt_search_le fs refValue) as Hal.
        eapply kspec_le; [apply kspec_tick|rewrite <- N.add_assoc; apply N.add_le_mono_r; exact Hal].
        dif E0; [apply kspec_aret; [apply adv_refl, Hs1|discriminate]|].
        dopt f Ef; [|apply kspec_fail0; exact I].
        pose proof (nth_error_In _ _ Ef) as Hin. rewrite Forall_forall in Hfh. destruct (Hfh f Hin) as (Hwf & Hdf & Hcf & HLf).
        pose proof (kmax_field _ _ Hin) as Hkm.
        eapply kspec_le; [eapply kspec_bind with (K2 := 0)|].
        * eapply kspec_mono; [apply N.le_refl| |intros a s' _ H; exact H|apply (parseOpenTypeC_steps rec D Hrec); assumption].
          unfold L. pose proof (lmax_field _ _ Hin). lia.
        * intros v s2 Ha2 _. cbv beta iota. apply kspec_aret; [apply adv_refl; apply Ha2|discriminate].
        * unfold K_ALT, K_OPEN. lia.
      + destruct (getChoiceIndexC_cgood s1 ext (p_valueUB p) Hs1 Ho1) as (Hg & _).
        pose proof (getChoiceIndexC_cost s1 ext (p_valueUB p)) as Hgc.
        destruct (getChoiceIndexC s1 ext (p_valueUB p)) as [[[present|e|q|] s2] c]; cbn [sgood fst snd] in Hg, Hgc; try contradiction.
        2:{ unfold kspec. cbn [fst snd]. unfold K_ALT, K_CV in *. klia. }
        destruct Hg as (Ha2 & _ & Hp2).
        eapply kspec_le; [apply kspec_tick; apply (kspec_from s1 s2 (kmax fs) _ _ _ Ha2)|unfold K_ALT, K_CV in *; lia].
        dif Ez; [apply kspec_fail0; exact I|].
        dif Eg; [apply kspec_fail0; exact I|].
        dif En; [apply kspec_fail0; exact I|].
        dopt f Ef; [|apply kspec_fail0; exact I].
        pose proof (nth_error_In _ _ Ef) as Hin. rewrite Forall_forall in Hfh. destruct (Hfh f Hin) as (Hwf & Hdf & Hcf & HLf).
        pose proof (kmax_field _ _ Hin) as Hkm.
        eapply kspec_le; [eapply kspec_bind with (K2 := 0)|rewrite N.add_0_r; exact Hkm].
        * eapply kspec_mono; [apply N.le_refl|exact HLf|intros a s' _ H; exact H|].
          apply (Hrec (f_ty f) (f_params f) s2 Hdf Hwf Hcf); [apply Ha2|apply (adv_octs _ _ Ha2 Ho1)].
        * intros v s3 Ha3 _. cbv beta iota. destruct (adv_pos_le _ _ Ha3) as (P23 & _).
          apply kspec_aret; [apply adv_refl; apply Ha3|]. intros _. lia.
    - eapply kspec_mono; [apply N.le_refl|apply N.le_refl| |apply (dec_seq_loopC_steps fs L fs 0%nat _ pres _ s1 Hfh Hs1 Ho1)].
      intros a s' Ha' H Hcc. cbv beta in H. destruct (adv_pos_le _ _ Ha') as (P1' & _).
      apply orb_prop in Hcc as [Hcc|Hcc]; [specialize (Hp1 Hcc); lia|specialize (H Hcc); lia].
  Qed.
End RecKB.

(* ------------------------------------------------------------------------------------------------ *)
(* parseFieldC *)

Lemma prim_steps {A} s2 K L (r : cres A) (mk : A -> val) (Q : dst -> Prop) : 1 <= L ->
  cgood s2 K (fun _ s' => Q s') r -> kspec s2 (K + 0) L (fun _ s' => Q s') (doa (a, s') <- clift r; aret (mk a, s')).
Proof.
  intros HL Hr. eapply kspec_bind; [apply kspec_clift; [exact HL|exact Hr]|].
  intros a s1 Ha1 Hq. cbv beta iota. apply kspec_aret; [apply adv_refl; apply Ha1|exact Hq].
Qed.

Ltac ext2k Hs x s1 Ha1 Hx y s2 Ha2 Hy :=
  eapply kspec_bind; [apply ext_bit_kspec; [cbn [lstep]; lia|exact Hs]|];
  intros x s1 Ha1 Hx; cbv beta iota;
  eapply kspec_bind; [apply ext_bit_kspec; [cbn [lstep]; lia|apply (adv_dinv _ _ Ha1)]|];
  intros y s2 Ha2 Hy; cbv beta iota.

Theorem parseFieldC_steps : forall fuel t p s, wf_ty t (psize_ok p) = true -> cons_ok t p = true -> dinv s -> octs s ->
  pspecC t p s (parseFieldC fuel t p s).
Proof.
  induction fuel as [|f IH]; intros t p s Hw Hc Hs Ho.
  - apply kspec_fail0. exact I.
  - cbn [parseFieldC].
    destruct (d_byteOffset s =? len (d_bytes s)).
    { unfold pspecC, kspec. cbn [atick aerr fst snd]. pose proof (kost_pos t). klia. }
    assert (Hrec : forall t' p' s', (ty_depth t' < ty_depth t)%nat -> wf_ty t' (psize_ok p') = true -> cons_ok t' p' = true ->
                     dinv s' -> octs s' -> pspecC t' p' s' (parseFieldC f t' p' s')).
    { intros t' p' s' _ Hw' Hc' Hs' Ho'. apply IH; assumption. }
    unfold pspecC.
    destruct t; cbv beta iota; cbn [negb]; rewrite ?andb_true_r, ?andb_false_r.
    + (* TInt *) apply (kspec_le _ (1 + (2 + (2 + (K_INT + 0))))); [|apply N.leb_le; reflexivity]. apply kspec_tick. ext2k Hs x s1 Ha1 Hx y s2 Ha2 Hy.
      eapply kspec_mono; [apply N.le_refl|apply N.le_refl| |apply prim_steps; [cbn [lstep]; lia|apply (parseIntegerC_cgood_cons s2 y p); [apply Ha2|apply (adv_octs _ _ Ha2 (adv_octs _ _ Ha1 Ho))]]].
      intros a s' Ha' HX. cbn [consumes]. apply (cons_prefix s s1 s2 s' _ _ _ x y Hx Hy Ha1 Ha2 Ha'). intros H1 _ H3. apply HX; assumption.
    + (* TEnum *) apply (kspec_le _ (1 + (2 + (2 + (K_CV + 0))))); [|apply N.leb_le; reflexivity]. apply kspec_tick. ext2k Hs x s1 Ha1 Hx y s2 Ha2 Hy.
      eapply kspec_mono; [apply N.le_refl|apply N.le_refl| |apply (prim_steps s2 _ _ _ VEnum (fun _ => True)); [cbn [lstep]; lia|]].
      * intros a s' Ha' _. cbn [consumes]. apply (cons_prefix s s1 s2 s' _ _ _ x y Hx Hy Ha1 Ha2 Ha'). discriminate.
      * eapply cgood_weaken; [apply Ha2|apply N.le_refl| |apply parseEnumeratedC_cgood; [apply Ha2|apply (adv_octs _ _ Ha2 (adv_octs _ _ Ha1 Ho))]].
        intros; exact I.
    + (* TBool *) apply (kspec_le _ (1 + (2 + (2 + (2 + 0))))); [|apply N.leb_le; reflexivity]. apply kspec_tick. ext2k Hs x s1 Ha1 Hx y s2 Ha2 Hy.
      eapply kspec_mono; [apply N.le_refl|apply N.le_refl| |apply prim_steps; [cbn [lstep]; lia|apply (parseBoolC_cgood s2); apply Ha2]].
      intros a s' Ha' HX. cbn [consumes]. apply (cons_prefix s s1 s2 s' _ _ _ x y Hx Hy Ha1 Ha2 Ha'). intros _ _ _. exact HX.
    + (* TBits *) apply (kspec_le _ (1 + (2 + (2 + (K_STR + 0))))); [|apply N.leb_le; reflexivity]. apply kspec_tick. ext2k Hs x s1 Ha1 Hx y s2 Ha2 Hy.
      eapply kspec_bind with (P := fun _ _ => True) (K2 := 0).
      * apply kspec_clift; [cbn [lstep]; lia|].
        eapply cgood_weaken; [apply Ha2|apply N.le_refl| |apply parseBitStringC_cgood; [apply Ha2|apply (adv_octs _ _ Ha2 (adv_octs _ _ Ha1 Ho))|apply psize_ok_spec; exact Hw]].
        intros; exact I.
      * intros [bs n] s3 Ha3 _. cbv beta iota. apply kspec_aret; [apply adv_refl; apply Ha3|].
        cbn [consumes]. apply (cons_prefix s s1 s2 s3 _ _ _ x y Hx Hy Ha1 Ha2 Ha3). discriminate.
    + (* TOctets *) apply (kspec_le _ (1 + (2 + (2 + (K_STR + 0))))); [|apply N.leb_le; reflexivity]. apply kspec_tick. ext2k Hs x s1 Ha1 Hx y s2 Ha2 Hy.
      eapply kspec_mono; [apply N.le_refl|apply N.le_refl| |apply prim_steps; [cbn [lstep]; lia|apply (parseOctetStringC_cgood s2 x (p_sizeLB p) (p_sizeUB p)); [apply Ha2|apply (adv_octs _ _ Ha2 (adv_octs _ _ Ha1 Ho))|apply psize_ok_spec; exact Hw]]].
      intros a s' Ha' HX. cbn [consumes]. apply (cons_prefix s s1 s2 s' _ _ _ x y Hx Hy Ha1 Ha2 Ha'). intros H1 _ _. apply HX; assumption.
    + (* TString *) apply (kspec_le _ (1 + (2 + (2 + (K_STR + 0))))); [|apply N.leb_le; reflexivity]. apply kspec_tick. ext2k Hs x s1 Ha1 Hx y s2 Ha2 Hy.
      eapply kspec_mono; [apply N.le_refl|apply N.le_refl| |apply prim_steps; [cbn [lstep]; lia|apply (parseOctetStringC_cgood s2 x (p_sizeLB p) (p_sizeUB p)); [apply Ha2|apply (adv_octs _ _ Ha2 (adv_octs _ _ Ha1 Ho))|apply psize_ok_spec; exact Hw]]].
      intros a s' Ha' HX. cbn [consumes]. apply (cons_prefix s s1 s2 s' _ _ _ x y Hx Hy Ha1 Ha2 Ha'). intros H1 _ _. apply HX; assumption.
    + (* TOid *) apply (kspec_le _ (1 + (2 + (2 + (0))))); [|apply N.leb_le; reflexivity]. apply kspec_tick. ext2k Hs x s1 Ha1 Hx y s2 Ha2 Hy.
      apply (kspec_fail0 s2 0). exact I.
    + (* TSlice *)
      eapply kspec_le; [apply kspec_tick|].
      * eapply kspec_bind; [apply ext_bit_kspec; [cbn [lstep]; lia|exact Hs]|].
        intros x s1 Ha1 Hx; cbv beta iota.
        eapply kspec_bind; [apply (kspec_aret s1 2 _ (fun _ s' => s' = s1)); [apply adv_refl; apply Ha1|reflexivity]|].
        intros y s2 Ha2 Hy; cbv beta iota. cbv beta in Hy. subst s2.
        eapply kspec_mono; [apply N.le_refl|apply N.le_refl| |
          apply (decSequenceOfC_steps (parseFieldC f) (ty_depth (TSlice t)) Hrec t p x s1);
            [cbn [ty_depth]; lia|exact Hw|exact Hc|apply Hx|apply Ha1|apply (adv_octs _ _ Ha1 Ho)]].
        intros a s' Ha' _. cbn [consumes]. intros Hse. destruct Hx as (_ & Hx2). specialize (Hx2 Hse).
        destruct (adv_pos_le _ _ Ha') as (P & _). lia.
      * cbn [kost]. lia.
    + (* TPtr *)
      apply (kspec_le _ (1 + (kost t + 0))); [|cbn [kost]; lia]. apply kspec_tick.
      eapply kspec_bind; [apply (Hrec t p s); [cbn [ty_depth]; lia|exact Hw|exact Hc|exact Hs|exact Ho]|].
      intros v s1 Ha1 Hp1. cbv beta iota. apply kspec_aret; [apply adv_refl; apply Ha1|exact Hp1].
    + (* TStruct *)
      rewrite kost_struct, lstep_struct.
      eapply kspec_le; [apply kspec_tick|].
      * eapply kspec_bind; [apply ext_bit_kspec; [lia|exact Hs]|].
        intros x s1 Ha1 Hx; cbv beta iota.
        eapply kspec_bind; [apply ext_bit_kspec; [lia|apply (adv_dinv _ _ Ha1)]|].
        intros y s2 Ha2 Hy; cbv beta iota.
        eapply kspec_mono; [apply N.le_refl|apply N.le_refl| |
          apply (decStructC_steps (parseFieldC f) (ty_depth (TStruct fields)) Hrec fields p y s2);
            [lia|exact Hw|exact Hc|apply Ha2|apply (adv_octs _ _ Ha2 (adv_octs _ _ Ha1 Ho))]].
        intros a s' Ha' HX. rewrite consumes_struct.
        apply (cons_prefix s s1 s2 s' _ _ _ x y Hx Hy Ha1 Ha2 Ha'). intros H1 _ _. apply HX. exact H1.
      * lia.
Qed.

(* ---- UnmarshalWithParams: steps <= kost t + lstep t * (bits of input), for any fuel *)
Theorem unmarshal_steps_bound fuel t p bs :
  wf_ty t (psize_ok p) = true -> cons_ok t p = true -> bytes_ok bs -> len bs < MAXLEN ->
  unmarshal_steps fuel t p bs <= kost t + lstep t * (8 * len bs).
Proof.
  intros Hw Hc Hb Hl. unfold unmarshal_steps, unmarshal_costed.
  assert (Hs : dinv (mkdst bs 0 0)).
  { unfold dinv. cbn [d_bytes d_byteOffset d_bitsOffset]. repeat split; try lia. }
  pose proof (parseFieldC_steps fuel t p (mkdst bs 0 0) Hw Hc Hs Hb) as H. unfold pspecC, kspec in H.
  change (pos (mkdst bs 0 0)) with 0 in H. rewrite !N.sub_0_r in H. cbn [d_bytes] in H.
  destruct (fst (parseFieldC fuel t p (mkdst bs 0 0))) as [[v s']|e|q|]; try exact H.
  destruct H as (Ha & _ & Hn). destruct (adv_pos_le _ _ Ha) as (_ & P). cbn [d_bytes] in P.
  pose proof (N.mul_le_mono_l (pos s') (8 * len bs) (lstep t) P). lia.
Qed.
