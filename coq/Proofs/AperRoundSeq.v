(* Structural C04 theorem, part 2: helpers for SEQUENCE / SEQUENCE OF / CHOICE / open type decoding. *)
From Coq Require Import String NArith ZArith List Bool Lia Arith.
From Coq Require Import ZifyN ZifyNat ZifyBool.
Require Import GoSlice Bits AperCommon AperEnc AperDec Asn1 X691 Asn1Tags AperBits AperBitsGet AperBitsPut AperEncProofs
        AperStructPrim AperStructStr AperStructDefs AperStructLeaf AperStructSeq AperStructFld AperStructMain
        AperRoundGet AperRoundPrim AperRoundLeaf AperRoundStr AperRoundBits AperRoundDefs AperRoundNe AperRoundField.
Import ListNotations.
Open Scope N_scope.
Ltac Zify.zify_post_hook ::= Z.div_mod_to_equations.
Local Arguments N.add : simpl never.
Local Arguments N.mul : simpl never.
Local Arguments N.sub : simpl never.
Local Arguments N.div : simpl never.
Local Arguments N.modulo : simpl never.
Local Arguments N.land : simpl never.
Local Arguments N.lor : simpl never.
Local Arguments N.shiftr : simpl never.
Local Arguments N.shiftl : simpl never.
Local Arguments N.pow : simpl never.

(* ---------------------------------------------------------------- set_nth / zero_fields *)
Lemma set_nth_length l : forall i v, length (set_nth l i v) = length l.
Proof. induction l as [|x l IH]; intros i v; destruct i; cbn [set_nth length]; auto. Qed.
Lemma set_nth_app dv z rest v : set_nth (dv ++ z :: rest) (length dv) v = dv ++ v :: rest.
Proof. induction dv as [|x dv IH]; cbn [app length set_nth]; [reflexivity|]. rewrite IH. reflexivity. Qed.
Lemma nth_error_set_nth_same l : forall i v, (i < length l)%nat -> nth_error (set_nth l i v) i = Some v.
Proof. induction l as [|x l IH]; intros i v H; [cbn in H; lia|]. destruct i; cbn [set_nth nth_error]; [reflexivity|]. apply IH. cbn in H. lia. Qed.
Lemma nth_error_set_nth_other l : forall i j v, i <> j -> nth_error (set_nth l i v) j = nth_error l j.
Proof.
  induction l as [|x l IH]; intros i j v H; [destruct i; reflexivity|]. destruct i, j; cbn [set_nth nth_error]; try reflexivity; [lia|].
  apply IH. lia.
Qed.
Lemma zero_fields_length fs : length (zero_fields fs) = length fs.
Proof. unfold zero_fields. apply map_length. Qed.
Lemma zero_fields_cons f fr : zero_fields (f :: fr) = zero_val (f_ty f) :: zero_fields fr.
Proof. reflexivity. Qed.

(* ---------------------------------------------------------------- the identifier an open type is dispatched on *)
Lemma get_ref_int f z : get_ref (S f) TInt (VInt z) = Ok z.
Proof. reflexivity. Qed.
Lemma get_ref_struct1 f nm p' z : String.eqb nm "Present" = false ->
  get_ref (S (S f)) (TStruct [(nm, p', TInt)]) (VStruct [VInt z]) = Ok z.
Proof. intros H. cbn [get_ref]. unfold f_name. cbn [fst]. rewrite H. reflexivity. Qed.

Lemma get_ref_key t p n v sv k : ref_shape t = true -> abs_f n t p v = Some sv -> key_of sv = Some k -> get_ref REF_FUEL t v = Ok k.
Proof.
  intros Hs Ha Hk. destruct t as [| | | | | | | | |fs]; try discriminate.
  - destruct n; [discriminate|]. destruct v; cbn [abs_f] in Ha; try discriminate. injection Ha as <-. cbn [key_of] in Hk. injection Hk as ->. reflexivity.
  - destruct fs as [|[[nm p'] t'] tl]; [discriminate|]. destruct t'; try discriminate. destruct tl; [|discriminate]. cbn [ref_shape] in Hs.
    assert (Ech : is_choice [(nm, p', TInt)] = false).
    { unfold is_choice, f_name. cbn [fst]. destruct (String.eqb nm "Present"); [discriminate|reflexivity]. }
    destruct n as [|n]; [discriminate|]. destruct v as [| | | | | |vs| |]; try (cbn [abs_f] in Ha; discriminate).
    destruct vs as [|x [|? ?]]; try (cbn [abs_f length Nat.eqb negb] in Ha; discriminate).
    rewrite abs_f_seq in Ha by (try exact Ech; reflexivity).
    cbn [combine map all_some habs f_ty f_params fst snd] in Ha.
    destruct n as [|n]; [discriminate|]. destruct x; cbn [abs_f] in Ha; try discriminate. injection Ha as <-.
    cbn [key_of] in Hk. injection Hk as ->. unfold REF_FUEL. change 16%nat with (S (S 14)). apply get_ref_struct1.
    destruct (String.eqb nm "Present"); [discriminate|reflexivity].
Qed.

Lemma dec_find_alt_key r : forall cs j0 m a, (1 <= j0)%nat -> AperDec.find_alt cs j0 r = (j0 + m)%nat -> nth_error cs m = Some a ->
  p_refValue (f_params a) = Some r.
Proof.
  induction cs as [|c cs IH]; intros j0 m a Hj Hf Hn; [destruct m; discriminate|]. cbn [AperDec.find_alt] in Hf.
  destruct (p_refValue (f_params c)) as [x|] eqn:Ex.
  - destruct (x =? r)%Z eqn:Exr.
    + assert (m = O) by lia. subst m. cbn [nth_error] in Hn. injection Hn as <-. rewrite Ex. f_equal. lia.
    + destruct m as [|m]; [exfalso; destruct (dec_find_alt_range cs (S j0) r); lia|]. cbn [nth_error] in Hn.
      eapply (IH (S j0) m a); eauto; lia.
  - destruct m as [|m]; [exfalso; destruct (dec_find_alt_range cs (S j0) r); lia|]. cbn [nth_error] in Hn.
    eapply (IH (S j0) m a); eauto; lia.
Qed.

Lemma find_alt_link' f1 r : forall cs alts j m a,
  all_some (map (alt_key f1) cs) = Some alts -> (1 <= j)%nat ->
  AperDec.find_alt cs j r = (j + m)%nat -> nth_error cs m = Some a ->
  X691.find_alt r alts = Some (t2a f1 (f_ty a) (f_params a)).
Proof. exact (find_alt_link f1 r). Qed.

(* ---------------------------------------------------------------- the open type wrapper *)
Lemma bits_of_bytes_ne (l : list N) : l <> [] -> bits_of_bytes l <> [].
Proof.
  destruct l as [|x l]; [congruence|]. intros _. rewrite bits_of_bytes_cons. destruct (bits_of_N 8 x) eqn:E; [|discriminate].
  apply (f_equal (@length bool)) in E. rewrite bits_of_N_length in E. discriminate.
Qed.

Lemma open_dec_once k d bs pos octets L :
  at_pos d bs pos -> buf bs -> bok octets -> 0 < len octets < 16384 -> lendet (len octets) pos = XOk L ->
  bits_at bs pos (L ++ bits_of_bytes octets) ->
  dec_ok (open_dec_loop (S k) d []) bs (pos + length (L ++ bits_of_bytes octets)) octets.
Proof.
  intros Hd Hb Hok Hn HL Hbits. cbn [open_dec_loop].
  pose proof (lendet_aligned _ _ _ HL) as Hal.
  assert (Hne : octets <> []) by (intros ->; cbn in Hn; lia).
  pose proof (bits_at_fit _ _ _ Hbits ltac:(apply app_ne_r; apply bits_of_bytes_ne; exact Hne)) as Hfit. rewrite app_length, bits_of_bytes_length in Hfit.
  apply bits_at_app in Hbits. destruct Hbits as [Hb1 Hb2].
  eapply dec_ok_bind; [apply (rd_lendet d bs pos (len octets) L); auto; lia|]. intros d1 Hd1. cbv beta iota.
  assert (len octets =? 0 = false) as -> by lia.
  assert (Hp0 : pad_len (pos + length L) = O) by (apply pad_len_0; exact Hal).
  assert (Hnil : forall q, (q <= 8 * length bs)%nat -> (q mod 8 = 0)%nat -> bits_at bs q (align q)).
  { intros q Hq Hq8. unfold align. rewrite pad_len_0 by exact Hq8. apply bits_at_nil. exact Hq. }
  eapply dec_ok_bind; [apply rd_align; eauto; apply Hnil; lia|]. intros d2 Hd2. cbv beta. rewrite Hp0, Nat.add_0_r in Hd2.
  destruct (rd_aligned_octets d2 bs _ octets Hd2 Hal Hb Hok Hne Hb2) as (Hs & Hat & Hfit2).
  pose proof Hd2 as (Q1 & Q2 & Q3). pose proof Hb as [_ Hlen]. unfold LIM in Hlen.
  assert (Hchk : len (d_bytes d2) <? u64 (len octets + d_byteOffset d2) = false).
  { rewrite Q1, Q2. rewrite u64_small by (unfold TWO64, len in *; lia). unfold len in *. lia. }
  rewrite Hchk, Hs.
  eapply dec_ok_bind.
  - apply rd_align; eauto. apply Hnil; lia.
  - intros d3 Hd3. exists d3. split; [reflexivity|]. rewrite pad_len_0 in Hd3 by lia. rewrite Nat.add_0_r in Hd3.
    rewrite app_length, bits_of_bytes_length, Nat.add_assoc. exact Hd3.
Qed.

Lemma pack_bits_at inner : bits_at (pack inner) 0 inner /\ bok (pack inner) /\ (1 <= length (pack inner) /\ 8 * length (pack inner) <= length inner + 8)%nat.
Proof.
  assert (H : exists bs, bok bs /\ bits_of_bytes bs = inner ++ repeat false (pad_len (length inner))).
  { (* the octets of the padded bit string *)
    assert (G : forall k (l : bits), length l = (8 * k)%nat -> exists bs, bok bs /\ bits_of_bytes bs = l).
    { induction k as [|k IH]; intros l Hl.
      - destruct l; [|cbn in Hl; lia]. exists []. split; [constructor|reflexivity].
      - destruct (IH (skipn 8 l)) as (bs & Hb & Hbits); [rewrite skipn_length; lia|].
        exists (N_of_bits (firstn 8 l) :: bs). split.
        + apply bok_cons. split; [|exact Hb]. pose proof (N_of_bits_lt (firstn 8 l)) as H. rewrite firstn_length_le in H by lia. exact H.
        + rewrite bits_of_bytes_cons, Hbits. rewrite <- (firstn_skipn 8 l) at 3. f_equal.
          replace 8%nat with (length (firstn 8 l)) at 1 by (apply firstn_length_le; lia). apply bits_of_N_of_bits. }
    apply (G ((length inner + pad_len (length inner)) / 8)%nat). rewrite app_length, repeat_length. pose proof (pad_len_spec (length inner)). lia. }
  destruct H as (bs & Hb & Hbits). pose proof (pack_bits_repr bs inner Hb Hbits) as Hp.
  unfold pack. rewrite Hp. destruct bs as [|x bs'] eqn:E.
  - destruct inner; [|discriminate]. split; [exists (repeat false 8); reflexivity|]. split; [constructor; [lia|constructor]|cbn; lia].
  - rewrite <- E in *. split; [exists (repeat false (pad_len (length inner))); cbn [skipn]; exact Hbits|]. split; [exact Hb|].
    apply (f_equal (@length bool)) in Hbits. rewrite bits_of_bytes_length, app_length, repeat_length in Hbits. pose proof (pad_len_lt (length inner)).
    rewrite E in *. cbn [length] in *. lia.
Qed.
