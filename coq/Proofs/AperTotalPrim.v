(* C14, part 1: octet/value bounds and cursor progress of the primitive readers; totality of
   parseOctetString, parseBitString and of the open-type fragment loop (Model/AperDec.v).

   State predicates:
     dinv s  (Proofs/AperDecProofs.v)  byteOffset <= len, bitsOffset < 8, partially read octet exists, len < 2^32
     octs s                            every element of the buffer is an octet (< 256)
     pos s = 8 * byteOffset + bitsOffset
     adv s s'                          dinv s', same buffer, pos s <= pos s'  (the cursor never moves backwards) *)
From Coq Require Import NArith ZArith List Bool Lia Arith.
From Coq Require Import ZifyN ZifyNat ZifyBool.
Require Import GoSlice AperCommon AperEnc AperDec AperDecProofs.
Import ListNotations.
Open Scope N_scope.
Ltac Zify.zify_post_hook ::= Z.div_mod_to_equations.

Local Arguments N.add : simpl never.
Local Arguments N.mul : simpl never.
Local Arguments N.sub : simpl never.
Local Arguments N.div : simpl never.
Local Arguments N.modulo : simpl never.
Local Arguments N.land : simpl never.
Local Arguments N.lor : simpl never.
Local Arguments N.shiftr : simpl never.
Local Arguments N.shiftl : simpl never.
Local Arguments N.pow : simpl never.

(* ------------------------------------------------------------------------------------------------ *)
(* octets *)

Definition octet (b : N) : Prop := b < 256.
Definition octets (l : list N) : Prop := Forall octet l.

Lemma lt_pow2_shiftr x n : x < 2 ^ n <-> N.shiftr x n = 0.
Proof.
  rewrite N.shiftr_div_pow2. assert (2 ^ n <> 0) by (apply N.pow_nonzero; discriminate).
  symmetry. apply N.div_small_iff. assumption.
Qed.

Lemma lor_lt_pow2 a b n : a < 2 ^ n -> b < 2 ^ n -> N.lor a b < 2 ^ n.
Proof.
  rewrite !lt_pow2_shiftr. intros Ha Hb. rewrite N.shiftr_lor, Ha, Hb. reflexivity.
Qed.

Lemma land_lt_pow2_r a b n : b < 2 ^ n -> N.land a b < 2 ^ n.
Proof.
  rewrite !lt_pow2_shiftr. intros Hb. rewrite N.shiftr_land, Hb. apply N.land_0_r.
Qed.

Lemma land_lt_pow2_l a b n : a < 2 ^ n -> N.land a b < 2 ^ n.
Proof. rewrite N.land_comm. apply land_lt_pow2_r. Qed.

Lemma shiftr_le x k : N.shiftr x k <= x.
Proof.
  rewrite N.shiftr_div_pow2. assert (2 ^ k <> 0) by (apply N.pow_nonzero; discriminate).
  assert (1 <= 2 ^ k) by lia.
  apply N.div_le_upper_bound; [assumption|]. nia.
Qed.

Lemma shl8_octet a k : octet (shl8 a k).
Proof. unfold shl8, octet. destruct (k <? 8); [apply N.mod_lt; discriminate|lia]. Qed.

Lemma shr8_octet b k : octet b -> octet (shr8 b k).
Proof. unfold shr8, octet. intros H. destruct (k <? 8); [|lia]. pose proof (shiftr_le b k). lia. Qed.

Lemma lor_octet a b : octet a -> octet b -> octet (N.lor a b).
Proof. unfold octet. change 256 with (2 ^ 8). apply lor_lt_pow2. Qed.

Lemma land_octet_l a b : octet a -> octet (N.land a b).
Proof. unfold octet. change 256 with (2 ^ 8). apply land_lt_pow2_l. Qed.

Lemma octets_nth l i : octets l -> octet (nth i l 0).
Proof.
  intros H. destruct (Nat.lt_ge_cases i (length l)) as [Hl|Hl].
  - apply (proj1 (Forall_nth _ _) H). exact Hl.
  - rewrite nth_overflow by exact Hl. unfold octet. lia.
Qed.

Lemma idx_octet l i b : octets l -> idx l i = Ok b -> octet b.
Proof.
  unfold idx. intros H. destruct (i <? len l); [|discriminate]. intros E. injection E as <-. apply octets_nth. exact H.
Qed.

Lemma octets_upd_nat l : forall i v, octets l -> octet v -> octets (upd_nat l i v).
Proof.
  induction l as [|x l IH]; intros i v Hl Hv; destruct i; cbn [upd_nat]; try exact Hl.
  - inversion Hl; subst. constructor; assumption.
  - inversion Hl; subst. constructor; [assumption|]. apply IH; assumption.
Qed.

Lemma upd_octets l i v l' : octets l -> octet v -> upd l i v = Ok l' -> octets l'.
Proof.
  unfold upd. intros Hl Hv. destruct (i <? len l); [|discriminate]. intros E. injection E as <-.
  apply octets_upd_nat; assumption.
Qed.

Lemma octets_repeat0 n : octets (repeat 0 n).
Proof. induction n; cbn [repeat]; constructor; [unfold octet; lia|assumption]. Qed.

Lemma octets_firstn (l : list N) : forall n, octets l -> octets (firstn n l).
Proof.
  induction l as [|x l IH]; intros n H; destruct n; cbn [firstn]; try constructor.
  - inversion H; assumption.
  - inversion H; subst. apply IH. assumption.
Qed.

Lemma octets_skipn (l : list N) : forall n, octets l -> octets (skipn n l).
Proof.
  induction l as [|x l IH]; intros n H; destruct n; cbn [skipn]; try assumption.
  inversion H; subst. apply IH. assumption.
Qed.

Lemma octets_app a b : octets a -> octets b -> octets (a ++ b).
Proof. intros. apply Forall_app. split; assumption. Qed.

Lemma bind_ok {A B} (r : res A) (f : A -> res B) b : bind r f = Ok b -> exists a, r = Ok a /\ f a = Ok b.
Proof. destruct r; cbn [bind]; try discriminate. intros H. eexists; split; [reflexivity|exact H]. Qed.

Lemma gbs_loop_octets src off : octets src -> forall cnt i dst d,
  octets dst -> gbs_loop cnt i src dst off = Ok d -> octets d.
Proof.
  intros Hs. induction cnt as [|cnt IH]; intros i dst d Hd; cbn [gbs_loop].
  - intros E. injection E as <-. exact Hd.
  - intros E. apply bind_ok in E as (a & Ea & E). apply bind_ok in E as (b & Eb & E).
    apply bind_ok in E as (d1 & Ed1 & E).
    apply (IH (i + 1) d1 d); [|exact E].
    apply (upd_octets _ _ _ _ Hd) in Ed1; [exact Ed1|].
    apply lor_octet; [apply shl8_octet|apply shr8_octet; apply (idx_octet _ _ _ Hs Eb)].
Qed.

Lemma GetBitString_octets src off n d : octets src -> GetBitString src off n = Ok d -> octets d.
Proof.
  intros Hs. unfold GetBitString. cbv zeta.
  destruct (_ <? n); [discriminate|].
  destruct (n =? 0); [intros E; injection E as <-; constructor|].
  intros E. apply bind_ok in E as (d0 & E0 & E).
  assert (H0 : octets d0).
  { unfold make_bytes in E0. destruct (_ <=? MAXALLOC); [|discriminate]. injection E0 as <-. apply octets_repeat0. }
  apply bind_ok in E as (d1 & E1 & E).
  assert (H1 : octets d1) by (apply (gbs_loop_octets _ _ Hs _ _ _ _ H0 E1)).
  apply bind_ok in E as (d2 & E2 & E).
  assert (H2 : octets d2).
  { destruct (_ =? _) in E2.
    - apply bind_ok in E2 as (a & Ea & E2). apply (upd_octets _ _ _ _ H1) in E2; [exact E2|apply shl8_octet].
    - injection E2 as <-. exact H1. }
  apply bind_ok in E as (l & El & E).
  apply (upd_octets _ _ _ _ H2) in E; [exact E|]. apply land_octet_l. apply (idx_octet _ _ _ H2 El).
Qed.

(* ---- GetBitsValue returns a value of at most numBits bits *)
Lemma shl64_le v k : shl64 v k <= v * 2 ^ k.
Proof.
  unfold shl64. destruct (k <? 64); [|lia]. rewrite N.shiftl_mul_pow2.
  apply N.mod_le. unfold TWO64. discriminate.
Qed.

Lemma gbv_loop_bound dst : octets dst -> forall cnt i v k r,
  v < 2 ^ k -> gbv_loop cnt i dst v = Ok r -> r < 2 ^ (k + 8 * N.of_nat cnt).
Proof.
  intros Hd. induction cnt as [|cnt IH]; intros i v k r Hv; cbn [gbv_loop].
  - intros E. injection E as <-. replace (k + 8 * N.of_nat 0) with k by lia. exact Hv.
  - intros E. apply bind_ok in E as (b & Eb & E).
    replace (k + 8 * N.of_nat (S cnt)) with ((k + 8) + 8 * N.of_nat cnt) by lia.
    apply (IH (i + 1) (N.lor (shl64 v 8) b) (k + 8) r); [|exact E].
    apply lor_lt_pow2.
    + pose proof (shl64_le v 8). rewrite N.pow_add_r. assert (0 < 2 ^ 8) by (cbv; reflexivity). nia.
    + pose proof (idx_octet _ _ _ Hd Eb) as Ho. unfold octet in Ho. rewrite N.pow_add_r.
      assert (1 <= 2 ^ k) by (assert (2 ^ k <> 0) by (apply N.pow_nonzero; discriminate); lia).
      change (2 ^ 8) with 256. nia.
Qed.

Lemma tail_bound value q m x : value < 2 ^ q ->
  N.lor (shl64 value m) (N.land x (N.shiftl 1 m - 1)) < 2 ^ (q + m).
Proof.
  intros Hv. rewrite N.pow_add_r.
  assert (Hp : 0 < 2 ^ m) by (assert (2 ^ m <> 0) by (apply N.pow_nonzero; discriminate); lia).
  assert (Hq : 0 < 2 ^ q) by (assert (2 ^ q <> 0) by (apply N.pow_nonzero; discriminate); lia).
  rewrite <- N.pow_add_r. apply lor_lt_pow2.
  - pose proof (shl64_le value m). rewrite N.pow_add_r. nia.
  - apply land_lt_pow2_r. rewrite N.shiftl_mul_pow2. rewrite N.pow_add_r. nia.
Qed.

Lemma GetBitsValue_bound src off n v : octets src -> GetBitsValue src off n = Ok v -> v < 2 ^ n.
Proof.
  intros Hs. unfold GetBitsValue. intros E. apply bind_ok in E as (d & Ed & E).
  pose proof (GetBitString_octets _ _ _ _ Hs Ed) as Hd.
  apply bind_ok in E as (value & Ev & E).
  apply (gbv_loop_bound d Hd _ _ _ 0) in Ev; [|cbv; reflexivity].
  rewrite N2Nat.id in Ev. rewrite land7 in E.
  destruct (n mod 8 =? 0) eqn:E8.
  - injection E as <-. replace (0 + 8 * (n / 8)) with n in Ev by lia. exact Ev.
  - apply bind_ok in E as (l & El & E). injection E as <-.
    replace (0 + 8 * (n / 8)) with (8 * (n / 8)) in Ev by lia.
    replace (2 ^ n) with (2 ^ (8 * (n / 8) + n mod 8)) by (f_equal; lia).
    apply tail_bound. exact Ev.
Qed.

(* ------------------------------------------------------------------------------------------------ *)
(* the cursor *)

Definition octs (s : dst) : Prop := octets (d_bytes s).
Definition pos (s : dst) : N := 8 * d_byteOffset s + d_bitsOffset s.
Definition adv (s s' : dst) : Prop := dinv s' /\ d_bytes s' = d_bytes s /\ pos s <= pos s'.

Lemma adv_refl s : dinv s -> adv s s.
Proof. intros H. unfold adv. split; [exact H|split; [reflexivity|lia]]. Qed.
Lemma adv_trans a b c : adv a b -> adv b c -> adv a c.
Proof. unfold adv. intros (H1 & H2 & H3) (H4 & H5 & H6). split; [exact H4|split; [congruence|lia]]. Qed.
Lemma adv_octs s s' : adv s s' -> octs s -> octs s'.
Proof. unfold adv, octs. intros (_ & -> & _) H. exact H. Qed.
Lemma dinv_pos s : dinv s -> pos s <= 8 * len (d_bytes s).
Proof. unfold dinv, pos. intros (H1 & H2 & H3 & H4). lia. Qed.

(* getBitsValue: error leaves the state alone; success moves numBits forward and yields a numBits-bit value *)
Lemma getBitsValue_spec s n : dinv s ->
  match getBitsValue s n with
  | (Ok v, s') => adv s s' /\ pos s' = pos s + n /\ (octs s -> v < 2 ^ n)
  | (Err _, s') => s' = s
  | _ => False
  end.
Proof.
  intros (H1 & H2 & H3 & H4). unfold getBitsValue, slice_from.
  assert (d_byteOffset s <=? len (d_bytes s) = true) as -> by lia.
  pose proof (len_skipn (d_bytes s) (d_byteOffset s) H1) as Hsk.
  destruct (GetBitsValue_total (skipn (N.to_nat (d_byteOffset s)) (d_bytes s)) (d_bitsOffset s) n) as [[e E]|[v [E Hv]]];
    try lia; try (rewrite Hsk; unfold MAXLEN in *; lia); rewrite E; [reflexivity|].
  rewrite Hsk in Hv. unfold MAXLEN in *.
  split; [|split].
  - unfold adv, bitCarry, dinv, pos; cbn [d_bytes d_byteOffset d_bitsOffset].
    rewrite (u64_small (d_bitsOffset s + n)) by (unfold TWO64; lia). rewrite shiftr3, land7.
    rewrite u64_small by (unfold TWO64; lia).
    repeat split; try lia; unfold MAXLEN; lia.
  - unfold bitCarry, pos; cbn [d_bytes d_byteOffset d_bitsOffset].
    rewrite (u64_small (d_bitsOffset s + n)) by (unfold TWO64; lia). rewrite shiftr3, land7.
    rewrite u64_small by (unfold TWO64; lia). lia.
  - intros Ho. apply (GetBitsValue_bound _ _ _ _ (octets_skipn _ _ Ho) E).
Qed.

Lemma getBitString_spec s n : dinv s ->
  match getBitString s n with
  | (Ok v, s') => adv s s' /\ pos s' = pos s + n /\ len v = (n + 7) / 8 /\ (octs s -> octets v)
  | (Err _, s') => s' = s
  | _ => False
  end.
Proof.
  intros (H1 & H2 & H3 & H4). unfold getBitString, slice_from.
  assert (d_byteOffset s <=? len (d_bytes s) = true) as -> by lia.
  pose proof (len_skipn (d_bytes s) (d_byteOffset s) H1) as Hsk.
  destruct (GetBitString_total (skipn (N.to_nat (d_byteOffset s)) (d_bytes s)) (d_bitsOffset s) n) as [[e E]|[v [E [Hl Hv]]]];
    try lia; try (rewrite Hsk; unfold MAXLEN in *; lia); rewrite E; [reflexivity|].
  rewrite Hsk in Hv. unfold MAXLEN in *.
  split; [|split; [|split]].
  - unfold adv, bitCarry, dinv, pos; cbn [d_bytes d_byteOffset d_bitsOffset].
    rewrite (u64_small (d_bitsOffset s + n)) by (unfold TWO64; lia). rewrite shiftr3, land7.
    rewrite u64_small by (unfold TWO64; lia).
    repeat split; try lia; unfold MAXLEN; lia.
  - unfold bitCarry, pos; cbn [d_bytes d_byteOffset d_bitsOffset].
    rewrite (u64_small (d_bitsOffset s + n)) by (unfold TWO64; lia). rewrite shiftr3, land7.
    rewrite u64_small by (unfold TWO64; lia). lia.
  - exact Hl.
  - intros Ho. apply (GetBitString_octets _ _ _ _ (octets_skipn _ _ Ho) E).
Qed.

(* ------------------------------------------------------------------------------------------------ *)
(* readers: never Panic / OutOfFuel; the state returned (also with an error) is an advance of the initial one;
   on success the postcondition Q holds *)

Definition sgood {A} (s0 : dst) (Q : A -> dst -> Prop) (r : sres A) : Prop :=
  match r with
  | (Ok a, s') => adv s0 s' /\ Q a s'
  | (Err _, s') => adv s0 s'
  | _ => False
  end.

Lemma sgood_bind {A B} s0 (P : A -> dst -> Prop) (Q : B -> dst -> Prop) (r : sres A) (f : A -> dst -> sres B) :
  sgood s0 P r -> (forall a s, adv s0 s -> P a s -> sgood s0 Q (f a s)) -> sgood s0 Q (sbind r f).
Proof.
  destruct r as [[a|e|p|] s]; cbn [sgood sbind]; try contradiction.
  - intros (Ha & HP) Hf. apply Hf; assumption.
  - intros Ha _. exact Ha.
Qed.

Lemma sgood_weaken {A} s0 s (P Q : A -> dst -> Prop) (r : sres A) :
  adv s0 s -> sgood s P r -> (forall a s', adv s s' -> P a s' -> Q a s') -> sgood s0 Q r.
Proof.
  intros H0. destruct r as [[a|e|p|] s']; cbn [sgood]; try contradiction.
  - intros (Ha & HP) HQ. split; [apply (adv_trans _ _ _ H0 Ha)|apply HQ; assumption].
  - intros Ha _. apply (adv_trans _ _ _ H0 Ha).
Qed.

Lemma sgood_ok {A} s0 (Q : A -> dst -> Prop) a s : adv s0 s -> Q a s -> sgood s0 Q (Ok a, s).
Proof. intros. cbn [sgood]. split; assumption. Qed.
Lemma sgood_err {A} s0 (Q : A -> dst -> Prop) e s : adv s0 s -> sgood s0 Q (Err e, s).
Proof. intros. cbn [sgood]. assumption. Qed.

Lemma getBitsValue_good' s n : dinv s ->
  sgood s (fun v s' => pos s' = pos s + n /\ (octs s -> v < 2 ^ n)) (getBitsValue s n).
Proof.
  intros Hs. pose proof (getBitsValue_spec s n Hs) as H. destruct (getBitsValue s n) as [[v|e|p|] s']; cbn [sgood]; try contradiction.
  - destruct H as (H1 & H2 & H3). auto.
  - subst s'. apply adv_refl. exact Hs.
Qed.

Lemma getBitString_good' s n : dinv s ->
  sgood s (fun v s' => pos s' = pos s + n /\ len v = (n + 7) / 8 /\ (octs s -> octets v)) (getBitString s n).
Proof.
  intros Hs. pose proof (getBitString_spec s n Hs) as H. destruct (getBitString s n) as [[v|e|p|] s']; cbn [sgood]; try contradiction.
  - destruct H as (H1 & H2 & H3). auto.
  - subst s'. apply adv_refl. exact Hs.
Qed.

Lemma parseAlignBits_good' s : dinv s -> sgood s (fun _ s' => d_bitsOffset s' = 0) (parseAlignBits s).
Proof.
  intros Hs. unfold parseAlignBits. pose proof Hs as (H1 & H2 & H3 & H4). rewrite land7.
  assert (Hm : d_bitsOffset s mod 8 = d_bitsOffset s) by (apply N.mod_small; lia). rewrite Hm.
  destruct (0 <? d_bitsOffset s) eqn:E.
  - eapply sgood_bind; [apply getBitsValue_good'; exact Hs|].
    intros v s' Ha (Hp & _). cbv beta.
    assert (d_bitsOffset s' = 0).
    { destruct Ha as ((A1 & A2 & A3 & A4) & _ & _). unfold pos in Hp. lia. }
    destruct (v =? 0); [apply sgood_ok|apply sgood_err]; assumption.
  - assert (d_bitsOffset s = 0) by lia.
    assert (negb (d_bitsOffset s =? 0) = false) as -> by lia. apply sgood_ok; [apply adv_refl; exact Hs|assumption].
Qed.

Lemma bits_loop_ge x : forall f i, i <= bits_loop f i x.
Proof. induction f as [|f IH]; intros i; cbn [bits_loop]; [lia|]. destruct (_ >=? _)%Z; [lia|]. specialize (IH (i + 1)). lia. Qed.
Lemma go_bits_ge_1 x : 1 <= go_bits x.
Proof. unfold go_bits. apply bits_loop_ge. Qed.

Lemma pow2_le_65536 n : n <= 16 -> 2 ^ n <= 65536.
Proof. intros H. change 65536 with (2 ^ 16). apply N.pow_le_mono_r; [discriminate|exact H]. Qed.

Lemma parseConstraintValue_good' s r : dinv s -> octs s ->
  sgood s (fun v s' => pos s + 1 <= pos s' /\ v < 65536) (parseConstraintValue s r).
Proof.
  intros Hs Ho. unfold parseConstraintValue.
  destruct (r <=? 255)%Z.
  - destruct (r <? 0)%Z; [apply sgood_err, adv_refl, Hs|].
    eapply sgood_weaken; [apply adv_refl, Hs|apply getBitsValue_good', Hs|].
    intros v s' _ (Hp & Hv). pose proof (go_bits_ge_1 r). pose proof (go_bits_le_8 r).
    split; [lia|]. specialize (Hv Ho). pose proof (pow2_le_65536 (go_bits r)). lia.
  - destruct (r <=? 65536)%Z; [|apply sgood_err, adv_refl, Hs].
    eapply sgood_bind; [apply parseAlignBits_good', Hs|].
    intros _ s1 Ha1 _. cbv beta.
    eapply sgood_weaken; [exact Ha1|apply getBitsValue_good'; apply Ha1|].
    intros v s' _ (Hp & Hv). specialize (Hv (adv_octs _ _ Ha1 Ho)). destruct Ha1 as (_ & _ & Hp1).
    destruct (r =? 256)%Z.
    + change (1 * 8) with 8 in *. split; [lia|]. change (2 ^ 8) with 256 in Hv. lia.
    + change (2 * 8) with 16 in *. split; [lia|]. change (2 ^ 16) with 65536 in Hv. lia.
Qed.

(* the largest value a constrained whole number of range [r] can decode to (the decoder does not compare it with r) *)
Definition cv_ub (r : Z) : N := if (r <=? 255)%Z then 2 ^ go_bits r - 1 else if (r =? 256)%Z then 255 else 65535.

Lemma parseConstraintValue_ub s r : dinv s -> octs s ->
  sgood s (fun v s' => pos s + 1 <= pos s' /\ v <= cv_ub r) (parseConstraintValue s r).
Proof.
  intros Hs Ho. unfold parseConstraintValue, cv_ub.
  destruct (r <=? 255)%Z.
  - destruct (r <? 0)%Z; [apply sgood_err, adv_refl, Hs|].
    eapply sgood_weaken; [apply adv_refl, Hs|apply getBitsValue_good', Hs|].
    intros v s' _ (Hp & Hv). pose proof (go_bits_ge_1 r).
    split; [lia|]. specialize (Hv Ho). lia.
  - destruct (r <=? 65536)%Z; [|apply sgood_err, adv_refl, Hs].
    eapply sgood_bind; [apply parseAlignBits_good', Hs|].
    intros _ s1 Ha1 _. cbv beta.
    eapply sgood_weaken; [exact Ha1|apply getBitsValue_good'; apply Ha1|].
    intros v s' _ (Hp & Hv). specialize (Hv (adv_octs _ _ Ha1 Ho)). destruct Ha1 as (_ & _ & Hp1).
    destruct (r =? 256)%Z.
    + change (1 * 8) with 8 in *. split; [lia|]. change (2 ^ 8) with 256 in Hv. lia.
    + change (2 * 8) with 16 in *. split; [lia|]. change (2 ^ 16) with 65536 in Hv. lia.
Qed.

Lemma parseLength_good' s r : dinv s -> octs s ->
  sgood s (fun vr s' => pos s + 1 <= pos s' /\ fst vr <= 65536 /\ (snd vr = true -> pos s + 8 <= pos s')) (parseLength s r).
Proof.
  intros Hs Ho. unfold parseLength.
  destruct ((r <=? 65536) && (0 <? r))%Z.
  - eapply sgood_bind; [apply parseConstraintValue_good'; assumption|].
    intros v s' Ha (Hp & Hv). apply sgood_ok; [exact Ha|]. cbn [fst snd]. split; [exact Hp|]. split; [lia|discriminate].
  - eapply sgood_bind; [apply parseAlignBits_good', Hs|].
    intros _ s1 Ha1 _. cbv beta.
    eapply sgood_bind; [eapply sgood_weaken; [exact Ha1|apply getBitsValue_good'; apply Ha1|]; intros a s' Ha H; exact (conj Ha H)|].
    intros fb s2 Ha2 (Ha12 & Hp2 & Hv2). cbv beta.
    specialize (Hv2 (adv_octs _ _ Ha1 Ho)). change (2 ^ 8) with 256 in Hv2.
    assert (Hp8 : pos s + 8 <= pos s2) by (destruct Ha1 as (_ & _ & ?); lia).
    destruct (N.land fb 128 =? 0).
    { apply sgood_ok; [exact Ha2|]. cbn [fst snd]. split; [lia|]. split; [|discriminate].
      assert (N.land fb 127 < 2 ^ 7) by (apply land_lt_pow2_r; cbv; reflexivity). change (2 ^ 7) with 128 in *. lia. }
    destruct (N.land fb 64 =? 0).
    { eapply sgood_bind; [eapply sgood_weaken; [exact Ha2|apply getBitsValue_good'; apply Ha2|]; intros a s' Ha H; exact (conj Ha H)|].
      intros sb s3 Ha3 (Ha23 & Hp3 & Hv3). cbv beta. specialize (Hv3 (adv_octs _ _ Ha2 Ho)). change (2 ^ 8) with 256 in Hv3.
      apply sgood_ok; [exact Ha3|]. cbn [fst snd]. split; [lia|]. split; [|discriminate].
      assert (N.lor (N.shiftl (N.land fb 63) 8) sb < 2 ^ 14).
      { apply lor_lt_pow2.
        - rewrite N.shiftl_mul_pow2. assert (N.land fb 63 < 2 ^ 6) by (apply land_lt_pow2_r; cbv; reflexivity).
          change (2 ^ 6) with 64 in *. change (2 ^ 8) with 256. change (2 ^ 14) with 16384. lia.
        - change (2 ^ 14) with 16384. lia. }
      change (2 ^ 14) with 16384 in *. lia. }
    destruct ((N.land fb 63 <? 1) || (4 <? N.land fb 63)) eqn:E4; [apply sgood_err; exact Ha2|].
    apply sgood_ok; [exact Ha2|]. cbn [fst snd]. split; [lia|]. split; [lia|]. intros _. exact Hp8.
Qed.

(* ---- slices guarded by the explicit length tests *)
Lemma slice_ok (l : list N) lo hi : lo <= hi -> hi <= len l ->
  slice l lo hi = Ok (firstn (N.to_nat (hi - lo)) (skipn (N.to_nat lo) l)).
Proof. intros H1 H2. unfold slice. assert ((lo <=? hi) && (hi <=? len l) = true) as -> by lia. reflexivity. Qed.

Lemma len_chunk (l : list N) lo hi : lo <= hi -> hi <= len l -> len (firstn (N.to_nat (hi - lo)) (skipn (N.to_nat lo) l)) = hi - lo.
Proof.
  intros H1 H2. unfold len in *. rewrite firstn_length, skipn_length. lia.
Qed.

Lemma octets_chunk (l : list N) a b : octets l -> octets (firstn a (skipn b l)).
Proof. intros. apply octets_firstn, octets_skipn. assumption. Qed.

Lemma len_app {A} (a b : list A) : len (a ++ b) = len a + len b.
Proof. unfold len. rewrite app_length. lia. Qed.

Lemma u64z_small z : (0 <= z < 18446744073709551616)%Z -> u64z z = Z.to_N z.
Proof. intros H. unfold u64z. rewrite Z.mod_small by exact H. reflexivity. Qed.

(* the SIZE bounds a string field may carry (int64 tag values; a negative lower bound makes the uint arithmetic wrap) *)
Definition size_ok (lbp ubp : option Z) : Prop :=
  match lbp with Some l => (0 <= l < 4294967296)%Z | None => True end /\
  match ubp with Some u => (-9223372036854775808 <= u < 9223372036854775808)%Z | None => True end.

Lemma dec_size_bounds_spec ext lbp ubp lb ub sr : size_ok lbp ubp ->
  dec_size_bounds ext lbp ubp = (lb, ub, sr) ->
  (0 <= lb < 4294967296)%Z /\ (sr = 1%Z -> (0 <= ub <= 65535)%Z).
Proof.
  intros (Hl & Hu). unfold dec_size_bounds.
  destruct ext.
  - cbn. intros E. injection E as <- <- <-. split; [lia|discriminate].
  - destruct lbp as [l|], ubp as [u|]; cbn [negb]; cbv iota beta.
    + destruct (65535 <? u)%Z eqn:E5; intros E; injection E as <- <- <-; (split; [lia|]); [discriminate|].
      unfold i64. intros H. destruct (_ <? 9223372036854775808)%Z in H; lia.
    + intros E; injection E as <- <- <-. cbn. split; [lia|discriminate].
    + destruct (65535 <? u)%Z eqn:E5; intros E; injection E as <- <- <-; (split; [lia|]); [discriminate|].
      unfold i64. intros H. destruct (_ <? 9223372036854775808)%Z in H; lia.
    + intros E; injection E as <- <- <-. cbn. split; [lia|discriminate].
Qed.

Definition anyres {A} : A -> dst -> Prop := fun _ _ => True.

Lemma adv_dinv s s' : adv s s' -> dinv s'.
Proof. intros (H & _). exact H. Qed.
Lemma adv_len s s' : adv s s' -> len (d_bytes s') = len (d_bytes s).
Proof. intros (_ & -> & _). reflexivity. Qed.

(* moving an aligned cursor forward by k whole octets inside the buffer *)
Lemma adv_skip s k : dinv s -> d_bitsOffset s = 0 -> d_byteOffset s + k <= len (d_bytes s) ->
  adv s (mkdst (d_bytes s) (d_byteOffset s + k) (d_bitsOffset s)).
Proof.
  intros (H1 & H2 & H3 & H4) H0 Hk. unfold adv, dinv, pos. cbn [d_bytes d_byteOffset d_bitsOffset].
  split; [|split; [reflexivity|lia]]. split; [lia|]. split; [lia|]. split; [lia|exact H4].
Qed.

(* ---- OCTET STRING *)
Lemma oct_dec_loop_good sr lb : (0 <= lb < 4294967296)%Z -> forall fuel s acc,
  dinv s -> octs s -> 8 * len (d_bytes s) < 8 * N.of_nat fuel + pos s ->
  sgood s (fun _ s' => pos s + 1 <= pos s') (oct_dec_loop fuel s sr lb acc).
Proof.
  intros Hlb. induction fuel as [|f IH]; intros s acc Hs Ho Hf.
  - pose proof (dinv_pos s Hs). lia.
  - cbn [oct_dec_loop].
    eapply sgood_bind; [apply parseLength_good'; assumption|].
    intros [length0 rep] s1 Ha1 (Hp1 & Hv & Hr). cbn [fst snd] in Hv, Hr. cbv beta iota.
    assert (Hraw : u64 (length0 + u64z lb) = length0 + Z.to_N lb).
    { rewrite u64z_small by lia. apply u64_small. unfold TWO64. lia. }
    rewrite Hraw. set (raw := length0 + Z.to_N lb).
    destruct (raw =? 0) eqn:E0; [apply sgood_ok; [exact Ha1|exact Hp1]|].
    eapply sgood_bind; [eapply sgood_weaken; [exact Ha1|apply parseAlignBits_good'; apply Ha1|]; intros a s' Ha H; exact (conj Ha H)|].
    intros _ s2 Ha2 (Ha12 & Hb0). cbv beta.
    pose proof (adv_dinv _ _ Ha2) as Hs2. pose proof Hs2 as (B1 & B2 & B3 & B4). unfold MAXLEN in B4.
    rewrite (u64_small (raw + d_byteOffset s2)) by (unfold TWO64; lia).
    rewrite (u64_small (d_byteOffset s2 + raw)) by (unfold TWO64; lia).
    destruct (len (d_bytes s2) <? raw + d_byteOffset s2) eqn:E1; [apply sgood_err; exact Ha2|].
    rewrite slice_ok by lia.
    assert (Ha3 : adv s (mkdst (d_bytes s2) (d_byteOffset s2 + raw) (d_bitsOffset s2))).
    { apply (adv_trans _ _ _ Ha2). apply adv_skip; [exact Hs2|exact Hb0|lia]. }
    assert (Hp3 : pos s + 1 <= pos (mkdst (d_bytes s2) (d_byteOffset s2 + raw) (d_bitsOffset s2))).
    { destruct Ha12 as (_ & _ & P12). unfold pos in *. cbn [d_bytes d_byteOffset d_bitsOffset]. lia. }
    destruct rep; [|apply sgood_ok; [exact Ha3|exact Hp3]].
    eapply sgood_weaken; [exact Ha3|apply IH|intros a s' Ha' Hq; cbv beta in *; lia].
    + apply Ha3.
    + apply (adv_octs _ _ Ha3 Ho).
    + rewrite (adv_len _ _ Ha3). specialize (Hr eq_refl).
      destruct Ha2 as (_ & _ & P2). unfold pos in *. cbn [d_bytes d_byteOffset d_bitsOffset]. lia.
Qed.

Lemma i64_small z : (-9223372036854775808 <= z < 9223372036854775808)%Z -> i64 z = z.
Proof.
  intros H. unfold i64.
  destruct (z mod 18446744073709551616 <? 9223372036854775808)%Z eqn:E; lia.
Qed.

Definition oct_nonempty (lbp : option Z) : bool := match lbp with Some l => (1 <=? l)%Z | None => false end.

Lemma dec_size_bounds_fixed ext lbp ubp lb ub sr : size_ok lbp ubp ->
  dec_size_bounds ext lbp ubp = (lb, ub, sr) -> sr = 1%Z -> oct_nonempty lbp = true -> (1 <= ub)%Z.
Proof.
  intros (Hl & Hu). unfold dec_size_bounds, oct_nonempty.
  destruct ext.
  - cbn. intros E. injection E as <- <- <-. discriminate.
  - destruct lbp as [l|]; [|discriminate]. destruct ubp as [u|]; cbn [negb]; cbv iota beta.
    + destruct (65535 <? u)%Z eqn:E5; intros E; injection E as <- <- <-; [discriminate|].
      unfold i64. intros H. destruct (_ <? 9223372036854775808)%Z in H; lia.
    + intros E; injection E as <- <- <-. cbn. discriminate.
Qed.

Theorem parseOctetString_good_gen s ext lbp ubp : dinv s -> octs s -> size_ok lbp ubp ->
  sgood s (fun _ s' => oct_nonempty lbp = true -> pos s + 1 <= pos s') (parseOctetString s ext lbp ubp).
Proof.
  intros Hs Ho Hsz. unfold parseOctetString.
  destruct (dec_size_bounds ext lbp ubp) as [[lb ub] sr] eqn:Eb.
  destruct (dec_size_bounds_spec _ _ _ _ _ _ Hsz Eb) as (Hlb & Hub).
  pose proof (dec_size_bounds_fixed _ _ _ _ _ _ Hsz Eb) as Hfix.
  destruct (sr =? 1)%Z eqn:E1.
  - assert (sr = 1%Z) by lia. specialize (Hub H). specialize (Hfix H).
    destruct (2 <? ub)%Z eqn:E2.
    + eapply sgood_bind; [apply parseAlignBits_good', Hs|].
      intros u s1 Ha1 Hb0. cbv beta in Hb0 |- *.
      pose proof (adv_dinv _ _ Ha1) as Hs1. pose proof Hs1 as (B1 & B2 & B3 & B4). unfold MAXLEN in B4.
      assert (Hi : i64 (i64n (d_byteOffset s1) + ub) = (Z.of_N (d_byteOffset s1) + ub)%Z).
      { unfold i64n. rewrite (i64_small (Z.of_N _)) by lia. apply i64_small. lia. }
      rewrite Hi. rewrite (u64z_small ub) by lia.
      rewrite (u64_small (d_byteOffset s1 + Z.to_N ub)) by (unfold TWO64; lia).
      destruct (Z.of_N (len (d_bytes s1)) <? Z.of_N (d_byteOffset s1) + ub)%Z eqn:E3; [apply sgood_err; exact Ha1|].
      rewrite slice_ok by lia.
      apply sgood_ok; [apply (adv_trans _ _ _ Ha1); apply adv_skip; [exact Hs1|exact Hb0|lia]|].
      intros _. destruct Ha1 as (_ & _ & P1). unfold pos in *. cbn [d_bytes d_byteOffset d_bitsOffset]. lia.
    + eapply sgood_weaken; [apply adv_refl, Hs|apply getBitString_good', Hs|].
      intros v s' _ (Hp & _) Hne. specialize (Hfix Hne). rewrite (u64z_small (ub * 8)) in Hp by lia. lia.
  - eapply sgood_weaken; [apply adv_refl, Hs|apply oct_dec_loop_good; try assumption|intros a s' _ Hq _; exact Hq].
    pose proof (dinv_pos s Hs). unfold len. lia.
Qed.

Theorem parseOctetString_good s ext lbp ubp : dinv s -> octs s -> size_ok lbp ubp ->
  sgood s anyres (parseOctetString s ext lbp ubp).
Proof.
  intros Hs Ho Hsz. eapply sgood_weaken; [apply adv_refl, Hs|apply parseOctetString_good_gen; assumption|intros; exact I].
Qed.

(* ---- BIT STRING *)
Lemma adv_jump s b' bo' : dinv s -> d_bitsOffset s = 0 -> d_byteOffset s <= b' -> b' <= len (d_bytes s) -> bo' < 8 ->
  (0 < bo' -> b' < len (d_bytes s)) -> adv s (mkdst (d_bytes s) b' bo').
Proof.
  intros (H1 & H2 & H3 & H4) H0 Hb Hl Hbo Hlt. unfold adv, dinv, pos. cbn [d_bytes d_byteOffset d_bitsOffset].
  split; [|split; [reflexivity|lia]]. split; [lia|]. split; [lia|]. split; [exact Hlt|exact H4].
Qed.

Lemma sub64_1 a : 1 <= a -> a < TWO64 -> sub64 a 1 = a - 1.
Proof. unfold sub64, TWO64. intros. lia. Qed.

Lemma bits_dec_loop_good sr lb : (0 <= lb < 4294967296)%Z -> forall fuel s acc accLen,
  dinv s -> octs s -> 8 * len (d_bytes s) < 8 * N.of_nat fuel + pos s ->
  sgood s anyres (bits_dec_loop fuel s sr lb acc accLen).
Proof.
  intros Hlb. induction fuel as [|f IH]; intros s acc accLen Hs Ho Hf.
  - pose proof (dinv_pos s Hs). lia.
  - cbn [bits_dec_loop].
    eapply sgood_bind; [apply parseLength_good'; assumption|].
    intros [length0 rep] s1 Ha1 (Hp1 & Hv & Hr). cbn [fst snd] in Hv, Hr. cbv beta iota.
    assert (Hraw : u64 (length0 + u64z lb) = length0 + Z.to_N lb).
    { rewrite u64z_small by lia. apply u64_small. unfold TWO64. lia. }
    rewrite Hraw. set (raw := length0 + Z.to_N lb). assert (Hrb : raw < 8589934592) by (unfold raw; lia).
    destruct (raw =? 0) eqn:E0; [apply sgood_ok; [exact Ha1|exact I]|].
    rewrite (u64_small (raw + 7)) by (unfold TWO64; lia). rewrite shiftr3, land7.
    set (sizes := (raw + 7) / 8). assert (Hsz : 1 <= sizes /\ sizes < 8589934592) by (unfold sizes; lia).
    eapply sgood_bind; [eapply sgood_weaken; [exact Ha1|apply parseAlignBits_good'; apply Ha1|]; intros a s' Ha H; exact (conj Ha H)|].
    intros u s2 Ha2 (Ha12 & Hb0). cbv beta in Hb0 |- *.
    pose proof (adv_dinv _ _ Ha2) as Hs2. pose proof Hs2 as (B1 & B2 & B3 & B4). unfold MAXLEN in B4.
    rewrite (u64_small (d_byteOffset s2 + sizes)) by (unfold TWO64; lia).
    destruct (len (d_bytes s2) <? d_byteOffset s2 + sizes) eqn:E1; [apply sgood_err; exact Ha2|].
    rewrite slice_ok by lia.
    rewrite sub64_1 by (unfold TWO64; lia).
    set (s3 := mkdst (d_bytes s2) (if raw mod 8 =? 0 then d_byteOffset s2 + sizes else d_byteOffset s2 + sizes - 1) (raw mod 8)).
    assert (Ha3 : adv s s3).
    { apply (adv_trans _ _ _ Ha2). unfold s3. destruct (raw mod 8 =? 0) eqn:E8; apply adv_jump; try assumption; lia. }
    destruct rep; [|apply sgood_ok; [exact Ha3|exact I]].
    eapply sgood_weaken; [exact Ha3|apply IH|intros; exact I].
    + apply Ha3.
    + apply (adv_octs _ _ Ha3 Ho).
    + rewrite (adv_len _ _ Ha3). specialize (Hr eq_refl).
      destruct Ha2 as (_ & _ & P2). unfold s3, pos in *. cbn [d_bytes d_byteOffset d_bitsOffset].
      destruct (raw mod 8 =? 0) eqn:E8; lia.
Qed.

Theorem parseBitString_good s ext lbp ubp : dinv s -> octs s -> size_ok lbp ubp ->
  sgood s anyres (parseBitString s ext lbp ubp).
Proof.
  intros Hs Ho Hsz. unfold parseBitString.
  destruct (dec_size_bounds ext lbp ubp) as [[lb ub] sr] eqn:Eb.
  destruct (dec_size_bounds_spec _ _ _ _ _ _ Hsz Eb) as (Hlb & Hub).
  destruct (sr =? 1)%Z eqn:E1.
  - assert (sr = 1%Z) by lia. specialize (Hub H).
    rewrite (u64z_small (ub + 7)) by lia. rewrite (u64z_small ub) by lia. rewrite shiftr3, land7.
    set (sizes := Z.to_N (ub + 7) / 8). assert (Hsz' : sizes <= 8192) by (unfold sizes; lia).
    destruct (2 <? sizes) eqn:E2.
    + eapply sgood_bind; [apply parseAlignBits_good', Hs|].
      intros u s1 Ha1 Hb0. cbv beta in Hb0 |- *.
      pose proof (adv_dinv _ _ Ha1) as Hs1. pose proof Hs1 as (B1 & B2 & B3 & B4). unfold MAXLEN in B4.
      rewrite (u64_small (d_byteOffset s1 + sizes)) by (unfold TWO64; lia).
      destruct (len (d_bytes s1) <? d_byteOffset s1 + sizes) eqn:E3; [apply sgood_err; exact Ha1|].
      rewrite slice_ok by lia.
      rewrite sub64_1 by (unfold TWO64; lia).
      apply sgood_ok; [|exact I]. apply (adv_trans _ _ _ Ha1).
      destruct (0 <? Z.to_N ub mod 8) eqn:E8; apply adv_jump; try assumption; lia.
    + eapply sgood_bind; [apply getBitString_good', Hs|].
      intros b s1 Ha1 _. apply sgood_ok; [exact Ha1|exact I].
  - apply bits_dec_loop_good; try assumption.
    pose proof (dinv_pos s Hs). unfold len. lia.
Qed.

(* ---- open type: the collected octets come from the (disjoint) regions the cursor passed over *)
Definition open_post (s : dst) (acc : list N) : list N -> dst -> Prop :=
  fun r s' => octets r /\ 8 * len r + pos s <= 8 * len acc + pos s' /\ pos s + 1 <= pos s'.

Lemma open_dec_loop_good : forall fuel s acc,
  dinv s -> octs s -> octets acc -> 8 * len (d_bytes s) < 8 * N.of_nat fuel + pos s ->
  sgood s (open_post s acc) (open_dec_loop fuel s acc).
Proof.
  induction fuel as [|f IH]; intros s acc Hs Ho Hacc Hf.
  - pose proof (dinv_pos s Hs). lia.
  - cbn [open_dec_loop].
    eapply sgood_bind; [apply parseLength_good'; assumption|].
    intros [raw rep] s1 Ha1 (Hp1 & Hv & Hr). cbn [fst snd] in Hv, Hr. cbv beta iota.
    destruct (raw =? 0) eqn:E0.
    { apply sgood_ok; [exact Ha1|]. unfold open_post. split; [exact Hacc|]. lia. }
    eapply sgood_bind; [eapply sgood_weaken; [exact Ha1|apply parseAlignBits_good'; apply Ha1|]; intros a s' Ha H; exact (conj Ha H)|].
    intros u s2 Ha2 (Ha12 & Hb0). cbv beta in Hb0 |- *.
    pose proof (adv_dinv _ _ Ha2) as Hs2. pose proof Hs2 as (B1 & B2 & B3 & B4). unfold MAXLEN in B4.
    rewrite (u64_small (raw + d_byteOffset s2)) by (unfold TWO64; lia).
    rewrite (u64_small (d_byteOffset s2 + raw)) by (unfold TWO64; lia).
    destruct (len (d_bytes s2) <? raw + d_byteOffset s2) eqn:E1; [apply sgood_err; exact Ha2|].
    rewrite slice_ok by lia.
    set (chunk := firstn (N.to_nat (d_byteOffset s2 + raw - d_byteOffset s2)) (skipn (N.to_nat (d_byteOffset s2)) (d_bytes s2))).
    assert (Hcl : len chunk = raw) by (unfold chunk; rewrite len_chunk by lia; lia).
    assert (Hco : octets chunk) by (apply octets_chunk; apply (adv_octs _ _ Ha2 Ho)).
    set (s3 := mkdst (d_bytes s2) (d_byteOffset s2 + raw) (d_bitsOffset s2)).
    assert (Ha23 : adv s2 s3) by (apply adv_skip; [exact Hs2|exact Hb0|lia]).
    assert (Ha3 : adv s s3) by (apply (adv_trans _ _ _ Ha2 Ha23)).
    assert (Hp3 : pos s3 = pos s2 + 8 * raw) by (unfold s3, pos; cbn [d_bytes d_byteOffset d_bitsOffset]; lia).
    assert (Hp2 : pos s1 <= pos s2) by (apply Ha12).
    destruct rep.
    + eapply sgood_weaken; [exact Ha3|apply IH|].
      * apply Ha3.
      * apply (adv_octs _ _ Ha3 Ho).
      * apply octets_app; assumption.
      * rewrite (adv_len _ _ Ha3). specialize (Hr eq_refl). lia.
      * intros r s' Ha' (Q1 & Q2 & Q3). unfold open_post. split; [exact Q1|]. rewrite len_app in Q2. lia.
    + eapply sgood_bind; [eapply sgood_weaken; [exact Ha3|apply parseAlignBits_good'; apply Ha3|]; intros a s' Ha H; exact (conj Ha H)|].
      intros u' s4 Ha4 (Ha34 & _). apply sgood_ok; [exact Ha4|]. unfold open_post.
      split; [apply octets_app; assumption|]. rewrite len_app.
      assert (pos s3 <= pos s4) by (apply Ha34). lia.
Qed.

Global Opaque parseOctetString parseBitString parseLength parseConstraintValue parseAlignBits.
