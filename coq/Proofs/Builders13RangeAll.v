(* C13, ranges - the statement for all the emulator's wrappers together. *)
From Coq Require Import ZArith NArith List String Bool.
Require Import GoSlice AperCommon AperEnc BuildersT Builders Builders13 Builders13Range Builders13RangeA Builders13RangeB Builders13RangeC Builders13RangeD.
Import ListNotations.
Open Scope string_scope.

Lemma emulator_wrapper_templates_are :
  emulator_wrapper_templates = [B_GetNGSetupRequest; B_GetInitialUEMessage; B_GetUplinkNASTransport; B_GetInitialContextSetupResponse;
                                B_GetInitialContextSetupResponseForServiceRequest; B_GetPDUSessionResourceSetupResponse;
                                B_GetUEContextReleaseComplete; B_GetUEContextReleaseRequest; B_GetPDUSessionResourceReleaseResponse].
Proof. vm_compute. reflexivity. Qed.

Theorem ranges_both b s : In b emulator_wrapper_templates -> env_wf b s = true ->
  (ids_ok b s = true -> exists bs, encode_call b s = Ok bs) /\ (ids_ok b s = false -> exists e, encode_call b s = Err e).
Proof.
  rewrite emulator_wrapper_templates_are. intros Hin.
  repeat (destruct Hin as [<-|Hin];
          [first [apply R_ng | apply R_iue | apply R_uplink | apply R_ics | apply R_icssr | apply R_setup | apply R_rc | apply R_rr | apply R_rel]|]).
  destruct Hin.
Qed.

Theorem ranges_in_range_encode b s :
  In b emulator_wrapper_templates -> env_wf b s = true -> ids_ok b s = true -> exists bs, encode_call b s = Ok bs.
Proof. intros Hin Hwf. exact (proj1 (ranges_both b s Hin Hwf)). Qed.
Theorem ranges_out_of_range_refused b s :
  In b emulator_wrapper_templates -> env_wf b s = true -> ids_ok b s = false -> exists e, encode_call b s = Err e.
Proof. intros Hin Hwf. exact (proj2 (ranges_both b s Hin Hwf)). Qed.
