(* C13, ranges - part 2: from the decided status (Builders13RangeX) to the encoder model, through the structural
   C03 theorems (AperStructMain.main_all, AperStructRefMain.ref_all, AperStructRefOk.supr_ok) used as black boxes. *)
From Coq Require Import String NArith ZArith List Bool Lia Arith.
From Coq Require Import ZifyN ZifyNat ZifyBool.
Require Import GoSlice Bits AperCommon AperEnc AperDec Asn1 X691 Asn1Tags AperBits AperBitsPut AperStructDefs AperStructMain
        AperStructSize AperStructRefDefs AperStructRefOk AperStructRefMain Builders13RangeX.
Import ListNotations.
Open Scope N_scope.

Theorem enc_ok t p v at' av :
  tags_to_asn1 t p = Some at' -> abs t p v = Some av -> supr t p v = true ->
  N.of_nat (asz av) < XB -> xst at' av = SOk -> exists bs, marshal t p v = Ok bs.
Proof.
  intros Ht Ha Hs Hsz Hx. destruct (xst_ok at' av 0%nat Hsz Hx) as [bits Hb].
  exists (pack bits). apply (marshal_is_x691 t p v at' av bits Ht Ha).
  - exact (supr_ok t p v av at' bits 0%nat Ht Ha Hs Hb).
  - exact Hb.
  - unfold small. pose proof (x691_len _ _ _ _ Hb). unfold XB, LIM in *. lia.
Qed.

Theorem enc_refused t p v at' av :
  tags_to_asn1 t p = Some at' -> abs t p v = Some av -> supr t p v = true ->
  N.of_nat (asz av) < XB -> xst at' av = SViol -> exists e, marshal t p v = Err e.
Proof.
  intros Ht Ha Hs Hsz Hx. apply (marshal_refuses t p v at' av Ht Ha Hs).
  - apply xst_viol; assumption.
  - unfold XB, LIM, SLACK in *. lia.
Qed.

(* the side condition "the content of an open type is not empty" of supr, from the status of the content *)
Definition ne_status (t : aty) (v : aval) : bool :=
  match xst t v with SViol => true | SOk => xne t v | SUnk => false end.

Theorem ne_bytes t n1 n2 n3 n4 p v av :
  (ty_depth t <= n1)%nat -> (ty_depth t <= n2)%nat -> (ty_depth t <= n3)%nat -> (ty_depth t <= n4)%nat ->
  abs_f n2 t p v = Some av -> supr_f n4 t p v = true -> N.of_nat (asz av) < XB ->
  ne_status (t2a n1 t p) av = true ->
  nonempty_bytes (makeField n3 t p v (mkest [] 0)) = true.
Proof.
  intros D1 D2 D3 D4 Ha Hs Hsz Hn. unfold ne_status in Hn.
  destruct (xst (t2a n1 t p) av) eqn:Ex; [| |discriminate].
  - destruct (xst_ok _ _ 0%nat Hsz Ex) as [b Hb].
    destruct (sibling_emits t n1 n2 n3 n4 p v (mkest [] 0) [] av b D1 D2 D3 D4 Ha Hs Hb repr_init) as (s' & E & R).
    { cbn [length]. unfold XB, LIM in *. lia. }
    rewrite E. cbn [nonempty_bytes]. pose proof (xne_sound _ _ _ _ Hn Hb) as Hne.
    pose proof (repr_bytes_len _ _ R) as Hl. cbn [app] in Hl.
    destruct (e_bytes s'); [|reflexivity]. destruct b; [congruence|]. cbn [length] in Hl. lia.
  - pose proof (xst_viol _ _ 0%nat Hsz Ex) as Hv.
    destruct (ref_all (ty_depth t) t (le_n _) n1 n2 n3 n4 p v (mkest [] 0) [] av D1 D2 D3 D4 Ha Hs Hv repr_init) as [e He].
    { cbn [length]. unfold XB, LIM, SLACK in *. lia. }
    rewrite He. reflexivity.
Qed.
