From Coq Require Import NArith ZArith List Lia Bool.
From Coq Require Import ZifyN ZifyNat ZifyBool.
Require Import Extract.
Import ListNotations.
Open Scope N_scope.
Ltac Zify.zify_post_hook ::= Z.div_mod_to_equations.

(* ---- termination: the walks never run out of the fuel the entry points give them *)
Lemma opt_len_pos id n : opt_len id = Some (inl n) -> 1 <= n.
Proof.
  unfold opt_len.
  repeat match goal with |- context [if ?c then _ else _] => destruct c end; intro H; inversion H; lia.
Qed.

Lemma walk_fuel_enough : forall fuel b o len cap index,
  len - index < N.of_nat fuel -> walk fuel b o len cap index <> XFuel.
Proof.
  induction fuel as [|f IH]; intros b o len cap index H; [lia|].
  cbn [walk]. destruct (index <? len) eqn:Hi; [|discriminate].
  destruct (at_ b (o + index) =? 41).
  - destruct (index + 7 <=? cap); discriminate.
  - destruct (half_octet (at_ b (o + index))).
    + apply IH. lia.
    + destruct (opt_len (at_ b (o + index))) as [[n|k]|] eqn:E; [| |discriminate].
      * apply opt_len_pos in E. apply IH. lia.
      * destruct (k =? 1).
        -- destruct (index + 1 <? len); [|discriminate]. apply IH. lia.
        -- destruct (index + 3 <=? cap); [|discriminate]. apply IH. lia.
Qed.

Theorem decode_nas_pdu_terminates b : decode_nas_pdu b <> XFuel.
Proof.
  unfold decode_nas_pdu, decode_nas_pdu_fuel.
  repeat match goal with |- context [if ?c then _ else _] => destruct c eqn:?; [discriminate|] end.
  apply walk_fuel_enough. lia.
Qed.

Lemma twalk_fuel_enough : forall fuel b offset,
  N.of_nat (length b) - offset < N.of_nat fuel -> twalk fuel b offset <> XFuel.
Proof.
  induction fuel as [|f IH]; intros b offset H; [lia|].
  cbn [twalk]. destruct (offset <? N.of_nat (length b)) eqn:Ho; [|discriminate].
  destruct (N.of_nat (length b) <? offset + 2); [discriminate|].
  destruct (negb (be16_at b offset =? 139)).
  - destruct (N.of_nat (length b) <=? offset + 3); [discriminate|]. apply IH. lia.
  - repeat match goal with |- context [if ?c then _ else _] => destruct c; [discriminate|] end. discriminate.
Qed.

Theorem decode_transfer_terminates b : decode_transfer b <> XFuel.
Proof. unfold decode_transfer. apply twalk_fuel_enough. lia. Qed.

(* ---- exactness on well-formed messages *)
Require Import SessionMsgs.

Lemma at_app_r (P R:list N) i : at_ (P ++ R) (N.of_nat (length P) + i) = at_ R i.
Proof.
  unfold at_. replace (N.to_nat (N.of_nat (length P) + i)) with (length P + N.to_nat i)%nat by lia.
  apply app_nth2_plus.
Qed.
Lemma take_app_r (P R:list N) i n : take (P ++ R) (N.of_nat (length P) + i) n = take R i n.
Proof.
  unfold take. replace (N.to_nat (N.of_nat (length P) + i)) with (length P + N.to_nat i)%nat by lia.
  f_equal. rewrite skipn_app. rewrite skipn_all2 by lia. replace (length P + N.to_nat i - length P)%nat with (N.to_nat i) by lia.
  reflexivity.
Qed.
Lemma firstn_len_app' {A} (c rest:list A) : firstn (length c) (c ++ rest) = c.
Proof. induction c as [|x c IH]; [destruct rest; reflexivity|]. cbn [length app firstn]. f_equal. exact IH. Qed.

Lemma half_fin : forallb (fun v => half_octet (8 * 16 + v) && half_octet (12 * 16 + v) && negb (8 * 16 + v =? 41) && negb (12 * 16 + v =? 41))
                         [0;1;2;3;4;5;6;7;8;9;10;11;12;13;14;15] = true.
Proof. vm_compute. reflexivity. Qed.
Lemma half_ok h v : ((h =? 8) || (h =? 12)) && (v <? 16) = true -> half_octet (h * 16 + v) = true /\ (h * 16 + v =? 41) = false.
Proof.
  intro H. pose proof half_fin as F. rewrite forallb_forall in F.
  assert (In v [0;1;2;3;4;5;6;7;8;9;10;11;12;13;14;15]) as I.
  { assert (v < 16) by lia. cbn [In].
    assert (v = 0 \/ v = 1 \/ v = 2 \/ v = 3 \/ v = 4 \/ v = 5 \/ v = 6 \/ v = 7 \/ v = 8 \/ v = 9 \/ v = 10 \/ v = 11 \/ v = 12 \/ v = 13 \/ v = 14 \/ v = 15) by lia.
    intuition. }
  specialize (F v I). apply andb_true_iff in F. destruct F as [F F4]. apply andb_true_iff in F. destruct F as [F F3].
  apply andb_true_iff in F. destruct F as [F1 F2].
  assert (h = 8 \/ h = 12) as [->| ->] by lia; (split; [assumption | lia]).
Qed.

Lemma len_enc_ie i : accept_opt_ok i = true -> 1 <= N.of_nat (length (enc_ie i)).
Proof. destruct i; cbn [enc_ie length]; lia. Qed.

Lemma walk_finds : forall pre Pfx a S fuel o len cap index,
  forallb accept_opt_ok pre = true -> length a = 4%nat ->
  o + index = N.of_nat (length Pfx) ->
  index + N.of_nat (length (enc_ies pre)) + 7 <= len ->
  index + N.of_nat (length (enc_ies pre)) + 7 <= cap ->
  (length pre < fuel)%nat ->
  walk fuel (Pfx ++ enc_ies pre ++ pdu_address_v4 a ++ S) o len cap index = XOk (Some a).
Proof.
  induction pre as [|i pre IH]; intros Pfx a S fuel o len cap index Hok Ha Ho Hlen Hcap Hf.
  - destruct fuel as [|f]; [cbn in Hf; lia|]. cbn [enc_ies flat_map app length] in *.
    cbn [walk]. replace (index <? len) with true by lia.
    rewrite Ho. replace (N.of_nat (length Pfx)) with (N.of_nat (length Pfx) + 0) at 1 by lia. rewrite at_app_r.
    change (at_ (pdu_address_v4 a ++ S) 0) with 41. replace (41 =? 41) with true by reflexivity.
    replace (index + 7 <=? cap) with true by lia.
    rewrite take_app_r. unfold pdu_address_v4, take. change (N.to_nat 3) with 3%nat. change (N.to_nat 4) with 4%nat.
    cbn [app skipn]. rewrite <- Ha. rewrite firstn_len_app'. reflexivity.
  - destruct fuel as [|f]; [cbn in Hf; lia|].
    cbn [forallb] in Hok. apply andb_true_iff in Hok. destruct Hok as [Hi Hok].
    change (enc_ies (i :: pre)) with (enc_ie i ++ enc_ies pre) in *. rewrite app_length in Hlen, Hcap.
    pose proof (len_enc_ie i Hi) as Hpos. cbn [length] in Hf.
    rewrite <- app_assoc.
    set (T := enc_ies pre ++ pdu_address_v4 a ++ S).
    assert (Hre : Pfx ++ enc_ie i ++ T = (Pfx ++ enc_ie i) ++ T) by (rewrite <- app_assoc; reflexivity).
    assert (Hat : forall j, at_ (Pfx ++ enc_ie i ++ T) (o + index + j) = at_ (enc_ie i ++ T) j).
    { intro j. replace (o + index + j) with (N.of_nat (length Pfx) + j) by lia. apply at_app_r. }
    assert (Hat0 : at_ (Pfx ++ enc_ie i ++ T) (o + index) = at_ (enc_ie i ++ T) 0).
    { rewrite <- (Hat 0). f_equal. lia. }
    cbn [walk]. replace (index <? len) with true by lia. rewrite Hat0.
    assert (Hnext : forall n, n = N.of_nat (length (enc_ie i)) ->
              walk f (Pfx ++ enc_ie i ++ T) o len cap (index + n) = XOk (Some a)).
    { intros n ->. rewrite Hre. unfold T. apply IH; try assumption; try (rewrite app_length); lia. }
    destruct i as [h v | ie v | ie v | ie v]; cbn [accept_opt_ok] in Hi.
    + (* half octet *)
      destruct (half_ok h v Hi) as [Hh Hne].
      change (at_ (enc_ie (TV1 h v) ++ T) 0) with (h * 16 + v).
      rewrite Hne, Hh. apply Hnext. reflexivity.
    + (* fixed length *)
      change (at_ (enc_ie (TVn ie v) ++ T) 0) with ie.
      assert (Hcase : (ie = 89 /\ length v = 1%nat) \/ (ie = 86 /\ length v = 1%nat) \/ (ie = 24 /\ length v = 3%nat) \/ (ie = 31 /\ length v = 2%nat)) by lia.
      destruct Hcase as [[-> Hv]|[[-> Hv]|[[-> Hv]|[-> Hv]]]]; cbn [N.eqb Pos.eqb half_octet opt_len N.land Pos.land orb];
        apply Hnext; cbn [enc_ie length]; lia.
    + (* TLV *)
      change (at_ (enc_ie (TLV ie v) ++ T) 0) with ie.
      apply andb_true_iff in Hi. destruct Hi as [Hie Hv].
      assert (Hcase : ie = 34 \/ ie = 37 \/ ie = 23 \/ ie = 102) by lia.
      assert (Hat1 : at_ (Pfx ++ enc_ie (TLV ie v) ++ T) (o + index + 1) = N.of_nat (length v)) by (rewrite Hat; reflexivity).
      destruct Hcase as [->|[->|[->| ->]]]; cbn [N.eqb Pos.eqb half_octet opt_len N.land Pos.land orb];
        (replace (index + 1 <? len) with true by (cbn [enc_ie length] in *; lia)); rewrite Hat1;
        rewrite <- N.add_assoc; apply Hnext; cbn [enc_ie length]; unfold len1; cbn [length app]; lia.
    + (* TLV-E *)
      change (at_ (enc_ie (TLVE ie v) ++ T) 0) with ie.
      apply andb_true_iff in Hi. destruct Hi as [Hie Hv].
      assert (Hcase : ie = 117 \/ ie = 120 \/ ie = 121 \/ ie = 123 \/ ie = 119) by lia.
      assert (Hat1 : be16_at (Pfx ++ enc_ie (TLVE ie v) ++ T) (o + index + 1) = N.of_nat (length v)).
      { unfold be16_at. replace (o + index + 1 + 1) with (o + index + 2) by lia. rewrite !Hat.
        change (at_ (enc_ie (TLVE ie v) ++ T) 1) with (N.of_nat (length v) / 256).
        change (at_ (enc_ie (TLVE ie v) ++ T) 2) with (N.of_nat (length v) mod 256). lia. }
      destruct Hcase as [->|[->|[->|[->| ->]]]]; cbn [N.eqb Pos.eqb half_octet opt_len N.land Pos.land orb];
        (replace (index + 3 <=? cap) with true by (cbn [enc_ie length] in *; unfold len2 in *; cbn [length app] in *; lia)); rewrite Hat1;
        rewrite <- N.add_assoc; apply Hnext; cbn [enc_ie length]; unfold len2; cbn [length app]; lia.
Qed.

Theorem nas_extract_exact sht m1 m2 m3 m4 sqn pct psi pti t qos ambr pre a post trailing :
  forallb accept_opt_ok pre = true -> length a = 4%nat -> length ambr = 6%nat ->
  N.of_nat (length qos) < 65536 ->
  N.of_nat (length (est_accept psi pti t qos ambr pre a post)) < 65536 ->
  decode_nas_pdu (protected sht [m1;m2;m3;m4] sqn (dl_nas_transport pct (est_accept psi pti t qos ambr pre a post) trailing))
  = XOk (Some a).
Proof.
  intros Hpre Ha Hambr Hq Hc.
  set (c := est_accept psi pti t qos ambr pre a post) in *.
  set (lc := N.of_nat (length c)) in *. set (lq := N.of_nat (length qos)) in *.
  assert (Ec : c = [46; psi; pti; 194; t; lq / 256; lq mod 256] ++ qos ++ [6] ++ ambr ++ enc_ies pre ++ pdu_address_v4 a ++ post).
  { unfold c, est_accept, len2, len1. fold lq. rewrite Hambr. cbn [app N.of_nat Pos.of_succ_nat Pos.succ]. reflexivity. }
  assert (Elc : lc = 7 + lq + 1 + 6 + N.of_nat (length (enc_ies pre)) + 7 + N.of_nat (length post)).
  { unfold lc. rewrite Ec. rewrite !app_length. unfold pdu_address_v4. rewrite !app_length. cbn [length]. unfold lq. lia. }
  set (Pfx := [126; sht; m1; m2; m3; m4; sqn; 126; 0; 104; pct; lc / 256; lc mod 256]
              ++ [46; psi; pti; 194; t; lq / 256; lq mod 256] ++ qos ++ [6] ++ ambr).
  assert (Eb : protected sht [m1; m2; m3; m4] sqn (dl_nas_transport pct c trailing)
               = Pfx ++ enc_ies pre ++ pdu_address_v4 a ++ (post ++ trailing)).
  { unfold protected, dl_nas_transport, len2, Pfx. fold lc. rewrite Ec. cbn [app].
    repeat (rewrite <- app_assoc || rewrite <- app_comm_cons). cbn [app]. reflexivity. }
  assert (LP : N.of_nat (length Pfx) = 27 + lq).
  { unfold Pfx. rewrite !app_length. cbn [length]. rewrite Hambr. unfold lq. lia. }
  unfold decode_nas_pdu, decode_nas_pdu_fuel. rewrite Eb.
  set (b := Pfx ++ enc_ies pre ++ pdu_address_v4 a ++ post ++ trailing).
  assert (Lb : N.of_nat (length b) = 13 + lc + N.of_nat (length trailing)).
  { unfold b. rewrite !app_length. unfold pdu_address_v4. rewrite !app_length. cbn [length]. lia. }
  assert (E11 : be16_at b 11 = lc).
  { unfold be16_at, at_, b, Pfx. cbn [app]. change (N.to_nat 11) with 11%nat. change (N.to_nat (11 + 1)) with 12%nat. cbn [nth]. lia. }
  assert (E18 : be16_at b 18 = lq).
  { unfold be16_at, at_, b, Pfx. cbn [app]. change (N.to_nat 18) with 18%nat. change (N.to_nat (18 + 1)) with 19%nat. cbn [nth]. lia. }
  rewrite Lb, E11, E18.
  replace (13 + lc + N.of_nat (length trailing) <? 7) with false by lia.
  replace (13 + lc + N.of_nat (length trailing) - 7 <? 6) with false by lia.
  replace (13 + lc + N.of_nat (length trailing) - 7 <? 6 + lc) with false by lia.
  replace (13 + lc + N.of_nat (length trailing) - 13 <? 7) with false by lia.
  replace (lc <? 14 + lq) with false by lia.
  unfold b. apply walk_finds; try assumption; try lia.
  assert (length pre <= length (enc_ies pre))%nat.
  { clear. induction pre as [|i pre IH]; [cbn; lia|]. change (enc_ies (i :: pre)) with (enc_ie i ++ enc_ies pre).
    rewrite app_length. cbn [length]. destruct i; cbn [enc_ie length]; lia. }
  rewrite !app_length. lia.
Qed.

(* ---- transfer *)
Definition enc_pre (pre:list (N * N * list N)) : list N := flat_map (fun p => pie (fst (fst p)) (snd (fst p)) (snd p)) pre.

Lemma twalk_finds : forall pre Pfx addr teid post fuel,
  forallb transfer_pre_ok pre = true -> length addr = 4%nat -> length teid = 4%nat ->
  (length pre < fuel)%nat ->
  twalk fuel (Pfx ++ enc_pre pre ++ pie 139 0 (gtp_tunnel_v4 addr teid) ++ post) (N.of_nat (length Pfx))
  = XOk (be32 teid, Some addr).
Proof.
  induction pre as [|p pre IH]; intros Pfx addr teid post fuel Hok Ha Ht Hf.
  - destruct fuel as [|f]; [lia|]. cbn [enc_pre flat_map app].
    set (b := Pfx ++ pie 139 0 (gtp_tunnel_v4 addr teid) ++ post).
    assert (Lb : N.of_nat (length b) = N.of_nat (length Pfx) + 14 + N.of_nat (length post)).
    { unfold b, pie, gtp_tunnel_v4, len1. repeat (first [rewrite app_length | progress cbn [length]]); lia. }
    assert (Hat : forall j, at_ b (N.of_nat (length Pfx) + j) = at_ (pie 139 0 (gtp_tunnel_v4 addr teid) ++ post) j)
      by (intro j; apply at_app_r).
    cbn [twalk]. fold b. rewrite Lb.
    replace (N.of_nat (length Pfx) <? N.of_nat (length Pfx) + 14 + N.of_nat (length post)) with true by lia.
    replace (N.of_nat (length Pfx) + 14 + N.of_nat (length post) <? N.of_nat (length Pfx) + 2) with false by lia.
    assert (E0 : be16_at b (N.of_nat (length Pfx)) = 139).
    { unfold be16_at. rewrite <- (N.add_0_r (N.of_nat (length Pfx))) at 1. rewrite !Hat. reflexivity. }
    rewrite E0. cbn [N.eqb Pos.eqb negb].
    replace (N.of_nat (length Pfx) + 14 + N.of_nat (length post) <=? N.of_nat (length Pfx) + 3) with false by lia.
    assert (E3 : at_ b (N.of_nat (length Pfx) + 3) = 10).
    { rewrite Hat. unfold pie, gtp_tunnel_v4, len1. repeat (first [rewrite app_length | progress cbn [length]]). rewrite Ha, Ht. reflexivity. }
    rewrite E3.
    replace (N.of_nat (length Pfx) + 14 + N.of_nat (length post) <? N.of_nat (length Pfx) + 3 + 1 + 10) with false by lia.
    cbn [N.ltb N.compare Pos.compare Pos.compare_cont].
    replace (N.of_nat (length Pfx) + 3 + 1 + 10 - 4) with (N.of_nat (length Pfx) + 10) by lia.
    replace (N.of_nat (length Pfx) + 3 + 1 + 10 - 8) with (N.of_nat (length Pfx) + 6) by lia.
    unfold b. rewrite !take_app_r.
    destruct addr as [|a0 [|a1 [|a2 [|a3 [|? ?]]]]]; try discriminate Ha.
    destruct teid as [|t0 [|t1 [|t2 [|t3 [|? ?]]]]]; try discriminate Ht.
    reflexivity.
  - destruct fuel as [|f]; [cbn in Hf; lia|]. cbn [length] in Hf.
    cbn [forallb] in Hok. apply andb_true_iff in Hok. destruct Hok as [Hp Hok].
    destruct p as [[id crit] v]. unfold transfer_pre_ok in Hp.
    change (enc_pre ((id, crit, v) :: pre)) with (pie id crit v ++ enc_pre pre). rewrite <- app_assoc.
    set (T := enc_pre pre ++ pie 139 0 (gtp_tunnel_v4 addr teid) ++ post).
    set (b := Pfx ++ pie id crit v ++ T).
    assert (Lb : N.of_nat (length Pfx) + 4 + N.of_nat (length v) <= N.of_nat (length b)).
    { unfold b, pie, len1. repeat (first [rewrite app_length | progress cbn [length]]); lia. }
    assert (Hat : forall j, at_ b (N.of_nat (length Pfx) + j) = at_ (pie id crit v ++ T) j) by (intro j; apply at_app_r).
    cbn [twalk]. fold b.
    replace (N.of_nat (length Pfx) <? N.of_nat (length b)) with true by lia.
    replace (N.of_nat (length b) <? N.of_nat (length Pfx) + 2) with false by lia.
    assert (E0 : be16_at b (N.of_nat (length Pfx)) = id).
    { unfold be16_at. rewrite <- (N.add_0_r (N.of_nat (length Pfx))) at 1. rewrite !Hat.
      change (at_ (pie id crit v ++ T) 0) with (id / 256). change (at_ (pie id crit v ++ T) 1) with (id mod 256). lia. }
    rewrite E0. replace (negb (id =? 139)) with true by lia.
    replace (N.of_nat (length b) <=? N.of_nat (length Pfx) + 3) with false by lia.
    assert (E3 : at_ b (N.of_nat (length Pfx) + 3) = N.of_nat (length v)) by (rewrite Hat; reflexivity).
    rewrite E3.
    replace (N.of_nat (length Pfx) + 3 + N.of_nat (length v) + 1) with (N.of_nat (length (Pfx ++ pie id crit v))).
    2:{ unfold pie, len1. repeat (first [rewrite app_length | progress cbn [length]]); lia. }
    unfold b, T. rewrite app_assoc. apply IH; try assumption. lia.
Qed.

Theorem transfer_extract_exact pre addr teid post :
  forallb transfer_pre_ok pre = true -> length addr = 4%nat -> length teid = 4%nat ->
  decode_transfer (setup_request_transfer pre addr teid post) = XOk (be32 teid, Some addr).
Proof.
  intros Hok Ha Ht. unfold decode_transfer, setup_request_transfer. fold (enc_pre pre).
  set (n := N.of_nat (length pre) + 1).
  change 3 with (N.of_nat (length [0; n / 256; n mod 256])).
  apply twalk_finds; try assumption.
  assert (length pre <= length (enc_pre pre))%nat.
  { clear. induction pre as [|p pre IH]; [cbn; lia|]. change (enc_pre (p :: pre)) with (pie (fst (fst p)) (snd (fst p)) (snd p) ++ enc_pre pre).
    rewrite app_length. unfold pie at 1. cbn [length app]. lia. }
  rewrite !app_length. lia.
Qed.
