(* C14, part 2: parseField (Model/AperDec.v) never panics, and needs no more fuel than the nesting depth of the type.

   Hypotheses on the (type, tag) pair, all decidable and checked over the regenerated schema by vm_compute:
     wf_ty t (psize_ok p)
       - SIZE bounds of strings and lists are int64 values with 0 <= lb < 2^32 (a negative lb wraps the uint arithmetic
         and does panic: see c14 examples),
       - the first field of a CHOICE struct ("Present") is an int,
       - the field an open type refers to is an INTEGER, or a wrapper/CHOICE of such, at most REF_FUEL deep.
   Values are tracked with the typing judgement [has_ty] (only what getReferenceFieldValue looks at). *)
From Coq Require Import NArith ZArith List Bool Lia Arith String.
From Coq Require Import ZifyN ZifyNat ZifyBool.
Require Import GoSlice AperCommon AperEnc AperDec AperDecProofs AperTotalPrim.
Import ListNotations.
Open Scope N_scope.
Ltac Zify.zify_post_hook ::= Z.div_mod_to_equations.

Local Arguments N.add : simpl never.
Local Arguments N.mul : simpl never.
Local Arguments N.sub : simpl never.
Local Arguments N.div : simpl never.
Local Arguments N.modulo : simpl never.
Local Arguments N.land : simpl never.
Local Arguments N.lor : simpl never.
Local Arguments N.shiftr : simpl never.
Local Arguments N.shiftl : simpl never.
Local Arguments N.pow : simpl never.

(* ------------------------------------------------------------------------------------------------ *)
(* well-formedness of a schema type (boolean, evaluated on the schema) *)

Definition lbz_ok (o : option Z) : bool := match o with Some l => (0 <=? l)%Z && (l <? 4294967296)%Z | None => true end.
Definition ubz_ok (o : option Z) : bool :=
  match o with Some u => (-9223372036854775808 <=? u)%Z && (u <? 9223372036854775808)%Z | None => true end.
Definition psize_ok (p : params) : bool := lbz_ok (p_sizeLB p) && ubz_ok (p_sizeUB p).

Lemma psize_ok_spec p : psize_ok p = true -> size_ok (p_sizeLB p) (p_sizeUB p).
Proof.
  unfold psize_ok, size_ok, lbz_ok, ubz_ok. intros H. apply andb_prop in H as (H1 & H2).
  split; [destruct (p_sizeLB p)|destruct (p_sizeUB p)]; try exact I; lia.
Qed.

(* getReferenceFieldValue on a value of this type neither panics nor exceeds [fuel] levels *)
Fixpoint ref_ok (fuel : nat) (t : ty) : bool :=
  match fuel with
  | O => false
  | S f =>
      match t with
      | TInt => true
      | TStruct fs =>
          match fs with
          | [] => false
          | (n, _, t0) :: _ =>
              if String.eqb n "Present" then forallb (fun fd => ref_ok f (f_ty fd)) fs else ref_ok f t0
          end
      | _ => true
      end
  end.

Definition refs_ok (fs : list field) : bool :=
  forallb (fun i =>
             match nth_error fs i with
             | Some f =>
                 if p_openType (f_params f) then
                   let index := find_field (p_refName (f_params f)) fs i 0 in
                   Nat.eqb index i || match nth_error fs index with Some rf => ref_ok REF_FUEL (f_ty rf) | None => false end
                 else true
             | None => true
             end) (seq 0 (List.length fs)).

Definition first_is_int (fs : list field) : bool := match fs with (_, _, TInt) :: _ => true | _ => false end.

Fixpoint wf_ty (t : ty) (szok : bool) : bool :=
  match t with
  | TSlice e => szok && wf_ty e true
  | TPtr e => wf_ty e szok
  | TBits | TOctets | TString => szok
  | TStruct fs =>
      (if is_choice fs then first_is_int fs else refs_ok fs)
      && (fix go (fs : list (string * params * ty)) : bool :=
            match fs with [] => true | (_, p, t') :: r => wf_ty t' (psize_ok p) && go r end) fs
  | _ => true
  end.

Lemma wf_struct fs b : wf_ty (TStruct fs) b = true ->
  (if is_choice fs then first_is_int fs else refs_ok fs) = true
  /\ Forall (fun f => wf_ty (f_ty f) (psize_ok (f_params f)) = true) fs.
Proof.
  cbn [wf_ty]. intros H. apply andb_prop in H as (H1 & H2). split; [exact H1|]. clear H1.
  induction fs as [|[[n p] t'] r IH]; [constructor|].
  apply andb_prop in H2 as (H2 & H3). constructor; [exact H2|apply IH; exact H3].
Qed.

Lemma ty_depth_field fs f : In f fs -> (ty_depth (f_ty f) < ty_depth (TStruct fs))%nat.
Proof.
  cbn [ty_depth]. induction fs as [|[[n p] t'] r IH]; intros Hin; [contradiction|].
  destruct Hin as [<-|Hin]; cbn [f_ty snd]; [lia|]. specialize (IH Hin). lia.
Qed.

Lemma ty_depth_pos t : (1 <= ty_depth t)%nat.
Proof. destruct t; cbn [ty_depth]; lia. Qed.

(* ------------------------------------------------------------------------------------------------ *)
(* typing of values, as far as getReferenceFieldValue inspects them *)

Inductive has_ty : ty -> val -> Prop :=
| HT_int z : has_ty TInt (VInt z)
| HT_struct fs vs :
    Forall2 (fun f v => has_ty (f_ty f) v) fs vs ->
    (is_choice fs = true -> exists z r, vs = VInt z :: r /\ (0 <= z)%Z) ->
    has_ty (TStruct fs) (VStruct vs)
| HT_other t v : match t with TInt | TStruct _ => False | _ => True end -> has_ty t v.

Lemma zero_val_struct fs : zero_val (TStruct fs) = VStruct (zero_fields fs).
Proof.
  cbn [zero_val]. f_equal. unfold zero_fields. induction fs as [|[[n p] t'] r IH]; [reflexivity|].
  cbn [map f_ty snd]. f_equal. exact IH.
Qed.

Lemma zero_val_has_ty : forall n t b, (ty_depth t <= n)%nat -> wf_ty t b = true -> has_ty t (zero_val t).
Proof.
  induction n as [|n IH]; intros t b Hd Hw; [pose proof (ty_depth_pos t); lia|].
  destruct t; try (apply HT_other; exact I); [constructor|].
  rewrite zero_val_struct. apply wf_struct in Hw as (Hc & Hf).
  constructor.
  - unfold zero_fields.
    assert (Hdep : forall f, In f fields -> (ty_depth (f_ty f) <= n)%nat).
    { intros f Hin. pose proof (ty_depth_field _ _ Hin). lia. }
    clear Hc Hd. induction fields as [|f r IHr]; [constructor|].
    inversion Hf; subst. cbn [map]. constructor.
    + apply (IH _ (psize_ok (f_params f))); [apply Hdep; left; reflexivity|assumption].
    + apply IHr; [assumption|]. intros f' Hin. apply Hdep. right. exact Hin.
  - intros Hch. rewrite Hch in Hc. destruct fields as [|[[n0 p0] t0] r]; [discriminate|].
    destruct t0; try discriminate. unfold zero_fields. cbn [map f_ty snd zero_val]. eexists _, _. split; [reflexivity|lia].
Qed.

Lemma Forall2_nth_error {A B} (P : A -> B -> Prop) l1 l2 i a :
  Forall2 P l1 l2 -> nth_error l1 i = Some a -> exists b, nth_error l2 i = Some b /\ P a b.
Proof.
  intros H. revert i. induction H as [|x y l1 l2 Hxy H IH]; intros i; destruct i; cbn [nth_error]; try discriminate.
  - intros E. injection E as <-. eexists; split; [reflexivity|exact Hxy].
  - apply IH.
Qed.

Lemma Forall2_set_nth {A} (P : A -> val -> Prop) l1 l2 i a v :
  Forall2 P l1 l2 -> nth_error l1 i = Some a -> P a v -> Forall2 P l1 (set_nth l2 i v).
Proof.
  intros H. revert i. induction H as [|x y l1 l2 Hxy H IH]; intros i; destruct i; cbn [nth_error set_nth]; try discriminate.
  - intros E Hp. injection E as <-. constructor; assumption.
  - intros E Hp. constructor; [assumption|]. apply IH; assumption.
Qed.

Lemma Forall2_length' {A B} (P : A -> B -> Prop) l1 l2 : Forall2 P l1 l2 -> List.length l1 = List.length l2.
Proof. induction 1; cbn [List.length]; congruence. Qed.

(* getReferenceFieldValue on well-typed values *)
Lemma get_ref_quiet : forall fuel t v, ref_ok fuel t = true -> has_ty t v -> quiet (get_ref fuel t v).
Proof.
  induction fuel as [|f IH]; intros t v Hr Ht; [discriminate|].
  cbn [ref_ok] in Hr. cbn [get_ref].
  inversion Ht as [z|fs vs HF Hch|t' v' Ho]; subst.
  - exact I.
  - destruct fs as [|[[n0 p0] t0] fr]; [discriminate|].
    unfold f_name at 1. cbn [fst].
    destruct (String.eqb n0 "Present") eqn:En.
    + assert (Hc : is_choice ((n0, p0, t0) :: fr) = true) by (cbn [is_choice]; unfold f_name; cbn [fst]; exact En).
      destruct (Hch Hc) as (z & r & -> & Hz).
      destruct (z =? 0)%Z; [exact I|].
      match goal with |- context [if ?c then _ else _] => destruct c eqn:Eg end; [exact I|].
      assert (z <? 0 = false)%Z as -> by lia.
      match goal with |- context [match ?c with Some _ => _ | None => _ end] => destruct c as [fp|] eqn:Efp end.
      * destruct (Forall2_nth_error _ _ _ _ _ HF Efp) as (vp & -> & Hvp).
        apply IH; [|exact Hvp].
        rewrite forallb_forall in Hr. apply Hr. apply (nth_error_In _ _ Efp).
      * apply nth_error_None in Efp. lia.
    + inversion HF as [|x y l1 l2 Hxy HF']; subst. apply IH; [exact Hr|exact Hxy].
  - destruct t; try contradiction; exact I.
Qed.

(* ------------------------------------------------------------------------------------------------ *)
(* results of the parseField level *)

Definition rgood {A} (allow : Prop) (Q : A -> Prop) (x : res A) : Prop :=
  match x with Ok a => Q a | Err _ => True | Panic _ => False | OutOfFuel => allow end.

Lemma rgood_abind {A B} allow (P : A -> Prop) (Q : B -> Prop) (r : ares A) (f : A -> ares B) :
  rgood allow P (fst r) -> (forall a, P a -> rgood allow Q (fst (f a))) -> rgood allow Q (fst (abind r f)).
Proof.
  destruct r as [[a|e|q|] n]; cbn [fst abind rgood]; auto.
  intros Hp Hf. specialize (Hf a Hp). destruct (f a) as [r' m]. exact Hf.
Qed.

Lemma rgood_mono {A} (allow allow' : Prop) (P Q : A -> Prop) x :
  rgood allow P x -> (allow -> allow') -> (forall a, P a -> Q a) -> rgood allow' Q x.
Proof. destruct x; cbn [rgood]; auto. Qed.

Definition st_post {A} (s0 : dst) (Q : A -> dst -> Prop) : A * dst -> Prop :=
  fun x => adv s0 (snd x) /\ Q (fst x) (snd x).

Lemma rgood_alift {A} allow s0 (Q : A -> dst -> Prop) (r : sres A) :
  sgood s0 Q r -> rgood allow (st_post s0 Q) (fst (alift r)).
Proof. destruct r as [[a|e|q|] s]; cbn [sgood alift fst rgood st_post snd]; auto; contradiction. Qed.

Lemma rgood_aret {A} allow (Q : A -> Prop) a : Q a -> rgood allow Q (fst (aret a)).
Proof. intros H. exact H. Qed.

(* the extension-bit prefix of parseField *)
Lemma ext_bit_good allow (b : bool) s : dinv s ->
  rgood allow (st_post s (fun _ _ => True))
    (fst (if b then alift (dos (b, s) <- getBitsValue s 1; (Ok (negb (b =? 0)), s)) else aret (false, s))).
Proof.
  intros Hs. destruct b.
  - apply rgood_alift. eapply sgood_bind; [apply getBitsValue_good', Hs|].
    intros v s' Ha _. apply sgood_ok; [exact Ha|exact I].
  - cbn. split; [apply adv_refl, Hs|exact I].
Qed.

Lemma getChoiceIndex_good' s ext ub : dinv s -> octs s ->
  sgood s (fun pr s' => (1 <= pr)%Z /\ pos s + 1 <= pos s') (getChoiceIndex s ext ub).
Proof.
  intros Hs Ho. unfold getChoiceIndex.
  destruct ext; [apply sgood_err, adv_refl, Hs|].
  destruct ub as [u|]; [|apply sgood_err, adv_refl, Hs].
  destruct (u <? 0)%Z; [apply sgood_err, adv_refl, Hs|].
  eapply sgood_bind; [apply parseConstraintValue_good'; assumption|].
  intros v s' Ha (Hp & Hv). apply sgood_ok; [exact Ha|]. split; [|exact Hp].
  unfold i64n. rewrite (i64_small (Z.of_N v)) by lia. rewrite i64_small by lia. lia.
Qed.

(* ------------------------------------------------------------------------------------------------ *)
(* the recursive readers, relative to a recursive call [rec] that is good on the types below depth D *)

Definition fpost (s0 : dst) (t : ty) : val * dst -> Prop := fun x => adv s0 (snd x) /\ has_ty t (fst x).

Section Elems.
  Variable rec : ty -> params -> dst -> ares (val * dst).
  Variable e : ty.
  Variable p' : params.
  Fixpoint seqof_elems (n : nat) (acc : list val) (s : dst) : ares (val * dst) :=
    match n with
    | O => aret (VList (rev acc), s)
    | S k => doa (v, s') <- rec e p' s; seqof_elems k (v :: acc) s'
    end.
End Elems.

Ltac dif E := match goal with |- context [if ?c then _ else _] => destruct c eqn:E end.
Ltac dopt f E := match goal with |- context [match ?c with Some _ => _ | None => _ end] => destruct c as [f|] eqn:E end.

Section Rec.
  Variable rec : ty -> params -> dst -> ares (val * dst).
  Variable D : nat.
  Variable allow : Prop.
  Hypothesis Hrec : forall t p s, (ty_depth t < D)%nat -> wf_ty t (psize_ok p) = true -> dinv s -> octs s ->
    rgood allow (fpost s t) (fst (rec t p s)).

  Lemma seqof_elems_good e p' s0 : (ty_depth e < D)%nat -> wf_ty e (psize_ok p') = true -> octs s0 ->
    forall n acc s, adv s0 s -> rgood allow (fpost s0 (TSlice e)) (fst (seqof_elems rec e p' n acc s)).
  Proof.
    intros Hd Hw Ho. induction n as [|n IH]; intros acc s Ha; cbn [seqof_elems].
    - cbn. split; [exact Ha|apply HT_other; exact I].
    - eapply rgood_abind; [apply Hrec; [exact Hd|exact Hw|apply Ha|apply (adv_octs _ _ Ha Ho)]|].
      intros [v s'] (Ha' & _). cbn [fst snd] in Ha'. apply IH. apply (adv_trans _ _ _ Ha Ha').
  Qed.

  Lemma decSequenceOf_eq e p ext s :
    decSequenceOf rec e p ext s =
    (let lb := match p_sizeLB p with Some x => if (x <? 65536)%Z then x else 0%Z | None => 0%Z end in
     let sizeRange := match p_sizeUB p with
                      | Some ub => if negb ext && (ub <? 65536)%Z then i64 (ub - lb + 1) else (-1)%Z
                      | None => (-1)%Z end in
     doa (numElements, s) <-
       (if (1 <? sizeRange)%Z then
          match parseConstraintValue s sizeRange with
          | (Ok n, s') => aret (u64 (n + u64z lb), s')
          | (Err _, s') => aret (u64z lb, s')
          | (Panic p, _) => (Panic p, 0)
          | (OutOfFuel, _) => (OutOfFuel, 0)
          end
        else if (sizeRange =? 1)%Z then aret (u64z lb, s)
        else
          alift (dos (_, s) <- parseAlignBits s;
                 if len (d_bytes s) <=? d_byteOffset s then (Err E_OUT_OF_RANGE, s)
                 else match idx (d_bytes s) (d_byteOffset s) with
                      | Ok b => (Ok b, mkdst (d_bytes s) (u64 (d_byteOffset s + 1)) (d_bitsOffset s))
                      | Err e => (Err e, s) | Panic p => (Panic p, s) | OutOfFuel => (OutOfFuel, s)
                      end));
     if (i64n numElements <? 0)%Z then (Panic P_MAKE, 0)
     else abind (Ok tt, numElements * go_sizeof e)
            (fun _ => seqof_elems rec e (clear_size p) (Z.to_nat (i64n numElements)) [] s)).
  Proof. reflexivity. Qed.

  (* the element count: a small number, whatever the input *)
  Definition count_post (s0 : dst) : N * dst -> Prop := fun x => adv s0 (snd x) /\ fst x < 131072.

  Lemma seqof_count_good p ext s : psize_ok p = true -> dinv s -> octs s ->
    let lb := match p_sizeLB p with Some x => if (x <? 65536)%Z then x else 0%Z | None => 0%Z end in
    let sizeRange := match p_sizeUB p with
                     | Some ub => if negb ext && (ub <? 65536)%Z then i64 (ub - lb + 1) else (-1)%Z
                     | None => (-1)%Z end in
    rgood allow (count_post s)
      (fst (if (1 <? sizeRange)%Z then
          match parseConstraintValue s sizeRange with
          | (Ok n, s') => aret (u64 (n + u64z lb), s')
          | (Err _, s') => aret (u64z lb, s')
          | (Panic p, _) => (Panic p, 0)
          | (OutOfFuel, _) => (OutOfFuel, 0)
          end
        else if (sizeRange =? 1)%Z then aret (u64z lb, s)
        else
          alift (dos (_, s) <- parseAlignBits s;
                 if len (d_bytes s) <=? d_byteOffset s then (Err E_OUT_OF_RANGE, s)
                 else match idx (d_bytes s) (d_byteOffset s) with
                      | Ok b => (Ok b, mkdst (d_bytes s) (u64 (d_byteOffset s + 1)) (d_bitsOffset s))
                      | Err e => (Err e, s) | Panic p => (Panic p, s) | OutOfFuel => (OutOfFuel, s)
                      end))).
  Proof.
    intros Hp Hs Ho lb sizeRange.
    assert (Hlb : (0 <= lb < 65536)%Z).
    { unfold lb. unfold psize_ok, lbz_ok in Hp. apply andb_prop in Hp as (Hp & _).
      destruct (p_sizeLB p) as [x|]; [|lia]. destruct (x <? 65536)%Z eqn:E; lia. }
    assert (Hu : u64z lb = Z.to_N lb) by (apply u64z_small; lia).
    destruct (1 <? sizeRange)%Z.
    - pose proof (parseConstraintValue_good' s sizeRange Hs Ho) as H.
      destruct (parseConstraintValue s sizeRange) as [[n|e|q|] s']; cbn [sgood] in H; try contradiction.
      + destruct H as (Ha & _ & Hn). unfold count_post, aret; cbn [fst snd rgood]. split; [exact Ha|]. rewrite Hu. rewrite u64_small by (unfold TWO64; lia). lia.
      + unfold count_post, aret; cbn [fst snd rgood]. split; [exact H|]. rewrite Hu. lia.
    - destruct (sizeRange =? 1)%Z.
      + unfold count_post, aret; cbn [fst snd rgood]. split; [apply adv_refl, Hs|]. rewrite Hu. lia.
      + eapply rgood_mono; [apply (rgood_alift allow s (fun b _ => b < 256))| auto |].
        * eapply sgood_bind; [apply parseAlignBits_good', Hs|].
          intros u s1 Ha1 Hb0. cbv beta in Hb0 |- *.
          pose proof (adv_dinv _ _ Ha1) as Hs1. pose proof Hs1 as (B1 & B2 & B3 & B4). unfold MAXLEN in B4.
          destruct (len (d_bytes s1) <=? d_byteOffset s1) eqn:E; [apply sgood_err; exact Ha1|].
          destruct (idx_ok (d_bytes s1) (d_byteOffset s1)) as [b Eb]; [lia|]. rewrite Eb.
          rewrite u64_small by (unfold TWO64; lia).
          apply sgood_ok.
          -- apply (adv_trans _ _ _ Ha1). apply adv_skip; [exact Hs1|exact Hb0|lia].
          -- apply (idx_octet _ _ _ (adv_octs _ _ Ha1 Ho) Eb).
        * intros [b s'] (Ha & Hb). unfold count_post. cbn [fst snd] in *. split; [exact Ha|lia].
  Qed.

  Lemma decSequenceOf_good e p ext s : (ty_depth e < D)%nat -> wf_ty (TSlice e) (psize_ok p) = true -> dinv s -> octs s ->
    rgood allow (fpost s (TSlice e)) (fst (decSequenceOf rec e p ext s)).
  Proof.
    intros Hd Hw Hs Ho. rewrite decSequenceOf_eq. cbv zeta.
    cbn [wf_ty] in Hw. apply andb_prop in Hw as (Hp & Hwe).
    eapply rgood_abind; [apply (seqof_count_good p ext s Hp Hs Ho)|].
    intros [n s1] (Ha1 & Hn). cbn [fst snd] in Ha1, Hn.
    assert (Hi : i64n n = Z.of_N n) by (unfold i64n; apply i64_small; lia).
    rewrite Hi. assert (Z.of_N n <? 0 = false)%Z as -> by lia.
    eapply rgood_abind with (P := fun _ => True); [exact I|].
    intros _ _. apply seqof_elems_good; [exact Hd|exact Hwe|exact Ho|exact Ha1].
  Qed.

  (* open type *)
  Lemma parseOpenType_good t p s : (ty_depth t < D)%nat -> wf_ty t (psize_ok p) = true -> dinv s -> octs s ->
    rgood allow (fpost s t) (fst (parseOpenType rec t p s)).
  Proof.
    intros Hd Hw Hs Ho. unfold parseOpenType.
    eapply rgood_abind.
    - apply rgood_alift. apply open_dec_loop_good; [exact Hs|exact Ho|constructor|].
      pose proof (dinv_pos s Hs). unfold len. lia.
    - intros [bytes s1] (Ha1 & Hob & Hlen & _). cbn [fst snd] in *.
      eapply rgood_abind.
      + apply (Hrec t p (mkdst bytes 0 0) Hd Hw); [|exact Hob].
        pose proof (dinv_pos _ (adv_dinv _ _ Ha1)) as Hp1. rewrite (adv_len _ _ Ha1) in Hp1.
        destruct Hs as (_ & _ & _ & H4).
        unfold dinv. cbn [d_bytes d_byteOffset d_bitsOffset]. change (len (@nil N)) with 0 in Hlen.
        repeat split; try lia.
      + intros [v s2] (_ & Hv). cbn [fst snd] in Hv. cbn. split; [exact Ha1|exact Hv].
  Qed.

  (* SEQUENCE: the field loop *)
  Lemma dec_seq_loop_good allf s0 : is_choice allf = false -> refs_ok allf = true -> octs s0 ->
    forall fs pre i cnt pres vals s,
      allf = pre ++ fs -> List.length pre = i ->
      Forall (fun f => wf_ty (f_ty f) (psize_ok (f_params f)) = true /\ (ty_depth (f_ty f) < D)%nat) fs ->
      Forall2 (fun f v => has_ty (f_ty f) v) allf vals -> adv s0 s ->
      rgood allow (fpost s0 (TStruct allf)) (fst (dec_seq_loop rec allf fs i cnt pres vals s)).
  Proof.
    intros Hnc Hrefs Ho. induction fs as [|f fr IH]; intros pre i cnt pres vals s Hall Hi Hf Hv Ha; cbn [dec_seq_loop].
    - cbn. split; [exact Ha|]. constructor; [exact Hv|]. rewrite Hnc. discriminate.
    - inversion Hf as [|f' fr' (Hwf & Hdf) Hf']; subst f' fr'.
      assert (Hnext : allf = (pre ++ [f]) ++ fr) by (rewrite <- app_assoc; exact Hall).
      assert (Hlen' : List.length (pre ++ [f]) = S i) by (rewrite app_length; cbn [List.length]; lia).
      assert (Hnth : nth_error allf i = Some f).
      { rewrite Hall, nth_error_app2 by lia. replace (i - List.length pre)%nat with O by lia. reflexivity. }
      match goal with |- context [if ?c then _ else _] => destruct c end.
      { apply (IH (pre ++ [f])); assumption. }
      eapply rgood_abind with (P := fun fp' => psize_ok fp' = psize_ok (f_params f)).
      + destruct (p_openType (f_params f)) eqn:Eo; [|reflexivity].
        unfold refs_ok in Hrefs. rewrite forallb_forall in Hrefs.
        assert (Hin : In i (seq 0 (List.length allf))).
        { apply in_seq. rewrite Hall, app_length. cbn [List.length]. lia. }
        specialize (Hrefs i Hin). rewrite Hnth, Eo in Hrefs. cbv zeta in Hrefs.
        destruct (Nat.eqb (find_field (p_refName (f_params f)) allf i 0) i); [exact I|].
        cbn [orb] in Hrefs.
        destruct (nth_error allf (find_field (p_refName (f_params f)) allf i 0)) as [rf|] eqn:Erf; [|discriminate].
        destruct (Forall2_nth_error _ _ _ _ _ Hv Erf) as (rv & -> & Hrv).
        pose proof (get_ref_quiet _ _ _ Hrefs Hrv) as Hq.
        destruct (get_ref REF_FUEL (f_ty rf) rv); cbn [quiet] in Hq; try contradiction; [reflexivity|exact I].
      + intros fp' Hfp'.
        eapply rgood_abind; [apply Hrec; [exact Hdf|rewrite Hfp'; exact Hwf|apply Ha|apply (adv_octs _ _ Ha Ho)]|].
        intros [v s'] (Ha' & Hv'). cbn [fst snd] in Ha', Hv'.
        apply (IH (pre ++ [f])); try assumption.
        * apply (Forall2_set_nth _ _ _ _ _ _ Hv Hnth Hv').
        * apply (adv_trans _ _ _ Ha Ha').
  Qed.

  Lemma decStruct_good fs p ext s : (ty_depth (TStruct fs) <= D)%nat -> wf_ty (TStruct fs) (psize_ok p) = true ->
    dinv s -> octs s -> rgood allow (fpost s (TStruct fs)) (fst (decStruct rec fs p ext s)).
  Proof.
    intros Hd Hw Hs Ho. unfold decStruct.
    apply wf_struct in Hw as (Hc & Hf).
    assert (Hfd : Forall (fun f => wf_ty (f_ty f) (psize_ok (f_params f)) = true /\ (ty_depth (f_ty f) < D)%nat) fs).
    { rewrite Forall_forall in *. intros f Hin. split; [apply Hf; exact Hin|]. pose proof (ty_depth_field _ _ Hin). lia. }
    assert (Hz : Forall2 (fun f v => has_ty (f_ty f) v) fs (zero_fields fs)).
    { unfold zero_fields. clear - Hf. induction Hf as [|f r Hw Hf IH]; cbn [map]; constructor; [|exact IH].
      apply (zero_val_has_ty _ _ _ (le_n _) Hw). }
    eapply rgood_abind with (P := fun x => adv s (snd x)).
    { destruct (0 <? count_optional fs).
      - eapply rgood_mono; [apply (rgood_alift allow); apply getBitsValue_good', Hs|exact (fun x => x)|]. intros x (Ha & _). exact Ha.
      - cbn. apply adv_refl, Hs. }
    intros [pres s1] Ha1. cbn [snd] in Ha1.
    pose proof (adv_dinv _ _ Ha1) as Hs1. pose proof (adv_octs _ _ Ha1 Ho) as Ho1.
    destruct (is_choice fs) eqn:Ech.
    - (* CHOICE *)
      assert (Hzc : exists r, zero_fields fs = VInt 0 :: r).
      { destruct fs as [|[[n0 p0] t0] r]; [discriminate|]. destruct t0; try discriminate. eexists. reflexivity. }
      assert (Hf0 : exists f0, nth_error fs 0 = Some f0 /\ f_ty f0 = TInt).
      { destruct fs as [|[[n0 p0] t0] r]; [discriminate|]. destruct t0; try discriminate. eexists. split; reflexivity. }
      destruct Hf0 as (f0 & Hf0 & Hf0t).
      assert (Hset : forall k f v z, (0 <= z)%Z -> k <> O -> nth_error fs k = Some f -> has_ty (f_ty f) v ->
                has_ty (TStruct fs) (VStruct (set_nth (set_nth (zero_fields fs) 0 (VInt z)) k v))).
      { intros k f v z Hz0 Hk Hnk Hv. constructor.
        - assert (H0 : has_ty (f_ty f0) (VInt z)) by (rewrite Hf0t; constructor).
          apply (Forall2_set_nth _ _ _ _ _ _ (Forall2_set_nth _ _ _ _ _ _ Hz Hf0 H0) Hnk Hv).
        - intros _. destruct Hzc as (r & ->). destruct k; [contradiction|]. cbn [set_nth]. eexists _, _. split; [reflexivity|exact Hz0]. }
      destruct (p_openType p).
      + destruct (p_refValue p) as [refValue|]; [|exact I].
        dif E0.
        { cbn. split; [exact Ha1|]. constructor; [exact Hz|]. intros _. destruct Hzc as (r & ->). eexists _, _. split; [reflexivity|lia]. }
        dopt f Ef; [|exact I].
        pose proof (nth_error_In _ _ Ef) as Hin. rewrite Forall_forall in Hfd. destruct (Hfd f Hin) as (Hwf & Hdf).
        eapply rgood_abind; [apply rgood_mono with (allow := allow) (P := fpost s1 (f_ty f));
                             [apply parseOpenType_good; assumption|auto|intros a H; exact H]|].
        intros [v s'] (Ha' & Hv'). cbn [fst snd] in Ha', Hv'. cbn. split; [apply (adv_trans _ _ _ Ha1 Ha')|].
        apply (Hset _ f); try assumption; [lia|]. intros Hk. rewrite Hk in E0. discriminate.
      + pose proof (getChoiceIndex_good' s1 ext (p_valueUB p) Hs1 Ho1) as Hg.
        destruct (getChoiceIndex s1 ext (p_valueUB p)) as [[present|e|q|] s2]; cbn [sgood] in Hg; try contradiction; [|exact I].
        destruct Hg as (Ha2 & Hpos & _). pose proof (adv_dinv _ _ Ha2) as Hs2.
        destruct (present =? 0)%Z; [exact I|].
        dif Eg; [exact I|].
        assert (present <? 0 = false)%Z as -> by lia.
        dopt f Ef; [|apply nth_error_None in Ef; lia].
        pose proof (nth_error_In _ _ Ef) as Hin. rewrite Forall_forall in Hfd. destruct (Hfd f Hin) as (Hwf & Hdf).
        eapply rgood_abind; [apply Hrec; [exact Hdf|exact Hwf|exact Hs2|apply (adv_octs _ _ Ha2 Ho1)]|].
        intros [v s'] (Ha' & Hv'). cbn [fst snd] in Ha', Hv'. cbn.
        split; [apply (adv_trans _ _ _ Ha1 (adv_trans _ _ _ Ha2 Ha'))|].
        apply (Hset _ f); try assumption; lia.
    - (* SEQUENCE *)
      eapply rgood_mono; [apply (dec_seq_loop_good fs s1 Ech Hc Ho1 fs [] 0%nat); try reflexivity; try assumption; apply adv_refl, Hs1|auto|].
      intros [v s'] (Ha' & Hv'). split; [apply (adv_trans _ _ _ Ha1 Ha')|exact Hv'].
  Qed.
End Rec.

(* ------------------------------------------------------------------------------------------------ *)
(* the remaining primitive readers in the [sgood] form (cursor never moves backwards) *)

Lemma parseBool_good' s : dinv s -> sgood s anyres (parseBool s).
Proof.
  intros Hs. unfold parseBool. eapply sgood_bind; [apply getBitsValue_good', Hs|].
  intros v s' Ha _. apply sgood_ok; [exact Ha|exact I].
Qed.

Lemma parseEnumerated_good' s ext lb ub : dinv s -> octs s -> sgood s anyres (parseEnumerated s ext lb ub).
Proof.
  intros Hs Ho. unfold parseEnumerated.
  destruct ext; [apply sgood_err, adv_refl, Hs|].
  destruct lb as [l|]; [|apply sgood_err, adv_refl, Hs].
  destruct ub as [u|]; [|apply sgood_err, adv_refl, Hs].
  destruct (1 <? i64 (u - l + 1))%Z.
  - eapply sgood_weaken; [apply adv_refl, Hs|apply parseConstraintValue_good'; assumption|intros; exact I].
  - apply sgood_ok; [apply adv_refl, Hs|exact I].
Qed.

Lemma parseInteger_good' s ext lb ub : dinv s -> octs s -> sgood s anyres (parseInteger s ext lb ub).
Proof.
  intros Hs Ho. unfold parseInteger.
  destruct (if ext then (0, -1, -1)%Z else match lb with None => (0, -1, -1)%Z | Some l => match ub with Some u => (l, u, i64 (u - l + 1)) | None => (l, (-1)%Z, 0%Z) end end) as [[l u] vr].
  destruct (vr =? 1)%Z; [apply sgood_ok; [apply adv_refl, Hs|exact I]|].
  destruct ((0 <? vr) && (vr <=? 65536))%Z.
  - eapply sgood_bind; [apply parseConstraintValue_good'; assumption|]. intros v s' Ha _. apply sgood_ok; [exact Ha|exact I].
  - eapply sgood_bind with (P := anyres).
    + destruct (vr <=? 0)%Z.
      * eapply sgood_bind; [apply parseAlignBits_good', Hs|].
        intros x s1 Ha1 Hb0. cbv beta in Hb0 |- *.
        pose proof (adv_dinv _ _ Ha1) as Hs1. pose proof Hs1 as (B1 & B2 & B3 & B4). unfold MAXLEN in B4.
        destruct (len (d_bytes s1) <=? d_byteOffset s1) eqn:E; [apply sgood_err; exact Ha1|].
        destruct (idx_ok (d_bytes s1) (d_byteOffset s1)) as [b ->]; [lia|].
        rewrite u64_small by (unfold TWO64; lia).
        apply sgood_ok; [|exact I]. apply (adv_trans _ _ _ Ha1). apply adv_skip; [exact Hs1|exact Hb0|lia].
      * eapply sgood_bind; [apply getBitsValue_good', Hs|].
        intros tl s1 Ha1 _. cbv beta.
        eapply sgood_bind; [eapply sgood_weaken; [exact Ha1|apply parseAlignBits_good'; apply Ha1|]; intros a s' Ha H; exact (conj Ha H)|].
        intros x s2 Ha2 _. apply sgood_ok; [exact Ha2|exact I].
    + intros rl s1 Ha1 _. cbv beta.
      eapply sgood_bind; [eapply sgood_weaken; [exact Ha1|apply getBitsValue_good'; apply Ha1|]; intros a s' Ha H; exact (conj Ha H)|].
      intros rv s2 Ha2 _. cbv beta. destruct (vr <? 0)%Z; [|apply sgood_ok; [exact Ha2|exact I]].
      destruct (0 <? N.land rv _); apply sgood_ok; try exact Ha2; exact I.
Qed.

(* ------------------------------------------------------------------------------------------------ *)
(* parseField *)

Ltac ext2 Hs x s1 Ha1 y s2 Ha2 :=
  eapply rgood_abind; [apply ext_bit_good; exact Hs|];
  intros [x s1] (Ha1 & _); cbn [fst snd] in Ha1;
  eapply rgood_abind; [apply ext_bit_good; apply (adv_dinv _ _ Ha1)|];
  intros [y s2] (Ha2 & _); cbn [fst snd] in Ha2;
  apply (adv_trans _ _ _ Ha1) in Ha2.

Lemma prim_field_good {A} allow s s2 t (r : sres A) (mk : A -> val) :
  adv s s2 -> sgood s2 anyres r -> (forall a, has_ty t (mk a)) ->
  rgood allow (fpost s t) (fst (doa (a, s') <- alift r; aret (mk a, s'))).
Proof.
  intros Ha Hr Hm. eapply rgood_abind; [apply (rgood_alift allow); exact Hr|].
  intros [a s'] (Ha' & _). cbn [fst snd] in Ha'. cbn. split; [apply (adv_trans _ _ _ Ha Ha')|apply Hm].
Qed.

Theorem parseField_good : forall fuel t p s, wf_ty t (psize_ok p) = true -> dinv s -> octs s ->
  rgood (fuel < ty_depth t)%nat (fpost s t) (fst (parseField fuel t p s)).
Proof.
  induction fuel as [|f IH]; intros t p s Hw Hs Ho.
  - cbn. apply ty_depth_pos.
  - cbn [parseField].
    destruct (d_byteOffset s =? len (d_bytes s)); [exact I|].
    assert (Hrec : forall t' p' s', (ty_depth t' < ty_depth t)%nat -> wf_ty t' (psize_ok p') = true -> dinv s' -> octs s' ->
                     rgood (S f < ty_depth t)%nat (fpost s' t') (fst (parseField f t' p' s'))).
    { intros t' p' s' Hd' Hw' Hs' Ho'. eapply rgood_mono; [apply IH; assumption|lia|auto]. }
    destruct t.
    + (* TInt *) ext2 Hs x s1 Ha1 y s2 Ha2.
      apply (prim_field_good _ s s2 TInt _ VInt Ha2); [|intros; constructor].
      apply parseInteger_good'; [apply Ha2|apply (adv_octs _ _ Ha2 Ho)].
    + (* TEnum *) ext2 Hs x s1 Ha1 y s2 Ha2.
      apply (prim_field_good _ s s2 TEnum _ VEnum Ha2); [|intros; apply HT_other; exact I].
      apply parseEnumerated_good'; [apply Ha2|apply (adv_octs _ _ Ha2 Ho)].
    + (* TBool *) ext2 Hs x s1 Ha1 y s2 Ha2.
      apply (prim_field_good _ s s2 TBool _ VBool Ha2); [|intros; apply HT_other; exact I].
      apply parseBool_good'; apply Ha2.
    + (* TBits *) ext2 Hs x s1 Ha1 y s2 Ha2.
      eapply rgood_abind; [apply (rgood_alift (S f < ty_depth TBits)%nat);
                           apply parseBitString_good; [apply Ha2|apply (adv_octs _ _ Ha2 Ho)|apply psize_ok_spec; exact Hw]|].
      intros [[bs n] s'] (Ha' & _). cbn [fst snd] in Ha'. cbn. split; [apply (adv_trans _ _ _ Ha2 Ha')|apply HT_other; exact I].
    + (* TOctets *) ext2 Hs x s1 Ha1 y s2 Ha2.
      apply (prim_field_good _ s s2 TOctets _ VOctets Ha2); [|intros; apply HT_other; exact I].
      apply parseOctetString_good; [apply Ha2|apply (adv_octs _ _ Ha2 Ho)|apply psize_ok_spec; exact Hw].
    + (* TString *) ext2 Hs x s1 Ha1 y s2 Ha2.
      apply (prim_field_good _ s s2 TString _ VOctets Ha2); [|intros; apply HT_other; exact I].
      apply parseOctetString_good; [apply Ha2|apply (adv_octs _ _ Ha2 Ho)|apply psize_ok_spec; exact Hw].
    + (* TOid *) ext2 Hs x s1 Ha1 y s2 Ha2. exact I.
    + (* TSlice *) ext2 Hs x s1 Ha1 y s2 Ha2.
      eapply rgood_mono; [apply (decSequenceOf_good (parseField f) (ty_depth (TSlice t)) _ Hrec t p x s2);
                          [cbn [ty_depth]; lia|exact Hw|apply Ha2|apply (adv_octs _ _ Ha2 Ho)]|auto|].
      intros [v s'] (Ha' & Hv'). split; [apply (adv_trans _ _ _ Ha2 Ha')|exact Hv'].
    + (* TPtr *)
      eapply rgood_abind; [apply Hrec; [cbn [ty_depth]; lia|exact Hw|exact Hs|exact Ho]|].
      intros [v s'] (Ha' & _). cbn. split; [exact Ha'|apply HT_other; exact I].
    + (* TStruct *) ext2 Hs x s1 Ha1 y s2 Ha2.
      eapply rgood_mono; [apply (decStruct_good (parseField f) (ty_depth (TStruct fields)) _ Hrec fields p y s2);
                          [lia|exact Hw|apply Ha2|apply (adv_octs _ _ Ha2 Ho)]|auto|].
      intros [v s'] (Ha' & Hv'). split; [apply (adv_trans _ _ _ Ha2 Ha')|exact Hv'].
Qed.

Theorem parseField_total fuel t p s : wf_ty t (psize_ok p) = true -> dinv s -> octs s ->
  match fst (parseField fuel t p s) with
  | Ok (v, s') => adv s s' /\ has_ty t v
  | Err _ => True
  | Panic _ => False
  | OutOfFuel => (fuel < ty_depth t)%nat
  end.
Proof.
  intros Hw Hs Ho. pose proof (parseField_good fuel t p s Hw Hs Ho) as H.
  destruct (fst (parseField fuel t p s)) as [[v s']| | |]; exact H.
Qed.

(* UnmarshalWithParams: with fuel >= the nesting depth of the type the result is a value or an error *)
Definition bytes_ok (bs : list N) : Prop := Forall (fun b => b < 256) bs.

Theorem unmarshal_total fuel t p bs :
  wf_ty t (psize_ok p) = true -> (ty_depth t <= fuel)%nat -> bytes_ok bs -> len bs < MAXLEN ->
  quiet (unmarshal fuel t p bs).
Proof.
  intros Hw Hf Hb Hl. unfold unmarshal, unmarshal_full.
  assert (Hs : dinv (mkdst bs 0 0)).
  { unfold dinv. cbn [d_bytes d_byteOffset d_bitsOffset]. repeat split; try lia. }
  pose proof (parseField_good fuel t p (mkdst bs 0 0) Hw Hs Hb) as H.
  destruct (fst (parseField fuel t p (mkdst bs 0 0))) as [[v s']|e|q|]; cbn [rgood quiet] in *; try exact I; try contradiction.
  lia.
Qed.

(* ... and with any fuel it never panics *)
Theorem unmarshal_never_panics fuel t p bs :
  wf_ty t (psize_ok p) = true -> bytes_ok bs -> len bs < MAXLEN ->
  forall q, unmarshal fuel t p bs <> Panic q.
Proof.
  intros Hw Hb Hl q. unfold unmarshal, unmarshal_full.
  assert (Hs : dinv (mkdst bs 0 0)).
  { unfold dinv. cbn [d_bytes d_byteOffset d_bitsOffset]. repeat split; try lia. }
  pose proof (parseField_good fuel t p (mkdst bs 0 0) Hw Hs Hb) as H.
  destruct (fst (parseField fuel t p (mkdst bs 0 0))) as [[v s']|e|q'|]; cbn [rgood] in *; try discriminate. contradiction.
Qed.
