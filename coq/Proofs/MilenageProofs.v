(* C15: the in-repo Milenage (Model/Milenage.v) against TS 35.206 / TS 33.102 (Spec/TS35206.v),
   for every block cipher E with 16-octet output. *)
From Coq Require Import NArith ZArith List Lia Bool.
From Coq Require Import ZifyN ZifyNat ZifyBool.
Require Import Bytes BytesLemmas TS35206 Milenage.
Import ListNotations.
Open Scope N_scope.

(* destructure a list of known length into its elements *)
Ltac list16 l H :=
  destruct l as [|?b [|?b [|?b [|?b [|?b [|?b [|?b [|?b [|?b [|?b [|?b [|?b [|?b [|?b [|?b [|?b [|? ?]]]]]]]]]]]]]]]]];
  try discriminate H; clear H.

(* ---- the index loops of the Go code against list operations *)
Lemma scatter_length r a b : length (scatter r a b) = 16%nat.
Proof. unfold scatter. rewrite map_length, seq_length. reflexivity. Qed.

Lemma scatter_rot_0 a b : length a = 16%nat -> length b = 16%nat -> scatter 0 a b = xor_bytes a b.
Proof. intros Ha Hb. list16 a Ha. list16 b Hb. reflexivity. Qed.
Lemma scatter_rot_12 a b : length a = 16%nat -> length b = 16%nat -> scatter 12 a b = rotl_list 4 (xor_bytes a b).
Proof. intros Ha Hb. list16 a Ha. list16 b Hb. reflexivity. Qed.
Lemma scatter_rot_8 a b : length a = 16%nat -> length b = 16%nat -> scatter 8 a b = rotl_list 8 (xor_bytes a b).
Proof. intros Ha Hb. list16 a Ha. list16 b Hb. reflexivity. Qed.
Lemma scatter_rot_4 a b : length a = 16%nat -> length b = 16%nat -> scatter 4 a b = rotl_list 12 (xor_bytes a b).
Proof. intros Ha Hb. list16 a Ha. list16 b Hb. reflexivity. Qed.
Lemma xor16_xor a b : length a = 16%nat -> length b = 16%nat -> xor16 a b = xor_bytes a b.
Proof. apply scatter_rot_0. Qed.

Lemma set_last_xor_cconst l c : length l = 16%nat -> set_last_xor l c = xor_bytes l (cconst c).
Proof.
  intro H. list16 l H. unfold set_last_xor, cconst. cbn [firstn nth app repeat xor_bytes].
  rewrite !N.lxor_0_r. reflexivity.
Qed.
Lemma xor_cconst_0 l : length l = 16%nat -> xor_bytes l (cconst 0) = l.
Proof. intro H. change (cconst 0) with (repeat 0 16). apply xor_bytes_zeros. lia. Qed.

Lemma rotl_list_length {A} n (l:list A) : length (rotl_list n l) = length l.
Proof.
  revert l; induction n as [|n IH]; intro l; cbn [rotl_list]; [reflexivity|].
  destruct l as [|x r]; [reflexivity|]. rewrite IH, app_length. cbn. lia.
Qed.
Lemma xor_len16 a b : length a = 16%nat -> length b = 16%nat -> length (xor_bytes a b) = 16%nat.
Proof. intros Ha Hb. rewrite xor_bytes_length, Ha, Hb. reflexivity. Qed.
Lemma rot_len16 n (l:bytes) : length l = 16%nat -> length (rotl_list n l) = 16%nat.
Proof. intro H. rewrite rotl_list_length. exact H. Qed.
Lemma set_last_len16 l c : length l = 16%nat -> length (set_last_xor l c) = 16%nat.
Proof. intro H. unfold set_last_xor. rewrite app_length, firstn_length, H. reflexivity. Qed.
Lemma cconst_len16 c : length (cconst c) = 16%nat.
Proof. reflexivity. Qed.
Lemma in1_len16 (sqn amf:bytes) : length sqn = 6%nat -> length amf = 2%nat -> length (sqn ++ amf ++ sqn ++ amf) = 16%nat.
Proof. intros Hs Ha. rewrite !app_length, Hs, Ha. reflexivity. Qed.

Create HintDb len16.
#[export] Hint Resolve scatter_length xor_len16 rot_len16 set_last_len16 cconst_len16 in1_len16 : len16.
Ltac len := auto 8 with len16.

(* ---- os_memcmp *)
Definition cmp3 (c:comparison) : Z := match c with Lt => (-1)%Z | Eq => 0%Z | Gt => 1%Z end.
Lemma N_add_compare_l p a b : (p + a ?= p + b) = (a ?= b).
Proof.
  destruct (N.compare_spec a b) as [C|C|C].
  - subst. apply N.compare_refl.
  - apply N.compare_lt_iff. lia.
  - apply N.compare_gt_iff. lia.
Qed.
(* on equally long octet strings os_memcmp is the three-way comparison of the big-endian numbers *)
Lemma os_memcmp_lex a : forall b, length a = length b -> bytes_ok a = true -> bytes_ok b = true ->
  os_memcmp a b (length a) = Some (cmp3 (be_to_N a ?= be_to_N b)).
Proof.
  induction a as [|x a IH]; intros [|y b] Hl Ha Hb; try discriminate Hl.
  - reflexivity.
  - cbn [length os_memcmp]. cbn [bytes_ok forallb] in Ha, Hb.
    apply andb_true_iff in Ha. apply andb_true_iff in Hb. destruct Ha as [Hx Ha], Hb as [Hy Hb].
    cbn [length] in Hl. assert (Hl' : length a = length b) by lia.
    rewrite !be_to_N_cons. rewrite <- Hl'.
    pose proof (be_to_N_bound a Ha) as Ba. pose proof (be_to_N_bound b Hb) as Bb. rewrite <- Hl' in Bb.
    set (P := 256 ^ N.of_nat (length a)) in *. set (A := be_to_N a) in *. set (B := be_to_N b) in *.
    destruct (x <? y) eqn:Hxy.
    + apply N.ltb_lt in Hxy. assert (x * P + A < y * P + B) as Hlt by nia.
      rewrite (proj2 (N.compare_lt_iff _ _) Hlt). reflexivity.
    + destruct (y <? x) eqn:Hyx.
      * apply N.ltb_lt in Hyx. assert (y * P + B < x * P + A) as Hgt by nia.
        rewrite (proj2 (N.compare_gt_iff _ _) Hgt). reflexivity.
      * apply N.ltb_ge in Hxy. apply N.ltb_ge in Hyx. assert (x = y) by lia. subst y.
        rewrite N_add_compare_l. subst A B. apply IH; assumption.
Qed.

Lemma be_to_N_inj a : forall b, length a = length b -> bytes_ok a = true -> bytes_ok b = true ->
  be_to_N a = be_to_N b -> a = b.
Proof.
  induction a as [|x a IH]; intros [|y b] Hl Ha Hb C; try discriminate Hl; [reflexivity|].
  cbn [bytes_ok forallb] in Ha, Hb. apply andb_true_iff in Ha. apply andb_true_iff in Hb. destruct Ha as [Hx Ha], Hb as [Hy Hb].
  cbn [length] in Hl. assert (Hl' : length b = length a) by lia.
  rewrite !be_to_N_cons, Hl' in C.
  pose proof (be_to_N_bound a Ha) as Ba. pose proof (be_to_N_bound b Hb) as Bb. rewrite Hl' in Bb.
  set (P := 256 ^ N.of_nat (length a)) in *.
  assert (x = y) by nia. subst y. f_equal. apply IH; try assumption; lia.
Qed.

(* memcmp_lex of DESIGN: os_memcmp a b 6 <= 0  <->  be48 a <= be48 b *)
Lemma memcmp_lex a b : length a = 6%nat -> length b = 6%nat -> bytes_ok a = true -> bytes_ok b = true ->
  exists c, os_memcmp a b 6 = Some c /\ ((c <= 0)%Z <-> be_to_N a <= be_to_N b) /\ (c = 0%Z <-> a = b).
Proof.
  intros La Lb Ha Hb. pose proof (os_memcmp_lex a b) as H. rewrite La, Lb in H. specialize (H eq_refl Ha Hb).
  eexists. split; [exact H|]. split.
  - destruct (N.compare_spec (be_to_N a) (be_to_N b)) as [C|C|C]; cbn [cmp3]; lia.
  - destruct (N.compare_spec (be_to_N a) (be_to_N b)) as [C|C|C]; cbn [cmp3]; split; intro Q; try discriminate Q; try lia.
    + apply be_to_N_inj; try assumption. lia.
    + subst b. lia.
    + subst b. lia.
Qed.

(* equality test use of os_memcmp (MAC-A): no condition on the octet values *)
Lemma os_memcmp_eqb a : forall b, length a = length b ->
  exists d, os_memcmp a b (length a) = Some d /\ (d =? 0)%Z = bytes_eqb a b.
Proof.
  induction a as [|x a IH]; intros [|y b] Hl; try discriminate Hl.
  - exists 0%Z. split; reflexivity.
  - cbn [length os_memcmp bytes_eqb]. cbn [length] in Hl.
    destruct (x <? y) eqn:Hxy.
    + exists (-1)%Z. split; [reflexivity|]. apply N.ltb_lt in Hxy. assert ((x =? y) = false) as -> by (apply N.eqb_neq; lia). reflexivity.
    + destruct (y <? x) eqn:Hyx.
      * exists 1%Z. split; [reflexivity|]. apply N.ltb_lt in Hyx. assert ((x =? y) = false) as -> by (apply N.eqb_neq; lia). reflexivity.
      * apply N.ltb_ge in Hxy. apply N.ltb_ge in Hyx. assert (x = y) by lia. subst y. rewrite N.eqb_refl.
        cbn [andb]. apply IH. lia.
Qed.

Section Eq.
Variable E : bytes -> bytes -> bytes.
Hypothesis E_len : forall k x, length (E k x) = 16%nat.
Hint Resolve E_len : len16.

(* ---- f1 ... f5*, OPc *)
Lemma f2345_core_spec opc k rand : length opc = 16%nat -> length rand = 16%nat ->
  f2345_core E opc k rand =
  {| m_res := f2 E k opc rand; m_ck := f3 E k opc rand; m_ik := f4 E k opc rand;
     m_ak := f5 E k opc rand; m_aks := f5s E k opc rand |}.
Proof.
  intros Ho Hr. unfold f2345_core, f2, f3, f4, f5, f5s, outn, temp, rot_octets.
  rewrite (xor16_xor rand opc) by len.
  set (T := E k (xor_bytes rand opc)). assert (HT : length T = 16%nat) by (subst T; len).
  rewrite (xor16_xor T opc), scatter_rot_12, scatter_rot_8, scatter_rot_4 by len.
  rewrite !set_last_xor_cconst by len.
  rewrite !xor16_xor by len.
  reflexivity.
Qed.

Lemma f1_core_spec opc k rand sqn amf : length opc = 16%nat -> length rand = 16%nat -> length sqn = 6%nat -> (2 <= length amf)%nat ->
  f1_core E opc k rand sqn amf = (f1 E k opc rand sqn (firstn 2 amf), f1s E k opc rand sqn (firstn 2 amf)).
Proof.
  intros Ho Hr Hs Ha. unfold f1_core, f1, f1s, out1, temp, rot_octets.
  assert (Ha2 : length (firstn 2 amf) = 2%nat) by (rewrite firstn_length; lia).
  rewrite (firstn_all2 (n:=6) sqn) by lia.
  set (A := firstn 2 amf) in *.
  rewrite (xor16_xor rand opc) by len.
  set (T := E k (xor_bytes rand opc)). assert (HT : length T = 16%nat) by (subst T; len).
  rewrite scatter_rot_8 by len.
  rewrite (xor16_xor _ T) by len.
  rewrite xor_cconst_0 by len.
  rewrite (xor_bytes_comm T).
  rewrite xor16_xor by len.
  reflexivity.
Qed.

Lemma GenerateOPC_spec k op : length k = 16%nat -> length op = 16%nat -> GenerateOPC E k op = MOk (opc_of E k op).
Proof.
  intros Hk Ho. unfold GenerateOPC, aes_key_bad, short, opc_of. rewrite Hk, Ho. cbn [Nat.eqb Nat.ltb Nat.leb orb negb].
  rewrite firstn_all2 by lia. rewrite xor16_xor by len. reflexivity.
Qed.

Lemma milenageF2345_ok opc k rand : length opc = 16%nat -> length k = 16%nat -> length rand = 16%nat ->
  milenageF2345 E opc k rand = MOk (f2345_core E opc k rand).
Proof. intros Ho Hk Hr. unfold milenageF2345, aes_key_bad, short. rewrite Ho, Hk, Hr. reflexivity. Qed.
Lemma milenageF1_ok opc k rand sqn amf : length opc = 16%nat -> length k = 16%nat -> length rand = 16%nat ->
  length sqn = 6%nat -> (2 <= length amf)%nat ->
  milenageF1 E opc k rand sqn amf = MOk (f1_core E opc k rand sqn amf).
Proof.
  intros Ho Hk Hr Hs Ha. unfold milenageF1, aes_key_bad, short. rewrite Ho, Hk, Hr, Hs. cbn [Nat.eqb Nat.ltb Nat.leb orb negb].
  destruct (length amf) as [|[|n]]; [lia|lia|reflexivity].
Qed.

(* the exported functions on well-sized inputs *)
Theorem F2345_spec opc k rand : length opc = 16%nat -> length k = 16%nat -> length rand = 16%nat ->
  F2345 E opc k rand = MOk {| m_res := f2 E k opc rand; m_ck := f3 E k opc rand; m_ik := f4 E k opc rand;
                             m_ak := f5 E k opc rand; m_aks := f5s E k opc rand |}.
Proof. intros Ho Hk Hr. unfold F2345. rewrite milenageF2345_ok, f2345_core_spec by assumption. reflexivity. Qed.
Theorem F1_spec opc k rand sqn amf : length opc = 16%nat -> length k = 16%nat -> length rand = 16%nat ->
  length sqn = 6%nat -> length amf = 2%nat ->
  F1 E opc k rand sqn amf = MOk (f1 E k opc rand sqn amf, f1s E k opc rand sqn amf).
Proof.
  intros Ho Hk Hr Hs Ha. unfold F1. rewrite milenageF1_ok, f1_core_spec by (try assumption; lia).
  rewrite firstn_all2 by lia. reflexivity.
Qed.

(* lengths of the specification's outputs *)
Lemma outn_len r c k opc rand : length opc = 16%nat -> length (outn E r c k opc rand) = 16%nat.
Proof. intro Ho. unfold outn. len. Qed.
Lemma f5_len k opc rand : length opc = 16%nat -> length (f5 E k opc rand) = 6%nat.
Proof. intro Ho. unfold f5. rewrite firstn_length, outn_len by assumption. reflexivity. Qed.
Lemma f5s_len k opc rand : length opc = 16%nat -> length (f5s E k opc rand) = 6%nat.
Proof. intro Ho. unfold f5s. rewrite firstn_length, outn_len by assumption. reflexivity. Qed.
Lemma out1_len k opc rand sqn amf : length opc = 16%nat -> length (out1 E k opc rand sqn amf) = 16%nat.
Proof. intro Ho. unfold out1. len. Qed.
Lemma f1_len k opc rand sqn amf : length opc = 16%nat -> length (f1 E k opc rand sqn amf) = 8%nat.
Proof. intro Ho. unfold f1. rewrite firstn_length, out1_len by assumption. reflexivity. Qed.
Lemma f1s_len k opc rand sqn amf : length opc = 16%nat -> length (f1s E k opc rand sqn amf) = 8%nat.
Proof. intro Ho. unfold f1s. rewrite skipn_length, out1_len by assumption. reflexivity. Qed.

(* ---- MilenageGenerate = TS 33.102 6.3.2 *)
Theorem generate_spec opc amf k sqn rand res_len :
  length opc = 16%nat -> length k = 16%nat -> length rand = 16%nat -> length sqn = 6%nat -> length amf = 2%nat -> 8 <= res_len ->
  MilenageGenerate E opc amf k sqn rand res_len =
  GenOk (autn E k opc rand sqn amf) (f4 E k opc rand) (f3 E k opc rand) (f5 E k opc rand) (f2 E k opc rand).
Proof.
  intros Ho Hk Hr Hs Ha Hl. unfold MilenageGenerate.
  assert ((res_len <? 8) = false) as -> by (apply N.ltb_ge; exact Hl).
  rewrite milenageF1_ok, f1_core_spec, milenageF2345_ok, f2345_core_spec by (try assumption; lia).
  cbn [m_res m_ck m_ik m_ak m_aks]. rewrite !firstn_all2 by lia. reflexivity.
Qed.

(* ---- Milenage_auts = TS 33.102 6.3.5 *)
Theorem auts_char opc k rand t :
  length opc = 16%nat -> length k = 16%nat -> length rand = 16%nat -> length t = 14%nat ->
  Milenage_auts E opc k rand t =
  match auts_check E k opc rand t with
  | Some s => AutsRet 0 s
  | None => AutsRet (-1) (xor_bytes (firstn 6 t) (f5s E k opc rand))
  end.
Proof.
  intros Ho Hk Hr Ht. unfold Milenage_auts, auts_check.
  rewrite milenageF2345_ok, f2345_core_spec by assumption. cbn [m_res m_ck m_ik m_ak m_aks].
  unfold short. rewrite Ht. cbn [Nat.ltb Nat.leb].
  assert (Ls : length (xor_bytes (firstn 6 t) (f5s E k opc rand)) = 6%nat).
  { rewrite xor_bytes_length, firstn_length, Ht, f5s_len by assumption. reflexivity. }
  rewrite milenageF1_ok, f1_core_spec by (try assumption; cbn; lia).
  rewrite (firstn_all2 (n:=8) (skipn 6 t)) by (rewrite skipn_length; lia).
  change (firstn 2 [0;0]) with [0;0].
  destruct (bytes_eqb _ _); reflexivity.
Qed.

(* ---- Milenage_check: complete characterisation on well-sized inputs *)
Hypothesis E_ok : forall k x, bytes_ok (E k x) = true.

Lemma outn_ok r c k opc rand : bytes_ok opc = true -> bytes_ok (outn E r c k opc rand) = true.
Proof. intro Ho. unfold outn. apply xor_bytes_ok; [apply E_ok|exact Ho]. Qed.

Theorem check_char opc k sqn rand a :
  length opc = 16%nat -> length k = 16%nat -> length rand = 16%nat -> length sqn = 6%nat -> length a = 16%nat ->
  bytes_ok opc = true -> bytes_ok sqn = true -> bytes_ok a = true ->
  Milenage_check E opc k sqn rand a =
  if sqn_fresh E k opc rand a sqn
  then CheckRet (if mac_valid E k opc rand a then 0 else -1) (f2 E k opc rand) (f3 E k opc rand) (f4 E k opc rand) None
  else CheckRet (-2) (f2 E k opc rand) (f3 E k opc rand) (f4 E k opc rand) (Some (auts E k opc rand sqn)).
Proof.
  intros Ho Hk Hr Hs Ha Oo Os Oa. unfold Milenage_check.
  rewrite milenageF2345_ok, f2345_core_spec by assumption. cbn [m_res m_ck m_ik m_ak m_aks].
  unfold short at 1. rewrite Ha. cbn [Nat.ltb Nat.leb].
  fold (autn_conc_sqn a). fold (autn_sqn E k opc rand a).
  assert (Lrx : length (autn_sqn E k opc rand a) = 6%nat).
  { unfold autn_sqn, autn_conc_sqn. rewrite xor_bytes_length, firstn_length, Ha, f5_len by assumption. reflexivity. }
  assert (Orx : bytes_ok (autn_sqn E k opc rand a) = true).
  { unfold autn_sqn, autn_conc_sqn. apply xor_bytes_ok; [apply bytes_ok_firstn; exact Oa|].
    unfold f5. apply bytes_ok_firstn. apply outn_ok. exact Oo. }
  pose proof (os_memcmp_lex (autn_sqn E k opc rand a) sqn) as M. rewrite Lrx, Hs in M. rewrite (M eq_refl Orx Os). clear M.
  unfold sqn_fresh, sqn_val.
  destruct (N.compare_spec (be_to_N (autn_sqn E k opc rand a)) (be_to_N sqn)) as [C|C|C]; cbn [cmp3].
  - assert ((be_to_N sqn <? be_to_N (autn_sqn E k opc rand a)) = false) as -> by (apply N.ltb_ge; lia).
    cbn [Z.leb Z.compare]. unfold short. rewrite Hs. cbn [Nat.ltb Nat.leb].
    rewrite milenageF1_ok, f1_core_spec by (try assumption; cbn; lia).
    unfold auts. rewrite firstn_all2 by lia. reflexivity.
  - assert ((be_to_N sqn <? be_to_N (autn_sqn E k opc rand a)) = false) as -> by (apply N.ltb_ge; lia).
    cbn [Z.leb Z.compare]. unfold short. rewrite Hs. cbn [Nat.ltb Nat.leb].
    rewrite milenageF1_ok, f1_core_spec by (try assumption; cbn; lia).
    unfold auts. rewrite firstn_all2 by lia. reflexivity.
  - assert ((be_to_N sqn <? be_to_N (autn_sqn E k opc rand a)) = true) as -> by (apply N.ltb_lt; lia).
    cbn [Z.leb Z.compare].
    rewrite milenageF1_ok, f1_core_spec by (try assumption; rewrite skipn_length; lia).
    fold (autn_amf a). fold (autn_mac a).
    destruct (os_memcmp_eqb (f1 E k opc rand (autn_sqn E k opc rand a) (autn_amf a)) (autn_mac a)) as [d [Hd Hq]].
    { rewrite f1_len by assumption. unfold autn_mac. rewrite skipn_length, Ha. reflexivity. }
    rewrite f1_len in Hd by assumption. rewrite Hd. unfold mac_valid. rewrite <- Hq. reflexivity.
Qed.

(* ---- consequences stated as in the property *)
Lemma bytes_ok_app a b : bytes_ok a = true -> bytes_ok b = true -> bytes_ok (a ++ b) = true.
Proof. intros Ha Hb. unfold bytes_ok in *. rewrite forallb_app, Ha, Hb. reflexivity. Qed.
Lemma out1_ok k opc rand sqn amf : bytes_ok opc = true -> bytes_ok (out1 E k opc rand sqn amf) = true.
Proof. intro Ho. unfold out1. apply xor_bytes_ok; [apply E_ok|exact Ho]. Qed.

(* the fields of the AUTN built by the network *)
Lemma autn_fields k opc rand sqn amf : length opc = 16%nat -> length sqn = 6%nat -> length amf = 2%nat ->
  let a := autn E k opc rand sqn amf in
  length a = 16%nat /\ autn_sqn E k opc rand a = sqn /\ autn_amf a = amf /\ autn_mac a = f1 E k opc rand sqn amf.
Proof.
  intros Ho Hs Ha a. subst a. unfold autn, autn_sqn, autn_conc_sqn, autn_amf, autn_mac.
  pose proof (f5_len k opc rand Ho) as L5. pose proof (f1_len k opc rand sqn amf Ho) as L1.
  assert (Lx : length (xor_bytes sqn (f5 E k opc rand)) = 6%nat) by (rewrite xor_bytes_length, Hs, L5; reflexivity).
  repeat split.
  - rewrite !app_length, Lx, Ha, L1. reflexivity.
  - rewrite firstn_app_exact by exact Lx. apply xor_bytes_cancel. lia.
  - rewrite skipn_app_exact by exact Lx. apply firstn_app_exact. exact Ha.
  - rewrite app_assoc. apply skipn_app_exact. rewrite app_length, Lx, Ha. reflexivity.
Qed.

(* the AUTS a USIM builds is accepted by the network-side check and gives SQN_MS back (specification level) *)
Lemma auts_check_auts k opc rand sqn : length opc = 16%nat -> length sqn = 6%nat ->
  length (auts E k opc rand sqn) = 14%nat /\ auts_check E k opc rand (auts E k opc rand sqn) = Some sqn.
Proof.
  intros Ho Hs. unfold auts_check, auts.
  pose proof (f5s_len k opc rand Ho) as L5. pose proof (f1s_len k opc rand sqn [0;0] Ho) as L1.
  assert (Lx : length (xor_bytes sqn (f5s E k opc rand)) = 6%nat) by (rewrite xor_bytes_length, Hs, L5; reflexivity).
  split; [rewrite app_length, Lx, L1; reflexivity|].
  rewrite firstn_app_exact by exact Lx.
  rewrite xor_bytes_cancel by lia.
  rewrite skipn_app_exact by exact Lx.
  rewrite bytes_eqb_refl. reflexivity.
Qed.

Section CheckIff.
Variables opc k sqn rand a : bytes.
Hypothesis Ho : length opc = 16%nat.
Hypothesis Hk : length k = 16%nat.
Hypothesis Hr : length rand = 16%nat.
Hypothesis Hs : length sqn = 6%nat.
Hypothesis Ha : length a = 16%nat.
Hypothesis Oo : bytes_ok opc = true.
Hypothesis Os : bytes_ok sqn = true.
Hypothesis Oa : bytes_ok a = true.

(* check_iff: return code 0, with RES/CK/IK of the specification, iff MAC-A is exactly f1 over the concealed
   SQN and the AMF and that SQN is greater than the UE's; in every case RES/CK/IK are f2/f3/f4 and the
   return code is 0, -1 or -2 *)
Theorem check_iff :
  exists rc t, Milenage_check E opc k sqn rand a = CheckRet rc (f2 E k opc rand) (f3 E k opc rand) (f4 E k opc rand) t /\
    (rc = 0 \/ rc = -1 \/ rc = -2)%Z /\
    (rc = 0%Z <-> (f1 E k opc rand (autn_sqn E k opc rand a) (autn_amf a) = autn_mac a /\
                   sqn_val sqn < sqn_val (autn_sqn E k opc rand a))) /\
    (rc = (-2)%Z <-> sqn_val (autn_sqn E k opc rand a) <= sqn_val sqn).
Proof.
  rewrite check_char by assumption. unfold sqn_fresh, mac_valid.
  destruct (sqn_val sqn <? sqn_val (autn_sqn E k opc rand a)) eqn:F.
  - apply N.ltb_lt in F.
    destruct (bytes_eqb _ _) eqn:M.
    + apply bytes_eqb_eq in M. eexists; eexists; split; [reflexivity|]. repeat split; intros; try lia; try assumption.
    + apply bytes_eqb_neq in M. eexists; eexists; split; [reflexivity|]. repeat split; intros; try lia. destruct H; contradiction.
  - apply N.ltb_ge in F. eexists; eexists; split; [reflexivity|]. repeat split; intros; try lia.
Qed.

(* in terms of the TS 33.102 USIM procedure: 0 exactly when the USIM accepts, then with its RES, CK, IK *)
Theorem check_accepts_iff_usim :
  (exists t, Milenage_check E opc k sqn rand a = CheckRet 0 (f2 E k opc rand) (f3 E k opc rand) (f4 E k opc rand) t)
  <-> usim_check E k opc rand a sqn = Accept (f2 E k opc rand) (f3 E k opc rand) (f4 E k opc rand).
Proof.
  rewrite check_char by assumption. unfold usim_check.
  destruct (sqn_fresh E k opc rand a sqn), (mac_valid E k opc rand a); cbn [negb]; split;
    [intros [t H]|intro H| intros [t H]|intro H| intros [t H]|intro H| intros [t H]|intro H];
    try discriminate H; try reflexivity; try (eexists; reflexivity).
Qed.

(* resync: when the received SQN is not greater, the token produced is the TS 33.102 AUTS of the UE's SQN, the
   library's own network-side check accepts it and returns the UE's SQN *)
Theorem resync :
  sqn_val (autn_sqn E k opc rand a) <= sqn_val sqn ->
  exists t, Milenage_check E opc k sqn rand a = CheckRet (-2) (f2 E k opc rand) (f3 E k opc rand) (f4 E k opc rand) (Some t) /\
    t = auts E k opc rand sqn /\ length t = 14%nat /\
    Milenage_auts E opc k rand t = AutsRet 0 sqn /\ auts_check E k opc rand t = Some sqn.
Proof.
  intro F. rewrite check_char by assumption. unfold sqn_fresh.
  assert ((sqn_val sqn <? sqn_val (autn_sqn E k opc rand a)) = false) as -> by (apply N.ltb_ge; exact F).
  destruct (auts_check_auts k opc rand sqn Ho Hs) as [L C].
  eexists. split; [reflexivity|]. split; [reflexivity|]. split; [exact L|].
  rewrite auts_char by assumption. rewrite C. split; reflexivity.
Qed.
End CheckIff.

(* generation and checking are inverse: the AUTN MilenageGenerate builds for SQN passes Milenage_check of a
   UE whose SQN is smaller, with the same RES/CK/IK; a UE whose SQN is not smaller answers -2 *)
Theorem generate_check_inverse opc amf k sqn rand sqn_ue :
  length opc = 16%nat -> length k = 16%nat -> length rand = 16%nat -> length sqn = 6%nat -> length amf = 2%nat ->
  length sqn_ue = 6%nat -> bytes_ok opc = true -> bytes_ok sqn = true -> bytes_ok amf = true -> bytes_ok sqn_ue = true ->
  exists autn ik ck ak res, MilenageGenerate E opc amf k sqn rand 8 = GenOk autn ik ck ak res /\
    autn = TS35206.autn E k opc rand sqn amf /\
    (sqn_val sqn_ue < sqn_val sqn -> Milenage_check E opc k sqn_ue rand autn = CheckRet 0 res ck ik None) /\
    (sqn_val sqn <= sqn_val sqn_ue -> exists t, Milenage_check E opc k sqn_ue rand autn = CheckRet (-2) res ck ik (Some t)).
Proof.
  intros Ho Hk Hr Hs Ha Hu Oo Os Oa Ou.
  rewrite generate_spec by (try assumption; lia).
  do 5 eexists. split; [reflexivity|]. split; [reflexivity|].
  destruct (autn_fields k opc rand sqn amf Ho Hs Ha) as [L [Fs [Fa Fm]]].
  assert (Ok : bytes_ok (autn E k opc rand sqn amf) = true).
  { unfold autn. apply bytes_ok_app; [|apply bytes_ok_app].
    - apply xor_bytes_ok; [exact Os|]. unfold f5. apply bytes_ok_firstn, outn_ok, Oo.
    - exact Oa.
    - unfold f1. apply bytes_ok_firstn, out1_ok, Oo. }
  rewrite check_char by assumption. unfold sqn_fresh, mac_valid. rewrite Fs, Fa, Fm, bytes_eqb_refl.
  split; intro F.
  - assert ((sqn_val sqn_ue <? sqn_val sqn) = true) as -> by (apply N.ltb_lt; exact F). reflexivity.
  - assert ((sqn_val sqn_ue <? sqn_val sqn) = false) as -> by (apply N.ltb_ge; exact F). eexists. reflexivity.
Qed.
End Eq.

(* ---- what the faithful model does NOT satisfy: the failure class of TS 33.102 6.3.3.
   The USIM verifies MAC-A first and only then the SQN range; Milenage_check tests the SQN first.  For an AUTN
   that is stale AND carries a wrong MAC the standard says "MAC failure" (no AUTS is produced), the code
   returns -2 and hands out an AUTS.  Accept/reject is unaffected.  Witness: TS 35.208 set 1, the UE already
   at SQN, last MAC octet flipped. *)
Require Import AES.
Definition bad_autn1 : bytes := [85;243;40;180;53;119;185;185;74;159;250;195;84;223;175;178].
Lemma failure_class_refuted_witness :
  usim_check aes128 k1 opc1 rnd1 bad_autn1 sqn1 = MacFailure /\
  Milenage_check aes128 opc1 k1 sqn1 rnd1 bad_autn1
  = CheckRet (-2) (f2 aes128 k1 opc1 rnd1) (f3 aes128 k1 opc1 rnd1) (f4 aes128 k1 opc1 rnd1) (Some (auts aes128 k1 opc1 rnd1 sqn1)).
Proof. vm_compute. split; reflexivity. Qed.
Lemma failure_class_refuted :
  exists opc k sqn rand a,
    length opc = 16%nat /\ length k = 16%nat /\ length rand = 16%nat /\ length sqn = 6%nat /\ length a = 16%nat /\
    usim_check aes128 k opc rand a sqn = MacFailure /\
    Milenage_check aes128 opc k sqn rand a
    = CheckRet (-2) (f2 aes128 k opc rand) (f3 aes128 k opc rand) (f4 aes128 k opc rand) (Some (auts aes128 k opc rand sqn)).
Proof.
  destruct failure_class_refuted_witness as [W1 W2].
  exists opc1, k1, sqn1, rnd1, bad_autn1. do 5 (split; [reflexivity|]). split; [exact W1|exact W2].
Qed.
