(* The encoder model (Model/AperEnc.v) against X.691 (Spec/X691.v), primitive by primitive.

   Structure.  Every primitive of marshal.go touches the output only through putBitsValue, putBitString,
   appendAlignBits and raw appends.  [run_ops] runs a list of such operations on the byte-level state and
   [ops_bits] gives their meaning as bits appended at a given position.  The theorems here have the form

       model primitive = run_ops s ops      /\      X.691 primitive = XOk (ops_bits pos ops)

   i.e. "the Go algorithm issues exactly the bit-writes X.691 prescribes", on the decidable classes of
   constraints named [.._supported].  The remaining link, [run_ops] on bytes = appending [ops_bits] to the
   bit string (the refinement of the byte-level writer), is stated at the end as TODO-PARTIAL; it is the
   part the correspondence streams exercise at every bit offset. *)
From Coq Require Import NArith ZArith List Bool Lia Arith.
From Coq Require Import ZifyN ZifyNat ZifyBool.
Require Import GoSlice Bits AperCommon AperEnc Asn1 X691.
Import ListNotations.
Open Scope N_scope.
Ltac Zify.zify_post_hook ::= Z.div_mod_to_equations.

Inductive op :=
| OPut (v n : N)                 (* putBitsValue(v, n) *)
| OPutStr (bs : list N) (n : N)  (* putBitString(bs, n) *)
| OAlign                         (* appendAlignBits() *)
| OBytes (bs : list N).          (* pd.bytes = append(pd.bytes, bs...) *)

Fixpoint run_ops (s : est) (ops : list op) : res est :=
  match ops with
  | [] => Ok s
  | OPut v n :: r => do s' <- putBitsValue s v n; run_ops s' r
  | OPutStr bs n :: r => do s' <- putBitString s bs n; run_ops s' r
  | OAlign :: r => run_ops (appendAlignBits s) r
  | OBytes bs :: r => run_ops (append_bytes s bs) r
  end.

Definition op_bits (pos : nat) (o : op) : bits :=
  match o with
  | OPut v n => bits_of_N (N.to_nat n) v
  | OPutStr bs n => firstn (N.to_nat n) (bits_of_bytes bs)
  | OAlign => align pos
  | OBytes bs => bits_of_bytes bs
  end.
Fixpoint ops_bits (pos : nat) (ops : list op) : bits :=
  match ops with
  | [] => []
  | o :: r => let b := op_bits pos o in b ++ ops_bits (pos + length b) r
  end.

Lemma run_ops_app s a b : run_ops s (a ++ b) = do s' <- run_ops s a; run_ops s' b.
Proof.
  revert s; induction a as [|o a IH]; intros s; [reflexivity|].
  destruct o; cbn [run_ops app]; try apply IH.
  - destruct (putBitsValue s v n); cbn [bind]; auto.
  - destruct (putBitString s bs n); cbn [bind]; auto.
Qed.

Lemma ops_bits_app pos a b : ops_bits pos (a ++ b) = ops_bits pos a ++ ops_bits (pos + length (ops_bits pos a)) b.
Proof.
  revert pos; induction a as [|o a IH]; intros pos; cbn [ops_bits app].
  - rewrite Nat.add_0_r. reflexivity.
  - rewrite IH, app_length, <- app_assoc, Nat.add_assoc. reflexivity.
Qed.

(* ---------------------------------------------------------------- bit counts *)
Lemma go_bits_is_log2up_fin :
  forallb (fun r => Nat.eqb (N.to_nat (go_bits (Z.of_nat r))) (log2up_nat (N.of_nat r))) (seq 2 254) = true.
Proof. vm_compute. reflexivity. Qed.

Lemma go_bits_is_log2up r : 2 <= r <= 255 -> N.to_nat (go_bits (Z.of_N r)) = log2up_nat r.
Proof.
  intros H. pose proof go_bits_is_log2up_fin as F. rewrite forallb_forall in F.
  specialize (F (N.to_nat r)). replace (Z.of_nat (N.to_nat r)) with (Z.of_N r) in F by lia.
  rewrite N2Nat.id in F. apply Nat.eqb_eq. apply F. apply in_seq. lia.
Qed.

(* ---------------------------------------------------------------- constrained whole number, 10.5.7.1-3 *)
Definition cwn_ops (range v : N) : list op :=
  if range <=? 255 then [OPut v (go_bits (Z.of_N range))]
  else if range =? 256 then [OAlign; OPut v 8]
  else [OAlign; OPut v 16].

Theorem cwn_small_is_x691 s range v pos :
  2 <= range <= 65536 -> v < range ->
  appendConstraintValue s (Z.of_N range) v = run_ops s (cwn_ops range v)
  /\ cwn range v pos = XOk (ops_bits pos (cwn_ops range v)).
Proof.
  intros Hr Hv. unfold appendConstraintValue, cwn_ops, cwn.
  assert ((range =? 0) || (range <=? v) = false) as -> by lia.
  assert ((range =? 1) = false) as -> by lia.
  destruct (range <=? 255) eqn:E1.
  - assert ((Z.of_N range <=? 255)%Z = true) as -> by lia.
    assert ((Z.of_N range <? 0)%Z = false) as -> by lia.
    split.
    + cbn [run_ops]. destruct (putBitsValue s v (go_bits (Z.of_N range))); reflexivity.
    + cbn [ops_bits op_bits]. rewrite app_nil_r. rewrite go_bits_is_log2up by lia. reflexivity.
  - assert ((Z.of_N range <=? 255)%Z = false) as -> by lia.
    destruct (range =? 256) eqn:E2.
    + assert ((Z.of_N range =? 256)%Z = true) as -> by lia. split.
      * cbn [run_ops]. destruct (putBitsValue (appendAlignBits s) v 8); reflexivity.
      * cbn [ops_bits op_bits]. rewrite app_nil_r. reflexivity.
    + assert ((Z.of_N range =? 256)%Z = false) as -> by lia.
      assert ((Z.of_N range <=? 65536)%Z = true) as -> by lia.
      assert ((range <=? 65536) = true) as -> by lia. split.
      * cbn [run_ops]. destruct (putBitsValue (appendAlignBits s) v 16); reflexivity.
      * cbn [ops_bits op_bits]. rewrite app_nil_r. reflexivity.
Qed.

(* a value outside the range is never silently truncated for ranges using one or two octets:
   the caller-side range checks are what refuses it; here: what X.691 says *)
Lemma cwn_violation range v pos : range <= v -> cwn range v pos = XViolation.
Proof. intros H. unfold cwn. assert ((range =? 0) || (range <=? v) = true) as -> by lia. reflexivity. Qed.

(* ---------------------------------------------------------------- unconstrained length determinant, 10.9.3.5-7 *)
Lemma lor_32768_fin : forallb (fun n => N.eqb (N.lor n 32768) (32768 + n)) (map N.of_nat (seq 0 (N.to_nat 16384))) = true.
Proof. vm_compute. reflexivity. Qed.
Lemma lor_32768 n : n < 16384 -> N.lor n 32768 = 32768 + n.
Proof.
  intros H. pose proof lor_32768_fin as F. rewrite forallb_forall in F.
  apply N.eqb_eq. apply F. apply in_map_iff. exists (N.to_nat n). split; [lia|]. apply in_seq. lia.
Qed.

Definition lendet_ops (n : N) : list op :=
  if n <=? 127 then [OAlign; OPut n 8] else [OAlign; OPut (32768 + n) 16].

Theorem lendet_is_x691 s n pos :
  n < 16384 ->
  appendLength s (-1) n = run_ops s (lendet_ops n) /\ lendet n pos = XOk (ops_bits pos (lendet_ops n)).
Proof.
  intros H. unfold appendLength, lendet_ops, lendet. cbn [Z.leb Z.ltb Z.compare andb].
  destruct (n <=? 127) eqn:E.
  - assert (n <? 128 = true) as -> by lia. split.
    + cbn [run_ops]. destruct (putBitsValue (appendAlignBits s) n 8); reflexivity.
    + cbn [ops_bits op_bits]. rewrite app_nil_r. reflexivity.
  - assert (n <? 128 = false) as -> by lia.
    assert (n <=? 16383 = true) as -> by lia. assert (n <? 16384 = true) as -> by lia.
    rewrite lor_32768 by lia. split.
    + cbn [run_ops]. destruct (putBitsValue (appendAlignBits s) (32768 + n) 16); reflexivity.
    + cbn [ops_bits op_bits]. rewrite app_nil_r. reflexivity.
Qed.

(* constrained length: SIZE(lb..ub), ub < 65536, lb < ub *)
Theorem constrained_length_is_x691 s lb ub n pos :
  lb < ub -> ub < 65536 -> lb <= n <= ub ->
  appendLength s (Z.of_N (ub - lb + 1)) (n - lb) = run_ops s (cwn_ops (ub - lb + 1) (n - lb))
  /\ cwn (ub - lb + 1) (n - lb) pos = XOk (ops_bits pos (cwn_ops (ub - lb + 1) (n - lb))).
Proof.
  intros H1 H2 H3. unfold appendLength.
  assert (((Z.of_N (ub - lb + 1) <=? 65536) && (0 <? Z.of_N (ub - lb + 1)))%Z = true) as -> by lia.
  apply cwn_small_is_x691; lia.
Qed.

(* ---------------------------------------------------------------- BOOLEAN (11), ENUMERATED (13), CHOICE index (22) *)
Theorem bool_is_x691 s b pos :
  appendBool s b = run_ops s [OPut (if b then 1 else 0) 1]
  /\ x691 ABool (AVBool b) pos = XOk (ops_bits pos [OPut (if b then 1 else 0) 1]).
Proof.
  split.
  - unfold appendBool. cbn [run_ops]. destruct (putBitsValue s (if b then 1 else 0) 1); reflexivity.
  - destruct b; reflexivity.
Qed.

Definition enum_ops (n i : N) (ext : bool) : list op :=
  (if ext then [OPut 0 1] else []) ++ (if n =? 1 then [] else cwn_ops n i).

Theorem enum_is_x691 s n i ext pos :
  1 <= n <= 65536 -> i < n ->
  appendEnumerated s i ext (Some 0%Z) (Some (Z.of_N n - 1)%Z) = run_ops s (enum_ops n i ext)
  /\ x691 (AEnum n ext) (AVEnum i) pos = XOk (ops_bits pos (enum_ops n i ext)).
Proof.
  intros Hn Hi. unfold appendEnumerated, enum_ops.
  assert (i64n i = Z.of_N i) as Hi64.
  { unfold i64n, i64. rewrite Z.mod_small by lia. assert ((Z.of_N i <? 9223372036854775808)%Z = true) as -> by lia. reflexivity. }
  rewrite Hi64.
  assert ((Z.of_N n - 1 <? Z.of_N i)%Z = false) as -> by lia.
  assert ((Z.of_N i <? 0)%Z = false) as -> by lia.
  assert (i64 (Z.of_N n - 1 - 0 + 1) = Z.of_N n) as ->.
  { unfold i64. rewrite Z.mod_small by lia. assert ((Z.of_N n - 1 - 0 + 1 <? 9223372036854775808)%Z = true) as -> by lia. lia. }
  cbn [x691]. assert (n <=? i = false) as -> by lia.
  rewrite run_ops_app, ops_bits_app.
  destruct (n =? 1) eqn:E1.
  - assert ((1 <? Z.of_N n)%Z = false) as -> by lia. assert (n = 1) by lia. subst n. assert (i = 0) by lia. subst i.
    split.
    + destruct ext; cbn [run_ops bind]; [destruct (putBitsValue s 0 1)|]; reflexivity.
    + unfold cwn. cbn. destruct ext; reflexivity.
  - assert ((1 <? Z.of_N n)%Z = true) as -> by lia.
    destruct ext.
    + cbn [run_ops]. destruct (cwn_small_is_x691 (mkest [] 0) n i (pos + 1)) as [_ Hx]; try lia.
      split.
      * destruct (putBitsValue s 0 1) as [s'| | |]; cbn [bind]; try reflexivity.
        apply (cwn_small_is_x691 s' n i pos); lia.
      * cbn [length]. rewrite Hx. cbn [xbind ops_bits op_bits]. cbn [length app Nat.add].
        change (bits_of_N (N.to_nat 1) 0) with [false]. cbn [length app]. try rewrite Nat.add_0_r. reflexivity.
    + cbn [run_ops bind app length]. destruct (cwn_small_is_x691 s n i (pos + 0)) as [Hm Hx]; try lia.
      split; [exact Hm|]. rewrite Hx. cbn [xbind app ops_bits length]. rewrite Nat.add_0_r. reflexivity.
Qed.

(* CHOICE index among [n] >= 2 root alternatives (the Go `present` is index + 1) *)
Theorem choice_index_is_x691 s n idx ext pos :
  2 <= n <= 65536 -> idx < n ->
  appendChoiceIndex s (Z.of_N idx + 1) ext (Some (Z.of_N n - 1)%Z) = run_ops s (cwn_ops n idx)
  /\ cwn n idx pos = XOk (ops_bits pos (cwn_ops n idx)).
Proof.
  intros Hn Hi. unfold appendChoiceIndex.
  assert ((Z.of_N n - 1 <? 0)%Z = false) as -> by lia.
  replace (Z.of_N idx + 1 - 1)%Z with (Z.of_N idx) by lia.
  assert ((Z.of_N n - 1 <? Z.of_N idx)%Z = false) as -> by lia. rewrite andb_false_r.
  assert (i64 (Z.of_N n - 1 + 1) = Z.of_N n) as ->.
  { unfold i64. rewrite Z.mod_small by lia. assert ((Z.of_N n - 1 + 1 <? 9223372036854775808)%Z = true) as -> by lia. lia. }
  assert (u64z (Z.of_N idx) = idx) as ->. { unfold u64z. rewrite Z.mod_small by lia. lia. }
  apply cwn_small_is_x691; lia.
Qed.

(* ---------------------------------------------------------------- *)

Lemma put1_shape s b : b <= 1 ->
  putBitsValue s b 1 = putBitString s [N.land (shl64 b 7) 255] 1.
Proof.
  intros H. assert (b = 0 \/ b = 1) as [-> | ->] by lia; reflexivity.
Qed.

Lemma or_last_cases l x : (exists l', or_last l x = Ok l') \/ (exists p, or_last l x = Panic p).
Proof.
  unfold or_last, idx, upd. destruct (sub64 (len l) 1 <? len l); cbn [bind]; [left|right]; eexists; reflexivity.
Qed.

Lemma ignore_err_put1 s b : b <= 1 -> e_bitsOffset s < 8 ->
  ignore_err s (putBitsValue s b 1) = putBitsValue s b 1.
Proof.
  intros Hb Hoff. rewrite put1_shape by exact Hb.
  unfold putBitString. 
  change (slice_to [N.land (shl64 b 7) 255] (N.shiftr (u64 (1 + 7)) 3)) with (Ok [N.land (shl64 b 7) 255]).
  cbn [bind].
  destruct (e_bitsOffset s =? 0) eqn:E0; [reflexivity|].
  assert (1 <=? sub64 8 (e_bitsOffset s) = true) as ->.
  { unfold sub64, TWO64. lia. }
  change (idx [N.land (shl64 b 7) 255] 0) with (Ok (N.land (shl64 b 7) 255)). cbn [bind].
  destruct (or_last_cases (e_bytes s) (shr8 (N.land (shl64 b 7) 255) (e_bitsOffset s))) as [[l' ->]|[p ->]]; reflexivity.
Qed.

(* ---------------------------------------------------------------- *)

Definition ext_ops (ext : bool) (b : N) : list op := if ext then [OPut b 1] else [].

Lemma i64_small z : (- 9223372036854775808 <= z < 9223372036854775808)%Z -> i64 z = z.
Proof.
  intros H. unfold i64.
  destruct (Z_lt_ge_dec z 0).
  - assert ((z mod 18446744073709551616 = z + 18446744073709551616)%Z) as -> by lia.
    assert ((z + 18446744073709551616 <? 9223372036854775808)%Z = false) as -> by lia. lia.
  - rewrite Z.mod_small by lia. assert ((z <? 9223372036854775808)%Z = true) as -> by lia. reflexivity.
Qed.
Lemma u64z_small z : (0 <= z < 18446744073709551616)%Z -> u64z z = Z.to_N z.
Proof. intros H. unfold u64z. rewrite Z.mod_small by lia. reflexivity. Qed.

Definition int_small_ops (lb ub : Z) (ext : bool) (z : Z) : list op :=
  let R := Z.to_N (ub - lb + 1) in
  ext_ops ext 0 ++ (if R =? 1 then [] else cwn_ops R (Z.to_N (z - lb))).

Theorem int_constrained_small_is_x691 s lb ub ext z pos :
  e_bitsOffset s < 8 ->
  (lb <= z <= ub)%Z -> (ub - lb + 1 <= 65536)%Z -> (- 4611686018427387904 < lb)%Z -> (ub < 4611686018427387904)%Z ->
  appendInteger s z ext (Some lb) (Some ub) = run_ops s (int_small_ops lb ub ext z)
  /\ enc_int (Some lb) (Some ub) ext z pos = XOk (ops_bits pos (int_small_ops lb ub ext z)).
Proof.
  intros Hoff Hz HR Hlb Hub. unfold appendInteger, int_small_ops, enc_int.
  assert ((z <? lb)%Z = false) as -> by lia.
  assert ((z <=? ub)%Z = true) as -> by lia.
  assert ((lb <=? z)%Z = true) as -> by lia.
  cbn [negb andb]. rewrite andb_false_r.
  rewrite i64_small by lia.
  assert ((ub - lb + 1 =? 0)%Z = false) as -> by lia.
  set (R := Z.to_N (ub - lb + 1)).
  assert (HRz : Z.of_N R = (ub - lb + 1)%Z) by (unfold R; lia). clearbody R.
  rewrite run_ops_app, ops_bits_app.
  assert (H65 : ((0 <? ub - lb + 1) && (ub - lb + 1 <=? 65536))%Z = true) by lia.
  (* after the extension bit *)
  assert (Hbody : forall s' p',
    (if (ub - lb + 1 =? 1)%Z then Ok s' else appendConstraintValue s' (ub - lb + 1) (u64z (z - lb)))
    = run_ops s' (if R =? 1 then [] else cwn_ops R (Z.to_N (z - lb)))
    /\ cwn R (Z.to_N (z - lb)) p' = XOk (ops_bits p' (if R =? 1 then [] else cwn_ops R (Z.to_N (z - lb))))).
  { intros s' p'. destruct (R =? 1) eqn:ER.
    - assert ((ub - lb + 1 =? 1)%Z = true) as -> by lia. split; [reflexivity|].
      unfold cwn. assert ((R =? 0) || (R <=? Z.to_N (z - lb)) = false) as -> by lia. rewrite ER. reflexivity.
    - assert ((ub - lb + 1 =? 1)%Z = false) as -> by lia.
      rewrite u64z_small by lia. rewrite <- HRz. apply cwn_small_is_x691; lia. }
  destruct ext; cbn [ext_ops].
  - rewrite ignore_err_put1 by (lia || assumption). cbn [run_ops].
    destruct (putBitsValue s 0 1) as [s'| | |] eqn:EP; cbn [bind].
    + destruct (Hbody s' (pos + 1)%nat) as [Hm Hx]. split.
      * rewrite H65. exact Hm.
      * cbn [length]. rewrite Hx. cbn [xbind ops_bits op_bits]. change (bits_of_N (N.to_nat 1) 0) with [false].
        cbn [length app]. try rewrite Nat.add_0_r. reflexivity.
    + split; [reflexivity|]. destruct (Hbody s (pos + 1)%nat) as [_ Hx]. cbn [length]. rewrite Hx. cbn [xbind ops_bits op_bits].
      change (bits_of_N (N.to_nat 1) 0) with [false]. cbn [length app]. try rewrite Nat.add_0_r. reflexivity.
    + split; [reflexivity|]. destruct (Hbody s (pos + 1)%nat) as [_ Hx]. cbn [length]. rewrite Hx. cbn [xbind ops_bits op_bits].
      change (bits_of_N (N.to_nat 1) 0) with [false]. cbn [length app]. try rewrite Nat.add_0_r. reflexivity.
    + split; [reflexivity|]. destruct (Hbody s (pos + 1)%nat) as [_ Hx]. cbn [length]. rewrite Hx. cbn [xbind ops_bits op_bits].
      change (bits_of_N (N.to_nat 1) 0) with [false]. cbn [length app]. try rewrite Nat.add_0_r. reflexivity.
  - cbn [run_ops bind length app ops_bits]. destruct (Hbody s (pos + 0)%nat) as [Hm Hx]. split.
    + rewrite H65. exact Hm.
    + rewrite Hx. cbn [xbind app]. try rewrite Nat.add_0_r. reflexivity.
Qed.

(* ---------------------------------------------------------------- *)

Lemma shiftr8 u : N.shiftr u 8 = u / 256.
Proof. rewrite N.shiftr_div_pow2. reflexivity. Qed.

Lemma pow256_succ f : 256 ^ N.of_nat (S f) = 256 * 256 ^ N.of_nat f.
Proof. rewrite Nat2N.inj_succ, N.pow_succ_r'. reflexivity. Qed.

Lemma octs_fuel_pos f n : (1 <= octs_fuel f n)%nat.
Proof. destruct f; cbn [octs_fuel]; [lia|]; destruct (n <? 256); lia. Qed.

(* the Go rawLength loop counts octets like X.691 10.3 *)
Lemma rawlen_octs f : forall g n acc, (f <= g)%nat -> n < 256 ^ N.of_nat (S f) ->
  rawlen_loop g acc (n / 256) = acc + N.of_nat (octs_fuel f n) - 1.
Proof.
  induction f as [|f IH]; intros g n acc Hg Hn.
  - cbn [octs_fuel]. change (256 ^ N.of_nat 1) with 256 in Hn.
    assert (n / 256 = 0) as -> by (apply N.div_small; exact Hn).
    destruct g; cbn [rawlen_loop]; [lia|]. cbn. lia.
  - cbn [octs_fuel]. destruct (n <? 256) eqn:E.
    + assert (n / 256 = 0) as -> by (apply N.div_small; lia).
      destruct g; cbn [rawlen_loop]; [lia|]. cbn. lia.
    + destruct g as [|g]; [lia|]. cbn [rawlen_loop].
      assert (n / 256 =? 0 = false) as -> by (apply N.eqb_neq; intro Hz; apply N.div_small_iff in Hz; lia).
      rewrite shiftr8. rewrite (IH g (n / 256) (acc + 1)).
      * pose proof (octs_fuel_pos f (n / 256)). lia.
      * lia.
      * rewrite pow256_succ in Hn. apply N.div_lt_upper_bound; lia.
Qed.

Lemma bytelen_is_rawlen f : forall b u, bytelen_loop f b u = rawlen_loop f b (N.shiftr u 8).
Proof.
  induction f as [|f IH]; intros b u; [reflexivity|].
  cbn [bytelen_loop rawlen_loop]. destruct (N.shiftr u 8 =? 0); [reflexivity|]. apply IH.
Qed.

Lemma go_rawlen_is_octs v : v < 18446744073709551616 -> rawlen_loop 127 1 (N.shiftr v 8) = N.of_nat (octs v).
Proof.
  intros H. rewrite shiftr8. unfold octs. rewrite (rawlen_octs 16) by (try lia; cbn; lia).
  pose proof (octs_fuel_pos 16 v). lia.
Qed.
Lemma go_bytelen_is_octs v : v < 18446744073709551616 -> bytelen_loop 127 1 v = N.of_nat (octs v).
Proof. intros H. rewrite bytelen_is_rawlen. apply go_rawlen_is_octs. exact H. Qed.

Lemma octs_fuel_mono f : forall a b, a <= b -> (octs_fuel f a <= octs_fuel f b)%nat.
Proof.
  induction f as [|f IH]; intros a b H; cbn [octs_fuel]; [lia|].
  destruct (a <? 256) eqn:Ea, (b <? 256) eqn:Eb; try lia.
  apply le_n_S. apply IH. apply N.div_le_mono; lia.
Qed.
Lemma octs_le_8 v : v < 18446744073709551616 -> (octs v <= 8)%nat.
Proof.
  intros H. unfold octs. transitivity (octs_fuel 16 18446744073709551615); [apply octs_fuel_mono; lia|]. vm_compute. lia.
Qed.
Lemma octs_ge_3 v : 65536 <= v -> (3 <= octs v)%nat.
Proof.
  intros H. unfold octs. transitivity (octs_fuel 16 65536); [vm_compute; lia|apply octs_fuel_mono; lia].
Qed.

Definition int_big_ops (ub : Z) (ext : bool) (z : Z) : list op :=
  let v := Z.to_N z in
  let n := N.of_nat (octs v) in
  ext_ops ext 0 ++ [OPut (n - 1) (go_bits (Z.of_N (N.of_nat (octs (Z.to_N ub))))); OAlign; OPut v (8 * n)].

(* X.691 10.5.7.4 / 12.2.6: INTEGER (0..ub) with more than 64K values *)
Theorem int_constrained_big_is_x691 s ub ext z pos :
  e_bitsOffset s < 8 ->
  (0 <= z <= ub)%Z -> (65536 <= ub)%Z -> (ub < 4611686018427387904)%Z ->
  appendInteger s z ext (Some 0%Z) (Some ub) = run_ops s (int_big_ops ub ext z)
  /\ enc_int (Some 0%Z) (Some ub) ext z pos = XOk (ops_bits pos (int_big_ops ub ext z)).
Proof.
  intros Hoff Hz Hub1 Hub2. unfold appendInteger, int_big_ops, enc_int.
  assert ((z <? 0)%Z = false) as -> by lia.
  assert ((z <=? ub)%Z = true) as -> by lia.
  assert ((0 <=? z)%Z = true) as -> by lia.
  cbn [negb andb]. rewrite andb_false_r.
  replace (ub - 0 + 1)%Z with (ub + 1)%Z by lia. replace (z - 0)%Z with z by lia.
  rewrite i64_small by lia.
  assert ((ub + 1 =? 0)%Z = false) as -> by lia.
  assert ((ub + 1 =? 1)%Z = false) as E1 by lia.
  assert (((0 <? ub + 1) && (ub + 1 <=? 65536))%Z = false) as E2 by lia.
  assert ((ub + 1 <=? 0)%Z = false) as E3 by lia.
  assert ((ub + 1 <? 0)%Z = false) as E4 by lia.
  set (v := Z.to_N z). set (m := Z.to_N ub).
  assert (Hv : v < 18446744073709551616) by (unfold v; lia).
  assert (Hm : m < 18446744073709551616) by (unfold m; lia).
  rewrite run_ops_app, ops_bits_app.
  pose proof (octs_le_8 v Hv) as Hn8. pose proof (octs_fuel_pos 16 v) as Hn1. fold (octs v) in Hn1.
  pose proof (octs_le_8 m Hm) as Hm8. pose proof (octs_ge_3 m ltac:(unfold m; lia)) as Hm3.
  assert (Hbody : forall s' p',
    (do s0 <- putBitsValue s' (sub64 (rawlen_loop 127 1 (N.shiftr (u64z z) 8)) 1) (go_bits (Z.of_N (bytelen_loop 127 1 (u64z (ub + 1 - 1)))));
     putBitsValue (appendAlignBits s0) (u64z (z - 0)) (u64 (rawlen_loop 127 1 (N.shiftr (u64z z) 8) * 8)))
    = run_ops s' [OPut (N.of_nat (octs v) - 1) (go_bits (Z.of_N (N.of_nat (octs m)))); OAlign; OPut v (8 * N.of_nat (octs v))]
    /\ cwn (Z.to_N (ub + 1)) v p'
       = XOk (ops_bits p' [OPut (N.of_nat (octs v) - 1) (go_bits (Z.of_N (N.of_nat (octs m)))); OAlign; OPut v (8 * N.of_nat (octs v))])).
  { intros s' p'. replace (ub + 1 - 1)%Z with ub by lia. replace (z - 0)%Z with z by lia.
    rewrite (u64z_small z) by lia. rewrite (u64z_small ub) by lia. fold v. fold m.
    rewrite go_rawlen_is_octs, go_bytelen_is_octs by assumption.
    assert (sub64 (N.of_nat (octs v)) 1 = N.of_nat (octs v) - 1) as -> by (unfold sub64, TWO64; lia).
    assert (u64 (N.of_nat (octs v) * 8) = 8 * N.of_nat (octs v)) as -> by (unfold u64, TWO64; lia).
    split.
    - cbn [run_ops]. destruct (putBitsValue s' (N.of_nat (octs v) - 1) (go_bits (Z.of_N (N.of_nat (octs m))))) as [e0| | |]; cbn [bind]; [|reflexivity..].
      destruct (putBitsValue (appendAlignBits e0) v (8 * N.of_nat (octs v))); reflexivity.
    - unfold cwn.
      assert ((Z.to_N (ub + 1) =? 0) || (Z.to_N (ub + 1) <=? v) = false) as -> by (unfold v; lia).
      assert ((Z.to_N (ub + 1) =? 1) = false) as -> by lia.
      assert ((Z.to_N (ub + 1) <=? 255) = false) as -> by lia.
      assert ((Z.to_N (ub + 1) =? 256) = false) as -> by lia.
      assert ((Z.to_N (ub + 1) <=? 65536) = false) as -> by lia.
      replace (Z.to_N (ub + 1) - 1) with m by (unfold m; lia).
      cbn [ops_bits op_bits]. rewrite app_nil_r.
      rewrite go_bits_is_log2up by lia.
      replace (N.to_nat (8 * N.of_nat (octs v))) with (8 * octs v)%nat by lia.
      reflexivity. }
  destruct ext; cbn [ext_ops].
  - rewrite ignore_err_put1 by (lia || assumption). cbn [run_ops].
    destruct (putBitsValue s 0 1) as [s'| | |] eqn:EP; cbn [bind].
    + rewrite E1, E2, E3, E4. destruct (Hbody s' (pos + 1)%nat) as [Hm' Hx]. split; [exact Hm'|].
      cbn [length]. rewrite Hx. cbn [xbind ops_bits op_bits]. change (bits_of_N (N.to_nat 1) 0) with [false].
      cbn [length app]. try rewrite Nat.add_0_r. reflexivity.
    + split; [reflexivity|]. destruct (Hbody s (pos + 1)%nat) as [_ Hx]. cbn [length]. rewrite Hx. cbn [xbind ops_bits op_bits].
      change (bits_of_N (N.to_nat 1) 0) with [false]. cbn [length app]. try rewrite Nat.add_0_r. reflexivity.
    + split; [reflexivity|]. destruct (Hbody s (pos + 1)%nat) as [_ Hx]. cbn [length]. rewrite Hx. cbn [xbind ops_bits op_bits].
      change (bits_of_N (N.to_nat 1) 0) with [false]. cbn [length app]. try rewrite Nat.add_0_r. reflexivity.
    + split; [reflexivity|]. destruct (Hbody s (pos + 1)%nat) as [_ Hx]. cbn [length]. rewrite Hx. cbn [xbind ops_bits op_bits].
      change (bits_of_N (N.to_nat 1) 0) with [false]. cbn [length app]. try rewrite Nat.add_0_r. reflexivity.
  - cbn [run_ops bind length app ops_bits]. rewrite E1, E2, E3, E4. destruct (Hbody s (pos + 0)%nat) as [Hm' Hx]. split; [exact Hm'|].
    rewrite Hx. cbn [xbind app]. try rewrite Nat.add_0_r. reflexivity.
Qed.

(* ---------------------------------------------------------------- witnesses: classes outside the theorems *)
From Coq Require Import String.
Require Import Asn1Tags.
Definition T_one (t : ty) (p : params) : ty := TStruct [("V"%string, p, t)].
Definition pv (lb ub : Z) : params := mkp false false false false None None (Some lb) (Some ub) None "".
Definition ps (ext : bool) (lb ub : Z) : params := mkp false ext false false (Some lb) (Some ub) None None None "".

(* D3 (no NGAP instance): range above 64K with lb <> 0 - the octet count is taken from the value, not value - lb *)
Example int_big_range_lb_nonzero_refuted :
  marshal (T_one TInt (pv 1 1099511627777)) p_empty (VStruct [VInt 65536]) = Ok [64; 0; 255; 255] /\
  x691_pdu (AInt (Some 1%Z) (Some 1099511627777%Z) false) (AVInt 65536) = Some [32; 255; 255].
Proof. split; vm_compute; reflexivity. Qed.

(* D5 (NGAP: DRBStatusUL18.ReceiveStatusOfULPDCPSDUs, UEAssociatedLogicalNGConnectionList): SIZE ub >= 65536 *)
Example size_ub_65536_refuted :
  marshal (T_one TOctets (ps false 1 65536)) p_empty (VStruct [VOctets [4]]) = Ok [0; 4] /\
  x691_pdu (AOctets 1 (Some 65536) false) (AVOctets [4]) = Some [1; 4].
Proof. split; vm_compute; reflexivity. Qed.

(* D7 (NGAP: AMFName, RANNodeName, TransportLayerAddress ...): extensible size, value below the root is refused *)
Example ext_below_root_refuted :
  (exists e, marshal (T_one TOctets (ps true 1 150)) p_empty (VStruct [VOctets []]) = Err e) /\
  x691_pdu (AOctets 1 (Some 150) true) (AVOctets []) = Some [128; 0].
Proof. split; [eexists|]; vm_compute; reflexivity. Qed.

(* D6 after fix b7bd054: a (non-extensible) fixed-size BIT STRING with the wrong BitLength is never put on the wire:
   it is refused, or - when Bytes is shorter than BitLength claims - the masking of the last octet panics first *)
Theorem fixed_bitstring_wrong_length_refused s bs n ub :
  (0 < ub < 65536)%Z -> n <> Z.to_N ub ->
  (exists e, appendBitString s bs n false (Some ub) (Some ub) = Err e)
  \/ (exists p, appendBitString s bs n false (Some ub) (Some ub) = Panic p).
Proof.
  intros Hub Hn. unfold appendBitString, size_prologue.
  rewrite (u64z_small ub) by lia.
  destruct (n <=? Z.to_N ub) eqn:Efit; cbn [negb andb]; [|left; eexists; reflexivity].
  replace (ub - ub + 1)%Z with 1%Z by lia. change (i64 1) with 1%Z. cbn [bind].
  assert ((65535 <? ub)%Z = false) as -> by lia. cbn [Z.eqb Pos.eqb].
  rewrite (u64z_small ub) by lia. assert (negb (n =? Z.to_N ub) = true) as -> by lia.
  destruct (8 - N.land n 7 =? 8); cbn [bind]; [left; eexists; reflexivity|].
  unfold idx, upd. destruct (sub64 (N.shiftr (u64 (n + 7)) 3) 1 <? len bs); cbn [bind]; [left|right]; eexists; reflexivity.
Qed.
