(* C03.2 structural refusal, part 1: a leaf value (INTEGER, ENUMERATED, BIT STRING, OCTET STRING) that X.691 rejects
   as outside its type's constraints makes makeField return an error, whatever the state. *)
From Coq Require Import String NArith ZArith List Bool Lia Arith.
From Coq Require Import ZifyN ZifyNat ZifyBool.
Require Import GoSlice Bits AperCommon AperEnc AperDec Asn1 X691 Asn1Tags AperBits AperBitsGet AperBitsPut AperEncProofs
        AperStructPrim AperStructStr AperStructBits AperStructDefs AperStructLeaf AperStructSeq AperStructFld AperStructMain
        AperStructRefuse AperRoundPrim AperStructRefDefs.
Import ListNotations.
Open Scope N_scope.
Ltac Zify.zify_post_hook ::= Z.div_mod_to_equations.
Local Arguments N.add : simpl never.
Local Arguments N.mul : simpl never.
Local Arguments N.sub : simpl never.
Local Arguments N.div : simpl never.
Local Arguments N.modulo : simpl never.
Local Arguments N.land : simpl never.
Local Arguments N.lor : simpl never.
Local Arguments N.shiftr : simpl never.
Local Arguments N.shiftl : simpl never.
Local Arguments N.pow : simpl never.

(* 65536 does not fit in 1..16 bits: "Bits Value is over capacity" *)
Lemma putBitsValue_65536 s n : 1 <= n <= 16 -> exists e, putBitsValue s 65536 n = Err e.
Proof.
  intros H. assert (Hin : In n (map N.of_nat (seq 1 16))) by (apply in_map_iff; exists (N.to_nat n); split; [lia|apply in_seq; lia]).
  cbn [seq map] in Hin. repeat (destruct Hin as [<-|Hin]; [eexists; vm_compute; reflexivity|]). contradiction.
Qed.

Lemma appendLength_65536 s R : 2 <= R <= 65536 -> exists e, appendLength s (Z.of_N R) 65536 = Err e.
Proof.
  intros H. unfold appendLength. assert (((Z.of_N R <=? 65536) && (0 <? Z.of_N R))%Z = true) as -> by lia.
  unfold appendConstraintValue. destruct (Z.of_N R <=? 255)%Z eqn:E1.
  - assert ((Z.of_N R <? 0)%Z = false) as -> by lia. apply putBitsValue_65536. rewrite go_bits_log2up by lia.
    pose proof (N.log2_up_le_mono R 255 ltac:(lia)) as H1. change (N.log2_up 255) with 8 in H1.
    pose proof (N.log2_up_le_mono 2 R ltac:(lia)) as H2. change (N.log2_up 2) with 1 in H2. lia.
  - destruct (Z.of_N R =? 256)%Z; [apply putBitsValue_65536; lia|].
    assert ((Z.of_N R <=? 65536)%Z = true) as -> by lia. apply putBitsValue_65536. lia.
Qed.

Lemma cwn_not_violation range v pos : 1 <= range -> v < range -> cwn range v pos <> XViolation.
Proof.
  intros Hr Hv. unfold cwn. assert ((range =? 0) || (range <=? v) = false) as -> by lia.
  destruct (range =? 1); [discriminate|]. destruct (range <=? 255); [discriminate|]. destruct (range =? 256); [discriminate|].
  destruct (range <=? 65536); discriminate.
Qed.
Lemma lendet_not_violation n pos : lendet n pos <> XViolation.
Proof. unfold lendet. destruct (n <? 128); [discriminate|]. destruct (n <? 16384); discriminate. Qed.

(* what a violating SIZE means: not extensible and outside lb..ub *)
Lemma enc_string_violation lb ub ext n c small pos :
  ub < 65536 -> enc_string lb (Some ub) ext n c small pos = XViolation -> ext = false /\ (n < lb \/ ub < n).
Proof.
  intros Hu H. unfold enc_string, size_prefix, size_inroot in H. assert (ub <? 65536 = true) as Eu by lia. rewrite Eu in H.
  destruct ((lb <=? n) && (n <=? ub)) eqn:Ein; cbn [negb] in H.
  - exfalso. rewrite andb_false_r in H.
    destruct (lb =? ub) eqn:Ef; cbn [xbind] in H.
    + destruct (size_fixed _ _ && _); [destruct small|destruct (n =? 0)]; discriminate.
    + destruct (cwn (ub - lb + 1) (n - lb) _) as [l| |] eqn:El; cbn [xbind] in H.
      * destruct (size_fixed _ _ && _); [destruct small|destruct (n =? 0)]; discriminate.
      * eapply cwn_not_violation; [| |exact El]; lia.
      * discriminate.
  - rewrite andb_true_r in H. destruct ext.
    + exfalso. destruct (lendet n (S pos)) as [l| |] eqn:El; cbn [xbind] in H.
      * destruct (size_fixed _ _ && _); [destruct small|destruct (n =? 0)]; discriminate.
      * eapply lendet_not_violation; eauto.
      * discriminate.
    + split; [reflexivity|]. lia.
Qed.
Lemma enc_string_unc_not_violation n c small pos : enc_string 0 None false n c small pos <> XViolation.
Proof.
  unfold enc_string, size_prefix, size_inroot. assert (0 <=? n = true) as -> by lia. cbn [andb negb].
  destruct (lendet n _) as [l| |] eqn:El; cbn [xbind].
  - destruct (size_fixed _ _ && _); [destruct small|destruct (n =? 0)]; discriminate.
  - intros _. eapply lendet_not_violation; eauto.
  - discriminate.
Qed.

Theorem leaf_refused t : match t with TInt | TEnum | TBool | TBits | TOctets | TString => True | _ => False end ->
  forall f1 f2 f3 f4 p v s av pos,
  abs_f (S f2) t p v = Some av -> supr_f (S f4) t p v = true -> x691 (t2a (S f1) t p) av pos = XViolation ->
  exists e, makeField (S f3) t p v s = Err e.
Proof.
  intros Ht f1 f2 f3 f4 p v s av pos Ha Hs Hx.
  destruct t; try contradiction; destruct v; cbn [abs_f] in Ha; try discriminate; cbn [supr_f] in Hs; cbn [makeField t2a] in *.
  - (* INTEGER *)
    injection Ha as <-. unfold int_okr in Hs. destruct (p_valueLB p) as [l|]; [|discriminate]. destruct (p_valueUB p) as [u|]; [|discriminate]. bools.
    cbn [x691] in Hx. unfold enc_int in Hx.
    destruct ((l <=? z)%Z && (z <=? u)%Z) eqn:Ein; cbn [negb] in Hx.
    + exfalso. rewrite andb_false_r in Hx. destruct (cwn _ _ _) as [e| |] eqn:Ee; cbn [xbind] in Hx; try discriminate.
      eapply cwn_not_violation; [| |exact Ee]; lia.
    + rewrite andb_true_r in Hx. destruct (p_valueExt p) eqn:Ext.
      * exfalso. cbn [negb orb] in *. congruence.
      * apply integer_out_of_range_refused. lia.
  - (* ENUMERATED *)
    injection Ha as <-. apply andb_true_iff in Hs. destruct Hs as [Hs Hn]. unfold enum_ok in Hs.
    destruct (p_valueLB p) as [[| |]|]; try discriminate. destruct (p_valueUB p) as [u|]; [|discriminate]. bools.
    assert ((u <? 0)%Z = false) as E by lia. rewrite E in Hx. cbn [x691] in Hx.
    destruct (Z.to_N u + 1 <=? n) eqn:En.
    + unfold appendEnumerated. unfold i64n, i64. destruct (Z.of_N n mod 18446744073709551616 <? 9223372036854775808)%Z eqn:E63.
      * assert ((u <? Z.of_N n mod 18446744073709551616)%Z = true) as -> by lia. destruct (p_valueExt p); eexists; reflexivity.
      * assert ((u <? Z.of_N n mod 18446744073709551616 - 18446744073709551616)%Z = false) as -> by lia.
        assert ((Z.of_N n mod 18446744073709551616 - 18446744073709551616 <? 0)%Z = true) as -> by lia. eexists; reflexivity.
    + exfalso. destruct (cwn _ _ _) as [e| |] eqn:Ee; cbn [xbind] in Hx; try discriminate.
      eapply cwn_not_violation; [| |exact Ee]; lia.
  - (* BOOLEAN *) injection Ha as <-. discriminate.
  - (* BIT STRING *)
    destruct ((N.of_nat (List.length bs) =? (nbits + 7) / 8) && forallb (fun b => b <? 256) bs) eqn:Ew; [|discriminate].
    injection Ha as <-. apply andb_true_iff in Ew. destruct Ew as [Ew1 Ew2]. apply bok_forallb in Ew2.
    unfold str_ok in Hs. apply andb_true_iff in Hs. destruct Hs as [Hn Hs].
    destruct (p_sizeLB p) as [l|] eqn:Elb, (p_sizeUB p) as [u|] eqn:Eub; try discriminate.
    2:{ exfalso. cbn [size_lb size_ub x691] in Hx. destruct (p_sizeExt p); [discriminate|]. eapply enc_string_unc_not_violation; eauto. }
    bools. rewrite size_lb_some, size_ub_some in Hx by lia. cbn [x691] in Hx.
    apply enc_string_violation in Hx; [|lia]. destruct Hx as [Ext Hout]. rewrite Ext.
    assert (Hcl : N.of_nat (length (firstn (N.to_nat nbits) (bits_of_bytes bs))) = nbits).
    { rewrite firstn_length_le by (rewrite bits_of_bytes_length; lia). lia. }
    rewrite Hcl in Hout.
    destruct Hout as [Hlo|Hhi]; [|apply bit_string_too_long_refused; lia].
    unfold appendBitString, size_prologue. rewrite u64z_small by lia.
    assert (nbits <=? Z.to_N u = true) as -> by lia. cbn [negb andb bind]. rewrite i64_small by lia. cbn [bind].
    assert ((65535 <? u)%Z = false) as -> by lia.
    destruct (mask_last bs nbits Ew2 ltac:(unfold len; lia) ltac:(lia)) as (bytes' & Em & _). unfold mask_step in Em. rewrite Em. cbn [bind].
    destruct (u - l + 1 =? 1)%Z eqn:E1.
    + rewrite u64z_small by lia. assert (negb (nbits =? Z.to_N u) = true) as -> by lia. eexists; reflexivity.
    + cbn [bits_frag_loop]. rewrite u64z_small by lia.
      assert (Hpo : part_of (sub64 nbits (Z.to_N l)) = 65536).
      { unfold part_of, sub64, TWO64. rewrite (N.mod_small (Z.to_N l)) by lia.
        assert (65536 <? (nbits + 18446744073709551616 - Z.to_N l) mod 18446744073709551616 = true) as -> by lia. reflexivity. }
      rewrite Hpo. destruct (appendLength_65536 s (Z.to_N (u - l + 1)) ltac:(lia)) as [e He].
      replace (Z.of_N (Z.to_N (u - l + 1))) with (u - l + 1)%Z in He by lia. rewrite He. cbn [bind]. eexists; reflexivity.
  - (* OCTET STRING *)
    injection Ha as <-. apply andb_true_iff in Hs. destruct Hs as [Hs Hok]. unfold str_ok in Hs. apply andb_true_iff in Hs. destruct Hs as [Hn Hs].
    destruct (p_sizeLB p) as [l|] eqn:Elb, (p_sizeUB p) as [u|] eqn:Eub; try discriminate.
    2:{ exfalso. cbn [size_lb size_ub x691] in Hx. destruct (p_sizeExt p); [discriminate|]. rewrite Hok in Hx. eapply enc_string_unc_not_violation; eauto. }
    bools. rewrite size_lb_some, size_ub_some in Hx by lia. cbn [x691] in Hx. rewrite Hok in Hx.
    apply enc_string_violation in Hx; [|lia]. destruct Hx as [Ext Hout]. rewrite Ext. fold (len bs) in Hout.
    destruct Hout as [Hlo|Hhi]; [|apply octet_string_too_long_refused; lia].
    unfold appendOctetString, size_prologue. rewrite u64z_small by lia.
    assert (len bs <=? Z.to_N u = true) as -> by lia. cbn [negb andb bind]. rewrite i64_small by lia. cbn [bind].
    assert ((65535 <? u)%Z = false) as -> by lia.
    destruct (u - l + 1 =? 1)%Z eqn:E1.
    + rewrite u64z_small by lia. assert (negb (len bs =? Z.to_N u) = true) as -> by lia. eexists; reflexivity.
    + cbn [oct_frag_loop]. rewrite u64z_small by lia.
      assert (Hpo : part_of (sub64 (len bs) (Z.to_N l)) = 65536).
      { unfold part_of, sub64, TWO64. rewrite (N.mod_small (Z.to_N l)) by lia.
        assert (65536 <? (len bs + 18446744073709551616 - Z.to_N l) mod 18446744073709551616 = true) as -> by lia. reflexivity. }
      rewrite Hpo. destruct (appendLength_65536 s (Z.to_N (u - l + 1)) ltac:(lia)) as [e He].
      replace (Z.of_N (Z.to_N (u - l + 1))) with (u - l + 1)%Z in He by lia. rewrite He. cbn [bind]. eexists; reflexivity.
  - (* string *)
    injection Ha as <-. apply andb_true_iff in Hs. destruct Hs as [Hs Hok]. unfold str_ok in Hs. apply andb_true_iff in Hs. destruct Hs as [Hn Hs].
    destruct (p_sizeLB p) as [l|] eqn:Elb, (p_sizeUB p) as [u|] eqn:Eub; try discriminate.
    2:{ exfalso. cbn [size_lb size_ub x691] in Hx. destruct (p_sizeExt p); [discriminate|]. rewrite Hok in Hx. eapply enc_string_unc_not_violation; eauto. }
    bools. rewrite size_lb_some, size_ub_some in Hx by lia. cbn [x691] in Hx. rewrite Hok in Hx.
    apply enc_string_violation in Hx; [|lia]. destruct Hx as [Ext Hout]. rewrite Ext. fold (len bs) in Hout.
    destruct Hout as [Hlo|Hhi]; [|apply octet_string_too_long_refused; lia].
    unfold appendOctetString, size_prologue. rewrite u64z_small by lia.
    assert (len bs <=? Z.to_N u = true) as -> by lia. cbn [negb andb bind]. rewrite i64_small by lia. cbn [bind].
    assert ((65535 <? u)%Z = false) as -> by lia.
    destruct (u - l + 1 =? 1)%Z eqn:E1.
    + rewrite u64z_small by lia. assert (negb (len bs =? Z.to_N u) = true) as -> by lia. eexists; reflexivity.
    + cbn [oct_frag_loop]. rewrite u64z_small by lia.
      assert (Hpo : part_of (sub64 (len bs) (Z.to_N l)) = 65536).
      { unfold part_of, sub64, TWO64. rewrite (N.mod_small (Z.to_N l)) by lia.
        assert (65536 <? (len bs + 18446744073709551616 - Z.to_N l) mod 18446744073709551616 = true) as -> by lia. reflexivity. }
      rewrite Hpo. destruct (appendLength_65536 s (Z.to_N (u - l + 1)) ltac:(lia)) as [e He].
      replace (Z.of_N (Z.to_N (u - l + 1))) with (u - l + 1)%Z in He by lia. rewrite He. cbn [bind]. eexists; reflexivity.
Qed.
