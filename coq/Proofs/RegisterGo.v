(* The hypotheses of the C01 composition theorem discharged for the algorithms the emulator really uses:
   AES-128 (Crypto/AES.v) as the Milenage kernel, HMAC-SHA-256 (Crypto/SHA256.v) as the KDF, and Model/Security.v's
   NASEncrypt / NASMacCalculate (the models of the Go functions, proved equal to 128-NEA/NIA in C07). *)
From Coq Require Import NArith ZArith Lia Bool List.
Require Import Bytes AES SHA256 Hex Dec CreateUE SuciEnc RanUe NasSec RefNasPeer TS33501 TS35206 Register RefAMF RegisterProofs.
Require Import Modes Snow3gTables Snow3g Security Snow3gSpec TS33401B SecAesLen SecProofs SecNia1 Sha256Len.
Import ListNotations.
Open Scope N_scope.

(* AES-128 takes 16-octet keys (Go: aes.NewCipher fails otherwise; K is 16 octets in every call the model makes):
   any other key is fitted to 16 octets so that the function is total with 16-octet output *)
Definition fit16 (k:bytes) : bytes := firstn 16 (k ++ repeat 0 16).
Definition aes128_16 (k x:bytes) : bytes := aes128 (fit16 k) x.

Lemma fit16_length k : length (fit16 k) = 16%nat.
Proof. unfold fit16. rewrite firstn_length, app_length, repeat_length. lia. Qed.
Lemma fit16_id k : length k = 16%nat -> fit16 k = k.
Proof.
  intros L. unfold fit16. rewrite firstn_app. replace (16 - length k)%nat with 0%nat by lia.
  rewrite firstn_O, app_nil_r. rewrite <- L. apply firstn_all.
Qed.
Lemma aes128_16_is_aes128 k x : length k = 16%nat -> aes128_16 k x = aes128 k x.
Proof. intros L. unfold aes128_16. rewrite fit16_id by exact L. reflexivity. Qed.
Lemma aes128_16_length k x : length (aes128_16 k x) = 16%nat.
Proof. unfold aes128_16. apply aes128_length, fit16_length. Qed.

Lemma key_ok_of_length k : length k = 16%nat -> key_ok k = true.
Proof. intros L. unfold key_ok. rewrite L. reflexivity. Qed.

Lemma go_mac2_len4 k c d m t : nas_mac 2 k c 1 d m = Some t -> length t = 4%nat.
Proof. intros Hm. apply (nas_mac_len4 2 k c 1 d m t Hm). right. reflexivity. Qed.

Lemma go_enc0 k c d p q : nas_encrypt 0 k c 1 d p = Some q -> q = p.
Proof.
  unfold nas_encrypt. destruct (key_ok k); [|discriminate]. unfold NASEncrypt.
  change (31 <? 1) with false. cbv iota. destruct (1 <? d); [discriminate|].
  change (0 =? AlgCiphering128NEA0) with true. cbv iota. cbn [snd sres_opt]. intros [= <-]. reflexivity.
Qed.
Lemma go_enc0_inv k c d p q : nas_encrypt 0 k c 1 d p = Some q -> nas_encrypt 0 k c 1 d q = Some p.
Proof. intros He. pose proof (go_enc0 _ _ _ _ _ He) as ->. exact He. Qed.

Lemma go_mac2_defined k c m : key_ok k = true -> nas_mac 2 k c 1 0 m <> None.
Proof.
  intros Hk. unfold nas_mac. rewrite Hk. unfold NASMacCalculate.
  change (31 <? 1) with false. change (1 <? 0) with false. cbv iota.
  change (2 =? AlgIntegrity128NIA0) with false. change (2 =? AlgIntegrity128NIA1) with false.
  change (2 =? AlgIntegrity128NIA2) with true. cbv iota. cbn [snd]. unfold NIA2. cbn [sres_opt]. discriminate.
Qed.

Lemma go_protect_defined kenc kint c hdr p : length kenc = 16%nat -> length kint = 16%nat ->
  protect nas_encrypt nas_mac (mk_ctx 0 2 kenc kint) UPLINK c hdr p <> None.
Proof.
  intros Le Li. unfold protect. cbn [c_ea c_ia c_kenc c_kint]. change BEARER_3GPP with 1. change UPLINK with 0.
  assert (He : nas_encrypt 0 kenc c 1 0 p = Some p).
  { apply nas_encrypt_nea0_identity; [apply key_ok_of_length, Le | lia | lia]. }
  destruct (hdr_ciphered hdr).
  - rewrite He. destruct (nas_mac 2 kint c 1 0 (c mod 256 :: p)) eqn:Hm; [discriminate|].
    exfalso. exact (go_mac2_defined kint c _ (key_ok_of_length _ Li) Hm).
  - destruct (nas_mac 2 kint c 1 0 (c mod 256 :: p)) eqn:Hm; [discriminate|].
    exfalso. exact (go_mac2_defined kint c _ (key_ok_of_length _ Li) Hm).
Qed.

(* C01 for the emulator's algorithms *)
Theorem registration_accepted_go mcc mnc msin ks opcs ops k opc idx rand sqn amff :
  digits_ok mcc = true -> digits_ok mnc = true -> digits_ok msin = true ->
  length mcc = 3%nat -> (length mnc = 2%nat \/ length mnc = 3%nat) -> (1 <= length msin)%nat ->
  (length (mcc ++ mnc ++ msin) <= 15)%nat ->
  undec msin + idx < 10 ^ N.of_nat (length msin) ->
  hex_decode ks = Some k -> opcs <> [] -> hex_decode opcs = Some opc -> length k = 16%nat -> length opc = 16%nat ->
  length rand = 16%nat -> length sqn = 6%nat ->
  let g := {| g_imsi := to_ascii (mcc ++ mnc ++ msin); g_mcc := to_ascii mcc; g_mnc := to_ascii mnc; g_k := ks; g_opc := opcs; g_op := ops |} in
  let s := {| sub_mcc := mcc; sub_mnc := mnc; sub_msin := pad0 (length msin) (undec msin + idx); sub_k := k; sub_opc := opc |} in
  let ch := {| ch_rand := rand; ch_sqn := sqn; ch_amf := amff |} in
  exists o, register_ue aes128_16 hmac_sha256 nas_encrypt nas_mac g idx rand (amf_autn aes128_16 s ch) = RegOk o
    /\ amf_registration aes128_16 hmac_sha256 nas_encrypt nas_mac s ch (o_regreq o) (o_authresp o) (o_smc_complete o) (o_reg_complete o) = Registered 2
    /\ o_supi o = ascii_imsi_dash ++ sub_imsi_ascii s
    /\ ul (o_final o) = 2.
Proof.
  apply (registration_accepted aes128_16 hmac_sha256 nas_encrypt nas_mac aes128_16_length hmac_sha256_length
           go_mac2_len4 go_enc0_inv go_protect_defined).
Qed.
