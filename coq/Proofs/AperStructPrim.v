(* The primitive encoders of marshal.go against X.691 in "emits" form: on a state representing the bit list [bl],
   if X.691 prescribes the bits [b] at position |bl| then the model primitive succeeds and the new state represents
   [bl ++ b].  Part 1: the primitives already characterised as operation lists in AperEncProofs.v (constrained whole
   number, length determinant, BOOLEAN, ENUMERATED, CHOICE index, constrained INTEGER), composed with the refinement
   of the byte-level writer (AperBitsPut.run_ops_refines). *)
From Coq Require Import NArith ZArith List Bool Lia Arith.
From Coq Require Import ZifyN ZifyNat ZifyBool.
Require Import GoSlice Bits AperCommon AperEnc Asn1 X691 AperBits AperBitsGet AperBitsPut AperEncProofs.
Import ListNotations.
Open Scope N_scope.
Ltac Zify.zify_post_hook ::= Z.div_mod_to_equations.
Local Arguments N.add : simpl never.
Local Arguments N.mul : simpl never.
Local Arguments N.sub : simpl never.
Local Arguments N.div : simpl never.
Local Arguments N.modulo : simpl never.
Local Arguments N.land : simpl never.
Local Arguments N.lor : simpl never.
Local Arguments N.shiftr : simpl never.
Local Arguments N.shiftl : simpl never.
Local Arguments N.pow : simpl never.

Lemma ops_ok_app a : forall pos b, ops_ok pos (a ++ b) <-> ops_ok pos a /\ ops_ok (pos + length (ops_bits pos a)) b.
Proof.
  induction a as [|o a IH]; intros pos b; cbn [app ops_ok ops_bits length].
  - rewrite Nat.add_0_r. tauto.
  - rewrite IH. rewrite app_length, Nat.add_assoc. tauto.
Qed.

Lemma go_bits_log2up r : 2 <= r <= 255 -> go_bits (Z.of_N r) = N.log2_up r.
Proof. intros H. pose proof (go_bits_is_log2up r H) as E. unfold log2up_nat in E. lia. Qed.

Lemma lt_pow_log2up v r : 2 <= r -> v < r -> v < 2 ^ N.log2_up r.
Proof. intros Hr Hv. pose proof (N.log2_up_spec r ltac:(lia)) as [_ H]. lia. Qed.

Lemma cwn_ops_ok pos range v : 2 <= range <= 65536 -> v < range -> ops_ok pos (cwn_ops range v).
Proof.
  intros Hr Hv. unfold cwn_ops. destruct (range <=? 255) eqn:E1; [|destruct (range =? 256) eqn:E2]; cbn [ops_ok op_ok]; repeat split; try lia.
  - rewrite go_bits_log2up by lia. pose proof (N.log2_up_le_mono range 255 ltac:(lia)) as H. change (N.log2_up 255) with 8 in H. lia.
  - rewrite go_bits_log2up by lia. apply lt_pow_log2up; lia.
Qed.

Theorem cwn_emits s bl range v b :
  repr s bl -> 2 <= range <= 65536 -> v < range -> cwn range v (length bl) = XOk b -> small (bl ++ b) ->
  emits (appendConstraintValue s (Z.of_N range) v) bl b.
Proof.
  intros Hs Hr Hv Hx Hsm. destruct (cwn_small_is_x691 s range v (length bl) Hr Hv) as [Hm Hx'].
  rewrite Hx' in Hx. injection Hx as <-. rewrite Hm. apply run_ops_refines; auto. apply cwn_ops_ok; assumption.
Qed.

Theorem lendet_emits s bl n b :
  repr s bl -> n < 16384 -> lendet n (length bl) = XOk b -> small (bl ++ b) -> emits (appendLength s (-1) n) bl b.
Proof.
  intros Hs Hn Hx Hsm. destruct (lendet_is_x691 s n (length bl) Hn) as [Hm Hx'].
  rewrite Hx' in Hx. injection Hx as <-. rewrite Hm. apply run_ops_refines; auto.
  unfold lendet_ops. destruct (n <=? 127) eqn:E; cbn [ops_ok op_ok]; repeat split; lia.
Qed.

Theorem clen_emits s bl lb ub n b :
  repr s bl -> lb < ub -> ub < 65536 -> lb <= n <= ub -> cwn (ub - lb + 1) (n - lb) (length bl) = XOk b -> small (bl ++ b) ->
  emits (appendLength s (Z.of_N (ub - lb + 1)) (n - lb)) bl b.
Proof.
  intros Hs H1 H2 H3 Hx Hsm. unfold appendLength.
  assert (((Z.of_N (ub - lb + 1) <=? 65536) && (0 <? Z.of_N (ub - lb + 1)))%Z = true) as -> by lia.
  apply cwn_emits; auto; lia.
Qed.

Theorem bool_emits s bl b : repr s bl -> small (bl ++ [b]) -> emits (appendBool s b) bl [b].
Proof.
  intros Hs Hsm. destruct (bool_is_x691 s b (length bl)) as [Hm _]. rewrite Hm.
  replace [b] with (ops_bits (length bl) [OPut (if b then 1 else 0) 1]) in * by (destruct b; reflexivity).
  apply run_ops_refines; auto. cbn [ops_ok op_ok]. repeat split; try lia; destruct b; lia.
Qed.

Lemma ext_ops_ok pos ext : ops_ok pos (ext_ops ext 0).
Proof. destruct ext; cbn [ext_ops ops_ok op_ok]; repeat split; lia. Qed.

Theorem enum_emits s bl n i ext b :
  repr s bl -> 1 <= n <= 65536 -> i < n -> x691 (AEnum n ext) (AVEnum i) (length bl) = XOk b -> small (bl ++ b) ->
  emits (appendEnumerated s i ext (Some 0%Z) (Some (Z.of_N n - 1)%Z)) bl b.
Proof.
  intros Hs Hn Hi Hx Hsm. destruct (enum_is_x691 s n i ext (length bl) Hn Hi) as [Hm Hx'].
  rewrite Hx' in Hx. injection Hx as <-. rewrite Hm. apply run_ops_refines; auto.
  unfold enum_ops. apply ops_ok_app. split.
  - destruct ext; cbn [ops_ok op_ok]; repeat split; lia.
  - destruct (n =? 1) eqn:E; [exact I|]. apply cwn_ops_ok; lia.
Qed.

Theorem choice_index_emits s bl n idx ext b :
  repr s bl -> 2 <= n <= 65536 -> idx < n -> cwn n idx (length bl) = XOk b -> small (bl ++ b) ->
  emits (appendChoiceIndex s (Z.of_N idx + 1) ext (Some (Z.of_N n - 1)%Z)) bl b.
Proof.
  intros Hs Hn Hi Hx Hsm. destruct (choice_index_is_x691 s n idx ext (length bl) Hn Hi) as [Hm Hx'].
  rewrite Hx' in Hx. injection Hx as <-. rewrite Hm. apply run_ops_refines; auto. apply cwn_ops_ok; assumption.
Qed.

Theorem int_small_emits s bl lb ub ext z b :
  repr s bl -> (lb <= z <= ub)%Z -> (ub - lb + 1 <= 65536)%Z -> (- 4611686018427387904 < lb)%Z -> (ub < 4611686018427387904)%Z ->
  enc_int (Some lb) (Some ub) ext z (length bl) = XOk b -> small (bl ++ b) ->
  emits (appendInteger s z ext (Some lb) (Some ub)) bl b.
Proof.
  intros Hs Hz HR Hlb Hub Hx Hsm. pose proof (repr_off_lt s bl Hs) as Hoff.
  destruct (int_constrained_small_is_x691 s lb ub ext z (length bl) Hoff Hz HR Hlb Hub) as [Hm Hx'].
  rewrite Hx' in Hx. injection Hx as <-. rewrite Hm. apply run_ops_refines; auto.
  unfold int_small_ops. apply ops_ok_app. split; [apply ext_ops_ok|].
  destruct (Z.to_N (ub - lb + 1) =? 1) eqn:E; [exact I|]. apply cwn_ops_ok; lia.
Qed.

Lemma octs_fuel_bound f : forall v, v < 256 ^ N.of_nat (S f) -> v < 256 ^ N.of_nat (octs_fuel f v).
Proof.
  induction f as [|f IH]; intros v Hv; cbn [octs_fuel]; [exact Hv|].
  destruct (v <? 256) eqn:E; [change (256 ^ N.of_nat 1) with 256; lia|].
  rewrite pow256_succ in Hv. rewrite pow256_succ.
  assert (v / 256 < 256 ^ N.of_nat (octs_fuel f (v / 256))) by (apply IH; apply N.div_lt_upper_bound; lia). lia.
Qed.
Lemma octs_bound v : v < 18446744073709551616 -> v < 256 ^ N.of_nat (octs v).
Proof.
  intros H. unfold octs. apply octs_fuel_bound. eapply N.lt_le_trans; [exact H|].
  change 18446744073709551616 with (256 ^ 8). apply N.pow_le_mono_r; lia.
Qed.
Lemma pow256_pow2 k : 256 ^ k = 2 ^ (8 * k).
Proof. change 256 with (2 ^ 8). rewrite <- N.pow_mul_r. reflexivity. Qed.

Theorem int_big_emits s bl ub ext z b :
  repr s bl -> (0 <= z <= ub)%Z -> (65536 <= ub)%Z -> (ub < 4611686018427387904)%Z ->
  enc_int (Some 0%Z) (Some ub) ext z (length bl) = XOk b -> small (bl ++ b) ->
  emits (appendInteger s z ext (Some 0%Z) (Some ub)) bl b.
Proof.
  intros Hs Hz Hub1 Hub2 Hx Hsm. pose proof (repr_off_lt s bl Hs) as Hoff.
  destruct (int_constrained_big_is_x691 s ub ext z (length bl) Hoff Hz Hub1 Hub2) as [Hm Hx'].
  rewrite Hx' in Hx. injection Hx as <-. rewrite Hm. apply run_ops_refines; auto.
  unfold int_big_ops. apply ops_ok_app. split; [apply ext_ops_ok|].
  set (v := Z.to_N z). set (m := Z.to_N ub).
  assert (Hv : v < 18446744073709551616) by (unfold v; lia).
  assert (Hmm : m < 18446744073709551616) by (unfold m; lia).
  pose proof (octs_le_8 v Hv) as Hn8. pose proof (octs_fuel_pos 16 v) as Hn1. fold (octs v) in Hn1.
  pose proof (octs_le_8 m Hmm) as Hm8. pose proof (octs_ge_3 m ltac:(unfold m; lia)) as Hm3.
  assert (Hle : (octs v <= octs m)%nat) by (unfold octs; apply octs_fuel_mono; unfold v, m; lia).
  cbn [ops_ok op_ok]. repeat split; try lia.
  - rewrite go_bits_log2up by lia. pose proof (N.log2_up_le_mono (N.of_nat (octs m)) 8 ltac:(lia)) as H. change (N.log2_up 8) with 3 in H. lia.
  - rewrite go_bits_log2up by lia. apply lt_pow_log2up; lia.
  - rewrite <- pow256_pow2. apply octs_bound. exact Hv.
Qed.
