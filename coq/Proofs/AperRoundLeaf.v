(* Readers of INTEGER, ENUMERATED, CHOICE index and BOOLEAN against X.691 (the bits after the extension bit, which
   parseField reads itself). *)
From Coq Require Import String NArith ZArith List Bool Lia Arith.
From Coq Require Import ZifyN ZifyNat ZifyBool.
Require Import GoSlice Bits AperCommon AperEnc AperDec Asn1 X691 AperBits AperBitsGet AperBitsPut AperEncProofs
        AperStructPrim AperStructStr AperStructSeq AperRoundGet AperRoundPrim.
Import ListNotations.
Open Scope N_scope.
Ltac Zify.zify_post_hook ::= Z.div_mod_to_equations.
Local Arguments N.add : simpl never.
Local Arguments N.mul : simpl never.
Local Arguments N.sub : simpl never.
Local Arguments N.div : simpl never.
Local Arguments N.modulo : simpl never.
Local Arguments N.land : simpl never.
Local Arguments N.lor : simpl never.
Local Arguments N.shiftr : simpl never.
Local Arguments N.shiftl : simpl never.
Local Arguments N.pow : simpl never.

Lemma bytelen_dec_eq : forall f b u, bytelen_loop_dec f b u = bytelen_loop f b u.
Proof. induction f as [|f IH]; intros b u; [reflexivity|]. cbn [bytelen_loop bytelen_loop_dec]. destruct (N.shiftr u 8 =? 0); [reflexivity|apply IH]. Qed.

Lemma i64n_small x : x < 9223372036854775808 -> i64n x = Z.of_N x.
Proof. intros H. unfold i64n. apply i64_small. lia. Qed.

Theorem rd_int d bs pos lb ub z e :
  at_pos d bs pos -> buf bs -> (lb <= z <= ub)%Z -> (- 4611686018427387904 < lb)%Z -> (ub < 4611686018427387904)%Z ->
  ((ub - lb + 1 <= 65536)%Z \/ (lb = 0 /\ 65536 <= ub)%Z) ->
  cwn (Z.to_N (ub - lb + 1)) (Z.to_N (z - lb)) pos = XOk e -> bits_at bs pos e ->
  dec_ok (parseInteger d false (Some lb) (Some ub)) bs (pos + length e) z.
Proof.
  intros Hd Hb Hz Hlb Hub Hcls Hx Hbits. unfold parseInteger. rewrite i64_small by lia.
  destruct (ub - lb + 1 =? 1)%Z eqn:E1.
  - (* a single value: no bits *)
    unfold cwn in Hx. assert ((Z.to_N (ub - lb + 1) =? 0) || (Z.to_N (ub - lb + 1) <=? Z.to_N (z - lb)) = false) as E0 by lia.
    rewrite E0 in Hx. assert (Z.to_N (ub - lb + 1) =? 1 = true) as E1' by lia. rewrite E1' in Hx. apply xok_inj in Hx. subst e.
    exists d. cbn [length]. rewrite Nat.add_0_r. split; [f_equal; f_equal; lia|exact Hd].
  - destruct ((0 <? ub - lb + 1) && (ub - lb + 1 <=? 65536))%Z eqn:E2.
    + eapply dec_ok_bind.
      * replace (ub - lb + 1)%Z with (Z.of_N (Z.to_N (ub - lb + 1))) by lia. apply (rd_cwn d bs pos _ (Z.to_N (z - lb)) e); auto; lia.
      * intros d1 Hd1. exists d1. split; [|exact Hd1]. f_equal. f_equal. rewrite i64n_small by lia. rewrite i64_small by lia. lia.
    + (* more than 64K values: lb = 0 *)
      destruct Hcls as [Hc|[-> Hc]]; [lia|]. replace (ub - 0 + 1)%Z with (ub + 1)%Z in * by lia. replace (z - 0)%Z with z in * by lia.
      assert ((ub + 1 <=? 0)%Z = false) as -> by lia. assert ((ub + 1 <? 0)%Z = false) as -> by lia.
      set (v := Z.to_N z) in *. set (m := Z.to_N ub).
      assert (Hv : v < 18446744073709551616) by (unfold v; lia). assert (Hm : m < 18446744073709551616) by (unfold m; lia).
      pose proof (octs_le_8 v Hv) as Hn8. pose proof (octs_fuel_pos 16 v) as Hn1. fold (octs v) in Hn1.
      pose proof (octs_le_8 m Hm) as Hm8. pose proof (octs_ge_3 m ltac:(unfold m; lia)) as Hm3.
      assert (Hle : (octs v <= octs m)%nat) by (unfold octs; apply octs_fuel_mono; unfold v, m; lia).
      unfold cwn in Hx.
      assert ((Z.to_N (ub + 1) =? 0) || (Z.to_N (ub + 1) <=? v) = false) as E0 by (unfold v; lia). rewrite E0 in Hx.
      assert (Z.to_N (ub + 1) =? 1 = false) as E3 by lia. rewrite E3 in Hx.
      assert (Z.to_N (ub + 1) <=? 255 = false) as E4 by lia. rewrite E4 in Hx.
      assert (Z.to_N (ub + 1) =? 256 = false) as E5 by lia. rewrite E5 in Hx.
      assert (Z.to_N (ub + 1) <=? 65536 = false) as E6 by lia. rewrite E6 in Hx.
      replace (Z.to_N (ub + 1) - 1) with m in Hx by (unfold m; lia). apply xok_inj in Hx. subst e.
      rewrite bytelen_dec_eq. replace (ub + 1 - 1)%Z with ub by lia. rewrite (u64z_small ub) by lia. fold m.
      rewrite go_bytelen_is_octs by exact Hm. rewrite go_bits_log2up by lia.
      set (w := N.log2_up (N.of_nat (octs m))) in *.
      assert (Hw : 1 <= w <= 3).
      { unfold w. pose proof (N.log2_up_le_mono (N.of_nat (octs m)) 8 ltac:(lia)) as H. change (N.log2_up 8) with 3 in H.
        pose proof (N.log2_up_le_mono 3 (N.of_nat (octs m)) ltac:(lia)) as H2. change (N.log2_up 3) with 2 in H2. lia. }
      unfold log2up_nat in Hbits. fold w in Hbits.
      apply bits_at_app in Hbits. destruct Hbits as [Hb1 Hb2]. apply bits_at_app in Hb2. destruct Hb2 as [Hb2 Hb3].
      rewrite !app_length. rewrite bits_of_N_length in *. unfold align in *. rewrite repeat_length in *.
      eapply dec_ok_bind.
      { eapply dec_ok_bind; [apply (rd_bits d bs pos w (N.of_nat (octs v) - 1)); auto; try lia|].
        - unfold w. apply lt_pow_log2up; lia.
        - intros d1 Hd1. eapply dec_ok_bind; [apply rd_align; eauto|]. intros d2 Hd2. exists d2. split; [reflexivity|exact Hd2]. }
      intros d3 Hd3. cbv beta. rewrite (u64_small (N.of_nat (octs v) - 1 + 1)) by (unfold TWO64; lia).
      replace (N.of_nat (octs v) - 1 + 1) with (N.of_nat (octs v)) by lia. rewrite u64_small by (unfold TWO64; lia).
      eapply dec_ok_bind.
      { apply (rd_bits d3 bs (pos + N.to_nat w + pad_len (pos + N.to_nat w))%nat (N.of_nat (octs v) * 8) v); auto; try lia.
        - rewrite N.mul_comm, <- pow256_pow2. apply octs_bound. exact Hv.
        - replace (N.to_nat (N.of_nat (octs v) * 8)) with (8 * octs v)%nat by lia. exact Hb3. }
      intros d4 Hd4. exists d4. split.
      * f_equal. f_equal. rewrite i64n_small by lia. rewrite i64_small by lia. unfold v. lia.
      * unfold log2up_nat. fold w. rewrite ?bits_of_N_length.
        replace (pos + (N.to_nat w + (pad_len (pos + N.to_nat w) + 8 * octs v)))%nat
          with (pos + N.to_nat w + pad_len (pos + N.to_nat w) + N.to_nat (N.of_nat (octs v) * 8))%nat by lia. exact Hd4.
Qed.

Theorem rd_enum d bs pos u i e :
  at_pos d bs pos -> buf bs -> (0 <= u < 65536)%Z -> i < Z.to_N u + 1 -> cwn (Z.to_N u + 1) i pos = XOk e -> bits_at bs pos e ->
  dec_ok (parseEnumerated d false (Some 0%Z) (Some u)) bs (pos + length e) i.
Proof.
  intros Hd Hb Hu Hi Hx Hbits. unfold parseEnumerated. replace (u - 0 + 1)%Z with (u + 1)%Z by lia. rewrite i64_small by lia.
  destruct (1 <? u + 1)%Z eqn:E.
  - replace (u + 1)%Z with (Z.of_N (Z.to_N u + 1)) by lia. apply (rd_cwn d bs pos _ i e); auto; lia.
  - assert (u = 0%Z) by lia. subst u. assert (i = 0) by lia. subst i. cbn in Hx. apply xok_inj in Hx. subst e.
    exists d. cbn [length]. rewrite Nat.add_0_r. auto.
Qed.

Theorem rd_choice_index d bs pos ub idx e :
  at_pos d bs pos -> buf bs -> (1 <= ub < 65536)%Z -> idx < Z.to_N ub + 1 -> cwn (Z.to_N ub + 1) idx pos = XOk e -> bits_at bs pos e ->
  dec_ok (getChoiceIndex d false (Some ub)) bs (pos + length e) (Z.of_N idx + 1)%Z.
Proof.
  intros Hd Hb Hu Hi Hx Hbits. unfold getChoiceIndex. assert ((ub <? 0)%Z = false) as -> by lia. rewrite i64_small by lia.
  eapply dec_ok_bind.
  - replace (ub + 1)%Z with (Z.of_N (Z.to_N ub + 1)) by lia. apply (rd_cwn d bs pos _ idx e); auto; lia.
  - intros d1 Hd1. exists d1. split; [|exact Hd1]. f_equal. f_equal. rewrite i64n_small by lia. apply i64_small. lia.
Qed.

Theorem rd_bool d bs pos (b : bool) :
  at_pos d bs pos -> buf bs -> bits_at bs pos [b] -> dec_ok (parseBool d) bs (pos + 1) b.
Proof.
  intros Hd Hb Hbits. unfold parseBool. eapply dec_ok_bind.
  - apply (rd_bits d bs pos 1 (if b then 1 else 0)); auto; try lia; destruct b; try lia; exact Hbits.
  - intros d1 Hd1. exists d1. split; [destruct b; reflexivity|exact Hd1].
Qed.

(* one bit read by parseField for sizeExt / valueExt *)
Theorem rd_ext_bit d bs pos (b : bool) :
  at_pos d bs pos -> buf bs -> bits_at bs pos [b] ->
  dec_ok (dos (x, s) <- getBitsValue d 1; (Ok (negb (x =? 0)), s)) bs (pos + 1) b.
Proof.
  intros Hd Hb Hbits. eapply dec_ok_bind.
  - apply (rd_bits d bs pos 1 (if b then 1 else 0)); auto; try lia; destruct b; try lia; exact Hbits.
  - intros d1 Hd1. exists d1. split; [destruct b; reflexivity|exact Hd1].
Qed.
