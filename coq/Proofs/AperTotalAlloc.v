(* C14, part 4: what reflect.MakeSlice reserves during one decoding call (the [ares] counter of Model/AperDec.v).

   Accounting.  A SEQUENCE OF reserves numElements * sizeof(elem) before it parses its elements.
     - A list that completes has parsed numElements elements; when every element consumes at least one bit
       ([consumes], a syntactic criterion checked over the schema) numElements <= bits consumed by the list, so
       the reservation is paid for by input:  alloc <= lcoef t * (bits consumed)   for a successful parseField.
     - When parseField fails, the lists that were open at that moment (at most one per nesting level of the type)
       may have over-claimed: each at most count_ub p * sizeof(elem), whatever the input says, because the count is a
       constrained whole number of at most 16 bits plus the lower bound, or one octet:
                               alloc <= chain t + lcoef t * (bits that were left).
   [chain] is the worst sum of over-claims along one path of the type, [lcoef] the octets reserved per input bit. *)
From Coq Require Import NArith ZArith List Bool Lia Arith String.
From Coq Require Import ZifyN ZifyNat ZifyBool.
Require Import GoSlice AperCommon AperEnc AperDec AperDecProofs AperTotalPrim AperTotalField.
Import ListNotations.
Open Scope N_scope.
Ltac Zify.zify_post_hook ::= Z.div_mod_to_equations.

Local Arguments N.add : simpl never.
Local Arguments N.mul : simpl never.
Local Arguments N.sub : simpl never.
Local Arguments N.div : simpl never.
Local Arguments N.modulo : simpl never.
Local Arguments N.land : simpl never.
Local Arguments N.lor : simpl never.
Local Arguments N.shiftr : simpl never.
Local Arguments N.shiftl : simpl never.
Local Arguments N.pow : simpl never.
Local Arguments N.max : simpl never.

(* ------------------------------------------------------------------------------------------------ *)
(* schema-side quantities *)

(* the largest element count parseSequenceOf can come up with under tag p *)
Definition seq_lb (p : params) : Z := match p_sizeLB p with Some x => if (x <? 65536)%Z then x else 0%Z | None => 0%Z end.
Definition seq_range (p : params) (ext : bool) : Z :=
  match p_sizeUB p with
  | Some ub => if negb ext && (ub <? 65536)%Z then i64 (ub - seq_lb p + 1) else (-1)%Z
  | None => (-1)%Z end.
Definition count_of (p : params) (ext : bool) : N :=
  let sr := seq_range p ext in
  if (1 <? sr)%Z then cv_ub sr + Z.to_N (seq_lb p) else if (sr =? 1)%Z then Z.to_N (seq_lb p) else 255.
Definition count_ub (p : params) : N := N.max (count_of p false) (if p_sizeExt p then 255 else 0).

Fixpoint chain (t : ty) (c : N) : N :=
  match t with
  | TSlice e => c * go_sizeof e + chain e 255
  | TPtr e => chain e c
  | TStruct fs => (fix go (fs : list (string * params * ty)) : N :=
                     match fs with [] => 0 | (_, p, t') :: r => N.max (chain t' (count_ub p)) (go r) end) fs
  | _ => 0
  end.

Fixpoint lcoef (t : ty) : N :=
  match t with
  | TSlice e => go_sizeof e + lcoef e
  | TPtr e => lcoef e
  | TStruct fs => (fix go (fs : list (string * params * ty)) : N :=
                     match fs with [] => 0 | (_, _, t') :: r => N.max (lcoef t') (go r) end) fs
  | _ => 0
  end.

(* a successful parseField of (t, p) consumes at least one bit: sufficient syntactic condition *)
Definition int_consumes (p : params) : bool :=
  match p_valueLB p, p_valueUB p with
  | Some l, Some u => let vr := i64 (u - l + 1) in (1 <? vr)%Z && (vr <=? 65536)%Z
  | _, _ => false
  end.

Fixpoint consumes (t : ty) (p : params) : bool :=
  match t with
  | TPtr e => consumes e p
  | TSlice _ => p_sizeExt p
  | TOid => false
  | _ =>
      p_sizeExt p || p_valueExt p ||
      match t with
      | TBool => true
      | TInt => int_consumes p
      | TOctets | TString => oct_nonempty (p_sizeLB p)
      | TStruct fs =>
          if is_choice fs then negb (p_openType p)
          else (0 <? count_optional fs) ||
               (fix go (fs : list (string * params * ty)) : bool :=
                  match fs with
                  | [] => false
                  | (_, p', t') :: r => (negb (p_optional p') && negb (p_openType p') && consumes t' p') || go r
                  end) fs
      | _ => false
      end
  end.

Fixpoint fields_consume (fs : list field) : bool :=
  match fs with
  | [] => false
  | f :: r => (negb (p_optional (f_params f)) && negb (p_openType (f_params f)) && consumes (f_ty f) (f_params f)) || fields_consume r
  end.

(* every list of the type has elements that consume input *)
Fixpoint cons_ok (t : ty) (p : params) : bool :=
  match t with
  | TSlice e => consumes e (clear_size p) && cons_ok e (clear_size p)
  | TPtr e => cons_ok e p
  | TStruct fs => (fix go (fs : list (string * params * ty)) : bool :=
                     match fs with [] => true | (_, p', t') :: r => cons_ok t' p' && go r end) fs
  | _ => true
  end.

Lemma consumes_struct fs p : consumes (TStruct fs) p =
  (p_sizeExt p || p_valueExt p ||
   (if is_choice fs then negb (p_openType p) else (0 <? count_optional fs) || fields_consume fs)).
Proof.
  cbn [consumes]. f_equal. destruct (is_choice fs); [reflexivity|]. f_equal.
  induction fs as [|[[n p'] t'] r IH]; [reflexivity|].
  cbn [fields_consume f_params f_ty fst snd]. f_equal. exact IH.
Qed.

Lemma cons_ok_struct fs p : cons_ok (TStruct fs) p = true -> Forall (fun f => cons_ok (f_ty f) (f_params f) = true) fs.
Proof.
  cbn [cons_ok]. induction fs as [|[[n p'] t'] r IH]; intros H; [constructor|].
  apply andb_prop in H as (H1 & H2). constructor; [exact H1|apply IH; exact H2].
Qed.

Lemma chain_field fs f c : In f fs -> chain (f_ty f) (count_ub (f_params f)) <= chain (TStruct fs) c.
Proof.
  cbn [chain]. induction fs as [|[[n p'] t'] r IH]; intros Hin; [contradiction|].
  destruct Hin as [<-|Hin]; cbn [f_ty f_params fst snd]; [lia|]. specialize (IH Hin). lia.
Qed.

Lemma lcoef_field fs f : In f fs -> lcoef (f_ty f) <= lcoef (TStruct fs).
Proof.
  cbn [lcoef]. induction fs as [|[[n p'] t'] r IH]; intros Hin; [contradiction|].
  destruct Hin as [<-|Hin]; cbn [f_ty snd]; [lia|]. specialize (IH Hin). lia.
Qed.

(* tags that differ only in the reference value behave alike *)
Definition peq (p q : params) : Prop :=
  p_optional p = p_optional q /\ p_sizeExt p = p_sizeExt q /\ p_valueExt p = p_valueExt q /\ p_openType p = p_openType q /\
  p_sizeLB p = p_sizeLB q /\ p_sizeUB p = p_sizeUB q /\ p_valueLB p = p_valueLB q /\ p_valueUB p = p_valueUB q.

Lemma peq_set_ref p r : peq (set_ref p r) p.
Proof. unfold peq. cbn. repeat split. Qed.
Lemma peq_clear p q : peq p q -> peq (clear_size p) (clear_size q).
Proof. unfold peq. cbn. intros (H1 & H2 & H3 & H4 & H5 & H6 & H7 & H8). repeat split; assumption. Qed.

Lemma consumes_peq t : forall p q, peq p q -> consumes t p = consumes t q.
Proof.
  induction t; intros p q Hpq; pose proof Hpq as (H1 & H2 & H3 & H4 & H5 & H6 & H7 & H8); cbn [consumes];
    unfold int_consumes; rewrite ?H2, ?H3, ?H4, ?H5, ?H7, ?H8; try reflexivity.
  apply IHt. exact Hpq.
Qed.

Lemma cons_ok_peq t : forall p q, peq p q -> cons_ok t p = cons_ok t q.
Proof.
  induction t; intros p q Hpq; cbn [cons_ok]; try reflexivity.
  - rewrite (consumes_peq t _ _ (peq_clear _ _ Hpq)), (IHt _ _ (peq_clear _ _ Hpq)). reflexivity.
  - apply IHt. exact Hpq.
Qed.

Lemma count_ub_set_ref p r : count_ub (set_ref p r) = count_ub p.
Proof. reflexivity. Qed.
Lemma count_ub_clear p : count_ub (clear_size p) = 255.
Proof. reflexivity. Qed.
Lemma psize_ok_set_ref p r : psize_ok (set_ref p r) = psize_ok p.
Proof. reflexivity. Qed.

(* ------------------------------------------------------------------------------------------------ *)
(* specification frame: cursor s0, octets per bit L, over-claim C *)

Definition fspec {A} (s0 : dst) (L C : N) (Q : A -> dst -> Prop) (r : ares (A * dst)) : Prop :=
  match fst r with
  | Ok (a, s') => adv s0 s' /\ Q a s' /\ snd r <= L * (pos s' - pos s0)
  | _ => snd r <= C + L * (8 * len (d_bytes s0) - pos s0)
  end.

Lemma arith1 L a1 a2 p0 p1 p2 : p0 <= p1 -> p1 <= p2 -> a1 <= L * (p1 - p0) -> a2 <= L * (p2 - p1) -> a1 + a2 <= L * (p2 - p0).
Proof.
  intros H01 H12 H1 H2. replace (p2 - p0) with ((p1 - p0) + (p2 - p1)) by lia. rewrite N.mul_add_distr_l. lia.
Qed.
Lemma arith2 L C a1 a2 p0 p1 R : p0 <= p1 -> p1 <= R -> a1 <= L * (p1 - p0) -> a2 <= C + L * (R - p1) -> a1 + a2 <= C + L * (R - p0).
Proof.
  intros H01 H12 H1 H2. replace (R - p0) with ((p1 - p0) + (R - p1)) by lia. rewrite N.mul_add_distr_l. lia.
Qed.
Lemma arith3 L L' x a : L <= L' -> a <= L * x -> a <= L' * x.
Proof. intros H Ha. pose proof (N.mul_le_mono_r L L' x H). lia. Qed.
Lemma arith4 L x y a : x <= y -> a <= L * x -> a <= L * y.
Proof. intros H Ha. pose proof (N.mul_le_mono_l x y L H). lia. Qed.

Lemma adv_pos_le s s' : adv s s' -> pos s <= pos s' /\ pos s' <= 8 * len (d_bytes s).
Proof. intros Ha. pose proof (dinv_pos _ (adv_dinv _ _ Ha)). rewrite (adv_len _ _ Ha) in H. destruct Ha as (_ & _ & Hp). lia. Qed.

Lemma fspec_bind {A B} s0 L C (P : A -> dst -> Prop) (Q : B -> dst -> Prop) (r : ares (A * dst)) (f : A * dst -> ares (B * dst)) :
  fspec s0 L C P r -> (forall a s1, adv s0 s1 -> P a s1 -> fspec s1 L C Q (f (a, s1))) -> fspec s0 L C Q (abind r f).
Proof.
  unfold fspec. destruct r as [[[a s1]|e|q|] n]; cbn [fst snd abind]; auto.
  intros (Ha & HP & Hn) Hf. specialize (Hf a s1 Ha HP).
  destruct (f (a, s1)) as [r' m]. cbn [fst snd] in *.
  destruct (adv_pos_le _ _ Ha) as (P01 & P1R).
  destruct r' as [[b s2]|e|q|].
  - destruct Hf as (Ha2 & HQ & Hm). destruct (adv_pos_le _ _ Ha2) as (P12 & _).
    split; [apply (adv_trans _ _ _ Ha Ha2)|]. split; [exact HQ|]. apply (arith1 L n m _ (pos s1)); assumption.
  - rewrite (adv_len _ _ Ha) in Hf. apply (arith2 L C n m _ (pos s1)); assumption.
  - rewrite (adv_len _ _ Ha) in Hf. apply (arith2 L C n m _ (pos s1)); assumption.
  - rewrite (adv_len _ _ Ha) in Hf. apply (arith2 L C n m _ (pos s1)); assumption.
Qed.

Lemma fspec_alift {A} s0 L C (Q : A -> dst -> Prop) (r : sres A) : sgood s0 Q r -> fspec s0 L C Q (alift r).
Proof.
  unfold fspec. destruct r as [[a|e|q|] s]; cbn [sgood alift fst snd]; try (intros; apply N.le_0_l).
  intros (Ha & HQ). split; [exact Ha|]. split; [exact HQ|apply N.le_0_l].
Qed.

Lemma fspec_aret {A} s0 L C (Q : A -> dst -> Prop) a s : adv s0 s -> Q a s -> fspec s0 L C Q (aret (a, s)).
Proof. intros Ha HQ. unfold fspec. cbn [aret fst snd]. split; [exact Ha|]. split; [exact HQ|apply N.le_0_l]. Qed.

Lemma fspec_fail0 {A} s0 L C (Q : A -> dst -> Prop) (x : res (A * dst)) :
  match x with Ok _ => False | _ => True end -> fspec s0 L C Q (x, 0).
Proof. unfold fspec. cbn [fst snd]. destruct x; try contradiction; intros _; apply N.le_0_l. Qed.

Lemma fspec_mono {A} s0 L L' C C' (Q Q' : A -> dst -> Prop) r :
  L <= L' -> C <= C' -> (forall a s', adv s0 s' -> Q a s' -> Q' a s') -> fspec s0 L C Q r -> fspec s0 L' C' Q' r.
Proof.
  intros HL HC HQ. unfold fspec. destruct (fst r) as [[a s']|e|q|].
  - intros (Ha & Hq & Hn). split; [exact Ha|]. split; [apply HQ; assumption|]. apply (arith3 L L'); assumption.
  - intros Hn. pose proof (N.mul_le_mono_r L L' (8 * len (d_bytes s0) - pos s0) HL). lia.
  - intros Hn. pose proof (N.mul_le_mono_r L L' (8 * len (d_bytes s0) - pos s0) HL). lia.
  - intros Hn. pose proof (N.mul_le_mono_r L L' (8 * len (d_bytes s0) - pos s0) HL). lia.
Qed.

Lemma fspec_from {A} s0 s1 L C (Q : A -> dst -> Prop) r : adv s0 s1 -> fspec s1 L C Q r -> fspec s0 L C Q r.
Proof.
  intros Ha. destruct (adv_pos_le _ _ Ha) as (P01 & P1R). unfold fspec. rewrite (adv_len _ _ Ha).
  destruct (fst r) as [[a s']|e|q|].
  - intros (Ha' & Hq & Hn). split; [apply (adv_trans _ _ _ Ha Ha')|]. split; [exact Hq|].
    apply (arith4 L (pos s' - pos s1)); [lia|exact Hn].
  - intros Hn. pose proof (N.mul_le_mono_l (8 * len (d_bytes s0) - pos s1) (8 * len (d_bytes s0) - pos s0) L). lia.
  - intros Hn. pose proof (N.mul_le_mono_l (8 * len (d_bytes s0) - pos s1) (8 * len (d_bytes s0) - pos s0) L). lia.
  - intros Hn. pose proof (N.mul_le_mono_l (8 * len (d_bytes s0) - pos s1) (8 * len (d_bytes s0) - pos s0) L). lia.
Qed.

(* a step that produces no cursor (tag computation): never reserves anything *)
Lemma fspec_abind0 {A B} s0 L C (Q : B -> dst -> Prop) (r : ares A) (f : A -> ares (B * dst)) :
  snd r = 0 -> (forall a, fst r = Ok a -> fspec s0 L C Q (f a)) -> fspec s0 L C Q (abind r f).
Proof.
  destruct r as [[a|e|q|] n]; cbn [fst snd abind]; intros -> Hf; try (apply fspec_fail0; exact I).
  specialize (Hf a eq_refl). destruct (f a) as [r' m]. unfold fspec in *. cbn [fst snd] in *.
  rewrite N.add_0_l. exact Hf.
Qed.

(* the extension-bit prefix of parseField *)
Definition ext_post (s : dst) (flag : bool) : bool -> dst -> Prop :=
  fun b s' => (b = true -> flag = true) /\ (flag = true -> pos s + 1 <= pos s').

Lemma ext_bit_spec L C (flag : bool) s : dinv s ->
  fspec s L C (ext_post s flag)
    (if flag then alift (dos (b, s) <- getBitsValue s 1; (Ok (negb (b =? 0)), s)) else aret (false, s)).
Proof.
  intros Hs. destruct flag.
  - apply fspec_alift. eapply sgood_bind; [apply getBitsValue_good', Hs|].
    intros v s' Ha (Hp & _). apply sgood_ok; [exact Ha|]. split; [reflexivity|]. intros _. lia.
  - apply fspec_aret; [apply adv_refl, Hs|]. split; intros; discriminate.
Qed.

(* ------------------------------------------------------------------------------------------------ *)
(* parseField: the statement threaded through the recursion *)

Definition pspec (t : ty) (p : params) (s : dst) (r : ares (val * dst)) : Prop :=
  fspec s (lcoef t) (chain t (count_ub p)) (fun _ s' => consumes t p = true -> pos s + 1 <= pos s') r.

Definition triv : val -> dst -> Prop := fun _ _ => True.

Lemma go_bits_le9_pow r : 2 ^ go_bits r <= 512.
Proof. change 512 with (2 ^ 9). apply N.pow_le_mono_r; [discriminate|apply go_bits_le_8]. Qed.

Lemma cv_ub_le r : cv_ub r <= 65535.
Proof. unfold cv_ub. pose proof (go_bits_le9_pow r). destruct (r <=? 255)%Z; [lia|]. destruct (r =? 256)%Z; lia. Qed.

Lemma seq_lb_range p : psize_ok p = true -> (0 <= seq_lb p < 65536)%Z.
Proof.
  unfold psize_ok, lbz_ok, seq_lb. intros Hp. apply andb_prop in Hp as (Hp & _).
  destruct (p_sizeLB p) as [x|]; [|lia]. destruct (x <? 65536)%Z eqn:E; lia.
Qed.

Lemma count_of_le p ext : psize_ok p = true -> (ext = true -> p_sizeExt p = true) -> count_of p ext <= count_ub p /\ count_ub p < 131072.
Proof.
  intros Hp He. pose proof (seq_lb_range p Hp) as Hlb. unfold count_ub.
  assert (Hc : forall e, count_of p e < 131072).
  { intros e. unfold count_of. pose proof (cv_ub_le (seq_range p e)). destruct (1 <? _)%Z; [lia|]. destruct (_ =? 1)%Z; lia. }
  split.
  - destruct ext; [|lia]. rewrite (He eq_refl).
    assert (count_of p true = 255); [|lia].
    unfold count_of, seq_range. destruct (p_sizeUB p); reflexivity.
  - pose proof (Hc false). destruct (p_sizeExt p); lia.
Qed.

Lemma fspec_charge s1 Le Ce sz n cub (g : ares (val * dst)) :
  n <= cub -> fspec s1 Le Ce (fun _ s' => pos s1 + n <= pos s') g ->
  fspec s1 (sz + Le) (cub * sz + Ce) triv (abind (Ok tt, n * sz) (fun _ => g)).
Proof.
  intros Hn. unfold fspec. cbn [abind fst snd]. destruct g as [r' m]. cbn [fst snd].
  assert (Hfail : m <= Ce + Le * (8 * len (d_bytes s1) - pos s1) ->
                  n * sz + m <= cub * sz + Ce + (sz + Le) * (8 * len (d_bytes s1) - pos s1)).
  { intros Hm. pose proof (N.mul_le_mono_r n cub sz Hn). rewrite N.mul_add_distr_r.
    pose proof (N.le_0_l (sz * (8 * len (d_bytes s1) - pos s1))). lia. }
  destruct r' as [[v s']|e|q|]; try exact Hfail.
  intros (Ha & Hq & Hm). split; [exact Ha|]. split; [exact I|].
  destruct (adv_pos_le _ _ Ha) as (P1 & _).
  rewrite N.mul_add_distr_r. pose proof (N.mul_le_mono_l n (pos s' - pos s1) sz). lia.
Qed.

Section RecA.
  Variable rec : ty -> params -> dst -> ares (val * dst).
  Variable D : nat.
  Hypothesis Hrec : forall t p s, (ty_depth t < D)%nat -> wf_ty t (psize_ok p) = true -> cons_ok t p = true ->
    dinv s -> octs s -> pspec t p s (rec t p s).

  Lemma seqof_elems_alloc e p' : (ty_depth e < D)%nat -> wf_ty e (psize_ok p') = true -> cons_ok e p' = true ->
    consumes e p' = true -> forall n acc s, dinv s -> octs s ->
    fspec s (lcoef e) (chain e (count_ub p')) (fun _ s' => pos s + N.of_nat n <= pos s') (seqof_elems rec e p' n acc s).
  Proof.
    intros Hd Hw Hc Hcons. induction n as [|n IH]; intros acc s Hs Ho; cbn [seqof_elems].
    - apply fspec_aret; [apply adv_refl, Hs|]. cbn. lia.
    - eapply fspec_bind; [apply (Hrec e p' s Hd Hw Hc Hs Ho)|].
      intros v s1 Ha1 Hp1. cbv beta iota. specialize (Hp1 Hcons).
      eapply fspec_mono; [apply N.le_refl|apply N.le_refl| |apply IH; [apply Ha1|apply (adv_octs _ _ Ha1 Ho)]].
      intros a s' _ H. cbv beta in *. lia.
  Qed.

  Lemma decSequenceOf_eq2 e p ext s :
    decSequenceOf rec e p ext s =
    (doa (numElements, s) <-
       (if (1 <? seq_range p ext)%Z then
          match parseConstraintValue s (seq_range p ext) with
          | (Ok n, s') => aret (u64 (n + u64z (seq_lb p)), s')
          | (Err _, s') => aret (u64z (seq_lb p), s')
          | (Panic p, _) => (Panic p, 0)
          | (OutOfFuel, _) => (OutOfFuel, 0)
          end
        else if (seq_range p ext =? 1)%Z then aret (u64z (seq_lb p), s)
        else
          alift (dos (_, s) <- parseAlignBits s;
                 if len (d_bytes s) <=? d_byteOffset s then (Err E_OUT_OF_RANGE, s)
                 else match idx (d_bytes s) (d_byteOffset s) with
                      | Ok b => (Ok b, mkdst (d_bytes s) (u64 (d_byteOffset s + 1)) (d_bitsOffset s))
                      | Err e => (Err e, s) | Panic p => (Panic p, s) | OutOfFuel => (OutOfFuel, s)
                      end));
     if (i64n numElements <? 0)%Z then (Panic P_MAKE, 0)
     else abind (Ok tt, numElements * go_sizeof e)
            (fun _ => seqof_elems rec e (clear_size p) (Z.to_nat (i64n numElements)) [] s)).
  Proof. reflexivity. Qed.

  Lemma seqof_count_spec L C p ext s : psize_ok p = true -> (ext = true -> p_sizeExt p = true) -> dinv s -> octs s ->
    fspec s L C (fun n _ => n <= count_ub p)
       (if (1 <? seq_range p ext)%Z then
          match parseConstraintValue s (seq_range p ext) with
          | (Ok n, s') => aret (u64 (n + u64z (seq_lb p)), s')
          | (Err _, s') => aret (u64z (seq_lb p), s')
          | (Panic p, _) => (Panic p, 0)
          | (OutOfFuel, _) => (OutOfFuel, 0)
          end
        else if (seq_range p ext =? 1)%Z then aret (u64z (seq_lb p), s)
        else
          alift (dos (_, s) <- parseAlignBits s;
                 if len (d_bytes s) <=? d_byteOffset s then (Err E_OUT_OF_RANGE, s)
                 else match idx (d_bytes s) (d_byteOffset s) with
                      | Ok b => (Ok b, mkdst (d_bytes s) (u64 (d_byteOffset s + 1)) (d_bitsOffset s))
                      | Err e => (Err e, s) | Panic p => (Panic p, s) | OutOfFuel => (OutOfFuel, s)
                      end)).
  Proof.
    intros Hp He Hs Ho. pose proof (seq_lb_range p Hp) as Hlb. destruct (count_of_le p ext Hp He) as (Hcu & _).
    assert (Hu : u64z (seq_lb p) = Z.to_N (seq_lb p)) by (apply u64z_small; lia).
    unfold count_of in Hcu. cbv zeta in Hcu.
    destruct (1 <? seq_range p ext)%Z.
    - pose proof (parseConstraintValue_ub s (seq_range p ext) Hs Ho) as H. pose proof (cv_ub_le (seq_range p ext)) as Hcv.
      destruct (parseConstraintValue s (seq_range p ext)) as [[n|e|q|] s']; cbn [sgood] in H; try contradiction.
      + destruct H as (Ha & _ & Hn). apply fspec_aret; [exact Ha|]. rewrite Hu. rewrite u64_small by (unfold TWO64; lia). lia.
      + apply fspec_aret; [exact H|]. rewrite Hu. lia.
    - destruct (seq_range p ext =? 1)%Z.
      + apply fspec_aret; [apply adv_refl, Hs|]. rewrite Hu. lia.
      + apply fspec_alift.
        eapply sgood_bind; [apply parseAlignBits_good', Hs|].
        intros u s1 Ha1 Hb0. cbv beta in Hb0 |- *.
        pose proof (adv_dinv _ _ Ha1) as Hs1. pose proof Hs1 as (B1 & B2 & B3 & B4). unfold MAXLEN in B4.
        destruct (len (d_bytes s1) <=? d_byteOffset s1) eqn:E; [apply sgood_err; exact Ha1|].
        destruct (idx_ok (d_bytes s1) (d_byteOffset s1)) as [b Eb]; [lia|]. rewrite Eb.
        rewrite u64_small by (unfold TWO64; lia).
        apply sgood_ok.
        * apply (adv_trans _ _ _ Ha1). apply adv_skip; [exact Hs1|exact Hb0|lia].
        * pose proof (idx_octet _ _ _ (adv_octs _ _ Ha1 Ho) Eb) as Hb. unfold octet in Hb. lia.
  Qed.

  Lemma decSequenceOf_alloc e p ext s : (ty_depth e < D)%nat -> wf_ty (TSlice e) (psize_ok p) = true ->
    cons_ok (TSlice e) p = true -> (ext = true -> p_sizeExt p = true) -> dinv s -> octs s ->
    fspec s (lcoef (TSlice e)) (chain (TSlice e) (count_ub p)) triv (decSequenceOf rec e p ext s).
  Proof.
    intros Hd Hw Hc He Hs Ho. rewrite decSequenceOf_eq2.
    cbn [wf_ty] in Hw. apply andb_prop in Hw as (Hp & Hwe).
    cbn [cons_ok] in Hc. apply andb_prop in Hc as (Hcons & Hce).
    cbn [lcoef chain].
    eapply fspec_bind; [apply (seqof_count_spec _ _ p ext s Hp He Hs Ho)|].
    intros n s1 Ha1 Hn. cbv beta iota. cbv beta in Hn.
    destruct (i64n n <? 0)%Z eqn:Ei; [apply fspec_fail0; exact I|].
    destruct (count_of_le p ext Hp He) as (_ & Hcu).
    assert (Hi : i64n n = Z.of_N n) by (unfold i64n; apply i64_small; lia).
    apply fspec_charge; [exact Hn|].
    pose proof (seqof_elems_alloc e (clear_size p) Hd Hwe Hce Hcons (Z.to_nat (i64n n)) [] s1 (adv_dinv _ _ Ha1) (adv_octs _ _ Ha1 Ho)) as H.
    rewrite count_ub_clear in H. rewrite Hi in *.
    replace (N.of_nat (Z.to_nat (Z.of_N n))) with n in H by lia. exact H.
  Qed.

  Lemma parseOpenType_alloc t p s : (ty_depth t < D)%nat -> wf_ty t (psize_ok p) = true -> cons_ok t p = true ->
    dinv s -> octs s -> fspec s (lcoef t) (chain t (count_ub p)) triv (parseOpenType rec t p s).
  Proof.
    intros Hd Hw Hc Hs Ho. unfold parseOpenType.
    assert (Hl : sgood s (open_post s []) (open_dec_loop (S (List.length (d_bytes s))) s [])).
    { apply open_dec_loop_good; [exact Hs|exact Ho|constructor|]. pose proof (dinv_pos s Hs). unfold len. lia. }
    destruct (open_dec_loop (S (List.length (d_bytes s))) s []) as [[bytes|e|q|] s1]; cbn [sgood] in Hl; try contradiction;
      [|apply fspec_fail0; exact I].
    destruct Hl as (Ha1 & Hob & Hlen & _). change (len (@nil N)) with 0 in Hlen.
    destruct (adv_pos_le _ _ Ha1) as (P01 & P1R).
    assert (Hsi : dinv (mkdst bytes 0 0)).
    { destruct Hs as (_ & _ & _ & H4). unfold dinv. cbn [d_bytes d_byteOffset d_bitsOffset]. unfold MAXLEN in *. repeat split; try lia. }
    pose proof (Hrec t p (mkdst bytes 0 0) Hd Hw Hc Hsi Hob) as Hr. unfold pspec, fspec in Hr.
    unfold fspec. cbn [alift abind fst snd].
    destruct (rec t p (mkdst bytes 0 0)) as [[[v s2]|e|q|] n]; cbn [abind aret fst snd] in *.
    - destruct Hr as (Ha2 & _ & Hn). split; [exact Ha1|]. split; [exact I|].
      pose proof (dinv_pos _ (adv_dinv _ _ Ha2)) as Hp2. rewrite (adv_len _ _ Ha2) in Hp2. cbn [d_bytes] in Hp2.
      change (pos (mkdst bytes 0 0)) with 0 in Hn. rewrite N.sub_0_r in Hn.
      rewrite !N.add_0_l, N.add_0_r. apply (arith4 _ (pos s2)); [lia|exact Hn].
    - change (pos (mkdst bytes 0 0)) with 0 in Hr. rewrite N.sub_0_r in Hr. cbn [d_bytes] in Hr. rewrite N.add_0_l.
      pose proof (N.mul_le_mono_l (8 * len bytes) (8 * len (d_bytes s) - pos s) (lcoef t)). lia.
    - change (pos (mkdst bytes 0 0)) with 0 in Hr. rewrite N.sub_0_r in Hr. cbn [d_bytes] in Hr. rewrite N.add_0_l.
      pose proof (N.mul_le_mono_l (8 * len bytes) (8 * len (d_bytes s) - pos s) (lcoef t)). lia.
    - change (pos (mkdst bytes 0 0)) with 0 in Hr. rewrite N.sub_0_r in Hr. cbn [d_bytes] in Hr. rewrite N.add_0_l.
      pose proof (N.mul_le_mono_l (8 * len bytes) (8 * len (d_bytes s) - pos s) (lcoef t)). lia.
  Qed.
End RecA.

(* the tag of an open-type field: the reference value is filled in; nothing is reserved *)
Definition ref_params (allf : list field) (vals : list val) (i : nat) (fp : params) : ares params :=
  if p_openType fp then
    let index := find_field (p_refName fp) allf i 0 in
    if Nat.eqb index i then aerr E_OPEN_NOFIELD
    else match nth_error allf index, nth_error vals index with
         | Some rf, Some rv => (match get_ref REF_FUEL (f_ty rf) rv with
                                | Ok z => aret (set_ref fp (Some z))
                                | Err e => aerr e | Panic q => (Panic q, 0) | OutOfFuel => (OutOfFuel, 0) end)
         | _, _ => (Panic P_ILLTYPED, 0)
         end
  else aret fp.

Lemma ref_params_spec allf vals i fp :
  snd (ref_params allf vals i fp) = 0 /\
  forall a, fst (ref_params allf vals i fp) = Ok a -> peq a fp /\ (p_openType fp = false -> a = fp).
Proof.
  unfold ref_params. destruct (p_openType fp).
  - cbv zeta. destruct (Nat.eqb _ i); [split; [reflexivity|discriminate]|].
    destruct (nth_error allf _); [|split; [reflexivity|discriminate]].
    destruct (nth_error vals _); [|split; [reflexivity|discriminate]].
    destruct (get_ref _ _ _); (split; [reflexivity|]); try discriminate.
    intros a' E. cbn in E. injection E as <-. split; [apply peq_set_ref|discriminate].
  - split; [reflexivity|]. intros a E. cbn in E. injection E as <-. split; [|reflexivity]. unfold peq. repeat split.
Qed.

Definition struct_consumes (fs : list field) (p : params) : bool :=
  if is_choice fs then negb (p_openType p) else (0 <? count_optional fs) || fields_consume fs.

Section RecB.
  Variable rec : ty -> params -> dst -> ares (val * dst).
  Variable D : nat.
  Hypothesis Hrec : forall t p s, (ty_depth t < D)%nat -> wf_ty t (psize_ok p) = true -> cons_ok t p = true ->
    dinv s -> octs s -> pspec t p s (rec t p s).

  Lemma dec_seq_loop_cons allf f fr i cnt pres vals s :
    dec_seq_loop rec allf (f :: fr) i cnt pres vals s =
    (let fp := f_params f in
     let dec := p_optional fp && (0 <? cnt) in
     let cnt' := if dec then cnt - 1 else cnt in
     if dec && (N.land pres (shl64 1 cnt') =? 0) then dec_seq_loop rec allf fr (S i) cnt' pres vals s
     else
       doa fp' <- ref_params allf vals i fp;
       doa (v, s') <- rec (f_ty f) fp' s;
       dec_seq_loop rec allf fr (S i) cnt' pres (set_nth vals i v) s').
  Proof. reflexivity. Qed.

  Definition field_hyp (L C : N) (f : field) : Prop :=
    wf_ty (f_ty f) (psize_ok (f_params f)) = true /\ (ty_depth (f_ty f) < D)%nat /\ cons_ok (f_ty f) (f_params f) = true /\
    lcoef (f_ty f) <= L /\ chain (f_ty f) (count_ub (f_params f)) <= C.

  Lemma dec_seq_loop_alloc allf L C : forall fs i cnt pres vals s,
    Forall (field_hyp L C) fs -> dinv s -> octs s ->
    fspec s L C (fun _ s' => fields_consume fs = true -> pos s + 1 <= pos s') (dec_seq_loop rec allf fs i cnt pres vals s).
  Proof.
    induction fs as [|f fr IH]; intros i cnt pres vals s Hf Hs Ho.
    - cbn [dec_seq_loop]. apply fspec_aret; [apply adv_refl, Hs|]. cbn. discriminate.
    - rewrite dec_seq_loop_cons. cbv zeta.
      inversion Hf as [|f' fr' (Hwf & Hdf & Hcf & HLf & HCf) Hf']; subst f' fr'.
      cbn [fields_consume].
      destruct (p_optional (f_params f) && (0 <? cnt)) eqn:Edec.
      + assert (Hopt : p_optional (f_params f) = true) by (apply andb_prop in Edec as (H & _); exact H).
        rewrite Hopt. cbn [negb andb orb].
        destruct (N.land pres (shl64 1 (cnt - 1)) =? 0); cbn [andb].
        * apply IH; assumption.
        * destruct (ref_params_spec allf vals i (f_params f)) as (H0 & Hfp).
          apply fspec_abind0; [exact H0|]. intros fp' Efp'. destruct (Hfp fp' Efp') as (Hpe & _).
          eapply fspec_bind.
          -- eapply fspec_mono; [exact HLf| |intros a s' _ H; exact H|apply (Hrec (f_ty f) fp' s Hdf)]; try assumption.
             ++ replace (count_ub fp') with (count_ub (f_params f)); [exact HCf|].
                destruct Hpe as (_ & E2 & _ & _ & E5 & E6 & _). unfold count_ub, count_of, seq_range, seq_lb. rewrite E2, E5, E6. reflexivity.
             ++ replace (psize_ok fp') with (psize_ok (f_params f)); [exact Hwf|].
                destruct Hpe as (_ & _ & _ & _ & E5 & E6 & _). unfold psize_ok. rewrite E5, E6. reflexivity.
             ++ rewrite (cons_ok_peq _ _ _ Hpe). exact Hcf.
          -- intros v s1 Ha1 _. cbv beta iota.
             destruct (adv_pos_le _ _ Ha1) as (P01 & _).
             eapply fspec_mono; [apply N.le_refl|apply N.le_refl| |apply IH; [exact Hf'|apply Ha1|apply (adv_octs _ _ Ha1 Ho)]].
             intros a s' _ H Hc. specialize (H Hc). lia.
      + cbn [andb].
        destruct (ref_params_spec allf vals i (f_params f)) as (H0 & Hfp).
        apply fspec_abind0; [exact H0|]. intros fp' Efp'. destruct (Hfp fp' Efp') as (Hpe & Hsame).
        eapply fspec_bind.
        * eapply fspec_mono; [exact HLf| |intros a s' _ H; exact H|apply (Hrec (f_ty f) fp' s Hdf)]; try assumption.
          -- replace (count_ub fp') with (count_ub (f_params f)); [exact HCf|].
             destruct Hpe as (_ & E2 & _ & _ & E5 & E6 & _). unfold count_ub, count_of, seq_range, seq_lb. rewrite E2, E5, E6. reflexivity.
          -- replace (psize_ok fp') with (psize_ok (f_params f)); [exact Hwf|].
             destruct Hpe as (_ & _ & _ & _ & E5 & E6 & _). unfold psize_ok. rewrite E5, E6. reflexivity.
          -- rewrite (cons_ok_peq _ _ _ Hpe). exact Hcf.
        * intros v s1 Ha1 Hp1. cbv beta iota in Hp1 |- *.
          destruct (adv_pos_le _ _ Ha1) as (P01 & _).
          eapply fspec_mono; [apply N.le_refl|apply N.le_refl| |apply IH; [exact Hf'|apply Ha1|apply (adv_octs _ _ Ha1 Ho)]].
          intros a s' Ha' H Hc. destruct (adv_pos_le _ _ Ha') as (P1' & _).
          apply orb_prop in Hc as [Hc|Hc]; [|specialize (H Hc); lia].
          apply andb_prop in Hc as (Hc & Hc3). apply andb_prop in Hc as (_ & Hc2).
          assert (Ho' : p_openType (f_params f) = false) by (destruct (p_openType (f_params f)); [discriminate|reflexivity]).
          rewrite (Hsame Ho') in Hp1. specialize (Hp1 Hc3). lia.
  Qed.

  Lemma decStruct_alloc fs p ext s : (ty_depth (TStruct fs) <= D)%nat -> wf_ty (TStruct fs) (psize_ok p) = true ->
    cons_ok (TStruct fs) p = true -> dinv s -> octs s ->
    fspec s (lcoef (TStruct fs)) (chain (TStruct fs) (count_ub p)) (fun _ s' => struct_consumes fs p = true -> pos s + 1 <= pos s')
      (decStruct rec fs p ext s).
  Proof.
    intros Hd Hw Hc Hs Ho. unfold decStruct. cbv zeta.
    apply wf_struct in Hw as (_ & Hf). apply cons_ok_struct in Hc.
    set (L := lcoef (TStruct fs)). set (C := chain (TStruct fs) (count_ub p)).
    assert (Hfh : Forall (field_hyp L C) fs).
    { rewrite Forall_forall in *. intros f Hin. unfold field_hyp.
      split; [apply Hf; exact Hin|]. split; [pose proof (ty_depth_field _ _ Hin); lia|]. split; [apply Hc; exact Hin|].
      split; [apply lcoef_field; exact Hin|apply chain_field; exact Hin]. }
    eapply fspec_bind with (P := fun _ s1 => (0 <? count_optional fs) = true -> pos s + 1 <= pos s1).
    { destruct (0 <? count_optional fs) eqn:E0.
      - apply fspec_alift. eapply sgood_weaken; [apply adv_refl, Hs|apply getBitsValue_good', Hs|].
        intros v s' _ (Hp & _) _. lia.
      - apply fspec_aret; [apply adv_refl, Hs|discriminate]. }
    intros pres s1 Ha1 Hp1. cbv beta iota.
    pose proof (adv_dinv _ _ Ha1) as Hs1. pose proof (adv_octs _ _ Ha1 Ho) as Ho1. destruct (adv_pos_le _ _ Ha1) as (P01 & _).
    unfold struct_consumes.
    destruct (is_choice fs) eqn:Ech.
    - destruct (p_openType p) eqn:Eop.
      + (* open type CHOICE: nothing claimed about consumption *)
        destruct (p_refValue p) as [refValue|]; [|apply fspec_fail0; exact I].
        dif E0; [apply fspec_aret; [apply adv_refl, Hs1|discriminate]|].
        dopt f Ef; [|apply fspec_fail0; exact I].
        pose proof (nth_error_In _ _ Ef) as Hin. rewrite Forall_forall in Hfh. destruct (Hfh f Hin) as (Hwf & Hdf & Hcf & HLf & HCf).
        eapply fspec_bind.
        * eapply fspec_mono; [exact HLf|exact HCf|intros a s' _ H; exact H|].
          apply (parseOpenType_alloc rec D Hrec); assumption.
        * intros v s2 Ha2 _. cbv beta iota. apply fspec_aret; [apply adv_refl; apply Ha2|discriminate].
      + pose proof (getChoiceIndex_good' s1 ext (p_valueUB p) Hs1 Ho1) as Hg.
        destruct (getChoiceIndex s1 ext (p_valueUB p)) as [[present|e|q|] s2]; cbn [sgood] in Hg; try contradiction;
          [|apply fspec_fail0; exact I].
        destruct Hg as (Ha2 & _ & Hp2).
        dif Ez; [apply fspec_fail0; exact I|].
        dif Eg; [apply fspec_fail0; exact I|].
        dif En; [apply fspec_fail0; exact I|].
        dopt f Ef; [|apply fspec_fail0; exact I].
        pose proof (nth_error_In _ _ Ef) as Hin. rewrite Forall_forall in Hfh. destruct (Hfh f Hin) as (Hwf & Hdf & Hcf & HLf & HCf).
        apply (fspec_from s1 s2 _ _ _ _ Ha2).
        eapply fspec_bind.
        * eapply fspec_mono; [exact HLf|exact HCf|intros a s' _ H; exact H|].
          apply (Hrec (f_ty f) (f_params f) s2 Hdf Hwf Hcf); [apply Ha2|apply (adv_octs _ _ Ha2 Ho1)].
        * intros v s3 Ha3 _. cbv beta iota. destruct (adv_pos_le _ _ Ha3) as (P23 & _).
          apply fspec_aret; [apply adv_refl; apply Ha3|]. intros _. lia.
    - eapply fspec_mono; [apply N.le_refl|apply N.le_refl| |apply (dec_seq_loop_alloc fs L C fs 0%nat _ pres _ s1 Hfh Hs1 Ho1)].
      intros a s' Ha' H Hcc. cbv beta in H. destruct (adv_pos_le _ _ Ha') as (P1' & _).
      apply orb_prop in Hcc as [Hcc|Hcc]; [specialize (Hp1 Hcc); lia|specialize (H Hcc); lia].
  Qed.
End RecB.

(* ------------------------------------------------------------------------------------------------ *)
(* primitive readers that consume input *)

Lemma parseBool_cons s : dinv s -> sgood s (fun _ s' => pos s + 1 <= pos s') (parseBool s).
Proof.
  intros Hs. unfold parseBool. eapply sgood_bind; [apply getBitsValue_good', Hs|].
  intros v s' Ha (Hp & _). apply sgood_ok; [exact Ha|lia].
Qed.

Lemma parseInteger_cons s y p : dinv s -> octs s ->
  sgood s (fun _ s' => int_consumes p = true -> y = false -> pos s + 1 <= pos s') (parseInteger s y (p_valueLB p) (p_valueUB p)).
Proof.
  intros Hs Ho.
  destruct (int_consumes p) eqn:Ei; [|eapply sgood_weaken; [apply adv_refl, Hs|apply parseInteger_good'; assumption|intros; discriminate]].
  destruct y; [eapply sgood_weaken; [apply adv_refl, Hs|apply parseInteger_good'; assumption|intros; discriminate]|].
  unfold int_consumes in Ei. unfold parseInteger.
  destruct (p_valueLB p) as [l|]; [|discriminate]. destruct (p_valueUB p) as [u|]; [|discriminate].
  cbv zeta in Ei. apply andb_prop in Ei as (E1 & E2).
  assert ((i64 (u - l + 1) =? 1)%Z = false) as -> by lia.
  assert (((0 <? i64 (u - l + 1)) && (i64 (u - l + 1) <=? 65536))%Z = true) as -> by lia.
  eapply sgood_bind; [apply parseConstraintValue_good'; assumption|].
  intros v s' Ha (Hp & _). apply sgood_ok; [exact Ha|]. intros _ _. exact Hp.
Qed.

Lemma prim_alloc {A} s2 L C (r : sres A) (mk : A -> val) (Q : dst -> Prop) :
  sgood s2 (fun _ s' => Q s') r -> fspec s2 L C (fun _ s' => Q s') (doa (a, s') <- alift r; aret (mk a, s')).
Proof.
  intros Hr. eapply fspec_bind; [apply fspec_alift; exact Hr|].
  intros a s1 Ha1 Hq. cbv beta iota. apply fspec_aret; [apply adv_refl; apply Ha1|exact Hq].
Qed.

Lemma cons_prefix s s1 s2 s' fl1 fl2 X x y :
  ext_post s fl1 x s1 -> ext_post s1 fl2 y s2 -> adv s s1 -> adv s1 s2 -> adv s2 s' ->
  (X = true -> x = false -> y = false -> pos s2 + 1 <= pos s') -> fl1 || fl2 || X = true -> pos s + 1 <= pos s'.
Proof.
  intros (Hx1 & Hx2) (Hy1 & Hy2) Ha1 Ha2 Ha3 HX.
  destruct (adv_pos_le _ _ Ha1) as (P1 & _). destruct (adv_pos_le _ _ Ha2) as (P2 & _). destruct (adv_pos_le _ _ Ha3) as (P3 & _).
  destruct fl1; [specialize (Hx2 eq_refl); lia|]. destruct fl2; [specialize (Hy2 eq_refl); lia|].
  cbn [orb]. intros ->.
  destruct x; [specialize (Hx1 eq_refl); discriminate|]. destruct y; [specialize (Hy1 eq_refl); discriminate|].
  specialize (HX eq_refl eq_refl eq_refl). lia.
Qed.

Ltac ext2a Hs x s1 Ha1 Hx y s2 Ha2 Hy :=
  eapply fspec_bind; [apply ext_bit_spec; exact Hs|];
  intros x s1 Ha1 Hx; cbv beta iota;
  eapply fspec_bind; [apply ext_bit_spec; apply (adv_dinv _ _ Ha1)|];
  intros y s2 Ha2 Hy; cbv beta iota.

Theorem parseField_alloc : forall fuel t p s, wf_ty t (psize_ok p) = true -> cons_ok t p = true -> dinv s -> octs s ->
  pspec t p s (parseField fuel t p s).
Proof.
  induction fuel as [|f IH]; intros t p s Hw Hc Hs Ho.
  - apply fspec_fail0. exact I.
  - cbn [parseField].
    destruct (d_byteOffset s =? len (d_bytes s)); [apply fspec_fail0; exact I|].
    assert (Hrec : forall t' p' s', (ty_depth t' < ty_depth t)%nat -> wf_ty t' (psize_ok p') = true -> cons_ok t' p' = true ->
                     dinv s' -> octs s' -> pspec t' p' s' (parseField f t' p' s')).
    { intros t' p' s' _ Hw' Hc' Hs' Ho'. apply IH; assumption. }
    unfold pspec.
    destruct t; cbv beta iota; cbn [negb]; rewrite ?andb_true_r, ?andb_false_r.
    + (* TInt *) ext2a Hs x s1 Ha1 Hx y s2 Ha2 Hy.
      eapply fspec_mono; [apply N.le_refl|apply N.le_refl| |apply prim_alloc; apply (parseInteger_cons s2 y p); [apply Ha2|apply (adv_octs _ _ Ha2 (adv_octs _ _ Ha1 Ho))]].
      intros a s' Ha' HX. cbn [consumes]. apply (cons_prefix s s1 s2 s' _ _ _ x y Hx Hy Ha1 Ha2 Ha'). intros H1 _ H3. apply HX; assumption.
    + (* TEnum *) ext2a Hs x s1 Ha1 Hx y s2 Ha2 Hy.
      eapply fspec_mono; [apply N.le_refl|apply N.le_refl| |apply (prim_alloc s2 _ _ _ VEnum (fun _ => True))].
      * intros a s' Ha' _. cbn [consumes]. apply (cons_prefix s s1 s2 s' _ _ _ x y Hx Hy Ha1 Ha2 Ha'). discriminate.
      * eapply sgood_weaken; [apply adv_refl; apply Ha2|apply parseEnumerated_good'; [apply Ha2|apply (adv_octs _ _ Ha2 (adv_octs _ _ Ha1 Ho))]|intros; exact I].
    + (* TBool *) ext2a Hs x s1 Ha1 Hx y s2 Ha2 Hy.
      eapply fspec_mono; [apply N.le_refl|apply N.le_refl| |apply prim_alloc; apply (parseBool_cons s2); apply Ha2].
      intros a s' Ha' HX. cbn [consumes]. apply (cons_prefix s s1 s2 s' _ _ _ x y Hx Hy Ha1 Ha2 Ha'). intros _ _ _. exact HX.
    + (* TBits *) ext2a Hs x s1 Ha1 Hx y s2 Ha2 Hy.
      eapply fspec_bind with (P := fun _ _ => True).
      * apply fspec_alift. eapply sgood_weaken; [apply adv_refl; apply Ha2|apply parseBitString_good; [apply Ha2|apply (adv_octs _ _ Ha2 (adv_octs _ _ Ha1 Ho))|apply psize_ok_spec; exact Hw]|intros; exact I].
      * intros [bs n] s3 Ha3 _. cbv beta iota. apply fspec_aret; [apply adv_refl; apply Ha3|].
        cbn [consumes]. apply (cons_prefix s s1 s2 s3 _ _ _ x y Hx Hy Ha1 Ha2 Ha3). discriminate.
    + (* TOctets *) ext2a Hs x s1 Ha1 Hx y s2 Ha2 Hy.
      eapply fspec_mono; [apply N.le_refl|apply N.le_refl| |apply prim_alloc; apply (parseOctetString_good_gen s2 x (p_sizeLB p) (p_sizeUB p)); [apply Ha2|apply (adv_octs _ _ Ha2 (adv_octs _ _ Ha1 Ho))|apply psize_ok_spec; exact Hw]].
      intros a s' Ha' HX. cbn [consumes]. apply (cons_prefix s s1 s2 s' _ _ _ x y Hx Hy Ha1 Ha2 Ha'). intros H1 _ _. apply HX; assumption.
    + (* TString *) ext2a Hs x s1 Ha1 Hx y s2 Ha2 Hy.
      eapply fspec_mono; [apply N.le_refl|apply N.le_refl| |apply prim_alloc; apply (parseOctetString_good_gen s2 x (p_sizeLB p) (p_sizeUB p)); [apply Ha2|apply (adv_octs _ _ Ha2 (adv_octs _ _ Ha1 Ho))|apply psize_ok_spec; exact Hw]].
      intros a s' Ha' HX. cbn [consumes]. apply (cons_prefix s s1 s2 s' _ _ _ x y Hx Hy Ha1 Ha2 Ha'). intros H1 _ _. apply HX; assumption.
    + (* TOid *) ext2a Hs x s1 Ha1 Hx y s2 Ha2 Hy. apply fspec_fail0. exact I.
    + (* TSlice *)
      eapply fspec_bind; [apply ext_bit_spec; exact Hs|].
      intros x s1 Ha1 Hx; cbv beta iota.
      eapply fspec_bind; [apply (fspec_aret s1 _ _ (fun _ s' => s' = s1)); [apply adv_refl; apply Ha1|reflexivity]|].
      intros y s2 Ha2 Hy; cbv beta iota. cbv beta in Hy. subst s2.
      eapply fspec_mono; [apply N.le_refl|apply N.le_refl| |
        apply (decSequenceOf_alloc (parseField f) (ty_depth (TSlice t)) Hrec t p x s1);
          [cbn [ty_depth]; lia|exact Hw|exact Hc|apply Hx|apply Ha1|apply (adv_octs _ _ Ha1 Ho)]].
      intros a s' Ha' _. cbn [consumes]. intros Hse. destruct Hx as (_ & Hx2). specialize (Hx2 Hse).
      destruct (adv_pos_le _ _ Ha') as (P & _). lia.
    + (* TPtr *)
      eapply fspec_bind; [apply (Hrec t p s); [cbn [ty_depth]; lia|exact Hw|exact Hc|exact Hs|exact Ho]|].
      intros v s1 Ha1 Hp1. cbv beta iota. apply fspec_aret; [apply adv_refl; apply Ha1|exact Hp1].
    + (* TStruct *) ext2a Hs x s1 Ha1 Hx y s2 Ha2 Hy.
      eapply fspec_mono; [apply N.le_refl|apply N.le_refl| |
        apply (decStruct_alloc (parseField f) (ty_depth (TStruct fields)) Hrec fields p y s2);
          [lia|exact Hw|exact Hc|apply Ha2|apply (adv_octs _ _ Ha2 (adv_octs _ _ Ha1 Ho))]].
      intros a s' Ha' HX. rewrite consumes_struct.
      apply (cons_prefix s s1 s2 s' _ _ _ x y Hx Hy Ha1 Ha2 Ha'). intros H1 _ _. apply HX. exact H1.
Qed.

(* ---- UnmarshalWithParams *)
Theorem unmarshal_alloc_bound fuel t p bs :
  wf_ty t (psize_ok p) = true -> cons_ok t p = true -> bytes_ok bs -> len bs < MAXLEN ->
  unmarshal_alloc fuel t p bs <= chain t (count_ub p) + lcoef t * (8 * len bs).
Proof.
  intros Hw Hc Hb Hl. unfold unmarshal_alloc, unmarshal_full.
  assert (Hs : dinv (mkdst bs 0 0)).
  { unfold dinv. cbn [d_bytes d_byteOffset d_bitsOffset]. repeat split; try lia. }
  pose proof (parseField_alloc fuel t p (mkdst bs 0 0) Hw Hc Hs Hb) as H. unfold pspec, fspec in H.
  change (pos (mkdst bs 0 0)) with 0 in H. rewrite !N.sub_0_r in H. cbn [d_bytes] in H.
  destruct (fst (parseField fuel t p (mkdst bs 0 0))) as [[v s']|e|q|]; try exact H.
  destruct H as (Ha & _ & Hn). destruct (adv_pos_le _ _ Ha) as (_ & P). cbn [d_bytes] in P.
  pose proof (N.mul_le_mono_l (pos s') (8 * len bs) (lcoef t) P). lia.
Qed.
