(* C14, part 4: what reflect.MakeSlice reserves during one decoding call (the [ares] counter of Model/AperDec.v).

   Accounting.  A SEQUENCE OF reserves numElements * sizeof(elem) before it parses its elements.
     - A list that completes has parsed numElements elements; when every element consumes at least one bit
       ([consumes], a syntactic criterion checked over the schema) numElements <= bits consumed by the list, so
       the reservation is paid for by input:  alloc <= lcoef t * (bits consumed)   for a successful parseField.
     - When parseField fails, the lists that were open at that moment (at most one per nesting level of the type)
       may have over-claimed: each at most count_ub p * sizeof(elem), whatever the input says, because the count is a
       constrained whole number of at most 16 bits plus the lower bound, or one octet:
                               alloc <= chain t + lcoef t * (bits that were left).
   [chain] is the worst sum of over-claims along one path of the type, [lcoef] the octets reserved per input bit. *)
From Coq Require Import NArith ZArith List Bool Lia Arith String.
From Coq Require Import ZifyN ZifyNat ZifyBool.
Require Import GoSlice AperCommon AperEnc AperDec AperDecProofs AperTotalPrim AperTotalField.
Import ListNotations.
Open Scope N_scope.
Ltac Zify.zify_post_hook ::= Z.div_mod_to_equations.

Local Arguments N.add : simpl never.
Local Arguments N.mul : simpl never.
Local Arguments N.sub : simpl never.
Local Arguments N.div : simpl never.
Local Arguments N.modulo : simpl never.
Local Arguments N.land : simpl never.
Local Arguments N.lor : simpl never.
Local Arguments N.shiftr : simpl never.
Local Arguments N.shiftl : simpl never.
Local Arguments N.pow : simpl never.
Local Arguments N.max : simpl never.

(* ------------------------------------------------------------------------------------------------ *)
(* schema-side quantities *)

(* the largest element count parseSequenceOf can come up with under tag p *)
Definition seq_lb (p : params) : Z := match p_sizeLB p with Some x => if (x <? 65536)%Z then x else 0%Z | None => 0%Z end.
Definition seq_range (p : params) (ext : bool) : Z :=
  match p_sizeUB p with
  | Some ub => if negb ext && (ub <? 65536)%Z then i64 (ub - seq_lb p + 1) else (-1)%Z
  | None => (-1)%Z end.
Definition count_of (p : params) (ext : bool) : N :=
  let sr := seq_range p ext in
  if (1 <? sr)%Z then cv_ub sr + Z.to_N (seq_lb p) else if (sr =? 1)%Z then Z.to_N (seq_lb p) else 255.
Definition count_ub (p : params) : N := N.max (count_of p false) (if p_sizeExt p then 255 else 0).

Fixpoint chain (t : ty) (c : N) : N :=
  match t with
  | TSlice e => c * go_sizeof e + chain e 255
  | TPtr e => chain e c
  | TStruct fs => (fix go (fs : list (string * params * ty)) : N :=
                     match fs with [] => 0 | (_, p, t') :: r => N.max (chain t' (count_ub p)) (go r) end) fs
  | _ => 0
  end.

Fixpoint lcoef (t : ty) : N :=
  match t with
  | TSlice e => go_sizeof e + lcoef e
  | TPtr e => lcoef e
  | TStruct fs => (fix go (fs : list (string * params * ty)) : N :=
                     match fs with [] => 0 | (_, _, t') :: r => N.max (lcoef t') (go r) end) fs
  | _ => 0
  end.

(* a successful parseField of (t, p) consumes at least one bit: sufficient syntactic condition *)
Definition int_consumes (p : params) : bool :=
  match p_valueLB p, p_valueUB p with
  | Some l, Some u => let vr := i64 (u - l + 1) in (1 <? vr)%Z && (vr <=? 65536)%Z
  | _, _ => false
  end.

Fixpoint consumes (t : ty) (p : params) : bool :=
  match t with
  | TPtr e => consumes e p
  | TSlice _ => p_sizeExt p
  | TOid => false
  | _ =>
      p_sizeExt p || p_valueExt p ||
      match t with
      | TBool => true
      | TInt => int_consumes p
      | TOctets | TString => oct_nonempty (p_sizeLB p)
      | TStruct fs =>
          if is_choice fs then negb (p_openType p)
          else (0 <? count_optional fs) ||
               (fix go (fs : list (string * params * ty)) : bool :=
                  match fs with
                  | [] => false
                  | (_, p', t') :: r => (negb (p_optional p') && negb (p_openType p') && consumes t' p') || go r
                  end) fs
      | _ => false
      end
  end.

Fixpoint fields_consume (fs : list field) : bool :=
  match fs with
  | [] => false
  | f :: r => (negb (p_optional (f_params f)) && negb (p_openType (f_params f)) && consumes (f_ty f) (f_params f)) || fields_consume r
  end.

(* every list of the type has elements that consume input *)
Fixpoint cons_ok (t : ty) (p : params) : bool :=
  match t with
  | TSlice e => consumes e (clear_size p) && cons_ok e (clear_size p)
  | TPtr e => cons_ok e p
  | TStruct fs => (fix go (fs : list (string * params * ty)) : bool :=
                     match fs with [] => true | (_, p', t') :: r => cons_ok t' p' && go r end) fs
  | _ => true
  end.

Lemma consumes_struct fs p : consumes (TStruct fs) p =
  (p_sizeExt p || p_valueExt p ||
   (if is_choice fs then negb (p_openType p) else (0 <? count_optional fs) || fields_consume fs)).
Proof.
  cbn [consumes]. f_equal. destruct (is_choice fs); [reflexivity|]. f_equal.
  induction fs as [|[[n p'] t'] r IH]; [reflexivity|].
  cbn [fields_consume f_params f_ty fst snd]. f_equal. exact IH.
Qed.

Lemma cons_ok_struct fs p : cons_ok (TStruct fs) p = true -> Forall (fun f => cons_ok (f_ty f) (f_params f) = true) fs.
Proof.
  cbn [cons_ok]. induction fs as [|[[n p'] t'] r IH]; intros H; [constructor|].
  apply andb_prop in H as (H1 & H2). constructor; [exact H1|apply IH; exact H2].
Qed.

Lemma chain_field fs f c : In f fs -> chain (f_ty f) (count_ub (f_params f)) <= chain (TStruct fs) c.
Proof.
  cbn [chain]. induction fs as [|[[n p'] t'] r IH]; intros Hin; [contradiction|].
  destruct Hin as [<-|Hin]; cbn [f_ty f_params fst snd]; [lia|]. specialize (IH Hin). lia.
Qed.

Lemma lcoef_field fs f : In f fs -> lcoef (f_ty f) <= lcoef (TStruct fs).
Proof.
  cbn [lcoef]. induction fs as [|[[n p'] t'] r IH]; intros Hin; [contradiction|].
  destruct Hin as [<-|Hin]; cbn [f_ty snd]; [lia|]. specialize (IH Hin). lia.
Qed.

(* tags that differ only in the reference value behave alike *)
Definition peq (p q : params) : Prop :=
  p_optional p = p_optional q /\ p_sizeExt p = p_sizeExt q /\ p_valueExt p = p_valueExt q /\ p_openType p = p_openType q /\
  p_sizeLB p = p_sizeLB q /\ p_sizeUB p = p_sizeUB q /\ p_valueLB p = p_valueLB q /\ p_valueUB p = p_valueUB q.

Lemma peq_set_ref p r : peq (set_ref p r) p.
Proof. unfold peq. cbn. repeat split. Qed.
Lemma peq_clear p q : peq p q -> peq (clear_size p) (clear_size q).
Proof. unfold peq. cbn. intros (H1 & H2 & H3 & H4 & H5 & H6 & H7 & H8). repeat split; assumption. Qed.

Lemma consumes_peq t : forall p q, peq p q -> consumes t p = consumes t q.
Proof.
  induction t; intros p q Hpq; pose proof Hpq as (H1 & H2 & H3 & H4 & H5 & H6 & H7 & H8); cbn [consumes];
    unfold int_consumes; rewrite ?H2, ?H3, ?H4, ?H5, ?H7, ?H8; try reflexivity.
  apply IHt. exact Hpq.
Qed.

Lemma cons_ok_peq t : forall p q, peq p q -> cons_ok t p = cons_ok t q.
Proof.
  induction t; intros p q Hpq; cbn [cons_ok]; try reflexivity.
  - rewrite (consumes_peq t _ _ (peq_clear _ _ Hpq)), (IHt _ _ (peq_clear _ _ Hpq)). reflexivity.
  - apply IHt. exact Hpq.
Qed.

Lemma count_ub_set_ref p r : count_ub (set_ref p r) = count_ub p.
Proof. reflexivity. Qed.
Lemma count_ub_clear p : count_ub (clear_size p) = 255.
Proof. reflexivity. Qed.
Lemma psize_ok_set_ref p r : psize_ok (set_ref p r) = psize_ok p.
Proof. reflexivity. Qed.

(* ------------------------------------------------------------------------------------------------ *)
(* specification frame: cursor s0, octets per bit L, over-claim C *)

Definition fspec {A} (s0 : dst) (L C : N) (Q : A -> dst -> Prop) (r : ares (A * dst)) : Prop :=
  match fst r with
  | Ok (a, s') => adv s0 s' /\ Q a s' /\ snd r <= L * (pos s' - pos s0)
  | _ => snd r <= C + L * (8 * len (d_bytes s0) - pos s0)
  end.

Lemma arith1 L a1 a2 p0 p1 p2 : p0 <= p1 -> p1 <= p2 -> a1 <= L * (p1 - p0) -> a2 <= L * (p2 - p1) -> a1 + a2 <= L * (p2 - p0).
Proof.
  intros H01 H12 H1 H2. replace (p2 - p0) with ((p1 - p0) + (p2 - p1)) by lia. rewrite N.mul_add_distr_l. lia.
Qed.
Lemma arith2 L C a1 a2 p0 p1 R : p0 <= p1 -> p1 <= R -> a1 <= L * (p1 - p0) -> a2 <= C + L * (R - p1) -> a1 + a2 <= C + L * (R - p0).
Proof.
  intros H01 H12 H1 H2. replace (R - p0) with ((p1 - p0) + (R - p1)) by lia. rewrite N.mul_add_distr_l. lia.
Qed.
Lemma arith3 L L' x a : L <= L' -> a <= L * x -> a <= L' * x.
Proof. intros H Ha. pose proof (N.mul_le_mono_r L L' x H). lia. Qed.
Lemma arith4 L x y a : x <= y -> a <= L * x -> a <= L * y.
Proof. intros H Ha. pose proof (N.mul_le_mono_l x y L H). lia. Qed.

Lemma adv_pos_le s s' : adv s s' -> pos s <= pos s' /\ pos s' <= 8 * len (d_bytes s).
Proof. intros Ha. pose proof (dinv_pos _ (adv_dinv _ _ Ha)). rewrite (adv_len _ _ Ha) in H. destruct Ha as (_ & _ & Hp). lia. Qed.

Lemma fspec_bind {A B} s0 L C (P : A -> dst -> Prop) (Q : B -> dst -> Prop) (r : ares (A * dst)) (f : A * dst -> ares (B * dst)) :
  fspec s0 L C P r -> (forall a s1, adv s0 s1 -> P a s1 -> fspec s1 L C Q (f (a, s1))) -> fspec s0 L C Q (abind r f).
Proof.
  unfold fspec. destruct r as [[[a s1]|e|q|] n]; cbn [fst snd abind]; auto.
  intros (Ha & HP & Hn) Hf. specialize (Hf a s1 Ha HP).
  destruct (f (a, s1)) as [r' m]. cbn [fst snd] in *.
  destruct (adv_pos_le _ _ Ha) as (P01 & P1R).
  destruct r' as [[b s2]|e|q|].
  - destruct Hf as (Ha2 & HQ & Hm). destruct (adv_pos_le _ _ Ha2) as (P12 & _).
    split; [apply (adv_trans _ _ _ Ha Ha2)|]. split; [exact HQ|]. apply (arith1 L n m _ (pos s1)); assumption.
  - rewrite (adv_len _ _ Ha) in Hf. apply (arith2 L C n m _ (pos s1)); assumption.
  - rewrite (adv_len _ _ Ha) in Hf. apply (arith2 L C n m _ (pos s1)); assumption.
  - rewrite (adv_len _ _ Ha) in Hf. apply (arith2 L C n m _ (pos s1)); assumption.
Qed.

Lemma fspec_alift {A} s0 L C (Q : A -> dst -> Prop) (r : sres A) : sgood s0 Q r -> fspec s0 L C Q (alift r).
Proof.
  unfold fspec. destruct r as [[a|e|q|] s]; cbn [sgood alift fst snd]; try (intros; apply N.le_0_l).
  intros (Ha & HQ). split; [exact Ha|]. split; [exact HQ|apply N.le_0_l].
Qed.

Lemma fspec_aret {A} s0 L C (Q : A -> dst -> Prop) a s : adv s0 s -> Q a s -> fspec s0 L C Q (aret (a, s)).
Proof. intros Ha HQ. unfold fspec. cbn [aret fst snd]. split; [exact Ha|]. split; [exact HQ|apply N.le_0_l]. Qed.

Lemma fspec_fail0 {A} s0 L C (Q : A -> dst -> Prop) (x : res (A * dst)) :
  match x with Ok _ => False | _ => True end -> fspec s0 L C Q (x, 0).
Proof. unfold fspec. cbn [fst snd]. destruct x; try contradiction; intros _; apply N.le_0_l. Qed.

Lemma fspec_mono {A} s0 L L' C C' (Q Q' : A -> dst -> Prop) r :
  L <= L' -> C <= C' -> (forall a s', adv s0 s' -> Q a s' -> Q' a s') -> fspec s0 L C Q r -> fspec s0 L' C' Q' r.
Proof.
  intros HL HC HQ. unfold fspec. destruct (fst r) as [[a s']|e|q|].
  - intros (Ha & Hq & Hn). split; [exact Ha|]. split; [apply HQ; assumption|]. apply (arith3 L L'); assumption.
  - intros Hn. pose proof (N.mul_le_mono_r L L' (8 * len (d_bytes s0) - pos s0) HL). lia.
  - intros Hn. pose proof (N.mul_le_mono_r L L' (8 * len (d_bytes s0) - pos s0) HL). lia.
  - intros Hn. pose proof (N.mul_le_mono_r L L' (8 * len (d_bytes s0) - pos s0) HL). lia.
Qed.

Lemma fspec_from {A} s0 s1 L C (Q : A -> dst -> Prop) r : adv s0 s1 -> fspec s1 L C Q r -> fspec s0 L C Q r.
Proof.
  intros Ha. destruct (adv_pos_le _ _ Ha) as (P01 & P1R). unfold fspec. rewrite (adv_len _ _ Ha).
  destruct (fst r) as [[a s']|e|q|].
  - intros (Ha' & Hq & Hn). split; [apply (adv_trans _ _ _ Ha Ha')|]. split; [exact Hq|].
    apply (arith4 L (pos s' - pos s1)); [lia|exact Hn].
  - intros Hn. pose proof (N.mul_le_mono_l (8 * len (d_bytes s0) - pos s1) (8 * len (d_bytes s0) - pos s0) L). lia.
  - intros Hn. pose proof (N.mul_le_mono_l (8 * len (d_bytes s0) - pos s1) (8 * len (d_bytes s0) - pos s0) L). lia.
  - intros Hn. pose proof (N.mul_le_mono_l (8 * len (d_bytes s0) - pos s1) (8 * len (d_bytes s0) - pos s0) L). lia.
Qed.

(* a step that produces no cursor (tag computation): never reserves anything *)
Lemma fspec_abind0 {A B} s0 L C (Q : B -> dst -> Prop) (r : ares A) (f : A -> ares (B * dst)) :
  snd r = 0 -> (forall a, fst r = Ok a -> fspec s0 L C Q (f a)) -> fspec s0 L C Q (abind r f).
Proof.
  destruct r as [[a|e|q|] n]; cbn [fst snd abind]; intros -> Hf; try (apply fspec_fail0; exact I).
  specialize (Hf a eq_refl). destruct (f a) as [r' m]. unfold fspec in *. cbn [fst snd] in *.
  rewrite N.add_0_l. exact Hf.
Qed.

(* the extension-bit prefix of parseField *)
Definition ext_post (s : dst) (flag : bool) : bool -> dst -> Prop :=
  fun b s' => (b = true -> flag = true) /\ (flag = true -> pos s + 1 <= pos s').

Lemma ext_bit_spec L C (flag : bool) s : dinv s ->
  fspec s L C (ext_post s flag)
    (if flag then alift (dos (b, s) <- getBitsValue s 1; (Ok (negb (b =? 0)), s)) else aret (false, s)).
Proof.
  intros Hs. destruct flag.
  - apply fspec_alift. eapply sgood_bind; [apply getBitsValue_good', Hs|].
    intros v s' Ha (Hp & _). apply sgood_ok; [exact Ha|]. split; [reflexivity|]. intros _. lia.
  - apply fspec_aret; [apply adv_refl, Hs|]. split; intros; discriminate.
Qed.
