(* The hypotheses of the C06 / C10 theorems discharged for the algorithms the Go code actually calls
   (Model/Security.v nas_encrypt / nas_mac) by C07's theorems: nas_mac_len4 (Proofs/SecNia1.v, = c07_mac_length)
   and nas_encrypt_involutive (Proofs/SecProofs.v, = c07_cipher_involutive). *)
From Coq Require Import NArith ZArith Lia Bool List.
Require Import Bytes AES Modes Snow3gTables Snow3g Security Snow3gSpec TS33401B Snow3gBits Snow3gProofs SecAesLen SecProofs SecNia1.
Require Import Count NasSec RefNasPeer CountProofs NasSecProofs.
Import ListNotations.
Open Scope N_scope.

(* plain messages short enough that uint32(len)*8+31 does not wrap inside NEA1 (C07's bound) *)
Definition short_enough (p:list N) : Prop := N.of_nat (length p) < 536870909.

Lemma go_mac_len4 ia kint : ia = 1 \/ ia = 2 ->
  forall c d m t, nas_mac ia kint c 1 d m = Some t -> length t = 4%nat.
Proof. intros Hia c d m t H. exact (nas_mac_len4 ia kint c 1 d m t H Hia). Qed.

Lemma go_enc_inv ea kenc : key_ok kenc = true -> ea <= 2 ->
  forall c d p q, short_enough p -> nas_encrypt ea kenc c 1 d p = Some q -> nas_encrypt ea kenc c 1 d q = Some p.
Proof.
  intros Hk Hea c d p q Hp H.
  destruct (N.lt_ge_cases d 2) as [Hd|Hd].
  - apply (nas_encrypt_involutive ea kenc c 1 d p q); try assumption. lia.
  - assert (Hr : 2 < ea \/ 31 < 1 \/ 1 < d) by (right; right; lia).
    rewrite (nas_encrypt_refused ea kenc c 1 d p Hr) in H. discriminate.
Qed.

(* C06 (d) for the Go algorithms *)
Theorem ul_history_received_go ctx :
  key_ok (c_kenc ctx) = true -> c_ea ctx <= 2 -> c_ia ctx = 1 \/ c_ia ctx = 2 ->
  forall (ops:ul_ops) next,
    next < 16777216 -> Forall hdr_ok ops -> Forall (plain_ok_op short_enough) ops ->
    all_some (fst (ul_history nas_encrypt nas_mac ctx next ops)) ->
    ul_receive_history nas_encrypt nas_mac ctx next
      (combine (map unsome (fst (ul_history nas_encrypt nas_mac ctx next ops))) (map (fun o => snd o) ops))
    = (ul_accepts next ops, snd (ul_history nas_encrypt nas_mac ctx next ops)).
Proof.
  intros Hk Hea Hia. apply (ul_history_received nas_encrypt nas_mac ctx short_enough).
  - apply go_mac_len4. assumption.
  - apply go_enc_inv; assumption.
Qed.

(* C10 (c) for the Go algorithms *)
Theorem dl_history_recovered_go (ops:dl_ops) st :
  wf st -> key_ok (kenc st) = true -> ea st <= 2 -> ia st = 1 \/ ia st = 2 ->
  Forall (dl_op_ok short_enough) ops ->
  let sent := dl_history nas_encrypt nas_mac (ctx_of st) (dl st) ops in
  all_some (map snd sent) ->
  hrun nas_encrypt nas_mac st (map (fun x => HRecv (unsome (snd x))) sent) = dl_expected (ul st) ops sent.
Proof.
  intros Hwf Hk Hea Hia Hok.
  apply (dl_history_recovered nas_encrypt nas_mac short_enough ops st Hwf); try assumption.
  - destruct Hia as [->| ->]; discriminate.
  - apply go_mac_len4. assumption.
  - apply go_enc_inv; assumption.
Qed.
