(* C07, SNOW 3G part: the tables of snow3g.go are the algebraically defined S-boxes; the state-passing model of
   package snow3g computes the keystream of the specification; InitSnow3g forgets the previous state. *)
From Coq Require Import NArith ZArith List Lia Bool.
From Coq Require Import ZifyN ZifyNat ZifyBool.
Require Import Bytes Snow3gTables Snow3g Snow3gSpec Snow3gBits.
Import ListNotations.
Open Scope N_scope.
Ltac Zify.zify_post_hook ::= Z.div_mod_to_equations.

(* ---- (a) the tables carried by the code, entry by entry (the domain is finite: this is a proof, not a sample) *)
Lemma sr_table_is_S_R : sr_table = map S_R_alg (map N.of_nat (seq 0 256)).
Proof. vm_compute. reflexivity. Qed.
Lemma sq_table_is_S_Q : sq_table = map S_Q_alg (map N.of_nat (seq 0 256)).
Proof. vm_compute. reflexivity. Qed.

Lemma sr_table_spec : sr_table = S_R_table.
Proof. vm_compute. reflexivity. Qed.
Lemma sq_table_spec : sq_table = S_Q_table.
Proof. vm_compute. reflexivity. Qed.
Lemma sr_is_S_R x : sr x = S_R x.
Proof. unfold sr, S_R. rewrite sr_table_spec. reflexivity. Qed.
Lemma sq_is_S_Q x : sq x = S_Q x.
Proof. unfold sq, S_Q. rewrite sq_table_spec. reflexivity. Qed.

Lemma table_lt (t:list N) : forallb (fun v => v <? 256) t = true -> forall i, nth i t 0 < 256.
Proof.
  intros H i. rewrite forallb_forall in H. destruct (Nat.lt_ge_cases i (length t)) as [Hi|Hi].
  - specialize (H (nth i t 0) (nth_In t 0 Hi)). lia.
  - rewrite nth_overflow by exact Hi. lia.
Qed.
Lemma sr_lt x : sr x < 256.
Proof. unfold sr. apply table_lt. vm_compute. reflexivity. Qed.
Lemma sq_lt x : sq x < 256.
Proof. unfold sq. apply table_lt. vm_compute. reflexivity. Qed.

(* ---- octet-level functions *)
Lemma mulx_MULx V c : V < 256 -> mulx V c = MULx V c.
Proof.
  intro HV.
  assert (H : (Bool.eqb (negb (N.land V 128 =? 0)) (128 <=? V) && (w8 (N.shiftl V 1) =? shl8 V)) = true).
  { revert V HV. apply (byte_check (fun V => Bool.eqb (negb (N.land V 128 =? 0)) (128 <=? V) && (w8 (N.shiftl V 1) =? shl8 V))).
    vm_compute. reflexivity. }
  apply andb_true_iff in H. destruct H as [H1 H2]. apply Bool.eqb_prop in H1. apply N.eqb_eq in H2.
  unfold mulx, MULx. rewrite H1, H2. reflexivity.
Qed.
Lemma mulx_lt V c : c < 256 -> mulx V c < 256.
Proof.
  intro Hc. unfold mulx. assert (H : w8 (N.shiftl V 1) < 256) by (rewrite w8_mod; lia).
  destruct (negb (N.land V 128 =? 0)); [apply lxor_lt_256; assumption | exact H].
Qed.
Lemma mulxPow_lt V i c : V < 256 -> c < 256 -> mulxPow V i c < 256.
Proof. intros HV Hc. destruct i as [|i]; cbn [mulxPow]; [exact HV | apply mulx_lt, Hc]. Qed.
Lemma mulxPow_MULxPOW V i c : V < 256 -> c < 256 -> mulxPow V i c = MULxPOW V i c.
Proof.
  intros HV Hc. induction i as [|i IH]; cbn [mulxPow MULxPOW]; [reflexivity|].
  rewrite <- IH. apply mulx_MULx. apply mulxPow_lt; assumption.
Qed.

Lemma lor_shiftl_add x y n : y < 2 ^ n -> N.lor (N.shiftl x n) y = x * 2 ^ n + y.
Proof. intro H. rewrite shiftl_mul. apply lor_mul_pow2_add, H. Qed.
Lemma w32_shiftl_small x n : x * 2 ^ n < 4294967296 -> w32 (N.shiftl x n) = N.shiftl x n.
Proof. intro H. rewrite w32_mod, shiftl_mul. apply N.mod_small, H. Qed.
Lemma pack_cat4 a b c d : a < 256 -> b < 256 -> c < 256 -> d < 256 -> pack a b c d = cat4 a b c d.
Proof.
  intros Ha Hb Hc Hd. unfold pack, cat4, two8.
  rewrite (w32_shiftl_small a 24) by (change (2 ^ 24) with 16777216; lia).
  rewrite (w32_shiftl_small b 16) by (change (2 ^ 16) with 65536; lia).
  rewrite (w32_shiftl_small c 8) by (change (2 ^ 8) with 256; lia).
  assert (E1 : N.lor (N.shiftl c 8) d = c * 256 + d).
  { rewrite lor_shiftl_add by (change (2 ^ 8) with 256; lia). reflexivity. }
  assert (E2 : N.lor (N.shiftl b 16) (c * 256 + d) = b * 65536 + (c * 256 + d)).
  { rewrite lor_shiftl_add by (change (2 ^ 16) with 65536; lia). reflexivity. }
  assert (E3 : N.lor (N.shiftl a 24) (b * 65536 + (c * 256 + d)) = a * 16777216 + (b * 65536 + (c * 256 + d))).
  { rewrite lor_shiftl_add by (change (2 ^ 24) with 16777216; lia). reflexivity. }
  rewrite <- !N.lor_assoc. rewrite E1, E2, E3. lia.
Qed.
Lemma cat4_lt a b c d : a < 256 -> b < 256 -> c < 256 -> d < 256 -> cat4 a b c d < 4294967296.
Proof. intros. unfold cat4, two8. lia. Qed.

Lemma xor5_lt a b c d e : a < 256 -> b < 256 -> c < 256 -> d < 256 -> e < 256 -> xor5 a b c d e < 256.
Proof. intros. unfold xor5. repeat apply lxor_lt_256; assumption. Qed.

(* S1, S2: the Go code and the specification use the same column mixing over their S-box *)
Lemma smix_eq (sb:N -> N) (SB:N -> N) c w :
  (forall x, sb x = SB x) -> (forall x, sb x < 256) -> c < 256 ->
  (let w0 := N.land (N.shiftr w 24) 255 in
   let w1 := N.land (N.shiftr w 16) 255 in
   let w2 := N.land (N.shiftr w 8) 255 in
   let w3 := N.land w 255 in
   pack (xor5 (mulx (sb w0) c) (sb w1) (sb w2) (mulx (sb w3) c) (sb w3))
        (xor5 (mulx (sb w0) c) (sb w0) (mulx (sb w1) c) (sb w2) (sb w3))
        (xor5 (sb w0) (mulx (sb w1) c) (sb w1) (mulx (sb w2) c) (sb w3))
        (xor5 (sb w0) (sb w1) (mulx (sb w2) c) (sb w2) (mulx (sb w3) c)))
  = Smix SB c w.
Proof.
  intros Heq Hlt Hc. cbv zeta.
  rewrite pack_cat4 by (apply xor5_lt; (apply Hlt || apply mulx_lt, Hc)).
  unfold Smix. cbv zeta.
  change (octet w 0) with (N.land (N.shiftr w 24) 255).
  change (octet w 1) with (N.land (N.shiftr w 16) 255).
  change (octet w 2) with (N.land (N.shiftr w 8) 255).
  change (octet w 3) with (N.land (N.shiftr w 0) 255). rewrite N.shiftr_0_r.
  rewrite !(mulx_MULx _ c) by apply Hlt. rewrite !Heq. reflexivity.
Qed.
Lemma s1_is_S1 w : s1 w = S1 w.
Proof. unfold s1, S1. apply (smix_eq sr S_R 27 w sr_is_S_R sr_lt). lia. Qed.
Lemma s2_is_S2 w : s2 w = S2 w.
Proof. unfold s2, S2. apply (smix_eq sq S_Q 105 w sq_is_S_Q sq_lt). lia. Qed.

(* MULalpha / DIValpha are functions of one octet: compared on all 256 *)
Lemma mulAlpha_is_MULalpha c : c < 256 -> mulAlpha c = MULalpha c.
Proof.
  intro H. apply N.eqb_eq. revert c H. apply (byte_check (fun c => mulAlpha c =? MULalpha c)). vm_compute. reflexivity.
Qed.
Lemma divAlpha_is_DIValpha c : c < 256 -> divAlpha c = DIValpha c.
Proof.
  intro H. apply N.eqb_eq. revert c H. apply (byte_check (fun c => divAlpha c =? DIValpha c)). vm_compute. reflexivity.
Qed.

(* ---- (b) state-passing model = pure specification *)
Definition abs (st:state) : snow :=
  let a := lfsr st in
  {| S_lfsr := [l0 a; l1 a; l2 a; l3 a; l4 a; l5 a; l6 a; l7 a; l8 a; l9 a; l10 a; l11 a; l12 a; l13 a; l14 a; l15 a];
     S_R1 := r0 (fsm st); S_R2 := r1 (fsm st); S_R3 := r2 (fsm st) |}.

Lemma abs_sx st i : (i < 16)%nat -> sx (abs st) i = s_ st i.
Proof.
  intro H. destruct st as [a f]. unfold sx, s_, abs. cbn [Snow3g.lfsr S_lfsr].
  do 16 (destruct i as [|i]; [reflexivity|]). lia.
Qed.

Lemma clockFsm_abs st :
  ClockFSM (abs st) = (abs (fst (clockFsm st (s_ st 15) (s_ st 5))), snd (clockFsm st (s_ st 15) (s_ st 5))).
Proof.
  unfold ClockFSM, clockFsm. rewrite !abs_sx by lia.
  destruct st as [a [q0 q1 q2]]. cbn [fst snd]. unfold abs, set_r, r_, add32, two32.
  cbn [Snow3g.lfsr Snow3g.fsm rget rset r0 r1 r2 S_R1 S_R2 S_R3 S_lfsr].
  rewrite !w32_mod, s1_is_S1, s2_is_S2. reflexivity.
Qed.

Lemma lfsr_v_abs st : lfsr_v st = lfsr_feedback (abs st).
Proof.
  unfold lfsr_v, lfsr_feedback. rewrite !abs_sx by lia.
  rewrite mulAlpha_is_MULalpha by apply land255_lt.
  rewrite divAlpha_is_DIValpha by (rewrite w8_mod; lia).
  change (octet (s_ st 0) 0) with (N.land (N.shiftr (s_ st 0) 24) 255).
  change (octet (s_ st 11) 3) with (N.land (N.shiftr (s_ st 11) 0) 255). rewrite N.shiftr_0_r.
  assert (E1 : N.land (w8 (N.shiftr (s_ st 0) 24)) 255 = N.land (N.shiftr (s_ st 0) 24) 255).
  { unfold w8. rewrite <- N.land_assoc. reflexivity. }
  assert (E2 : w8 (N.land (s_ st 11) 255) = N.land (s_ st 11) 255).
  { unfold w8. rewrite <- N.land_assoc. reflexivity. }
  rewrite E1, E2, w32_mod, shiftl_mul, !shiftr_div. reflexivity.
Qed.

Lemma lfsr_shift_abs st v :
  abs (lfsr_shift st v) = {| S_lfsr := tl (S_lfsr (abs st)) ++ [v]; S_R1 := S_R1 (abs st); S_R2 := S_R2 (abs st); S_R3 := S_R3 (abs st) |}.
Proof. destruct st as [[a0 a1 a2 a3 a4 a5 a6 a7 a8 a9 a10 a11 a12 a13 a14 a15] f]. reflexivity. Qed.

Lemma lfsrInit_abs st F : abs (lfsrInitialisationMode st F) = ClockLFSR (abs st) F.
Proof. unfold lfsrInitialisationMode, ClockLFSR. rewrite lfsr_shift_abs, lfsr_v_abs. reflexivity. Qed.
Lemma lfsrKeystream_abs st : abs (lfsrKeystreamMode st) = ClockLFSR (abs st) 0.
Proof. unfold lfsrKeystreamMode, ClockLFSR. rewrite lfsr_shift_abs, lfsr_v_abs, N.lxor_0_r. reflexivity. Qed.

(* the part of InitSnow3g before the 32 rounds assigns every element of lfsr.s and fsm.r *)
Definition loaded (k iv:list N) : state :=
  let k_ i := nth i k 0 in let iv_ i := nth i iv 0 in
  mkState (mkLfsr (N.lxor (k_ 0%nat) ffff) (N.lxor (k_ 1%nat) ffff) (N.lxor (k_ 2%nat) ffff) (N.lxor (k_ 3%nat) ffff)
                  (k_ 0%nat) (k_ 1%nat) (k_ 2%nat) (k_ 3%nat)
                  (N.lxor (k_ 0%nat) ffff) (N.lxor (N.lxor (k_ 1%nat) ffff) (iv_ 3%nat)) (N.lxor (N.lxor (k_ 2%nat) ffff) (iv_ 2%nat)) (N.lxor (k_ 3%nat) ffff)
                  (N.lxor (k_ 0%nat) (iv_ 1%nat)) (k_ 1%nat) (k_ 2%nat) (N.lxor (k_ 3%nat) (iv_ 0%nat)))
          (mkFsm 0 0 0).
Definition init_step (st:state) : state :=
  let '(st, F) := clockFsm st (s_ st 15) (s_ st 5) in lfsrInitialisationMode st F.

Lemma InitSnow3g_loaded st k iv :
  InitSnow3g st k iv = fold_left (fun st (_:nat) => init_step st) (seq 0 32) (loaded k iv).
Proof.
  destruct st as [[a0 a1 a2 a3 a4 a5 a6 a7 a8 a9 a10 a11 a12 a13 a14 a15] [q0 q1 q2]]. reflexivity.
Qed.

(* (f) the result of InitSnow3g does not depend on what the package variables held before *)
Lemma InitSnow3g_state_independent st st' k iv : InitSnow3g st k iv = InitSnow3g st' k iv.
Proof. rewrite !InitSnow3g_loaded. reflexivity. Qed.

Lemma loaded_abs k iv : abs (loaded k iv) = snow_load k iv.
Proof. reflexivity. Qed.

Lemma init_step_abs st : abs (init_step st) = init_round (abs st).
Proof.
  unfold init_step, init_round. rewrite clockFsm_abs.
  destruct (clockFsm st (s_ st 15) (s_ st 5)) as [st1 F]. cbn [fst snd]. apply lfsrInit_abs.
Qed.

Lemma iter_swap {A} (f:A -> A) n x : Nat.iter n f (f x) = f (Nat.iter n f x).
Proof. induction n as [|n IH]; [reflexivity|]. change (f (Nat.iter n f (f x)) = f (f (Nat.iter n f x))). f_equal. exact IH. Qed.
Lemma fold_iter {A} (f:A -> A) (n a:nat) (x:A) : fold_left (fun y (_:nat) => f y) (seq a n) x = Nat.iter n f x.
Proof.
  revert a x; induction n as [|n IH]; intros a x; [reflexivity|].
  cbn [seq fold_left]. rewrite IH. apply iter_swap.
Qed.
Lemma iter_abs n st : abs (Nat.iter n init_step st) = Nat.iter n init_round (abs st).
Proof.
  induction n as [|n IH]; [reflexivity|].
  change (abs (init_step (Nat.iter n init_step st)) = init_round (Nat.iter n init_round (abs st))).
  rewrite init_step_abs, IH. reflexivity.
Qed.

Lemma InitSnow3g_abs st k iv : abs (InitSnow3g st k iv) = snow_init k iv.
Proof. rewrite InitSnow3g_loaded, fold_iter, iter_abs, loaded_abs. reflexivity. Qed.

Lemma gen_loop_abs n st : snd (gen_loop n st) = snow_words n (abs st).
Proof.
  revert st; induction n as [|n IH]; intro st; [reflexivity|].
  cbn [gen_loop snow_words]. rewrite clockFsm_abs.
  destruct (clockFsm st (s_ st 15) (s_ st 5)) as [st1 F]. cbn [fst snd].
  specialize (IH (lfsrKeystreamMode st1)). destruct (gen_loop n (lfsrKeystreamMode st1)) as [st2 zs]. cbn [snd] in *.
  rewrite abs_sx by lia. rewrite IH, lfsrKeystream_abs. reflexivity.
Qed.

Lemma GenerateKeystream_abs st n :
  snd (GenerateKeystream st n) = (let '(s, _) := ClockFSM (abs st) in snow_words n (ClockLFSR s 0)).
Proof.
  unfold GenerateKeystream. rewrite clockFsm_abs.
  destruct (clockFsm st (s_ st 15) (s_ st 5)) as [st1 F]. cbn [fst snd].
  rewrite gen_loop_abs, lfsrKeystream_abs. reflexivity.
Qed.

(* (b) for every previous state, key, IV and number of words *)
Theorem snow3g_model_is_spec st k iv n :
  snd (GenerateKeystream (InitSnow3g st k iv) n) = snow3g_keystream k iv n.
Proof. rewrite GenerateKeystream_abs, InitSnow3g_abs. reflexivity. Qed.

Lemma gen_loop_length n st : length (snd (gen_loop n st)) = n.
Proof.
  revert st; induction n as [|n IH]; intro st; [reflexivity|]. cbn [gen_loop].
  destruct (clockFsm st (s_ st 15) (s_ st 5)) as [st1 F].
  specialize (IH (lfsrKeystreamMode st1)). destruct (gen_loop n (lfsrKeystreamMode st1)) as [st2 zs]. cbn [snd length] in *. lia.
Qed.
Lemma GenerateKeystream_length st n : length (snd (GenerateKeystream st n)) = n.
Proof.
  unfold GenerateKeystream. destruct (clockFsm st (s_ st 15) (s_ st 5)) as [st1 F]. apply gen_loop_length.
Qed.
Lemma snow3g_keystream_length k iv n : length (snow3g_keystream k iv n) = n.
Proof. rewrite <- (snow3g_model_is_spec zero_state). apply GenerateKeystream_length. Qed.
