From Coq Require Import List String Bool Arith ZArith Lia.
Require Import DriverTypes DriverConv ConfigDoc Config Lifecycle ConfigLoops ConfTags MainWiring LifecycleProofs.
Import ListNotations.
Open Scope string_scope.

Lemma repetitions_conform :
  forallb (repetitions_ok conf_tags wiring_mode2) documented_repetitions_test_mode = true.
Proof. vm_compute. reflexivity. Qed.

Lemma same_set_in a b : same_set a b = true -> forall x, In x a <-> In x b.
Proof.
  unfold same_set. intros H x. apply andb_true_iff in H. destruct H as [H1 H2].
  rewrite forallb_forall in H1, H2. split; intro Hx.
  - specialize (H1 x Hx). apply existsb_exists in H1. destruct H1 as [y [Hy E]]. apply String.eqb_eq in E. subst y. exact Hy.
  - specialize (H2 x Hx). apply existsb_exists in H2. destruct H2 as [y [Hy E]]. apply String.eqb_eq in E. subst y. exact Hy.
Qed.

(* generic: conformance gives, for EVERY configuration, a repetition count equal to the minimum of the documented fields *)
Theorem repetitions_exact tags w proc keys fs (c:cfgmap) :
  repetitions_ok tags w (proc, keys) = true -> fields_of_keys tags keys = Some fs ->
  exists b n, loop_bound w proc = Some b /\ eval_bound c b = Some n /\ is_min_of c fs n.
Proof.
  unfold repetitions_ok. intros H Hf. rewrite Hf in H.
  destruct (loop_bound w proc) as [b|]; [|discriminate].
  destruct (bound_leaves b) as [l|] eqn:Hl; [|discriminate].
  assert (He : exists n, eval_bound c b = Some n).
  { clear H. revert l Hl. induction b as [f|x IHx y IHy|s|s]; intros l Hl; cbn [bound_leaves eval_bound] in *; try discriminate.
    - eexists; reflexivity.
    - destruct (bound_leaves x) as [lx|]; [|discriminate]. destruct (bound_leaves y) as [ly|]; [|discriminate].
      destruct (IHx lx eq_refl) as [a ->]. destruct (IHy ly eq_refl) as [d ->]. eexists; reflexivity. }
  destruct He as [n He]. exists b, n. split; [reflexivity|]. split; [exact He|].
  destruct (eval_le_leaves c b n l He Hl) as [A [f [Hin Heq]]].
  pose proof (same_set_in l fs H) as S. split.
  - intros g Hg. apply A, S, Hg.
  - exists f. split; [apply S, Hin | exact Heq].
Qed.

(* instantiated on the regenerated wiring: the five test-mode loops *)
Theorem test_mode_repetitions (c:cfgmap) :
  forall proc keys, In (proc, keys) documented_repetitions_test_mode ->
  exists fs b n, fields_of_keys conf_tags keys = Some fs /\ loop_bound wiring_mode2 proc = Some b /\
                 eval_bound c b = Some n /\ is_min_of c fs n.
Proof.
  intros proc keys Hin.
  pose proof repetitions_conform as R. rewrite forallb_forall in R. specialize (R _ Hin).
  assert (Hf : exists fs, fields_of_keys conf_tags keys = Some fs).
  { unfold repetitions_ok in R. destruct (loop_bound wiring_mode2 proc); [|discriminate].
    destruct (fields_of_keys conf_tags keys) as [fs|]; [eexists; reflexivity | discriminate]. }
  destruct Hf as [fs Hf]. destruct (repetitions_exact conf_tags wiring_mode2 proc keys fs c R Hf) as [b [n [Hb [He Hm]]]].
  exists fs, b, n. repeat split; try assumption; apply Hm.
Qed.
