(* Structural C03 theorem, part 2: SEQUENCE OF (count + elements), the OPTIONAL bitmap of a SEQUENCE
   (opt_pass / the bit tests of seq_loop against the X.691 preamble). *)
From Coq Require Import String NArith ZArith List Bool Lia Arith.
From Coq Require Import ZifyN ZifyNat ZifyBool.
Require Import GoSlice Bits AperCommon AperEnc AperDec Asn1 X691 Asn1Tags AperBits AperBitsGet AperBitsPut AperEncProofs
        AperStructPrim AperStructStr AperStructBits AperStructDefs AperStructLeaf.
Import ListNotations.
Open Scope N_scope.
Ltac Zify.zify_post_hook ::= Z.div_mod_to_equations.
Local Arguments N.add : simpl never.
Local Arguments N.mul : simpl never.
Local Arguments N.sub : simpl never.
Local Arguments N.div : simpl never.
Local Arguments N.modulo : simpl never.
Local Arguments N.land : simpl never.
Local Arguments N.lor : simpl never.
Local Arguments N.shiftr : simpl never.
Local Arguments N.shiftl : simpl never.
Local Arguments N.pow : simpl never.

(* ---------------------------------------------------------------- SEQUENCE OF *)
Definition enc_elems (rec : ty -> params -> val -> est -> res est) (e : ty) (p' : params) :=
  fix elems (l : list val) (s : est) : res est :=
    match l with [] => Ok s | x :: r => do s' <- rec e p' x s; elems r s' end.

Lemma seqof_emits rec e p l s bl pre rest lb ub :
  p_sizeLB p = Some lb -> p_sizeUB p = Some ub -> slice_ok p (len l) = true ->
  size_prefix (Z.to_N lb) (Some (Z.to_N ub)) (p_sizeExt p) (len l) (length bl) = XOk pre ->
  small (bl ++ pre) -> repr s bl ->
  (forall s1, repr s1 (bl ++ pre) -> emits (enc_elems rec e (clear_size p) l s1) (bl ++ pre) rest) ->
  emits (encSequenceOf rec e p l s) bl (pre ++ rest).
Proof.
  intros Hlb Hub Hok Hx Hsm Hr Hel. unfold encSequenceOf. rewrite Hlb, Hub.
  unfold slice_ok in Hok. rewrite Hlb, Hub in Hok. bools.
  assert ((lb <? 65536)%Z = true) as -> by lia. assert ((ub <? 65536)%Z = true) as -> by lia.
  fold (enc_elems rec e (clear_size p)).
  unfold size_prefix, size_inroot in Hx. assert (Z.to_N ub <? 65536 = true) as Eu by lia. rewrite Eu in Hx.
  set (n := len l) in *. assert (Hn : Z.of_nat (length l) = Z.of_N n) by (unfold n, len; lia). rewrite Hn.
  destruct ((Z.to_N lb <=? n) && (n <=? Z.to_N ub)) eqn:Ein.
  2:{ cbn [negb andb] in Hx. rewrite andb_true_r in Hx. destruct (p_sizeExt p); [cbn [negb orb] in *; congruence|discriminate]. }
  bools. cbn [negb] in Hx. rewrite andb_false_r in Hx.
  rewrite i64_small by lia.
  set (pre0 := if p_sizeExt p then [false] else @nil bool) in *.
  assert (Hp0 : exists L, pre = pre0 ++ L /\
            (if Z.to_N lb =? Z.to_N ub then XOk [] else cwn (Z.to_N ub - Z.to_N lb + 1) (n - Z.to_N lb) (length (bl ++ pre0))) = XOk L).
  { rewrite app_length. destruct (if Z.to_N lb =? Z.to_N ub then XOk [] else cwn (Z.to_N ub - Z.to_N lb + 1) (n - Z.to_N lb) (length bl + length pre0)) as [L| |];
      cbn [xbind] in Hx; try discriminate. injection Hx as <-. eauto. }
  destruct Hp0 as (L & -> & HL).
  assert (HH1 : exists s1, (if p_sizeExt p
                 then if (ub <? Z.of_N n)%Z then do s0 <- putBitsValue s 1 1; Ok (s0, ub, (-1)%Z) else do s0 <- putBitsValue s 0 1; Ok (s0, ub, (ub - lb + 1)%Z)
                 else if (ub <? Z.of_N n)%Z then Err E_SEQOF_LARGE else Ok (s, ub, (ub - lb + 1)%Z)) = Ok (s1, ub, (ub - lb + 1)%Z) /\ repr s1 (bl ++ pre0)).
  { assert ((ub <? Z.of_N n)%Z = false) as -> by lia. subst pre0. destruct (p_sizeExt p).
    - destruct (put1_emits s bl false Hr) as (s1 & E & R); [smallt|]. cbv iota in E. rewrite E. cbn [bind]. eauto.
    - exists s. rewrite app_nil_r. auto. }
  destruct HH1 as (s1 & E1 & R1). rewrite E1. cbn [bind].
  assert ((Z.of_N n <? lb)%Z = false) as -> by lia.
  assert (HH2 : emits (if (ub - lb + 1 =? 1)%Z then if negb (Z.of_N n =? ub)%Z then Err E_SEQOF_FIX else Ok s1
                      else if (0 <? ub - lb + 1)%Z then appendConstraintValue s1 (ub - lb + 1) (u64z (Z.of_N n - lb))
                           else Ok (append_bytes (appendAlignBits s1) [Z.to_N (Z.land (Z.of_N n) 255)])) (bl ++ pre0) L).
  { destruct (Z.to_N lb =? Z.to_N ub) eqn:Efix.
    - injection HL as <-. assert ((ub - lb + 1 =? 1)%Z = true) as -> by lia. assert (negb (Z.of_N n =? ub)%Z = false) as -> by lia.
      apply emits_nil. exact R1.
    - assert ((ub - lb + 1 =? 1)%Z = false) as -> by lia. assert ((0 <? ub - lb + 1)%Z = true) as -> by lia.
      rewrite u64z_small by lia. replace (ub - lb + 1)%Z with (Z.of_N (Z.to_N ub - Z.to_N lb + 1)) by lia.
      replace (Z.to_N (Z.of_N n - lb)) with (n - Z.to_N lb) by lia.
      apply cwn_emits; auto; try lia. rewrite <- app_assoc. exact Hsm. }
  rewrite <- app_assoc.
  apply (emits_bind _ (fun s2 => enc_elems rec e (clear_size p) l s2) (bl ++ pre0) L rest) in HH2.
  - destruct HH2 as (s3 & E3 & R3). exists s3. split; [exact E3|]. rewrite <- !app_assoc in R3. exact R3.
  - intros s2 R2. rewrite <- app_assoc. apply Hel. rewrite app_assoc. exact R2.
Qed.

(* ---------------------------------------------------------------- all_some *)
Lemma all_some_length {A} (l : list (option A)) r : all_some l = Some r -> length r = length l.
Proof.
  revert r; induction l as [|[x|] l IH]; intros r H; cbn [all_some] in H; try discriminate.
  - injection H as <-. reflexivity.
  - destruct (all_some l) as [r'|]; [|discriminate]. injection H as <-. cbn [length]. f_equal. apply IH. reflexivity.
Qed.
Lemma all_some_nth {A B} (g : A -> option B) (l : list A) r k a :
  all_some (map g l) = Some r -> nth_error l k = Some a -> exists b, g a = Some b /\ nth_error r k = Some b.
Proof.
  revert r k; induction l as [|x l IH]; intros r k H Hk; [destruct k; discriminate|].
  cbn [map all_some] in H. destruct (g x) as [y|] eqn:Ey; [|discriminate].
  destruct (all_some (map g l)) as [r'|] eqn:Er; [|discriminate]. injection H as <-.
  destruct k; cbn [nth_error] in *.
  - injection Hk as <-. eauto.
  - eapply IH; eauto.
Qed.
Lemma all_some_cons {A B} (g : A -> option B) x l r :
  all_some (map g (x :: l)) = Some r -> exists y r', g x = Some y /\ all_some (map g l) = Some r' /\ r = y :: r'.
Proof.
  cbn [map all_some]. destruct (g x) as [y|]; [|discriminate]. destruct (all_some (map g l)) as [r'|]; [|discriminate].
  intros H. injection H as <-. eauto.
Qed.

(* ---------------------------------------------------------------- bit test of the OPTIONAL bitmap *)
Lemma land_pow2_test x k : (N.land x (2 ^ k) =? 0) = negb (N.testbit x k).
Proof.
  destruct (N.testbit x k) eqn:E; cbn [negb].
  - apply N.eqb_neq. intros H. assert (N.testbit (N.land x (2 ^ k)) k = true) by (rewrite N.land_spec, E, N.pow2_bits_true; reflexivity).
    rewrite H in H0. rewrite N.bits_0 in H0. discriminate.
  - apply N.eqb_eq. apply N.bits_inj. intros j. rewrite N.land_spec, N.bits_0.
    destruct (N.eq_dec j k) as [->|Hne]; [rewrite E; reflexivity|]. rewrite N.pow2_bits_false by congruence. apply andb_false_r.
Qed.

Lemma N_of_bits_cons b l : N_of_bits (b :: l) = (if b then 1 else 0) * 2 ^ N.of_nat (length l) + N_of_bits l.
Proof. unfold N_of_bits. cbn [N_of_bits_acc]. rewrite N_of_bits_acc_shift. destruct b; lia. Qed.
Lemma N_of_bits_lt l : N_of_bits l < 2 ^ N.of_nat (length l).
Proof.
  induction l as [|b l IH]; [cbn; lia|]. rewrite N_of_bits_cons. cbn [length]. rewrite Nat2N.inj_succ, N.pow_succ_r'. destruct b; lia.
Qed.
Lemma N_of_bits_app l1 l2 : N_of_bits (l1 ++ l2) = N_of_bits l1 * 2 ^ N.of_nat (length l2) + N_of_bits l2.
Proof. unfold N_of_bits. rewrite N_of_bits_acc_app. apply N_of_bits_acc_shift. Qed.
Lemma bits_of_N_of_bits l : bits_of_N (length l) (N_of_bits l) = l.
Proof.
  induction l as [|b l IH] using rev_ind; [reflexivity|]. rewrite app_length. cbn [length]. rewrite Nat.add_1_r. cbn [bits_of_N].
  rewrite N_of_bits_app. cbn [length]. change (2 ^ N.of_nat 1) with 2. rewrite N_of_bits_cons. cbn [length]. change (N_of_bits []) with 0.
  change (2 ^ N.of_nat 0) with 1.
  assert (E : N_of_bits l * 2 + ((if b then 1 else 0) * 1 + 0) = 2 * N_of_bits l + (if b then 1 else 0)) by lia. rewrite E.
  f_equal.
  - rewrite N.div2_div. replace ((2 * N_of_bits l + (if b then 1 else 0)) / 2) with (N_of_bits l) by (destruct b; lia). exact IH.
  - f_equal. destruct b.
    + rewrite N.add_comm, N.odd_add_mul_2. reflexivity.
    + rewrite N.add_comm, N.odd_add_mul_2. reflexivity.
Qed.

(* bit [length r] of  hi * 2^(1 + |r|) + bits (b :: r)  is b *)
Lemma bitmap_test hi b r :
  (N.land (hi * 2 ^ N.of_nat (S (length r)) + N_of_bits (b :: r)) (2 ^ N.of_nat (length r)) =? 0) = negb b.
Proof.
  rewrite land_pow2_test. f_equal. rewrite N_of_bits_cons.
  set (k := N.of_nat (length r)). rewrite Nat2N.inj_succ. fold k. rewrite N.pow_succ_r'.
  pose proof (N_of_bits_lt r) as Hr. fold k in Hr.
  replace (hi * (2 * 2 ^ k) + ((if b then 1 else 0) * 2 ^ k + N_of_bits r)) with (N_of_bits r + (2 * hi + (if b then 1 else 0)) * 2 ^ k) by lia.
  rewrite N.testbit_eqb. rewrite N.div_add by (apply N.pow_nonzero; lia). rewrite N.div_small by exact Hr. rewrite N.add_0_l.
  destruct b.
  - replace ((2 * hi + 1) mod 2) with 1 by lia. reflexivity.
  - replace ((2 * hi + 0) mod 2) with 0 by lia. reflexivity.
Qed.
