(* C09 over the regenerated descriptors: the only differences between the library's wire layout and the TS 24.501
   tables (rows not marked uncertain) are the listed deviations.  The check is a computation over the finite set of
   message types and rows. *)
From Coq Require Import NArith List Bool String.
Require Import Bytes NasValue NasCodec NasDesc NasCorr TS24501Tables TS24501 NasLayout.
Import ListNotations.
Open Scope N_scope.

(* genuine library/standard mismatches, recorded in /verif/known_findings.json (keys C09:layout:<epd>:<type>:<iei>):
   REGISTRATION REQUEST / Last visited registered TAI (IEI 52): the library sends and expects 7 value octets
   (Octet [7]uint8) where the IE is TV 7, i.e. 6 value octets;
   PDU SESSION MODIFICATION REQUEST / Requested QoS rules (IEI 7A): one length octet in the library, TLV-E in
   TS 24.501. *)
Definition known_deviations : list (N * N * N) := [(0x7E, 0x41, 0x52); (0x2E, 0xC9, 0x7A)].

Lemma layout_conforms : layout_conforms_except known_deviations = true.
Proof. vm_compute. reflexivity. Qed.

Lemma tables_usable : forallb table_ok ts24501_tables = true.
Proof. vm_compute. reflexivity. Qed.

(* 40 of the 44 message types agree with their table row by row; the other four are REGISTRATION REQUEST (deviation 52,
   uncertain 8-/60), REGISTRATION ACCEPT (uncertain D-/60), PDU SESSION MODIFICATION REQUEST (deviation 7A) and
   PDU SESSION MODIFICATION COMMAND (uncertain 7F/75) *)
Lemma strict_pairs_count :
  List.length dispatched_pairs = 44%nat /\ List.length strict_pairs = 40%nat /\
  map (fun p => let '(e, ty, _, _) := p in (e, ty)) (filter (fun p => let '(_, _, d, t) := p in negb (layout_strict d t)) dispatched_pairs)
  = [(0x7E, 0x41); (0x7E, 0x42); (0x2E, 0xC9); (0x2E, 0xCB)].
Proof. repeat split; vm_compute; reflexivity. Qed.

Lemma strict_pairs_ok e ty d t : In (e, ty, d, t) strict_pairs -> layout_strict d t = true /\ desc_pair_ok d = true.
Proof. unfold strict_pairs. intro H. apply filter_In in H as [_ H]. now apply andb_true_iff in H. Qed.
