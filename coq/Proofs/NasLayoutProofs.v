(* C09 over the regenerated descriptors: the only differences between the library's wire layout and the TS 24.501
   tables (rows not marked uncertain) are the listed deviations.  The check is a computation over the finite set of
   message types and rows. *)
From Coq Require Import NArith List Bool String.
Require Import Bytes NasValue NasCodec NasDesc NasCorr TS24501Tables TS24501 NasLayout.
Import ListNotations.
Open Scope N_scope.

(* genuine library/standard mismatches, recorded in /verif/known_findings.json (keys C09:layout:<epd>:<type>:<iei>):
   REGISTRATION REQUEST / Last visited registered TAI (IEI 52): the library sends and expects 7 value octets
   (Octet [7]uint8) where the IE is TV 7, i.e. 6 value octets;
   PDU SESSION MODIFICATION REQUEST / Requested QoS rules (IEI 7A): one length octet in the library, TLV-E in
   TS 24.501. *)
Definition known_deviations : list (N * N * N) := [(0x7E, 0x41, 0x52); (0x2E, 0xC9, 0x7A)].

Lemma layout_conforms : layout_conforms_except known_deviations = true.
Proof. vm_compute. reflexivity. Qed.

Lemma tables_usable : forallb table_ok ts24501_tables = true.
Proof. vm_compute. reflexivity. Qed.
