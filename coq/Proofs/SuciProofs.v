From Coq Require Import NArith ZArith List Lia Bool.
From Coq Require Import ZifyN ZifyNat ZifyBool.
Require Import Dec SuciEnc Suci.
Import ListNotations.
Open Scope N_scope.
Ltac Zify.zify_post_hook ::= Z.div_mod_to_equations.

Lemma pair_ind (P : list N -> Prop) :
  P [] -> (forall a, P [a]) -> (forall a b r, P r -> P (a :: b :: r)) -> forall l, P l.
Proof. intros H0 H1 H2. fix F 1. intros [|a [|b r]]; [exact H0 | apply H1 | apply H2, F]. Qed.

Lemma lt16_cases x : x < 16 ->
  x = 0 \/ x = 1 \/ x = 2 \/ x = 3 \/ x = 4 \/ x = 5 \/ x = 6 \/ x = 7 \/
  x = 8 \/ x = 9 \/ x = 10 \/ x = 11 \/ x = 12 \/ x = 13 \/ x = 14 \/ x = 15.
Proof. lia. Qed.

Definition r16 : list N := [0;1;2;3;4;5;6;7;8;9;10;11;12;13;14;15].
Lemma in_r16 x : x < 16 -> In x r16.
Proof. intro H. apply lt16_cases in H. unfold r16. cbn [In]. intuition. Qed.

Lemma shl4_or_fin : forallb (fun x => forallb (fun y => shl4_or x y =? x * 16 + y) r16) r16 = true.
Proof. vm_compute. reflexivity. Qed.
Lemma shl4_or_val x y : x < 16 -> y < 16 -> shl4_or x y = x * 16 + y.
Proof.
  intros Hx Hy. pose proof shl4_or_fin as F. rewrite forallb_forall in F.
  specialize (F x (in_r16 x Hx)). rewrite forallb_forall in F. specialize (F y (in_r16 y Hy)). lia.
Qed.
Lemma or8_fin : forallb (fun x => forallb (fun y => or8 x y =? x * 16 + y) r16) r16 = true.
Proof. vm_compute. reflexivity. Qed.
Lemma or8_val x y : x < 16 -> y < 16 -> or8 x y = x * 16 + y.
Proof.
  intros Hx Hy. pose proof or8_fin as F. rewrite forallb_forall in F.
  specialize (F x (in_r16 x Hx)). rewrite forallb_forall in F. specialize (F y (in_r16 y Hy)). lia.
Qed.

Lemma h_digit d : d < 10 -> h (48 + d) = d.
Proof.
  intro H. unfold h, hexCharToByte.
  destruct ((48 <=? 48 + d) && (48 + d <=? 57)) eqn:E; lia.
Qed.
Lemma atoi1_digit d : d < 10 -> atoi1 (48 + d) = d.
Proof. intro H. unfold atoi1. destruct ((48 <=? 48 + d) && (48 + d <=? 57)) eqn:E; lia. Qed.

Lemma lo_pack x y : y < 16 -> lo (x * 16 + y) = y.
Proof. unfold lo. lia. Qed.
Lemma hi_pack x y : y < 16 -> hi (x * 16 + y) = x.
Proof. unfold hi. lia. Qed.

Lemma digits_ok_cons d l : digits_ok (d :: l) = true -> d < 10 /\ digits_ok l = true.
Proof. cbn [digits_ok forallb]. unfold is_digit. intro H. apply andb_true_iff in H. destruct H. split; [lia | assumption]. Qed.

Lemma isd_true d : d < 10 -> isd d = true.
Proof. unfold isd. lia. Qed.

(* the MSIN loop writes the BCD string of the digits *)
Lemma msin_roundtrip : forall msin, digits_ok msin = true -> bcd_digits (msin_octets (to_ascii msin)) = Some msin.
Proof.
  induction msin as [| a | a b r IH] using pair_ind; intro H.
  - reflexivity.
  - apply digits_ok_cons in H. destruct H as [Ha _].
    cbn [to_ascii map msin_octets bcd_digits]. rewrite h_digit by assumption.
    rewrite shl4_or_val by lia. rewrite lo_pack, hi_pack by lia. rewrite isd_true by assumption.
    replace (15 =? 15) with true by reflexivity. reflexivity.
  - apply digits_ok_cons in H. destruct H as [Ha H]. apply digits_ok_cons in H. destruct H as [Hb Hr].
    specialize (IH Hr).
    change (to_ascii (a :: b :: r)) with ((48 + a) :: (48 + b) :: to_ascii r).
    cbn [msin_octets]. rewrite !h_digit by assumption. rewrite shl4_or_val by lia.
    destruct (msin_octets (to_ascii r)) as [|o t] eqn:E.
    + cbn [bcd_digits]. rewrite lo_pack, hi_pack by lia. rewrite !isd_true by assumption.
      replace (b =? 15) with false by lia.
      cbn [bcd_digits] in IH. injection IH as IH. subst r. reflexivity.
    + cbn [bcd_digits]. cbn [bcd_digits] in IH. rewrite lo_pack, hi_pack by lia. rewrite !isd_true by assumption.
      cbn [andb]. rewrite IH. reflexivity.
Qed.

Lemma ri_default : ri_digits 240 255 = Some [0].
Proof. vm_compute. reflexivity. Qed.

Lemma nth_ascii (l:list N) i : nth i (to_ascii l) 0 = match nth_error l i with Some d => 48 + d | None => 0 end.
Proof.
  revert i; induction l as [|x l IH]; intros [|i]; cbn [to_ascii map nth nth_error]; try reflexivity. apply IH.
Qed.

Section Main.
Variables a b c d e f : N.
Hypothesis Ha : a < 10. Hypothesis Hb : b < 10. Hypothesis Hc : c < 10.
Hypothesis Hd : d < 10. Hypothesis He : e < 10. Hypothesis Hf : f < 10.

Lemma encode_suci_mnc2 msin :
  encode_suci (to_ascii ([a;b;c] ++ [d;e] ++ msin)) 2
  = Some ([1; b * 16 + a; 15 * 16 + c; e * 16 + d; 240; 255; 0; 0] ++ msin_octets (to_ascii msin)).
Proof.
  unfold encode_suci. cbn [Nat.ltb Nat.leb].
  replace (Nat.ltb (length (to_ascii ([a; b; c] ++ [d; e] ++ msin))) 5) with false
    by (symmetry; apply Nat.ltb_ge; unfold to_ascii; rewrite map_length, !app_length; cbn [length]; lia).
  rewrite !nth_ascii. cbn [app nth_error]. rewrite !h_digit by assumption. rewrite !shl4_or_val by lia.
  reflexivity.
Qed.

Lemma encode_suci_mnc3 msin :
  encode_suci (to_ascii ([a;b;c] ++ [d;e;f] ++ msin)) 3
  = Some ([1; b * 16 + a; f * 16 + c; e * 16 + d; 240; 255; 0; 0] ++ msin_octets (to_ascii msin)).
Proof.
  unfold encode_suci. cbn [Nat.ltb Nat.leb].
  replace (Nat.ltb (length (to_ascii ([a; b; c] ++ [d; e; f] ++ msin))) 6) with false
    by (symmetry; apply Nat.ltb_ge; unfold to_ascii; rewrite map_length, !app_length; cbn [length]; lia).
  rewrite !nth_ascii. cbn [app nth_error]. rewrite !h_digit by assumption. rewrite !shl4_or_val by lia.
  reflexivity.
Qed.

Lemma plmn_decode_mnc2 : plmn_decode [b * 16 + a; 15 * 16 + c; e * 16 + d] = Some ([a;b;c], [d;e]).
Proof.
  unfold plmn_decode. rewrite !lo_pack, !hi_pack by lia. replace (15 =? 15) with true by reflexivity.
  cbn [app forallb]. rewrite !isd_true by assumption. reflexivity.
Qed.
Lemma plmn_decode_mnc3 : plmn_decode [b * 16 + a; f * 16 + c; e * 16 + d] = Some ([a;b;c], [d;e;f]).
Proof.
  unfold plmn_decode. rewrite !lo_pack, !hi_pack by lia. replace (f =? 15) with false by lia.
  cbn [app forallb]. rewrite !isd_true by assumption. reflexivity.
Qed.

Lemma suci_decode_mnc2 msin : digits_ok msin = true ->
  match encode_suci (to_ascii ([a;b;c] ++ [d;e] ++ msin)) 2 with
  | Some buf => suci_decode buf = Some {| s_mcc := [a;b;c]; s_mnc := [d;e]; s_ri := [0]; s_scheme := 0; s_hnpk := 0; s_msin := msin |}
  | None => False end.
Proof.
  intro Hm. rewrite encode_suci_mnc2. cbn [app]. unfold suci_decode.
  replace (1 mod 8 =? 1) with true by reflexivity. replace (1 / 16 mod 8 =? 0) with true by reflexivity. cbn [andb].
  rewrite plmn_decode_mnc2, ri_default. replace (hi 0 =? 0) with true by reflexivity. replace (lo 0 =? 0) with true by reflexivity.
  cbn [andb]. rewrite (msin_roundtrip msin Hm). reflexivity.
Qed.
Lemma suci_decode_mnc3 msin : digits_ok msin = true ->
  match encode_suci (to_ascii ([a;b;c] ++ [d;e;f] ++ msin)) 3 with
  | Some buf => suci_decode buf = Some {| s_mcc := [a;b;c]; s_mnc := [d;e;f]; s_ri := [0]; s_scheme := 0; s_hnpk := 0; s_msin := msin |}
  | None => False end.
Proof.
  intro Hm. rewrite encode_suci_mnc3. cbn [app]. unfold suci_decode.
  replace (1 mod 8 =? 1) with true by reflexivity. replace (1 / 16 mod 8 =? 0) with true by reflexivity. cbn [andb].
  rewrite plmn_decode_mnc3, ri_default. replace (hi 0 =? 0) with true by reflexivity. replace (lo 0 =? 0) with true by reflexivity.
  cbn [andb]. rewrite (msin_roundtrip msin Hm). reflexivity.
Qed.

(* PLMN announced at NG Setup = standard coding = the library's own conversion *)
Lemma mobile_plmn_mnc2 msin :
  mobile_plmn (to_ascii ([a;b;c] ++ [d;e] ++ msin)) 2 = plmn_encode [a;b;c] [d;e]
  /\ plmn_id_to_nas (to_ascii [a;b;c]) (to_ascii [d;e]) = plmn_encode [a;b;c] [d;e].
Proof.
  unfold mobile_plmn. rewrite encode_suci_mnc2. split; [reflexivity|].
  cbn [to_ascii map plmn_id_to_nas plmn_encode]. rewrite !atoi1_digit by assumption. rewrite !or8_val by lia. reflexivity.
Qed.
Lemma mobile_plmn_mnc3 msin :
  mobile_plmn (to_ascii ([a;b;c] ++ [d;e;f] ++ msin)) 3 = plmn_encode [a;b;c] [d;e;f]
  /\ plmn_id_to_nas (to_ascii [a;b;c]) (to_ascii [d;e;f]) = plmn_encode [a;b;c] [d;e;f].
Proof.
  unfold mobile_plmn. rewrite encode_suci_mnc3. split; [reflexivity|].
  cbn [to_ascii map plmn_id_to_nas plmn_encode]. rewrite !atoi1_digit by assumption. rewrite !or8_val by lia. reflexivity.
Qed.
End Main.

Definition suci_of mcc mnc msin := {| s_mcc := mcc; s_mnc := mnc; s_ri := [0]; s_scheme := 0; s_hnpk := 0; s_msin := msin |}.

Theorem suci_roundtrip mcc mnc msin :
  digits_ok mcc = true -> digits_ok mnc = true -> digits_ok msin = true ->
  length mcc = 3%nat -> (length mnc = 2%nat \/ length mnc = 3%nat) ->
  exists buf, encode_suci (to_ascii (mcc ++ mnc ++ msin)) (length mnc) = Some buf
              /\ suci_decode buf = Some (suci_of mcc mnc msin).
Proof.
  intros Hc Hn Hm Lc Ln.
  destruct mcc as [|a [|b [|c [|? ?]]]]; try discriminate Lc.
  apply digits_ok_cons in Hc. destruct Hc as [Ha Hc]. apply digits_ok_cons in Hc. destruct Hc as [Hb Hc].
  apply digits_ok_cons in Hc. destruct Hc as [Hc _].
  destruct Ln as [Ln|Ln].
  - destruct mnc as [|d [|e [|? ?]]]; try discriminate Ln.
    apply digits_ok_cons in Hn. destruct Hn as [Hd Hn]. apply digits_ok_cons in Hn. destruct Hn as [He _].
    pose proof (suci_decode_mnc2 _ _ _ _ _ 0 Ha Hb Hc Hd He eq_refl msin Hm) as S. cbn [length].
    destruct (encode_suci (to_ascii ([a; b; c] ++ [d; e] ++ msin)) 2) as [buf|]; [|contradiction].
    exists buf. split; [reflexivity | exact S].
  - destruct mnc as [|d [|e [|f [|? ?]]]]; try discriminate Ln.
    apply digits_ok_cons in Hn. destruct Hn as [Hd Hn]. apply digits_ok_cons in Hn. destruct Hn as [He Hn].
    apply digits_ok_cons in Hn. destruct Hn as [Hf _].
    pose proof (suci_decode_mnc3 _ _ _ _ _ _ Ha Hb Hc Hd He Hf msin Hm) as S. cbn [length].
    destruct (encode_suci (to_ascii ([a; b; c] ++ [d; e; f] ++ msin)) 3) as [buf|]; [|contradiction].
    exists buf. split; [reflexivity | exact S].
Qed.

Theorem plmn_announced mcc mnc msin :
  digits_ok mcc = true -> digits_ok mnc = true ->
  length mcc = 3%nat -> (length mnc = 2%nat \/ length mnc = 3%nat) ->
  exists o, plmn_encode mcc mnc = Some o
    /\ mobile_plmn (to_ascii (mcc ++ mnc ++ msin)) (length mnc) = Some o
    /\ plmn_id_to_nas (to_ascii mcc) (to_ascii mnc) = Some o
    /\ plmn_decode o = Some (mcc, mnc).
Proof.
  intros Hc Hn Lc Ln.
  destruct mcc as [|a [|b [|c [|? ?]]]]; try discriminate Lc.
  apply digits_ok_cons in Hc. destruct Hc as [Ha Hc]. apply digits_ok_cons in Hc. destruct Hc as [Hb Hc].
  apply digits_ok_cons in Hc. destruct Hc as [Hc _].
  destruct Ln as [Ln|Ln].
  - destruct mnc as [|d [|e [|? ?]]]; try discriminate Ln.
    apply digits_ok_cons in Hn. destruct Hn as [Hd Hn]. apply digits_ok_cons in Hn. destruct Hn as [He _].
    destruct (mobile_plmn_mnc2 _ _ _ _ _ 0 Ha Hb Hc Hd He eq_refl msin) as [M P].
    eexists. split; [reflexivity|]. cbn [length]. rewrite M, P. repeat split; try reflexivity.
    apply (plmn_decode_mnc2 _ _ _ _ _ 0); (assumption || reflexivity).
  - destruct mnc as [|d [|e [|f [|? ?]]]]; try discriminate Ln.
    apply digits_ok_cons in Hn. destruct Hn as [Hd Hn]. apply digits_ok_cons in Hn. destruct Hn as [He Hn].
    apply digits_ok_cons in Hn. destruct Hn as [Hf _].
    destruct (mobile_plmn_mnc3 _ _ _ _ _ _ Ha Hb Hc Hd He Hf msin) as [M P].
    eexists. split; [reflexivity|]. cbn [length]. rewrite M, P. repeat split; try reflexivity.
    apply plmn_decode_mnc3; assumption.
Qed.
