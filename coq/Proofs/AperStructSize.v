(* A size bound on X.691 encodings that depends on the abstract value only: |x691 t v pos| <= asz v.  It lets the
   refusal theorem (C03.2) bound every partial output of a refused value without running the encoder. *)
From Coq Require Import String NArith ZArith List Bool Lia Arith.
From Coq Require Import ZifyN ZifyNat ZifyBool.
Require Import GoSlice Bits Asn1 X691 AperBits AperBitsPut AperEncProofs AperStructSeq AperStructFld AperStructMain AperRoundPrim AperRoundSeq.
Import ListNotations.
Open Scope N_scope.
Ltac Zify.zify_post_hook ::= Z.div_mod_to_equations.
Local Arguments N.add : simpl never.
Local Arguments N.mul : simpl never.
Local Arguments N.sub : simpl never.
Local Arguments N.div : simpl never.
Local Arguments N.modulo : simpl never.
Local Arguments N.pow : simpl never.

Fixpoint asz (v : aval) : nat :=
  match v with
  | AVInt _ => 200%nat
  | AVEnum _ => 200%nat
  | AVBool _ => 1%nat
  | AVBits c => (length c + 40)%nat
  | AVOctets bs => (8 * length bs + 40)%nat
  | AVSeq cs => (72 + length cs + (fix go (l : list (option aval)) : nat :=
                                    match l with [] => O | Some x :: r => (asz x + go r)%nat | None :: r => go r end) cs)%nat
  | AVChoice _ x => (200 + asz x)%nat
  | AVSeqOf l => (40 + (fix go (l : list aval) : nat := match l with [] => O | x :: r => (asz x + go r)%nat end) l)%nat
  | AVOpen _ x => (56 + asz x)%nat
  | AVInvalid => O
  end.
Definition asz_opts (l : list (option aval)) : nat :=
  (fix go (l : list (option aval)) : nat := match l with [] => O | Some x :: r => (asz x + go r)%nat | None :: r => go r end) l.
Definition asz_list (l : list aval) : nat :=
  (fix go (l : list aval) : nat := match l with [] => O | x :: r => (asz x + go r)%nat end) l.
Lemma asz_seq cs : asz (AVSeq cs) = (72 + length cs + asz_opts cs)%nat.
Proof. reflexivity. Qed.
Lemma asz_seqof l : asz (AVSeqOf l) = (40 + asz_list l)%nat.
Proof. reflexivity. Qed.
Lemma asz_opts_cons c r : asz_opts (c :: r) = ((match c with Some x => asz x | None => O end) + asz_opts r)%nat.
Proof. destruct c; reflexivity. Qed.
Lemma asz_list_cons x r : asz_list (x :: r) = (asz x + asz_list r)%nat.
Proof. reflexivity. Qed.

(* an induction principle through the nested lists *)
Section AvalInd.
  Variable P : aval -> Prop.
  Hypothesis Hint : forall z, P (AVInt z).
  Hypothesis Henum : forall i, P (AVEnum i).
  Hypothesis Hbool : forall b, P (AVBool b).
  Hypothesis Hbits : forall c, P (AVBits c).
  Hypothesis Hoct : forall bs, P (AVOctets bs).
  Hypothesis Hseq : forall cs, Forall (fun c => match c with Some x => P x | None => True end) cs -> P (AVSeq cs).
  Hypothesis Hch : forall i x, P x -> P (AVChoice i x).
  Hypothesis Hsof : forall l, Forall P l -> P (AVSeqOf l).
  Hypothesis Hopen : forall k x, P x -> P (AVOpen k x).
  Hypothesis Hinv : P AVInvalid.
  Definition Qopt (c : option aval) : Prop := match c with Some x => P x | None => True end.
  Fixpoint aval_ind' (v : aval) : P v :=
    match v with
    | AVInt z => Hint z | AVEnum i => Henum i | AVBool b => Hbool b | AVBits c => Hbits c | AVOctets bs => Hoct bs
    | AVSeq cs => Hseq cs ((fix go (l : list (option aval)) : Forall Qopt l :=
                              match l with
                              | [] => Forall_nil Qopt
                              | c :: r => @Forall_cons _ Qopt c r (match c return Qopt c with Some x => aval_ind' x | None => I end) (go r)
                              end) cs)
    | AVChoice i x => Hch i x (aval_ind' x)
    | AVSeqOf l => Hsof l ((fix go (l : list aval) : Forall P l := match l with [] => Forall_nil P | x :: r => @Forall_cons _ P x r (aval_ind' x) (go r) end) l)
    | AVOpen k x => Hopen k x (aval_ind' x)
    | AVInvalid => Hinv
    end.
End AvalInd.

(* ---------------------------------------------------------------- leaf bounds *)
Lemma align_len pos : (length (align pos) <= 7)%nat.
Proof. unfold align. rewrite repeat_length. pose proof (pad_len_lt pos). lia. Qed.

Lemma octs_fuel_le f n : (octs_fuel f n <= S f)%nat.
Proof. revert n; induction f as [|f IH]; intros n; cbn [octs_fuel]; [lia|]. destruct (n <? 256); [lia|]. specialize (IH (n / 256)). lia. Qed.
Lemma octs_le17 n : (octs n <= 17)%nat.
Proof. unfold octs. apply octs_fuel_le. Qed.
Lemma octs_signed_fuel_le f : forall k z, (octs_signed_fuel f k z <= k + f)%nat.
Proof. induction f as [|f IH]; intros k z; cbn [octs_signed_fuel]; [lia|]. destruct (_ && _); [lia|]. specialize (IH (S k) z). lia. Qed.
Lemma octs_signed_le17 z : (octs_signed z <= 17)%nat.
Proof. unfold octs_signed. pose proof (octs_signed_fuel_le 16 1 z). lia. Qed.

Lemma log2up_le n k : n <= 2 ^ N.of_nat k -> (log2up_nat n <= k)%nat.
Proof.
  intros H. unfold log2up_nat. destruct (N.le_gt_cases n 1) as [H1|H1].
  - rewrite (N.log2_up_eqn0 n) by lia. lia.
  - assert (N.log2_up n <= N.of_nat k); [|lia]. apply N.log2_up_le_pow2; lia.
Qed.

Lemma cwn_len range v pos e : cwn range v pos = XOk e -> (length e <= 160)%nat.
Proof.
  unfold cwn. destruct (_ || _); [discriminate|]. destruct (range =? 1); [intros H; apply xok_inj in H; subst e; cbn; lia|].
  destruct (range <=? 255) eqn:E1.
  { intros H; apply xok_inj in H; subst e. rewrite bits_of_N_length. pose proof (log2up_le range 8 ltac:(change (2 ^ N.of_nat 8) with 256; lia)). lia. }
  destruct (range =? 256); [intros H; apply xok_inj in H; subst e; rewrite app_length, bits_of_N_length; pose proof (align_len pos); lia|].
  destruct (range <=? 65536); [intros H; apply xok_inj in H; subst e; rewrite app_length, bits_of_N_length; pose proof (align_len pos); lia|].
  intros H; apply xok_inj in H; subst e. rewrite !app_length, !bits_of_N_length.
  pose proof (octs_le17 (range - 1)). pose proof (octs_le17 v).
  pose proof (log2up_le (N.of_nat (octs (range - 1))) 5 ltac:(change (2 ^ N.of_nat 5) with 32; lia)).
  match goal with |- context [align ?q] => pose proof (align_len q) end. lia.
Qed.
Lemma lendet_len n pos e : lendet n pos = XOk e -> (length e <= 23)%nat.
Proof.
  unfold lendet. pose proof (align_len pos). destruct (n <? 128); [|destruct (n <? 16384)]; intros H0; try discriminate; apply xok_inj in H0; subst e;
    rewrite app_length, bits_of_N_length; lia.
Qed.

Lemma enc_int_len lb ub ext z pos b : enc_int lb ub ext z pos = XOk b -> (length b <= 200)%nat.
Proof.
  unfold enc_int, unconstrained_int, semi_int.
  destruct (ext && negb _).
  - destruct (lendet _ _) as [l| |] eqn:El; cbn [xbind]; try discriminate. intros H; apply xok_inj in H; subst b.
    cbn [length]. rewrite app_length, bits_of_N_length. pose proof (lendet_len _ _ _ El). pose proof (octs_signed_le17 z). lia.
  - destruct (negb _); [discriminate|].
    destruct lb as [l|], ub as [u|].
    + destruct (cwn _ _ _) as [e| |] eqn:Ee; cbn [xbind]; try discriminate. intros H; apply xok_inj in H; subst b.
      rewrite app_length. pose proof (cwn_len _ _ _ _ Ee). destruct ext; cbn [length]; lia.
    + destruct (z <? l)%Z; [discriminate|]. destruct (lendet _ _) as [le| |] eqn:El; cbn [xbind]; try discriminate.
      intros H; apply xok_inj in H; subst b. rewrite !app_length, bits_of_N_length. pose proof (lendet_len _ _ _ El).
      pose proof (octs_le17 (Z.to_N (z - l))). destruct ext; cbn [length]; lia.
    + destruct (lendet _ _) as [le| |] eqn:El; cbn [xbind]; try discriminate.
      intros H; apply xok_inj in H; subst b. rewrite !app_length, bits_of_N_length. pose proof (lendet_len _ _ _ El).
      pose proof (octs_signed_le17 z). destruct ext; cbn [length]; lia.
    + destruct (lendet _ _) as [le| |] eqn:El; cbn [xbind]; try discriminate.
      intros H; apply xok_inj in H; subst b. rewrite !app_length, bits_of_N_length. pose proof (lendet_len _ _ _ El).
      pose proof (octs_signed_le17 z). destruct ext; cbn [length]; lia.
Qed.

Lemma size_prefix_len lb ub ext n pos pre : size_prefix lb ub ext n pos = XOk pre -> (length pre <= 32)%nat.
Proof.
  unfold size_prefix. destruct (ext && negb _).
  - destruct (lendet _ _) as [l| |] eqn:El; cbn [xbind]; try discriminate. intros H; apply xok_inj in H; subst pre.
    cbn [length]. pose proof (lendet_len _ _ _ El). lia.
  - destruct (negb _); [discriminate|].
    assert (HL : forall l, (match ub with
                  | Some u => if u <? 65536 then (if lb =? u then XOk [] else cwn (u - lb + 1) (n - lb) (pos + length (if ext then [false] else @nil bool)))
                              else lendet n (pos + length (if ext then [false] else @nil bool))
                  | None => lendet n (pos + length (if ext then [false] else @nil bool)) end) = XOk l -> (length l <= 160)%nat).
    { intros l. destruct ub as [u|]; [destruct (u <? 65536); [destruct (lb =? u)|]|]; intros H.
      - apply xok_inj in H; subst l; cbn; lia.
      - eapply cwn_len; eauto.
      - pose proof (lendet_len _ _ _ H). lia.
      - pose proof (lendet_len _ _ _ H). lia. }
    destruct (match ub with Some u => _ | None => _ end) as [l| |] eqn:El; cbn [xbind]; try discriminate.
    intros H; apply xok_inj in H; subst pre. rewrite app_length.
    (* a length determinant / constrained length never exceeds 23 bits *)
    assert (length l <= 23)%nat.
    { destruct ub as [u|]; [destruct (u <? 65536) eqn:Eu; [destruct (lb =? u)|]|].
      - apply xok_inj in El; subst l; cbn; lia.
      - unfold cwn in El. destruct (_ || _); [discriminate|]. destruct (u - lb + 1 =? 1); [apply xok_inj in El; subst l; cbn; lia|].
        destruct (u - lb + 1 <=? 255) eqn:E1.
        { apply xok_inj in El; subst l. rewrite bits_of_N_length. pose proof (log2up_le (u - lb + 1) 8 ltac:(change (2 ^ N.of_nat 8) with 256; lia)). lia. }
        destruct (u - lb + 1 =? 256); [apply xok_inj in El; subst l; rewrite app_length, bits_of_N_length; match goal with |- context [align ?q] => pose proof (align_len q) end; lia|].
        assert (u - lb + 1 <=? 65536 = true) as E3 by lia. rewrite E3 in El.
        apply xok_inj in El; subst l; rewrite app_length, bits_of_N_length; match goal with |- context [align ?q] => pose proof (align_len q) end; lia.
      - eapply lendet_len; eauto.
      - eapply lendet_len; eauto. }
    destruct ext; cbn [length]; lia.
Qed.

Lemma enc_string_len lb ub ext n content small pos b :
  enc_string lb ub ext n content small pos = XOk b -> (length b <= length content + 40)%nat.
Proof.
  unfold enc_string. destruct (size_prefix lb ub ext n pos) as [pre| |] eqn:Ep; cbn [xbind]; try discriminate.
  pose proof (size_prefix_len _ _ _ _ _ _ Ep) as Hp.
  pose proof (align_len (pos + length pre)).
  destruct (_ && _); [destruct small|destruct (n =? 0)]; intros H0; apply xok_inj in H0; subst b; rewrite ?app_length; lia.
Qed.

(* ---------------------------------------------------------------- the bound *)
Lemma x_elems_len et pos : forall l acc b,
  Forall (fun x => forall t p b, x691 t x p = XOk b -> (length b <= asz x)%nat) l ->
  x_elems et pos l acc = XOk b -> (length b <= length acc + asz_list l)%nat.
Proof.
  induction l as [|x l IH]; intros acc b HF H; cbn [x_elems] in H.
  - apply xok_inj in H; subst b. cbn. lia.
  - inversion HF as [|? ? Hx HF']; subst. destruct (x691 et x (pos + length acc)) as [e| |] eqn:Ee; cbn [xbind] in H; try discriminate.
    specialize (IH _ _ HF' H). rewrite app_length in IH. specialize (Hx _ _ _ Ee). rewrite asz_list_cons. lia.
Qed.

Definition Pb (v : aval) : Prop := forall t pos b, x691 t v pos = XOk b -> (length b <= asz v)%nat.
Definition Pv (v : aval) : Prop := Pb v /\ (forall k ov, v = AVOpen k ov -> Pb ov).

Lemma comp_enc_len vs ft cv p e : Pv cv -> comp_enc vs ft cv p = XOk e -> (length e <= asz cv)%nat.
Proof.
  intros [Hb Ho] H. unfold comp_enc in H.
  destruct ft; try (apply (Hb _ _ _ H)).
  destruct cv; try discriminate.
  destruct (nth_error vs ref) as [[sv|]|]; try discriminate. destruct (key_of sv); [|discriminate].
  destruct (X691.find_alt key alts) as [at'|]; [|discriminate]. destruct (_ =? _)%Z; [|discriminate].
  destruct (x691 at' cv 0) as [inner| |] eqn:Ei; cbn [xbind] in H; try discriminate.
  destruct (lendet _ p) as [l| |] eqn:El; cbn [xbind] in H; try discriminate. apply xok_inj in H. subst e.
  rewrite app_length, bits_of_bytes_length. pose proof (lendet_len _ _ _ El).
  destruct (pack_bits_at inner) as (_ & _ & _ & Hp). pose proof (Ho key cv eq_refl _ _ _ Ei). cbn [asz]. lia.
Qed.

Lemma x_comps_len vs pos : forall fs cs acc b,
  Forall (fun c => match c with Some x => Pv x | None => True end) cs ->
  x_comps vs pos fs cs acc = XOk b -> (length b <= length acc + asz_opts cs)%nat.
Proof.
  induction fs as [|[opt ft] fr IH]; intros cs acc b HF H.
  - destruct cs; cbn [x_comps] in H; [|discriminate]. apply xok_inj in H. subst b. cbn. lia.
  - destruct cs as [|c cr]; [discriminate|]. rewrite x_comps_cons in H. inversion HF as [|? ? Hc HF']; subst.
    rewrite asz_opts_cons. destruct c as [cv|].
    + destruct (comp_enc vs ft cv (pos + length acc)) as [e| |] eqn:Ee; cbn [xbind] in H; try discriminate.
      specialize (IH _ _ _ HF' H). rewrite app_length in IH. pose proof (comp_enc_len _ _ _ _ _ Hc Ee). lia.
    + destruct opt; [|discriminate]. specialize (IH _ _ _ HF' H). lia.
Qed.

Lemma seq_bitmap_len : forall fs cs, (length (seq_bitmap fs cs) <= length cs)%nat.
Proof.
  induction fs as [|[o t] fs IH]; intros cs; destruct cs as [|c cs]; unfold seq_bitmap in *; cbn [combine flat_map length]; try lia.
  rewrite app_length. specialize (IH cs). destruct o, c; cbn [length]; lia.
Qed.

Theorem x691_len_all : forall v, Pv v.
Proof.
  induction v as [z|i|b0|c|bs|cs IHcs|i v IHv|l IHl|k v IHv|] using aval_ind'; (split; [|intros k' ov' E; try discriminate; injection E as _ <-; exact (proj1 IHv)]);
    intros t pos bb HX; destruct t; cbn [x691] in HX; try discriminate.
  - apply enc_int_len in HX. cbn [asz]. lia.
  - destruct (n <=? i); [discriminate|]. destruct (cwn _ _ _) as [e| |] eqn:Ee; cbn [xbind] in HX; try discriminate.
    apply xok_inj in HX; subst bb. rewrite app_length. pose proof (cwn_len _ _ _ _ Ee). cbn [asz]. destruct ext; cbn [length]; lia.
  - apply xok_inj in HX; subst bb. cbn. lia.
  - apply enc_string_len in HX. cbn [asz]. lia.
  - destruct (forallb _ bs); [|discriminate]. apply enc_string_len in HX. rewrite bits_of_bytes_length in HX. cbn [asz]. lia.
  - (* SEQUENCE *)
    change (x691 (ASeq ext fs) (AVSeq cs) pos) with
      (if negb (Nat.eqb (length fs) (length cs)) then XViolation
       else x_comps cs pos fs cs ((if ext then [false] else []) ++ seq_bitmap fs cs)) in HX.
    destruct (negb _); [discriminate|]. pose proof (x_comps_len _ _ _ _ _ _ IHcs HX) as Hl. rewrite app_length in Hl.
    pose proof (seq_bitmap_len fs cs) as Hbm. unfold seq_bitmap in Hbm. rewrite asz_seq. destruct ext; cbn [length] in Hl; lia.
  - (* CHOICE *)
    destruct IHv as [IHv _].
    destruct (nth_error alts (N.to_nat i)) as [at'|]; [|discriminate].
    destruct (if Nat.eqb (length alts) 1 then XOk [] else cwn _ _ _) as [ib| |] eqn:Eib; cbn [xbind] in HX; try discriminate.
    destruct (x691 at' v _) as [e| |] eqn:Ee; cbn [xbind] in HX; try discriminate. apply xok_inj in HX; subst bb.
    rewrite !app_length. specialize (IHv _ _ _ Ee). cbn [asz].
    assert (length ib <= 160)%nat by (destruct (Nat.eqb (length alts) 1); [apply xok_inj in Eib; subst ib; cbn; lia|eapply cwn_len; eauto]).
    destruct ext; cbn [length]; lia.
  - (* SEQUENCE OF *)
    change (x691 (ASeqOf lb ub ext t) (AVSeqOf l) pos) with (dox pre <- size_prefix lb ub ext (N.of_nat (length l)) pos; x_elems t pos l pre) in HX.
    destruct (size_prefix _ _ _ _ _) as [pre| |] eqn:Ep; cbn [xbind] in HX; try discriminate.
    pose proof (size_prefix_len _ _ _ _ _ _ Ep) as Hpl. rewrite asz_seqof.
    assert (HF : Forall (fun x => forall t p b, x691 t x p = XOk b -> (length b <= asz x)%nat) l).
    { eapply Forall_impl; [|exact IHl]. intros a [Ha _] t0 p0 b1. apply Ha. }
    pose proof (x_elems_len _ _ _ _ _ HF HX). lia.
Qed.

Theorem x691_len v t pos b : x691 t v pos = XOk b -> (length b <= asz v)%nat.
Proof. apply (proj1 (x691_len_all v)). Qed.
