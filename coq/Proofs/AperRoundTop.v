(* C04 at the entry points: canonical encodings are accepted and decoded to a value denoting the abstract value they
   encode; decode inverts encode up to the representation ([abs], the reading of Go values as ASN.1 values, forgets
   exactly what the decoder does not reproduce: the unused low bits of a BIT STRING's last octet and the
   non-selected alternatives of a CHOICE); re-encoding reproduces the bytes. *)
From Coq Require Import String NArith ZArith List Bool Lia Arith.
From Coq Require Import ZifyN ZifyNat ZifyBool.
Require Import GoSlice Bits AperCommon AperEnc AperDec AperCheck Asn1 X691 Asn1Tags AperBits AperBitsGet AperBitsPut AperEncProofs
        AperStructPrim AperStructStr AperStructDefs AperStructLeaf AperStructSeq AperStructFld AperStructMain
        AperRoundGet AperRoundPrim AperRoundLeaf AperRoundStr AperRoundBits AperRoundDefs AperRoundNe AperRoundField AperRoundSeq AperRoundMain.
Import ListNotations.
Open Scope N_scope.
Ltac Zify.zify_post_hook ::= Z.div_mod_to_equations.

Theorem unmarshal_canonical t p at' av bits :
  tags_to_asn1 t p = Some at' -> supa t p av = true -> x691 at' av 0 = XOk bits -> small bits ->
  exists v', unmarshal (dec_fuel t) t p (pack bits) = Ok v' /\ abs t p v' = Some av /\ sup t p v' = true.
Proof.
  intros Ht Hs Hx Hsm. unfold tags_to_asn1 in Ht.
  assert (Hat : t2a (S (ty_depth t)) t p = at') by (destruct (t2a (S (ty_depth t)) t p); congruence). subst at'.
  destruct (pack_bits_at bits) as (Hpb & Hpok & Hpl & Hple).
  destruct (dec_all (ty_depth t) t (le_n _) (S (ty_depth t)) (S (ty_depth t)) (dec_fuel t) (S (ty_depth t)) (S (ty_depth t)) p av (pack bits) 0%nat bits (mkdst (pack bits) 0 0))
    as (v & d' & al & E & _ & Hv & Hsv); auto; try (unfold dec_fuel; lia).
  - split; [exact Hpok|]. unfold small, LIM, len in *. lia.
  - apply at_pos_init.
  - exists v. split; [|split; [exact Hv|exact Hsv]]. unfold unmarshal, unmarshal_full. rewrite E. reflexivity.
Qed.

(* acceptance of the canonical encoding and identical re-encoding *)
Theorem accepts_canonical t p at' av bits :
  tags_to_asn1 t p = Some at' -> supa t p av = true -> x691 at' av 0 = XOk bits -> small bits ->
  exists v', unmarshal (dec_fuel t) t p (pack bits) = Ok v' /\ abs t p v' = Some av /\ marshal t p v' = Ok (pack bits).
Proof.
  intros Ht Hs Hx Hsm. destruct (unmarshal_canonical t p at' av bits Ht Hs Hx Hsm) as (v' & Hu & Hv' & Hsv).
  exists v'. split; [exact Hu|]. split; [exact Hv'|]. eapply marshal_is_x691; eauto.
Qed.

Theorem roundtrip t p v at' av bits :
  tags_to_asn1 t p = Some at' -> abs t p v = Some av -> sup t p v = true -> supa t p av = true ->
  x691 at' av 0 = XOk bits -> small bits ->
  exists bs v', marshal t p v = Ok bs /\ unmarshal (dec_fuel t) t p bs = Ok v' /\ abs t p v' = abs t p v /\ marshal t p v' = Ok bs.
Proof.
  intros Ht Ha Hs Hsa Hx Hsm.
  destruct (accepts_canonical t p at' av bits Ht Hsa Hx Hsm) as (v' & Hu & Hv' & Hm').
  exists (pack bits), v'. split; [eapply marshal_is_x691; eauto|]. split; [exact Hu|]. split; [congruence|exact Hm'].
Qed.
