(* C13, ranges - part 1 (abstract level, no Go notion): the status of the X.691 specification function is decided
   without producing bits.  [xst t v] = SOk / SViol is a position-independent certificate that x691 t v pos is
   XOk _ / XViolation for every bit position pos (alignment never changes whether a value conforms); SUnk = not
   decided here (fragmented lengths, extensible INTEGER above its root, ...).  The only quantity that depends on
   the bits of an inner encoding - the length determinant of an open type - is bounded through [asz]. *)
From Coq Require Import String NArith ZArith List Bool Lia Arith.
From Coq Require Import ZifyN ZifyNat ZifyBool.
Require Import Bits Asn1 X691 AperStructFld AperStructMain AperRoundPrim AperRoundSeq AperRoundNe AperStructSize.
Import ListNotations.
Open Scope N_scope.
Ltac Zify.zify_post_hook ::= Z.div_mod_to_equations.
Local Arguments N.add : simpl never.
Local Arguments N.mul : simpl never.
Local Arguments N.sub : simpl never.
Local Arguments N.div : simpl never.
Local Arguments N.modulo : simpl never.
Local Arguments N.pow : simpl never.

Inductive xs := SOk | SViol | SUnk.

(* the count of a string / list, named so that evaluation can leave it alone *)
Definition alen {A} (l : list A) : N := N.of_nat (length l).

Definition xthen (a b : xs) : xs := match a with SOk => b | SViol => SViol | SUnk => SUnk end.
Fixpoint xfirst (l : list xs) : xs := match l with [] => SOk | s :: r => xthen s (xfirst r) end.

Definition int_st (lb ub : option Z) (ext : bool) (z : Z) : xs :=
  match lb, ub with
  | Some l, Some u => if ((l <=? z) && (z <=? u))%Z then SOk else if ext then SUnk else SViol
  | _, _ => SUnk
  end.
Definition enum_st (n i : N) : xs := if n <=? i then SViol else SOk.
Definition lendet_st (n : N) : xs := if n <? 16384 then SOk else SUnk.
Definition size_st (lb : N) (ub : option N) (ext : bool) (n : N) : xs :=
  let inroot := size_inroot lb ub n in
  if ext && negb inroot then lendet_st n
  else if negb inroot then SViol
  else match ub with Some u => if u <? 65536 then SOk else lendet_st n | None => lendet_st n end.
Definition oct_st (lb : N) (ub : option N) (ext : bool) (bs : list N) : xs :=
  if forallb (fun b => b <? 256) bs then size_st lb ub ext (alen bs) else SViol.

Fixpoint xst (t : aty) (v : aval) {struct v} : xs :=
  match t, v with
  | AInt lb ub ext, AVInt z => int_st lb ub ext z
  | AEnum n ext, AVEnum i => enum_st n i
  | ABool, AVBool _ => SOk
  | ABits lb ub ext, AVBits bs => size_st lb ub ext (alen bs)
  | AOctets lb ub ext, AVOctets bs => oct_st lb ub ext bs
  | ASeq ext fs, AVSeq vs =>
      if negb (Nat.eqb (length fs) (length vs)) then SViol
      else
        (fix comps (fs : list (bool * aty)) (cs : list (option aval)) {struct cs} : xs :=
           match fs, cs with
           | [], [] => SOk
           | (opt, ft) :: fr, c :: cr =>
               match c with
               | None => if opt then comps fr cr else SViol
               | Some cv =>
                   xthen (match ft, cv with
                          | AOpen ref alts, AVOpen key ov =>
                              match nth_error vs ref with
                              | Some (Some sv) =>
                                  match key_of sv, find_alt key alts with
                                  | Some k, Some at' => if (k =? key)%Z then xst at' ov else SViol
                                  | _, _ => SViol
                                  end
                              | _ => SViol
                              end
                          | AOpen _ _, _ => SViol
                          | _, _ => xst ft cv
                          end) (comps fr cr)
               end
           | _, _ => SViol
           end) fs vs
  | AChoice ext alts, AVChoice i cv =>
      match nth_error alts (N.to_nat i) with None => SViol | Some at' => xst at' cv end
  | ASeqOf lb ub ext et, AVSeqOf l => xthen (size_st lb ub ext (alen l)) (xfirst (map (xst et) l))
  | ANone, _ => SUnk
  | _, _ => SViol
  end.

Definition comp_st (vs : list (option aval)) (ft : aty) (cv : aval) : xs :=
  match ft, cv with
  | AOpen ref alts, AVOpen key ov =>
      match nth_error vs ref with
      | Some (Some sv) =>
          match key_of sv, find_alt key alts with
          | Some k, Some at' => if (k =? key)%Z then xst at' ov else SViol
          | _, _ => SViol
          end
      | _ => SViol
      end
  | AOpen _ _, _ => SViol
  | _, _ => xst ft cv
  end.
Definition xcomps (vs : list (option aval)) :=
  fix comps (fs : list (bool * aty)) (cs : list (option aval)) {struct cs} : xs :=
    match fs, cs with
    | [], [] => SOk
    | (opt, ft) :: fr, c :: cr =>
        match c with
        | None => if opt then comps fr cr else SViol
        | Some cv => xthen (comp_st vs ft cv) (comps fr cr)
        end
    | _, _ => SViol
    end.
Lemma xst_seq ext fs vs :
  xst (ASeq ext fs) (AVSeq vs) = if negb (Nat.eqb (length fs) (length vs)) then SViol else xcomps vs fs vs.
Proof. reflexivity. Qed.
Lemma xcomps_cons vs opt ft fr c cr :
  xcomps vs ((opt, ft) :: fr) (c :: cr)
  = match c with None => if opt then xcomps vs fr cr else SViol | Some cv => xthen (comp_st vs ft cv) (xcomps vs fr cr) end.
Proof. destruct c; reflexivity. Qed.

(* the bound under which every open type content has a length determinant below 16384 *)
Definition XB : N := 131000.

(* ---------------------------------------------------------------- leaves *)
Lemma cwn_ok range v pos : v < range -> exists e, cwn range v pos = XOk e.
Proof.
  intros H. unfold cwn. assert ((range =? 0) || (range <=? v) = false) as -> by lia.
  destruct (range =? 1); [eexists; reflexivity|]. destruct (range <=? 255); [eexists; reflexivity|].
  destruct (range =? 256); [eexists; reflexivity|]. destruct (range <=? 65536); eexists; reflexivity.
Qed.
Lemma lendet_ok n pos : n < 16384 -> exists e, lendet n pos = XOk e.
Proof. intros H. unfold lendet. destruct (n <? 128); [eexists; reflexivity|]. assert (n <? 16384 = true) as -> by lia. eexists; reflexivity. Qed.

Lemma int_st_sound lb ub ext z :
  (int_st lb ub ext z = SOk -> forall pos, exists b, enc_int lb ub ext z pos = XOk b) /\
  (int_st lb ub ext z = SViol -> forall pos, enc_int lb ub ext z pos = XViolation).
Proof.
  unfold int_st, enc_int. destruct lb as [l|]; [|split; discriminate]. destruct ub as [u|]; [|split; discriminate].
  destruct ((l <=? z) && (z <=? u))%Z eqn:E; cbn [negb].
  - split; [|discriminate]. intros _ pos. rewrite andb_false_r.
    destruct (cwn_ok (Z.to_N (u - l + 1)) (Z.to_N (z - l)) (pos + length (if ext then [false] else @nil bool)) ltac:(lia)) as [e ->].
    cbn [xbind]. eexists; reflexivity.
  - destruct ext; cbn [andb]; split; try discriminate. intros _ pos. reflexivity.
Qed.

Lemma enum_st_sound n ext i :
  (enum_st n i = SOk -> forall pos, exists b, x691 (AEnum n ext) (AVEnum i) pos = XOk b) /\
  (enum_st n i = SViol -> forall pos, x691 (AEnum n ext) (AVEnum i) pos = XViolation).
Proof.
  unfold enum_st. cbn [x691]. destruct (n <=? i) eqn:E; split; try discriminate; intros _ pos; [reflexivity|].
  destruct (cwn_ok n i (pos + length (if ext then [false] else @nil bool)) ltac:(lia)) as [e ->]. cbn [xbind]. eexists; reflexivity.
Qed.

Lemma lendet_st_ok n pos : lendet_st n = SOk -> exists e, lendet n pos = XOk e.
Proof. unfold lendet_st. destruct (n <? 16384) eqn:E; [|discriminate]. intros _. apply lendet_ok. lia. Qed.
Lemma lendet_st_viol n : lendet_st n <> SViol.
Proof. unfold lendet_st. destruct (n <? 16384); discriminate. Qed.

Lemma size_st_sound lb ub ext n :
  (size_st lb ub ext n = SOk -> forall pos, exists b, size_prefix lb ub ext n pos = XOk b) /\
  (size_st lb ub ext n = SViol -> forall pos, size_prefix lb ub ext n pos = XViolation).
Proof.
  unfold size_st, size_prefix. destruct (size_inroot lb ub n) eqn:Ein; cbn [negb].
  - rewrite andb_false_r. split.
    + intros H pos.
      assert (exists l, match ub with
                        | Some u => if u <? 65536 then (if lb =? u then XOk [] else cwn (u - lb + 1) (n - lb) (pos + length (if ext then [false] else @nil bool)))
                                    else lendet n (pos + length (if ext then [false] else @nil bool))
                        | None => lendet n (pos + length (if ext then [false] else @nil bool)) end = XOk l) as [l ->].
      { unfold size_inroot in Ein. destruct ub as [u|].
        - destruct (u <? 65536).
          + destruct (lb =? u); [eexists; reflexivity|]. apply cwn_ok. lia.
          + apply lendet_st_ok. exact H.
        - apply lendet_st_ok. exact H. }
      cbn [xbind]. eexists; reflexivity.
    + intros H. exfalso. destruct ub as [u|]; [destruct (u <? 65536); [discriminate|]|]; eapply lendet_st_viol; eauto.
  - rewrite andb_true_r. destruct ext; split; intros H pos.
    + destruct (lendet_st_ok n (S pos) H) as [l ->]. cbn [xbind]. eexists; reflexivity.
    + exfalso. eapply lendet_st_viol; eauto.
    + discriminate.
    + reflexivity.
Qed.

Lemma string_ok lb ub ext n c small pos : (exists pre, size_prefix lb ub ext n pos = XOk pre) -> exists b, enc_string lb ub ext n c small pos = XOk b.
Proof.
  intros [pre E]. unfold enc_string. rewrite E. cbn [xbind].
  destruct (_ && _); [destruct small|destruct (n =? 0)]; eexists; reflexivity.
Qed.
Lemma string_viol lb ub ext n c small pos : size_prefix lb ub ext n pos = XViolation -> enc_string lb ub ext n c small pos = XViolation.
Proof. intros E. unfold enc_string. rewrite E. reflexivity. Qed.

(* ---------------------------------------------------------------- the statement, by induction on the value *)
Definition Sb (v : aval) : Prop :=
  forall t, N.of_nat (asz v) < XB ->
    (xst t v = SOk -> forall pos, exists b, x691 t v pos = XOk b) /\
    (xst t v = SViol -> forall pos, x691 t v pos = XViolation).
Definition Sv (v : aval) : Prop := Sb v /\ (forall k ov, v = AVOpen k ov -> Sb ov).

Lemma comp_sound vs ft cv : Sv cv -> N.of_nat (asz cv) < XB ->
  (comp_st vs ft cv = SOk -> forall p, exists e, comp_enc vs ft cv p = XOk e) /\
  (comp_st vs ft cv = SViol -> forall p, comp_enc vs ft cv p = XViolation).
Proof.
  intros [Hb Ho] Hsz. unfold comp_st, comp_enc.
  destruct ft; try exact (Hb _ Hsz).
  destruct cv; try (split; [discriminate|reflexivity]).
  destruct (nth_error vs ref) as [[sv|]|]; try (split; [discriminate|reflexivity]).
  destruct (key_of sv) as [k|]; [|split; [discriminate|reflexivity]].
  destruct (find_alt key alts) as [at'|]; [|split; [discriminate|reflexivity]].
  destruct (k =? key)%Z; [|split; [discriminate|reflexivity]].
  cbn [asz] in Hsz. destruct (Ho key cv eq_refl at' ltac:(lia)) as [H1 H2]. split.
  - intros H p. destruct (H1 H 0%nat) as [inner Ei]. rewrite Ei. cbn [xbind].
    destruct (pack_bits_at inner) as (_ & _ & _ & Hp). pose proof (x691_len _ _ _ _ Ei) as Hl.
    destruct (lendet_ok (N.of_nat (length (pack inner))) p) as [l ->]; [unfold XB in Hsz; lia|]. cbn [xbind]. eexists; reflexivity.
  - intros H p. rewrite (H2 H 0%nat). reflexivity.
Qed.

Lemma xcomps_sound vs pos : forall fs cs acc,
  Forall (fun c => match c with Some x => Sv x | None => True end) cs -> N.of_nat (asz_opts cs) < XB ->
  (xcomps vs fs cs = SOk -> exists b, x_comps vs pos fs cs acc = XOk b) /\
  (xcomps vs fs cs = SViol -> x_comps vs pos fs cs acc = XViolation).
Proof.
  induction fs as [|[opt ft] fr IH]; intros cs acc HF Hsz.
  - destruct cs; cbn [xcomps x_comps]; split; try discriminate; try reflexivity. intros _. eexists; reflexivity.
  - destruct cs as [|c cr]; [cbn [xcomps x_comps]; split; [discriminate|reflexivity]|].
    rewrite xcomps_cons, x_comps_cons. inversion HF as [|? ? Hc HF']; subst. rewrite asz_opts_cons in Hsz.
    destruct c as [cv|].
    + destruct (comp_sound vs ft cv Hc ltac:(lia)) as [C1 C2].
      destruct (comp_st vs ft cv) eqn:Ec; cbn [xthen].
      * destruct (C1 eq_refl (pos + length acc)%nat) as [e ->]. cbn [xbind]. apply IH; [exact HF'|lia].
      * split; [discriminate|]. intros _. rewrite (C2 eq_refl). reflexivity.
      * split; discriminate.
    + destruct opt; [apply IH; [exact HF'|lia]|split; [discriminate|reflexivity]].
Qed.

Lemma xelems_sound et pos : forall l acc,
  Forall Sb l -> N.of_nat (asz_list l) < XB ->
  (xfirst (map (xst et) l) = SOk -> exists b, x_elems et pos l acc = XOk b) /\
  (xfirst (map (xst et) l) = SViol -> x_elems et pos l acc = XViolation).
Proof.
  induction l as [|x l IH]; intros acc HF Hsz; cbn [map xfirst x_elems].
  - split; [intros _; eexists; reflexivity|discriminate].
  - inversion HF as [|? ? Hx HF']; subst. rewrite asz_list_cons in Hsz.
    destruct (Hx et ltac:(lia)) as [X1 X2].
    destruct (xst et x) eqn:Ex; cbn [xthen].
    + destruct (X1 eq_refl (pos + length acc)%nat) as [e ->]. cbn [xbind]. apply IH; [exact HF'|lia].
    + split; [discriminate|]. intros _. rewrite (X2 eq_refl). reflexivity.
    + split; discriminate.
Qed.

Theorem xst_sound_all : forall v, Sv v.
Proof.
  induction v as [z|i|b0|c|bs|cs IHcs|i v IHv|l IHl|k v IHv|] using aval_ind';
    (split; [|intros k' ov' E; try discriminate; injection E as _ <-; exact (proj1 IHv)]);
    intros t Hsz; destruct t; cbn [xst]; try (split; [discriminate|reflexivity]); try (split; discriminate).
  - (* INTEGER *) cbn [x691]. apply int_st_sound.
  - (* ENUMERATED *) apply enum_st_sound.
  - (* BOOLEAN *) split; [intros _ pos; cbn [x691]; eexists; reflexivity|discriminate].
  - (* BIT STRING *)
    cbn [x691]. unfold alen. destruct (size_st_sound lb ub ext (N.of_nat (length c))) as [S1 S2]. split; intros H pos.
    + apply string_ok. apply S1. exact H.
    + apply string_viol. apply S2. exact H.
  - (* OCTET STRING *)
    cbn [x691]. unfold oct_st, alen. destruct (forallb _ bs); [|split; [discriminate|reflexivity]].
    destruct (size_st_sound lb ub ext (N.of_nat (length bs))) as [S1 S2]. split; intros H pos.
    + apply string_ok. apply S1. exact H.
    + apply string_viol. apply S2. exact H.
  - (* SEQUENCE *)
    change (xst (ASeq ext fs) (AVSeq cs)) with (if negb (Nat.eqb (length fs) (length cs)) then SViol else xcomps cs fs cs).
    rewrite asz_seq in Hsz.
    split; intros H pos; rewrite x691_seq; destruct (negb _); try discriminate; try reflexivity;
      apply (xcomps_sound cs pos fs cs _ IHcs ltac:(lia)); exact H.
  - (* CHOICE *)
    destruct IHv as [IHv _]. cbn [x691 asz] in *. destruct (nth_error alts (N.to_nat i)) as [at'|] eqn:En; [|split; [discriminate|reflexivity]].
    destruct (IHv at' ltac:(lia)) as [H1 H2].
    assert (Hib : forall pos, exists ib, (if Nat.eqb (length alts) 1 then XOk [] else cwn (N.of_nat (length alts)) i (pos + length (if ext then [false] else @nil bool))) = XOk ib).
    { intros pos. destruct (Nat.eqb (length alts) 1); [eexists; reflexivity|]. apply cwn_ok.
      assert (N.to_nat i < length alts)%nat by (apply nth_error_Some; congruence). lia. }
    split; intros H pos; destruct (Hib pos) as [ib ->]; cbn [xbind].
    + destruct (H1 H (pos + length ((if ext then [false] else []) ++ ib))%nat) as [e ->]. cbn [xbind]. eexists; reflexivity.
    + rewrite (H2 H). reflexivity.
  - (* SEQUENCE OF *)
    rewrite asz_seqof in Hsz. unfold alen. destruct (size_st_sound lb ub ext (N.of_nat (length l))) as [S1 S2].
    assert (HF : Forall Sb l) by (eapply Forall_impl; [|exact IHl]; intros a [Ha _]; exact Ha).
    split; intros H pos; rewrite x691_seqof.
    + destruct (size_st lb ub ext (N.of_nat (length l))) eqn:Es; cbn [xthen] in H; try discriminate.
      destruct (S1 eq_refl pos) as [pre ->]. cbn [xbind]. apply (xelems_sound t pos l pre HF ltac:(lia)). exact H.
    + destruct (size_st lb ub ext (N.of_nat (length l))) eqn:Es; cbn [xthen] in H; try discriminate.
      * destruct (S1 eq_refl pos) as [pre ->]. cbn [xbind]. apply (xelems_sound t pos l pre HF ltac:(lia)). exact H.
      * rewrite (S2 eq_refl pos). reflexivity.
Qed.

Theorem xst_ok t v pos : N.of_nat (asz v) < XB -> xst t v = SOk -> exists b, x691 t v pos = XOk b.
Proof. intros Hs H. exact (proj1 (proj1 (xst_sound_all v) t Hs) H pos). Qed.
Theorem xst_viol t v pos : N.of_nat (asz v) < XB -> xst t v = SViol -> x691 t v pos = XViolation.
Proof. intros Hs H. exact (proj2 (proj1 (xst_sound_all v) t Hs) H pos). Qed.

(* ---------------------------------------------------------------- a sufficient test for "at least one bit" *)
Definition xne1 (t : aty) (v : aval) : bool :=
  match t, v with
  | AInt (Some l) (Some u) false, AVInt _ => (l <? u)%Z
  | AOctets lb None false, AVOctets _ => lb =? 0
  | AOctets _ (Some _) true, AVOctets _ => true
  | ASeqOf lb (Some ub) false _, AVSeqOf _ => (lb <? ub) && (ub <? 65536)
  | AChoice _ alts, AVChoice _ _ => (2 <=? length alts)%nat
  | ASeq true _, AVSeq _ => true
  | _, _ => false
  end.
Definition not_open (t : aty) : bool := match t with AOpen _ _ => false | _ => true end.
Definition xne (t : aty) (v : aval) : bool :=
  xne1 t v ||
  match t, v with
  | ASeq false ((false, ft) :: _), AVSeq (Some cv :: _) => not_open ft && xne1 ft cv
  | _, _ => false
  end.

Lemma xne1_sound t v pos b : xne1 t v = true -> x691 t v pos = XOk b -> b <> [].
Proof.
  intros Hn Hx. destruct t, v; cbn [xne1] in Hn; try discriminate.
  - (* INTEGER *)
    destruct lb as [l|]; [|discriminate]. destruct ub as [u|]; [|discriminate]. destruct ext; [discriminate|].
    cbn [x691] in Hx. unfold enc_int in Hx. cbn [andb] in Hx.
    destruct (negb _); [discriminate|]. destruct (cwn _ _ _) as [e| |] eqn:Ee; cbn [xbind] in Hx; try discriminate.
    apply xok_inj in Hx. subst b. cbn [app]. eapply cwn_nonempty; [|exact Ee]. lia.
  - (* OCTET STRING *)
    cbn [x691] in Hx. destruct (forallb _ bs); [|discriminate].
    destruct ub as [u|].
    + destruct ext; [|discriminate]. unfold enc_string, size_prefix in Hx.
      destruct (true && negb _).
      * destruct (lendet _ _); cbn [xbind] in Hx; try discriminate.
        destruct (_ && _); [destruct (_ <=? 2)|destruct (_ =? 0)]; apply xok_inj in Hx; subst b; discriminate.
      * destruct (negb _); [discriminate|].
        destruct (if u <? 65536 then _ else _); cbn [xbind] in Hx; try discriminate.
        destruct (_ && _); [destruct (_ <=? 2)|destruct (_ =? 0)]; apply xok_inj in Hx; subst b; discriminate.
    + destruct ext; [discriminate|]. apply N.eqb_eq in Hn. subst lb. eapply enc_string_unc_nonempty; eauto.
  - (* SEQUENCE *)
    destruct ext; [|discriminate]. rewrite x691_seq in Hx. destruct (negb _); [discriminate|].
    destruct (x_comps_prefix _ _ _ _ _ _ Hx) as [r ->]. discriminate.
  - (* CHOICE *)
    cbn [x691] in Hx. destruct (nth_error alts (N.to_nat idx)) as [at'|]; [|discriminate].
    apply Nat.leb_le in Hn. assert (Nat.eqb (length alts) 1 = false) as E1 by (apply Nat.eqb_neq; lia). rewrite E1 in Hx.
    destruct (cwn _ _ _) as [ib| |] eqn:Eib; cbn [xbind] in Hx; try discriminate.
    destruct (x691 at' v _) as [e| |]; cbn [xbind] in Hx; try discriminate. apply xok_inj in Hx. subst b.
    apply app_ne_l. apply app_ne_r. eapply cwn_nonempty; [|exact Eib]. lia.
  - (* SEQUENCE OF *)
    destruct ub as [u|]; [|discriminate]. destruct ext; [discriminate|]. apply andb_true_iff in Hn. destruct Hn as [Hn1 Hn2].
    rewrite x691_seqof in Hx. destruct (size_prefix _ _ _ _ _) as [pre| |] eqn:Ep; cbn [xbind] in Hx; try discriminate.
    destruct (x_elems_prefix _ _ _ _ _ Hx) as [r ->]. apply app_ne_l.
    unfold size_prefix in Ep. cbn [andb] in Ep. destruct (negb _); [discriminate|].
    assert (u <? 65536 = true) as Eu by lia. rewrite Eu in Ep. assert (lb =? u = false) as El by lia. rewrite El in Ep.
    destruct (cwn _ _ _) as [L| |] eqn:EL; cbn [xbind] in Ep; try discriminate. apply xok_inj in Ep. subst pre. cbn [app].
    eapply cwn_nonempty; [|exact EL]. lia.
Qed.

Theorem xne_sound t v pos b : xne t v = true -> x691 t v pos = XOk b -> b <> [].
Proof.
  intros Hn Hx. unfold xne in Hn. apply orb_true_iff in Hn. destruct Hn as [Hn|Hn]; [eapply xne1_sound; eauto|].
  destruct t; try discriminate. destruct ext; [discriminate|]. destruct fs as [|[[|] ft] fr]; try discriminate.
  destruct v; try discriminate. destruct fs as [|[cv|] cr]; try discriminate.
  apply andb_true_iff in Hn. destruct Hn as [Hno Hn1].
  rewrite x691_seq in Hx. destruct (negb _); [discriminate|]. rewrite x_comps_cons in Hx.
  destruct (comp_enc _ ft cv _) as [e| |] eqn:Ee; cbn [xbind] in Hx; try discriminate.
  destruct (x_comps_prefix _ _ _ _ _ _ Hx) as [r ->]. apply app_ne_l. apply app_ne_r.
  assert (Ex : comp_enc (Some cv :: cr) ft cv (pos + length ([] ++ seq_bitmap ((false, ft) :: fr) (Some cv :: cr))) = x691 ft cv (pos + length ([] ++ seq_bitmap ((false, ft) :: fr) (Some cv :: cr))))
    by (unfold comp_enc; destruct ft; try reflexivity; discriminate).
  rewrite Ex in Ee. eapply xne1_sound; eauto.
Qed.
