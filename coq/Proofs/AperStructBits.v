(* BIT STRING encoder of marshal.go (appendBitString) against X.691 clause 16 in "emits" form, on the supported SIZE
   constraints (0 <= lb <= ub < 65536, ub > 0, extensible or not; or no constraint), length below 16384. *)
From Coq Require Import NArith ZArith List Bool Lia Arith.
From Coq Require Import ZifyN ZifyNat ZifyBool.
Require Import GoSlice Bits AperCommon AperEnc Asn1 X691 AperBits AperBitsGet AperBitsPut AperEncProofs AperStructPrim AperStructStr.
Import ListNotations.
Open Scope N_scope.
Ltac Zify.zify_post_hook ::= Z.div_mod_to_equations.
Local Arguments N.add : simpl never.
Local Arguments N.mul : simpl never.
Local Arguments N.sub : simpl never.
Local Arguments N.div : simpl never.
Local Arguments N.modulo : simpl never.
Local Arguments N.land : simpl never.
Local Arguments N.lor : simpl never.
Local Arguments N.shiftr : simpl never.
Local Arguments N.shiftl : simpl never.
Local Arguments N.pow : simpl never.

(* the encoder clears the unused low bits of the last octet of its input before using it *)
Definition mask_step (bytes : list N) (n : N) : res (list N) :=
  let sizes := N.shiftr (u64 (n + 7)) 3 in
  let shift := 8 - N.land n 7 in
  if shift =? 8 then Ok bytes
  else do b <- idx bytes (sub64 sizes 1); upd bytes (sub64 sizes 1) (N.land b (shl8 255 shift)).

Lemma mask_last bytes n : bok bytes -> len bytes = (n + 7) / 8 -> n < 4294967296 ->
  exists bytes', mask_step bytes n = Ok bytes' /\ bok bytes' /\ length bytes' = length bytes /\
    bits_of_bytes bytes' = firstn (N.to_nat n) (bits_of_bytes bytes) ++ repeat false (pad_len (N.to_nat n)).
Proof.
  intros Hb Hl Hn. unfold mask_step. rewrite u64_small by (unfold TWO64; lia). rewrite shiftr3, land7.
  destruct (8 - n mod 8 =? 8) eqn:E8.
  - exists bytes. split; [reflexivity|]. split; [exact Hb|]. split; [reflexivity|].
    rewrite pad_len_0 by lia. cbn [repeat]. rewrite app_nil_r. rewrite firstn_all2; [reflexivity|].
    rewrite bits_of_bytes_length. unfold len in Hl. lia.
  - destruct (snoc_cases bytes) as [->|[init [x ->]]]; [unfold len in Hl; cbn [length] in Hl; lia|].
    rewrite len_app in Hl. change (len [x]) with 1 in Hl.
    rewrite <- Hl. rewrite sub64_small by (unfold TWO64, len in *; lia). replace (len init + 1 - 1) with (len init) by lia.
    rewrite idx_mid. cbn [bind]. rewrite upd_mid.
    apply bok_app in Hb. destruct Hb as [Hi Hx]. apply bok_cons in Hx. destruct Hx as [Hx _].
    destruct (S3 x (n mod 8) Hx ltac:(lia)) as [Hm Hmb].
    assert (Hmask : gbs_mask (n mod 8) = shl8 255 (8 - n mod 8)).
    { unfold gbs_mask. assert (n mod 8 =? 0 = false) as -> by lia. rewrite sub64_small by (unfold TWO64; lia).
      rewrite land255. rewrite N.mod_small by lia. reflexivity. }
    rewrite Hmask in Hm, Hmb.
    eexists. split; [reflexivity|]. split; [|split].
    + apply bok_app. split; [exact Hi|]. constructor; [exact Hm|constructor].
    + rewrite !app_length. reflexivity.
    + rewrite !bits_of_bytes_app, !bits_of_bytes_cons, !bits_of_bytes_nil, !app_nil_r, Hmb.
      assert (Hk : keep_of (n mod 8) = N.to_nat (n mod 8)) by (unfold keep_of; assert (n mod 8 =? 0 = false) as -> by lia; reflexivity).
      rewrite Hk. rewrite firstn_app_r by (rewrite bits_of_bytes_length; unfold len in Hl; lia).
      rewrite bits_of_bytes_length. rewrite <- app_assoc. f_equal. f_equal.
      * f_equal. unfold len in Hl. lia.
      * f_equal. unfold pad_len. lia.
Qed.

Theorem bits_constrained_emits s bl bytes n c ext lb ub b :
  repr s bl -> bok bytes -> len bytes = (n + 7) / 8 -> c = firstn (N.to_nat n) (bits_of_bytes bytes) ->
  (0 <= lb <= ub)%Z -> (0 < ub < 65536)%Z -> (ext = true -> Z.to_N lb <= n) -> n < 16384 ->
  enc_string (Z.to_N lb) (Some (Z.to_N ub)) ext (N.of_nat (length c)) c (Z.to_N ub <=? 16) (length bl) = XOk b ->
  small (bl ++ b) ->
  emits (appendBitString s bytes n ext (Some lb) (Some ub)) bl b.
Proof.
  intros Hs Hb Hl Hc Hlb Hub Hd7 Hn Hx Hsm.
  assert (Hcl : length c = N.to_nat n).
  { subst c. apply firstn_length_le. rewrite bits_of_bytes_length. unfold len in Hl. lia. }
  assert (Hnc : N.of_nat (length c) = n) by lia. rewrite Hnc in Hx.
  destruct (mask_last bytes n Hb Hl ltac:(lia)) as (bytes' & Em & Hb' & Hl' & Hbits'). rewrite <- Hc, <- Hcl in Hbits'.
  unfold appendBitString. fold (mask_step bytes n).
  unfold enc_string, size_prefix, size_inroot, size_fixed in Hx.
  assert (Z.to_N ub <? 65536 = true) as Eu by lia. rewrite Eu in Hx.
  assert (Hsz : N.shiftr (u64 (n + 7)) 3 = len bytes) by (rewrite u64_small by (unfold TWO64; lia); rewrite shiftr3; lia).
  destruct (n <=? Z.to_N ub) eqn:Efit.
  - destruct (Z.to_N lb <=? n) eqn:Elb.
    2:{ cbn [andb negb] in Hx. destruct ext; [specialize (Hd7 eq_refl); lia|discriminate]. }
    cbn [andb negb] in Hx. rewrite andb_false_r in Hx.
    set (pre := if ext then [false] else @nil bool) in *.
    assert (HP : small (bl ++ pre) -> exists s1, size_prologue s n ext (Some lb) (Some ub) E_BITS_OVER_UB = Ok (s1, lb, ub, (ub - lb + 1)%Z)
                  /\ repr s1 (bl ++ pre)).
    { intros Hp. apply size_prologue_in; auto; lia. }
    assert ((65535 <? ub)%Z = false) as E65 by lia.
    destruct (Z.to_N lb =? Z.to_N ub) eqn:Efix.
    + cbn [xbind andb] in Hx. rewrite app_nil_r in Hx.
      assert (Hnn : n = Z.to_N ub) by lia.
      assert (Z.to_N ub <=? 16 = negb (2 <? len bytes)) as Esm by lia. rewrite Esm in Hx.
      destruct (2 <? len bytes) eqn:E2; cbn [negb] in Hx; injection Hx as <-;
        (destruct HP as (s1 & E1 & R1); [apply small_prefix in Hsm; exact Hsm|]); rewrite E1; cbn [bind]; rewrite E65, Em; cbn [bind];
        (assert ((ub - lb + 1 =? 1)%Z = true) as -> by lia); rewrite u64z_small by lia; rewrite <- Hnn, N.eqb_refl; cbn [negb]; rewrite Hsz, E2.
      * eexists. split; [reflexivity|].
        assert (R2 : repr (append_bytes (appendAlignBits s1) bytes') (((bl ++ pre) ++ align (length (bl ++ pre))) ++ c ++ repeat false (pad_len (length c)))).
        { rewrite <- Hbits'. apply repr_append_bytes; [|apply aligned_after|exact Hb']. apply repr_align. exact R1. }
        apply repr_set_offset in R2; [|apply aligned_after]. cbn [append_bytes appendAlignBits e_bytes e_bitsOffset] in R2.
        cbn [appendAlignBits e_bytes]. rewrite land7. replace (n mod 8) with (N.of_nat (length c mod 8)) by lia.
        rewrite <- !app_assoc in R2. rewrite app_length in R2. exact R2.
      * destruct (putBitString_repr s1 (bl ++ pre) bytes' c) as (s2 & E2' & R2); auto.
        -- lia.
        -- rewrite <- app_assoc. exact Hsm.
        -- rewrite Hnc in E2'. exists s2. rewrite app_assoc. auto.
    + destruct (cwn (Z.to_N ub - Z.to_N lb + 1) (n - Z.to_N lb) (length bl + length pre)) as [L| |] eqn:EL; cbn [xbind] in Hx; try discriminate.
      cbn [andb] in Hx.
      assert (Hbb : b = pre ++ L ++ (if n =? 0 then [] else align (length ((bl ++ pre) ++ L)) ++ c)).
      { rewrite !app_length. rewrite app_length in Hx. rewrite <- Nat.add_assoc. destruct (n =? 0); injection Hx as <-; rewrite <- ?app_assoc, ?app_nil_r; reflexivity. }
      subst b. clear Hx.
      destruct HP as (s1 & E1 & R1); [apply small_prefix in Hsm; exact Hsm|]. rewrite E1. cbn [bind]. rewrite E65, Em. cbn [bind].
      assert ((ub - lb + 1 =? 1)%Z = false) as -> by lia.
      assert (Hgoal : emits (bits_frag_loop (S (length bytes')) s1 bytes' (ub - lb + 1) lb (sub64 (N.of_nat (length c)) (u64z lb)) 0) (bl ++ pre)
                 (L ++ (if N.of_nat (length c) =? 0 then [] else align (length ((bl ++ pre) ++ L)) ++ c))).
      { apply bits_frag_once; auto; try lia.
        rewrite Hnc. replace (ub - lb + 1)%Z with (Z.of_N (Z.to_N ub - Z.to_N lb + 1)) by lia.
        apply clen_emits; auto; try lia.
        - rewrite app_length. exact EL.
        - rewrite app_assoc in Hsm. rewrite app_assoc in Hsm. apply small_app_l in Hsm. exact Hsm. }
      rewrite Hnc in Hgoal. destruct Hgoal as (s2 & E2 & R2). exists s2. split; [exact E2|]. rewrite <- !app_assoc in *. exact R2.
  - assert (Hlbn : Z.to_N lb <=? n = true) by lia. rewrite Hlbn in Hx. cbn [andb negb] in Hx. rewrite andb_true_r in Hx.
    destruct ext; [|discriminate].
    destruct (lendet n (S (length bl))) as [L| |] eqn:EL; cbn [xbind] in Hx; try discriminate.
    rewrite andb_false_r in Hx. assert (n =? 0 = false) as E0 by lia. rewrite E0 in Hx. injection Hx as <-.
    destruct (size_prologue_above s bl n lb ub E_BITS_OVER_UB Hs Hlb ltac:(lia) ltac:(lia)) as (s1 & E1 & R1).
    { smallt. }
    rewrite E1. cbn [bind]. assert ((65535 <? ub)%Z = false) as -> by lia. rewrite Em. cbn [bind Z.eqb].
    assert (Hgoal : emits (bits_frag_loop (S (length bytes')) s1 bytes' (-1) 0 (sub64 (N.of_nat (length c)) (u64z 0)) 0) (bl ++ [true])
               (L ++ (if N.of_nat (length c) =? 0 then [] else align (length ((bl ++ [true]) ++ L)) ++ c))).
    { apply bits_frag_once; auto; try lia.
      rewrite Hnc. change (Z.to_N 0) with 0. rewrite N.sub_0_r. apply lendet_emits; auto.
      - rewrite app_length. cbn [length]. rewrite Nat.add_1_r. exact EL.
      - smallt. }
    rewrite Hnc in Hgoal. destruct Hgoal as (s2 & E2 & R2). exists s2. split; [exact E2|]. rewrite E0 in R2.
    rewrite <- !app_assoc in R2. cbn [app] in *. rewrite !app_length in *. cbn [length] in *.
    replace (length bl + 1 + length L)%nat with (length bl + S (length L))%nat in R2 by lia. exact R2.
Qed.

Theorem bits_unconstrained_emits s bl bytes n c b :
  repr s bl -> bok bytes -> len bytes = (n + 7) / 8 -> c = firstn (N.to_nat n) (bits_of_bytes bytes) -> n < 16384 ->
  enc_string 0 None false (N.of_nat (length c)) c false (length bl) = XOk b -> small (bl ++ b) ->
  emits (appendBitString s bytes n false None None) bl b.
Proof.
  intros Hs Hb Hl Hc Hn Hx Hsm.
  assert (Hcl : length c = N.to_nat n).
  { subst c. apply firstn_length_le. rewrite bits_of_bytes_length. unfold len in Hl. lia. }
  assert (Hnc : N.of_nat (length c) = n) by lia. rewrite Hnc in Hx.
  destruct (mask_last bytes n Hb Hl ltac:(lia)) as (bytes' & Em & Hb' & Hl' & Hbits'). rewrite <- Hc, <- Hcl in Hbits'.
  unfold appendBitString. fold (mask_step bytes n). unfold size_prologue. cbn [bind Z.ltb Z.compare]. rewrite Em. cbn [bind Z.eqb].
  unfold enc_string, size_prefix, size_inroot, size_fixed in Hx. cbn [andb negb] in Hx.
  assert (0 <=? n = true) as E1 by lia. rewrite E1 in Hx. cbn [andb negb app length] in Hx. rewrite Nat.add_0_r in Hx.
  destruct (lendet n (length bl)) as [L| |] eqn:EL; cbn [xbind] in Hx; try discriminate.
  assert (Hbb : b = L ++ (if n =? 0 then [] else align (length (bl ++ L)) ++ c)).
  { rewrite app_length. destruct (n =? 0); injection Hx as <-; [rewrite app_nil_r|]; reflexivity. }
  subst b.
  assert (Hgoal : emits (bits_frag_loop (S (length bytes')) s bytes' (-1) 0 (sub64 (N.of_nat (length c)) (u64z 0)) 0) bl
             (L ++ (if N.of_nat (length c) =? 0 then [] else align (length (bl ++ L)) ++ c))).
  { apply bits_frag_once; auto; try lia.
    rewrite Hnc. change (Z.to_N 0) with 0. rewrite N.sub_0_r. apply lendet_emits; auto. apply small_prefix in Hsm. exact Hsm. }
  rewrite Hnc in Hgoal. exact Hgoal.
Qed.
